(* TRANSL - the syntactic tie between the Go source and the Gallina model.
   This is not a property file.  Generated/SdfExpr.v and Generated/MatrixExpr.v are re-translated
   from the Go AST of the current source tree on every run (harness/sdfgen, harness/exprgen);
   each theorem below says that the definition generated from one Go function is equal, for all
   arguments and over an arbitrary `O : Ops`, to the hand-written model function the rest of the
   development reasons about (Geo/Vec.v, Geo/Box.v, Geo/Mat.v, Sdf/Union2.v, Sdf/Shape.v).  The
   proofs (Sdf/GenEq.v, tactics Sdf/GenEqTac.v) decide the equality by conversion, where needed on every
   branch of an exhaustive case analysis over the atomic tests of the `if` conditions, and for loops over
   arbitrary lists by an induction stated for any loop body meeting the specification of one iteration.
   No law of arithmetic is used (the Ops are abstract): a semantic edit of the Go function (or of the model
   function) breaks the theorem named after it; reformatting, comments, parentheses, renaming of locals,
   reordering of independent statements, helper functions extracted or inlined, named (also function-local)
   constants, nested if/else against else-if chains, `switch`, early returns, && / || against tests made one
   after the other, index loops against range loops, make+index against append, a declaration moved to
   another file of its package do not.  (Where the Evaluate closure of a constructor changes the SHAPE of its
   control flow, the closures are compared pointwise and Print Assumptions reports functional extensionality.)
   TRANSL_<Type>      (Circle, Cone, Sor, ...): the Evaluate method.  The receiver fields are
                      parameters of the generated definition; the theorem substitutes what the
                      model constructor k_xxx pre-computes and speaks about the closure of the
                      object k_xxx returns.
   TRANSL_<Func>_ctor : a constructor: the generated function, which returns None
                      where Go returns nil / an error and otherwise (Evaluate, BoundingBox) of the
                      struct it built, is the model's k_xxx object for object (argument checks,
                      pre-computed fields, closure, bounding box); wrapped SDFs are non-nil.
   Code with loops (last part of the file).  `for .. range`, `for i := 0; i < n; i++` (nested, with
   `continue`), `xs[i] = v`, `append`, `make`, Go ints (Z) are translated into fold_left / range_loop /
   count_loop / list_set over the tuple of variables the body assigns (Num/Loop.v).  Where the
   slice is concrete (the vertices of a box) the equality is still by computation + case split;
   where the operand list or the count is arbitrary (Union2D/3D, Array2D/3D, RotateUnion2D/3D,
   VecSet.Min/Max, mulVertices) it is an induction stated for any loop body that satisfies the
   specification of one iteration, which the generated body is shown to satisfy by conversion.
   A slice of SDFs is the list of (Evaluate, BoundingBox) pairs (`pf2`, `pf3`) of its operands.
   Constructors whose proof involves an induction are stated with obj2_same / obj3_same (same
   bounding box, pointwise the same distance function) so that no functional extensionality is
   used.  Union2D/Union3D: nil operands are stripped by the Go code; here all operands are non-nil.
   SetMin/SetMax/SetExtrude: the new values of the fields they assign (UnionSDF2.SetMin: the blend
   function and the flag that switches the box pruning off).
   sdf/mesh2.go: newLineInfo (the struct it returns is the tuple of its fields), lineInfo.minDistance2,
   lineInfo.winding (Sdf/GenEqPoly.v, an obligation of C04).
   Not covered: Center2D,
   CenterAndScale2D, LineOf2D/3D, Multi2D/3D, Orient3D (compositions of the above), screw.go,
   poly.go, bezier.go, the quadtree of mesh2.go, text (other translators / the sampled correspondence
   of C04/C17/C18). *)
From Coq Require Import ZArith List Bool.
From Sdfx Require Import Num.Ops Num.Loop Geo.Vec Geo.Box Geo.Mat Sdf.Union2 Sdf.Shape Generated.SdfExpr Sdf.GenEq.
From Sdfx Require Import Sdf.Poly Sdf.GenEqPoly.
Import OpsNotations ListNotations.
Local Open Scope ops_scope.

Theorem TRANSL_v2_Add : forall (O : Ops),
    forall a b : V2 O, v2_Vec_Add a b = v2add a b.
Proof. exact (@v2_Add_eq). Qed.
Print Assumptions TRANSL_v2_Add.

Theorem TRANSL_v2_Sub : forall (O : Ops),
    forall a b : V2 O, v2_Vec_Sub a b = v2sub a b.
Proof. exact (@v2_Sub_eq). Qed.
Print Assumptions TRANSL_v2_Sub.

Theorem TRANSL_v2_Mul : forall (O : Ops),
    forall a b : V2 O, v2_Vec_Mul a b = v2mul a b.
Proof. exact (@v2_Mul_eq). Qed.
Print Assumptions TRANSL_v2_Mul.

Theorem TRANSL_v2_Div : forall (O : Ops),
    forall a b : V2 O, v2_Vec_Div a b = v2div a b.
Proof. exact (@v2_Div_eq). Qed.
Print Assumptions TRANSL_v2_Div.

Theorem TRANSL_v2_Neg : forall (O : Ops),
    forall a : V2 O, v2_Vec_Neg a = v2neg a.
Proof. exact (@v2_Neg_eq). Qed.
Print Assumptions TRANSL_v2_Neg.

Theorem TRANSL_v2_Abs : forall (O : Ops),
    forall a : V2 O, v2_Vec_Abs a = v2abs a.
Proof. exact (@v2_Abs_eq). Qed.
Print Assumptions TRANSL_v2_Abs.

Theorem TRANSL_v2_MulScalar : forall (O : Ops),
    forall (a : V2 O) (k : T O), v2_Vec_MulScalar a k = v2muls a k.
Proof. exact (@v2_MulScalar_eq). Qed.
Print Assumptions TRANSL_v2_MulScalar.

Theorem TRANSL_v2_AddScalar : forall (O : Ops),
    forall (a : V2 O) (k : T O), v2_Vec_AddScalar a k = v2adds a k.
Proof. exact (@v2_AddScalar_eq). Qed.
Print Assumptions TRANSL_v2_AddScalar.

Theorem TRANSL_v2_SubScalar : forall (O : Ops),
    forall (a : V2 O) (k : T O), v2_Vec_SubScalar a k = v2subs a k.
Proof. exact (@v2_SubScalar_eq). Qed.
Print Assumptions TRANSL_v2_SubScalar.

Theorem TRANSL_v2_Min : forall (O : Ops),
    forall a b : V2 O, v2_Vec_Min a b = v2min a b.
Proof. exact (@v2_Min_eq). Qed.
Print Assumptions TRANSL_v2_Min.

Theorem TRANSL_v2_Max : forall (O : Ops),
    forall a b : V2 O, v2_Vec_Max a b = v2max a b.
Proof. exact (@v2_Max_eq). Qed.
Print Assumptions TRANSL_v2_Max.

Theorem TRANSL_v2_Dot : forall (O : Ops),
    forall a b : V2 O, v2_Vec_Dot a b = v2dot a b.
Proof. exact (@v2_Dot_eq). Qed.
Print Assumptions TRANSL_v2_Dot.

Theorem TRANSL_v2_Cross : forall (O : Ops),
    forall a b : V2 O, v2_Vec_Cross a b = v2cross a b.
Proof. exact (@v2_Cross_eq). Qed.
Print Assumptions TRANSL_v2_Cross.

Theorem TRANSL_v2_Length2 : forall (O : Ops),
    forall a : V2 O, v2_Vec_Length2 a = v2len2 a.
Proof. exact (@v2_Length2_eq). Qed.
Print Assumptions TRANSL_v2_Length2.

Theorem TRANSL_v2_Length : forall (O : Ops),
    forall a : V2 O, v2_Vec_Length a = v2len a.
Proof. exact (@v2_Length_eq). Qed.
Print Assumptions TRANSL_v2_Length.

Theorem TRANSL_v2_Normalize : forall (O : Ops),
    forall a : V2 O, v2_Vec_Normalize a = v2normalize a.
Proof. exact (@v2_Normalize_eq). Qed.
Print Assumptions TRANSL_v2_Normalize.

Theorem TRANSL_v2_MinComponent : forall (O : Ops),
    forall a : V2 O, v2_Vec_MinComponent a = v2mincomp a.
Proof. exact (@v2_MinComponent_eq). Qed.
Print Assumptions TRANSL_v2_MinComponent.

Theorem TRANSL_v2_MaxComponent : forall (O : Ops),
    forall a : V2 O, v2_Vec_MaxComponent a = v2maxcomp a.
Proof. exact (@v2_MaxComponent_eq). Qed.
Print Assumptions TRANSL_v2_MaxComponent.

Theorem TRANSL_v2_clamp : forall (O : Ops),
    forall x a b : T O, v2_clamp x a b = clamp x a b.
Proof. exact (@v2_clamp_eq). Qed.
Print Assumptions TRANSL_v2_clamp.

Theorem TRANSL_v2_Clamp : forall (O : Ops),
    forall a b c : V2 O, v2_Vec_Clamp a b c = v2clamp a b c.
Proof. exact (@v2_Clamp_eq). Qed.
Print Assumptions TRANSL_v2_Clamp.

Theorem TRANSL_v2_DivScalar : forall (O : Ops),
    forall (a : V2 O) (k : T O), v2_Vec_DivScalar a k = v2divs a k.
Proof. exact (@v2_DivScalar_eq). Qed.
Print Assumptions TRANSL_v2_DivScalar.

Theorem TRANSL_v3_Add : forall (O : Ops),
    forall a b : V3 O, v3_Vec_Add a b = v3add a b.
Proof. exact (@v3_Add_eq). Qed.
Print Assumptions TRANSL_v3_Add.

Theorem TRANSL_v3_Sub : forall (O : Ops),
    forall a b : V3 O, v3_Vec_Sub a b = v3sub a b.
Proof. exact (@v3_Sub_eq). Qed.
Print Assumptions TRANSL_v3_Sub.

Theorem TRANSL_v3_Mul : forall (O : Ops),
    forall a b : V3 O, v3_Vec_Mul a b = v3mul a b.
Proof. exact (@v3_Mul_eq). Qed.
Print Assumptions TRANSL_v3_Mul.

Theorem TRANSL_v3_Div : forall (O : Ops),
    forall a b : V3 O, v3_Vec_Div a b = v3div a b.
Proof. exact (@v3_Div_eq). Qed.
Print Assumptions TRANSL_v3_Div.

Theorem TRANSL_v3_Neg : forall (O : Ops),
    forall a : V3 O, v3_Vec_Neg a = v3neg a.
Proof. exact (@v3_Neg_eq). Qed.
Print Assumptions TRANSL_v3_Neg.

Theorem TRANSL_v3_Abs : forall (O : Ops),
    forall a : V3 O, v3_Vec_Abs a = v3abs a.
Proof. exact (@v3_Abs_eq). Qed.
Print Assumptions TRANSL_v3_Abs.

Theorem TRANSL_v3_MulScalar : forall (O : Ops),
    forall (a : V3 O) (k : T O), v3_Vec_MulScalar a k = v3muls a k.
Proof. exact (@v3_MulScalar_eq). Qed.
Print Assumptions TRANSL_v3_MulScalar.

Theorem TRANSL_v3_AddScalar : forall (O : Ops),
    forall (a : V3 O) (k : T O), v3_Vec_AddScalar a k = v3adds a k.
Proof. exact (@v3_AddScalar_eq). Qed.
Print Assumptions TRANSL_v3_AddScalar.

Theorem TRANSL_v3_SubScalar : forall (O : Ops),
    forall (a : V3 O) (k : T O), v3_Vec_SubScalar a k = v3subs a k.
Proof. exact (@v3_SubScalar_eq). Qed.
Print Assumptions TRANSL_v3_SubScalar.

Theorem TRANSL_v3_Min : forall (O : Ops),
    forall a b : V3 O, v3_Vec_Min a b = v3min a b.
Proof. exact (@v3_Min_eq). Qed.
Print Assumptions TRANSL_v3_Min.

Theorem TRANSL_v3_Max : forall (O : Ops),
    forall a b : V3 O, v3_Vec_Max a b = v3max a b.
Proof. exact (@v3_Max_eq). Qed.
Print Assumptions TRANSL_v3_Max.

Theorem TRANSL_v3_Dot : forall (O : Ops),
    forall a b : V3 O, v3_Vec_Dot a b = v3dot a b.
Proof. exact (@v3_Dot_eq). Qed.
Print Assumptions TRANSL_v3_Dot.

Theorem TRANSL_v3_Cross : forall (O : Ops),
    forall a b : V3 O, v3_Vec_Cross a b = v3cross a b.
Proof. exact (@v3_Cross_eq). Qed.
Print Assumptions TRANSL_v3_Cross.

Theorem TRANSL_v3_Length2 : forall (O : Ops),
    forall a : V3 O, v3_Vec_Length2 a = v3len2 a.
Proof. exact (@v3_Length2_eq). Qed.
Print Assumptions TRANSL_v3_Length2.

Theorem TRANSL_v3_Length : forall (O : Ops),
    forall a : V3 O, v3_Vec_Length a = v3len a.
Proof. exact (@v3_Length_eq). Qed.
Print Assumptions TRANSL_v3_Length.

Theorem TRANSL_v3_Normalize : forall (O : Ops),
    forall a : V3 O, v3_Vec_Normalize a = v3normalize a.
Proof. exact (@v3_Normalize_eq). Qed.
Print Assumptions TRANSL_v3_Normalize.

Theorem TRANSL_v3_MinComponent : forall (O : Ops),
    forall a : V3 O, v3_Vec_MinComponent a = v3mincomp a.
Proof. exact (@v3_MinComponent_eq). Qed.
Print Assumptions TRANSL_v3_MinComponent.

Theorem TRANSL_v3_MaxComponent : forall (O : Ops),
    forall a : V3 O, v3_Vec_MaxComponent a = v3maxcomp a.
Proof. exact (@v3_MaxComponent_eq). Qed.
Print Assumptions TRANSL_v3_MaxComponent.

Theorem TRANSL_v3_clamp : forall (O : Ops),
    forall x a b : T O, v3_clamp x a b = clamp x a b.
Proof. exact (@v3_clamp_eq). Qed.
Print Assumptions TRANSL_v3_clamp.

Theorem TRANSL_v3_Clamp : forall (O : Ops),
    forall a b c : V3 O, v3_Vec_Clamp a b c = v3clamp a b c.
Proof. exact (@v3_Clamp_eq). Qed.
Print Assumptions TRANSL_v3_Clamp.

Theorem TRANSL_v3_DivScalar : forall (O : Ops),
    forall (a : V3 O) (k : T O), v3_Vec_DivScalar a k = v3divs a k.
Proof. exact (@v3_DivScalar_eq). Qed.
Print Assumptions TRANSL_v3_DivScalar.

Theorem TRANSL_v3_LTEZero : forall (O : Ops),
    forall a : V3 O, v3_Vec_LTEZero a = v3_lte_zero a.
Proof. exact (@v3_LTEZero_eq). Qed.
Print Assumptions TRANSL_v3_LTEZero.

Theorem TRANSL_NewBox2 : forall (O : Ops),
    forall center size : V2 O, sdf_NewBox2 center size = newbox2 center size.
Proof. exact (@NewBox2_eq). Qed.
Print Assumptions TRANSL_NewBox2.

Theorem TRANSL_Box2_Extend : forall (O : Ops),
    forall a b : Box2 O, sdf_Box2_Extend a b = box2_extend a b.
Proof. exact (@Box2_Extend_eq). Qed.
Print Assumptions TRANSL_Box2_Extend.

Theorem TRANSL_Box2_Include : forall (O : Ops),
    forall (a : Box2 O) (v : V2 O), sdf_Box2_Include a v = box2_include a v.
Proof. exact (@Box2_Include_eq). Qed.
Print Assumptions TRANSL_Box2_Include.

Theorem TRANSL_Box2_Translate : forall (O : Ops),
    forall (a : Box2 O) (v : V2 O), sdf_Box2_Translate a v = box2_translate a v.
Proof. exact (@Box2_Translate_eq). Qed.
Print Assumptions TRANSL_Box2_Translate.

Theorem TRANSL_Box2_Size : forall (O : Ops),
    forall a : Box2 O, sdf_Box2_Size a = box2_size a.
Proof. exact (@Box2_Size_eq). Qed.
Print Assumptions TRANSL_Box2_Size.

Theorem TRANSL_Box2_Center : forall (O : Ops),
    forall a : Box2 O, sdf_Box2_Center a = box2_center a.
Proof. exact (@Box2_Center_eq). Qed.
Print Assumptions TRANSL_Box2_Center.

Theorem TRANSL_Box2_ScaleAboutCenter : forall (O : Ops),
    forall (a : Box2 O) (k : T O), sdf_Box2_ScaleAboutCenter a k = box2_scale_about_center a k.
Proof. exact (@Box2_ScaleAboutCenter_eq). Qed.
Print Assumptions TRANSL_Box2_ScaleAboutCenter.

Theorem TRANSL_Box2_Enlarge : forall (O : Ops),
    forall (a : Box2 O) (v : V2 O), sdf_Box2_Enlarge a v = box2_enlarge a v.
Proof. exact (@Box2_Enlarge_eq). Qed.
Print Assumptions TRANSL_Box2_Enlarge.

Theorem TRANSL_Box2_Contains : forall (O : Ops),
    forall (a : Box2 O) (v : V2 O), sdf_Box2_Contains a v = box2_contains a v.
Proof. exact (@Box2_Contains_eq). Qed.
Print Assumptions TRANSL_Box2_Contains.

Theorem TRANSL_Box2_Vertices : forall (O : Ops),
    forall a : Box2 O, sdf_Box2_Vertices a = box2_vertices a.
Proof. exact (@Box2_Vertices_eq). Qed.
Print Assumptions TRANSL_Box2_Vertices.

Theorem TRANSL_NewBox3 : forall (O : Ops),
    forall center size : V3 O, sdf_NewBox3 center size = newbox3 center size.
Proof. exact (@NewBox3_eq). Qed.
Print Assumptions TRANSL_NewBox3.

Theorem TRANSL_Box3_Extend : forall (O : Ops),
    forall a b : Box3 O, sdf_Box3_Extend a b = box3_extend a b.
Proof. exact (@Box3_Extend_eq). Qed.
Print Assumptions TRANSL_Box3_Extend.

Theorem TRANSL_Box3_Include : forall (O : Ops),
    forall (a : Box3 O) (v : V3 O), sdf_Box3_Include a v = box3_include a v.
Proof. exact (@Box3_Include_eq). Qed.
Print Assumptions TRANSL_Box3_Include.

Theorem TRANSL_Box3_Translate : forall (O : Ops),
    forall (a : Box3 O) (v : V3 O), sdf_Box3_Translate a v = box3_translate a v.
Proof. exact (@Box3_Translate_eq). Qed.
Print Assumptions TRANSL_Box3_Translate.

Theorem TRANSL_Box3_Size : forall (O : Ops),
    forall a : Box3 O, sdf_Box3_Size a = box3_size a.
Proof. exact (@Box3_Size_eq). Qed.
Print Assumptions TRANSL_Box3_Size.

Theorem TRANSL_Box3_Center : forall (O : Ops),
    forall a : Box3 O, sdf_Box3_Center a = box3_center a.
Proof. exact (@Box3_Center_eq). Qed.
Print Assumptions TRANSL_Box3_Center.

Theorem TRANSL_Box3_ScaleAboutCenter : forall (O : Ops),
    forall (a : Box3 O) (k : T O), sdf_Box3_ScaleAboutCenter a k = box3_scale_about_center a k.
Proof. exact (@Box3_ScaleAboutCenter_eq). Qed.
Print Assumptions TRANSL_Box3_ScaleAboutCenter.

Theorem TRANSL_Box3_Enlarge : forall (O : Ops),
    forall (a : Box3 O) (v : V3 O), sdf_Box3_Enlarge a v = box3_enlarge a v.
Proof. exact (@Box3_Enlarge_eq). Qed.
Print Assumptions TRANSL_Box3_Enlarge.

Theorem TRANSL_Box3_Contains : forall (O : Ops),
    forall (a : Box3 O) (v : V3 O), sdf_Box3_Contains a v = box3_contains a v.
Proof. exact (@Box3_Contains_eq). Qed.
Print Assumptions TRANSL_Box3_Contains.

Theorem TRANSL_Box3_Vertices : forall (O : Ops),
    forall a : Box3 O, sdf_Box3_Vertices a = box3_vertices a.
Proof. exact (@Box3_Vertices_eq). Qed.
Print Assumptions TRANSL_Box3_Vertices.

Theorem TRANSL_M33_MulBox : forall (O : Ops),
    forall (a : list (T O)) (box : Box2 O), sdf_M33_MulBox a box = m33_mulbox a box.
Proof. exact (@M33_MulBox_eq). Qed.
Print Assumptions TRANSL_M33_MulBox.

Theorem TRANSL_M44_MulBox : forall (O : Ops),
    forall (a : list (T O)) (box : Box3 O), sdf_M44_MulBox a box = m44_mulbox a box.
Proof. exact (@M44_MulBox_eq). Qed.
Print Assumptions TRANSL_M44_MulBox.

Theorem TRANSL_Clamp : forall (O : Ops),
    forall x a b : T O, sdf_Clamp x a b = clamp x a b.
Proof. exact (@Clamp_eq). Qed.
Print Assumptions TRANSL_Clamp.

Theorem TRANSL_Mix : forall (O : Ops),
    forall x y a : T O, sdf_Mix x y a = mix x y a.
Proof. exact (@Mix_eq). Qed.
Print Assumptions TRANSL_Mix.

Theorem TRANSL_Sign : forall (O : Ops),
    forall x : T O, sdf_Sign x = sign x.
Proof. exact (@Sign_eq). Qed.
Print Assumptions TRANSL_Sign.

Theorem TRANSL_SawTooth : forall (O : Ops),
    forall x period : T O, sdf_SawTooth x period = sawtooth x period.
Proof. exact (@SawTooth_eq). Qed.
Print Assumptions TRANSL_SawTooth.

Theorem TRANSL_poly : forall (O : Ops),
    forall a b k : T O, sdf_poly a b k = poly a b k.
Proof. exact (@poly_eq). Qed.
Print Assumptions TRANSL_poly.

Theorem TRANSL_sqrtHalf : forall (O : Ops),
    sdf_sqrtHalf = @sqrt_half O.
Proof. exact (@sqrtHalf_eq). Qed.
Print Assumptions TRANSL_sqrtHalf.

Theorem TRANSL_Pi : forall (O : Ops),
    sdf_Pi = opi O.
Proof. exact (@Pi_eq). Qed.
Print Assumptions TRANSL_Pi.

Theorem TRANSL_RoundMin : forall (O : Ops),
    forall k a b : T O, sdf_RoundMin k a b = min_apply (MinRound k) a b.
Proof. exact (@RoundMin_eq). Qed.
Print Assumptions TRANSL_RoundMin.

Theorem TRANSL_ChamferMin : forall (O : Ops),
    forall k a b : T O, sdf_ChamferMin k a b = min_apply (MinChamfer k) a b.
Proof. exact (@ChamferMin_eq). Qed.
Print Assumptions TRANSL_ChamferMin.

Theorem TRANSL_PolyMin : forall (O : Ops),
    forall k a b : T O, sdf_PolyMin k a b = min_apply (MinPoly k) a b.
Proof. exact (@PolyMin_eq). Qed.
Print Assumptions TRANSL_PolyMin.

Theorem TRANSL_PolyMax : forall (O : Ops),
    forall k a b : T O, sdf_PolyMax k a b = max_apply (MaxPoly k) a b.
Proof. exact (@PolyMax_eq). Qed.
Print Assumptions TRANSL_PolyMax.

Theorem TRANSL_NormalExtrude : forall (O : Ops),
    forall p : V3 O, sdf_NormalExtrude p = ex_normal p.
Proof. exact (@NormalExtrude_eq). Qed.
Print Assumptions TRANSL_NormalExtrude.

Theorem TRANSL_TwistExtrude : forall (O : Ops),
    forall (height twist : T O) (p : V3 O), sdf_TwistExtrude height twist p = ex_twist height twist p.
Proof. exact (@TwistExtrude_eq). Qed.
Print Assumptions TRANSL_TwistExtrude.

Theorem TRANSL_ScaleExtrude : forall (O : Ops),
    forall (height : T O) (scale : V2 O) (p : V3 O),
    sdf_ScaleExtrude height scale p = ex_scale height scale p.
Proof. exact (@ScaleExtrude_eq). Qed.
Print Assumptions TRANSL_ScaleExtrude.

Theorem TRANSL_ScaleTwistExtrude : forall (O : Ops),
    forall (height twist : T O) (scale : V2 O) (p : V3 O),
    sdf_ScaleTwistExtrude height twist scale p = ex_scaletwist height twist scale p.
Proof. exact (@ScaleTwistExtrude_eq). Qed.
Print Assumptions TRANSL_ScaleTwistExtrude.

Theorem TRANSL_sdfBox2d : forall (O : Ops),
    forall p s : V2 O, sdf_sdfBox2d p s = sdf_box2d p s.
Proof. exact (@sdfBox2d_eq). Qed.
Print Assumptions TRANSL_sdfBox2d.

Theorem TRANSL_Circle : forall (O : Ops),
    forall (radius : T O) o p, k_circle radius = Some o ->
    sdf_CircleSDF2_Evaluate radius p = ev2 o p.
Proof. exact (@Circle_eq). Qed.
Print Assumptions TRANSL_Circle.

Theorem TRANSL_Box2 : forall (O : Ops),
    forall (size : V2 O) round o p, k_box2 size round = Some o ->
    sdf_BoxSDF2_Evaluate (v2subs (v2muls size k05) round) round p = ev2 o p.
Proof. exact (@Box2_eq). Qed.
Print Assumptions TRANSL_Box2.

Theorem TRANSL_Line2 : forall (O : Ops),
    forall (l : T O) round o p, k_line2 l round = Some o ->
    sdf_LineSDF2_Evaluate (l / two) round p = ev2 o p.
Proof. exact (@Line2_eq). Qed.
Print Assumptions TRANSL_Line2.

Theorem TRANSL_Offset2 : forall (O : Ops),
    forall (s : Obj2 O) offset o p, k_offset2 s offset = Some o ->
    sdf_OffsetSDF2_Evaluate (ev2 s) offset p = ev2 o p.
Proof. exact (@Offset2_eq). Qed.
Print Assumptions TRANSL_Offset2.

Theorem TRANSL_Intersect2 : forall (O : Ops),
    forall m (s0 s1 : Obj2 O) o p, k_intersect2 m s0 s1 = Some o ->
    sdf_IntersectionSDF2_Evaluate (ev2 s0) (ev2 s1) (max_apply m) p = ev2 o p.
Proof. exact (@Intersect2_eq). Qed.
Print Assumptions TRANSL_Intersect2.

Theorem TRANSL_Difference2 : forall (O : Ops),
    forall m (s0 s1 : Obj2 O) o p, k_difference2 m s0 s1 = Some o ->
    sdf_DifferenceSDF2_Evaluate (ev2 s0) (ev2 s1) (max_apply m) p = ev2 o p.
Proof. exact (@Difference2_eq). Qed.
Print Assumptions TRANSL_Difference2.

Theorem TRANSL_Cut2 : forall (O : Ops),
    forall (s : Obj2 O) a v o p, k_cut2 s a v = Some o ->
    sdf_CutSDF2_Evaluate (ev2 s) a (let v := v2normalize v in mkV2 (- vy v) (vx v)) p = ev2 o p.
Proof. exact (@Cut2_eq). Qed.
Print Assumptions TRANSL_Cut2.

Theorem TRANSL_Transform2 : forall (O : Ops),
    forall (s : Obj2 O) m o p, k_transform2 s m = Some o ->
    sdf_TransformSDF2_Evaluate (ev2 s) (m33_inverse m) p = ev2 o p.
Proof. exact (@Transform2_eq). Qed.
Print Assumptions TRANSL_Transform2.

Theorem TRANSL_ScaleUniform2 : forall (O : Ops),
    forall (s : Obj2 O) k o p, k_scaleuniform2 s k = Some o ->
    sdf_ScaleUniformSDF2_Evaluate (ev2 s) k (o1 O / k) p = ev2 o p.
Proof. exact (@ScaleUniform2_eq). Qed.
Print Assumptions TRANSL_ScaleUniform2.

Theorem TRANSL_Elongate2 : forall (O : Ops),
    forall (s : Obj2 O) h o p, k_elongate2 s h = Some o ->
    sdf_ElongateSDF2_Evaluate (ev2 s) (v2muls (v2abs h) k05) (v2muls (v2abs h) (- k05)) p = ev2 o p.
Proof. exact (@Elongate2_eq). Qed.
Print Assumptions TRANSL_Elongate2.

Theorem TRANSL_P2ToV2 : forall (O : Ops),
    forall r th : T O, conv_P2ToV2 (r, th) = mkV2 (r * ocos O th) (r * osin O th).
Proof. exact (@P2ToV2_eq). Qed.
Print Assumptions TRANSL_P2ToV2.

Theorem TRANSL_RotateCopy2 : forall (O : Ops),
    forall (s : Obj2 O) n o p, k_rotatecopy2 s n = Some o ->
    sdf_RotateCopySDF2_Evaluate (ev2 s) (tau / ofZ O n) p = ev2 o p.
Proof. exact (@RotateCopy2_eq). Qed.
Print Assumptions TRANSL_RotateCopy2.

Theorem TRANSL_Slice2 : forall (O : Ops),
    forall (s : Obj3 O) a n o p, k_slice2 s a n = Some o ->
    sdf_SliceSDF2_Evaluate (ev3 s) a (v3normalize (slice_u0 n)) (v3normalize (v3cross n (slice_u0 n))) p = ev2 o p.
Proof. exact (@Slice2_eq). Qed.
Print Assumptions TRANSL_Slice2.

Theorem TRANSL_sdfBox3d : forall (O : Ops),
    forall p s : V3 O, sdf_sdfBox3d p s = sdf_box3d p s.
Proof. exact (@sdfBox3d_eq). Qed.
Print Assumptions TRANSL_sdfBox3d.

Theorem TRANSL_Sphere : forall (O : Ops),
    forall (radius : T O) o p, k_sphere radius = Some o ->
    sdf_SphereSDF3_Evaluate radius p = ev3 o p.
Proof. exact (@Sphere_eq). Qed.
Print Assumptions TRANSL_Sphere.

Theorem TRANSL_Box3 : forall (O : Ops),
    forall (size : V3 O) round o p, k_box3 size round = Some o ->
    sdf_BoxSDF3_Evaluate (v3subs (v3muls size k05) round) round p = ev3 o p.
Proof. exact (@Box3_eq). Qed.
Print Assumptions TRANSL_Box3.

Theorem TRANSL_Cylinder : forall (O : Ops),
    forall (height : T O) radius round o p, k_cylinder height radius round = Some o ->
    sdf_CylinderSDF3_Evaluate ((height / two) - round) (radius - round) round p = ev3 o p.
Proof. exact (@Cylinder_eq). Qed.
Print Assumptions TRANSL_Cylinder.

Theorem TRANSL_Cone : forall (O : Ops),
    forall (height : T O) r0 r1 round o p, k_cone height r0 r1 round = Some o ->
    sdf_ConeSDF3_Evaluate (cone_sr0 height r0 r1 round) (cone_sr1 height r0 r1 round) (cone_sh height round) round
    (cone_u height r0 r1) (cone_n height r0 r1) (cone_l height r0 r1 round) p = ev3 o p.
Proof. exact (@Cone_eq). Qed.
Print Assumptions TRANSL_Cone.

Theorem TRANSL_Sor : forall (O : Ops),
    forall (s : Obj2 O) theta0 o p, k_revolve s theta0 = Some o ->
    let theta := ofmod O (oabs O theta0) tau in
    sdf_SorSDF3_Evaluate (ev2 s) theta (mkV2 (- osin O theta) (ocos O theta)) p = ev3 o p.
Proof. exact (@Sor_eq). Qed.
Print Assumptions TRANSL_Sor.

Theorem TRANSL_Extrude_eval : forall (O : Ops),
    forall (s : Obj2 O) sh ex p, sdf_ExtrudeSDF3_Evaluate (ev2 s) sh ex p = extrude_ev s sh ex p.
Proof. exact (@Extrude_eval_eq). Qed.
Print Assumptions TRANSL_Extrude_eval.

Theorem TRANSL_Extrude : forall (O : Ops),
    forall (s : Obj2 O) height o p, k_extrude s height = Some o ->
    sdf_ExtrudeSDF3_Evaluate (ev2 s) (height / two) sdf_NormalExtrude p = ev3 o p.
Proof. exact (@Extrude_eq). Qed.
Print Assumptions TRANSL_Extrude.

Theorem TRANSL_TwistExtrude3D : forall (O : Ops),
    forall (s : Obj2 O) height twist o p, k_twistextrude s height twist = Some o ->
    sdf_ExtrudeSDF3_Evaluate (ev2 s) (height / two) (sdf_TwistExtrude height twist) p = ev3 o p.
Proof. exact (@TwistExtrude3D_eq). Qed.
Print Assumptions TRANSL_TwistExtrude3D.

Theorem TRANSL_ExtrudeRounded_tail : forall (O : Ops),
    forall (f : V2 O -> T O) (sh round : T O) (p : V3 O),
    sdf_ExtrudeRoundedSDF3_Evaluate f sh round p = rounded_combine (f (mkV2 (wx p) (wy p))) (oabs O (wz p) - sh) round.
Proof. exact (@ExtrudeRounded_tail_eq). Qed.
Print Assumptions TRANSL_ExtrudeRounded_tail.

Theorem TRANSL_ExtrudeRounded : forall (O : Ops),
    forall (s : Obj2 O) height round o p, (round =? o0 O) = false ->
    k_extruderounded s height round = Some o ->
    sdf_ExtrudeRoundedSDF3_Evaluate (ev2 s) ((height / two) - round) round p = ev3 o p.
Proof. exact (@ExtrudeRounded_eq). Qed.
Print Assumptions TRANSL_ExtrudeRounded.

Theorem TRANSL_Loft : forall (O : Ops),
    forall (s0 s1 : Obj2 O) height round o p, k_loft s0 s1 height round = Some o ->
    sdf_LoftSDF3_Evaluate (ev2 s0) (ev2 s1) ((height / two) - round) round p = ev3 o p.
Proof. exact (@Loft_eq). Qed.
Print Assumptions TRANSL_Loft.

Theorem TRANSL_Transform3 : forall (O : Ops),
    forall (s : Obj3 O) m o p, k_transform3 s m = Some o ->
    sdf_TransformSDF3_Evaluate (ev3 s) (m44_inverse m) p = ev3 o p.
Proof. exact (@Transform3_eq). Qed.
Print Assumptions TRANSL_Transform3.

Theorem TRANSL_ScaleUniform3 : forall (O : Ops),
    forall (s : Obj3 O) k o p, k_scaleuniform3 s k = Some o ->
    sdf_ScaleUniformSDF3_Evaluate (ev3 s) k (o1 O / k) p = ev3 o p.
Proof. exact (@ScaleUniform3_eq). Qed.
Print Assumptions TRANSL_ScaleUniform3.

Theorem TRANSL_Difference3 : forall (O : Ops),
    forall m (s0 s1 : Obj3 O) o p, k_difference3 m s0 s1 = Some o ->
    sdf_DifferenceSDF3_Evaluate (ev3 s0) (ev3 s1) (max_apply m) p = ev3 o p.
Proof. exact (@Difference3_eq). Qed.
Print Assumptions TRANSL_Difference3.

Theorem TRANSL_Intersect3 : forall (O : Ops),
    forall m (s0 s1 : Obj3 O) o p, k_intersect3 m s0 s1 = Some o ->
    sdf_IntersectionSDF3_Evaluate (ev3 s0) (ev3 s1) (max_apply m) p = ev3 o p.
Proof. exact (@Intersect3_eq). Qed.
Print Assumptions TRANSL_Intersect3.

Theorem TRANSL_Elongate3 : forall (O : Ops),
    forall (s : Obj3 O) h o p, k_elongate3 s h = Some o ->
    sdf_ElongateSDF3_Evaluate (ev3 s) (v3muls (v3abs h) k05) (v3muls (v3abs h) (- k05)) p = ev3 o p.
Proof. exact (@Elongate3_eq). Qed.
Print Assumptions TRANSL_Elongate3.

Theorem TRANSL_Cut3 : forall (O : Ops),
    forall (s : Obj3 O) a n o p, k_cut3 s a n = Some o ->
    sdf_CutSDF3_Evaluate (ev3 s) a (v3neg (v3normalize n)) p = ev3 o p.
Proof. exact (@Cut3_eq). Qed.
Print Assumptions TRANSL_Cut3.

Theorem TRANSL_Offset3 : forall (O : Ops),
    forall (s : Obj3 O) offset o p, k_offset3 s offset = Some o ->
    sdf_OffsetSDF3_Evaluate (ev3 s) offset p = ev3 o p.
Proof. exact (@Offset3_eq). Qed.
Print Assumptions TRANSL_Offset3.

Theorem TRANSL_Shell3 : forall (O : Ops),
    forall (s : Obj3 O) thickness o p, k_shell3 s thickness = Some o ->
    sdf_ShellSDF3_Evaluate (ev3 s) (k05 * thickness) p = ev3 o p.
Proof. exact (@Shell3_eq). Qed.
Print Assumptions TRANSL_Shell3.

Theorem TRANSL_RotateCopy3 : forall (O : Ops),
    forall (s : Obj3 O) n o p, k_rotatecopy3 s n = Some o ->
    sdf_RotateCopySDF3_Evaluate (ev3 s) (tau / ofZ O n) p = ev3 o p.
Proof. exact (@RotateCopy3_eq). Qed.
Print Assumptions TRANSL_RotateCopy3.

Theorem TRANSL_Circle2D_ctor : forall (O : Ops),
    forall radius : T O, option_map obj2_of (sdf_Circle2D radius) = k_circle radius.
Proof. exact (@Circle2D_ctor). Qed.
Print Assumptions TRANSL_Circle2D_ctor.

Theorem TRANSL_Box2D_ctor : forall (O : Ops),
    forall (size : V2 O) (round : T O), option_map obj2_of (sdf_Box2D size round) = k_box2 size round.
Proof. exact (@Box2D_ctor). Qed.
Print Assumptions TRANSL_Box2D_ctor.

Theorem TRANSL_Line2D_ctor : forall (O : Ops),
    forall l round : T O, option_map obj2_of (sdf_Line2D l round) = k_line2 l round.
Proof. exact (@Line2D_ctor). Qed.
Print Assumptions TRANSL_Line2D_ctor.

Theorem TRANSL_Offset2D_ctor : forall (O : Ops),
    forall (s : Obj2 O) (offset : T O),
    option_map obj2_of (sdf_Offset2D (ev2 s) (bb2 s) offset) = k_offset2 s offset.
Proof. exact (@Offset2D_ctor). Qed.
Print Assumptions TRANSL_Offset2D_ctor.

Theorem TRANSL_Intersect2D_ctor : forall (O : Ops),
    forall s0 s1 : Obj2 O,
    option_map obj2_of (sdf_Intersect2D (ev2 s0) (bb2 s0) (ev2 s1) (bb2 s1)) = k_intersect2 MaxDef s0 s1.
Proof. exact (@Intersect2D_ctor). Qed.
Print Assumptions TRANSL_Intersect2D_ctor.

Theorem TRANSL_Difference2D_ctor : forall (O : Ops),
    forall s0 s1 : Obj2 O,
    option_map obj2_of (sdf_Difference2D (ev2 s0) (bb2 s0) (ev2 s1) (bb2 s1)) = k_difference2 MaxDef s0 s1.
Proof. exact (@Difference2D_ctor). Qed.
Print Assumptions TRANSL_Difference2D_ctor.

Theorem TRANSL_Cut2D_ctor : forall (O : Ops),
    forall (s : Obj2 O) (a v : V2 O),
    option_map obj2_of (sdf_Cut2D (ev2 s) (bb2 s) a v) = k_cut2 s a v.
Proof. exact (@Cut2D_ctor). Qed.
Print Assumptions TRANSL_Cut2D_ctor.

Theorem TRANSL_Transform2D_ctor : forall (O : Ops),
    forall (s : Obj2 O) (m : list (T O)),
    option_map obj2_of (sdf_Transform2D (ev2 s) (bb2 s) m) = k_transform2 s m.
Proof. exact (@Transform2D_ctor). Qed.
Print Assumptions TRANSL_Transform2D_ctor.

Theorem TRANSL_ScaleUniform2D_ctor : forall (O : Ops),
    forall (s : Obj2 O) (k : T O),
    option_map obj2_of (sdf_ScaleUniform2D (ev2 s) (bb2 s) k) = k_scaleuniform2 s k.
Proof. exact (@ScaleUniform2D_ctor). Qed.
Print Assumptions TRANSL_ScaleUniform2D_ctor.

Theorem TRANSL_Elongate2D_ctor : forall (O : Ops),
    forall (s : Obj2 O) (h : V2 O),
    option_map obj2_of (sdf_Elongate2D (ev2 s) (bb2 s) h) = k_elongate2 s h.
Proof. exact (@Elongate2D_ctor). Qed.
Print Assumptions TRANSL_Elongate2D_ctor.

Theorem TRANSL_Sphere3D_ctor : forall (O : Ops),
    forall radius : T O, option_map obj3_of (sdf_Sphere3D radius) = k_sphere radius.
Proof. exact (@Sphere3D_ctor). Qed.
Print Assumptions TRANSL_Sphere3D_ctor.

Theorem TRANSL_Box3D_ctor : forall (O : Ops),
    forall (size : V3 O) (round : T O), option_map obj3_of (sdf_Box3D size round) = k_box3 size round.
Proof. exact (@Box3D_ctor). Qed.
Print Assumptions TRANSL_Box3D_ctor.

Theorem TRANSL_Cylinder3D_ctor : forall (O : Ops),
    forall height radius round : T O,
    option_map obj3_of (sdf_Cylinder3D height radius round) = k_cylinder height radius round.
Proof. exact (@Cylinder3D_ctor). Qed.
Print Assumptions TRANSL_Cylinder3D_ctor.

Theorem TRANSL_Capsule3D_ctor : forall (O : Ops),
    forall height radius : T O,
    option_map obj3_of (sdf_Capsule3D height radius) = k_cylinder height radius radius.
Proof. exact (@Capsule3D_ctor). Qed.
Print Assumptions TRANSL_Capsule3D_ctor.

Theorem TRANSL_Cone3D_ctor : forall (O : Ops),
    forall height r0 r1 round : T O,
    option_map obj3_of (sdf_Cone3D height r0 r1 round) = k_cone height r0 r1 round.
Proof. exact (@Cone3D_ctor). Qed.
Print Assumptions TRANSL_Cone3D_ctor.

Theorem TRANSL_Extrude3D_ctor : forall (O : Ops),
    forall (s : Obj2 O) (height : T O),
    option_map obj3_of (sdf_Extrude3D (ev2 s) (bb2 s) height) = k_extrude s height.
Proof. exact (@Extrude3D_ctor). Qed.
Print Assumptions TRANSL_Extrude3D_ctor.

Theorem TRANSL_ExtrudeRounded3D_ctor : forall (O : Ops),
    forall (s : Obj2 O) (height round : T O),
    option_map obj3_of (sdf_ExtrudeRounded3D (ev2 s) (bb2 s) height round) = k_extruderounded s height round.
Proof. exact (@ExtrudeRounded3D_ctor). Qed.
Print Assumptions TRANSL_ExtrudeRounded3D_ctor.

Theorem TRANSL_Transform3D_ctor : forall (O : Ops),
    forall (s : Obj3 O) (m : list (T O)),
    option_map obj3_of (sdf_Transform3D (ev3 s) (bb3 s) m) = k_transform3 s m.
Proof. exact (@Transform3D_ctor). Qed.
Print Assumptions TRANSL_Transform3D_ctor.

Theorem TRANSL_ScaleUniform3D_ctor : forall (O : Ops),
    forall (s : Obj3 O) (k : T O),
    option_map obj3_of (sdf_ScaleUniform3D (ev3 s) (bb3 s) k) = k_scaleuniform3 s k.
Proof. exact (@ScaleUniform3D_ctor). Qed.
Print Assumptions TRANSL_ScaleUniform3D_ctor.

Theorem TRANSL_Difference3D_ctor : forall (O : Ops),
    forall s0 s1 : Obj3 O,
    option_map obj3_of (sdf_Difference3D (ev3 s0) (bb3 s0) (ev3 s1) (bb3 s1)) = k_difference3 MaxDef s0 s1.
Proof. exact (@Difference3D_ctor). Qed.
Print Assumptions TRANSL_Difference3D_ctor.

Theorem TRANSL_Intersect3D_ctor : forall (O : Ops),
    forall s0 s1 : Obj3 O,
    option_map obj3_of (sdf_Intersect3D (ev3 s0) (bb3 s0) (ev3 s1) (bb3 s1)) = k_intersect3 MaxDef s0 s1.
Proof. exact (@Intersect3D_ctor). Qed.
Print Assumptions TRANSL_Intersect3D_ctor.

Theorem TRANSL_Cut3D_ctor : forall (O : Ops),
    forall (s : Obj3 O) (a n : V3 O),
    option_map obj3_of (sdf_Cut3D (ev3 s) (bb3 s) a n) = k_cut3 s a n.
Proof. exact (@Cut3D_ctor). Qed.
Print Assumptions TRANSL_Cut3D_ctor.

Theorem TRANSL_Elongate3D_ctor : forall (O : Ops),
    forall (s : Obj3 O) (h : V3 O),
    option_map obj3_of (sdf_Elongate3D (ev3 s) (bb3 s) h) = k_elongate3 s h.
Proof. exact (@Elongate3D_ctor). Qed.
Print Assumptions TRANSL_Elongate3D_ctor.

Theorem TRANSL_Offset3D_ctor : forall (O : Ops),
    forall (s : Obj3 O) (offset : T O),
    option_map obj3_of (sdf_Offset3D (ev3 s) (bb3 s) offset) = k_offset3 s offset.
Proof. exact (@Offset3D_ctor). Qed.
Print Assumptions TRANSL_Offset3D_ctor.

Theorem TRANSL_Shell3D_ctor : forall (O : Ops),
    forall (s : Obj3 O) (thickness : T O),
    option_map obj3_of (sdf_Shell3D (ev3 s) (bb3 s) thickness) = k_shell3 s thickness.
Proof. exact (@Shell3D_ctor). Qed.
Print Assumptions TRANSL_Shell3D_ctor.

Theorem TRANSL_ScaleExtrude3D_ctor : forall (O : Ops),
    forall (s : Obj2 O) (height : T O) (scale : V2 O),
    option_map obj3_of (sdf_ScaleExtrude3D (ev2 s) (bb2 s) height scale) = k_scaleextrude s height scale.
Proof. exact (@ScaleExtrude3D_ctor). Qed.
Print Assumptions TRANSL_ScaleExtrude3D_ctor.

Theorem TRANSL_Loft3D_ctor : forall (O : Ops),
    forall (s0 s1 : Obj2 O) (height round : T O),
    option_map obj3_of (sdf_Loft3D (ev2 s0) (bb2 s0) (ev2 s1) (bb2 s1) height round) = k_loft s0 s1 height round.
Proof. exact (@Loft3D_ctor). Qed.
Print Assumptions TRANSL_Loft3D_ctor.

(* ================================================================ code with loops *)

Theorem TRANSL_v2_VecSet_Min : forall (O : Ops),
    forall l : list (V2 O), v2_VecSet_Min l = v2set_min l.
Proof. exact (@v2_VecSet_Min_eq). Qed.
Print Assumptions TRANSL_v2_VecSet_Min.

Theorem TRANSL_v2_VecSet_Max : forall (O : Ops),
    forall l : list (V2 O), v2_VecSet_Max l = v2set_max l.
Proof. exact (@v2_VecSet_Max_eq). Qed.
Print Assumptions TRANSL_v2_VecSet_Max.

Theorem TRANSL_v3_VecSet_Min : forall (O : Ops),
    forall l : list (V3 O), v3_VecSet_Min l = v3set_min l.
Proof. exact (@v3_VecSet_Min_eq). Qed.
Print Assumptions TRANSL_v3_VecSet_Min.

Theorem TRANSL_v3_VecSet_Max : forall (O : Ops),
    forall l : list (V3 O), v3_VecSet_Max l = v3set_max l.
Proof. exact (@v3_VecSet_Max_eq). Qed.
Print Assumptions TRANSL_v3_VecSet_Max.

Theorem TRANSL_mulVertices2 : forall (O : Ops),
    forall (v : list (V2 O)) (a : list (T O)), sdf_mulVertices2 v a = map (m33_mulposition a) v.
Proof. exact (@mulVertices2_eq). Qed.
Print Assumptions TRANSL_mulVertices2.

Theorem TRANSL_mulVertices3 : forall (O : Ops),
    forall (v : list (V3 O)) (a : list (T O)), sdf_mulVertices3 v a = map (m44_mulposition a) v.
Proof. exact (@mulVertices3_eq). Qed.
Print Assumptions TRANSL_mulVertices3.

(* Box2/Box3.MinMaxDist2: the vertex loop and the side / face / edge cases (C16) *)
Theorem TRANSL_Box2_MinMaxDist2 : forall (O : Ops),
    forall (a : Box2 O) (p : V2 O), sdf_Box2_MinMaxDist2 a p = box2_minmax a p.
Proof. exact (@Box2_MinMaxDist2_eq). Qed.
Print Assumptions TRANSL_Box2_MinMaxDist2.

Theorem TRANSL_Box3_MinMaxDist2 : forall (O : Ops),
    forall (a : Box3 O) (p : V3 O), sdf_Box3_MinMaxDist2 a p = box3_minmax a p.
Proof. exact (@Box3_MinMaxDist2_eq). Qed.
Print Assumptions TRANSL_Box3_MinMaxDist2.

(* UnionSDF2.EvaluateSlow / Evaluate (box-pruned; C16), for every operand list and blend *)
Theorem TRANSL_UnionSlow2 : forall (O : Ops),
    forall (minf : T O -> T O -> T O) (l : list (Obj2 O)) (p : V2 O),
    sdf_UnionSDF2_EvaluateSlow (map pf2 l) minf p =
    evaluate_slow minf (map (fun x => (box2_minmax (bb2 x) p, ev2 x p)) l).
Proof. exact (@UnionSlow2_eq). Qed.
Print Assumptions TRANSL_UnionSlow2.

Theorem TRANSL_Union2_eval : forall (O : Ops),
    forall mk (l : list (Obj2 O)) (p : V2 O), (0 < length l)%nat ->
    sdf_UnionSDF2_Evaluate (map pf2 l) (min_apply mk) (min_is_blend mk) p =
    evaluate (min_is_blend mk) (min_apply mk) (map (fun x => (box2_minmax (bb2 x) p, ev2 x p)) l).
Proof. exact (@Union2_eval_eq). Qed.
Print Assumptions TRANSL_Union2_eval.

Theorem TRANSL_Union2 : forall (O : Ops),
    forall mk (l : list (Obj2 O)) o p, (2 <= length l)%nat -> k_union2 mk l = Some o ->
    sdf_UnionSDF2_Evaluate (map pf2 l) (min_apply mk) (min_is_blend mk) p = ev2 o p.
Proof. exact (@Union2_eq). Qed.
Print Assumptions TRANSL_Union2.

Theorem TRANSL_Union3 : forall (O : Ops),
    forall mk (l : list (Obj3 O)) o p, (2 <= length l)%nat -> k_union3 mk l = Some o ->
    sdf_UnionSDF3_Evaluate (map pf3 l) (min_apply mk) p = ev3 o p.
Proof. exact (@Union3_eq). Qed.
Print Assumptions TRANSL_Union3.

Theorem TRANSL_Union2D_ctor : forall (O : Ops),
    forall l : list (Obj2 O),
    obj2_same (option_map obj2_of (sdf_Union2D (map pf2 l))) (k_union2 MinDef l).
Proof. exact (@Union2D_ctor). Qed.
Print Assumptions TRANSL_Union2D_ctor.

Theorem TRANSL_Union3D_ctor : forall (O : Ops),
    forall l : list (Obj3 O),
    obj3_same (option_map obj3_of (sdf_Union3D (map pf3 l))) (k_union3 MinDef l).
Proof. exact (@Union3D_ctor). Qed.
Print Assumptions TRANSL_Union3D_ctor.

(* Array2D / Array3D: nested counting loops; num is the integer vector (nx, ny[, nz]) *)
Theorem TRANSL_Array2 : forall (O : Ops),
    forall mk (s : Obj2 O) nx ny step o p, k_array2 mk s nx ny step = Some o ->
    sdf_ArraySDF2_Evaluate (ev2 s) (nx, ny) step (min_apply mk) p = ev2 o p.
Proof. exact (@Array2_eq). Qed.
Print Assumptions TRANSL_Array2.

Theorem TRANSL_Array3 : forall (O : Ops),
    forall mk (s : Obj3 O) nx ny nz step o p, k_array3 mk s nx ny nz step = Some o ->
    sdf_ArraySDF3_Evaluate (ev3 s) (nx, ny, nz) step (min_apply mk) p = ev3 o p.
Proof. exact (@Array3_eq). Qed.
Print Assumptions TRANSL_Array3.

Theorem TRANSL_Array2D_ctor : forall (O : Ops),
    forall (s : Obj2 O) nx ny step,
    option_map obj2_of (sdf_Array2D (ev2 s) (bb2 s) (nx, ny) step) = k_array2 MinDef s nx ny step.
Proof. exact (@Array2D_ctor). Qed.
Print Assumptions TRANSL_Array2D_ctor.

Theorem TRANSL_Array3D_ctor : forall (O : Ops),
    forall (s : Obj3 O) nx ny nz step,
    option_map obj3_of (sdf_Array3D (ev3 s) (bb3 s) (nx, ny, nz) step) = k_array3 MinDef s nx ny nz step.
Proof. exact (@Array3D_ctor). Qed.
Print Assumptions TRANSL_Array3D_ctor.

(* RotateUnion2D / 3D: the evaluation loop (rot = rot * step) and the bounding-box loop *)
Theorem TRANSL_RotateUnion2 : forall (O : Ops),
    forall mk (s : Obj2 O) num step o p, k_rotateunion2 mk s num step = Some o ->
    sdf_RotateUnionSDF2_Evaluate (ev2 s) num (m33_inverse step) (min_apply mk) p = ev2 o p.
Proof. exact (@RotateUnion2_eq). Qed.
Print Assumptions TRANSL_RotateUnion2.

Theorem TRANSL_RotateUnion3 : forall (O : Ops),
    forall mk (s : Obj3 O) num step o p, k_rotateunion3 mk s num step = Some o ->
    sdf_RotateUnionSDF3_Evaluate (ev3 s) num (m44_inverse step) (min_apply mk) p = ev3 o p.
Proof. exact (@RotateUnion3_eq). Qed.
Print Assumptions TRANSL_RotateUnion3.

Theorem TRANSL_RotateUnion2D_ctor : forall (O : Ops),
    forall (s : Obj2 O) num step,
    obj2_same (option_map obj2_of (sdf_RotateUnion2D (ev2 s) (bb2 s) num step)) (k_rotateunion2 MinDef s num step).
Proof. exact (@RotateUnion2D_ctor). Qed.
Print Assumptions TRANSL_RotateUnion2D_ctor.

Theorem TRANSL_RotateUnion3D_ctor : forall (O : Ops),
    forall (s : Obj3 O) num step,
    obj3_same (option_map obj3_of (sdf_RotateUnion3D (ev3 s) (bb3 s) num step)) (k_rotateunion3 MinDef s num step).
Proof. exact (@RotateUnion3D_ctor). Qed.
Print Assumptions TRANSL_RotateUnion3D_ctor.

(* constructors whose loops run over the vertices of the operand's bounding box *)
Theorem TRANSL_RotateCopy2D_ctor : forall (O : Ops),
    forall (s : Obj2 O) n,
    option_map obj2_of (sdf_RotateCopy2D (ev2 s) (bb2 s) n) = k_rotatecopy2 s n.
Proof. exact (@RotateCopy2D_ctor). Qed.
Print Assumptions TRANSL_RotateCopy2D_ctor.

Theorem TRANSL_RotateCopy3D_ctor : forall (O : Ops),
    forall (s : Obj3 O) n,
    option_map obj3_of (sdf_RotateCopy3D (ev3 s) (bb3 s) n) = k_rotatecopy3 s n.
Proof. exact (@RotateCopy3D_ctor). Qed.
Print Assumptions TRANSL_RotateCopy3D_ctor.

Theorem TRANSL_Slice2D_ctor : forall (O : Ops),
    forall (s : Obj3 O) a n,
    option_map obj2_of (sdf_Slice2D (ev3 s) (bb3 s) a n) = k_slice2 s a n.
Proof. exact (@Slice2D_ctor). Qed.
Print Assumptions TRANSL_Slice2D_ctor.

Theorem TRANSL_RevolveTheta3D_ctor : forall (O : Ops),
    forall (s : Obj2 O) theta,
    option_map obj3_of (sdf_RevolveTheta3D (ev2 s) (bb2 s) theta) = k_revolve s theta.
Proof. exact (@RevolveTheta3D_ctor). Qed.
Print Assumptions TRANSL_RevolveTheta3D_ctor.

Theorem TRANSL_Revolve3D_ctor : forall (O : Ops),
    forall (s : Obj2 O),
    option_map obj3_of (sdf_Revolve3D (ev2 s) (bb2 s)) = k_revolve s (o0 O).
Proof. exact (@Revolve3D_ctor). Qed.
Print Assumptions TRANSL_Revolve3D_ctor.

Theorem TRANSL_TwistExtrude3D_ctor : forall (O : Ops),
    forall (s : Obj2 O) height twist,
    option_map obj3_of (sdf_TwistExtrude3D (ev2 s) (bb2 s) height twist) = k_twistextrude s height twist.
Proof. exact (@TwistExtrude3D_ctor). Qed.
Print Assumptions TRANSL_TwistExtrude3D_ctor.

Theorem TRANSL_ScaleTwistExtrude3D_ctor : forall (O : Ops),
    forall (s : Obj2 O) height twist scale,
    option_map obj3_of (sdf_ScaleTwistExtrude3D (ev2 s) (bb2 s) height twist scale) = k_scaletwistextrude s height twist scale.
Proof. exact (@ScaleTwistExtrude3D_ctor). Qed.
Print Assumptions TRANSL_ScaleTwistExtrude3D_ctor.

(* mutators *)
Theorem TRANSL_UnionSDF2_SetMin : forall (O : Ops),
    forall mk : MinK O, mk <> MinDef ->
    sdf_UnionSDF2_SetMin (min_apply mk) = (min_apply mk, min_is_blend mk).
Proof. exact (@UnionSDF2_SetMin_eq). Qed.
Print Assumptions TRANSL_UnionSDF2_SetMin.

Theorem TRANSL_SetMin_SetMax : forall (O : Ops),
    forall f : T O -> T O -> T O,
    sdf_IntersectionSDF2_SetMax f = f /\ sdf_DifferenceSDF2_SetMax f = f /\ sdf_ArraySDF2_SetMin f = f /\
    sdf_RotateUnionSDF2_SetMin f = f /\ sdf_UnionSDF3_SetMin f = f /\ sdf_DifferenceSDF3_SetMax f = f /\
    sdf_IntersectionSDF3_SetMax f = f /\ sdf_ArraySDF3_SetMin f = f /\ sdf_RotateUnionSDF3_SetMin f = f.
Proof. exact (@SetMin_SetMax_eq). Qed.
Print Assumptions TRANSL_SetMin_SetMax.

Theorem TRANSL_SetExtrude : forall (O : Ops),
    forall f : V3 O -> V2 O, sdf_ExtrudeSDF3_SetExtrude f = f.
Proof. exact (@SetExtrude_eq). Qed.
Print Assumptions TRANSL_SetExtrude.

(* sdf/mesh2.go: the per-segment functions of the polygon SDF (C04) *)
Theorem TRANSL_newLineInfo : forall (O : Ops),
    forall l : @Seg O, li_of (sdf_newLineInfo l) = new_line_info l.
Proof. exact (@newLineInfo_eq). Qed.
Print Assumptions TRANSL_newLineInfo.

Theorem TRANSL_lineInfo_minDistance2 : forall (O : Ops),
    forall (a : @LineInfo O) (p : V2 O),
    sdf_lineInfo_minDistance2 (li_a a, li_b a) (li_u a) (li_len a) p = min_distance2 a p.
Proof. exact (@lineInfo_minDistance2_eq). Qed.
Print Assumptions TRANSL_lineInfo_minDistance2.

Theorem TRANSL_lineInfo_winding : forall (O : Ops),
    forall (a : @LineInfo O) (p : V2 O),
    sdf_lineInfo_winding (li_a a, li_b a) (li_u a) p = winding a p.
Proof. exact (@lineInfo_winding_eq). Qed.
Print Assumptions TRANSL_lineInfo_winding.

(* sdf/cams.go, sdf/flange.go, sdf/rack.go, sdf/spiral.go: the primitives of Sdf/Prim2X.v (Sdf/GenEqX.v).
   Not translated: ArcSpiral2D / ArcSpiralSDF2.Evaluate (unbounded loops; differential execution in C01),
   GearRack2D (builds a polygon), MakeThreeArcCam (sdf/line.go intersection). *)
From Sdfx Require Import Sdf.Prim2X Sdf.GenEqX.
Theorem TRANSL_FlatFlankCam : forall (O : Ops) (distance baseRadius noseRadius : T O) (a u : V2 O) (l : T O) (p : V2 O),
    sdf_FlatFlankCamSDF2_Evaluate distance baseRadius noseRadius a u l p = flatflank_ev distance baseRadius noseRadius a u l p.
Proof. exact (@FlatFlankCam_eq). Qed.
Print Assumptions TRANSL_FlatFlankCam.
Theorem TRANSL_FlatFlankCam2D_ctor : forall (O : Ops) (distance baseRadius noseRadius : T O),
    option_map obj2_of (sdf_FlatFlankCam2D distance baseRadius noseRadius) = k_flatflankcam distance baseRadius noseRadius.
Proof. exact (@FlatFlankCam2D_ctor). Qed.
Print Assumptions TRANSL_FlatFlankCam2D_ctor.
Theorem TRANSL_MakeFlatFlankCam_ctor : forall (O : Ops) (lift duration maxDiameter : T O),
    option_map obj2_of (sdf_MakeFlatFlankCam lift duration maxDiameter) = k_makeflatflankcam lift duration maxDiameter.
Proof. exact (@MakeFlatFlankCam_ctor). Qed.
Print Assumptions TRANSL_MakeFlatFlankCam_ctor.
Theorem TRANSL_Flange1 : forall (O : Ops) (distance centerRadius sideRadius : T O) (a u : V2 O) (l : T O) (p : V2 O),
    sdf_Flange1_Evaluate distance centerRadius sideRadius a u l p = flange1_ev distance centerRadius sideRadius a u l p.
Proof. exact (@Flange1_eq). Qed.
Print Assumptions TRANSL_Flange1.
Theorem TRANSL_NewFlange1_ctor : forall (O : Ops) (distance centerRadius sideRadius : T O),
    option_map obj2_of (sdf_NewFlange1 distance centerRadius sideRadius) = k_flange1 distance centerRadius sideRadius.
Proof. exact (@NewFlange1_ctor). Qed.
Print Assumptions TRANSL_NewFlange1_ctor.
Theorem TRANSL_ThreeArcCam : forall (O : Ops) (distance baseRadius noseRadius flankRadius : T O) (fc : V2 O)
    (thetaBase thetaNose : T O) (p : V2 O),
    sdf_ThreeArcCamSDF2_Evaluate distance baseRadius noseRadius flankRadius fc thetaBase thetaNose p
    = threearc_ev distance baseRadius noseRadius flankRadius fc thetaBase thetaNose p.
Proof. exact (@ThreeArcCam_eq). Qed.
Print Assumptions TRANSL_ThreeArcCam.
Theorem TRANSL_ThreeArcCam2D_ctor : forall (O : Ops) (distance baseRadius noseRadius flankRadius : T O),
    option_map obj2_of (sdf_ThreeArcCam2D distance baseRadius noseRadius flankRadius)
    = k_threearccam distance baseRadius noseRadius flankRadius.
Proof. exact (@ThreeArcCam2D_ctor). Qed.
Print Assumptions TRANSL_ThreeArcCam2D_ctor.
Theorem TRANSL_GearRack : forall (O : Ops) (tooth : V2 O -> T O) (pitch length : T O) (p : V2 O),
    sdf_GearRackSDF2_Evaluate tooth pitch length p = gearrack_ev tooth pitch length p.
Proof. exact (@GearRack_eq). Qed.
Print Assumptions TRANSL_GearRack.
Theorem TRANSL_polarDist2 : forall (O : Ops) (p0 p1 : T O * T O), sdf_polarDist2 p0 p1 = polar_dist2 p0 p1.
Proof. exact (@polarDist2_eq). Qed.
Print Assumptions TRANSL_polarDist2.
