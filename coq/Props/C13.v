(* C13 - theorems only.  See DESIGN.md section 6, C13.
   Models: Io/F32.v (float32 conversions on integers), Io/Stl.v (binary layout,
   SaveSTL, the streaming writer of ToSTL, loadSTLBinary, Normal), Io/StlLoad.v
   (LoadSTL, ASCII path). *)
From Coq Require Import List ZArith NArith Floats Reals Lra.
From Sdfx Require Import Io.F32 Io.Stl Io.StlLoad.
From Coq Require String.
Import ListNotations.
Import String.StringSyntax.
Open Scope N_scope.

(* ---- layout: 80-byte header + count, 50 bytes per triangle, for any Normal() *)
Theorem C13_header_length : forall count, length (encode_header count) = 84%nat.
Proof. exact header_length. Qed.
Print Assumptions C13_header_length.

Theorem C13_triangle_length : forall normal t, length (encode_triangle normal t) = 50%nat.
Proof. exact triangle_length. Qed.
Print Assumptions C13_triangle_length.

Theorem C13_file_length : forall normal ts, length (save normal ts) = (84 + 50 * length ts)%nat.
Proof. exact save_length. Qed.
Print Assumptions C13_file_length.

Theorem C13_bytes_well_formed : forall normal ts, bytes_ok (save normal ts).
Proof. exact save_bytes_ok. Qed.
Print Assumptions C13_bytes_well_formed.

(* the count field (bytes 80..83, little endian) is the number of triangles *)
Theorem C13_count_field : forall normal ts, nlen ts < 2 ^ 32 ->
  unle (firstn 4 (skipn 80 (save normal ts))) = nlen ts.
Proof. exact count_field. Qed.
Print Assumptions C13_count_field.

(* a record is the 12 float32 words Normal, Vertex1, Vertex2, Vertex3 (each the
   float32 rounding of the input, in order and winding) followed by two zero bytes *)
Theorem C13_record_layout : forall normal t,
  encode_triangle normal t = encode_words (tri_words normal t) ++ [0; 0] /\
  words_of (encode_triangle normal t) = tri_words normal t /\
  (let '(a, b, c) := t in
   tri_words normal t = vec_words (normal t) ++ vec_words a ++ vec_words b ++ vec_words c).
Proof. exact record_layout. Qed.
Print Assumptions C13_record_layout.

(* ---- exact round trip, for every triangle list that fits the uint32 count *)
Theorem C13_roundtrip : forall normal ts, nlen ts < 2 ^ 32 ->
  decode (save normal ts) = Some (map round_tri ts).
Proof. exact roundtrip. Qed.
Print Assumptions C13_roundtrip.

(* ---- streaming writer = batch writer: every batch partition, every buffer size *)
Theorem C13_stream_eq_batch : forall normal cap batches,
  stream_save normal cap batches = save normal (concat batches).
Proof. exact stream_eq_batch. Qed.
Print Assumptions C13_stream_eq_batch.

(* ---- float32 layer *)
Theorem C13_narrow_is_32_bits : forall x, narrow32 x < 2 ^ 32.
Proof. exact narrow32_lt. Qed.
Print Assumptions C13_narrow_is_32_bits.

(* widening then narrowing is the identity on every non-NaN float32 pattern *)
Theorem C13_narrow_widen_id : forall w, w < 2 ^ 32 -> is_nan32 w = false -> narrow32 (widen32 w) = w.
Proof. exact narrow_widen. Qed.
Print Assumptions C13_narrow_widen_id.

Theorem C13_widen_injective : forall w1 w2,
  w1 < 2 ^ 32 -> w2 < 2 ^ 32 -> is_nan32 w1 = false -> is_nan32 w2 = false ->
  widen32 w1 = widen32 w2 -> w1 = w2.
Proof. exact widen32_injective. Qed.
Print Assumptions C13_widen_injective.

(* what a load returns is a fixed point of the float32 rounding *)
Theorem C13_round32_idempotent : forall x, is_nan32 (narrow32 x) = false -> round32 (round32 x) = round32 x.
Proof. exact round32_idempotent. Qed.
Print Assumptions C13_round32_idempotent.

(* The mantissa rounding step is to nearest, ties to even.  Partial: this is the
   integer statement about [round_shift]; that [narrow_mag] picks the IEEE exponent
   (24 significant bits, subnormals below 2^-126, overflow to infinity) is tied to
   Go's conversion and to SpecFloat.binary_normalize by execution
   (F32.narrow_samples, cases_conv_*.v), not proved against Flocq. *)
Theorem C13_rounding_nearest_even_partial : forall m k, k <> 0 ->
  let q := round_shift m k in
  (2 * (m - q * 2 ^ k) <= 2 ^ k /\ 2 * (q * 2 ^ k - m) <= 2 ^ k) /\
  ((2 * (m - q * 2 ^ k) = 2 ^ k \/ 2 * (q * 2 ^ k - m) = 2 ^ k) -> N.even q = true).
Proof. exact round_shift_nearest. Qed.
Print Assumptions C13_rounding_nearest_even_partial.

(* ---- the normal.  Over the reals, Normal() of a non-degenerate triangle is the unit
   vector along (b-a)x(c-a).  Partial: the stored normal is the float32 rounding of the
   binary64 evaluation of the same text ([normal_g float_ops]); its distance from the
   real value is measured by the harness (300-bit reference), not proved. *)
Theorem C13_normal_right_handed_partial : forall a b c : R * R * R,
  let n := normal_g R_ops a b c in
  let cr := crossR (subR b a) (subR c a) in
  dotR cr cr <> 0%R ->
  dotR n n = 1%R /\ dotR n (subR b a) = 0%R /\ dotR n (subR c a) = 0%R /\
  (0 < dotR n cr)%R /\ scale3 R_ops n (sqrt (dotR cr cr)) = cr.
Proof. exact normal_right_handed. Qed.
Print Assumptions C13_normal_right_handed_partial.

(* ---- ASCII: a well-formed listing loads to the triangles it lists, given the
   ParseFloat oracle.  [listing] allows arbitrary non-vertex lines and requires three
   consecutive parsable vertex lines per triangle; [ascii_stl] is the usual layout. *)
Theorem C13_ascii_load : forall parse_float ver f ts,
  listing parse_float (f_lines f) ts -> f_scan_err f = false ->
  binary_alloc f = 0 -> nlen (f_bytes f) <> 84 ->
  (ver = Repaired \/ 84 <= nlen (f_bytes f)) ->
  load parse_float ver f = Mesh ts.
Proof. exact load_ascii_file. Qed.
Print Assumptions C13_ascii_load.

Theorem C13_ascii_layout_is_listing : forall parse_float name facets ts,
  parse_facets parse_float facets = Some ts -> listing parse_float (ascii_stl name facets) ts.
Proof. exact ascii_stl_listing. Qed.
Print Assumptions C13_ascii_layout_is_listing.

(* The pinned LoadSTL read the 84-byte binary header first, so the well-formed
   facet-free listing "solid x / endsolid x" (shorter than 84 bytes, lists no
   triangle) was an error instead of the empty mesh (repaired by a fix: commit). *)
Theorem C13_pinned_short_ascii_refuted : forall parse_float,
  listing parse_float (f_lines empty_listing) [] /\
  load parse_float Pinned empty_listing = Err /\ load parse_float Repaired empty_listing = Mesh [].
Proof. exact pinned_short_ascii. Qed.
Print Assumptions C13_pinned_short_ascii_refuted.

(* non-vacuity *)
Example C13_roundtrip_instance :
  let t : tri := ((Prim2SF 0x1.999999999999ap-4, Prim2SF 1, Prim2SF (-2)), (Prim2SF 0x1.78287f49c4a1dp+129, Prim2SF 3, Prim2SF 0x1.244ce242c5561p-153), (Prim2SF 0, Prim2SF 5, Prim2SF 7))%float in
  nlen [t; t] < 2 ^ 32 /\ decode (save_f [t; t]) = Some (map round_tri [t; t]) /\ length (save_f [t; t]) = 184%nat.
Proof. vm_compute. repeat split. Qed.

Example C13_ascii_instance :
  let pf := witness_parse in
  parse_facets pf [(("0", "0", "1"), (("0", "0", "0"), ("1", "0", "0"), ("0", "1", "0")))]%string
  = Some [((S754_zero false, S754_zero false, S754_zero false),
           (Prim2SF 1, S754_zero false, S754_zero false),
           (S754_zero false, Prim2SF 1, S754_zero false))].
Proof. vm_compute. reflexivity. Qed.

Example C13_normal_instance :
  (dotR (crossR (subR (1, 0, 0) (0, 0, 0)) (subR (0, 1, 0) (0, 0, 0)))
        (crossR (subR (1, 0, 0) (0, 0, 0)) (subR (0, 1, 0) (0, 0, 0))) <> 0)%R.
Proof. unfold dotR, crossR, subR. cbn. lra. Qed.
