(* C13 - theorems only.  See DESIGN.md section 6, C13.
   Models: Io/F32.v (float32 conversions on integers), Io/Stl.v (binary layout,
   SaveSTL, the streaming writer of ToSTL, loadSTLBinary, Normal), Io/StlLoad.v
   (LoadSTL, ASCII path). *)
From Coq Require Import List ZArith NArith Floats Reals Lra.
From Sdfx Require Import Io.F32 Io.Stl Io.StlLoad.
From Coq Require String.
Import ListNotations.
Import String.StringSyntax.
Open Scope N_scope.

(* ---- layout: 80-byte header + count, 50 bytes per triangle, for any Normal() *)
Theorem C13_header_length : forall count, length (encode_header count) = 84%nat.
Proof. exact header_length. Qed.
Print Assumptions C13_header_length.

Theorem C13_triangle_length : forall normal t, length (encode_triangle normal t) = 50%nat.
Proof. exact triangle_length. Qed.
Print Assumptions C13_triangle_length.

Theorem C13_file_length : forall normal ts, length (save normal ts) = (84 + 50 * length ts)%nat.
Proof. exact save_length. Qed.
Print Assumptions C13_file_length.

Theorem C13_bytes_well_formed : forall normal ts, bytes_ok (save normal ts).
Proof. exact save_bytes_ok. Qed.
Print Assumptions C13_bytes_well_formed.

(* the count field (bytes 80..83, little endian) is the number of triangles *)
Theorem C13_count_field : forall normal ts, nlen ts < 2 ^ 32 ->
  unle (firstn 4 (skipn 80 (save normal ts))) = nlen ts.
Proof. exact count_field. Qed.
Print Assumptions C13_count_field.

(* a record is the 12 float32 words Normal, Vertex1, Vertex2, Vertex3 (each the
   float32 rounding of the input, in order and winding) followed by two zero bytes *)
Theorem C13_record_layout : forall normal t,
  encode_triangle normal t = encode_words (tri_words normal t) ++ [0; 0] /\
  words_of (encode_triangle normal t) = tri_words normal t /\
  (let '(a, b, c) := t in
   tri_words normal t = vec_words (normal t) ++ vec_words a ++ vec_words b ++ vec_words c).
Proof. exact record_layout. Qed.
Print Assumptions C13_record_layout.

(* ---- exact round trip, for every triangle list that fits the uint32 count *)
Theorem C13_roundtrip : forall normal ts, nlen ts < 2 ^ 32 ->
  decode (save normal ts) = Some (map round_tri ts).
Proof. exact roundtrip. Qed.
Print Assumptions C13_roundtrip.

(* ---- streaming writer = batch writer: every batch partition, every buffer size *)
Theorem C13_stream_eq_batch : forall normal cap batches,
  stream_save normal cap batches = save normal (concat batches).
Proof. exact stream_eq_batch. Qed.
Print Assumptions C13_stream_eq_batch.

(* ---- float32 layer *)
Theorem C13_narrow_is_32_bits : forall x, narrow32 x < 2 ^ 32.
Proof. exact narrow32_lt. Qed.
Print Assumptions C13_narrow_is_32_bits.

(* widening then narrowing is the identity on every non-NaN float32 pattern *)
Theorem C13_narrow_widen_id : forall w, w < 2 ^ 32 -> is_nan32 w = false -> narrow32 (widen32 w) = w.
Proof. exact narrow_widen. Qed.
Print Assumptions C13_narrow_widen_id.

Theorem C13_widen_injective : forall w1 w2,
  w1 < 2 ^ 32 -> w2 < 2 ^ 32 -> is_nan32 w1 = false -> is_nan32 w2 = false ->
  widen32 w1 = widen32 w2 -> w1 = w2.
Proof. exact widen32_injective. Qed.
Print Assumptions C13_widen_injective.

(* what a load returns is a fixed point of the float32 rounding *)
Theorem C13_round32_idempotent : forall x, is_nan32 (narrow32 x) = false -> round32 (round32 x) = round32 x.
Proof. exact round32_idempotent. Qed.
Print Assumptions C13_round32_idempotent.

(* ---- the float32 conversion is IEEE-754 rounding, proved against Flocq's specification
   (Io/F32Spec.v).  [round radix2 (FLT_exp (-149) 24) ZnearestE] is round to nearest, ties
   to even, into the binary32 format (24 significant bits, gradual underflow down to
   2^-149); [SF2R radix2 x] is the real value (-1)^s * m * 2^e.  The Flocq names are
   imported inside the section only. *)
From Sdfx Require Io.F32Spec.
Section Float32_is_IEEE.
  Import Flocq.Core.Core Flocq.IEEE754.BinarySingleNaN.
  Local Open Scope R_scope.

  (* float64(float32(x)) for every finite (-1)^s * m * 2^e (any mantissa, any exponent;
     every finite non-zero binary64 is one): the IEEE rounding when that is below 2^128 in
     magnitude - same real value, the sign of x also on a zero result, and a canonical
     binary64 - and otherwise the infinity of the sign of x. *)
  Theorem C13_narrow32_is_IEEE_rounding : forall s m e,
    let x := S754_finite s m e in
    let r := round radix2 (FLT_exp (-149) 24) ZnearestE (SF2R radix2 x) in
    let y := round32 x in
    (Rabs r < bpow radix2 128 ->
       SF2R radix2 y = r /\ is_finite_SF y = true /\ sign_SF y = s /\
       SpecFloat.valid_binary 53 1024 y = true) /\
    (bpow radix2 128 <= Rabs r -> y = S754_infinity s).
  Proof. exact F32Spec.narrow32_is_IEEE_rounding. Qed.
  Print Assumptions C13_narrow32_is_IEEE_rounding.

  (* signed zeros, infinities and NaN go through unchanged *)
  Theorem C13_narrow32_special : forall x,
    match x with S754_finite _ _ _ => True | _ => round32 x = x end.
  Proof. exact F32Spec.round32_special. Qed.
  Print Assumptions C13_narrow32_special.

  (* the same for every finite value of Flocq's binary64 type (zeros included) *)
  Theorem C13_narrow32_binary64 : forall b : binary_float 53 1024, is_finite b = true ->
    let r := round radix2 (FLT_exp (-149) 24) ZnearestE (B2R b) in
    let y := round32 (B2SF b) in
    (Rabs r < bpow radix2 128 ->
       SF2R radix2 y = r /\ is_finite_SF y = true /\ sign_SF y = Bsign b /\
       SpecFloat.valid_binary 53 1024 y = true) /\
    (bpow radix2 128 <= Rabs r -> y = S754_infinity (Bsign b)).
  Proof. exact F32Spec.narrow32_binary64. Qed.
  Print Assumptions C13_narrow32_binary64.

  (* and on Coq's primitive floats (what the cases files evaluate): g = float64(float32(f)) *)
  Theorem C13_narrow32_prim : forall f : PrimFloat.float,
    let bf := Flocq.IEEE754.PrimFloat.Prim2B f in
    is_finite bf = true ->
    let r := round radix2 (FLT_exp (-149) 24) ZnearestE (B2R bf) in
    let g := SF2Prim (round32 (Prim2SF f)) in
    (Rabs r < bpow radix2 128 ->
       is_finite (Flocq.IEEE754.PrimFloat.Prim2B g) = true /\
       B2R (Flocq.IEEE754.PrimFloat.Prim2B g) = r /\
       Bsign (Flocq.IEEE754.PrimFloat.Prim2B g) = Bsign bf) /\
    (bpow radix2 128 <= Rabs r -> g = if Bsign bf then PrimFloat.neg_infinity else PrimFloat.infinity).
  Proof. exact F32Spec.narrow32_prim. Qed.
  Print Assumptions C13_narrow32_prim.

  (* the two steps of the proof that are of independent interest: the exponent the model
     picks is the canonical exponent of the binary32 format, and its mantissa step is
     Flocq's round-to-nearest-even of the exact quotient *)
  Theorem C13_narrow_exponent_is_canonical : forall p e,
    cexp radix2 (FLT_exp (-149) 24) (F2R (Float radix2 (Zpos p) e)) = F32Spec.ulp_exp (Npos p) e.
  Proof. exact F32Spec.cexp_x. Qed.
  Print Assumptions C13_narrow_exponent_is_canonical.

  Theorem C13_round_shift_is_ZnearestE : forall m k,
    ZnearestE (IZR (Z.of_N m) / IZR (2 ^ Z.of_N k)) = Z.of_N (round_shift m k).
  Proof. exact F32Spec.round_shift_ZnearestE. Qed.
  Print Assumptions C13_round_shift_is_ZnearestE.

  (* both cases of C13_narrow32_is_IEEE_rounding occur *)
  Example C13_narrow32_in_range_instance :
    Rabs (round radix2 (FLT_exp (-149) 24) ZnearestE (SF2R radix2 (S754_finite false 1 0))) < bpow radix2 128.
  Proof. exact F32Spec.in_range_instance. Qed.
  Example C13_narrow32_overflow_instance :
    bpow radix2 128 <= Rabs (round radix2 (FLT_exp (-149) 24) ZnearestE (SF2R radix2 (S754_finite false 1 128))).
  Proof. exact F32Spec.overflow_instance. Qed.
End Float32_is_IEEE.

(* Corollary kept from the earlier, partial version: the mantissa step as an integer
   statement (error at most half a unit, the even neighbour on a tie). *)
Theorem C13_rounding_nearest_even : forall m k, k <> 0 ->
  let q := round_shift m k in
  (2 * (m - q * 2 ^ k) <= 2 ^ k /\ 2 * (q * 2 ^ k - m) <= 2 ^ k) /\
  ((2 * (m - q * 2 ^ k) = 2 ^ k \/ 2 * (q * 2 ^ k - m) = 2 ^ k) -> N.even q = true).
Proof. exact round_shift_nearest. Qed.
Print Assumptions C13_rounding_nearest_even.

(* ---- the normal.  Over the reals, Normal() of a non-degenerate triangle is the unit
   vector along (b-a)x(c-a).  Partial: the stored normal is the float32 rounding of the
   binary64 evaluation of the same text ([normal_g float_ops]).  For triangles in the
   regime of C13_normal_stored_error below its distance from this real value is proved
   to be at most 2^-24 per component; for non-degenerate triangles outside that regime
   (needle-like: |(b-a)x(c-a)| < 2^-20 M^2, or edge lengths beyond 2^+-200) it is only
   measured by the harness (300-bit reference) - there the binary64 cross product can
   lose all its digits, so no uniform bound exists. *)
Theorem C13_normal_right_handed_partial : forall a b c : R * R * R,
  let n := normal_g R_ops a b c in
  let cr := crossR (subR b a) (subR c a) in
  dotR cr cr <> 0%R ->
  dotR n n = 1%R /\ dotR n (subR b a) = 0%R /\ dotR n (subR c a) = 0%R /\
  (0 < dotR n cr)%R /\ scale3 R_ops n (sqrt (dotR cr cr)) = cr.
Proof. exact normal_right_handed. Qed.
Print Assumptions C13_normal_right_handed_partial.

(* ---- the stored normal: a proved rounding-error bound (Io/NormalErr.v, forward error
   analysis over Flocq's model of binary64 and binary32 rounding).
   [finite3 v]: the three primitive binary64 floats are finite; [val3 v]: their real values;
   [stored_words ft] = vec_words (normal_f (tri_sf ft)): the three Normal words of the record
   (C13_record_layout); [stored_normal ft]: their real values; [close3 v w e]: componentwise
   |v_i - w_i| <= e; [well_shaped a b c M]: every component of b-a and c-a is at most M in
   magnitude, 2^-200 <= M <= 2^200, and |(b-a) x (c-a)| >= 2^-20 * M^2. *)
From Sdfx Require Io.NormalErr.
Section Stored_normal.
  Import Flocq.Core.Core Flocq.IEEE754.BinarySingleNaN NormalErr.
  Local Open Scope R_scope.

  (* the stored float32 normal of a well-shaped triangle of finite binary64 vertices is
     finite and within 2^-24 of the exact unit normal of C13_normal_right_handed_partial *)
  Theorem C13_normal_stored_error : forall (ft : ftri) (M : R),
    let '(fa, fb, fc) := ft in
    finite3 fa -> finite3 fb -> finite3 fc ->
    well_shaped (val3 fa) (val3 fb) (val3 fc) M ->
    Forall (fun w => is_finite_SF (widen32 w) = true) (stored_words ft) /\
    close3 (stored_normal ft) (normal_g R_ops (val3 fa) (val3 fb) (val3 fc)) (bpow radix2 (-24)).
  Proof. exact stored_normal_error. Qed.
  Print Assumptions C13_normal_stored_error.

  (* the same with the conditioning as a parameter: if 9 u1 M^2 <= th * |(b-a) x (c-a)|
     with th <= 2^-29, the distance is at most 2^-25 + 8 th + 10 u1, u1 = 2^-53 (1 + 2^-100) *)
  Theorem C13_normal_stored_error_conditioned : forall (ft : ftri) (M th : R),
    let '(fa, fb, fc) := ft in
    finite3 fa -> finite3 fb -> finite3 fc ->
    regime (val3 fa) (val3 fb) (val3 fc) M th -> th <= bpow radix2 (-29) ->
    Forall (fun w => is_finite_SF (widen32 w) = true) (stored_words ft) /\
    close3 (stored_normal ft) (normal_g R_ops (val3 fa) (val3 fb) (val3 fc))
           (bpow radix2 (-25) + (8 * th + 10 * u1)).
  Proof. exact stored_normal_error_th. Qed.
  Print Assumptions C13_normal_stored_error_conditioned.

  (* the two halves.  (1) Real arithmetic with a binary64 rounding after every operation
     ([rnd_ops]: rn x = round radix2 (FLT_exp (-1074) 53) ZnearestE x) stays within
     8 th + 10 u1 of the exact normal, and below 1 + that in magnitude. *)
  Theorem C13_normal_binary64_error : forall a b c M th, regime a b c M th ->
    close3 (normal_g rnd_ops a b c) (normal_g R_ops a b c) (8 * th + 10 * u1) /\
    max3 (normal_g rnd_ops a b c) (1 + (8 * th + 10 * u1)).
  Proof. exact normal_rnd_error. Qed.
  Print Assumptions C13_normal_binary64_error.

  (* (2) In the regime Coq's primitive floats (the model's [normal_g float_ops], what the
     cases files run against Go) compute exactly that rounded-real evaluation: every
     intermediate is finite, the radicand positive, the divisor non-zero. *)
  Theorem C13_normal_float_is_rounded_real : forall fa fb fc a b c M th,
    fin3 fa a -> fin3 fb b -> fin3 fc c -> regime a b c M th ->
    fin3 (normal_g float_ops fa fb fc) (normal_g rnd_ops a b c).
  Proof. exact normal_float_eq. Qed.
  Print Assumptions C13_normal_float_is_rounded_real.

  (* the float32 step on a component of magnitude at most 1 + 2^-25 *)
  Theorem C13_float32_unit_error : forall y, Rabs y <= 1 + bpow radix2 (-25) ->
    Rabs (round radix2 (FLT_exp (-149) 24) ZnearestE y - y) <= bpow radix2 (-25) /\
    Rabs (round radix2 (FLT_exp (-149) 24) ZnearestE y) < bpow radix2 128.
  Proof. exact rnd32_unit_err. Qed.
  Print Assumptions C13_float32_unit_error.

  (* the regime is inhabited *)
  Example C13_normal_stored_instance :
    let ft : ftri := ((0, 0, 0), (1, 0, 0), (0, 1, 0))%float in
    let '(fa, fb, fc) := ft in
    finite3 fa /\ finite3 fb /\ finite3 fc /\ well_shaped (val3 fa) (val3 fb) (val3 fc) 1.
  Proof. exact well_shaped_instance. Qed.
End Stored_normal.

(* ---- ASCII: a well-formed listing loads to the triangles it lists, given the
   ParseFloat oracle.  [listing] allows arbitrary non-vertex lines and requires three
   consecutive parsable vertex lines per triangle; [ascii_stl] is the usual layout. *)
Theorem C13_ascii_load : forall parse_float ver f ts,
  listing parse_float (f_lines f) ts -> f_scan_err f = false ->
  binary_alloc f = 0 -> nlen (f_bytes f) <> 84 ->
  (ver = Repaired \/ 84 <= nlen (f_bytes f)) ->
  load parse_float ver f = Mesh ts.
Proof. exact load_ascii_file. Qed.
Print Assumptions C13_ascii_load.

Theorem C13_ascii_layout_is_listing : forall parse_float name facets ts,
  parse_facets parse_float facets = Some ts -> listing parse_float (ascii_stl name facets) ts.
Proof. exact ascii_stl_listing. Qed.
Print Assumptions C13_ascii_layout_is_listing.

(* The pinned LoadSTL read the 84-byte binary header first, so the well-formed
   facet-free listing "solid x / endsolid x" (shorter than 84 bytes, lists no
   triangle) was an error instead of the empty mesh (repaired by a fix: commit). *)
Theorem C13_pinned_short_ascii_refuted : forall parse_float,
  listing parse_float (f_lines empty_listing) [] /\
  load parse_float Pinned empty_listing = Err /\ load parse_float Repaired empty_listing = Mesh [].
Proof. exact pinned_short_ascii. Qed.
Print Assumptions C13_pinned_short_ascii_refuted.

(* non-vacuity *)
Example C13_roundtrip_instance :
  let t : tri := ((Prim2SF 0x1.999999999999ap-4, Prim2SF 1, Prim2SF (-2)), (Prim2SF 0x1.78287f49c4a1dp+129, Prim2SF 3, Prim2SF 0x1.244ce242c5561p-153), (Prim2SF 0, Prim2SF 5, Prim2SF 7))%float in
  nlen [t; t] < 2 ^ 32 /\ decode (save_f [t; t]) = Some (map round_tri [t; t]) /\ length (save_f [t; t]) = 184%nat.
Proof. vm_compute. repeat split. Qed.

Example C13_ascii_instance :
  let pf := witness_parse in
  parse_facets pf [(("0", "0", "1"), (("0", "0", "0"), ("1", "0", "0"), ("0", "1", "0")))]%string
  = Some [((S754_zero false, S754_zero false, S754_zero false),
           (Prim2SF 1, S754_zero false, S754_zero false),
           (S754_zero false, Prim2SF 1, S754_zero false))].
Proof. vm_compute. reflexivity. Qed.

Example C13_normal_instance :
  (dotR (crossR (subR (1, 0, 0) (0, 0, 0)) (subR (0, 1, 0) (0, 0, 0)))
        (crossR (subR (1, 0, 0) (0, 0, 0)) (subR (0, 1, 0) (0, 0, 0))) <> 0)%R.
Proof. unfold dotR, crossR, subR. cbn. lra. Qed.

(* ------------------------------------------------------------------ tie to the source by translation
   Generated/IoExpr.v is re-translated from the Go AST of render/stl.go (and Triangle3.Normal with
   the v3.Vec methods it calls) on every run by harness/iogen; Io/IoEq.v instantiates the library
   calls with Io/GoSem.v (os, bufio, encoding/binary on one file) and proves the generated
   definitions equal to the model the theorems above are about.  Each theorem below breaks when
   the Go source it is named after changes what it computes. *)
From Sdfx Require Io.GoSem Generated.IoExpr Io.IoEq.

(* the struct types handed to binary.Write/Read: 84 and 50 bytes *)
Theorem C13_TRANSL_layout_sizes :
  GoSem.layout_size IoExpr.STLHeader_layout = 84%nat /\ GoSem.layout_size IoExpr.STLTriangle_layout = 50%nat.
Proof. exact (conj IoEq.STLHeader_size IoEq.STLTriangle_size). Qed.
Print Assumptions C13_TRANSL_layout_sizes.

(* binary.Write(LittleEndian, &STLHeader): field order, widths and byte order give encode_header *)
Theorem C13_TRANSL_header_bytes : forall d : list N, length d = 81%nat ->
  GoSem.encode_struct GoSem.LittleEndian IoExpr.STLHeader_layout d = encode_header (nth 80 d 0).
Proof. exact IoEq.header_bytes. Qed.
Print Assumptions C13_TRANSL_header_bytes.

(* binary.Write(LittleEndian, &STLTriangle): 12 float32 words in field order, then the uint16 = 0 *)
Theorem C13_TRANSL_triangle_bytes : forall (ws : list word) (x : N), length ws = 12%nat ->
  GoSem.encode_struct GoSem.LittleEndian IoExpr.STLTriangle_layout (ws ++ [x]) = encode_words ws ++ le 2 0.
Proof. exact IoEq.triangle_bytes. Qed.
Print Assumptions C13_TRANSL_triangle_bytes.

(* Triangle3.Normal and Vec.Sub/Cross/Normalize/MulScalar/Length/Length2/Dot = normal_g, in any arithmetic *)
Theorem C13_TRANSL_Normal : forall (T : Type) (o : ops T) (t : (T * T * T) * (T * T * T) * (T * T * T)),
  IoExpr.gen_Triangle3_Normal T (IoEq.fz_ops o) (o_add o) (o_sub o) (o_mul o) (o_div o) (o_sqrt o) t
  = let '(a, b, c) := t in normal_g o a b c.
Proof. exact @IoEq.Normal_eq. Qed.
Print Assumptions C13_TRANSL_Normal.

(* SaveSTL on a file that can be created: header with uint32(len(mesh)), one record per triangle
   (Normal and the nine coordinates converted with float32(), in this order), Flush: the bytes on
   disk are [save], for any float64 arithmetic *)
Theorem C13_TRANSL_SaveSTL : forall fz fadd fsub fmul fdiv fsqrt path mesh w, GoSem.fw_open_err w = None ->
  exists w', IoEq.SaveSTL_m fz fadd fsub fmul fdiv fsqrt path mesh w = GoSem.Val w' None /\
             GoSem.fw_disk w' = save (IoEq.nrm fz fadd fsub fmul fdiv fsqrt) mesh /\ GoSem.fw_buf w' = [].
Proof. exact IoEq.SaveSTL_eq. Qed.
Print Assumptions C13_TRANSL_SaveSTL.

(* writeSTL (the consumer behind render.ToSTL) fed with any list of batches: placeholder header,
   records through the 4096-byte bufio.Writer, Flush, Seek(0,0), header with the uint32 counter *)
Theorem C13_TRANSL_writeSTL : forall fz fadd fsub fmul fdiv fsqrt path batches w, GoSem.fw_open_err w = None ->
  exists w', IoEq.writeSTL_m fz fadd fsub fmul fdiv fsqrt path batches w = GoSem.Val w' None /\
             GoSem.fw_disk w' = stream_save (IoEq.nrm fz fadd fsub fmul fdiv fsqrt) GoSem.bufio_default_size batches.
Proof. exact IoEq.writeSTL_eq. Qed.
Print Assumptions C13_TRANSL_writeSTL.

(* at binary64 (Go's float64 operations = PrimFloat's) these are the models the run executes against
   the real files: save_f and stream_save_f *)
Theorem C13_TRANSL_SaveSTL_binary64 : forall path mesh w, GoSem.fw_open_err w = None ->
  exists w', IoEq.SaveSTL_m (IoEq.fz_ops IoEq.sf_ops) (o_add IoEq.sf_ops) (o_sub IoEq.sf_ops) (o_mul IoEq.sf_ops)
               (o_div IoEq.sf_ops) (o_sqrt IoEq.sf_ops) path mesh w = GoSem.Val w' None /\
             GoSem.fw_disk w' = save_f mesh.
Proof. exact IoEq.SaveSTL_f_eq. Qed.
Print Assumptions C13_TRANSL_SaveSTL_binary64.

Theorem C13_TRANSL_writeSTL_binary64 : forall path batches w, GoSem.fw_open_err w = None ->
  exists w', IoEq.writeSTL_m (IoEq.fz_ops IoEq.sf_ops) (o_add IoEq.sf_ops) (o_sub IoEq.sf_ops) (o_mul IoEq.sf_ops)
               (o_div IoEq.sf_ops) (o_sqrt IoEq.sf_ops) path batches w = GoSem.Val w' None /\
             GoSem.fw_disk w' = stream_save_f batches.
Proof. exact IoEq.writeSTL_f_eq. Qed.
Print Assumptions C13_TRANSL_writeSTL_binary64.

(* loadSTLBinary from the current offset = decode; LoadSTL = load Repaired (size test
   size == int64(count)*50 + 84, rewind, binary or ASCII path) for every file of bytes and every
   scanner / Fields / ParseFloat oracle *)
Theorem C13_TRANSL_loadSTLBinary : forall fz w,
  IoEq.outcome_of (IoEq.loadSTLBinary_m fz w) = match decode (GoSem.fw_rest w) with Some ts => Mesh ts | None => Err end.
Proof. exact IoEq.loadSTLBinary_eq. Qed.
Print Assumptions C13_TRANSL_loadSTLBinary.

Theorem C13_TRANSL_LoadSTL : forall scan Fields pf fz path w,
  GoSem.fw_open_err w = None -> bytes_ok (GoSem.fw_disk w) ->
  IoEq.outcome_of (IoEq.LoadSTL_m scan Fields pf fz path w) = load pf Repaired (IoEq.file_at scan Fields (GoSem.fw_at w 0)).
Proof. exact IoEq.LoadSTL_eq. Qed.
Print Assumptions C13_TRANSL_LoadSTL.

(* ---- inventory of mutable state (DESIGN.md 2.3).  The models above are functions of their arguments; they are
   faithful only as long as the code keeps no state between calls beyond what they mention.  The package-level
   variables and struct fields in the scope of C13 (and which of them are written outside construction, from which
   entry points) are regenerated from the current source on every run (harness/stategen -> Generated/StateInv.v)
   and contain no state beyond the expected, reviewed inventory of Sys/StateInvSpec.v, where every piece of state
   that legitimately exists names the model component that accounts for it.  Breaks when a written package-level
   variable, a struct field, or a write of a field outside its constructor is added in scope (coqc then prints the
   differences); tolerates moved declarations, reordered fields, renamed locals, new helpers / constants / tables
   nothing writes. *)
From Sdfx Require Sys.StateInvSpec Sys.StateInvC13.
Theorem C13_state_inventory : Sdfx.Sys.StateInvSpec.state_ok_C13 = true.
Proof. exact Sdfx.Sys.StateInvC13.C13_state_inventory. Qed.
Print Assumptions C13_state_inventory.
