(* C03 - theorems only.  See DESIGN.md section 6, C03.
   All statements are about the ROps instance (real numbers) of the model coq/Sdf/Shape.v:
   for every point of space, every valid parameter vector, every expression tree.

   Definitions (coq/Sdf/ExactR.v, coq/Sdf/LipR.v):
     is_sdf2 f S B := forall p, (f p < 0 <-> S p) /\ (forall q, B q -> Rabs (f p) <= dist2 p q)
                                /\ (exists q, B q /\ dist2 p q = Rabs (f p))          (is_sdf3 alike)
     lip1_2 f := forall p q, Rabs (f p - f q) <= dist2 p q                             (lip1_3 alike)
     exact2 f S B := 1-Lipschitz, zero on B, sign, and through every point a normal ray
                     b + t n (B b, |n| = 1, p = b + f(p) n) with f (b + t n) = t for all t >= 0.

   NOT proved (and not needed by any statement below): the Jordan curve theorem, i.e. that the
   crossing-number interior used for polygons (C04) is the topological interior of a simple polygon.
   The polygon's exactness is C04's theorem. *)
From Coq Require Import Reals Lra List ZArith QArith.
(* the hand-written model functions are equal to the terms translated from the current Go source *)
From Sdfx Require Sdf.GenEq.
From Sdfx Require Import Num.Ops Num.RInst Geo.Vec Geo.Box Geo.BoxR Geo.NormR Geo.Mat
  Sdf.Union2 Sdf.Union2R Sdf.Shape Sdf.ShapeR Sdf.LipR Sdf.ConeR Sdf.LipTreeR Sdf.RotCopyR Sdf.ExactR Sdf.C03Refute.
Import ListNotations.
Open Scope R_scope.

(* ================================================================== exactness of the primitives *)

(* the certificate gives the three clauses of is_sdf *)
Theorem C03_exact2_is_sdf : forall f S B, exact2 f S B -> is_sdf2 f S B.
Proof. exact exact2_is_sdf. Qed.
Theorem C03_exact3_is_sdf : forall f S B, exact3 f S B -> is_sdf3 f S B.
Proof. exact exact3_is_sdf. Qed.

(* Circle2D(r) (r >= 0 accepted by the constructor): open disc, boundary the circle *)
Theorem circle_is_sdf : forall r o, k_circle r = Some o ->
  is_sdf2 (ev2 o) (fun p => len2 p < r) (fun q => len2 q = r).
Proof. exact ExactR.circle_is_sdf. Qed.
Print Assumptions circle_is_sdf.

(* Sphere3D(r) *)
Theorem sphere_is_sdf : forall r o, k_sphere r = Some o ->
  is_sdf3 (ev3 o) (fun p => len3 p < r) (fun q => len3 q = r).
Proof. exact ExactR.sphere_is_sdf. Qed.
Print Assumptions sphere_is_sdf.

(* Box2D(size, 0): sdf_box2d, all region branches; the nearest point is the clamp, inside the value is
   minus the distance to the nearest side *)
Theorem box2_sharp_is_sdf : forall size o, k_box2 size 0 = Some o -> 0 <= vx size -> 0 <= vy size ->
  let ss := mkV2 (vx size / 2) (vy size / 2) in
  is_sdf2 (ev2 o)
    (fun p => Rabs (vx p) < vx ss /\ Rabs (vy p) < vy ss)
    (fun q => Rabs (vx q) <= vx ss /\ Rabs (vy q) <= vy ss /\ (Rabs (vx q) = vx ss \/ Rabs (vy q) = vy ss)).
Proof. exact ExactR.box2_sharp_is_sdf. Qed.

(* Box2D(size, round), 0 <= round <= min(size)/2: the round-neighbourhood of the inset box *)
Theorem box2_is_sdf : forall size round o, k_box2 size round = Some o ->
  0 <= round -> 2 * round <= vx size -> 2 * round <= vy size ->
  let ss := mkV2 (vx size / 2 - round) (vy size / 2 - round) in
  is_sdf2 (ev2 o) (fun p => @sdf_box2d ROps p ss < round) (fun q => @sdf_box2d ROps q ss = round).
Proof. exact ExactR.box2_is_sdf. Qed.
Print Assumptions box2_is_sdf.

(* Box3D(size, 0): all eight branches of sdfBox3d *)
Theorem box3_sharp_is_sdf : forall size o, k_box3 size 0 = Some o ->
  let ss := mkV3 (wx size / 2) (wy size / 2) (wz size / 2) in
  is_sdf3 (ev3 o)
    (fun p => Rabs (wx p) < wx ss /\ Rabs (wy p) < wy ss /\ Rabs (wz p) < wz ss)
    (fun q => Rabs (wx q) <= wx ss /\ Rabs (wy q) <= wy ss /\ Rabs (wz q) <= wz ss /\
              (Rabs (wx q) = wx ss \/ Rabs (wy q) = wy ss \/ Rabs (wz q) = wz ss)).
Proof. exact ExactR.box3_sharp_is_sdf. Qed.

Theorem box3_is_sdf : forall size round o, k_box3 size round = Some o ->
  2 * round <= wx size -> 2 * round <= wy size -> 2 * round <= wz size ->
  let ss := mkV3 (wx size / 2 - round) (wy size / 2 - round) (wz size / 2 - round) in
  is_sdf3 (ev3 o) (fun p => @sdf_box3d ROps p ss < round) (fun q => @sdf_box3d ROps q ss = round).
Proof. exact ExactR.box3_is_sdf. Qed.
Print Assumptions box3_is_sdf.

(* Line2D(l, round): all points within round of the segment [-l/2, l/2] x {0} *)
Theorem line2_is_sdf : forall l round o, k_line2 l round = Some o -> 0 <= l -> 0 <= round ->
  is_sdf2 (ev2 o) (fun p => seg_dist (l / 2) p < round) (fun q => seg_dist (l / 2) q = round).
Proof. exact ExactR.line2_is_sdf. Qed.
Print Assumptions line2_is_sdf.
Theorem segment_is_exact : forall sl, 0 <= sl ->
  is_sdf2 (seg_dist sl) (fun _ => False) (fun q => Rabs (vx q) <= sl /\ vy q = 0).
Proof. intros sl H. apply exact2_is_sdf, (segment_exact sl H). Qed.

(* revolve_exact: a profile certified on the half plane x >= 0 (nearest points and normals on that side)
   revolves to a certified solid: the 2D distance in the meridian half plane is the 3D distance *)
Theorem revolve_exact : forall g S B, exact2h g S B ->
  exact3 (fun p => g (mer p)) (fun p => S (mer p)) (fun q => B (mer q)).
Proof. exact ExactR.revolve_exact. Qed.
Print Assumptions revolve_exact.

(* Cylinder3D(height, radius, round) for every parameter vector the constructor accepts *)
Theorem cylinder_is_sdf : forall h r round o, k_cylinder h r round = Some o ->
  let ss := mkV2 (r - round) (h / 2 - round) in
  is_sdf3 (ev3 o) (fun p => @sdf_box2d ROps (mer p) ss < round) (fun q => @sdf_box2d ROps (mer q) ss = round).
Proof. exact ExactR.cylinder_is_sdf. Qed.
Print Assumptions cylinder_is_sdf.
Theorem cylinder_sharp_is_sdf : forall h r o, k_cylinder h r 0 = Some o ->
  is_sdf3 (ev3 o) (fun p => rho p < r /\ Rabs (wz p) < h / 2)
          (fun q => rho q <= r /\ Rabs (wz q) <= h / 2 /\ (rho q = r \/ Rabs (wz q) = h / 2)).
Proof. exact ExactR.cylinder_sharp_is_sdf. Qed.
(* Capsule3D(h, r) = Cylinder3D(h, r, r) *)
Theorem capsule_is_sdf : forall h r o, k_cylinder h r r = Some o ->
  let ss := mkV2 0 (h / 2 - r) in
  is_sdf3 (ev3 o) (fun p => @sdf_box2d ROps (mer p) ss < r) (fun q => @sdf_box2d ROps (mer q) ss = r).
Proof. exact ExactR.capsule_is_sdf. Qed.

(* Cone3D(height, r0, r1, round): the stored fields satisfy cone_fields (unit slope direction u with
   u.y > 0, (sr1 - sr0, 2 sh) = l u), the inset radii are the ones of the inward offset by round, and
   when they are non-negative (admissible rounding) Evaluate is the signed distance of the rounded
   truncated cone: all seven regions of ConeSDF3.Evaluate *)
Theorem cone_is_sdf : forall h r0 r1 round o, k_cone h r0 r1 round = Some o ->
  exists sh sr0 sr1 ux uy l,
    cone_fields sh sr0 sr1 ux uy l /\ sh = h / 2 - round /\ ux * h = uy * (r1 - r0) /\
    sr0 = r0 - (1 - ux) * (round / uy) /\ sr1 = r1 - (1 + ux) * (round / uy) /\
    (0 <= sr0 -> 0 <= sr1 ->
     is_sdf3 (ev3 o) (fun p => coneU sh sr0 sr1 ux uy l (mer p) < round)
                     (fun q => coneU sh sr0 sr1 ux uy l (mer q) = round)).
Proof. exact ExactR.cone_is_sdf. Qed.
Print Assumptions cone_is_sdf.
(* the unrounded cone, solid and boundary spelt out: coneS = strictly between the two planes and on the
   inner side of the slope line, coneB = on the closed solid with one of the three constraints active *)
Theorem cone_sharp_is_sdf : forall h r0 r1 o, k_cone h r0 r1 0 = Some o -> 0 <= r0 -> 0 <= r1 ->
  exists ux uy l, cone_fields (h / 2) r0 r1 ux uy l /\
    is_sdf3 (ev3 o)
      (fun p => cdl (h / 2) r0 ux uy (mer p) < 0 /\ 0 < cvz (h / 2) (mer p) /\ cwz (h / 2) (mer p) < 0)
      (fun q => (cdl (h / 2) r0 ux uy (mer q) <= 0 /\ 0 <= cvz (h / 2) (mer q) /\ cwz (h / 2) (mer q) <= 0) /\
                (cdl (h / 2) r0 ux uy (mer q) = 0 \/ cvz (h / 2) (mer q) = 0 \/ cwz (h / 2) (mer q) = 0)).
Proof. exact ExactR.cone_sharp_is_sdf. Qed.

(* offset_of_exact: what rounding needs is the certificate (1-Lipschitz + normal rays); then f - r is
   certified for the offset solid { f < r } with boundary { f = r }, for every r >= 0 *)
Theorem offset_of_exact2 : forall f S B r, 0 <= r -> exact2 f S B ->
  exact2 (fun p => f p - r) (fun p => f p < r) (fun q => f q = r).
Proof. exact ExactR.offset_of_exact2. Qed.
Theorem offset_of_exact3 : forall f S B r, 0 <= r -> exact3 f S B ->
  exact3 (fun p => f p - r) (fun p => f p < r) (fun q => f q = r).
Proof. exact ExactR.offset_of_exact3. Qed.
Print Assumptions offset_of_exact3.

(* REFUTED: "offsetting preserves exactness" without convexity.  The two walls of a slot (half width 1/2)
   offset by 3/5: value -1/10 at the slot centre, nearest point of the offset surface 21/10 away. *)
Theorem offset_nonconvex_refuted :
  exists (f : RV2 -> R) (S B : RV2 -> Prop) (r : R) (c : RV2),
    is_sdf2 f S B /\ lip1_2 f /\ 0 <= r /\
    f c - r = - (1 / 10) /\ (forall q, f q = r -> 21 / 10 <= dist2 c q) /\
    ~ is_sdf2 (fun p => f p - r) (fun p => f p < r) (fun q => f q = r).
Proof. exact C03Refute.offset_nonconvex_refuted. Qed.
Print Assumptions offset_nonconvex_refuted.

(* ================================================================== preservation *)
Theorem rigid_preserves_sdf3 : forall f (S B : RV3 -> Prop) (g h : RV3 -> RV3), iso33 h -> (forall p, h (g p) = p) ->
  is_sdf3 f S B -> is_sdf3 (fun p => f (h p)) (fun p => S (h p)) (fun q => B (h q)).
Proof. exact ExactR.rigid_preserves_sdf3. Qed.
Theorem rigid_preserves_sdf2 : forall f (S B : RV2 -> Prop) (g h : RV2 -> RV2), iso22 h -> (forall p, h (g p) = p) ->
  is_sdf2 f S B -> is_sdf2 (fun p => f (h p)) (fun p => S (h p)) (fun q => B (h q)).
Proof. exact ExactR.rigid_preserves_sdf2. Qed.
(* Transform3D / Transform2D with a rigid matrix: affine last row, orthonormal columns (rigid44 / rigid33,
   predicates on the 16 / 9 entries) *)
Theorem transform3_preserves_sdf : forall s m o (S B : RV3 -> Prop), rigid44 m -> k_transform3 s m = Some o ->
  is_sdf3 (ev3 s) S B ->
  is_sdf3 (ev3 o) (fun p => S (@m44_mulposition ROps (m44_inverse m) p)) (fun q => B (@m44_mulposition ROps (m44_inverse m) q)).
Proof. exact ExactR.transform3_preserves_sdf. Qed.
Print Assumptions transform3_preserves_sdf.
Theorem transform2_preserves_sdf : forall s m o (S B : RV2 -> Prop), rigid33 m -> k_transform2 s m = Some o ->
  is_sdf2 (ev2 s) S B ->
  is_sdf2 (ev2 o) (fun p => S (@m33_mulposition ROps (m33_inverse m) p)) (fun q => B (@m33_mulposition ROps (m33_inverse m) q)).
Proof. exact ExactR.transform2_preserves_sdf. Qed.
Theorem scale_preserves_sdf3 : forall s k o (S B : RV3 -> Prop), 0 < k -> k_scaleuniform3 s k = Some o ->
  is_sdf3 (ev3 s) S B -> is_sdf3 (ev3 o) (fun p => S (v3muls p (1 / k))) (fun q => B (v3muls q (1 / k))).
Proof. exact ExactR.scaleuniform3_preserves_sdf. Qed.
Print Assumptions scale_preserves_sdf3.
Theorem scale_preserves_sdf2 : forall s k o (S B : RV2 -> Prop), 0 < k -> k_scaleuniform2 s k = Some o ->
  is_sdf2 (ev2 s) S B -> is_sdf2 (ev2 o) (fun p => S (v2muls p (1 / k))) (fun q => B (v2muls q (1 / k))).
Proof. exact ExactR.scaleuniform2_preserves_sdf. Qed.
(* full revolution (RevolveTheta3D(s, 0)) of a profile whose boundary lies on one side of the axis *)
Theorem revolve_full_preserves_sdf : forall s o (S B : RV2 -> Prop), k_revolve s 0 = Some o ->
  (forall q, B q -> 0 <= vx q) -> is_sdf2 (ev2 s) S B ->
  is_sdf3 (ev3 o) (fun p => S (mer p)) (fun q => B (mer q)).
Proof. exact ExactR.revolve_full_preserves_sdf_k. Qed.
Print Assumptions revolve_full_preserves_sdf.

(* ================================================================== 1-Lipschitz: primitives and combinators *)
Theorem lip1_circle : forall r o, k_circle r = Some o -> lip1_2 (ev2 o).
Proof. exact LipR.lip1_circle. Qed.
Theorem lip1_box2 : forall size round o, k_box2 size round = Some o -> lip1_2 (ev2 o).
Proof. exact LipR.lip1_box2. Qed.
Theorem lip1_line2 : forall l round o, k_line2 l round = Some o -> lip1_2 (ev2 o).
Proof. exact LipR.lip1_line2. Qed.
Theorem lip1_sphere : forall r o, k_sphere r = Some o -> lip1_3 (ev3 o).
Proof. exact LipR.lip1_sphere. Qed.
Theorem lip1_box3 : forall size round o, k_box3 size round = Some o -> lip1_3 (ev3 o).
Proof. exact LipR.lip1_box3. Qed.
Theorem lip1_cylinder : forall h r round o, k_cylinder h r round = Some o -> lip1_3 (ev3 o).
Proof. exact LipR.lip1_cylinder. Qed.
(* every cone the constructor accepts, including inadmissible roundings *)
Theorem lip1_cone : forall h r0 r1 round o, k_cone h r0 r1 round = Some o -> lip1_3 (ev3 o).
Proof. exact ConeR.lip1_cone. Qed.
Print Assumptions lip1_cone.

(* the polynomial blend is 1-Lipschitz for the max-norm of its two arguments (k > 0) *)
Theorem lip1_polymin : forall a b a' b' k, 0 < k ->
  Rabs (@poly ROps a b k - @poly ROps a' b' k) <= Rmax (Rabs (a - a')) (Rabs (b - b')).
Proof. exact poly_lip. Qed.
Print Assumptions lip1_polymin.
Theorem lip1_polymax : forall a b a' b' k, 0 < k ->
  Rabs (max_apply (MaxPoly k) a b - max_apply (MaxPoly k) a' b') <= Rmax (Rabs (a - a')) (Rabs (b - b')).
Proof. intros a b a' b' k Hk. apply max_apply_lip. exact Hk. Qed.

(* union: any operand list, plain minimum or PolyMin; the 2D union evaluates with box pruning, which is
   the exhaustive minimum under prune_ok2 (the hypotheses of C16_union_prune_eq at every point) *)
Theorem lip1_union2 : forall mk l o, minK_ok mk -> (mk = MinDef -> prune_ok2 l) ->
  k_union2 mk l = Some o -> Forall (fun x => lip1_2 (ev2 x)) l -> lip1_2 (ev2 o).
Proof. exact LipR.lip1_union2. Qed.
(* the pruning hypotheses follow from the operand classes of C01 (box ordered and enclosing, value at least
   the distance to the box) for 1-Lipschitz operands with a point of their solid in their box *)
Theorem prune_hypotheses_dischargeable : forall l, Forall prune_operand_ok l -> prune_ok2 l.
Proof. exact prune_ok2_intro. Qed.
Print Assumptions prune_hypotheses_dischargeable.
Theorem lip1_union3 : forall mk l o, minK_ok mk -> k_union3 mk l = Some o ->
  Forall (fun x => lip1_3 (ev3 x)) l -> lip1_3 (ev3 o).
Proof. exact LipR.lip1_union3. Qed.
Theorem lip1_intersection2 : forall m s0 s1 o, maxK_ok m -> k_intersect2 m s0 s1 = Some o ->
  lip1_2 (ev2 s0) -> lip1_2 (ev2 s1) -> lip1_2 (ev2 o).
Proof. exact LipR.lip1_intersection2. Qed.
Theorem lip1_intersection3 : forall m s0 s1 o, maxK_ok m -> k_intersect3 m s0 s1 = Some o ->
  lip1_3 (ev3 s0) -> lip1_3 (ev3 s1) -> lip1_3 (ev3 o).
Proof. exact LipR.lip1_intersection3. Qed.
Theorem lip1_difference2 : forall m s0 s1 o, maxK_ok m -> k_difference2 m s0 s1 = Some o ->
  lip1_2 (ev2 s0) -> lip1_2 (ev2 s1) -> lip1_2 (ev2 o).
Proof. exact LipR.lip1_difference2. Qed.
Theorem lip1_difference3 : forall m s0 s1 o, maxK_ok m -> k_difference3 m s0 s1 = Some o ->
  lip1_3 (ev3 s0) -> lip1_3 (ev3 s1) -> lip1_3 (ev3 o).
Proof. exact LipR.lip1_difference3. Qed.
(* cut: the direction is normalised, so the half plane / half space has a unit normal *)
Theorem lip1_cut2 : forall s a v o, (vx v <> 0 \/ vy v <> 0) -> k_cut2 s a v = Some o -> lip1_2 (ev2 s) -> lip1_2 (ev2 o).
Proof. exact LipR.lip1_cut2. Qed.
Theorem lip1_cut3 : forall s a n o, (wx n <> 0 \/ wy n <> 0 \/ wz n <> 0) -> k_cut3 s a n = Some o ->
  lip1_3 (ev3 s) -> lip1_3 (ev3 o).
Proof. exact LipR.lip1_cut3. Qed.
Theorem lip1_offset2 : forall s off o, k_offset2 s off = Some o -> lip1_2 (ev2 s) -> lip1_2 (ev2 o).
Proof. exact LipR.lip1_offset2. Qed.
Theorem lip1_offset3 : forall s off o, k_offset3 s off = Some o -> lip1_3 (ev3 s) -> lip1_3 (ev3 o).
Proof. exact LipR.lip1_offset3. Qed.
Theorem lip1_shell3 : forall s th o, k_shell3 s th = Some o -> lip1_3 (ev3 s) -> lip1_3 (ev3 o).
Proof. exact LipR.lip1_shell3. Qed.
(* elongate: p - clamp p is 1-Lipschitz componentwise *)
Theorem lip1_elongate2 : forall s h o, k_elongate2 s h = Some o -> lip1_2 (ev2 s) -> lip1_2 (ev2 o).
Proof. exact LipR.lip1_elongate2. Qed.
Theorem lip1_elongate3 : forall s h o, k_elongate3 s h = Some o -> lip1_3 (ev3 s) -> lip1_3 (ev3 o).
Proof. exact LipR.lip1_elongate3. Qed.
Theorem lip1_array2 : forall mk s nx ny step o, minK_ok mk -> k_array2 mk s nx ny step = Some o ->
  lip1_2 (ev2 s) -> lip1_2 (ev2 o).
Proof. exact LipR.lip1_array2. Qed.
Theorem lip1_array3 : forall mk s nx ny nz step o, minK_ok mk -> k_array3 mk s nx ny nz step = Some o ->
  lip1_3 (ev3 s) -> lip1_3 (ev3 o).
Proof. exact LipR.lip1_array3. Qed.
(* rotate-union: rigid step matrix; the accumulated products of its inverse are rigid *)
Theorem lip1_rotateunion2 : forall mk s num step o, minK_ok mk -> rigid33 step ->
  k_rotateunion2 mk s num step = Some o -> lip1_2 (ev2 s) -> lip1_2 (ev2 o).
Proof. exact LipR.lip1_rotateunion2. Qed.
Theorem lip1_rotateunion3 : forall mk s num step o, minK_ok mk -> rigid44 step ->
  k_rotateunion3 mk s num step = Some o -> lip1_3 (ev3 s) -> lip1_3 (ev3 o).
Proof. exact LipR.lip1_rotateunion3. Qed.
Theorem lip1_transform2_rigid : forall s m o, rigid33 m -> k_transform2 s m = Some o -> lip1_2 (ev2 s) -> lip1_2 (ev2 o).
Proof. exact LipR.lip1_transform2_rigid. Qed.
Theorem lip1_transform3_rigid : forall s m o, rigid44 m -> k_transform3 s m = Some o -> lip1_3 (ev3 s) -> lip1_3 (ev3 o).
Proof. exact LipR.lip1_transform3_rigid. Qed.
Theorem lip1_scaleuniform2 : forall s k o, 0 < k -> k_scaleuniform2 s k = Some o -> lip1_2 (ev2 s) -> lip1_2 (ev2 o).
Proof. exact LipR.lip1_scaleuniform2. Qed.
Theorem lip1_scaleuniform3 : forall s k o, 0 < k -> k_scaleuniform3 s k = Some o -> lip1_3 (ev3 s) -> lip1_3 (ev3 o).
Proof. exact LipR.lip1_scaleuniform3. Qed.
(* extrusion: max of f(x,y) and |z| - h/2 *)
Theorem lip1_extrude : forall s h o, k_extrude s h = Some o -> lip1_2 (ev2 s) -> lip1_3 (ev3 o).
Proof. exact LipR.lip1_extrude. Qed.
(* rounded extrusion: rounded_combine a b r = orth2 a b - r, the signed distance to the negative quadrant
   in (a, b), 1-Lipschitz for the Euclidean norm with no side condition *)
Theorem lip1_rounded_combine : forall a b a' b' r,
  Rabs (@rounded_combine ROps a b r - @rounded_combine ROps a' b' r) <= len2 (mkV2 (a - a') (b - b')).
Proof.
  intros. rewrite !rounded_combine_orth.
  replace (orth2 a b - r - (orth2 a' b' - r)) with (orth2 a b - orth2 a' b') by ring. apply orth2_lip.
Qed.
Theorem lip1_extrude_rounded : forall s h round o, k_extruderounded s h round = Some o -> lip1_2 (ev2 s) -> lip1_3 (ev3 o).
Proof. exact LipR.lip1_extrude_rounded. Qed.
(* revolution, full and partial: rho is 1-Lipschitz, the wedge planes are unit-normal half spaces *)
Theorem lip1_revolve : forall s theta o, k_revolve s theta = Some o -> lip1_2 (ev2 s) -> lip1_3 (ev3 o).
Proof. exact LipR.lip1_revolve. Qed.

(* rotate-copy: 1-Lipschitz for operands mirror-symmetric about the sector axis (the x axis) ... *)
Theorem lip1_rotatecopy2_symmetric : forall s n o, k_rotatecopy2 s n = Some o -> lip1_2 (ev2 s) ->
  (forall x y, ev2 s (mkV2 x (- y)) = ev2 s (mkV2 x y)) -> lip1_2 (ev2 o).
Proof. exact RotCopyR.lip1_rotatecopy2_symmetric. Qed.
Print Assumptions lip1_rotatecopy2_symmetric.
Theorem lip1_rotatecopy3_symmetric : forall s n o, k_rotatecopy3 s n = Some o -> lip1_3 (ev3 s) ->
  (forall x y z, ev3 s (mkV3 x (- y) z) = ev3 s (mkV3 x y z)) -> lip1_3 (ev3 o).
Proof. exact RotCopyR.lip1_rotatecopy3_symmetric. Qed.
(* ... and REFUTED otherwise: RotateCopy2D(Cut2D(Circle2D(2), (0,0), (1,0)), 2), p = (0,1), q = (1,1):
   the operand is in the class (lipwf2), |f p - f q| = 2 > 1 = |p - q| *)
Theorem rotatecopy_asymmetric_refuted :
  exists (s : Shape2 ROps) (o : RObj2) (p q : RV2),
    lipwf2 s /\ build2 (RotateCopy2 s 2) = Some o /\ dist2 p q < Rabs (ev2 o p - ev2 o q).
Proof. exact C03Refute.rotatecopy_asymmetric_refuted. Qed.
Print Assumptions rotatecopy_asymmetric_refuted.

(* REPAIRED (fix: commit in /repo, C16): with the pinned pruning (overlap of box distance intervals) the
   box-pruned Union2D over an operand with an empty solid (the intersection of two disjoint boxes) jumped
   from 23/2 at (-21/2, 0) to 19/2 at (-21/2, 1/2); the repaired pruning returns the exhaustive minimum,
   10 and 19/2 (exact rational evaluation of the model; prune_witness, prune_values: coq/Sdf/C03Refute.v) *)
Theorem union2_prune_witness_repaired : prune_values = Some (10, 19 # 2)%Q.
Proof. exact C03Refute.union2_prune_witness_repaired. Qed.
Print Assumptions union2_prune_witness_repaired.

(* ================================================================== all compositions *)
(* lipwf2 / lipwf3 (coq/Sdf/LipTreeR.v): listed combinators only; blends plain or polynomial with k > 0;
   Transform / RotateUnion matrices rigid (on the entries); positive uniform scale; non-zero cut
   directions; 2D unions with the plain minimum satisfy the pruning hypotheses. *)
Theorem C03_lipschitz2 : forall (s : Shape2 ROps) (o : RObj2), lipwf2 s -> build2 s = Some o -> lip1_2 (ev2 o).
Proof. exact LipTreeR.C03_lipschitz2. Qed.
Print Assumptions C03_lipschitz2.
Theorem C03_lipschitz3 : forall (s : Shape3 ROps) (o : RObj3), lipwf3 s -> build3 s = Some o -> lip1_3 (ev3 o).
Proof. exact LipTreeR.C03_lipschitz3. Qed.
Print Assumptions C03_lipschitz3.

(* consequences used by the renderers and the ray caster *)
Theorem no_overestimate : forall (f : RV3 -> R) p q, lip1_3 f -> f q = 0 -> Rabs (f p) <= dist3 p q.
Proof. exact no_overestimate3. Qed.
Theorem no_overestimate_2d : forall (f : RV2 -> R) p q, lip1_2 f -> f q = 0 -> Rabs (f p) <= dist2 p q.
Proof. exact no_overestimate2. Qed.
Theorem ball_has_no_sign_change : forall (f : RV3 -> R) p q, lip1_3 f -> dist3 p q < Rabs (f p) ->
  (0 < f p -> 0 < f q) /\ (f p < 0 -> f q < 0).
Proof. exact ball_has_no_sign_change3. Qed.
Theorem ball_has_no_sign_change_2d : forall (f : RV2 -> R) p q, lip1_2 f -> dist2 p q < Rabs (f p) ->
  (0 < f p -> 0 < f q) /\ (f p < 0 -> f q < 0).
Proof. exact ball_has_no_sign_change2. Qed.
(* every tree of the class never reports a magnitude larger than the distance to its own surface *)
Theorem C03_never_overestimates : forall (s : Shape3 ROps) (o : RObj3) p q,
  lipwf3 s -> build3 s = Some o -> ev3 o q = 0 -> Rabs (ev3 o p) <= dist3 p q.
Proof. intros s o p q W B Z. apply no_overestimate3; [exact (LipTreeR.C03_lipschitz3 s o W B) | exact Z]. Qed.
Print Assumptions C03_never_overestimates.

(* ================================================================== the hypotheses are satisfiable *)
Definition ex_translate : list R := [1; 0; 0; 1;  0; 1; 0; 2;  0; 0; 1; 3;  0; 0; 0; 1].
Definition ex_rot90 : list R := [0; -1; 0; 0;  1; 0; 0; 0;  0; 0; 1; 0;  0; 0; 0; 1].
Example C03_rigid_satisfiable : rigid44 ex_translate /\ rigid44 ex_rot90.
Proof. unfold rigid44, aff44, en, ex_translate, ex_rot90. cbn. repeat split; lra. Qed.

Definition ex_tree : Shape3 ROps :=
  Transform3
    (Union3 (MinPoly (1 / 2))
       [Sphere 1;
        Box3D (mkV3 2 2 2) (1 / 4);
        Difference3 MaxDef (Cylinder 2 1 0) (Cone 2 1 (1 / 2) 0);
        RotateUnion3 MinDef (Extrude (Offset2 (Box2D (mkV2 1 1) 0) (1 / 8)) 1) 3 ex_rot90;
        Revolve (Cut2 (Circle 1) (mkV2 0 0) (mkV2 0 1)) 2])
    ex_translate.
Example C03_lipwf_satisfiable : lipwf3 ex_tree.
Proof.
  destruct C03_rigid_satisfiable as [R1 R2].
  cbn [lipwf3 lipwf2 ex_tree minK_ok maxK_ok]. cbn [wx wy wz vx vy].
  repeat match goal with |- _ /\ _ => split end; try exact I; try lra; try exact R1; try exact R2.
Qed.
(* the cone fields: a cone of height 4 from radius 2 to radius 5 has slope direction (3/5, 4/5), length 5 *)
Example C03_cone_fields_satisfiable : cone_fields 2 2 5 (3 / 5) (4 / 5) 5.
Proof. constructor; lra. Qed.

(* ---- inventory of mutable state (DESIGN.md 2.3).  The models above are functions of their arguments; they are
   faithful only as long as the code keeps no state between calls beyond what they mention.  The package-level
   variables and struct fields in the scope of C03 (and which of them are written outside construction, from which
   entry points) are regenerated from the current source on every run (harness/stategen -> Generated/StateInv.v)
   and contain no state beyond the expected, reviewed inventory of Sys/StateInvSpec.v, where every piece of state
   that legitimately exists names the model component that accounts for it.  Breaks when a written package-level
   variable, a struct field, or a write of a field outside its constructor is added in scope (coqc then prints the
   differences); tolerates moved declarations, reordered fields, renamed locals, new helpers / constants / tables
   nothing writes. *)
From Sdfx Require Sys.StateInvSpec Sys.StateInvC03.
Theorem C03_state_inventory : Sdfx.Sys.StateInvSpec.state_ok_C03 = true.
Proof. exact Sdfx.Sys.StateInvC03.C03_state_inventory. Qed.
Print Assumptions C03_state_inventory.
