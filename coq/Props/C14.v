(* C14 - theorems only.  See DESIGN.md section 6, C14.
   Model: Io/StlLoad.v (LoadSTL: size discrimination, binary path = Stl.decode,
   ASCII path over the scanner's lines with a ParseFloat oracle; an out-of-range
   slice index is the outcome Panic). *)
From Coq Require Import List ZArith NArith Floats.
From Coq Require String.
From Sdfx Require Import Io.F32 Io.Stl Io.StlLoad.
Import ListNotations.
Import String.StringSyntax.
Open Scope N_scope.

(* The repaired loader is total: for every file (any bytes, any lines, scanner error
   or not) and every ParseFloat, the outcome is an error or a mesh. *)
Theorem C14_total : forall parse_float f, load parse_float Repaired f <> Panic.
Proof. exact load_total. Qed.
Print Assumptions C14_total.

(* The slice allocated from the header count before any record is read has at most
   (size-84)/50 elements: the count is trusted only when 84+50*count is the file size. *)
Theorem C14_alloc_proportional : forall f,
  84 + 50 * binary_alloc f <= N.max 84 (nlen (f_bytes f)) /\
  binary_alloc f <= (nlen (f_bytes f) - 84) / 50.
Proof. exact alloc_proportional. Qed.
Print Assumptions C14_alloc_proportional.

(* and a mesh returned by the binary path has exactly that many triangles *)
Theorem C14_binary_mesh_size : forall parse_float ver f ts,
  binary_alloc f <> 0 -> load parse_float ver f = Mesh ts -> nlen ts = (nlen (f_bytes f) - 84) / 50.
Proof. exact binary_mesh_size. Qed.
Print Assumptions C14_binary_mesh_size.

(* A file shorter than the 84-byte binary header is never read as binary: an error in
   the pinned code, the ASCII path after the repair (see C13_pinned_short_ascii_refuted). *)
Theorem C14_short_file : forall parse_float f, nlen (f_bytes f) < 84 ->
  load parse_float Pinned f = Err /\
  load parse_float Repaired f = load_ascii parse_float Repaired f /\
  binary_alloc f = 0.
Proof. exact short_file. Qed.
Print Assumptions C14_short_file.

(* The ASCII path never returns a partial result: a vertex count that is not a multiple
   of 3 is an error after the repair... *)
Theorem C14_ascii_total : forall parse_float f, load_ascii parse_float Repaired f <> Panic.
Proof. exact load_ascii_total. Qed.
Print Assumptions C14_ascii_total.

(* ...and was a panic in the pinned code, for EVERY file reaching the ASCII path whose
   number of parsable vertex lines is not a multiple of 3 (defect repaired by a fix: commit) *)
Theorem C14_ascii_panic_refuted : forall parse_float f v,
  scan_lines parse_float (f_lines f) [] = SOk v -> (length v mod 3 <> 0)%nat ->
  load_ascii parse_float Pinned f = Panic.
Proof. exact pinned_ascii_panics. Qed.
Print Assumptions C14_ascii_panic_refuted.

(* concrete witness (corpus/C14.json "two-vertex-lines"): a 100-byte file with two vertex lines *)
Theorem C14_pinned_total_refuted : load witness_parse Pinned witness_file = Panic.
Proof. exact witness_pinned_panics. Qed.
Print Assumptions C14_pinned_total_refuted.

Example C14_witness_repaired : load witness_parse Repaired witness_file = Err.
Proof. exact witness_repaired_err. Qed.

(* non-vacuity of C14_ascii_panic_refuted and C14_short_file *)
Example C14_refuted_hyp_satisfiable :
  exists v, scan_lines witness_parse (f_lines witness_file) [] = SOk v /\ (length v mod 3 <> 0)%nat.
Proof. eexists. split; [vm_compute; reflexivity | cbn; discriminate]. Qed.

Example C14_short_hyp_satisfiable : nlen (f_bytes empty_listing) < 84.
Proof. vm_compute. reflexivity. Qed.

Example C14_alloc_instance :
  let f := {| f_bytes := repeat 0 80 ++ [2; 0; 0; 0] ++ repeat 7 100; f_lines := []; f_scan_err := false |} in
  binary_alloc f = 2.
Proof. vm_compute. reflexivity. Qed.

(* ------------------------------------------------------------------ tie to the source by translation
   Generated/IoExpr.v is re-translated from the Go AST of render/stl.go on every run (harness/iogen);
   Io/IoEq.v instantiates os / bufio / encoding/binary with Io/GoSem.v, keeps bufio.Scanner,
   strings.Fields and strconv.ParseFloat as oracles, and proves the generated LoadSTL,
   loadSTLBinary, loadSTLAscii, parseFloats equal to the model above for ALL files and oracles
   (Panic where a slice index or slice expression of the Go code is out of range). *)
From Sdfx Require Io.GoSem Generated.IoExpr Io.IoEq.

Theorem C14_TRANSL_layout_sizes :
  GoSem.layout_size IoExpr.STLHeader_layout = 84%nat /\ GoSem.layout_size IoExpr.STLTriangle_layout = 50%nat.
Proof. exact (conj IoEq.STLHeader_size IoEq.STLTriangle_size). Qed.
Print Assumptions C14_TRANSL_layout_sizes.

(* binary.Read(LittleEndian, &header): header.Count is the little-endian word at offset 80 *)
Theorem C14_TRANSL_header_count : forall cur bs, length cur = 81%nat ->
  GoSem.slot (GoSem.decode_struct GoSem.LittleEndian IoExpr.STLHeader_layout cur bs) 80 = unle (firstn 4 (skipn 80 bs)).
Proof. exact IoEq.header_decode. Qed.
Print Assumptions C14_TRANSL_header_count.

Theorem C14_TRANSL_parseFloats : forall pf fz l,
  IoEq.parseFloats_m pf fz l =
  match parse_floats pf l with Some o => GoSem.Val o None | None => GoSem.Val [] IoEq.pf_err end.
Proof. exact IoEq.parseFloats_eq. Qed.
Print Assumptions C14_TRANSL_parseFloats.

(* the ASCII path: the test len(fields) == 4 && fields[0] == "vertex", parseFloats(fields[1:]),
   f[0..2], the len(v)%3 test, the grouping loop with v[i+0..2], mesh and scanner.Err() *)
Theorem C14_TRANSL_loadSTLAscii : forall scan Fields pf fz w,
  IoEq.outcome_of (IoEq.loadSTLAscii_m scan Fields pf fz w) = load_ascii pf Repaired (IoEq.file_at scan Fields w).
Proof. exact IoEq.loadSTLAscii_eq. Qed.
Print Assumptions C14_TRANSL_loadSTLAscii.

(* the binary path, from the current file offset: make([]T, int(header.Count)), one 50-byte
   binary.Read per element, error on a short read *)
Theorem C14_TRANSL_loadSTLBinary : forall fz w,
  IoEq.outcome_of (IoEq.loadSTLBinary_m fz w) = match decode (GoSem.fw_rest w) with Some ts => Mesh ts | None => Err end.
Proof. exact IoEq.loadSTLBinary_eq. Qed.
Print Assumptions C14_TRANSL_loadSTLBinary.

(* LoadSTL: Open, Stat, header read (EOF / ErrUnexpectedEOF -> rewind, ASCII), expectedSize =
   int64(header.Count)*50 + 84 in 64-bit arithmetic, rewind, size == expectedSize -> binary else ASCII *)
Theorem C14_TRANSL_LoadSTL : forall scan Fields pf fz path w,
  GoSem.fw_open_err w = None -> bytes_ok (GoSem.fw_disk w) ->
  IoEq.outcome_of (IoEq.LoadSTL_m scan Fields pf fz path w) = load pf Repaired (IoEq.file_at scan Fields (GoSem.fw_at w 0)).
Proof. exact IoEq.LoadSTL_eq. Qed.
Print Assumptions C14_TRANSL_LoadSTL.

Theorem C14_TRANSL_LoadSTL_open_error : forall scan Fields pf fz path w e,
  GoSem.fw_open_err w = Some e -> IoEq.outcome_of (IoEq.LoadSTL_m scan Fields pf fz path w) = Err.
Proof. exact IoEq.LoadSTL_open_error. Qed.
Print Assumptions C14_TRANSL_LoadSTL_open_error.

(* hence the totality theorem speaks about the translated code: the generated LoadSTL never panics *)
Theorem C14_TRANSL_total : forall scan Fields pf fz path w,
  GoSem.fw_open_err w = None -> bytes_ok (GoSem.fw_disk w) ->
  IoEq.outcome_of (IoEq.LoadSTL_m scan Fields pf fz path w) <> Panic.
Proof. exact IoEq.LoadSTL_total. Qed.
Print Assumptions C14_TRANSL_total.

(* ---- inventory of mutable state (DESIGN.md 2.3).  The models above are functions of their arguments; they are
   faithful only as long as the code keeps no state between calls beyond what they mention.  The package-level
   variables and struct fields in the scope of C14 (and which of them are written outside construction, from which
   entry points) are regenerated from the current source on every run (harness/stategen -> Generated/StateInv.v)
   and contain no state beyond the expected, reviewed inventory of Sys/StateInvSpec.v, where every piece of state
   that legitimately exists names the model component that accounts for it.  Breaks when a written package-level
   variable, a struct field, or a write of a field outside its constructor is added in scope (coqc then prints the
   differences); tolerates moved declarations, reordered fields, renamed locals, new helpers / constants / tables
   nothing writes. *)
From Sdfx Require Sys.StateInvSpec Sys.StateInvC14.
Theorem C14_state_inventory : Sdfx.Sys.StateInvSpec.state_ok_C14 = true.
Proof. exact Sdfx.Sys.StateInvC14.C14_state_inventory. Qed.
Print Assumptions C14_state_inventory.
