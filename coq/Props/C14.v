(* C14 - theorems only.  See DESIGN.md section 6, C14.
   Model: Io/StlLoad.v (LoadSTL: size discrimination, binary path = Stl.decode,
   ASCII path over the scanner's lines with a ParseFloat oracle; an out-of-range
   slice index is the outcome Panic). *)
From Coq Require Import List ZArith NArith Floats.
From Coq Require String.
From Sdfx Require Import Io.F32 Io.Stl Io.StlLoad.
Import ListNotations.
Import String.StringSyntax.
Open Scope N_scope.

(* The repaired loader is total: for every file (any bytes, any lines, scanner error
   or not) and every ParseFloat, the outcome is an error or a mesh. *)
Theorem C14_total : forall parse_float f, load parse_float Repaired f <> Panic.
Proof. exact load_total. Qed.
Print Assumptions C14_total.

(* The slice allocated from the header count before any record is read has at most
   (size-84)/50 elements: the count is trusted only when 84+50*count is the file size. *)
Theorem C14_alloc_proportional : forall f,
  84 + 50 * binary_alloc f <= N.max 84 (nlen (f_bytes f)) /\
  binary_alloc f <= (nlen (f_bytes f) - 84) / 50.
Proof. exact alloc_proportional. Qed.
Print Assumptions C14_alloc_proportional.

(* and a mesh returned by the binary path has exactly that many triangles *)
Theorem C14_binary_mesh_size : forall parse_float ver f ts,
  binary_alloc f <> 0 -> load parse_float ver f = Mesh ts -> nlen ts = (nlen (f_bytes f) - 84) / 50.
Proof. exact binary_mesh_size. Qed.
Print Assumptions C14_binary_mesh_size.

(* A file shorter than the 84-byte binary header is never read as binary: an error in
   the pinned code, the ASCII path after the repair (see C13_pinned_short_ascii_refuted). *)
Theorem C14_short_file : forall parse_float f, nlen (f_bytes f) < 84 ->
  load parse_float Pinned f = Err /\
  load parse_float Repaired f = load_ascii parse_float Repaired f /\
  binary_alloc f = 0.
Proof. exact short_file. Qed.
Print Assumptions C14_short_file.

(* The ASCII path never returns a partial result: a vertex count that is not a multiple
   of 3 is an error after the repair... *)
Theorem C14_ascii_total : forall parse_float f, load_ascii parse_float Repaired f <> Panic.
Proof. exact load_ascii_total. Qed.
Print Assumptions C14_ascii_total.

(* ...and was a panic in the pinned code, for EVERY file reaching the ASCII path whose
   number of parsable vertex lines is not a multiple of 3 (defect repaired by a fix: commit) *)
Theorem C14_ascii_panic_refuted : forall parse_float f v,
  scan_lines parse_float (f_lines f) [] = SOk v -> (length v mod 3 <> 0)%nat ->
  load_ascii parse_float Pinned f = Panic.
Proof. exact pinned_ascii_panics. Qed.
Print Assumptions C14_ascii_panic_refuted.

(* concrete witness (corpus/C14.json "two-vertex-lines"): a 100-byte file with two vertex lines *)
Theorem C14_pinned_total_refuted : load witness_parse Pinned witness_file = Panic.
Proof. exact witness_pinned_panics. Qed.
Print Assumptions C14_pinned_total_refuted.

Example C14_witness_repaired : load witness_parse Repaired witness_file = Err.
Proof. exact witness_repaired_err. Qed.

(* non-vacuity of C14_ascii_panic_refuted and C14_short_file *)
Example C14_refuted_hyp_satisfiable :
  exists v, scan_lines witness_parse (f_lines witness_file) [] = SOk v /\ (length v mod 3 <> 0)%nat.
Proof. eexists. split; [vm_compute; reflexivity | cbn; discriminate]. Qed.

Example C14_short_hyp_satisfiable : nlen (f_bytes empty_listing) < 84.
Proof. vm_compute. reflexivity. Qed.

Example C14_alloc_instance :
  let f := {| f_bytes := repeat 0 80 ++ [2; 0; 0; 0] ++ repeat 7 100; f_lines := []; f_scan_err := false |} in
  binary_alloc f = 2.
Proof. vm_compute. reflexivity. Qed.
