(* C05 - marching-cubes meshes are closed and consistently outward oriented.  Theorems only.
   See DESIGN.md section 6, C05.  Tables: Generated/MarchTables.v (regenerated from the source
   on every run); combinatorial model: Render/MC.v, Render/Lattice.v; numeric model and the
   real-number lift: Render/Interp.v, Render/LatticeR.v; algebra of balances: Render/Balance.v. *)
From Coq Require Import List ZArith NArith Reals Bool.
From Sdfx Require Import Num.Ops.
From Sdfx Require Import Num.RInst.
From Sdfx Require Import Geo.Vec.
From Sdfx Require Import Generated.MarchTables.
From Sdfx Require Import Render.Balance.
From Sdfx Require Import Render.MC.
From Sdfx Require Import Render.Lattice.
From Sdfx Require Import Render.Interp.
From Sdfx Require Import Render.LatticeR.
Import ListNotations.

(* ---------------------------------------------------------------- the tables (domain: all 256 rows) *)

(* mcPairTable: every pair is an edge of the unit cube; the twelve edges are different lattice edges *)
Theorem C05_mc_pair_table_ok : forall e, (e < 12)%N -> pair_is_edge e = true.
Proof. exact pair_table_ok. Qed.
Print Assumptions C05_mc_pair_table_ok.
Theorem C05_mc_edges_distinct : NoDup (map ledge ledges12).
Proof. exact ledges_distinct. Qed.
Print Assumptions C05_mc_edges_distinct.

(* mcEdgeTable: the mask is exactly the set of sign-changing edges *)
Theorem C05_mc_edge_table_ok : forall cfg e, (cfg < 256)%N -> (e < 12)%N ->
  N.testbit (edge_mask cfg) e = crossing cfg e.
Proof. exact edge_table_ok. Qed.
Print Assumptions C05_mc_edge_table_ok.

(* mcTriangleTable: triangles use only sign-changing edges (so every point is interpolated), rows
   are whole triangles, each triangle joins three different edges *)
Theorem C05_mc_tris_use_crossing_edges : forall cfg e, (cfg < 256)%N -> In e (tri_row cfg) ->
  (e < 12)%N /\ crossing cfg e = true.
Proof. exact tris_use_crossing_edges. Qed.
Print Assumptions C05_mc_tris_use_crossing_edges.
Theorem C05_mc_rows_whole_triangles : forall cfg, (cfg < 256)%N -> (N.of_nat (length (tri_row cfg)) mod 3 = 0)%N.
Proof. exact tri_rows_whole. Qed.
Print Assumptions C05_mc_rows_whole_triangles.
Theorem C05_mc_tris_three_edges : forall cfg a b c, (cfg < 256)%N -> In (a, b, c) (local_tris cfg) ->
  a <> b /\ b <> c /\ a <> c.
Proof. exact tris_three_edges. Qed.
Print Assumptions C05_mc_tris_three_edges.

(* a configuration with corners of both signs emits at least one triangle, and every
   sign-changing edge carries a vertex of the patch *)
Theorem C05_mc_nonempty : forall cfg, (cfg < 256)%N -> cfg <> 0%N -> cfg <> 255%N -> local_tris cfg <> [].
Proof. exact nonempty. Qed.
Print Assumptions C05_mc_nonempty.
Theorem C05_mc_crossing_edges_used : forall cfg e, (cfg < 256)%N -> (e < 12)%N -> crossing cfg e = true -> In e (tri_row cfg).
Proof. exact crossing_edges_used. Qed.
Print Assumptions C05_mc_crossing_edges_used.

(* the unbalanced directed edges of a cell's patch all lie in faces of the cell *)
Theorem C05_mc_cell_boundary_on_faces : forall cfg e, (cfg < 256)%N ->
  bal (edges_of (cell_tris cfg)) e <> 0%Z -> common_face e = true.
Proof. exact cell_boundary_on_faces. Qed.
Print Assumptions C05_mc_cell_boundary_on_faces.

(* 3 axes x 4096 pairs: cell c1 below and c2 above along axis d that agree on the shared face
   leave exactly reversed directed edges in it *)
Theorem C05_mc_face_pairs_cancel : forall c1 c2 d a b, (c1 < 256)%N -> (c2 < 256)%N ->
  d = 0%Z \/ d = 1%Z \/ d = 2%Z -> facesig d 1 c1 = facesig d 0 c2 ->
  In a (face_verts d 0) -> In b (face_verts d 0) ->
  (bal (edges_of (cell_tris c1)) (shiftE (unit d) (a, b)) + bal (edges_of (cell_tris c2)) (a, b) = 0)%Z.
Proof. exact face_pairs_cancel. Qed.
Print Assumptions C05_mc_face_pairs_cancel.

(* orientation rule on all 6 faces of all 256 configurations: a boundary segment a->b of the patch
   has the solid ends of the lattice edges a and b on the side (b - a) x (outward face normal) *)
Theorem C05_mc_orientation : forall cfg d s a b, (cfg < 256)%N -> In (d, s) faces6 ->
  In a (face_verts d s) -> In b (face_verts d s) -> (0 < bal (edges_of (cell_tris cfg)) (a, b))%Z ->
  orient_rule cfg d s (a, b) = true.
Proof. exact orientation. Qed.
Print Assumptions C05_mc_orientation.

(* ... which makes the triangle on that segment face away from the solid: for a triangle (a,b,c)
   with a->b in a face with outward normal n (so (b-a).n = 0) and c on the inner side of the face,
   the normal (b-a)x(c-a) has a negative component along (b-a) x n, the direction of the solid ends *)
Theorem C05_orientation_gives_outward_normal : forall a b c n : R * R * R,
  dotR (subR b a) n = 0%R -> (dotR (subR c a) n < 0)%R -> subR b a <> (0, 0, 0)%R ->
  (dotR (crossR (subR b a) (subR c a)) (crossR (subR b a) n) < 0)%R.
Proof. exact orientation_normal. Qed.
Print Assumptions C05_orientation_gives_outward_normal.

(* ---------------------------------------------------------------- algebra of balances *)

(* a triangle with two equal vertices has zero net balance; removing such triangles
   (Triangle3.Degenerate(0)) preserves every balance - for any vertex type *)
Theorem C05_degenerate_removal_preserves_balance :
  forall (V : Type) (veqb : V -> V -> bool), (forall a b, veqb a b = true <-> a = b) ->
  forall ts e, Balance.bal veqb (edges_of (filter (fun t => negb (degenerate veqb t)) ts)) e
             = Balance.bal veqb (edges_of ts) e.
Proof. exact @degenerate_removal_preserves_balance. Qed.
Print Assumptions C05_degenerate_removal_preserves_balance.

(* closedness pushes forward along ANY vertex identification map *)
Theorem C05_identification_preserves_closed :
  forall (V W : Type) (veqb : V -> V -> bool), (forall a b, veqb a b = true <-> a = b) ->
  forall (weqb : W -> W -> bool), (forall a b, weqb a b = true <-> a = b) ->
  forall (phi : V -> W) l, closed veqb l -> closed weqb (map (mapE phi) l).
Proof. exact @identification_preserves_closed. Qed.
Print Assumptions C05_identification_preserves_closed.

(* ---------------------------------------------------------------- interpolation (over the reals) *)

(* the crossing computed from either end of a sign-changing edge is the same point, snapping
   branches included *)
Theorem C05_interp_symmetric : forall p1 p2 v1 v2 x, v1 <> v2 ->
  @mc_interpolate ROps p2 p1 v2 v1 x = @mc_interpolate ROps p1 p2 v1 v2 x.
Proof. exact mc_interp_symmetric. Qed.
Print Assumptions C05_interp_symmetric.

(* it lies on the edge (t in [0,1]) and the linear interpolant of the values there is within
   epsilon of the level *)
Theorem C05_interp_on_edge : forall p1 p2 v1 v2 x, straddles v1 v2 x ->
  exists t, (0 <= t <= 1)%R /\ (Rabs (lerp v1 v2 t - x) < eps)%R /\
    @mc_interpolate ROps p1 p2 v1 v2 x = mkV3 (lerp (wx p1) (wx p2) t) (lerp (wy p1) (wy p2) t) (lerp (wz p1) (wz p2) t).
Proof. exact mc_interp_on_edge. Qed.
Print Assumptions C05_interp_on_edge.

(* ---------------------------------------------------------------- the lift to whole lattices *)

(* every sign assignment on every lattice size: the abstract mesh (vertices = lattice edges) is closed *)
Theorem C05_mesh_closed : forall nx ny nz (sgn : pt -> bool), boundary_outside nx ny nz sgn ->
  forall e, bal (edges_of (mesh nx ny nz sgn)) e = 0%Z.
Proof. exact mesh_closed. Qed.
Print Assumptions C05_mesh_closed.

(* the model of the code (mcToTriangles run over every cell, real arithmetic, arbitrary lattice-point
   positions and values): what is emitted is the abstract mesh with points for vertices minus the
   triangles with two equal points, hence closed as a set of triangles in space *)
Theorem C05_emitted_mesh_closed : forall (cpos : pt -> V3 ROps) (val : pt -> R) (x : R) nx ny nz,
  boundary_outside nx ny nz (sgnR val x) ->
  closed v3_eqbR (edges_of (meshR cpos val x nx ny nz)).
Proof. exact meshR_closed. Qed.
Print Assumptions C05_emitted_mesh_closed.

(* no emitted triangle has two identical vertices *)
Theorem C05_emitted_triangles_distinct : forall (cpos : pt -> V3 ROps) (val : pt -> R) (x : R) nx ny nz t,
  In t (meshR cpos val x nx ny nz) -> let '(a, b, c) := t in a <> b /\ b <> c /\ c <> a.
Proof. exact meshR_triangles_distinct. Qed.
Print Assumptions C05_emitted_triangles_distinct.

(* "enclosed signed volume positive" for every shape is a global statement: it is measured on every
   render by the harness (exact rational arithmetic); proved are closedness and the local
   orientation rule above. *)

(* ---------------------------------------------------------------- non-vacuity *)
Example C05_hyp_satisfiable :
  let sgn : pt -> bool := fun q => let '(x, y, z) := q in ((x =? 1) && (y =? 1) && (z =? 1))%Z in
  boundary_outside 2 2 2 sgn /\ length (mesh 2 2 2 sgn) = 8%nat.
Proof.
  cbv zeta. split.
  - intros x y z Hx Hy Hz Hb. cbn in Hx, Hy, Hz.
    destruct (Z.eqb_spec x 1), (Z.eqb_spec y 1), (Z.eqb_spec z 1); subst; cbn; try reflexivity.
    exfalso. cbn in Hb. intuition discriminate.
  - vm_compute. reflexivity.
Qed.

(* ---------------------------------------------------------------- syntactic tie to the Go source
   Generated/RenderExpr.v is re-translated from the Go AST of the current source tree on every run
   (harness/rendergen); Render/GenEqRender.v and Render/GenEqMC.v prove the generated definitions equal to the model the
   theorems above are about, for all arguments over an arbitrary Ops (all of them: Props/TRANSLR.v).
   Each theorem below breaks when the Go function it is named after changes what it computes. *)
From Coq Require Import ZArith List.
Import ListNotations.
From Sdfx Require Num.Ops Geo.Vec Geo.Box Render.Interp Render.Octree Render.Sample Generated.RenderExpr Render.GenEqRender Render.GenEqMC.
Import Num.Ops Geo.Vec.

Theorem C05_TRANSL_mcToTriangles : forall (O : Ops) (p0 p1 p2 p3 p4 p5 p6 p7 : V3 O) (v0 v1 v2 v3 v4 v5 v6 v7 x : T O),
    RenderExpr.rg_render_mcToTriangles [p0; p1; p2; p3; p4; p5; p6; p7] [v0; v1; v2; v3; v4; v5; v6; v7] x =
    Interp.mc_to_triangles (Octree.sel8 p0 p1 p2 p3 p4 p5 p6 p7) (Octree.sel8 v0 v1 v2 v3 v4 v5 v6 v7) x.
Proof. exact (@GenEqMC.mcToTriangles_eq). Qed.
Print Assumptions C05_TRANSL_mcToTriangles.

Theorem C05_TRANSL_mcInterpolate : forall (O : Ops) (p1 p2 : V3 O) (v1 v2 x : T O),
    RenderExpr.rg_render_mcInterpolate p1 p2 v1 v2 x = Interp.mc_interpolate p1 p2 v1 v2 x.
Proof. exact (@GenEqRender.mcInterpolate_eq). Qed.
Print Assumptions C05_TRANSL_mcInterpolate.

Theorem C05_TRANSL_Triangle3_Degenerate : forall (O : Ops) (t : V3 O * V3 O * V3 O) (tol : T O),
    RenderExpr.rg_sdf_Triangle3_Degenerate t tol = Interp.tri3_degenerate t tol.
Proof. exact (@GenEqRender.Triangle3_Degenerate_eq). Qed.
Print Assumptions C05_TRANSL_Triangle3_Degenerate.

(* ---- inventory of mutable state (DESIGN.md 2.3).  The models above are functions of their arguments; they are
   faithful only as long as the code keeps no state between calls beyond what they mention.  The package-level
   variables and struct fields in the scope of C05 (and which of them are written outside construction, from which
   entry points) are regenerated from the current source on every run (harness/stategen -> Generated/StateInv.v)
   and contain no state beyond the expected, reviewed inventory of Sys/StateInvSpec.v, where every piece of state
   that legitimately exists names the model component that accounts for it.  Breaks when a written package-level
   variable, a struct field, or a write of a field outside its constructor is added in scope (coqc then prints the
   differences); tolerates moved declarations, reordered fields, renamed locals, new helpers / constants / tables
   nothing writes. *)
From Sdfx Require Sys.StateInvSpec Sys.StateInvC05.
Theorem C05_state_inventory : Sdfx.Sys.StateInvSpec.state_ok_C05 = true.
Proof. exact Sdfx.Sys.StateInvC05.C05_state_inventory. Qed.
Print Assumptions C05_state_inventory.
