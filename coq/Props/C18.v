(* C18 - theorems only.  See DESIGN.md section 6, C18.
   Screw threads: database rows match their designation, unit conversion, helical invariance /
   periodicity / handedness, taper, and the external thread never intersects the material left
   after cutting the matching internal thread, for every tolerance >= 0. *)
From Coq Require Import Reals ZArith QArith String Ascii List Lra.
From Sdfx Require Import Num.Ops.
From Sdfx Require Import Num.RInst.
From Sdfx Require Import Num.QInst.
From Sdfx Require Import Geo.Vec.
From Sdfx Require Import Generated.Threads.
From Sdfx Require Import Sdf.Screw.
From Sdfx Require Import Sdf.ThreadDB.
From Sdfx Require Import Sdf.ScrewR.
From Sdfx Require Import Sdf.IsoProfile.
From Sdfx Require Import Sdf.IsoClosed.
From Sdfx Require Import Geo.Box.
From Sdfx Require Import Generated.ThreadExpr.
From Sdfx Require Import Sdf.ScrewEq.
From Sdfx Require Import Sdf.ObjSkel.
From Sdfx Require Import Generated.ObjThread.
From Sdfx Require Import Sdf.ObjMate.
Import ListNotations.

(* ------------------------------------------------------------------ the database (rows regenerated
   from sdf/screw.go on every run; finite domain = thread_rows, enumerated by vm_compute) *)

(* every ISOAdd row: the name parses as M<d>x<P>, radius = d/2, pitch = P, millimetres, no taper *)
Theorem C18_iso_rows_match_name : forall r, In r thread_rows -> row_fn r = ISOAdd_row -> iso_row_ok r.
Proof. exact iso_rows_match_name. Qed.
Print Assumptions C18_iso_rows_match_name.

(* the parser reads back what a designation prints: digits d_I[.d_F] "x" p_I[.p_F] *)
Theorem C18_parse_iso_spec : forall dI dF pI pF, dI <> [] -> pI <> [] ->
  Forall is_digit dI -> Forall is_digit dF -> Forall is_digit pI -> Forall is_digit pF ->
  exists d p, parse_iso (String "M" (dec_str dI dF (String "x" (dec_str pI pF EmptyString)))) = Some (d, p)
              /\ d == dec_val dI dF /\ p == dec_val pI pF.
Proof. exact parse_iso_spec. Qed.
Print Assumptions C18_parse_iso_spec.

(* every UTSAdd row: radius = diameter/2, pitch = 1/TPI [inch] of the ASME B1.1 coarse/fine series *)
Theorem C18_uts_rows_match_standard : forall r, In r thread_rows -> row_fn r = UTSAdd_row -> ref_row_ok uts_reference r.
Proof. exact uts_rows_match_standard. Qed.
Print Assumptions C18_uts_rows_match_standard.

(* every NPTAdd row: radius = OD/2, pitch = 1/TPI [inch] of ASME B1.20.1 *)
Theorem C18_npt_rows_match_standard : forall r, In r thread_rows -> row_fn r = NPTAdd_row -> ref_row_ok npt_reference r.
Proof. exact npt_rows_match_standard. Qed.
Print Assumptions C18_npt_rows_match_standard.

(* the designation decides the family, no designation is added twice, nothing panics, lengths positive *)
Theorem C18_rows_family : forall r, In r thread_rows -> family_ok r.
Proof. exact rows_family. Qed.
Print Assumptions C18_rows_family.

Theorem C18_rows_names_distinct : NoDup (map row_name thread_rows).
Proof. exact rows_names_distinct. Qed.
Print Assumptions C18_rows_names_distinct.

Theorem C18_rows_positive : forall r, In r thread_rows -> positive_ok r.
Proof. exact rows_positive. Qed.
Print Assumptions C18_rows_positive.

(* the Add functions (translated from the Go source), for ALL real arguments *)
Theorem C18_radius_is_half_diameter : forall f n (a b c : R), Radius (@apply_add ROps f n a b c) = (a / 2)%R.
Proof. exact radius_is_half_diameter. Qed.
Print Assumptions C18_radius_is_half_diameter.

Theorem C18_pitch_is_inverse_tpi : forall f n (a b c : R), f <> ISOAdd_row -> Pitch (@apply_add ROps f n a b c) = (1 / b)%R.
Proof. exact pitch_is_inverse_tpi. Qed.
Print Assumptions C18_pitch_is_inverse_tpi.

(* NPT: the stored taper angle has tangent 1/32 (1 in 16 on the diameter) ... *)
Theorem C18_npt_taper_is_1_in_32 : forall n (a b c : R), tan (Taper (@apply_add ROps NPTAdd_row n a b c)) = (1 / 32)%R.
Proof. exact npt_taper_is_1_in_32. Qed.
Print Assumptions C18_npt_taper_is_1_in_32.

(* ... and a screw of taper angle t is a cone of half-angle t: the profile ordinate of the point at
   distance rho from the axis and height z is rho + z tan t (outside the thin cone rho < - z tan t around
   the axis, where the point is mirrored so that it stays inside the core) *)
Theorem C18_screw_taper_cone : forall (s : ScrewSDF3 ROps) rho a z, (0 <= rho)%R ->
  (0 <= rho + z * tan (s_taper s))%R ->
  vy (screw_map s (mkV3 (rho * cos a) (rho * sin a) z)) = (rho + z * tan (s_taper s))%R.
Proof. exact screw_taper_cone. Qed.
Print Assumptions C18_screw_taper_cone.

(* the screw never hands its profile a point below the axis *)
Theorem C18_screw_map_ordinate_nonneg : forall (s : ScrewSDF3 ROps) x y z, (0 <= vy (screw_map s (mkV3 x y z)))%R.
Proof. exact screw_map_ordinate_nonneg. Qed.
Print Assumptions C18_screw_map_ordinate_nonneg.

(* unit conversion *)
Theorem C18_to_mm_scales : forall t : ThreadParameters ROps, Units t <> "mm"%string ->
  let m := ToMillimetre t in
  Radius m = (Radius t * 25.4)%R /\ Pitch m = (Pitch t * 25.4)%R /\ HexFlat2Flat m = (HexFlat2Flat t * 25.4)%R /\
  Taper m = Taper t /\ Name m = Name t /\ Units m = "mm"%string.
Proof. exact to_mm_scales. Qed.
Print Assumptions C18_to_mm_scales.

Theorem C18_to_mm_idempotent : forall (O : Ops) (t : ThreadParameters O), ToMillimetre (ToMillimetre t) = ToMillimetre t.
Proof. exact to_mm_idempotent. Qed.
Print Assumptions C18_to_mm_idempotent.

Theorem C18_to_mm_keeps_mm : forall (O : Ops) (t : ThreadParameters O), Units t = "mm"%string -> ToMillimetre t = t.
Proof. exact to_mm_keeps_mm. Qed.
Print Assumptions C18_to_mm_keeps_mm.

(* ------------------------------------------------------------------ SawTooth and the helix (reals) *)
Open Scope R_scope.

Theorem C18_sawtooth_range : forall x p, 0 < p -> - p / 2 <= @sawtooth ROps x p < p / 2.
Proof. exact sawtooth_range. Qed.
Print Assumptions C18_sawtooth_range.

Theorem C18_sawtooth_periodic : forall x p (k : Z), p <> 0 -> @sawtooth ROps (x + IZR k * p) p = @sawtooth ROps x p.
Proof. exact sawtooth_periodic. Qed.
Print Assumptions C18_sawtooth_periodic.

(* Screw3D accepts exactly length > 0, 0 <= taper < pi/2, pitch > 0 and stores lead = -pitch*starts *)
Theorem C18_screw3d_some : forall length taper pitch starts (s : ScrewSDF3 ROps),
  @screw3d ROps length taper pitch starts = Some s ->
  0 < length /\ 0 <= taper < PI / 2 /\ 0 < pitch /\
  s = mkScrew pitch ((- pitch) * IZR starts) (length / 2) taper.
Proof. exact screw3d_some. Qed.
Print Assumptions C18_screw3d_some.

(* an untapered screw is periodic in z with the pitch: same profile-plane point; inside the length
   the solid is the same; where the profile decides the value it is the same value *)
Theorem C18_screw_z_periodic : forall pitch len starts, 0 < pitch ->
  forall thread x y z (k : Z),
    let s := the_screw pitch len starts in
    let p := mkV3 x y z in
    let q := mkV3 x y (z + IZR k * pitch) in
    thread (screw_map s q) = thread (screw_map s p) /\
    (Rabs (wz p) <= len -> Rabs (wz q) <= len -> (screw_eval thread s q <= 0 <-> screw_eval thread s p <= 0)) /\
    (Rabs (wz p) - len <= thread (screw_map s p) -> Rabs (wz q) - len <= thread (screw_map s p) ->
     screw_eval thread s q = screw_eval thread s p).
Proof. intros pitch len starts Hp. exact (screw_z_periodic pitch len starts Hp). Qed.
Print Assumptions C18_screw_z_periodic.

(* THE HELIX (cartesian, any point off the axis): rotate by phi about z and advance
   starts*pitch*phi/2pi - right-handed for starts > 0, left-handed for starts < 0 *)
Theorem C18_screw_helix_invariant : forall pitch len starts, 0 < pitch ->
  forall thread x y z phi, (x <> 0 \/ y <> 0) ->
    let s := the_screw pitch len starts in
    let p := mkV3 x y z in
    let q := mkV3 (x * cos phi - y * sin phi) (x * sin phi + y * cos phi) (z + IZR starts * pitch * phi / (2 * PI)) in
    thread (screw_map s q) = thread (screw_map s p) /\
    (Rabs (wz p) <= len -> Rabs (wz q) <= len -> (screw_eval thread s q <= 0 <-> screw_eval thread s p <= 0)) /\
    (Rabs (wz p) - len <= thread (screw_map s p) -> Rabs (wz q) - len <= thread (screw_map s p) ->
     screw_eval thread s q = screw_eval thread s p).
Proof. intros pitch len starts Hp. exact (screw_helix_invariant pitch len starts Hp). Qed.
Print Assumptions C18_screw_helix_invariant.

(* handedness: the crest line (profile abscissa 0) at angle phi is at height starts*pitch*phi/2pi *)
Theorem C18_screw_crest_line : forall pitch len starts, 0 < pitch -> forall rho phi, 0 < rho ->
  screw_map (the_screw pitch len starts) (mkV3 (rho * cos phi) (rho * sin phi) (IZR starts * pitch * phi / (2 * PI)))
  = mkV2 0 rho.
Proof. intros pitch len starts Hp. exact (screw_crest_line pitch len starts Hp). Qed.
Print Assumptions C18_screw_crest_line.

(* ------------------------------------------------------------------ mating *)

Theorem C18_mating_reduces_to_profiles :
  forall (ext int : V2 ROps -> R) (body : V3 ROps -> R) pitch lead taper len_e len_i,
  0 < pitch ->
  (forall q, - pitch / 2 <= vx q < pitch / 2 -> ext q < 0 -> int q <= 0) ->
  (forall p, body p < 0 -> Rabs (wz p) <= len_i) ->
  forall p,
    ~ (screw_eval ext (mkScrew pitch lead len_e taper) p < 0 /\
       @difference ROps (body p) (screw_eval int (mkScrew pitch lead len_i taper) p) < 0).
Proof. exact mating_reduces_to_profiles. Qed.
Print Assumptions C18_mating_reduces_to_profiles.

(* the outline of ISOThread(r, p, external) lies under the outline of ISOThread(r + tol, p, internal)
   on the strip the mapping reaches, for EVERY radius, pitch > 0 and tolerance >= 0 *)
Theorem C18_iso_profiles_nest : forall r p tol, 0 < p -> 0 <= tol ->
  forall x y, - p / 2 <= x <= p / 2 ->
  under (@iso_ext_outline ROps r p) x y -> under (@iso_int_outline ROps (r + tol) p) x y.
Proof. exact iso_outlines_nest. Qed.
Print Assumptions C18_iso_profiles_nest.

(* the outlines are the vertex lists the model of ISOThread (corner smoothing of sdf/poly.go included)
   computes over the reals *)
Theorem C18_iso_thread_is_outline : forall r p, 0 < p ->
  @iso_thread ROps r p true = iso_polygon_of_outline p (@iso_ext_outline ROps r p) /\
  @iso_thread ROps r p false = iso_polygon_of_outline p (@iso_int_outline ROps r p).
Proof. exact iso_thread_is_outline. Qed.
Print Assumptions C18_iso_thread_is_outline.

(* bolt thread (radius r - te) against the nut material left by the internal thread (radius r + ti):
   no common interior point, any lead (starts), any taper, te, ti >= 0 *)
Theorem C18_iso_mating : forall (ext int : V2 ROps -> R) (body : V3 ROps -> R) r p te ti lead taper len_e len_i,
  0 < p -> 0 <= te -> 0 <= ti ->
  (forall q, - p / 2 <= vx q <= p / 2 -> ext q < 0 ->
             0 <= vy q /\ under (@iso_ext_outline ROps (r - te) p) (vx q) (vy q)) ->
  (forall q, - p / 2 <= vx q <= p / 2 -> 0 <= vy q ->
             under (@iso_int_outline ROps (r + ti) p) (vx q) (vy q) -> int q <= 0) ->
  (forall q, body q < 0 -> Rabs (wz q) <= len_i) ->
  forall q,
    ~ (screw_eval ext (mkScrew p lead len_e taper) q < 0 /\
       @difference ROps (body q) (screw_eval int (mkScrew p lead len_i taper) q) < 0).
Proof. exact iso_mating. Qed.
Print Assumptions C18_iso_mating.

(* ------------------------------------------------------------------ a generated nut fits the generated bolt
   gen_Nut / gen_Bolt (Generated/ObjThread.v) are the constructions of obj.Nut and obj.Bolt as read from the
   CURRENT obj/nut.go and obj/bolt.go: parameter checks, thread profile (radius +- tolerance, pitch, external /
   internal), Screw3D (length, taper, pitch, starts), the bodies they are cut from / joined with.  `inside` is
   the interior of such a construction (Sdf/ObjMate.v).  For every designation record t, all tolerances (the
   generators reject negative ones), every head style and all lengths: the threaded part of the bolt and the
   material of the nut have no common interior point when the nut is centred on the bolt's thread (any taper),
   and for untapered threads also when it is moved by whole pitches along the axis.  Hypotheses: the two
   profile functions are negative only under / non-positive under their outlines (C04's subject), and the nut's
   body (hex or knurled head, height = its second argument) lies between its end planes. *)
Theorem C18_obj_nut_bolt_mate :
  forall (prof : R -> R -> bool -> V2 ROps -> R)
         (call_in : string -> list R -> list string -> V3 ROps -> Prop)
         (chamfer_in : list R -> V3 ROps -> Prop)
         (t : ThreadParameters ROps) name_n style_n tol_n name_b style_b tol_b total shank N B,
  gen_Nut t name_n style_n tol_n = Some N ->
  gen_Bolt t name_b style_b tol_b total shank = Some B ->
  0 < Pitch t ->
  (forall q, - Pitch t / 2 <= vx q <= Pitch t / 2 -> prof (Radius t - tol_b) (Pitch t) true q < 0 ->
             0 <= vy q /\ under (@iso_ext_outline ROps (Radius t - tol_b) (Pitch t)) (vx q) (vy q)) ->
  (forall q, - Pitch t / 2 <= vx q <= Pitch t / 2 -> 0 <= vy q ->
             under (@iso_int_outline ROps (Radius t + tol_n) (Pitch t)) (vx q) (vy q) ->
             prof (Radius t + tol_n) (Pitch t) false q <= 0) ->
  (forall name nums strs q, name = "HexHead3D"%string \/ name = "KnurledHead3D"%string ->
             call_in name nums strs q -> Rabs (wz q) <= nth 1 nums 0 / 2) ->
  0 <= tol_n /\ 0 <= tol_b /\
  exists (l : list (Sk3 ROps)) (off : R), B = SkUnion3D l /\
    forall a, In a l -> has_screw a ->
    forall (k : Z), (k = 0%Z \/ Taper t = 0) ->
    forall q, ~ (inside prof call_in chamfer_in a q /\
                 inside prof call_in chamfer_in N (v3sub q (mkV3 0 0 (off + IZR k * Pitch t)))).
Proof. exact obj_nut_bolt_mate. Qed.
Print Assumptions C18_obj_nut_bolt_mate.

(* ------------------------------------------------------------------ the model is the source text
   Generated/ThreadExpr.v is translated from the Go AST of the CURRENT sdf/screw.go and sdf/utils.go on every
   run; the definitions the theorems above speak about (Sdf/Screw.v) are equal to it for all arguments, at the
   real-number instance the theorems are stated at.  (Proved by conversion on the unchanged tree - then the two
   are the same term in any number system - and otherwise by comparing the two real expressions congruence by
   congruence with ring / field / lra at the leaves, see Sdf/ScrewEq.v.) *)

Theorem C18_transl_SawTooth : forall x period : R, @gen_SawTooth ROps x period = @sawtooth ROps x period.
Proof. exact transl_SawTooth. Qed.
Print Assumptions C18_transl_SawTooth.

Theorem C18_transl_DtoR : forall degrees : R, @gen_DtoR ROps degrees = @dtor ROps degrees.
Proof. exact transl_DtoR. Qed.
Print Assumptions C18_transl_DtoR.

(* Screw3D on a non-nil profile: the guards, and pitch / lead = -pitch*starts / half length / taper as stored *)
Theorem C18_transl_Screw3D : forall (bb : Box2 ROps) (length taper pitch : R) (starts : Z),
  option_map (fun g => mkScrew (ScrewSDF3_pitch g) (ScrewSDF3_lead g) (ScrewSDF3_length g) (ScrewSDF3_taper g))
             (@gen_Screw3D ROps false bb length taper pitch starts)
  = @screw3d ROps length taper pitch starts.
Proof. exact transl_Screw3D. Qed.
Print Assumptions C18_transl_Screw3D.

Theorem C18_transl_Screw3D_bb : forall (bb : Box2 ROps) (length taper pitch : R) (starts : Z),
  option_map ScrewSDF3_bb (@gen_Screw3D ROps false bb length taper pitch starts)
  = option_map (screw_bb (vy (b2max bb))) (@screw3d ROps length taper pitch starts).
Proof. exact transl_Screw3D_bb. Qed.
Print Assumptions C18_transl_Screw3D_bb.

Theorem C18_transl_Screw3D_nil : forall (bb : Box2 ROps) (length taper pitch : R) (starts : Z),
  @gen_Screw3D ROps true bb length taper pitch starts = None.
Proof. exact transl_Screw3D_nil. Qed.
Print Assumptions C18_transl_Screw3D_nil.

(* ScrewSDF3.Evaluate: the helical mapping, the taper, the length clamp *)
Theorem C18_transl_ScrewSDF3_Evaluate : forall (thread : V2 ROps -> R) (s : ScrewSDF3 ROps) (p : V3 ROps),
  @gen_ScrewSDF3_Evaluate ROps thread (s_pitch s) (s_lead s) (s_length s) (s_taper s) p = screw_eval thread s p.
Proof. exact transl_ScrewSDF3_Evaluate. Qed.
Print Assumptions C18_transl_ScrewSDF3_Evaluate.

(* ISOThread: the vertex list (with the corners marked for smoothing) handed to Polygon2D *)
Theorem C18_transl_ISOThread : forall (radius pitch : R) (external : bool),
  @gen_ISOThread ROps radius pitch external = @iso_thread_pv ROps radius pitch external.
Proof. exact transl_ISOThread. Qed.
Print Assumptions C18_transl_ISOThread.

(* ------------------------------------------------------------------ non-vacuity *)

(* the hypotheses of the nesting theorem are satisfiable: the point just under the crest flat of M6x1 *)
Example C18_nest_hyp_satisfiable :
  0 < 1 /\ 0 <= 0 /\ - 1 / 2 <= 0 <= 1 / 2 /\ under (@iso_ext_outline ROps 3 1) 0 (3 - 1 / 100).
Proof. exact nest_example. Qed.

(* the generators accept an M6x1 nut and bolt (both head styles), the bolt has a threaded part, and `inside`
   is inhabited *)
Example C18_obj_generated : forall prof,
  (exists N, gen_Nut m6 "M6x1" "hex" 0 = Some N) /\
  (exists l a, gen_Bolt m6 "M6x1" "hex" 0 10 2 = Some (SkUnion3D l) /\ In a l /\ has_screw a) /\
  (exists l a, gen_Bolt m6 "M6x1" "knurl" 0 10 2 = Some (SkUnion3D l) /\ In a l /\ has_screw a) /\
  (exists q, inside prof (fun _ _ _ _ => True) (fun _ _ => True)
               (SkCall3 "HexHead3D" [1; 2] ["tb"%string] []) q).
Proof. exact m6_generated. Qed.

(* the database has ISO, unified and pipe rows *)
Example C18_rows_nonempty :
  exists a b c, In a thread_rows /\ row_fn a = ISOAdd_row /\ In b thread_rows /\ row_fn b = UTSAdd_row /\
                In c thread_rows /\ row_fn c = NPTAdd_row.
Proof. exact rows_example. Qed.

(* ---- inventory of mutable state (DESIGN.md 2.3).  The models above are functions of their arguments; they are
   faithful only as long as the code keeps no state between calls beyond what they mention.  The package-level
   variables and struct fields in the scope of C18 (and which of them are written outside construction, from which
   entry points) are regenerated from the current source on every run (harness/stategen -> Generated/StateInv.v)
   and contain no state beyond the expected, reviewed inventory of Sys/StateInvSpec.v, where every piece of state
   that legitimately exists names the model component that accounts for it.  Breaks when a written package-level
   variable, a struct field, or a write of a field outside its constructor is added in scope (coqc then prints the
   differences); tolerates moved declarations, reordered fields, renamed locals, new helpers / constants / tables
   nothing writes. *)
From Sdfx Require Sys.StateInvSpec Sys.StateInvC18.
Theorem C18_state_inventory : Sdfx.Sys.StateInvSpec.state_ok_C18 = true.
Proof. exact Sdfx.Sys.StateInvC18.C18_state_inventory. Qed.
Print Assumptions C18_state_inventory.
