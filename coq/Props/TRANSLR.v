(* TRANSLR - the syntactic tie between the Go source of package render (and the helpers of sdf,
   vec/* it calls) and the Gallina model.  This is not a property file.
   Generated/RenderExpr.v is re-translated from the Go AST of the current source tree on every run
   (harness/rendergen); each theorem below says that the definition generated from one Go function
   is equal, for all arguments and over an arbitrary `O : Ops`, to the hand-written model function
   the render development reasons about (Render/Interp.v, Render/Octree.v, Render/Sample.v,
   Algo/Canon.v, Algo/Delaunay.v, Io/Stl.v).  Loop-free functions are proved by conversion after
   splitting on the booleans the code branches on; the table-driven loops of mcToTriangles /
   msToLines by computing both sides on every configuration with the interpolation and the
   degeneracy test abstracted; the hdiag loop by the filling-loop lemma of Render/RgLib.v.
   A semantic edit of the Go function (or of the model function) breaks the theorem named after it;
   reformatting, renaming of locals, an equivalent re-arrangement of the loops do not.
     int/uint are Z (no wrap-around), arrays of <= 3 elements are tuples, longer arrays and slices
     are lists, an out-of-range index is not a panic but the zero value (Render/RgLib.v).
     *_prefix theorems tie only the statements before the named call of the Go function.
   processCube / processSquare are translated as the list of events one activation makes (trace
   targets); octree_step / quadtree_step say the model recursion is its interpretation.
   Not covered (effects, channels): the layer/cube walks of marchingCubes / marchingSquares, the
   cache map of dcache3/dcache2 (evaluate is a function parameter), Delaunay2d's main loop, the sort in
   TriangleISet.Canonical; those stay tied by differential execution (C05-C08, C20). *)
From Coq Require Import ZArith NArith List Bool.
From Sdfx Require Import Num.Ops Num.FInst Geo.Vec Geo.Box Geo.Mat Render.MC Render.MS Render.Lattice Render.Interp
  Render.Octree Render.Sample Render.RgLib Algo.Canon Algo.Delaunay Io.Stl
  Generated.RenderExpr Render.GenEqRender Render.GenEqMC Render.GenEqOct Algo.GenEqDelaunay Io.GenEqStl.
Import OpsNotations ListNotations.
Local Open Scope ops_scope.

(* ---------------------------------------------------------------- render/march3.go *)
Theorem TRANSL_render_mcInterpolate : forall (O : Ops) (p1 p2 : V3 O) (v1 v2 x : T O),
    rg_render_mcInterpolate p1 p2 v1 v2 x = mc_interpolate p1 p2 v1 v2 x.
Proof. exact (@mcInterpolate_eq). Qed.
Print Assumptions TRANSL_render_mcInterpolate.

Theorem TRANSL_render_mcToTriangles : forall (O : Ops) (p0 p1 p2 p3 p4 p5 p6 p7 : V3 O) (v0 v1 v2 v3 v4 v5 v6 v7 x : T O),
    rg_render_mcToTriangles [p0; p1; p2; p3; p4; p5; p6; p7] [v0; v1; v2; v3; v4; v5; v6; v7] x =
    mc_to_triangles (sel8 p0 p1 p2 p3 p4 p5 p6 p7) (sel8 v0 v1 v2 v3 v4 v5 v6 v7) x.
Proof. exact (@mcToTriangles_eq). Qed.
Print Assumptions TRANSL_render_mcToTriangles.

Theorem TRANSL_render_layerYZ_Get : forall (O : Ops) (L : lattice3 O) (v0 v1 : list (T O)) (x : Z) (y z : nat),
    (0 <= snd (lsteps L))%Z ->
    rg_render_layerYZ_Get (lsteps L) v0 v1 x (Z.of_nat y) (Z.of_nat z) = lget L (if (x =? 0)%Z then v0 else v1) y z.
Proof. exact (@layerYZ_Get_eq). Qed.
Print Assumptions TRANSL_render_layerYZ_Get.

Theorem TRANSL_render_marchingCubes_lattice_prefix : forall (O : Ops) (box : Box3 O) (step : T O),
    rg_render_marchingCubes box step =
    (lbase (mc_lattice box step), linc (mc_lattice box step), lsteps (mc_lattice box step)).
Proof. exact (@marchingCubes_lattice_eq). Qed.
Print Assumptions TRANSL_render_marchingCubes_lattice_prefix.

Theorem TRANSL_render_MarchingCubesUniform_box_prefix : forall (O : Ops) (meshCells : Z) (bb0 : Box3 O),
    rg_render_MarchingCubesUniform_Render meshCells bb0 = mcu_box bb0 meshCells.
Proof. exact (@mcu_box_eq). Qed.
Print Assumptions TRANSL_render_MarchingCubesUniform_box_prefix.

(* ---------------------------------------------------------------- render/march2.go *)
Theorem TRANSL_render_msInterpolate : forall (O : Ops) (p1 p2 : V2 O) (v1 v2 x : T O),
    rg_render_msInterpolate p1 p2 v1 v2 x = ms_interpolate p1 p2 v1 v2 x.
Proof. exact (@msInterpolate_eq). Qed.
Print Assumptions TRANSL_render_msInterpolate.

Theorem TRANSL_render_msToLines : forall (O : Ops) (p0 p1 p2 p3 : V2 O) (v0 v1 v2 v3 x : T O),
    rg_render_msToLines [p0; p1; p2; p3] [v0; v1; v2; v3] x =
    ms_to_lines (sel4 p0 p1 p2 p3) (sel4 v0 v1 v2 v3) x.
Proof. exact (@msToLines_eq). Qed.
Print Assumptions TRANSL_render_msToLines.

(* ---------------------------------------------------------------- sdf/triangle3.go, sdf/line.go, vec *)
Theorem TRANSL_render_v3_Equals : forall (O : Ops) (a b : V3 O) (tol : T O), rg_v3_Vec_Equals a b tol = v3_equals a b tol.
Proof. exact (@v3_Equals_eq). Qed.
Print Assumptions TRANSL_render_v3_Equals.

Theorem TRANSL_render_v2_Equals : forall (O : Ops) (a b : V2 O) (tol : T O), rg_v2_Vec_Equals a b tol = v2_equals a b tol.
Proof. exact (@v2_Equals_eq). Qed.
Print Assumptions TRANSL_render_v2_Equals.

Theorem TRANSL_render_Triangle3_Degenerate : forall (O : Ops) (t : V3 O * V3 O * V3 O) (tol : T O),
    rg_sdf_Triangle3_Degenerate t tol = tri3_degenerate t tol.
Proof. exact (@Triangle3_Degenerate_eq). Qed.
Print Assumptions TRANSL_render_Triangle3_Degenerate.

Theorem TRANSL_render_Line2_Degenerate : forall (O : Ops) (l : V2 O * V2 O) (tol : T O),
    rg_sdf_Line2_Degenerate l tol = line2_degenerate l tol.
Proof. exact (@Line2_Degenerate_eq). Qed.
Print Assumptions TRANSL_render_Line2_Degenerate.

Theorem TRANSL_render_Triangle3_Normal : forall (O : Ops) (a b c : T O * T O * T O),
    rg_sdf_Triangle3_Normal (v3_of a, v3_of b, v3_of c) = v3_of (normal_g (ops_of O) a b c).
Proof. exact Triangle3_Normal_eq. Qed.
Print Assumptions TRANSL_render_Triangle3_Normal.

Theorem TRANSL_render_Normal_float_ops : float_ops = ops_of FOps.
Proof. exact float_ops_FOps. Qed.
Print Assumptions TRANSL_render_Normal_float_ops.

(* ---------------------------------------------------------------- render/march3x.go, render/march2x.go *)
Theorem TRANSL_render_dcache3_point_prefix : forall (O : Ops) (origin : V3 O) (res : T O) (vi : pt),
    rg_render_dcache3_evaluate origin res vi = oct_point origin res vi.
Proof. exact (@dcache3_point_eq). Qed.
Print Assumptions TRANSL_render_dcache3_point_prefix.

Theorem TRANSL_render_dcache2_point_prefix : forall (O : Ops) (origin : V2 O) (res : T O) (vi : pt2),
    rg_render_dcache2_evaluate origin res vi = quad_point origin res vi.
Proof. exact (@dcache2_point_eq). Qed.
Print Assumptions TRANSL_render_dcache2_point_prefix.

Theorem TRANSL_render_newDcache3 : forall (O : Ops) (origin : V3 O) (res : T O) (n : nat),
    rg_render_newDcache3 origin res (Z.of_nat n) = (origin, res, hdiag3_table res n).
Proof. exact (@newDcache3_eq). Qed.
Print Assumptions TRANSL_render_newDcache3.

Theorem TRANSL_render_newDcache2 : forall (O : Ops) (origin : V2 O) (res : T O) (n : nat),
    rg_render_newDcache2 origin res (Z.of_nat n) = (origin, res, hdiag2_table res n).
Proof. exact (@newDcache2_eq). Qed.
Print Assumptions TRANSL_render_newDcache2.

Theorem TRANSL_render_dcache3_isEmpty : forall (O : Ops) (origin : V3 O) (res : T O) (fv : pt -> T O) (n m : nat) (v : pt),
    (S m < n)%nat ->
    rg_render_dcache3_isEmpty (hdiag3_table res n) (fun vi => (oct_point origin res vi, fv vi)) v (Z.of_nat (S m)) =
    oct_empty res fv m v.
Proof. exact (@dcache3_isEmpty_eq). Qed.
Print Assumptions TRANSL_render_dcache3_isEmpty.

Theorem TRANSL_render_dcache2_isEmpty : forall (O : Ops) (origin : V2 O) (res : T O) (fv : pt2 -> T O) (n m : nat) (v : pt2),
    (S m < n)%nat ->
    rg_render_dcache2_isEmpty (hdiag2_table res n) (fun vi => (quad_point origin res vi, fv vi)) v (Z.of_nat (S m)) =
    quad_empty res fv m v.
Proof. exact (@dcache2_isEmpty_eq). Qed.
Print Assumptions TRANSL_render_dcache2_isEmpty.

(* processCube / processSquare: one activation as the list of its events (RgOut = the value written,
   RgCall = the arguments of a recursive call), dc.isEmpty and dc.evaluate as function parameters *)
Theorem TRANSL_render_processCube_cell : forall (O : Ops) (origin : V3 O) (res : T O) (fv : pt -> T O)
    (E : (Z * Z * Z) * Z -> bool) (v : Z * Z * Z),
    rg_render_dcache3_processCube E (fun vi => (oct_point origin res vi, fv vi)) v 1 =
    if E (v, 1%Z) then [] else [RgOut (oct_cell origin res fv v)].
Proof. exact (@processCube_cell_eq). Qed.
Print Assumptions TRANSL_render_processCube_cell.

Theorem TRANSL_render_processCube_node : forall (O : Ops) (E : (Z * Z * Z) * Z -> bool) (ev : pt -> V3 O * T O) (v : Z * Z * Z) (m : nat),
    rg_render_dcache3_processCube E ev v (Z.of_nat (S (S m))) =
    if E (v, Z.of_nat (S (S m))) then [] else map (fun c => RgCall (c, Z.of_nat (S m))) (oct_children m v).
Proof. exact (@processCube_node_eq). Qed.
Print Assumptions TRANSL_render_processCube_node.

Theorem TRANSL_render_octree_step : forall (O : Ops) (origin : V3 O) (res : T O) (fv : pt -> T O) (n m : nat) (v : pt),
    (S m < n)%nat ->
    octree origin res fv m v =
    run_trace (fun a : pt * Z => octree origin res fv (pred m) (fst a))
      (rg_render_dcache3_processCube
         (fun a => rg_render_dcache3_isEmpty (hdiag3_table res n) (fun vi => (oct_point origin res vi, fv vi)) (fst a) (snd a))
         (fun vi => (oct_point origin res vi, fv vi)) v (Z.of_nat (S m))).
Proof. exact (@octree_step). Qed.
Print Assumptions TRANSL_render_octree_step.

Theorem TRANSL_render_processSquare_cell : forall (O : Ops) (origin : V2 O) (res : T O) (fv : pt2 -> T O)
    (E : (Z * Z) * Z -> bool) (v : Z * Z),
    rg_render_dcache2_processSquare E (fun vi => (quad_point origin res vi, fv vi)) v 1 =
    if E (v, 1%Z) then [] else [RgOut (quad_cell origin res fv v)].
Proof. exact (@processSquare_cell_eq). Qed.
Print Assumptions TRANSL_render_processSquare_cell.

Theorem TRANSL_render_processSquare_node : forall (O : Ops) (E : (Z * Z) * Z -> bool) (ev : pt2 -> V2 O * T O) (v : Z * Z) (m : nat),
    rg_render_dcache2_processSquare E ev v (Z.of_nat (S (S m))) =
    if E (v, Z.of_nat (S (S m))) then [] else map (fun c => RgCall (c, Z.of_nat (S m))) (quad_children m v).
Proof. exact (@processSquare_node_eq). Qed.
Print Assumptions TRANSL_render_processSquare_node.

Theorem TRANSL_render_quadtree_step : forall (O : Ops) (origin : V2 O) (res : T O) (fv : pt2 -> T O) (n m : nat) (v : pt2),
    (S m < n)%nat ->
    quadtree origin res fv m v =
    run_trace (fun a : pt2 * Z => quadtree origin res fv (pred m) (fst a))
      (rg_render_dcache2_processSquare
         (fun a => rg_render_dcache2_isEmpty (hdiag2_table res n) (fun vi => (quad_point origin res vi, fv vi)) (fst a) (snd a))
         (fun vi => (quad_point origin res vi, fv vi)) v (Z.of_nat (S m))).
Proof. exact (@quadtree_step). Qed.
Print Assumptions TRANSL_render_quadtree_step.

(* ---------------------------------------------------------------- render/delaunay.go, sdf/triangle2.go *)
Theorem TRANSL_render_Less : forall (a : list (Z * Z * Z)) (i j : Z),
    rg_render_TriangleIByIndex_Less a i j = Canon.less (znth i a (0, 0, 0)%Z) (znth j a (0, 0, 0)%Z).
Proof. exact (@Less_eq). Qed.
Print Assumptions TRANSL_render_Less.

Theorem TRANSL_render_Canonical : forall (t : Canon.tri), rg_render_TriangleI_Canonical t = Canon.canon t.
Proof. exact (@Canonical_eq). Qed.
Print Assumptions TRANSL_render_Canonical.

Theorem TRANSL_render_Circumcenter : forall (O : Ops) (p1 p2 p3 : V2 O),
    rg_sdf_Triangle2_Circumcenter (p1, p2, p3) = circumcenter p1 p2 p3.
Proof. exact (@Circumcenter_eq). Qed.
Print Assumptions TRANSL_render_Circumcenter.

Theorem TRANSL_render_InCircumcircle : forall (O : Ops) (p1 p2 p3 p : V2 O),
    rg_sdf_Triangle2_InCircumcircle (p1, p2, p3) p = in_circumcircle p1 p2 p3 p.
Proof. exact (@InCircumcircle_eq). Qed.
Print Assumptions TRANSL_render_InCircumcircle.

Theorem TRANSL_render_VecSet_Min : forall (O : Ops) (vs : list (V2 O)), rg_v2_VecSet_Min vs = v2set_min vs.
Proof. exact (@VecSet_Min_eq). Qed.
Print Assumptions TRANSL_render_VecSet_Min.

Theorem TRANSL_render_VecSet_Max : forall (O : Ops) (vs : list (V2 O)), rg_v2_VecSet_Max vs = v2set_max vs.
Proof. exact (@VecSet_Max_eq). Qed.
Print Assumptions TRANSL_render_VecSet_Max.

Theorem TRANSL_render_superTriangle : forall (O : Ops) (vs : list (V2 O)), (2 <= length vs)%nat ->
    rg_render_superTriangle vs = Some (super_triangle vs).
Proof. exact (@superTriangle_eq). Qed.
Print Assumptions TRANSL_render_superTriangle.
