(* C09 - theorems only.  See DESIGN.md section 6, C09.
   Model: coq/Sys/Sched.v; regenerated data: coq/Generated/Effects.v (harness/effsum) and
   coq/Generated/SysProgs.v (harness/sysgen: the statement skeleton of layerYZ.Evaluate,
   evalRoutines and marchingCubes extracted from the current Go source).  Sys/SchedProg.v gives
   those programs a meaning; the C09_source_* theorems are about the GENERATED programs. *)
From Coq Require Import List String Bool Arith.
From Sdfx Require Import Sys.SysLang Sys.Lockset Sys.Sched Generated.Effects Sys.EffectsC09.
From Sdfx Require Import Sys.PoolProg Sys.SchedProg Generated.SysProgs Sys.SysProgsC09.
Import ListNotations.

(* The batches layerYZ.Evaluate sends cover the layer exactly, for ANY batch size >= 1 and ANY
   layer: concatenated they are the points in loop order; the offset of a batch is the number
   of points before it, so batch k writes [off_k, off_k + len_k), these ranges are pairwise
   disjoint (in send order) and their union is [0, n); no batch is empty or longer than B. *)
Theorem C09_batch_plan_covers : forall (Pt : Type) (B : nat) (pts : list Pt), 1 <= B ->
  flat Pt (batch_plan Pt B pts) = pts /\
  offsets_ok Pt 0 (batch_plan Pt B pts) /\
  sizes_ok Pt B (batch_plan Pt B pts) /\
  (forall off b, In (off, b) (batch_plan Pt B pts) ->
     forall i, i < List.length b -> nth_error pts (off + i) = nth_error b i) /\
  (forall j, j < List.length pts ->
     exists off b i, In (off, b) (batch_plan Pt B pts) /\ i < List.length b /\ j = off + i) /\
  (forall l1 o1 b1 l2 o2 b2 l3, batch_plan Pt B pts = (l1 ++ (o1, b1) :: l2 ++ (o2, b2) :: l3)%list ->
     o1 + List.length b1 <= o2).
Proof. exact batch_plan_covers. Qed.
Print Assumptions C09_batch_plan_covers.

(* For every schedule - any assignment of batches to workers, any interleaving of the writes,
   any requests of other renders in the queue before, during and after, any state of the
   workers when the layer starts - once the layer's WaitGroup is released its array is
   map f points. *)
Theorem C09_layer_schedule_independent :
  forall (Pt Val : Type) (f : Pt -> Val) (B : nat), 1 <= B ->
  forall (points : list Pt) (mine : nat)
         (qf : list (req Pt Val)) (wf : nat -> option (req Pt Val * nat)) (m0 : memory Val)
         (sched : list (action Pt Val)),
    (forall r, In r qf -> r_arr Pt Val r <> mine) ->
    (forall k r i, wf k = Some (r, i) -> r_arr Pt Val r <> mine) ->
    Forall (foreign_ok Pt Val mine) sched ->
    finished Pt Val mine (run Pt Val mine sched (init Pt Val f B points mine qf wf m0)) ->
    layer_out Pt Val points mine (run Pt Val mine sched (init Pt Val f B points mine qf wf m0)) = map f points.
Proof. exact layer_schedule_independent. Qed.
Print Assumptions C09_layer_schedule_independent.

(* At every moment of every schedule each cell of the layer array holds its old content or
   the correct value: nothing another render does is visible in it. *)
Theorem C09_foreign_requests_do_not_interfere :
  forall (Pt Val : Type) (f : Pt -> Val) (B : nat), 1 <= B ->
  forall (points : list Pt) (mine : nat)
         (qf : list (req Pt Val)) (wf : nat -> option (req Pt Val * nat)) (m0 : memory Val)
         (sched : list (action Pt Val)),
    (forall r, In r qf -> r_arr Pt Val r <> mine) ->
    (forall k r i, wf k = Some (r, i) -> r_arr Pt Val r <> mine) ->
    Forall (foreign_ok Pt Val mine) sched ->
    forall j, s_m Pt Val (run Pt Val mine sched (init Pt Val f B points mine qf wf m0)) mine j = m0 mine j \/
              exists p, nth_error points j = Some p /\
                        s_m Pt Val (run Pt Val mine sched (init Pt Val f B points mine qf wf m0)) mine j = f p.
Proof. exact foreign_requests_do_not_interfere. Qed.
Print Assumptions C09_foreign_requests_do_not_interfere.

(* the render is a function of the layer arrays, and those do not depend on the environment *)
Theorem C09_render_is_function_of_layers :
  forall (Pt Val Out : Type) (f : Pt -> Val) (B : nat), 1 <= B ->
  forall (post : list (list Val) -> Out) (ls : list (list Pt)) (es : list (env Pt Val)),
    envs_ok Pt Val f B ls es -> render Pt Val Out f B post ls es = post (map (map f) ls).
Proof. exact render_is_function_of_layers. Qed.
Print Assumptions C09_render_is_function_of_layers.

(* Two renders of the same model - whatever the two families of schedules, queue contents,
   worker states, memory contents left by earlier layers and renders - produce equal outputs. *)
Theorem C09_deterministic :
  forall (Pt Val Out : Type) (f : Pt -> Val) (B : nat), 1 <= B ->
  forall (post : list (list Val) -> Out) (ls : list (list Pt)) (es1 es2 : list (env Pt Val)),
    envs_ok Pt Val f B ls es1 -> envs_ok Pt Val f B ls es2 ->
    render Pt Val Out f B post ls es1 = render Pt Val Out f B post ls es2.
Proof. exact render_deterministic. Qed.
Print Assumptions C09_deterministic.

(* The premise "nothing else happens": discharged from the summaries regenerated from the
   current Go source against the whitelist of Sched.v section 4. *)
Theorem C09_render_effects_whitelisted : summaries_ok render_effect_ok render_summaries = true.
Proof. exact render_effects_whitelisted. Qed.
Print Assumptions C09_render_effects_whitelisted.

Theorem C09_evaluate_effects_deterministic : summaries_ok eval_effect_deterministic evaluate_summaries = true.
Proof. exact evaluate_effects_deterministic. Qed.
Print Assumptions C09_evaluate_effects_deterministic.

Theorem C09_batch_size_positive : 1 <= batchSize.
Proof. exact batch_size_positive. Qed.
Print Assumptions C09_batch_size_positive.

(* ------------------------------------------------------------------ tie to the source by translation *)

(* The batching loop found in the source, interpreted statement by statement (request creation,
   reset / append of the point slice, length test, WaitGroup.Add, send, shift of the output
   slice, the loop over the points of the layer, the final test and Wait): for EVERY layer the
   requests it sends are Sched.batch_plan with the batch size of the source; every send is
   preceded by its own Add; the function ends in the Wait. *)
Theorem C09_source_layer_is_batch_plan : forall (Pt : Type) (points : list Pt),
  let s := lexec Pt points (strip layerYZ_Evaluate) (linit Pt) in
  l_sent Pt s = batch_plan Pt batchSize points /\ l_adds Pt s = List.length (l_sent Pt s) /\
  l_early Pt s = false /\ l_waited Pt s = true /\ l_req Pt s = true.
Proof. exact source_layer_is_batch_plan. Qed.
Print Assumptions C09_source_layer_is_batch_plan.

(* evalRoutines found in the source: one goroutine per CPU, each running the receive loop /
   point loop / store / Done program whose semantics is SchedProg.wstep; marchingCubes itself
   starts no goroutine. *)
Theorem C09_source_routines :
  (strip evalRoutines = [ForCPU [Go worker_prog]] /\ forall ncpu, go_count ncpu (strip evalRoutines) = ncpu) /\
  (forall ncpu, go_count ncpu (strip marchingCubes) = 0).
Proof. exact (conj source_routines source_marching_sequential). Qed.
Print Assumptions C09_source_routines.

(* Any interleaving of the statements of any number of such routines with the sends of this
   layer and of other renders is a schedule of Sched.v: the machine of the theorems above is
   what the program text does.  (The Done is reached only when every point of the request has
   been stored, so the guard of Sched.exec (ADone k) is a consequence, not an assumption.) *)
Theorem C09_source_workers_refine_sched :
  forall (Pt Val : Type) (mine : nat) (es : list (event Pt Val)) (y : sys Pt Val),
    sys_ok Pt Val y ->
    Forall (fun e => match e with EEnv _ _ a => foreign_ok Pt Val mine a | _ => True end) es ->
    exists sched, y_s Pt Val (erun Pt Val mine es y) = Sched.run Pt Val mine sched (y_s Pt Val y) /\
                  Forall (foreign_ok Pt Val mine) sched /\ sys_ok Pt Val (erun Pt Val mine es y).
Proof. exact workers_refine_sched. Qed.
Print Assumptions C09_source_workers_refine_sched.

(* non-vacuity: the one-worker schedule finishes a 5-point layer with batch size 2 (3 batches) *)
Example C09_hyp_satisfiable :
  let pts := [10; 11; 12; 13; 14] in
  let s := run nat nat 0 (seq_sched nat nat (plan_reqs nat nat S 2 pts 0))
               (init nat nat S 2 pts 0 [] (fun _ => None) (fun _ _ => 0)) in
  finished nat nat 0 s /\ layer_out nat nat pts 0 s = [11; 12; 13; 14; 15] /\
  Forall (foreign_ok nat nat 0) (seq_sched nat nat (plan_reqs nat nat S 2 pts 0)) /\
  List.length (plan_reqs nat nat S 2 pts 0) = 3.
Proof. exact sched_example. Qed.

(* ---- inventory of mutable state (DESIGN.md 2.3).  The models above are functions of their arguments; they are
   faithful only as long as the code keeps no state between calls beyond what they mention.  The package-level
   variables and struct fields in the scope of C09 (and which of them are written outside construction, from which
   entry points) are regenerated from the current source on every run (harness/stategen -> Generated/StateInv.v)
   and contain no state beyond the expected, reviewed inventory of Sys/StateInvSpec.v, where every piece of state
   that legitimately exists names the model component that accounts for it.  Breaks when a written package-level
   variable, a struct field, or a write of a field outside its constructor is added in scope (coqc then prints the
   differences); tolerates moved declarations, reordered fields, renamed locals, new helpers / constants / tables
   nothing writes. *)
From Sdfx Require Sys.StateInvSpec Sys.StateInvC09.
Theorem C09_state_inventory : Sdfx.Sys.StateInvSpec.state_ok_C09 = true.
Proof. exact Sdfx.Sys.StateInvC09.C09_state_inventory. Qed.
Print Assumptions C09_state_inventory.
