(* C19 - theorems only.  See DESIGN.md section 6, C19.
   Mesh vertices are cell indices (one vertex per cell with a sign change); s p = true means
   "the field is negative at lattice point p".  v1_mesh / v2_mesh are the models of
   dc3v1.go / dc3v2.go over the tables regenerated from the current source. *)
From Coq Require Import Reals List ZArith Permutation.
From Sdfx Require Import Num.Ops.
From Sdfx Require Import Num.RInst.
From Sdfx Require Import Geo.Vec.
From Sdfx Require Import Geo.Box.
From Sdfx Require Import Geo.BoxR.
From Sdfx Require Import Geo.DCVertex.
From Sdfx Require Import Geo.DCVertexCorr.   (* float instance used by the cases files *)
From Sdfx Require Import Geo.DCSolve.        (* V2 vertex solver: model, float instance for the cases files *)
From Sdfx Require Import Generated.DCTables.
From Sdfx Require Import Algo.DualGrid.
From Sdfx Require Import Algo.DCModel.
From Sdfx Require Import Algo.DCOctree.
From Sdfx Require Import Algo.DCVisits.
From Sdfx Require Import Generated.DCProc.   (* the V1 traversal code, translated from the current source *)
From Sdfx Require Import Algo.DCPrune.
From Sdfx Require Import Algo.DCProcEq.
From Sdfx Require Import Algo.DCScan.
Import ListNotations.
Open Scope Z_scope.

(* ---- the abstract dual mesh is closed: every sign assignment, every lattice size *)

(* the 16 sign patterns of a lattice face: the signed crossings of its four edges cancel *)
Theorem C19_dual_face_cancel_patterns : forall b00 b10 b01 b11 : bool,
  (b2z b10 - b2z b11) - (b2z b00 - b2z b01) + (b2z b00 - b2z b10) - (b2z b01 - b2z b11) = 0.
Proof. exact dual_face_cancel_patterns. Qed.
Print Assumptions C19_dual_face_cancel_patterns.

(* for each of the 3 axes d: the four quads whose dual edges cross the face between cell w and
   cell w + unit d contribute zero net directed edges between the two cells *)
Theorem C19_dual_face_cancel : forall n s d w, boundary_outside n s -> face_sum n s d w = 0.
Proof. exact dual_face_cancel. Qed.
Print Assumptions C19_dual_face_cancel.

(* closed: every directed edge u->v occurs as often as v->u *)
Theorem C19_dual_mesh_closed : forall n s, boundary_outside n s ->
  forall u v, dcount (dual_mesh n s) u v = dcount (dual_mesh n s) v u.
Proof. exact dual_mesh_closed. Qed.
Print Assumptions C19_dual_mesh_closed.

(* oriented from solid to void *)
Theorem C19_dual_mesh_oriented : forall n s a p t, In t (edge_tris n s a p) ->
  tri_normal t = if s p then unit a else csub (0, 0, 0) (unit a).
Proof. exact dual_tri_normal. Qed.
Print Assumptions C19_dual_mesh_oriented.

(* merging vertices (coincident positions) keeps a closed mesh closed *)
Theorem C19_closed_under_identification : forall f ts, closed ts -> closed (map (map_tri f) ts).
Proof. exact closed_pushforward. Qed.
Print Assumptions C19_closed_under_identification.

(* ---- V2 (grid renderer): far-edge enumeration + flip = the dual mesh *)
Theorem C19_v2_quad_rule : forall n s, Permutation (v2_mesh n s) (dual_mesh n s).
Proof. exact v2_quad_rule. Qed.
Print Assumptions C19_v2_quad_rule.

Theorem C19_v2_mesh_closed : forall n s, boundary_outside n s -> closed (v2_mesh n s).
Proof. exact v2_mesh_closed. Qed.
Print Assumptions C19_v2_mesh_closed.

(* ---- V1 (octree renderer) *)
Theorem C19_v1_tables_geometry : dc_tables_geometry = true.
Proof. exact v1_tables_geometry. Qed.
Print Assumptions C19_v1_tables_geometry.

Theorem C19_v1_process_edge_rule : forall s a p,
  Permutation (process_edge (leaf_corners s) (map lf (slots a p)) (dirZ a))
              (match s p, s (cadd p (unit a)) with
               | true, false => fan (quad_cells a p)
               | false, true => fan (rev_quad (quad_cells a p))
               | _, _ => []
               end).
Proof. exact v1_process_edge_rule. Qed.
Print Assumptions C19_v1_process_edge_rule.

(* every depth, every leaf table: the recursive procedure = sign-free visit list + emission per visit *)
Theorem C19_v1_traversal_is_visits : forall lc d, v1_mesh_lc lc d = flat_map (emit lc) (cvis d (0, 0, 0)).
Proof. exact v1_mesh_is_visits. Qed.
Print Assumptions C19_v1_traversal_is_visits.

(* EVERY depth: the sign-free visit list of the recursive procedure at the root enumerates every
   minimal lattice edge that is surrounded by four cells of the 2^d lattice exactly once, with its
   four cells in node order (induction over the level at arbitrary origin: cell = 8 cells + 12
   faces + 6 edges, face = 4 faces + 4 edges, edge = 2 edges; Algo/DCVisits.v) *)
Theorem C19_v1_visits : forall d, Permutation (cvis d (0, 0, 0)) (expected_visits (cube d)).
Proof. exact v1_visits. Qed.
Print Assumptions C19_v1_visits.

(* the same at an arbitrary origin, with multiplicities: in the visit list of a cell of size 2^l at
   off the visit of edge (a, p) occurs once if the edge is interior to that cube and not otherwise,
   and nothing else occurs *)
Theorem C19_v1_cell_visits : forall l off, spec (ind_cell (pow2 l) off) (cvis l off).
Proof. exact cvis_spec. Qed.
Print Assumptions C19_v1_cell_visits.

(* EVERY depth d (2^d cells per axis), EVERY sign assignment: V1's index triangles on the
   full-depth octree are the dual mesh, as a multiset *)
Theorem C19_v1_traversal : forall d s, Permutation (v1_mesh s d) (dual_mesh (cube d) s).
Proof. exact v1_traversal. Qed.
Print Assumptions C19_v1_traversal.

Theorem C19_v1_mesh_closed : forall d s, boundary_outside (cube d) s -> closed (v1_mesh s d).
Proof. exact v1_mesh_closed. Qed.
Print Assumptions C19_v1_mesh_closed.

(* ---- octrees pruned by Populate's out-of-volume filter (non-cubic volumes): a node the filter stops
   keeps nil children.  cell_proc_p lc pr is the traversal over the octree in which the nodes selected by
   pr have no children (Algo/DCPrune.v).  If every pruned node is dead (no size-1 cell below it has a sign
   change) the pruned traversal emits the triangles of the full one, in the same order. *)
Theorem C19_v1_prune : forall lc pr, (forall l off, pr l off = true -> deadb lc l off = true) ->
  forall f nd, cell_proc_p lc pr f nd = cell_proc lc f nd.
Proof. exact prune_cell. Qed.
Print Assumptions C19_v1_prune.

(* the filter of Populate (octree of size m over a volume of cc cells) only stops dead nodes when the
   field is outside beyond the volume *)
Theorem C19_v1_populate_filter_dead : forall s m cc,
  (let '(cx, cy, cz) := cc in 0 <= cx <= m /\ 0 <= cy <= m /\ 0 <= cz <= m) ->
  (forall x y z, (let '(cx, cy, cz) := cc in x > cx \/ y > cy \/ z > cz) -> s (x, y, z) = false) ->
  forall l off, populate_pruned m cc l off = true -> deadb (leaf_corners s) l off = true.
Proof. exact populate_pruned_dead. Qed.
Print Assumptions C19_v1_populate_filter_dead.

(* ---- the CODE of the V1 traversal: Generated/DCProc.v is produced from the Go AST of dc3v1.go on every
   run (harness/dctab/proc.go; meaning of its constructs: Algo/DCProcLib.v).  Instantiated with the
   model's octree (mops lc enc pr: node = Some (level, minOffset) | None, kind Internal/Leaf from the level
   and the corner mask, children by child offsets - none below a node selected by pr -, vertex index = enc
   of the leaf cell) the four generated functions equal the hand-written model; buf is the index buffer
   on entry, encl enc flattens triangles to vertex indices; the generated functions spend one unit of
   fuel per call. *)
Theorem C19_TRANSL_dcContourProcessEdge : forall lc enc pr n0 n1 n2 n3 dir buf, 0 <= dir < 3 ->
  gen_dcContourProcessEdge (mops lc enc pr) [n0; n1; n2; n3] dir buf = buf ++ encl enc (process_edge lc [n0; n1; n2; n3] dir).
Proof. exact gen_process_edge_eq. Qed.
Print Assumptions C19_TRANSL_dcContourProcessEdge.

Theorem C19_TRANSL_dcContourEdgeProc : forall lc enc pr f (n0 n1 n2 n3 : node) dir buf, 0 <= dir < 3 ->
  gen_dcContourEdgeProc (mops lc enc pr) (S f) [n0; n1; n2; n3] dir buf = buf ++ encl enc (edge_proc_p lc pr f [n0; n1; n2; n3] dir).
Proof. exact gen_edge_proc_pS. Qed.
Print Assumptions C19_TRANSL_dcContourEdgeProc.

Theorem C19_TRANSL_dcContourFaceProc : forall lc enc pr f (n0 n1 : node) dir buf, 0 <= dir < 3 ->
  gen_dcContourFaceProc (mops lc enc pr) (S f) [n0; n1] dir buf = buf ++ encl enc (face_proc_p lc pr f [n0; n1] dir).
Proof. exact gen_face_proc_pS. Qed.
Print Assumptions C19_TRANSL_dcContourFaceProc.

Theorem C19_TRANSL_contourCellProc : forall lc enc pr f (nd : node) buf,
  gen_contourCellProc (mops lc enc pr) (S f) nd buf = buf ++ encl enc (cell_proc_p lc pr f nd).
Proof. exact gen_cell_proc_pS. Qed.
Print Assumptions C19_TRANSL_contourCellProc.

(* nothing pruned (pr0): the model of Algo/DCModel.v the theorems above are about *)
Theorem C19_TRANSL_contourCellProc_full : forall lc enc f (nd : node) buf,
  gen_contourCellProc (mops lc enc pr0) (S f) nd buf = buf ++ encl enc (cell_proc lc f nd).
Proof. exact gen_cell_proc_S. Qed.
Print Assumptions C19_TRANSL_contourCellProc_full.

(* root.contourCellProc(indexBuffer) on the octree of depth d with dead pruned nodes, empty buffer, any fuel
   above the depth: the index triangles of the full-depth model *)
Theorem C19_TRANSL_v1_mesh : forall lc enc pr d fuel,
  (forall l off, pr l off = true -> deadb lc l off = true) -> (d <= fuel)%nat ->
  gen_contourCellProc (mops lc enc pr) (S fuel) (Some (d, (0, 0, 0))) [] = encl enc (v1_mesh_lc lc d).
Proof. exact gen_v1_mesh. Qed.
Print Assumptions C19_TRANSL_v1_mesh.

(* Render on a volume of cc cells inside the cubic octree of 2^d cells per axis, field outside beyond the
   volume: the translated traversal over the octree pruned by Populate's filter emits v1_mesh s d, which is
   the dual mesh (C19_v1_traversal) *)
Theorem C19_TRANSL_v1_mesh_noncubic : forall s enc d cc fuel,
  (let '(cx, cy, cz) := cc in 0 <= cx <= pow2 d /\ 0 <= cy <= pow2 d /\ 0 <= cz <= pow2 d) ->
  (forall x y z, (let '(cx, cy, cz) := cc in x > cx \/ y > cy \/ z > cz) -> s (x, y, z) = false) ->
  (d <= fuel)%nat ->
  gen_contourCellProc (mops (leaf_corners s) enc (populate_pruned (pow2 d) cc)) (S fuel) (Some (d, (0, 0, 0))) [] =
  encl enc (v1_mesh s d).
Proof. exact gen_v1_mesh_populate. Qed.
Print Assumptions C19_TRANSL_v1_mesh_noncubic.

(* ---- vertices (over the reals): in the cell, hence within one cell diagonal of a zero *)
Open Scope R_scope.
Theorem C19_v1_vertex_in_cell : forall (mn mx q : V3 ROps) (ps : list (V3 ROps)),
  ps <> [] -> Forall (in_box3 (cellbox mn mx)) ps ->
  in_box3 (cellbox mn mx) (bound_vertex mn mx q (mass_point ps)).
Proof. exact v1_vertex_in_cell. Qed.
Print Assumptions C19_v1_vertex_in_cell.

Theorem C19_v2_vertex_in_cell : forall (start size v : V3 ROps) (far : R),
  0 <= far <= 1 / 2 -> 0 <= wx size -> 0 <= wy size -> 0 <= wz size ->
  in_box3 (cellbox start (v3add start size)) (v2_final start size v far).
Proof. exact v2_vertex_in_cell. Qed.
Print Assumptions C19_v2_vertex_in_cell.

(* the V2 vertex solver (Cramer's rule behind the absolute guard |det| <= 1e-12): when the guard does not
   fire the returned point solves the 3x3 system; when it fires placeVertex uses the cell centre.  Either
   way C19_v2_vertex_in_cell holds for the final vertex.  (Floats: the model is compared bit for bit,
   NaN results included, in cases_ls_*.v.) *)
Theorem C19_v2_solver_guarded : forall (inf : R) (r0 r1 r2 : V3 ROps) (b0 b1 b2 : R),
  let det := @det3 ROps (wx r0) (wy r0) (wz r0) (wx r1) (wy r1) (wz r1) (wx r2) (wy r2) (wz r2) in
  1 / 1000000000000 < Rabs det ->
  let x := @solve3x3 ROps inf r0 r1 r2 b0 b1 b2 in
  wx r0 * wx x + wy r0 * wy x + wz r0 * wz x = b0 /\
  wx r1 * wx x + wy r1 * wy x + wz r1 * wz x = b1 /\
  wx r2 * wx x + wy r2 * wy x + wz r2 * wz x = b2.
Proof. exact solve3x3_solves. Qed.
Print Assumptions C19_v2_solver_guarded.

Theorem C19_vertex_near_zero : forall (f : V3 ROps -> R) (mn mx a b v : V3 ROps),
  in_box3 (cellbox mn mx) a -> in_box3 (cellbox mn mx) b -> in_box3 (cellbox mn mx) v ->
  continuity (fun t => f (lerp3 a b t)) -> f a < 0 -> 0 <= f b ->
  exists z, in_box3 (cellbox mn mx) z /\ f z = 0 /\ dist2_3 v z <= diag2 mn mx
            /\ sqrt (dist2_3 v z) <= sqrt (diag2 mn mx).
Proof. exact vertex_near_zero. Qed.
Print Assumptions C19_vertex_near_zero.

(* ---- identical on repeated runs: no goroutine, select, receive, map iteration, runtime call,
   random or clock import in the production files of render/dc at the current source *)
Theorem C19_dc_deterministic : dc_scan_clean = true.
Proof. exact dc_deterministic. Qed.
Print Assumptions C19_dc_deterministic.

(* ---- non-vacuity *)
Open Scope Z_scope.
Definition one_point (p : cell) : bool := ceqb p (1, 1, 1).

Example C19_hyp_satisfiable :
  boundary_outside (2, 2, 2) one_point /\ boundary_outside (cube 1) one_point /\
  length (dual_mesh (2, 2, 2) one_point) = 12%nat /\ length (v2_mesh (2, 2, 2) one_point) = 12%nat /\
  length (v1_mesh one_point 1) = 12%nat.
Proof.
  assert (B : boundary_outside (2, 2, 2) one_point).
  { intros [[x y] z] _ Hb. unfold one_point, ceqb. unfold onbdry in Hb.
    rewrite !Bool.orb_true_iff, !Z.eqb_eq in Hb.
    destruct (Z.eqb_spec x 1), (Z.eqb_spec y 1), (Z.eqb_spec z 1); try reflexivity. exfalso. Lia.lia. }
  repeat split; try exact B; vm_compute; reflexivity.
Qed.

Open Scope R_scope.
Example C19_near_zero_hyp_satisfiable :
  let f := fun p : V3 ROps => wx p - 1 / 2 in
  let o := mkV3 (0 : R) 0 0 : V3 ROps in let e := mkV3 (1 : R) 1 1 : V3 ROps in
  in_box3 (cellbox o e) o /\ in_box3 (cellbox o e) e /\ continuity (fun t => f (lerp3 o e t)) /\ f o < 0 /\ 0 <= f e.
Proof.
  cbv zeta. unfold in_box3, lerp3. cbn. repeat split; try Lra.lra. reg.
Qed.

(* ---- inventory of mutable state (DESIGN.md 2.3).  The models above are functions of their arguments; they are
   faithful only as long as the code keeps no state between calls beyond what they mention.  The package-level
   variables and struct fields in the scope of C19 (and which of them are written outside construction, from which
   entry points) are regenerated from the current source on every run (harness/stategen -> Generated/StateInv.v)
   and contain no state beyond the expected, reviewed inventory of Sys/StateInvSpec.v, where every piece of state
   that legitimately exists names the model component that accounts for it.  Breaks when a written package-level
   variable, a struct field, or a write of a field outside its constructor is added in scope (coqc then prints the
   differences); tolerates moved declarations, reordered fields, renamed locals, new helpers / constants / tables
   nothing writes. *)
From Sdfx Require Sys.StateInvSpec Sys.StateInvC19.
Theorem C19_state_inventory : Sdfx.Sys.StateInvSpec.state_ok_C19 = true.
Proof. exact Sdfx.Sys.StateInvC19.C19_state_inventory. Qed.
Print Assumptions C19_state_inventory.
