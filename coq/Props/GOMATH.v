(* GOMATH - sanity theorems for the Gallina port of Go's float64 math (Num/GoMath.v).
   This is not a property file: the port is tied to the compiled Go library by
   differential execution (harness/cmd/gomath, cases_<fn>_*.v, bit for bit).  What is
   proved here: the meaning of an empty mismatch list, the ulp distance being a
   pseudo-metric, and finite-domain facts by reflection.  Statements about all floats
   are out of reach without axioms (PrimFloat operations are opaque primitives). *)
From Coq Require Import List ZArith Floats.
From Sdfx Require Import Num.GoMath.
Import ListNotations.

(* What `M_<fn> = []` printed by a cases file means. *)
Theorem GOMATH_mismatches_sound_1 : forall f cs, mism1 f cs = [] ->
  Forall (fun c : case1 => let '(id, x, r) := c in bits (f x) = bits r) cs.
Proof. exact mism1_sound. Qed.
Print Assumptions GOMATH_mismatches_sound_1.

Theorem GOMATH_mismatches_sound_2 : forall f cs, mism2 f cs = [] ->
  Forall (fun c : case2 => let '(id, x, y, r) := c in bits (f x y) = bits r) cs.
Proof. exact mism2_sound. Qed.
Print Assumptions GOMATH_mismatches_sound_2.

Theorem GOMATH_mismatches_sound_ulp : forall tol f cs, mism1u tol f cs = [] ->
  Forall (fun c : case1u => let '(id, x, rp, rr) := c in
            bits (f x) = bits rp /\ (ulp_dist (bits (f x)) (bits rr) <= tol)%Z) cs.
Proof. exact mism1u_sound. Qed.
Print Assumptions GOMATH_mismatches_sound_ulp.

(* The distance used for exp/log/pow is a pseudo-metric on bit patterns. *)
Theorem GOMATH_ulp_dist_triangle : forall a b c, (ulp_dist a c <= ulp_dist a b + ulp_dist b c)%Z.
Proof. exact ulp_dist_triangle. Qed.
Print Assumptions GOMATH_ulp_dist_triangle.

Theorem GOMATH_ulp_dist_sym : forall a b, ulp_dist a b = ulp_dist b a.
Proof. exact ulp_dist_sym. Qed.
Print Assumptions GOMATH_ulp_dist_sym.

(* int64(float64(z)) = z on all 16-bit integers (reflection over 65536 values). *)
Theorem GOMATH_to_Z_of_Z_16bit : forall z, (- 2 ^ 15 <= z < 2 ^ 15)%Z -> to_Z (of_Z z) = z.
Proof. exact to_Z_of_Z_16. Qed.
Print Assumptions GOMATH_to_Z_of_Z_16bit.

(* floor / ceil / trunc / round on every multiple of 1/8 in [-1024, 1024) are the integer
   floor, ceiling, truncation and round-half-away-from-zero. *)
Theorem GOMATH_rounding_on_grid : forall k, (- 2 ^ 13 <= k < 2 ^ 13)%Z -> grid_ok k = true.
Proof. exact rounding_grid. Qed.
Print Assumptions GOMATH_rounding_on_grid.

(* Float64bits(float64(z)) for 12-bit z is sign | (bitlength-1+1023)<<52 | fraction. *)
Theorem GOMATH_bits_of_small_int : forall z, (- 2 ^ 11 <= z < 2 ^ 11)%Z -> bits_of_int_ok z = true.
Proof. exact bits_of_int_12. Qed.
Print Assumptions GOMATH_bits_of_small_int.

(* ---- closed examples (vm_compute on samples; the broad comparison is in the cases files) *)
Open Scope float_scope.

Example ex_sin0 : bits (GoMath.sin (-0)) = bits (-0). Proof. vm_compute. reflexivity. Qed.
Example ex_cos0 : bits (GoMath.cos 0) = bits 1. Proof. vm_compute. reflexivity. Qed.
Example ex_sin_inf : is_nan (GoMath.sin infinity) = true. Proof. vm_compute. reflexivity. Qed.
Example ex_sin_pi : bits (GoMath.sin c_pi) = bits 0x1.1a62633145cp-53. Proof. vm_compute. reflexivity. Qed.
(* Payne-Hanek reduction *)
Example ex_sin_huge : bits (GoMath.sin 0x1p+100) = bits (-0x1.be8ed97ac1f59p-1). Proof. vm_compute. reflexivity. Qed.
Example ex_atan2_axes :
  bits (atan2 0 (-1)) = bits c_pi /\ bits (atan2 (-0) (-1)) = bits (- c_pi) /\
  bits (atan2 1 0) = bits c_pi2 /\ bits (atan2 (-0) 1) = bits (-0) /\
  bits (atan2 infinity neg_infinity) = bits c_3pi4.
Proof. vm_compute. repeat split; reflexivity. Qed.
Example ex_floor : bits (floor (-0x1p-1)) = bits (-1) /\ bits (ceil (-0x1p-1)) = bits (-0) /\
  bits (trunc (-0x1.8p+0)) = bits (-1) /\ bits (round 0x1p-1) = bits 1 /\ bits (round (-0x1.4p+1)) = bits (-3) /\
  bits (round 0x1.fffffffffffffp-2) = bits 0.
Proof. vm_compute. repeat split; reflexivity. Qed.
Example ex_minmax : bits (fmax 0 (-0)) = bits 0 /\ bits (fmin 0 (-0)) = bits (-0) /\
  bits (fmax infinity nan) = bits infinity /\ is_nan (fmax 1 nan) = true /\ bits (fmin nan neg_infinity) = bits neg_infinity.
Proof. vm_compute. repeat split; reflexivity. Qed.
Example ex_fmod : bits (fmod 0x1.ep+2 (-2)) = bits 0x1.8p+0 /\ bits (fmod (-0x1.ep+2) 2) = bits (-0x1.8p+0) /\
  is_nan (fmod 1 0) = true /\ bits (fmod 5 infinity) = bits 5.
Proof. vm_compute. repeat split; reflexivity. Qed.
Example ex_of_Z_ties : bits (of_Z 9007199254740993) = bits 0x1p+53 /\ bits (of_Z 9007199254740995) = bits 0x1.0000000000002p+53 /\
  bits (of_Z (-9223372036854775808)) = bits (-0x1p+63) /\ bits (of_Z 9223372036854775807) = bits 0x1p+63.
Proof. vm_compute. repeat split; reflexivity. Qed.
Example ex_to_Z : to_Z (-0x1.d99999999999ap+1) = (-3)%Z /\ to_Z 0x1.fffffffffffffp+62 = 9223372036854774784%Z /\
  to_Z nan = (-9223372036854775808)%Z /\ to_Z 0x1p+63 = (-9223372036854775808)%Z.
Proof. vm_compute. repeat split; reflexivity. Qed.
Example ex_pow : bits (pow 2 10) = bits 1024 /\ bits (pow (-2) 3) = bits (-8) /\ is_nan (pow (-2) 0x1p-2) = true /\
  bits (pow (-0) (-3)) = bits neg_infinity /\ bits (pow neg_infinity 3) = bits neg_infinity /\ bits (pow 4 0x1p-1) = bits 2 /\
  bits (pow nan 0) = bits 1.
Proof. vm_compute. repeat split; reflexivity. Qed.
Example ex_exp_log : bits (exp 0) = bits 1 /\ bits (exp neg_infinity) = bits 0 /\ bits (log 1) = bits 0 /\
  bits (log 0) = bits neg_infinity /\ is_nan (log (-1)) = true /\ bits (log2 0x1p-1074) = bits (-1074) /\
  bits (hypot 3 4) = bits 5 /\ bits (hypot nan infinity) = bits infinity.
Proof. vm_compute. repeat split; reflexivity. Qed.
(* math.Log on amd64 does not normalise subnormals: Log(2^-1074) = -709.08..., not -744.44 *)
Example ex_log_amd64_subnormal :
  bits (log_amd64 0x1p-1074) = bits (-0x1.628b76e3a7b61p+9) /\ bits (log 0x1p-1074) = bits (-0x1.74385446d71c3p+9).
Proof. vm_compute. repeat split; reflexivity. Qed.
Example ex_bits_roundtrip : of_bits (bits 0x1.23456789abcdep-1030) = 0x1.23456789abcdep-1030 /\
  bits (of_bits 0x8000000000000001) = 0x8000000000000001%Z /\ bits nan = 0x7FF8000000000001%Z.
Proof. vm_compute. repeat split; reflexivity. Qed.
