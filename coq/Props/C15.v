(* C15 - theorems only.  See DESIGN.md section 6, C15; model in Io/Export.v. *)
From Coq Require Import String.
From Coq Require Import List ZArith QArith.
From Sdfx Require Import Io.Export Io.ExportOps.
Import ListNotations.

(* ------------------------------------------------------------------ 3MF *)
(* V: vertices, K: keys of the de-duplication map, key/keqb: the key function and its
   decidable equality.  All statements hold for every list of batches of triangles. *)

(* Indexing the vertex table by the emitted index triples gives back the supplied
   triangles - same number, same order, same corner order (winding) - whenever the
   key separates the supplied vertices. *)
Theorem C15_mf_reconstruct :
  forall (V K : Type) (key : V -> K) (keqb : K -> K -> bool),
  (forall a b, keqb a b = true <-> a = b) ->
  forall batches : list (list (V * V * V)),
  (forall u v, In u (flat V (concat batches)) -> In v (flat V (concat batches)) -> key u = key v -> u = v) ->
  map (lookup3 V (fst (mf_write V K key keqb batches))) (snd (mf_write V K key keqb batches))
    = map Some (concat batches).
Proof. exact mf_reconstruct. Qed.
Print Assumptions C15_mf_reconstruct.

(* Without any hypothesis on the key: every emitted index points at a table entry
   that has the key of the supplied corner (one triple per triangle, in order). *)
Theorem C15_mf_reconstruct_up_to_key :
  forall (V K : Type) (key : V -> K) (keqb : K -> K -> bool),
  (forall a b, keqb a b = true <-> a = b) ->
  forall batches : list (list (V * V * V)),
  Forall2 (fun it t => exists t', lookup3 V (fst (mf_write V K key keqb batches)) it = Some t' /\
                        let '(a', b', c') := t' in let '(a, b, c) := t in
                        key a' = key a /\ key b' = key b /\ key c' = key c)
          (snd (mf_write V K key keqb batches)) (concat batches).
Proof. exact mf_reconstruct_key. Qed.
Print Assumptions C15_mf_reconstruct_up_to_key.

(* The write3MF of the current tree keys the map by the float32 triple itself:
   reconstruction is unconditional. *)
Theorem C15_mf_reconstruct_now :
  forall batches : list (list (q3 * q3 * q3)),
  map (lookup3 q3 (fst (mf_write_now batches))) (snd (mf_write_now batches)) = map Some (concat batches).
Proof. exact (mf_reconstruct_exact q3 q3eqb q3eqb_eq). Qed.
Print Assumptions C15_mf_reconstruct_now.

(* No two entries of the vertex table share a key; in particular no vertex is stored twice. *)
Theorem C15_mf_no_duplicates :
  forall (V K : Type) (key : V -> K) (keqb : K -> K -> bool),
  (forall a b, keqb a b = true <-> a = b) ->
  forall batches : list (list (V * V * V)),
  NoDup (map key (fst (mf_write V K key keqb batches))) /\ NoDup (fst (mf_write V K key keqb batches)).
Proof. exact mf_no_duplicates_both. Qed.
Print Assumptions C15_mf_no_duplicates.

(* The table is exactly the list of first occurrences of the corner stream, in order
   (so indices are first-occurrence indices and nothing else is stored). *)
Theorem C15_mf_table_first_occurrences :
  forall (V K : Type) (key : V -> K) (keqb : K -> K -> bool),
  (forall a b, keqb a b = true <-> a = b) ->
  forall batches : list (list (V * V * V)),
  fst (mf_write V K key keqb batches) = first_occ V K key keqb (flat V (concat batches)).
Proof. exact mf_table. Qed.
Print Assumptions C15_mf_table_first_occurrences.

Theorem C15_mf_indices_in_range :
  forall (V K : Type) (key : V -> K) (keqb : K -> K -> bool),
  (forall a b, keqb a b = true <-> a = b) ->
  forall (batches : list (list (V * V * V))) i j k,
  In (i, j, k) (snd (mf_write V K key keqb batches)) ->
  let n := length (fst (mf_write V K key keqb batches)) in (i < n /\ j < n /\ k < n)%nat.
Proof. exact mf_indices_in_range. Qed.
Print Assumptions C15_mf_indices_in_range.

(* How the buffer cuts the triangle stream into channel batches is irrelevant. *)
Theorem C15_mf_batching_irrelevant :
  forall (V K : Type) (key : V -> K) (keqb : K -> K -> bool) (batches : list (list (V * V * V))),
  mf_write V K key keqb batches = mf_write V K key keqb [concat batches].
Proof. exact mf_batching_irrelevant. Qed.
Print Assumptions C15_mf_batching_irrelevant.

(* The pinned code de-duplicated through go3mf's MeshBuilder, whose key is
   int32(floor(float32(x)/float32(1e-6))) per axis: beyond +-2147.48 all coordinates
   share one bucket, so (3000,0,0), (4000,0,0) and (-3000,0,0) became one vertex and
   the first triangle was written as (0,0,1).  Repaired by a fix: commit in /repo. *)
Theorem C15_mf_reconstruct_pinned_refuted :
  snd (mf_write_pinned mf_witness) = [(0, 0, 1); (0, 1, 2)]%nat /\
  map (lookup3 q3 (fst (mf_write_pinned mf_witness))) (snd (mf_write_pinned mf_witness))
    <> map Some (concat mf_witness).
Proof. exact mf_pinned_refuted. Qed.
Print Assumptions C15_mf_reconstruct_pinned_refuted.

(* ... while below the bound the saturating conversion is injective. *)
Theorem C15_sat32_injective_in_range : forall a b : Z,
  (- 2 ^ 31 <= a < 2 ^ 31)%Z -> (- 2 ^ 31 <= b < 2 ^ 31)%Z -> sat32 a = sat32 b -> a = b.
Proof. exact sat32_injective. Qed.
Print Assumptions C15_sat32_injective_in_range.

(* non-vacuity of the hypothesis of C15_mf_reconstruct: the builder's bucket key
   separates the corners of this triangle pair (all within the bound) *)
Example C15_mf_hypothesis_satisfiable :
  let batches := [[((1, 0, 0), (2, 0, 0), (0, 1, 0))]; [((2, 0, 0), (1, 0, 0), (1 # 2, 0, 1))]] in
  (forall u v : q3, In u (flat q3 (concat batches)) -> In v (flat q3 (concat batches)) ->
     mf_bucket3 u = mf_bucket3 v -> u = v) /\
  snd (mf_write_pinned batches) = [(0, 1, 2); (1, 0, 3)]%nat.
Proof.
  split; [|vm_compute; reflexivity].
  intros u v Hu Hv. cbn in Hu, Hv.
  repeat (destruct Hu as [<-|Hu]; [repeat (destruct Hv as [<-|Hv]; [vm_compute; intros E; first [reflexivity | discriminate E]|]); destruct Hv|]).
  destruct Hu.
Qed.

(* ------------------------------------------------------------------ DXF *)
(* One LINE per segment, same order, same coordinates, z = 0, all on layer "Lines"
   (NewDXF leaves "Points" current; ChangeLayer("Lines") precedes the loop). *)
Theorem C15_dxf_order_preserved : forall batches : list (list seg),
  write_dxf batches = map dxf_spec (concat batches).
Proof. exact write_dxf_spec. Qed.
Print Assumptions C15_dxf_order_preserved.

Theorem C15_dxf_save_order_preserved : forall mesh : list seg, save_dxf mesh = map dxf_spec mesh.
Proof. exact save_dxf_spec. Qed.
Print Assumptions C15_dxf_save_order_preserved.

(* the object API (NewDXF, DXF.Lines, Save) writes the same entities *)
Theorem C15_dxf_object_order_preserved : forall batches : list (list seg),
  dxf_object_lines batches = map dxf_spec (concat batches).
Proof. exact dxf_object_lines_spec. Qed.
Print Assumptions C15_dxf_object_order_preserved.

(* The drawing object as a state machine: after NewDXF, ANY sequence of Line / Lines /
   Points / Triangle / Box calls leaves exactly the entities each call supplies, in
   order - every segment a LINE on layer "Lines", also after Points has made "Points"
   the current layer (each (DXF).Line selects "Lines" itself). *)
Theorem C15_dxf_ops_history_independent : forall ops : list dxf_op,
  dxf_run ops = flat_map op_spec ops.
Proof. exact dxf_run_spec. Qed.
Print Assumptions C15_dxf_ops_history_independent.

Theorem C15_dxf_ops_lines_on_Lines : forall ops : list dxf_op,
  filter is_line (dxf_run ops) = map line_spec (flat_map op_segs ops).
Proof. exact dxf_run_lines. Qed.
Print Assumptions C15_dxf_ops_lines_on_Lines.

Example C15_dxf_ops_example :
  dxf_run [OpPoints [(1, 2)] (1 # 2); OpLine ((0, 0), (1, 0)); OpPoints [] 1; OpTriangle (0, 0) (1, 0) (0, 1)]
  = [ECircle "Points" (1, 2, 0) (1 # 2); ELine "Lines" (0, 0, 0) (1, 0, 0);
     ELine "Lines" (0, 0, 0) (1, 0, 0); ELine "Lines" (1, 0, 0) (0, 1, 0); ELine "Lines" (0, 1, 0) (0, 0, 0)].
Proof. reflexivity. Qed.

(* ------------------------------------------------------------------ SVG *)
(* The bounds kept by SVG.Line are the extremes of all end points. *)
Theorem C15_svg_bounds_extremes : forall mesh : list seg, mesh <> [] ->
  let '(mn, mx) := svg_bounds mesh in
  is_min (fst mn) (xs mesh) /\ is_min (snd mn) (ys mesh) /\
  is_max (fst mx) (xs mesh) /\ is_max (snd mx) (ys mesh).
Proof. exact svg_bounds_extremes. Qed.
Print Assumptions C15_svg_bounds_extremes.

(* One line per segment in order: (x - minx, maxy - y) for both end points. *)
Theorem C15_svg_is_flip_translate : forall mesh : list seg,
  let '(mn, mx) := svg_bounds mesh in
  let '(w, h, lines) := save_svg mesh in
  lines = map (flip_translate (fst mn) (snd mx)) mesh.
Proof. exact svg_is_flip_translate. Qed.
Print Assumptions C15_svg_is_flip_translate.

(* Canvas = extent of the drawing ... *)
Theorem C15_svg_extent : forall mesh : list seg,
  let '(mn, mx) := svg_bounds mesh in
  let '(w, h, lines) := save_svg mesh in
  w = fst mx - fst mn /\ h = snd mx - snd mn.
Proof. exact svg_extent. Qed.
Print Assumptions C15_svg_extent.

(* ... every output coordinate lies on the canvas ... *)
Theorem C15_svg_in_canvas : forall mesh : list seg,
  let '(w, h, lines) := save_svg mesh in Forall (in_canvas w h) lines.
Proof. exact svg_in_canvas. Qed.
Print Assumptions C15_svg_in_canvas.

(* ... and the canvas is tight: the values 0 and w (0 and h) are attained. *)
Theorem C15_svg_canvas_tight : forall mesh : list seg, mesh <> [] ->
  let '(w, h, lines) := save_svg mesh in
  (exists l, In l lines /\ let '(x1, y1, x2, y2) := l in x1 == 0 \/ x2 == 0) /\
  (exists l, In l lines /\ let '(x1, y1, x2, y2) := l in x1 == w \/ x2 == w) /\
  (exists l, In l lines /\ let '(x1, y1, x2, y2) := l in y1 == 0 \/ y2 == 0) /\
  (exists l, In l lines /\ let '(x1, y1, x2, y2) := l in y1 == h \/ y2 == h).
Proof. exact svg_canvas_tight. Qed.
Print Assumptions C15_svg_canvas_tight.

(* the streaming writer equals SaveSVG on the concatenated batches *)
Theorem C15_svg_batching_irrelevant : forall batches : list (list seg),
  write_svg batches = save_svg (concat batches).
Proof. exact write_svg_batching. Qed.
Print Assumptions C15_svg_batching_irrelevant.

Example C15_svg_example :
  save_svg [((1, 2), (3, 4)); ((5, 6), (-7 # 1, 8))] = (5 - (-7 # 1), 8 - 2, [(1 - (-7 # 1), 8 - 2, 3 - (-7 # 1), 8 - 4); (5 - (-7 # 1), 8 - 6, (-7 # 1) - (-7 # 1), 8 - 8)]).
Proof. reflexivity. Qed.
