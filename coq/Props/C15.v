(* C15 - theorems only.  See DESIGN.md section 6, C15; model in Io/Export.v. *)
From Coq Require Import String.
From Coq Require Import List ZArith QArith.
From Sdfx Require Import Io.Export Io.ExportOps.
Import ListNotations.

(* ------------------------------------------------------------------ 3MF *)
(* V: vertices, K: keys of the de-duplication map, key/keqb: the key function and its
   decidable equality.  All statements hold for every list of batches of triangles. *)

(* Indexing the vertex table by the emitted index triples gives back the supplied
   triangles - same number, same order, same corner order (winding) - whenever the
   key separates the supplied vertices. *)
Theorem C15_mf_reconstruct :
  forall (V K : Type) (key : V -> K) (keqb : K -> K -> bool),
  (forall a b, keqb a b = true <-> a = b) ->
  forall batches : list (list (V * V * V)),
  (forall u v, In u (flat V (concat batches)) -> In v (flat V (concat batches)) -> key u = key v -> u = v) ->
  map (lookup3 V (fst (mf_write V K key keqb batches))) (snd (mf_write V K key keqb batches))
    = map Some (concat batches).
Proof. exact mf_reconstruct. Qed.
Print Assumptions C15_mf_reconstruct.

(* Without any hypothesis on the key: every emitted index points at a table entry
   that has the key of the supplied corner (one triple per triangle, in order). *)
Theorem C15_mf_reconstruct_up_to_key :
  forall (V K : Type) (key : V -> K) (keqb : K -> K -> bool),
  (forall a b, keqb a b = true <-> a = b) ->
  forall batches : list (list (V * V * V)),
  Forall2 (fun it t => exists t', lookup3 V (fst (mf_write V K key keqb batches)) it = Some t' /\
                        let '(a', b', c') := t' in let '(a, b, c) := t in
                        key a' = key a /\ key b' = key b /\ key c' = key c)
          (snd (mf_write V K key keqb batches)) (concat batches).
Proof. exact mf_reconstruct_key. Qed.
Print Assumptions C15_mf_reconstruct_up_to_key.

(* The write3MF of the current tree keys the map by the float32 triple itself:
   reconstruction is unconditional. *)
Theorem C15_mf_reconstruct_now :
  forall batches : list (list (q3 * q3 * q3)),
  map (lookup3 q3 (fst (mf_write_now batches))) (snd (mf_write_now batches)) = map Some (concat batches).
Proof. exact (mf_reconstruct_exact q3 q3eqb q3eqb_eq). Qed.
Print Assumptions C15_mf_reconstruct_now.

(* No two entries of the vertex table share a key; in particular no vertex is stored twice. *)
Theorem C15_mf_no_duplicates :
  forall (V K : Type) (key : V -> K) (keqb : K -> K -> bool),
  (forall a b, keqb a b = true <-> a = b) ->
  forall batches : list (list (V * V * V)),
  NoDup (map key (fst (mf_write V K key keqb batches))) /\ NoDup (fst (mf_write V K key keqb batches)).
Proof. exact mf_no_duplicates_both. Qed.
Print Assumptions C15_mf_no_duplicates.

(* The table is exactly the list of first occurrences of the corner stream, in order
   (so indices are first-occurrence indices and nothing else is stored). *)
Theorem C15_mf_table_first_occurrences :
  forall (V K : Type) (key : V -> K) (keqb : K -> K -> bool),
  (forall a b, keqb a b = true <-> a = b) ->
  forall batches : list (list (V * V * V)),
  fst (mf_write V K key keqb batches) = first_occ V K key keqb (flat V (concat batches)).
Proof. exact mf_table. Qed.
Print Assumptions C15_mf_table_first_occurrences.

Theorem C15_mf_indices_in_range :
  forall (V K : Type) (key : V -> K) (keqb : K -> K -> bool),
  (forall a b, keqb a b = true <-> a = b) ->
  forall (batches : list (list (V * V * V))) i j k,
  In (i, j, k) (snd (mf_write V K key keqb batches)) ->
  let n := length (fst (mf_write V K key keqb batches)) in (i < n /\ j < n /\ k < n)%nat.
Proof. exact mf_indices_in_range. Qed.
Print Assumptions C15_mf_indices_in_range.

(* How the buffer cuts the triangle stream into channel batches is irrelevant. *)
Theorem C15_mf_batching_irrelevant :
  forall (V K : Type) (key : V -> K) (keqb : K -> K -> bool) (batches : list (list (V * V * V))),
  mf_write V K key keqb batches = mf_write V K key keqb [concat batches].
Proof. exact mf_batching_irrelevant. Qed.
Print Assumptions C15_mf_batching_irrelevant.

(* The pinned code de-duplicated through go3mf's MeshBuilder, whose key is
   int32(floor(float32(x)/float32(1e-6))) per axis: beyond +-2147.48 all coordinates
   share one bucket, so (3000,0,0), (4000,0,0) and (-3000,0,0) became one vertex and
   the first triangle was written as (0,0,1).  Repaired by a fix: commit in /repo. *)
Theorem C15_mf_reconstruct_pinned_refuted :
  snd (mf_write_pinned mf_witness) = [(0, 0, 1); (0, 1, 2)]%nat /\
  map (lookup3 q3 (fst (mf_write_pinned mf_witness))) (snd (mf_write_pinned mf_witness))
    <> map Some (concat mf_witness).
Proof. exact mf_pinned_refuted. Qed.
Print Assumptions C15_mf_reconstruct_pinned_refuted.

(* ... while below the bound the saturating conversion is injective. *)
Theorem C15_sat32_injective_in_range : forall a b : Z,
  (- 2 ^ 31 <= a < 2 ^ 31)%Z -> (- 2 ^ 31 <= b < 2 ^ 31)%Z -> sat32 a = sat32 b -> a = b.
Proof. exact sat32_injective. Qed.
Print Assumptions C15_sat32_injective_in_range.

(* non-vacuity of the hypothesis of C15_mf_reconstruct: the builder's bucket key
   separates the corners of this triangle pair (all within the bound) *)
Example C15_mf_hypothesis_satisfiable :
  let batches := [[((1, 0, 0), (2, 0, 0), (0, 1, 0))]; [((2, 0, 0), (1, 0, 0), (1 # 2, 0, 1))]] in
  (forall u v : q3, In u (flat q3 (concat batches)) -> In v (flat q3 (concat batches)) ->
     mf_bucket3 u = mf_bucket3 v -> u = v) /\
  snd (mf_write_pinned batches) = [(0, 1, 2); (1, 0, 3)]%nat.
Proof.
  split; [|vm_compute; reflexivity].
  intros u v Hu Hv. cbn in Hu, Hv.
  repeat (destruct Hu as [<-|Hu]; [repeat (destruct Hv as [<-|Hv]; [vm_compute; intros E; first [reflexivity | discriminate E]|]); destruct Hv|]).
  destruct Hu.
Qed.

(* ------------------------------------------------------------------ DXF *)
(* One LINE per segment, same order, same coordinates, z = 0, all on layer "Lines"
   (NewDXF leaves "Points" current; ChangeLayer("Lines") precedes the loop). *)
Theorem C15_dxf_order_preserved : forall batches : list (list seg),
  write_dxf batches = map dxf_spec (concat batches).
Proof. exact write_dxf_spec. Qed.
Print Assumptions C15_dxf_order_preserved.

Theorem C15_dxf_save_order_preserved : forall mesh : list seg, save_dxf mesh = map dxf_spec mesh.
Proof. exact save_dxf_spec. Qed.
Print Assumptions C15_dxf_save_order_preserved.

(* the object API (NewDXF, DXF.Lines, Save) writes the same entities *)
Theorem C15_dxf_object_order_preserved : forall batches : list (list seg),
  dxf_object_lines batches = map dxf_spec (concat batches).
Proof. exact dxf_object_lines_spec. Qed.
Print Assumptions C15_dxf_object_order_preserved.

(* The drawing object as a state machine: after NewDXF, ANY sequence of Line / Lines /
   Points / Triangle / Box calls leaves exactly the entities each call supplies, in
   order - every segment a LINE on layer "Lines", also after Points has made "Points"
   the current layer (each (DXF).Line selects "Lines" itself). *)
Theorem C15_dxf_ops_history_independent : forall ops : list dxf_op,
  dxf_run ops = flat_map op_spec ops.
Proof. exact dxf_run_spec. Qed.
Print Assumptions C15_dxf_ops_history_independent.

Theorem C15_dxf_ops_lines_on_Lines : forall ops : list dxf_op,
  filter is_line (dxf_run ops) = map line_spec (flat_map op_segs ops).
Proof. exact dxf_run_lines. Qed.
Print Assumptions C15_dxf_ops_lines_on_Lines.

Example C15_dxf_ops_example :
  dxf_run [OpPoints [(1, 2)] (1 # 2); OpLine ((0, 0), (1, 0)); OpPoints [] 1; OpTriangle (0, 0) (1, 0) (0, 1)]
  = [ECircle "Points" (1, 2, 0) (1 # 2); ELine "Lines" (0, 0, 0) (1, 0, 0);
     ELine "Lines" (0, 0, 0) (1, 0, 0); ELine "Lines" (1, 0, 0) (0, 1, 0); ELine "Lines" (0, 1, 0) (0, 0, 0)].
Proof. reflexivity. Qed.

(* ------------------------------------------------------------------ SVG *)
(* The bounds kept by SVG.Line are the extremes of all end points. *)
Theorem C15_svg_bounds_extremes : forall mesh : list seg, mesh <> [] ->
  let '(mn, mx) := svg_bounds mesh in
  is_min (fst mn) (xs mesh) /\ is_min (snd mn) (ys mesh) /\
  is_max (fst mx) (xs mesh) /\ is_max (snd mx) (ys mesh).
Proof. exact svg_bounds_extremes. Qed.
Print Assumptions C15_svg_bounds_extremes.

(* One line per segment in order: (x - minx, maxy - y) for both end points. *)
Theorem C15_svg_is_flip_translate : forall mesh : list seg,
  let '(mn, mx) := svg_bounds mesh in
  let '(w, h, lines) := save_svg mesh in
  lines = map (flip_translate (fst mn) (snd mx)) mesh.
Proof. exact svg_is_flip_translate. Qed.
Print Assumptions C15_svg_is_flip_translate.

(* Canvas = extent of the drawing ... *)
Theorem C15_svg_extent : forall mesh : list seg,
  let '(mn, mx) := svg_bounds mesh in
  let '(w, h, lines) := save_svg mesh in
  w = fst mx - fst mn /\ h = snd mx - snd mn.
Proof. exact svg_extent. Qed.
Print Assumptions C15_svg_extent.

(* ... every output coordinate lies on the canvas ... *)
Theorem C15_svg_in_canvas : forall mesh : list seg,
  let '(w, h, lines) := save_svg mesh in Forall (in_canvas w h) lines.
Proof. exact svg_in_canvas. Qed.
Print Assumptions C15_svg_in_canvas.

(* ... and the canvas is tight: the values 0 and w (0 and h) are attained. *)
Theorem C15_svg_canvas_tight : forall mesh : list seg, mesh <> [] ->
  let '(w, h, lines) := save_svg mesh in
  (exists l, In l lines /\ let '(x1, y1, x2, y2) := l in x1 == 0 \/ x2 == 0) /\
  (exists l, In l lines /\ let '(x1, y1, x2, y2) := l in x1 == w \/ x2 == w) /\
  (exists l, In l lines /\ let '(x1, y1, x2, y2) := l in y1 == 0 \/ y2 == 0) /\
  (exists l, In l lines /\ let '(x1, y1, x2, y2) := l in y1 == h \/ y2 == h).
Proof. exact svg_canvas_tight. Qed.
Print Assumptions C15_svg_canvas_tight.

(* the streaming writer equals SaveSVG on the concatenated batches *)
Theorem C15_svg_batching_irrelevant : forall batches : list (list seg),
  write_svg batches = save_svg (concat batches).
Proof. exact write_svg_batching. Qed.
Print Assumptions C15_svg_batching_irrelevant.

Example C15_svg_example :
  save_svg [((1, 2), (3, 4)); ((5, 6), (-7 # 1, 8))] = (5 - (-7 # 1), 8 - 2, [(1 - (-7 # 1), 8 - 2, 3 - (-7 # 1), 8 - 4); (5 - (-7 # 1), 8 - 6, (-7 # 1) - (-7 # 1), 8 - 8)]).
Proof. reflexivity. Qed.

(* ------------------------------------------------------------------ tie to the source by translation
   Generated/IoExpr.v is re-translated from the Go AST of render/3mf.go, render/dxf.go and
   render/svg.go on every run (harness/iogen); Io/ExportEq.v instantiates the library calls
   (the yofu/dxf drawing = the layer/entity model above, the svgo canvas = the record of its
   Start/Line calls, go3mf's Encode = the record of the mesh it receives, float64 = Q,
   float32(x) = f32round x) and proves the generated functions equal to the model functions the
   theorems above are about, for all inputs.  Each theorem breaks when the Go function it is
   named after changes what it computes. *)
From Sdfx Require Io.GoSem Generated.IoExpr Io.ExportEq.

(* ---- DXF *)
Theorem C15_TRANSL_NewDXF : forall name, ExportEq.NewDXF_m name = (name, new_dxf).
Proof. exact ExportEq.NewDXF_eq. Qed.
Print Assumptions C15_TRANSL_NewDXF.

(* SaveDXF saves under its path exactly the entities of [save_dxf] *)
Theorem C15_TRANSL_SaveDXF : forall path mesh w,
  ExportEq.SaveDXF_m path mesh w = GoSem.Val (w ++ [(path, save_dxf mesh)]) None.
Proof. exact ExportEq.SaveDXF_eq. Qed.
Print Assumptions C15_TRANSL_SaveDXF.

(* writeDXF (the consumer behind ToDXF), for every list of batches received on its channel *)
Theorem C15_TRANSL_writeDXF : forall path batches w,
  ExportEq.writeDXF_m path batches w = GoSem.Val (w ++ [(path, write_dxf batches)]) None.
Proof. exact ExportEq.writeDXF_eq. Qed.
Print Assumptions C15_TRANSL_writeDXF.

(* the drawing-object API: NewDXF and the operations of the state machine of Io/ExportOps.v *)
Theorem C15_TRANSL_NewDXF_ops : forall name,
  IoExpr.gen_NewDXF drawing2 ExportEq.dxf_drawing02 ExportEq.AddLayer2 name = (name, new_dxf2).
Proof. exact ExportEq.NewDXF2_eq. Qed.
Print Assumptions C15_TRANSL_NewDXF_ops.

Theorem C15_TRANSL_DXF_Line : forall d l, ExportEq.DXF_Line_m d l = (fst d, op_line (snd d) l).
Proof. exact ExportEq.DXF_Line_eq. Qed.
Print Assumptions C15_TRANSL_DXF_Line.

Theorem C15_TRANSL_DXF_Lines : forall d ls, ExportEq.DXF_Lines_m d ls = GoSem.Val (fst d, op_lines (snd d) ls) None.
Proof. exact ExportEq.DXF_Lines_eq. Qed.
Print Assumptions C15_TRANSL_DXF_Lines.

Theorem C15_TRANSL_DXF_Points : forall d ps r, ExportEq.DXF_Points_m d ps r = GoSem.Val (fst d, op_points (snd d) ps r) None.
Proof. exact ExportEq.DXF_Points_eq. Qed.
Print Assumptions C15_TRANSL_DXF_Points.

Theorem C15_TRANSL_DXF_Triangle : forall d a b c,
  ExportEq.DXF_Triangle_m d (a, b, c) = GoSem.Val (fst d, op_lines (snd d) (tri_segs a b c)) None.
Proof. exact ExportEq.DXF_Triangle_eq. Qed.
Print Assumptions C15_TRANSL_DXF_Triangle.

Theorem C15_TRANSL_DXF_Box : forall d mn mx,
  ExportEq.DXF_Box_m d (mn, mx) = GoSem.Val (fst d, op_lines (snd d) (box_segs mn mx)) None.
Proof. exact ExportEq.DXF_Box_eq. Qed.
Print Assumptions C15_TRANSL_DXF_Box.

(* ---- SVG *)
Theorem C15_TRANSL_SVG_Line : forall s p0 p1,
  ExportEq.SVG_Line_m s p0 p1 = ExportEq.svg_with s (svg_line (ExportEq.svg_st s) (p0, p1)).
Proof. exact ExportEq.SVG_Line_eq. Qed.
Print Assumptions C15_TRANSL_SVG_Line.

(* SVG.Save on an object holding as many start as end points: Start(max-min), then per pair
   Line(p0.X-min.X, max.Y-p0.Y, p1.X-min.X, max.Y-p1.Y, style) *)
Theorem C15_TRANSL_SVG_Save : forall s w, ExportEq.st_ok (ExportEq.svg_st s) ->
  ExportEq.SVG_Save_m s w =
  GoSem.Val (ExportEq.sv_name s, svg_save (ExportEq.svg_st s),
             [] :: map (fun _ => [ExportEq.sv_style s]) (ExportEq.st_p0s (ExportEq.svg_st s))) None.
Proof. exact ExportEq.SVG_Save_eq'. Qed.
Print Assumptions C15_TRANSL_SVG_Save.

(* SaveSVG / writeSVG: the canvas written under the path is [save_svg] / [write_svg], no extra
   attributes on Start, every line with the caller's style *)
Theorem C15_TRANSL_SaveSVG : forall path style mesh w,
  ExportEq.SaveSVG_m path style mesh w = GoSem.Val (path, save_svg mesh, [] :: map (fun _ => [style]) mesh) None.
Proof. exact ExportEq.SaveSVG_eq. Qed.
Print Assumptions C15_TRANSL_SaveSVG.

Theorem C15_TRANSL_writeSVG : forall path style batches w,
  ExportEq.writeSVG_m path style batches w =
  GoSem.Val (path, write_svg batches, [] :: map (fun _ => [style]) (concat batches)) None.
Proof. exact ExportEq.writeSVG_eq. Qed.
Print Assumptions C15_TRANSL_writeSVG.

(* ---- 3MF *)
Theorem C15_TRANSL_toPoint3D : forall a, ExportEq.toPoint3D_m a = nq3 a.
Proof. exact ExportEq.toPoint3D_eq. Qed.
Print Assumptions C15_TRANSL_toPoint3D.

(* addVertex (map lookup, else append and record the new index as uint32) = add_vertex of the model
   with the float32 triple itself as key, while the map agrees with the table *)
Theorem C15_TRANSL_addVertex : forall index tbl p, ExportEq.Imap index tbl -> (GoSem.zlen tbl < 2 ^ 32)%Z ->
  exists index', ExportEq.addVertex_m index tbl p
                 = (Z.of_nat (snd (ExportEq.av_now tbl p)), fst (ExportEq.av_now tbl p), index') /\
                 ExportEq.Imap index' (fst (ExportEq.av_now tbl p)).
Proof. exact ExportEq.addVertex_eq. Qed.
Print Assumptions C15_TRANSL_addVertex.

(* write3MF for every list of batches with fewer than 2^32 corners in total: Encode receives the
   vertex table and index triples of [mf_write_now] on the float32 corners *)
Theorem C15_TRANSL_write3MF : forall path batches w, (3 * GoSem.zlen (concat batches) <= 2 ^ 32)%Z ->
  ExportEq.write3MF_m path batches w =
  GoSem.Val (w ++ [(fst (mf_write_now (map (map (map_tri nq3)) batches)),
                    map ExportEq.itZ (snd (mf_write_now (map (map (map_tri nq3)) batches))))]) None.
Proof. exact ExportEq.write3MF_eq. Qed.
Print Assumptions C15_TRANSL_write3MF.

(* the statements of write3MF that put the mesh into the model (one object holding &mesh, one build
   item, nothing else set - the unit stays go3mf's default, millimetre) are compared as text *)
Theorem C15_TRANSL_write3MF_setup : IoExpr.gen_write3MF_setup = ExportEq.mf_setup_expected.
Proof. exact ExportEq.mf_setup_eq. Qed.
Print Assumptions C15_TRANSL_write3MF_setup.

(* ---- inventory of mutable state (DESIGN.md 2.3).  The models above are functions of their arguments; they are
   faithful only as long as the code keeps no state between calls beyond what they mention.  The package-level
   variables and struct fields in the scope of C15 (and which of them are written outside construction, from which
   entry points) are regenerated from the current source on every run (harness/stategen -> Generated/StateInv.v)
   and contain no state beyond the expected, reviewed inventory of Sys/StateInvSpec.v, where every piece of state
   that legitimately exists names the model component that accounts for it.  Breaks when a written package-level
   variable, a struct field, or a write of a field outside its constructor is added in scope (coqc then prints the
   differences); tolerates moved declarations, reordered fields, renamed locals, new helpers / constants / tables
   nothing writes. *)
From Sdfx Require Sys.StateInvSpec Sys.StateInvC15.
Theorem C15_state_inventory : Sdfx.Sys.StateInvSpec.state_ok_C15 = true.
Proof. exact Sdfx.Sys.StateInvC15.C15_state_inventory. Qed.
Print Assumptions C15_state_inventory.
