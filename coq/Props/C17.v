(* C17 - theorems only.  See DESIGN.md section 6, C17.
   Models: Sdf/Build.v (sdf/poly.go), Sdf/Bezier.v (sdf/bezier.go); proofs: Sdf/BuildR.v,
   Sdf/BezierR.v.  All statements are about the real-number instance ROps of the model text
   that is replayed bit for bit against the Go code on every run (Sdf/C17Corr.v). *)
From Coq Require Import Reals List ZArith Lra Sorted.
From Sdfx Require Import Num.Ops.
From Sdfx Require Import Num.RInst.
From Sdfx Require Import Geo.Vec.
From Sdfx Require Import Sdf.Build.
From Sdfx Require Import Sdf.BuildR.
From Sdfx Require Import Sdf.Bezier.
From Sdfx Require Import Sdf.BezierR.
From Sdfx Require Sdf.C17Corr.   (* the correspondence evaluated by the cases files: built with the obligations *)
Import ListNotations.
Open Scope R_scope.

Notation V := (V2 ROps).

(* ---------------------------------------------------------------- fillets (Smooth) *)
(* corner_ok vp v vn: both neighbours differ from v and the three points are not collinear. *)

(* all facets+1 generated points lie on the circle of radius r about the computed centre *)
Theorem C17_smooth_points_on_circle : forall (vp v vn : V) (r : R) (n : Z) (p : V),
  corner_ok vp v vn -> 0 < r ->
  In p (smooth_points vp v vn r n) -> dist p (smooth_centre vp v vn r) = r.
Proof. exact smooth_points_on_circle. Qed.
Print Assumptions C17_smooth_points_on_circle.

Theorem C17_smooth_point_count : forall (vp v vn : V) (r : R) (n : Z),
  length (smooth_points vp v vn r n) = Z.to_nat (n + 1).
Proof. exact smooth_points_length. Qed.
Print Assumptions C17_smooth_point_count.

(* the centre is at distance r from both adjacent edge lines *)
Theorem C17_smooth_centre_tangent : forall (vp v vn : V) (r : R), corner_ok vp v vn -> 0 < r ->
  let c := smooth_centre vp v vn r in
  Rabs (v2cross (v2sub c v) (smooth_v0 vp v)) = r /\ Rabs (v2cross (v2sub c v) (smooth_v0 vn v)) = r.
Proof. exact smooth_centre_tangent. Qed.
Print Assumptions C17_smooth_centre_tangent.

(* the points v + d1 u (d1 = r / tan(theta/2), u the unit vector towards a neighbour) are the
   tangent points: on the edge line, radius perpendicular to the edge, at distance r from the centre *)
Theorem C17_smooth_tangent_points : forall (vp v vn : V) (r : R), corner_ok vp v vn -> 0 < r ->
  tangent_at (smooth_tangent vp vp v vn r) (smooth_centre vp v vn r) v (smooth_v0 vp v) r /\
  tangent_at (smooth_tangent vn vp v vn r) (smooth_centre vp v vn r) v (smooth_v0 vn v) r.
Proof. exact smooth_tangent_is_tangent. Qed.
Print Assumptions C17_smooth_tangent_points.

(* the first generated point is the tangent point on the previous edge ... *)
Theorem C17_smooth_starts_at_tangent : forall (vp v vn : V) (r : R) (n : Z) (d : V), (0 <= n)%Z ->
  List.nth 0 (smooth_points vp v vn r n) d = smooth_tangent vp vp v vn r.
Proof. exact smooth_starts_at_tangent. Qed.
Print Assumptions C17_smooth_starts_at_tangent.

(* ... and the last one (index facets) the tangent point on the next edge: (Rot d)^n = Rot (n d)
   and n * dtheta = sign * (PI - theta) *)
Theorem C17_smooth_ends_at_tangent : forall (vp v vn : V) (r : R) (n : Z) (d : V),
  corner_ok vp v vn -> (1 <= n)%Z ->
  List.nth (Z.to_nat n) (smooth_points vp v vn r n) d = smooth_tangent vn vp v vn r.
Proof. exact smooth_ends_at_tangent. Qed.
Print Assumptions C17_smooth_ends_at_tangent.

(* when the tangent distance exceeds either adjacent edge the vertex is left unchanged ... *)
Theorem C17_smooth_unchanged_when_too_large : forall closed (l : list (PV ROps)) i v vp vn,
  nth_error l i = Some v -> pv_type v = PvSmooth ->
  prev_vertex closed l i = Some vp -> next_vertex closed l i = Some vn ->
  (v2len (v2sub (pv_v vp) (pv_v v)) < smooth_d1 (pv_v vp) (pv_v v) (pv_v vn) (pv_radius v) \/
   v2len (v2sub (pv_v vn) (pv_v v)) < smooth_d1 (pv_v vp) (pv_v v) (pv_v vn) (pv_radius v)) ->
  smooth_vertex closed l i = (l, false).
Proof. exact smooth_unchanged_when_too_large. Qed.
Print Assumptions C17_smooth_unchanged_when_too_large.

(* ... and otherwise it is replaced, in place, by exactly the generated points *)
Theorem C17_smooth_vertex_replaced : forall closed (l : list (PV ROps)) i v vp vn,
  nth_error l i = Some v -> pv_type v = PvSmooth ->
  prev_vertex closed l i = Some vp -> next_vertex closed l i = Some vn ->
  smooth_d1 (pv_v vp) (pv_v v) (pv_v vn) (pv_radius v) <= v2len (v2sub (pv_v vp) (pv_v v)) ->
  smooth_d1 (pv_v vp) (pv_v v) (pv_v vn) (pv_radius v) <= v2len (v2sub (pv_v vn) (pv_v v)) ->
  smooth_vertex closed l i =
    (firstn i l ++ map plain (smooth_points (pv_v vp) (pv_v v) (pv_v vn) (pv_radius v) (pv_facets v)) ++ skipn (S i) l, true).
Proof. exact smooth_vertex_replaces. Qed.
Print Assumptions C17_smooth_vertex_replaced.

(* ---------------------------------------------------------------- chamfers *)
Theorem C17_chamfer_is_one_facet_fillet : forall (size : R) (v : PV ROps), size <> 0 ->
  pv_Chamfer size v = mkPV (pv_rel v) PvSmooth (pv_v v) 1%Z (size * sqrtHalf).
Proof. exact chamfer_marks. Qed.
Print Assumptions C17_chamfer_is_one_facet_fillet.

(* a chamfer is exactly the two cut (tangent) points *)
Theorem C17_chamfer_two_points : forall (vp v vn : V) (size : R), corner_ok vp v vn ->
  smooth_points vp v vn (size * sqrtHalf) 1 =
  [smooth_tangent vp vp v vn (size * sqrtHalf); smooth_tangent vn vp v vn (size * sqrtHalf)].
Proof. exact chamfer_two_points. Qed.
Print Assumptions C17_chamfer_two_points.

(* ---------------------------------------------------------------- arcs *)
(* arc_ok a b r: a <> b, r <> 0, chord <= 2|r| (the semicircle limit included) *)
Theorem C17_arc_points_on_circle : forall (a b : V) (r : R) (n : Z) (p : V), arc_ok a b r ->
  In p (arc_geom a b r n) -> dist p (arc_centre a b r) = Rabs r.
Proof. exact arc_points_on_circle. Qed.
Print Assumptions C17_arc_points_on_circle.

Theorem C17_arc_point_count : forall (a b : V) (r : R) (n : Z),
  length (arc_geom a b r n) = Z.to_nat (n - 1).
Proof. exact arc_points_length. Qed.
Print Assumptions C17_arc_point_count.

(* the i-th new point is the chord start turned about the centre by (i+1) steps; the circle
   passes through both chord ends and step number facets lands on the chord end *)
Theorem C17_arc_points_are_steps : forall (a b : V) (r : R) (n : Z) (i : nat) (d : V),
  (i < Z.to_nat (n - 1))%nat ->
  List.nth i (arc_geom a b r n) d =
  v2add (arc_centre a b r) (rotv (INR (S i) * arc_dtheta a b r n) (v2sub a (arc_centre a b r))).
Proof. exact arc_points_nth. Qed.
Print Assumptions C17_arc_points_are_steps.

Theorem C17_arc_through_endpoints : forall (a b : V) (r : R) (n : Z), arc_ok a b r -> (1 <= n)%Z ->
  dist a (arc_centre a b r) = Rabs r /\ dist b (arc_centre a b r) = Rabs r /\
  v2add (arc_centre a b r) (rotv (IZR n * arc_dtheta a b r n) (v2sub a (arc_centre a b r))) = b.
Proof. exact arc_through_endpoints. Qed.
Print Assumptions C17_arc_through_endpoints.

(* the sign of the radius selects the side of the chord *)
Theorem C17_arc_side : forall (a b : V) (r : R) (n : Z) (j : nat), arc_ok a b r -> (0 < j < Z.to_nat n)%nat ->
  let p := v2add (arc_centre a b r) (rotv (INR j * arc_dtheta a b r n) (v2sub a (arc_centre a b r))) in
  0 < @sign ROps r * v2cross (v2sub b a) (v2sub p a).
Proof. exact arc_side. Qed.
Print Assumptions C17_arc_side.

Theorem C17_arc_vertex_inserts : forall closed (l : list (PV ROps)) i v pv,
  nth_error l i = Some v -> pv_type v = PvArc ->
  let v' := mkPV (pv_rel v) PvNormal (pv_v v) (pv_facets v) (pv_radius v) in
  let l1 := set_nth l i v' in
  prev_vertex closed l1 i = Some pv ->
  arc_vertex closed l i =
    (firstn i l1 ++ map plain (arc_geom (pv_v pv) (pv_v v) (pv_radius v) (pv_facets v)) ++ skipn i l1, true).
Proof. exact arc_vertex_inserts. Qed.
Print Assumptions C17_arc_vertex_inserts.

(* ---------------------------------------------------------------- relative, polar, N-gon *)
(* relative vertices resolve to the running sum (abs_positions), all flags cleared *)
Theorem C17_rel_to_abs : forall closed (v0 : PV ROps) r, pv_rel v0 = false ->
  exists l', rel_to_abs closed (v0 :: r) = Some l' /\
    map pv_v l' = abs_positions (v0 :: r) /\ Forall (fun v => pv_rel v = false) l' /\
    map pv_type l' = map pv_type (v0 :: r) /\ map pv_facets l' = map pv_facets (v0 :: r) /\
    map pv_radius l' = map pv_radius (v0 :: r).
Proof. exact rel_to_abs_spec. Qed.
Print Assumptions C17_rel_to_abs.

Theorem C17_vertices_of_plain_polygon : forall closed reverse (v0 : PV ROps) r,
  pv_rel v0 = false -> Forall (fun v => pv_type v = PvNormal) (v0 :: r) ->
  vertices (mkPolygon closed reverse (v0 :: r)) =
  Some (if reverse then rev (abs_positions (v0 :: r)) else abs_positions (v0 :: r)).
Proof. exact vertices_plain. Qed.
Print Assumptions C17_vertices_of_plain_polygon.

Theorem C17_polar_vertex : forall (rr th : R) (ops : list (vop ROps)),
  pv_v (add_vertex rr th [OPolar]) = mkV2 (rr * cos th) (rr * sin th) /\
  dist (mkV2 (rr * cos th) (rr * sin th)) (mkV2 0 0) = Rabs rr.
Proof. exact polar_vertex. Qed.
Print Assumptions C17_polar_vertex.

(* vertex i of Nagon(n, radius) is radius (cos (2 pi i/n), sin (2 pi i/n)) *)
Theorem C17_nagon_regular : forall (n : Z) (radius : R), (3 <= n)%Z ->
  length (nagon n radius) = Z.to_nat n /\
  forall i dflt, (i < Z.to_nat n)%nat ->
    List.nth i (nagon n radius) dflt =
    mkV2 (radius * cos (INR i * (2 * PI / IZR n))) (radius * sin (INR i * (2 * PI / IZR n))).
Proof. exact nagon_regular. Qed.
Print Assumptions C17_nagon_regular.

(* ---------------------------------------------------------------- Bezier *)
(* degrees 1..4: the monomial coefficients are those of the Bernstein / de Casteljau form *)
Theorem C17_poly_coeffs_are_bernstein : forall (x : list R) (p : BPoly ROps), (2 <= length x <= 5)%nat ->
  bp_raw x = Some p ->
  bp_n p = (length x - 1)%nat /\
  forall t, bp_f0 p t = bernstein x t /\ bp_f0 p t = bezier_point x t.
Proof. exact poly_coeffs_are_bernstein. Qed.
Print Assumptions C17_poly_coeffs_are_bernstein.

Theorem C17_endpoints_exact : forall (x : list R) (p : BPoly ROps), (1 <= length x <= 5)%nat ->
  bp_raw x = Some p -> bp_f0 p 0 = List.hd 0 x /\ bp_f0 p 1 = List.last x 0.
Proof. exact raw_endpoints. Qed.
Print Assumptions C17_endpoints_exact.

(* Set() zeroes coefficients below 1e-12 of the coefficient sum and lowers the order: exact when
   nothing is zeroed, within 5e-12 * (sum of |coefficients|) on [0,1] in general *)
Theorem C17_set_exact_when_nothing_zeroed : forall (x : list R) (p q : BPoly ROps), (2 <= length x <= 5)%nat ->
  bp_raw x = Some p -> bp_zero p = p -> bp_set x = Some q ->
  (forall t, bp_f0 q t = bezier_point x t /\ bp_f0 q t = bernstein x t) /\
  bp_f0 q 0 = List.hd 0 x /\ bp_f0 q 1 = List.last x 0.
Proof. exact set_exact_when_nothing_zeroed. Qed.
Print Assumptions C17_set_exact_when_nothing_zeroed.

Theorem C17_set_close_to_bezier : forall (x : list R) (p q : BPoly ROps) t, (2 <= length x <= 5)%nat ->
  bp_raw x = Some p -> bp_set x = Some q -> 0 <= t <= 1 ->
  Rabs (bp_f0 q t - bezier_point x t) <= 5 * (@epsilon ROps * bp_sum p).
Proof. exact set_close_to_bezier. Qed.
Print Assumptions C17_set_close_to_bezier.

(* every emitted vertex is f0(t) for a strictly increasing sequence of t from 0 to 1, for ANY
   list rs of outcomes of the random perturbation and any recursion depth *)
Theorem C17_sample_on_curve_increasing : forall (d : nat) (s : Spline ROps) (rs : list R),
  exists ts : list R,
    fst (sample d s 0 1 (sp_f0 s 0) (sp_f0 s 1) rs) = map (sp_f0 s) ts /\
    StronglySorted Rlt ts /\ (forall t, In t ts -> 0 <= t <= 1) /\
    List.hd 1 ts = 0 /\ List.last ts 0 = 1 /\ (2 <= length ts)%nat.
Proof. exact sample_on_curve_increasing. Qed.
Print Assumptions C17_sample_on_curve_increasing.

(* a span of order <= 1 is reproduced by exactly its two end points *)
Theorem C17_degree1_exact : forall (d : nat) (s : Spline ROps) (rs : list R),
  (bp_n (sp_x s) <= 1)%nat -> (bp_n (sp_y s) <= 1)%nat -> 0 < sp_tol s ->
  fst (sample d s 0 1 (sp_f0 s 0) (sp_f0 s 1) rs) = [sp_f0 s 0; sp_f0 s 1].
Proof. exact degree1_exact. Qed.
Print Assumptions C17_degree1_exact.

(* the polyline of a curve: Polygon() appends render_pts of its (non-point) splines; it starts
   at f(0) of the first and ends at f(1) of the last *)
Theorem C17_polyline_is_render_pts : forall (ss : list (Spline ROps)) p rs,
  fst (render ss p rs) = p ++ render_pts ss rs.
Proof. exact render_eq. Qed.
Print Assumptions C17_polyline_is_render_pts.

Theorem C17_polyline_endpoints : forall (ss : list (Spline ROps)) rs s0, ss <> [] ->
  List.hd (sp_f0 s0 0) (render_pts ss rs) = sp_f0 (List.hd s0 ss) 0 /\
  List.last (render_pts ss rs) (sp_f0 s0 0) = sp_f0 (List.last ss s0) 1.
Proof. exact polyline_endpoints. Qed.
Print Assumptions C17_polyline_endpoints.

(* a closed curve: after closure() the control polygon ends with an end point at the position
   of the first (the first vertex itself when it was appended, else within 1e-9 of it), so by the
   two theorems above and C17_endpoints_exact the polyline returns to its start *)
Theorem C17_closed_curve_closes : forall (l l' : list (BV ROps)), closure true l = Some l' ->
  exists first, List.hd_error l' = Some first /\ bv_mid first = false /\
    bv_mid (List.last l' first) = false /\
    v2equals (bv_v (List.last l' first)) (bv_v first) tolerance = true.
Proof. exact closed_curve_closes. Qed.
Print Assumptions C17_closed_curve_closes.

(* ---------------------------------------------------------------- non-vacuity *)
Example C17_corner_hyp_satisfiable : corner_ok (mkV2 1 0) (mkV2 0 0) (mkV2 0 1).
Proof.
  unfold corner_ok, smooth_v0. cbn.
  replace (1 - 0) with 1 by lra. replace (0 - 0) with 0 by lra.
  replace (1 * 1 + 0 * 0) with 1 by lra. replace (0 * 0 + 1 * 1) with 1 by lra.
  rewrite sqrt_1. repeat split; lra.
Qed.
Example C17_arc_hyp_satisfiable : arc_ok (mkV2 (-1) 0) (mkV2 1 0) 1.   (* a semicircle *)
Proof. unfold arc_ok. cbn. repeat split; lra. Qed.
Example C17_bezier_hyp_satisfiable :          (* a straight span from 1 to 3: nothing is zeroed *)
  exists p, bp_raw [1; 3] = Some p /\ bp_zero p = p.
Proof.
  eexists. split; [reflexivity|]. unfold bp_zero, bp_sum, zero_small, epsilon, cst. cbn.
  unfold Rltb. repeat destruct (Rlt_dec _ _); try reflexivity; exfalso;
  repeat match goal with H : Rabs _ / _ < _ |- _ => revert H end;
  unfold Rabs; repeat destruct (Rcase_abs _); try lra; intros;
  repeat match goal with H : _ / ?y < _ |- _ =>
    apply (Rmult_lt_compat_r y) in H; [unfold Rdiv in H; rewrite Rmult_assoc, Rinv_l, Rmult_1_r in H by lra|lra] end; lra.
Qed.
