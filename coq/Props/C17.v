(* C17 - theorems only.  See DESIGN.md section 6, C17.
   Models: Sdf/Build.v (sdf/poly.go), Sdf/Bezier.v (sdf/bezier.go); proofs: Sdf/BuildR.v,
   Sdf/BezierR.v.  All statements are about the real-number instance ROps of the model text
   that is replayed bit for bit against the Go code on every run (Sdf/C17Corr.v). *)
From Coq Require Import Reals List ZArith Lra Sorted.
From Sdfx Require Import Num.Ops.
From Sdfx Require Import Num.RInst.
From Sdfx Require Import Geo.Vec.
From Sdfx Require Import Sdf.Build.
From Sdfx Require Import Sdf.BuildR.
From Sdfx Require Import Sdf.Bezier.
From Sdfx Require Import Sdf.BezierR.
From Sdfx Require Import Sdf.BuildWhole.
From Sdfx Require Import Sdf.BuildWholeR.
From Sdfx Require Import Sdf.BezierWhole.
From Sdfx Require Import Generated.ProfSkel.
From Sdfx Require Import Sdf.ProfEq.
From Sdfx Require Sdf.C17Corr.   (* the correspondence evaluated by the cases files: built with the obligations *)
From Sdfx Require Sdf.C17Hist.   (* the history correspondence (several renders of one builder value), same role *)
Import ListNotations.
Open Scope R_scope.

Notation V := (V2 ROps).

(* ---------------------------------------------------------------- fillets (Smooth) *)
(* corner_ok vp v vn: both neighbours differ from v and the three points are not collinear. *)

(* all facets+1 generated points lie on the circle of radius r about the computed centre *)
Theorem C17_smooth_points_on_circle : forall (vp v vn : V) (r : R) (n : Z) (p : V),
  corner_ok vp v vn -> 0 < r ->
  In p (smooth_points vp v vn r n) -> dist p (smooth_centre vp v vn r) = r.
Proof. exact smooth_points_on_circle. Qed.
Print Assumptions C17_smooth_points_on_circle.

Theorem C17_smooth_point_count : forall (vp v vn : V) (r : R) (n : Z),
  length (smooth_points vp v vn r n) = Z.to_nat (n + 1).
Proof. exact smooth_points_length. Qed.
Print Assumptions C17_smooth_point_count.

(* the centre is at distance r from both adjacent edge lines *)
Theorem C17_smooth_centre_tangent : forall (vp v vn : V) (r : R), corner_ok vp v vn -> 0 < r ->
  let c := smooth_centre vp v vn r in
  Rabs (v2cross (v2sub c v) (smooth_v0 vp v)) = r /\ Rabs (v2cross (v2sub c v) (smooth_v0 vn v)) = r.
Proof. exact smooth_centre_tangent. Qed.
Print Assumptions C17_smooth_centre_tangent.

(* the points v + d1 u (d1 = r / tan(theta/2), u the unit vector towards a neighbour) are the
   tangent points: on the edge line, radius perpendicular to the edge, at distance r from the centre *)
Theorem C17_smooth_tangent_points : forall (vp v vn : V) (r : R), corner_ok vp v vn -> 0 < r ->
  tangent_at (smooth_tangent vp vp v vn r) (smooth_centre vp v vn r) v (smooth_v0 vp v) r /\
  tangent_at (smooth_tangent vn vp v vn r) (smooth_centre vp v vn r) v (smooth_v0 vn v) r.
Proof. exact smooth_tangent_is_tangent. Qed.
Print Assumptions C17_smooth_tangent_points.

(* the first generated point is the tangent point on the previous edge ... *)
Theorem C17_smooth_starts_at_tangent : forall (vp v vn : V) (r : R) (n : Z) (d : V), (0 <= n)%Z ->
  List.nth 0 (smooth_points vp v vn r n) d = smooth_tangent vp vp v vn r.
Proof. exact smooth_starts_at_tangent. Qed.
Print Assumptions C17_smooth_starts_at_tangent.

(* ... and the last one (index facets) the tangent point on the next edge: (Rot d)^n = Rot (n d)
   and n * dtheta = sign * (PI - theta) *)
Theorem C17_smooth_ends_at_tangent : forall (vp v vn : V) (r : R) (n : Z) (d : V),
  corner_ok vp v vn -> (1 <= n)%Z ->
  List.nth (Z.to_nat n) (smooth_points vp v vn r n) d = smooth_tangent vn vp v vn r.
Proof. exact smooth_ends_at_tangent. Qed.
Print Assumptions C17_smooth_ends_at_tangent.

(* when the tangent distance exceeds either adjacent edge the vertex is left unchanged ... *)
Theorem C17_smooth_unchanged_when_too_large : forall closed (l : list (PV ROps)) i v vp vn,
  nth_error l i = Some v -> pv_type v = PvSmooth ->
  prev_vertex closed l i = Some vp -> next_vertex closed l i = Some vn ->
  (v2len (v2sub (pv_v vp) (pv_v v)) < smooth_d1 (pv_v vp) (pv_v v) (pv_v vn) (pv_radius v) \/
   v2len (v2sub (pv_v vn) (pv_v v)) < smooth_d1 (pv_v vp) (pv_v v) (pv_v vn) (pv_radius v)) ->
  smooth_vertex closed l i = (l, false).
Proof. exact smooth_unchanged_when_too_large. Qed.
Print Assumptions C17_smooth_unchanged_when_too_large.

(* ... and otherwise it is replaced, in place, by exactly the generated points *)
Theorem C17_smooth_vertex_replaced : forall closed (l : list (PV ROps)) i v vp vn,
  nth_error l i = Some v -> pv_type v = PvSmooth ->
  prev_vertex closed l i = Some vp -> next_vertex closed l i = Some vn ->
  smooth_d1 (pv_v vp) (pv_v v) (pv_v vn) (pv_radius v) <= v2len (v2sub (pv_v vp) (pv_v v)) ->
  smooth_d1 (pv_v vp) (pv_v v) (pv_v vn) (pv_radius v) <= v2len (v2sub (pv_v vn) (pv_v v)) ->
  smooth_vertex closed l i =
    (firstn i l ++ map plain (smooth_points (pv_v vp) (pv_v v) (pv_v vn) (pv_radius v) (pv_facets v)) ++ skipn (S i) l, true).
Proof. exact smooth_vertex_replaces. Qed.
Print Assumptions C17_smooth_vertex_replaced.

(* ---------------------------------------------------------------- chamfers *)
Theorem C17_chamfer_is_one_facet_fillet : forall (size : R) (v : PV ROps), size <> 0 ->
  pv_Chamfer size v = mkPV (pv_rel v) PvSmooth (pv_v v) 1%Z (size * sqrtHalf).
Proof. exact chamfer_marks. Qed.
Print Assumptions C17_chamfer_is_one_facet_fillet.

(* a chamfer is exactly the two cut (tangent) points *)
Theorem C17_chamfer_two_points : forall (vp v vn : V) (size : R), corner_ok vp v vn ->
  smooth_points vp v vn (size * sqrtHalf) 1 =
  [smooth_tangent vp vp v vn (size * sqrtHalf); smooth_tangent vn vp v vn (size * sqrtHalf)].
Proof. exact chamfer_two_points. Qed.
Print Assumptions C17_chamfer_two_points.

(* ---------------------------------------------------------------- arcs *)
(* arc_ok a b r: a <> b, r <> 0, chord <= 2|r| (the semicircle limit included) *)
Theorem C17_arc_points_on_circle : forall (a b : V) (r : R) (n : Z) (p : V), arc_ok a b r ->
  In p (arc_geom a b r n) -> dist p (arc_centre a b r) = Rabs r.
Proof. exact arc_points_on_circle. Qed.
Print Assumptions C17_arc_points_on_circle.

Theorem C17_arc_point_count : forall (a b : V) (r : R) (n : Z),
  length (arc_geom a b r n) = Z.to_nat (n - 1).
Proof. exact arc_points_length. Qed.
Print Assumptions C17_arc_point_count.

(* the i-th new point is the chord start turned about the centre by (i+1) steps; the circle
   passes through both chord ends and step number facets lands on the chord end *)
Theorem C17_arc_points_are_steps : forall (a b : V) (r : R) (n : Z) (i : nat) (d : V),
  (i < Z.to_nat (n - 1))%nat ->
  List.nth i (arc_geom a b r n) d =
  v2add (arc_centre a b r) (rotv (INR (S i) * arc_dtheta a b r n) (v2sub a (arc_centre a b r))).
Proof. exact arc_points_nth. Qed.
Print Assumptions C17_arc_points_are_steps.

Theorem C17_arc_through_endpoints : forall (a b : V) (r : R) (n : Z), arc_ok a b r -> (1 <= n)%Z ->
  dist a (arc_centre a b r) = Rabs r /\ dist b (arc_centre a b r) = Rabs r /\
  v2add (arc_centre a b r) (rotv (IZR n * arc_dtheta a b r n) (v2sub a (arc_centre a b r))) = b.
Proof. exact arc_through_endpoints. Qed.
Print Assumptions C17_arc_through_endpoints.

(* the sign of the radius selects the side of the chord *)
Theorem C17_arc_side : forall (a b : V) (r : R) (n : Z) (j : nat), arc_ok a b r -> (0 < j < Z.to_nat n)%nat ->
  let p := v2add (arc_centre a b r) (rotv (INR j * arc_dtheta a b r n) (v2sub a (arc_centre a b r))) in
  0 < @sign ROps r * v2cross (v2sub b a) (v2sub p a).
Proof. exact arc_side. Qed.
Print Assumptions C17_arc_side.

Theorem C17_arc_vertex_inserts : forall closed (l : list (PV ROps)) i v pv,
  nth_error l i = Some v -> pv_type v = PvArc ->
  let v' := mkPV (pv_rel v) PvNormal (pv_v v) (pv_facets v) (pv_radius v) in
  let l1 := set_nth l i v' in
  prev_vertex closed l1 i = Some pv ->
  arc_vertex closed l i =
    (firstn i l1 ++ map plain (arc_geom (pv_v pv) (pv_v v) (pv_radius v) (pv_facets v)) ++ skipn i l1, true).
Proof. exact arc_vertex_inserts. Qed.
Print Assumptions C17_arc_vertex_inserts.

(* ---------------------------------------------------------------- relative, polar, N-gon *)
(* relative vertices resolve to the running sum (abs_positions), all flags cleared *)
Theorem C17_rel_to_abs : forall closed (v0 : PV ROps) r, pv_rel v0 = false ->
  exists l', rel_to_abs closed (v0 :: r) = Some l' /\
    map pv_v l' = abs_positions (v0 :: r) /\ Forall (fun v => pv_rel v = false) l' /\
    map pv_type l' = map pv_type (v0 :: r) /\ map pv_facets l' = map pv_facets (v0 :: r) /\
    map pv_radius l' = map pv_radius (v0 :: r).
Proof. exact rel_to_abs_spec. Qed.
Print Assumptions C17_rel_to_abs.

Theorem C17_vertices_of_plain_polygon : forall closed reverse (v0 : PV ROps) r,
  pv_rel v0 = false -> Forall (fun v => pv_type v = PvNormal) (v0 :: r) ->
  vertices (mkPolygon closed reverse (v0 :: r)) =
  Some (if reverse then rev (abs_positions (v0 :: r)) else abs_positions (v0 :: r)).
Proof. exact vertices_plain. Qed.
Print Assumptions C17_vertices_of_plain_polygon.

Theorem C17_polar_vertex : forall (rr th : R) (ops : list (vop ROps)),
  pv_v (add_vertex rr th [OPolar]) = mkV2 (rr * cos th) (rr * sin th) /\
  dist (mkV2 (rr * cos th) (rr * sin th)) (mkV2 0 0) = Rabs rr.
Proof. exact polar_vertex. Qed.
Print Assumptions C17_polar_vertex.

(* vertex i of Nagon(n, radius) is radius (cos (2 pi i/n), sin (2 pi i/n)) *)
Theorem C17_nagon_regular : forall (n : Z) (radius : R), (3 <= n)%Z ->
  length (nagon n radius) = Z.to_nat n /\
  forall i dflt, (i < Z.to_nat n)%nat ->
    List.nth i (nagon n radius) dflt =
    mkV2 (radius * cos (INR i * (2 * PI / IZR n))) (radius * sin (INR i * (2 * PI / IZR n))).
Proof. exact nagon_regular. Qed.
Print Assumptions C17_nagon_regular.

(* ---------------------------------------------------------------- Bezier *)
(* degrees 1..4: the monomial coefficients are those of the Bernstein / de Casteljau form *)
Theorem C17_poly_coeffs_are_bernstein : forall (x : list R) (p : BPoly ROps), (2 <= length x <= 5)%nat ->
  bp_raw x = Some p ->
  bp_n p = (length x - 1)%nat /\
  forall t, bp_f0 p t = bernstein x t /\ bp_f0 p t = bezier_point x t.
Proof. exact poly_coeffs_are_bernstein. Qed.
Print Assumptions C17_poly_coeffs_are_bernstein.

Theorem C17_endpoints_exact : forall (x : list R) (p : BPoly ROps), (1 <= length x <= 5)%nat ->
  bp_raw x = Some p -> bp_f0 p 0 = List.hd 0 x /\ bp_f0 p 1 = List.last x 0.
Proof. exact raw_endpoints. Qed.
Print Assumptions C17_endpoints_exact.

(* Set() zeroes coefficients below 1e-12 of the coefficient sum and lowers the order: exact when
   nothing is zeroed, within 5e-12 * (sum of |coefficients|) on [0,1] in general *)
Theorem C17_set_exact_when_nothing_zeroed : forall (x : list R) (p q : BPoly ROps), (2 <= length x <= 5)%nat ->
  bp_raw x = Some p -> bp_zero p = p -> bp_set x = Some q ->
  (forall t, bp_f0 q t = bezier_point x t /\ bp_f0 q t = bernstein x t) /\
  bp_f0 q 0 = List.hd 0 x /\ bp_f0 q 1 = List.last x 0.
Proof. exact set_exact_when_nothing_zeroed. Qed.
Print Assumptions C17_set_exact_when_nothing_zeroed.

Theorem C17_set_close_to_bezier : forall (x : list R) (p q : BPoly ROps) t, (2 <= length x <= 5)%nat ->
  bp_raw x = Some p -> bp_set x = Some q -> 0 <= t <= 1 ->
  Rabs (bp_f0 q t - bezier_point x t) <= 5 * (@epsilon ROps * bp_sum p).
Proof. exact set_close_to_bezier. Qed.
Print Assumptions C17_set_close_to_bezier.

(* every emitted vertex is f0(t) for a strictly increasing sequence of t from 0 to 1, for ANY
   list rs of outcomes of the random perturbation and any recursion depth *)
Theorem C17_sample_on_curve_increasing : forall (d : nat) (s : Spline ROps) (rs : list R),
  exists ts : list R,
    fst (sample d s 0 1 (sp_f0 s 0) (sp_f0 s 1) rs) = map (sp_f0 s) ts /\
    StronglySorted Rlt ts /\ (forall t, In t ts -> 0 <= t <= 1) /\
    List.hd 1 ts = 0 /\ List.last ts 0 = 1 /\ (2 <= length ts)%nat.
Proof. exact sample_on_curve_increasing. Qed.
Print Assumptions C17_sample_on_curve_increasing.

(* a span of order <= 1 is reproduced by exactly its two end points *)
Theorem C17_degree1_exact : forall (d : nat) (s : Spline ROps) (rs : list R),
  (bp_n (sp_x s) <= 1)%nat -> (bp_n (sp_y s) <= 1)%nat -> 0 < sp_tol s ->
  fst (sample d s 0 1 (sp_f0 s 0) (sp_f0 s 1) rs) = [sp_f0 s 0; sp_f0 s 1].
Proof. exact degree1_exact. Qed.
Print Assumptions C17_degree1_exact.

(* the polyline of a curve: Polygon() appends render_pts of its (non-point) splines; it starts
   at f(0) of the first and ends at f(1) of the last *)
Theorem C17_polyline_is_render_pts : forall (ss : list (Spline ROps)) p rs,
  fst (render ss p rs) = p ++ render_pts ss rs.
Proof. exact render_eq. Qed.
Print Assumptions C17_polyline_is_render_pts.

Theorem C17_polyline_endpoints : forall (ss : list (Spline ROps)) rs s0, ss <> [] ->
  List.hd (sp_f0 s0 0) (render_pts ss rs) = sp_f0 (List.hd s0 ss) 0 /\
  List.last (render_pts ss rs) (sp_f0 s0 0) = sp_f0 (List.last ss s0) 1.
Proof. exact polyline_endpoints. Qed.
Print Assumptions C17_polyline_endpoints.

(* a closed curve: after closure() the control polygon ends with an end point at the position
   of the first (the first vertex itself when it was appended, else within 1e-9 of it), so by the
   two theorems above and C17_endpoints_exact the polyline returns to its start *)
Theorem C17_closed_curve_closes : forall (l l' : list (BV ROps)), closure true l = Some l' ->
  exists first, List.hd_error l' = Some first /\ bv_mid first = false /\
    bv_mid (List.last l' first) = false /\
    v2equals (bv_v (List.last l' first)) (bv_v first) tolerance = true.
Proof. exact closed_curve_closes. Qed.
Print Assumptions C17_closed_curve_closes.

(* ---------------------------------------------------------------- the WHOLE builders *)
(* The theorems above are per vertex / per span.  The ones below are about the complete
   functions, for every input list; they contain no loop, no fuel and no index into an
   intermediate list.  Those quantified over an arbitrary number system `O : Ops` hold for the
   float64 instance that is replayed against the Go code as well as for the reals. *)

(* createArcs = arcs_spec: every vertex once, in order; every arc vertex is preceded by its
   facets-1 arc points computed from the ORIGINAL previous vertex (the last vertex for vertex 0
   of a closed polygon; vertex 0 of an open polygon just loses its mark) and becomes normal *)
Theorem C17_create_arcs_is_arcs_spec : forall (O : Ops) closed (l : list (PV O)),
  create_arcs closed l = arcs_spec (wrap_prev closed l) l.
Proof. exact @create_arcs_spec. Qed.
Print Assumptions C17_create_arcs_is_arcs_spec.

(* the `for done == false` loop of createArcs exits through done == true: the result is the
   output of a pass that changed nothing, and more fuel gives the same list *)
Theorem C17_create_arcs_terminates : forall (O : Ops) closed (l : list (PV O)),
  (exists lk, snd (pass (arc_vertex closed) (length lk) 0 lk false) = false /\
              create_arcs closed l = fst (pass (arc_vertex closed) (length lk) 0 lk false)) /\
  forall k, until_done (S (length l) + k) (arc_vertex closed) l = create_arcs closed l.
Proof. exact @create_arcs_terminates. Qed.
Print Assumptions C17_create_arcs_terminates.

(* smoothVertices terminates (any number system) with a fixed point of smoothVertex *)
Theorem C17_smooth_vertices_fixed_point : forall (O : Ops) closed (l : list (PV O)),
  (forall i, smooth_vertex closed (smooth_vertices closed l) i = (smooth_vertices closed l, false)) /\
  forall k, until_done (S (length l) + k) (smooth_vertex closed) l = smooth_vertices closed l.
Proof. exact @smooth_vertices_fixed_point. Qed.
Print Assumptions C17_smooth_vertices_fixed_point.

(* ... and its output is the input with some Smooth vertices replaced, in place, by the fillet
   points of a pair of neighbour positions for which the fillet fits (smrel); nothing else moves *)
Theorem C17_smooth_vertices_structure : forall (O : Ops) closed (l : list (PV O)),
  smrel l (smooth_vertices closed l).
Proof. exact @smooth_vertices_structure. Qed.
Print Assumptions C17_smooth_vertices_structure.

(* over the reals, for every list of proper corners (smooth_input_ok): one block per input vertex,
   in order - the vertex, or the facets+1 fillet points of the per-vertex theorems for its
   ORIGINAL neighbours (although the code computes them from the already trimmed ones); a
   replaced vertex has both neighbours and its tangent distance is below both edge lengths;
   fillets sharing an edge do not overlap; a Smooth vertex that was kept does not fit into the
   room left; the result is a fixed point *)
Theorem C17_smooth_vertices_whole : forall closed (l0 : list (PV ROps)), smooth_input_ok closed l0 ->
  exists dn : nat -> bool,
    let tr := fun j => if dn j then cornerD l0 j else 0 in
    smooth_vertices closed l0 =
      flat_map (fun j => if dn j then map plain (fillet l0 j) else [vtx l0 j]) (seq 0 (length l0)) /\
    (forall j, (j < length l0)%nat -> dn j = true ->
       is_smooth (vtx l0 j) = true /\ has_prev closed j = true /\ has_next closed l0 j = true /\
       cornerD l0 j < Lp l0 j /\ cornerD l0 j < Ln l0 j) /\
    (forall j, (j < length l0)%nat -> has_next closed l0 j = true -> tr j + tr (nidx l0 j) <= Ln l0 j) /\
    (forall j, (j < length l0)%nat -> dn j = false -> is_smooth (vtx l0 j) = true ->
       has_prev closed j = true -> has_next closed l0 j = true ->
       Lp l0 j - tr (pidx l0 j) < cornerD l0 j \/ Ln l0 j - tr (nidx l0 j) < cornerD l0 j) /\
    (forall i, smooth_vertex closed (smooth_vertices closed l0) i = (smooth_vertices closed l0, false)).
Proof. exact smooth_vertices_whole. Qed.
Print Assumptions C17_smooth_vertices_whole.

(* the index maps of the statement are prevVertex / nextVertex of the model *)
Theorem C17_neighbours_by_index : forall closed (l0 : list (PV ROps)) j, (j < length l0)%nat ->
  prev_vertex closed l0 j = (if has_prev closed j then Some (vtx l0 (pidx l0 j)) else None) /\
  next_vertex closed l0 j = (if has_next closed l0 j then Some (vtx l0 (nidx l0 j)) else None).
Proof. exact (fun closed l0 j H => conj (prev_vertex_idx closed l0 j H) (next_vertex_idx closed l0 j H)). Qed.
Print Assumptions C17_neighbours_by_index.

(* Polygon.Vertices(): relToAbs, createArcs, smoothVertices, reversal - as one statement *)
Theorem C17_vertices_whole : forall closed reverse (l l1 : list (PV ROps)),
  rel_to_abs closed l = Some l1 ->
  let l2 := arcs_spec (wrap_prev closed l1) l1 in
  smooth_input_ok closed l2 ->
  exists dn : nat -> bool,
    vertices (mkPolygon closed reverse l) =
      Some (if reverse then rev (whole_blocks dn l2) else whole_blocks dn l2) /\
    fillets_ok closed l2 dn.
Proof. exact vertices_whole. Qed.
Print Assumptions C17_vertices_whole.

(* without Smooth marks: exactly the arc expansion *)
Theorem C17_vertices_arcs_only : forall closed reverse (l l1 : list (PV ROps)),
  rel_to_abs closed l = Some l1 -> nsmooth l1 = 0%nat ->
  vertices (mkPolygon closed reverse l) =
    Some (let vs := map (@pv_v ROps) (arcs_spec (wrap_prev closed l1) l1) in if reverse then rev vs else vs).
Proof. exact vertices_arcs_only. Qed.
Print Assumptions C17_vertices_arcs_only.

(* ---- Bezier.Polygon() *)
(* the endpoint/midpoint loop never runs out of fuel and equals the stateless function spans *)
Theorem C17_split_splines_is_spans : forall (O : Ops) (l : list (BV O)),
  split_splines l = spans l /\ forall k, split (2 * length l + 2 + k) l None [] = split_splines l.
Proof. exact (fun O l => conj (@split_splines_spec O l) (@split_more_fuel O l)). Qed.
Print Assumptions C17_split_splines_is_spans.

(* after fixups() the control list starts and ends with an end point and has >= 2 vertices *)
Theorem C17_bfixups_shape : forall (O : Ops) closed (l l' : list (BV O)), bfixups closed l = Some l' ->
  exists e r, l' = e :: r /\ r <> [] /\ bv_mid e = false /\ bv_mid (last l' e) = false.
Proof. exact @bfixups_shape. Qed.
Print Assumptions C17_bfixups_shape.

(* such a list is cut into spans of >= 2 control points that chain up (shared end points once)
   to the control polygon itself; the "bad vertex type" error of the loop is unreachable *)
Theorem C17_spans_cover : forall (O : Ops) (e : BV O) (r : list (BV O)) dv, r <> [] ->
  bv_mid e = false -> bv_mid (last (e :: r) e) = false ->
  exists ss, spans (e :: r) = Some ss /\ ss <> [] /\
    join ss = map (@bv_v O) (e :: r) /\ Forall (fun s => (2 <= length s)%nat) ss /\
    hd dv (hd [] ss) = bv_v e /\ last (last ss []) dv = bv_v (last (e :: r) e).
Proof. exact @spans_cover. Qed.
Print Assumptions C17_spans_cover.

(* the outcome of Polygon() for every control list and every sequence of random draws *)
Theorem C17_bezier_polygon_whole : forall closed (l : list (BV ROps)) rs,
  (bfixups closed l = None /\ bezier_polygon closed l rs = Error) \/
  (exists l' cps, bfixups closed l = Some l' /\ spans l' = Some cps /\ cps <> [] /\
     join cps = map (@bv_v ROps) l' /\ Forall (fun c => (2 <= length c)%nat) cps /\
     ((Exists (fun c => (5 < length c)%nat) cps /\ bezier_polygon closed l rs = Panic) \/
      (exists ss, Forall2 (fun c s => new_spline c = Some s) cps ss /\
                  bezier_polygon closed l rs = Verts (render_pts (curves ss) rs)))).
Proof. exact bezier_polygon_whole. Qed.
Print Assumptions C17_bezier_polygon_whole.

(* the adaptive subdivision is bounded by its depth counter (Go: n > 8): 2..513 vertices a span *)
Theorem C17_sample_bounded : forall (s : Spline ROps) rs, (2 <= length (fst (sample01 s rs)) <= 513)%nat.
Proof. exact sample01_length. Qed.
Print Assumptions C17_sample_bounded.

(* when Set() zeroes nothing and no span is a point the polyline runs from the first control
   point to the last control point of the fixed-up list (closed curve: the first vertex again) *)
Theorem C17_bezier_polygon_endpoints : forall closed (l l' : list (BV ROps)) rs cps ss e r,
  bfixups closed l = Some l' -> l' = e :: r -> spans l' = Some cps ->
  Forall2 (fun c s => new_spline c = Some s) cps ss ->
  Forall exact_span cps -> curves ss = ss ->
  exists mid, bezier_polygon closed l rs = Verts (bv_v e :: mid ++ [bv_v (last l' e)]) /\
              (length mid + 2 <= 512 * length cps + 1)%nat.
Proof. exact bezier_polygon_endpoints. Qed.
Print Assumptions C17_bezier_polygon_endpoints.

(* ---------------------------------------------------------------- tie by translation *)
(* Generated/ProfSkel.v is rewritten from the CURRENT sdf/poly.go and sdf/bezier.go on every run
   (harness/profgen); an edit of one of these control skeletons breaks the obligation below. *)
Theorem C17_SKEL_neighbours : forall (O : Ops) closed (l : list (PV O)) i,
  gen_nextVertex closed l i = next_vertex closed l i /\ gen_prevVertex closed l i = prev_vertex closed l i.
Proof. exact (fun O closed l i => conj (@SKEL_nextVertex O closed l i) (@SKEL_prevVertex O closed l i)). Qed.
Print Assumptions C17_SKEL_neighbours.

Theorem C17_SKEL_createArcs : forall (O : Ops) closed (l : list (PV O)),
  gen_createArcs (arc_vertex closed) l = create_arcs closed l /\
  @gen_createArcs_calls = want_createArcs_calls (* ["arcVertex"] *).
Proof. exact @SKEL_createArcs. Qed.
Print Assumptions C17_SKEL_createArcs.

Theorem C17_SKEL_smoothVertices : forall (O : Ops) closed (l : list (PV O)),
  gen_smoothVertices (smooth_vertex closed) l = smooth_vertices closed l /\
  @gen_smoothVertices_calls = want_smoothVertices_calls (* ["smoothVertex"] *).
Proof. exact @SKEL_smoothVertices. Qed.
Print Assumptions C17_SKEL_smoothVertices.

Theorem C17_SKEL_fixups : forall (O : Ops) (p : Polygon O),
  gen_fixups (rel_to_abs (pg_closed p)) (create_arcs (pg_closed p)) (smooth_vertices (pg_closed p)) (pg_vlist p)
    = fixups p /\
  @gen_fixups_calls = want_fixups_calls (* ["relToAbs"; "createArcs"; "smoothVertices"] *).
Proof. exact @SKEL_fixups. Qed.
Print Assumptions C17_SKEL_fixups.

(* the endpoint/midpoint loop of Bezier.Polygon, translated statement by statement into a step
   function and iterated: never out of fuel, error exactly when the model reports one, and the
   `splines` it leaves are the model's control-point lists *)
Theorem C17_SKEL_polygon_loop : forall (O : Ops) (l : list (BV O)),
  gen_polygon_n l = length l /\
  run_splines l (2 * length l + 3) gen_polygon_init = Some (split_splines l).
Proof. exact @SKEL_polygon_loop. Qed.
Print Assumptions C17_SKEL_polygon_loop.

(* ---------------------------------------------------------------- non-vacuity *)
Example C17_corner_hyp_satisfiable : corner_ok (mkV2 1 0) (mkV2 0 0) (mkV2 0 1).
Proof.
  unfold corner_ok, smooth_v0. cbn.
  replace (1 - 0) with 1 by lra. replace (0 - 0) with 0 by lra.
  replace (1 * 1 + 0 * 0) with 1 by lra. replace (0 * 0 + 1 * 1) with 1 by lra.
  rewrite sqrt_1. repeat split; lra.
Qed.
Example C17_arc_hyp_satisfiable : arc_ok (mkV2 (-1) 0) (mkV2 1 0) 1.   (* a semicircle *)
Proof. unfold arc_ok. cbn. repeat split; lra. Qed.
Example C17_bezier_hyp_satisfiable :          (* a straight span from 1 to 3: nothing is zeroed *)
  exists p, bp_raw [1; 3] = Some p /\ bp_zero p = p.
Proof.
  eexists. split; [reflexivity|]. unfold bp_zero, bp_sum, zero_small, epsilon, cst. cbn.
  unfold Rltb. repeat destruct (Rlt_dec _ _); try reflexivity; exfalso;
  repeat match goal with H : Rabs _ / _ < _ |- _ => revert H end;
  unfold Rabs; repeat destruct (Rcase_abs _); try lra; intros;
  repeat match goal with H : _ / ?y < _ |- _ =>
    apply (Rmult_lt_compat_r y) in H; [unfold Rdiv in H; rewrite Rmult_assoc, Rinv_l, Rmult_1_r in H by lra|lra] end; lra.
Qed.
(* the class of the whole-polygon theorem is inhabited by a polygon with adjacent fillets on
   every edge, and the theorem decides it completely: all four corners are replaced *)
Example C17_whole_hyp_satisfiable : smooth_input_ok true square.
Proof. exact square_input_ok. Qed.
Example C17_whole_square_result :
  smooth_vertices true square = flat_map (fun j => map plain (fillet square j)) (seq 0 4).
Proof. exact square_all_filleted. Qed.
(* the hypotheses of C17_bezier_polygon_endpoints hold for an open straight span (1,1) -> (3,3) *)
Example C17_bezier_whole_hyp_satisfiable :
  exists cps ss e r,
    bfixups false ex_curve = Some (e :: r) /\ spans (e :: r) = Some cps /\
    Forall2 (fun c s => new_spline c = Some s) cps ss /\ Forall exact_span cps /\ curves ss = ss.
Proof. exact endpoints_hyp_satisfiable. Qed.

(* ---- inventory of mutable state (DESIGN.md 2.3).  The models above are functions of their arguments; they are
   faithful only as long as the code keeps no state between calls beyond what they mention.  The package-level
   variables and struct fields in the scope of C17 (and which of them are written outside construction, from which
   entry points) are regenerated from the current source on every run (harness/stategen -> Generated/StateInv.v)
   and contain no state beyond the expected, reviewed inventory of Sys/StateInvSpec.v, where every piece of state
   that legitimately exists names the model component that accounts for it.  Breaks when a written package-level
   variable, a struct field, or a write of a field outside its constructor is added in scope (coqc then prints the
   differences); tolerates moved declarations, reordered fields, renamed locals, new helpers / constants / tables
   nothing writes. *)
From Sdfx Require Sys.StateInvSpec Sys.StateInvC17.
Theorem C17_state_inventory : Sdfx.Sys.StateInvSpec.state_ok_C17 = true.
Proof. exact Sdfx.Sys.StateInvC17.C17_state_inventory. Qed.
Print Assumptions C17_state_inventory.
