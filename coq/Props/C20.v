(* C20 - theorems only.  See DESIGN.md section 6, C20. *)
From Coq Require Import List ZArith Permutation Sorted.
From Sdfx Require Import Algo.Canon.
Import ListNotations.
Open Scope Z_scope.

(* Canonical() rotates the triple so that its least index comes first. *)
Theorem C20_canonical_is_rotation : forall t, is_rotation (canon t) t.
Proof. exact canon_is_rotation. Qed.
Print Assumptions C20_canonical_is_rotation.

Theorem C20_canonical_least_first : forall t, distinct3 t ->
  let '(a, b, c) := canon t in a < b /\ a < c.
Proof. exact canon_least_first. Qed.
Print Assumptions C20_canonical_least_first.

(* Less is the strict lexicographic order on index triples. *)
Theorem C20_less_is_lexicographic : forall s t, less s t = true <-> lex s t.
Proof. exact less_lex. Qed.
Print Assumptions C20_less_is_lexicographic.

(* The canonical form of a set depends only on the multiset of canonical triples
   (for ANY sorting routine that returns a sorted permutation). *)
Theorem C20_sorted_perm_unique : forall l m,
  Sorted le_tri l -> Sorted le_tri m -> Permutation l m -> l = m.
Proof. exact sorted_perm_unique. Qed.
Print Assumptions C20_sorted_perm_unique.

(* Equality test invariant under reordering the triangles and rotating each triple. *)
Theorem C20_equals_invariant : forall ts ts' s,
  Forall distinct3 ts -> reorder_rotate ts ts' -> equals ts' s = equals ts s.
Proof. exact equals_invariant. Qed.
Print Assumptions C20_equals_invariant.

Theorem C20_equals_reordered_copy : forall ts ts',
  Forall distinct3 ts -> reorder_rotate ts ts' -> equals ts' ts = true.
Proof. exact equals_refl_reordered. Qed.
Print Assumptions C20_equals_reordered_copy.

Theorem C20_equals_sound : forall ts s, equals ts s = true -> Permutation (map canon ts) (map canon s).
Proof. exact equals_sound. Qed.
Print Assumptions C20_equals_sound.

(* non-vacuity: a concrete reordered+rotated copy satisfies the hypotheses *)
Example C20_hyp_satisfiable :
  Forall distinct3 witness_a /\ reorder_rotate witness_a [(5,3,1); (2,0,6); (9,0,5)].
Proof.
  split.
  - repeat constructor; unfold distinct3; cbn; repeat split; discriminate.
  - exists [(9,0,5); (5,3,1); (2,0,6)]. split.
    + unfold witness_a. constructor; [right; right; reflexivity|]. constructor; [right; left; reflexivity|].
      constructor; [right; right; reflexivity|]. constructor.
    + apply Permutation_cons_app with (l1 := [(5,3,1); (2,0,6)]) (l2 := []). reflexivity.
Qed.

(* The Less of the pinned commit made Equals order-dependent (defect repaired by a fix: commit). *)
Theorem C20_pinned_less_refuted : equals_with less_pinned witness_a witness_b = false.
Proof. exact pinned_less_refuted. Qed.
Print Assumptions C20_pinned_less_refuted.

(* ---- the circumcircle predicate of the triangulation (sdf/triangle2.go), over the reals *)
From Coq Require Import Reals.
From Sdfx Require Import Num.Ops Num.RInst Geo.Vec Geo.NormR Algo.Delaunay Algo.DelaunayR.

(* Circumcenter returns the point equidistant from the three vertices, in all three code
   branches, for every non-collinear triangle whose y-differences are zero or outside the
   1e-12 band in which the code switches formulas. *)
Theorem C20_circumcenter_equidistant : forall p1 p2 p3 c,
  well_conditioned p1 p2 p3 -> @circumcenter ROps p1 p2 p3 = Some c ->
  d2 c p1 = d2 c p2 /\ d2 c p2 = d2 c p3.
Proof. exact circumcenter_equidistant. Qed.
Print Assumptions C20_circumcenter_equidistant.

(* InCircumcircle: inside <-> |p-c|^2 - R^2 <= 1e-12 *)
Theorem C20_inside_iff : forall p1 p2 p3 p c, @circumcenter ROps p1 p2 p3 = Some c ->
  (fst (@in_circumcircle ROps p1 p2 p3 p) = true <-> (d2 p c - d2 p1 c <= reps)%R).
Proof. exact inside_iff. Qed.
Print Assumptions C20_inside_iff.

(* the `done` shortcut is sound: once set for p, every point at or right of p is outside the circle *)
Theorem C20_done_flag_sound : forall p1 p2 p3 p c, @circumcenter ROps p1 p2 p3 = Some c ->
  snd (@in_circumcircle ROps p1 p2 p3 p) = true -> forall q, (vx p <= vx q)%R -> (d2 p1 c < d2 q c)%R.
Proof. exact done_flag_sound. Qed.
Print Assumptions C20_done_flag_sound.

(* Hull coverage, the count 2n-2-h and fast = slow as sets are NOT proved (C20 partial): they are
   decided on generated point sets by exact rational oracles, and the whole Bowyer-Watson run of
   the Go code is reproduced triangle for triangle by the Gallina model Algo/Delaunay.v. *)

(* the super triangle strictly contains every vertex of a point set with positive extent *)
Theorem C20_supertriangle_contains : forall vs : list (V2 ROps),
  (exists u w, In u vs /\ In w vs /\ (vx u <> vx w \/ vy u <> vy w)) ->
  let '(p0, p1, p2) := @super_triangle ROps vs in
  forall v, In v vs -> left_of p0 p2 v /\ left_of p2 p1 v /\ left_of p1 p0 v.
Proof. exact supertriangle_contains. Qed.
Print Assumptions C20_supertriangle_contains.
