(* C20 - theorems only.  See DESIGN.md section 6, C20. *)
From Coq Require Import List ZArith Permutation Sorted.
From Sdfx Require Import Algo.Canon.
Import ListNotations.
Open Scope Z_scope.

(* Canonical() rotates the triple so that its least index comes first. *)
Theorem C20_canonical_is_rotation : forall t, is_rotation (canon t) t.
Proof. exact canon_is_rotation. Qed.
Print Assumptions C20_canonical_is_rotation.

Theorem C20_canonical_least_first : forall t, distinct3 t ->
  let '(a, b, c) := canon t in a < b /\ a < c.
Proof. exact canon_least_first. Qed.
Print Assumptions C20_canonical_least_first.

(* Less is the strict lexicographic order on index triples. *)
Theorem C20_less_is_lexicographic : forall s t, less s t = true <-> lex s t.
Proof. exact less_lex. Qed.
Print Assumptions C20_less_is_lexicographic.

(* The canonical form of a set depends only on the multiset of canonical triples
   (for ANY sorting routine that returns a sorted permutation). *)
Theorem C20_sorted_perm_unique : forall l m,
  Sorted le_tri l -> Sorted le_tri m -> Permutation l m -> l = m.
Proof. exact sorted_perm_unique. Qed.
Print Assumptions C20_sorted_perm_unique.

(* Equality test invariant under reordering the triangles and rotating each triple. *)
Theorem C20_equals_invariant : forall ts ts' s,
  Forall distinct3 ts -> reorder_rotate ts ts' -> equals ts' s = equals ts s.
Proof. exact equals_invariant. Qed.
Print Assumptions C20_equals_invariant.

Theorem C20_equals_reordered_copy : forall ts ts',
  Forall distinct3 ts -> reorder_rotate ts ts' -> equals ts' ts = true.
Proof. exact equals_refl_reordered. Qed.
Print Assumptions C20_equals_reordered_copy.

Theorem C20_equals_sound : forall ts s, equals ts s = true -> Permutation (map canon ts) (map canon s).
Proof. exact equals_sound. Qed.
Print Assumptions C20_equals_sound.

(* non-vacuity: a concrete reordered+rotated copy satisfies the hypotheses *)
Example C20_hyp_satisfiable :
  Forall distinct3 witness_a /\ reorder_rotate witness_a [(5,3,1); (2,0,6); (9,0,5)].
Proof.
  split.
  - repeat constructor; unfold distinct3; cbn; repeat split; discriminate.
  - exists [(9,0,5); (5,3,1); (2,0,6)]. split.
    + unfold witness_a. constructor; [right; right; reflexivity|]. constructor; [right; left; reflexivity|].
      constructor; [right; right; reflexivity|]. constructor.
    + apply Permutation_cons_app with (l1 := [(5,3,1); (2,0,6)]) (l2 := []). reflexivity.
Qed.

(* The Less of the pinned commit made Equals order-dependent (defect repaired by a fix: commit). *)
Theorem C20_pinned_less_refuted : equals_with less_pinned witness_a witness_b = false.
Proof. exact pinned_less_refuted. Qed.
Print Assumptions C20_pinned_less_refuted.

(* ---- the circumcircle predicate of the triangulation (sdf/triangle2.go), over the reals *)
From Coq Require Import Reals.
From Sdfx Require Import Num.Ops Num.RInst Geo.Vec Geo.NormR Algo.Delaunay Algo.DelaunayR.

(* Circumcenter returns the point equidistant from the three vertices, in all three code
   branches, for every non-collinear triangle whose y-differences are zero or outside the
   1e-12 band in which the code switches formulas. *)
Theorem C20_circumcenter_equidistant : forall p1 p2 p3 c,
  well_conditioned p1 p2 p3 -> @circumcenter ROps p1 p2 p3 = Some c ->
  d2 c p1 = d2 c p2 /\ d2 c p2 = d2 c p3.
Proof. exact circumcenter_equidistant. Qed.
Print Assumptions C20_circumcenter_equidistant.

(* InCircumcircle: inside <-> |p-c|^2 - R^2 <= 1e-12 *)
Theorem C20_inside_iff : forall p1 p2 p3 p c, @circumcenter ROps p1 p2 p3 = Some c ->
  (fst (@in_circumcircle ROps p1 p2 p3 p) = true <-> (d2 p c - d2 p1 c <= reps)%R).
Proof. exact inside_iff. Qed.
Print Assumptions C20_inside_iff.

(* the `done` shortcut is sound: once set for p, every point at or right of p is outside the circle *)
Theorem C20_done_flag_sound : forall p1 p2 p3 p c, @circumcenter ROps p1 p2 p3 = Some c ->
  snd (@in_circumcircle ROps p1 p2 p3 p) = true -> forall q, (vx p <= vx q)%R -> (d2 p1 c < d2 q c)%R.
Proof. exact done_flag_sound. Qed.
Print Assumptions C20_done_flag_sound.

(* Hull coverage, the count 2n-2-h and fast = slow as sets are NOT proved (C20 partial): they are
   decided on generated point sets by exact rational oracles, and the whole Bowyer-Watson run of
   the Go code is reproduced triangle for triangle by the Gallina model Algo/Delaunay.v. *)

(* the super triangle strictly contains every vertex of a point set with positive extent *)
Theorem C20_supertriangle_contains : forall vs : list (V2 ROps),
  (exists u w, In u vs /\ In w vs /\ (vx u <> vx w \/ vy u <> vy w)) ->
  let '(p0, p1, p2) := @super_triangle ROps vs in
  forall v, In v vs -> left_of p0 p2 v /\ left_of p2 p1 v /\ left_of p1 p0 v.
Proof. exact supertriangle_contains. Qed.
Print Assumptions C20_supertriangle_contains.

(* ---- bookkeeping of the incremental algorithm (render/delaunay.go Delaunay2d), for every number
   system `O : Ops` and all inputs: no size bound, nothing assumed about the circumcircle test.
   The model functions scan / tag_outer / add_vertex / strip are the ones executed bit-exactly
   against the Go code in the correspondence runs. *)
From Coq Require Import Bool.
From Sdfx Require Import Algo.DelaunayBook.
Open Scope Z_scope.   (* Reals left R_scope on top *)

(* "copy the tail element over slot j and shrink": slot j is dropped, the rest is kept *)
Theorem C20_swap_remove_exact : forall (A : Type) (d : A) (l : list A) (j : nat), (j < length l)%nat ->
  Permutation l (nth j l d :: swap_remove d l j) /\ length (swap_remove d l j) = (length l - 1)%nat.
Proof. exact @swap_remove_spec. Qed.
Print Assumptions C20_swap_remove_exact.

(* final removal of the triangles touching the super triangle: with any fuel >= the length (the
   model uses S (length ts)) the result is, as a multiset, exactly the triangles with all three
   indices < n *)
Theorem C20_strip_exact : forall (n : Z) (fuel : nat) (ts : list tri), (length ts <= fuel)%nat ->
  Permutation (strip fuel n ts 0) (filter (inner_tri n) ts) /\ Forall (all_below n) (strip fuel n ts 0).
Proof. exact strip_exact. Qed.
Print Assumptions C20_strip_exact.

(* the same from any loop state j: entries before j have been examined already *)
Theorem C20_strip_from : forall (n : Z) (fuel : nat) (ts : list tri) (j : nat),
  (j <= length ts)%nat -> (length ts - j <= fuel)%nat -> Forall (all_below n) (firstn j ts) ->
  Permutation (strip fuel n ts j) (filter (inner_tri n) ts) /\ Forall (all_below n) (strip fuel n ts j).
Proof. exact strip_from. Qed.
Print Assumptions C20_strip_from.

Theorem C20_inner_tri_iff : forall n t, inner_tri n t = true <-> all_below n t.
Proof. exact inner_tri_iff. Qed.
Print Assumptions C20_inner_tri_iff.

(* cavity search for one vertex v: the list splits into kept and removed triangles;
   (a) nothing is lost or invented, (b) the edge buffer is the edges of the removed triangles in
   removal order, (c) removed = not done and inside, (d) kept = done before (unchanged) or not
   inside with the new done flag, (e) the loop ends because j reaches the end, not on fuel *)
Theorem C20_scan_partition : forall (O : Ops) (vs : list (V2 O)) (v : V2 O) (ts : list (tri * bool)),
  exists kept removed,
    scan (S (length ts)) vs v ts 0 [] = (kept, flat_map edges3 removed) /\
    Permutation (flat_map (keepf vs v) ts) kept /\
    Permutation (flat_map (remf vs v) ts) removed /\
    Permutation (map fst ts) (map fst kept ++ removed) /\
    (forall t, In t removed -> In (t, false) ts /\ fst (icc vs v t) = true) /\
    (forall k, In k kept ->
       (snd k = true /\ In k ts) \/
       (In (fst k, false) ts /\ fst (icc vs v (fst k)) = false /\ snd k = snd (icc vs v (fst k)))) /\
    (forall fuel, (S (length ts) <= fuel)%nat ->
       scan fuel vs v ts 0 [] = scan (S (length ts)) vs v ts 0 []).
Proof. exact @scan_partition. Qed.
Print Assumptions C20_scan_partition.

Theorem C20_scan_fuel : forall (O : Ops) (vs : list (V2 O)) (v : V2 O) fuel1 fuel2 ts j es,
  (length ts - j <= fuel1)%nat -> (length ts - j <= fuel2)%nat ->
  scan fuel1 vs v ts j es = scan fuel2 vs v ts j es.
Proof. exact @scan_fuel. Qed.
Print Assumptions C20_scan_fuel.

(* duplicate-edge tagging.  cnt e es = number of entries that are the same undirected edge as e.
   If no undirected edge occurs three or more times, every entry whose edge occurs once stays in
   place and every other entry becomes (-1,-1).  (Entries that already are (-1,-1) are allowed.) *)
Theorem C20_edge_tag_general : forall es : list edge,
  (forall e, In e es -> e <> tag -> (cnt e es <= 2)%nat) ->
  tag_outer es 0 (length es) = map (once_or_tag es) es.
Proof. exact tag_outer_spec. Qed.
Print Assumptions C20_edge_tag_general.

Theorem C20_edge_tag_boundary : forall es : list edge,
  Forall (fun e => nonneg_edge e = true) es ->
  (forall e, In e es -> (cnt e es <= 2)%nat) ->
  tag_outer es 0 (length es) = map (once_or_tag es) es /\
  filter nonneg_edge (tag_outer es 0 (length es)) = filter (fun e => Nat.eqb (cnt e es) 1) es.
Proof. exact tag_outer_boundary. Qed.
Print Assumptions C20_edge_tag_boundary.

(* the hypothesis is needed: of three copies of an edge the third survives *)
Example C20_edge_tag_triple :
  tag_outer [(0, 1); (1, 0); (0, 1); (1, 2)] 0 4 = [tag; tag; (0, 1); (1, 2)] /\
  cnt (0, 1) [(0, 1); (1, 0); (0, 1); (1, 2)] = 3%nat.
Proof. exact tag_outer_triple. Qed.

(* tagging never invents an edge (no hypothesis) *)
Theorem C20_edge_tag_only_tags : forall n es j, tagged_from es (tag_outer es j n).
Proof. exact tagged_outer. Qed.
Print Assumptions C20_edge_tag_only_tags.

(* one insertion step *)
Theorem C20_add_vertex_shape : forall (O : Ops) (vs : list (V2 O)) (i : Z) (ts : list (tri * bool)),
  let v := vnth vs i in
  exists kept removed,
    let es := flat_map edges3 removed in
    scan (S (length ts)) vs v ts 0 [] = (kept, es) /\
    Permutation (map fst ts) (map fst kept ++ removed) /\
    (forall t, In t removed -> In (t, false) ts /\ fst (icc vs v t) = true) /\
    (forall k, In k kept ->
       (snd k = true /\ In k ts) \/
       (In (fst k, false) ts /\ fst (icc vs v (fst k)) = false /\ snd k = snd (icc vs v (fst k)))) /\
    (exists bnd,
       add_vertex vs i ts = kept ++ map (new_tri i) bnd /\
       bnd = filter nonneg_edge (tag_outer es 0 (length es)) /\
       (forall e, In e bnd -> nonneg_edge e = true /\ exists t, In t removed /\ In e (edges3 t)) /\
       length (add_vertex vs i ts) = (length ts - length removed + length bnd)%nat) /\
    (Forall tri_nonneg (map fst ts) -> (forall e, In e es -> (cnt e es <= 2)%nat) ->
       add_vertex vs i ts = kept ++ map (new_tri i) (filter (once es) es) /\
       length (add_vertex vs i ts) = (length ts - length removed + length (filter (once es) es))%nat).
Proof. exact @add_vertex_shape. Qed.
Print Assumptions C20_add_vertex_shape.

Theorem C20_add_vertex_third_index : forall (O : Ops) (vs : list (V2 O)) i ts k,
  In k (add_vertex vs i ts) ->
  (exists dn, In (fst k, dn) ts) \/ (exists e0 e1, k = ((e0, e1, i), false) /\ 0 <= e0 /\ 0 <= e1).
Proof. exact @add_vertex_third_index. Qed.
Print Assumptions C20_add_vertex_third_index.

(* whole run: the result is the stripped final working list and every index returned is a valid
   index into the input point list *)
Theorem C20_delaunay2d_indices_in_range : forall (O : Ops) (vs : list (V2 O)),
  let n := Z.of_nat (length vs) in
  let '(p0, p1, p2) := super_triangle vs in
  let ts := add_vertices (vs ++ [p0; p1; p2]) (length vs) 0 [((n, n + 1, n + 2), false)] in
  Permutation (delaunay2d vs) (filter (inner_tri n) (map fst ts)) /\
  Forall (fun t => let '(a, b, c) := t in 0 <= a < n /\ 0 <= b < n /\ 0 <= c < n) (delaunay2d vs).
Proof. exact @delaunay2d_strip. Qed.
Print Assumptions C20_delaunay2d_indices_in_range.

(* non-vacuity on exact rationals: five points, insertion of vertex 4 (one triangle already done and
   skipped, one becomes done, two removed; their shared edge is tagged, four triangles appended) *)
Example C20_book_example :
  @scan Num.QInst.QOps (S (length BookExample.t4)) BookExample.vs (vnth BookExample.vs 4) BookExample.t4 0 []
    = (BookExample.kept, flat_map edges3 BookExample.removed) /\
  BookExample.removed = [(6, 7, 3); (7, 2, 3)] /\
  forallb (fun e => Nat.leb (cnt e BookExample.es) 2) BookExample.es = true /\
  @add_vertex Num.QInst.QOps BookExample.vs 4 BookExample.t4
    = BookExample.kept ++ map (new_tri 4) [(6, 7); (3, 6); (7, 2); (2, 3)] /\
  @delaunay2d Num.QInst.QOps BookExample.pts = [(2, 3, 4); (2, 1, 3); (0, 1, 2)].
Proof.
  split; [exact (proj1 BookExample.scan_vertex4)|]. split; [reflexivity|].
  split; [exact (proj1 BookExample.add_vertex4)|].
  split; [exact (proj1 (proj2 (proj2 BookExample.add_vertex4)))|exact BookExample.delaunay2d_value].
Qed.

(* ---- the slow reference Delaunay2dSlow (model Algo/DelaunaySlow.v, tied bit-exactly incl.
   degenerate point sets): the lifting argument, over the reals *)
From Sdfx Require Import Algo.DelaunaySlow Algo.DelaunaySlowR.
Open Scope R_scope.

(* the plane test of the code is the circle test: for the lifted points, (d-a).((b-a)x(c-b)) equals
   orientation * (|d-cc|^2 - R^2) for the circumcentre cc *)
Theorem C20_slow_lift_identity : forall a b c d cc, equidistant cc a b c ->
  @v3dot ROps (v3sub (L d) (L a)) (v3cross (v3sub (L b) (L a)) (v3sub (L c) (L b)))
  = orient a b c * (d2 d cc - d2 a cc).
Proof. exact lift_identity. Qed.
Print Assumptions C20_slow_lift_identity.

(* one triple is appended iff no other point lies strictly inside the circle through its points *)
Theorem C20_slow_triple_iff_empty_circle : forall vs i0 i1 i2 cc,
  orient (P vs i0) (P vs i1) (P vs i2) <> 0 -> equidistant cc (P vs i0) (P vs i1) (P vs i2) ->
  ((exists t, @slow_tri ROps vs (i0, i1, i2) = Some t) <-> empty_circle vs i0 i1 i2 cc).
Proof. exact slow_tri_spec. Qed.
Print Assumptions C20_slow_triple_iff_empty_circle.

(* the whole output, for every point list with no three points collinear: exactly the clockwise,
   least-index-first triples of distinct points whose circumcircle is empty, each once *)
Theorem C20_slow_output_spec : forall vs ts,
  @delaunay2d_slow ROps vs = Some ts -> general_position vs ->
  forall t0 t1 t2, In (t0, t1, t2) ts <->
    exists i0 i1 i2, (i0 < i1 < i2 /\ i2 < length vs)%nat /\
      ((t0, t1, t2) = (i0, i1, i2) \/ (t0, t1, t2) = (i0, i2, i1)) /\
      orient (P vs t0) (P vs t1) (P vs t2) < 0 /\
      forall cc, equidistant cc (P vs i0) (P vs i1) (P vs i2) -> empty_circle vs i0 i1 i2 cc.
Proof. exact slow_spec. Qed.
Print Assumptions C20_slow_output_spec.

Theorem C20_slow_output_nodup : forall vs ts, @delaunay2d_slow ROps vs = Some ts -> NoDup ts.
Proof. exact slow_nodup. Qed.
Print Assumptions C20_slow_output_nodup.

(* any clockwise triple of distinct points with an empty circumcircle (what the exact oracle of the
   harness establishes for every triangle Delaunay2d returns) is, in its least-index-first rotation
   (TriangleI.Canonical), a member of the slow output: fast is a subset of slow as canonical sets *)
Theorem C20_slow_complete_up_to_rotation : forall vs ts a b c,
  @delaunay2d_slow ROps vs = Some ts -> general_position vs ->
  (a < length vs)%nat -> (b < length vs)%nat -> (c < length vs)%nat -> a <> b -> b <> c -> a <> c ->
  orient (P vs a) (P vs b) (P vs c) < 0 -> empty_about vs a b c ->
  In (a, b, c) ts \/ In (b, c, a) ts \/ In (c, a, b) ts.
Proof. exact slow_complete. Qed.
Print Assumptions C20_slow_complete_up_to_rotation.

(* circumcentres exist and are unique for non-collinear points: the statements above are not vacuous *)
Theorem C20_circumcentre_exists_unique : forall a b c, orient a b c <> 0 ->
  (exists cc, equidistant cc a b c) /\ (forall cc cc', equidistant cc a b c -> equidistant cc' a b c -> cc = cc').
Proof. intros a b c H. split; [exact (circumcentre_exists a b c H) | intros cc cc'; exact (circumcentre_unique a b c cc cc' H)]. Qed.
Print Assumptions C20_circumcentre_exists_unique.

(* fewer than three points: the error *)
Example C20_slow_error : @delaunay2d_slow ROps [mkV2 0 0; mkV2 1 0] = None.
Proof. reflexivity. Qed.

(* a concrete run (exact rationals): five points, four triangles = 2n-2-h with h = 4 hull points *)
Example C20_slow_example :
  let p (x y : Z) := @mkV2 Num.QInst.QOps (QArith_base.Qmake x 1) (QArith_base.Qmake y 1) in
  @delaunay2d_slow Num.QInst.QOps [p 0 0; p 4 0; p 0 3; p 5 5; p 2 1]%Z
  = Some [(0, 4, 1); (0, 2, 4); (1, 4, 3); (2, 3, 4)]%nat.
Proof. vm_compute. reflexivity. Qed.

(* ---------------------------------------------------------------- syntactic tie to the Go source
   Generated/RenderExpr.v is re-translated from the Go AST of the current source tree on every run
   (harness/rendergen); Algo/GenEqDelaunay.v prove the generated definitions equal to the model the
   theorems above are about, for all arguments over an arbitrary Ops (all of them: Props/TRANSLR.v).
   Each theorem below breaks when the Go function it is named after changes what it computes. *)
From Coq Require Import ZArith List.
From Sdfx Require Num.Ops Geo.Vec Render.RgLib Algo.Canon Algo.Delaunay Generated.RenderExpr Algo.GenEqDelaunay.
Import Num.Ops Geo.Vec.

Theorem C20_TRANSL_Less : forall (a : list (Z * Z * Z)) (i j : Z),
    RenderExpr.rg_render_TriangleIByIndex_Less a i j = Canon.less (RgLib.znth i a (0, 0, 0)%Z) (RgLib.znth j a (0, 0, 0)%Z).
Proof. exact (@GenEqDelaunay.Less_eq). Qed.
Print Assumptions C20_TRANSL_Less.

Theorem C20_TRANSL_Canonical : forall (t : Canon.tri), RenderExpr.rg_render_TriangleI_Canonical t = Canon.canon t.
Proof. exact (@GenEqDelaunay.Canonical_eq). Qed.
Print Assumptions C20_TRANSL_Canonical.

Theorem C20_TRANSL_Circumcenter : forall (O : Ops) (p1 p2 p3 : V2 O),
    RenderExpr.rg_sdf_Triangle2_Circumcenter (p1, p2, p3) = Delaunay.circumcenter p1 p2 p3.
Proof. exact (@GenEqDelaunay.Circumcenter_eq). Qed.
Print Assumptions C20_TRANSL_Circumcenter.

Theorem C20_TRANSL_InCircumcircle : forall (O : Ops) (p1 p2 p3 p : V2 O),
    RenderExpr.rg_sdf_Triangle2_InCircumcircle (p1, p2, p3) p = Delaunay.in_circumcircle p1 p2 p3 p.
Proof. exact (@GenEqDelaunay.InCircumcircle_eq). Qed.
Print Assumptions C20_TRANSL_InCircumcircle.

Theorem C20_TRANSL_superTriangle : forall (O : Ops) (vs : list (V2 O)), (2 <= length vs)%nat ->
    RenderExpr.rg_render_superTriangle vs = Some (Delaunay.super_triangle vs).
Proof. exact (@GenEqDelaunay.superTriangle_eq). Qed.
Print Assumptions C20_TRANSL_superTriangle.

(* ---- inventory of mutable state (DESIGN.md 2.3).  The models above are functions of their arguments; they are
   faithful only as long as the code keeps no state between calls beyond what they mention.  The package-level
   variables and struct fields in the scope of C20 (and which of them are written outside construction, from which
   entry points) are regenerated from the current source on every run (harness/stategen -> Generated/StateInv.v)
   and contain no state beyond the expected, reviewed inventory of Sys/StateInvSpec.v, where every piece of state
   that legitimately exists names the model component that accounts for it.  Breaks when a written package-level
   variable, a struct field, or a write of a field outside its constructor is added in scope (coqc then prints the
   differences); tolerates moved declarations, reordered fields, renamed locals, new helpers / constants / tables
   nothing writes. *)
From Sdfx Require Sys.StateInvSpec Sys.StateInvC20.
Theorem C20_state_inventory : Sdfx.Sys.StateInvSpec.state_ok_C20 = true.
Proof. exact Sdfx.Sys.StateInvC20.C20_state_inventory. Qed.
Print Assumptions C20_state_inventory.
