(* C07 - hierarchical (octree / quadtree) rendering loses nothing.
   Statements are about the ROps instance of the model Render/Octree.v of render/march3x.go
   (dcache3, isEmpty, processCube) and render/march2x.go (dcache2, isEmpty, processSquare).
   The lattice is  point(i,j,k) = origin + (i,j,k) * res  (res = half the requested cell size);
   a cube of Go level n = S m at lattice index v has side 2^(m+1) lattice units, its centre is the
   lattice point v + 2^m, its finest cells have even offsets from v and side 2.

   isEmpty is the strict test |f(centre)| > hdiag[n] of the repaired code (fix 1b3e70c): with the
   original >= a sphere circumscribed about one finest cell made the renderer drop that cell's
   triangles (corpus/C07.json), which is why every statement below holds without any side condition
   on exact zeros or ties.  Floating point rounding is not covered (the float table entry can be an
   ulp below the exact half diagonal; measured on every run). *)
From Coq Require Import List ZArith NArith Bool Reals Lra Lia Permutation.
From Sdfx Require Import Num.Ops Num.RInst Geo.Vec Geo.Box Geo.NormR
  Render.MC Render.MS Render.Lattice Render.Interp Render.Octree Render.Sample.
Import ListNotations.
Open Scope R_scope.

(* hdiag_ok: table entry i is (sqrt 3 / 2) * 2^i * res (3D) resp. (sqrt 2 / 2) * 2^i * res (2D); that
   is exactly the distance from the centre of a cube / square of that side to each of its corners *)
Theorem C07_hdiag_ok : forall (origin : RV3) (origin2 : RV2) (res : R), 0 <= res ->
  (forall i, @hdiag3 ROps res i = sqrt 3 / 2 * (IZR (pow2 i) * res)) /\
  (forall i, @hdiag2 ROps res i = sqrt 2 / 2 * (IZR (pow2 i) * res)) /\
  (forall m v c, dist3 (@oct_point ROps origin res (addp v (scalep (pow2 (S m)) (corner_off c))))
                       (@oct_point ROps origin res (oct_centre m v)) = @hdiag3 ROps res (S m)) /\
  (forall m v c, dist2 (@quad_point ROps origin2 res (addp2 v (scalep2 (pow2 (S m)) (sq_corner_off c))))
                       (@quad_point ROps origin2 res (quad_centre m v)) = @hdiag2 ROps res (S m)) /\
  0.8660254037 < sqrt 3 / 2 < 0.8660254038 /\ 0.7071067811 < sqrt 2 / 2 < 0.7071067812.
Proof.
  intros origin origin2 res Hr. split; [apply hdiag3_R; exact Hr|]. split; [apply hdiag2_R; exact Hr|].
  split; [intros; apply centre_corner_dist; exact Hr|]. split; [intros; apply centre_corner_dist2; exact Hr|].
  exact half_diagonal_constants.
Qed.
Print Assumptions C07_hdiag_ok.

(* centre_index_ok: every lattice point of the closed cube / square is within the table entry of
   the point the code evaluates as its centre *)
Theorem C07_centre_index_ok : forall (origin : RV3) (origin2 : RV2) (res : R), 0 <= res ->
  (forall m v u, in_cube m v u ->
     dist3 (@oct_point ROps origin res u) (@oct_point ROps origin res (oct_centre m v)) <= @hdiag3 ROps res (S m)) /\
  (forall m v u, in_square m v u ->
     dist2 (@quad_point ROps origin2 res u) (@quad_point ROps origin2 res (quad_centre m v)) <= @hdiag2 ROps res (S m)).
Proof. intros origin origin2 res Hr. split; intros; [apply centre_dist | apply centre_dist2]; assumption. Qed.
Print Assumptions C07_centre_index_ok.

(* children_partition: the finest cells of a cube are those of its 8 (4) children, each in exactly
   one child; the recursion visits every finest cell of the top cube exactly once, and the cells it
   visits are a permutation of the row-major enumeration of a uniform walk *)
Theorem C07_children_partition : forall m,
  (forall v u, cell_of (S m) v u <-> exists c, In c (oct_children m v) /\ cell_of m c u /\
                 forall c', In c' (oct_children m v) -> cell_of m c' u -> c' = c) /\
  (forall v u, cell_of2 (S m) v u <-> exists c, In c (quad_children m v) /\ cell_of2 m c u /\
                 forall c', In c' (quad_children m v) -> cell_of2 m c' u -> c' = c) /\
  (forall v, NoDup (oct_leaves m v) /\ Permutation (oct_leaves m v) (cells_row_major m v)) /\
  (forall v, NoDup (quad_leaves m v) /\ Permutation (quad_leaves m v) (cells2_row_major m v)).
Proof.
  intros m. split; [intros; apply oct_children_partition|]. split; [intros; apply quad_children_partition|].
  split; intros v; (split; [first [apply oct_leaves_NoDup | apply quad_leaves_NoDup] | first [apply oct_leaves_perm | apply quad_leaves_perm]]).
Qed.
Print Assumptions C07_children_partition.

(* empty_cube_sound: a pruned cube (|f(centre)| > hdiag) of a 1-Lipschitz field has f of one strict
   sign at every lattice point of the closed cube - so every finest cell inside has all eight
   corners on one side and configuration 0 or 255 *)
Theorem C07_empty_cube_sound : forall (origin : RV3) (res : R) (f : RV3 -> R), 0 <= res -> lip3 f ->
  forall m v, @oct_empty ROps res (fv3 origin res f) m v = true ->
    (0 < fv3 origin res f (oct_centre m v) /\ forall u, in_cube m v u -> 0 < fv3 origin res f u) \/
    (fv3 origin res f (oct_centre m v) < 0 /\ forall u, in_cube m v u -> fv3 origin res f u < 0).
Proof. intros origin res f Hr Hl m v. apply empty_cube_sound; assumption. Qed.
Print Assumptions C07_empty_cube_sound.

Theorem C07_empty_square_sound : forall (origin : RV2) (res : R) (f : RV2 -> R), 0 <= res -> lip2 f ->
  forall m v, @quad_empty ROps res (fv2 origin res f) m v = true ->
    (0 < fv2 origin res f (quad_centre m v) /\ forall u, in_square m v u -> 0 < fv2 origin res f u) \/
    (fv2 origin res f (quad_centre m v) < 0 /\ forall u, in_square m v u -> fv2 origin res f u < 0).
Proof. intros origin res f Hr Hl m v. apply empty_square_sound; assumption. Qed.
Print Assumptions C07_empty_square_sound.

(* C07, 3D: for every 1-Lipschitz field, every lattice and every depth the octree renderer emits
   exactly the triangles of  flat_map cell (cells in the order the recursion reaches them), which is
   a permutation of the output of evaluating every finest cell in row-major order; the same holds
   for the run with the distance cache, started from any cache holding values of the field *)
Theorem C07_octree_eq_uniform : forall (origin : RV3) (res : R) (f : RV3 -> R), 0 <= res -> lip3 f ->
  forall m v,
    @octree ROps origin res (fv3 origin res f) m v = flat_map (@oct_cell ROps origin res (fv3 origin res f)) (oct_leaves m v) /\
    Permutation (@octree ROps origin res (fv3 origin res f) m v)
                (flat_map (@oct_cell ROps origin res (fv3 origin res f)) (cells_row_major m v)) /\
    forall s, cache3_ok (fv3 origin res f) s ->
      fst (@octree_st ROps origin res (fv3 origin res f) m v s) = @octree ROps origin res (fv3 origin res f) m v.
Proof.
  intros origin res f Hr Hl m v. split; [apply octree_eq_uniform; assumption|].
  split; [apply octree_perm_row_major; assumption|].
  intros s Hs. apply octree_cache_refines. exact Hs.
Qed.
Print Assumptions C07_octree_eq_uniform.

Theorem C07_quadtree_eq_uniform : forall (origin : RV2) (res : R) (f : RV2 -> R), 0 <= res -> lip2 f ->
  forall m v,
    @quadtree ROps origin res (fv2 origin res f) m v = flat_map (@quad_cell ROps origin res (fv2 origin res f)) (quad_leaves m v) /\
    Permutation (@quadtree ROps origin res (fv2 origin res f) m v)
                (flat_map (@quad_cell ROps origin res (fv2 origin res f)) (cells2_row_major m v)) /\
    forall s, cache2_ok (fv2 origin res f) s ->
      fst (@quadtree_st ROps origin res (fv2 origin res f) m v s) = @quadtree ROps origin res (fv2 origin res f) m v.
Proof.
  intros origin res f Hr Hl m v. split; [apply quadtree_eq_uniform; assumption|].
  split; [apply quadtree_perm_row_major; assumption|].
  intros s Hs. apply quadtree_cache_refines. exact Hs.
Qed.
Print Assumptions C07_quadtree_eq_uniform.

(* the distance cache never changes a value: for ANY field values (no Lipschitz hypothesis) the run
   with the cache equals the run without, and the cache keeps holding field values only *)
Theorem C07_cache_transparent : forall (O : Ops) origin res (fv : pt -> T O) m v s, cache3_ok fv s ->
  fst (@octree_st O origin res fv m v s) = @octree O origin res fv m v /\
  cache3_ok fv (snd (@octree_st O origin res fv m v s)).
Proof. intros. now apply octree_cache_refines. Qed.
Print Assumptions C07_cache_transparent.

(* levels_cover: with origin = Min of the (1.01-scaled) box, if 2^(levels-1) * res reaches the long
   axis of the box - the exact inequality checked on the observed level count of every render - the
   top cube of the octree contains the box; and the scaled box contains the bounding box *)
Theorem C07_levels_cover : forall (bb0 : Box3 ROps) (res : R) (levels : nat),
  ordered3 bb0 -> 0 < res ->
  let bb := @box3_scale_about_center ROps bb0 (@cst ROps 101 100) in
  @v3maxcomp ROps (box3_size bb) <= IZR (pow2 (levels - 1)) * res ->
  forall q, in_box3 bb0 q ->
    wx (b3min bb) <= wx q <= wx (@oct_point ROps (b3min bb) res (pow2 (levels - 1), 0, 0)%Z) /\
    wy (b3min bb) <= wy q <= wy (@oct_point ROps (b3min bb) res (0, pow2 (levels - 1), 0)%Z) /\
    wz (b3min bb) <= wz q <= wz (@oct_point ROps (b3min bb) res (0, 0, pow2 (levels - 1))%Z).
Proof.
  intros bb0 res levels Ho Hr bb Hc q Hq.
  destruct (scaled_box_contains_bbox bb0 Ho) as (A1 & A2 & A3 & A4 & A5 & A6 & _). fold bb in A1, A2, A3, A4, A5, A6.
  assert (Ob : ordered3 bb).
  { destruct Ho as (O1 & O2 & O3). unfold ordered3. lra. }
  apply (levels_cover bb res levels Ob Hr Hc). destruct Hq as (Q1 & Q2 & Q3). unfold in_box3. lra.
Qed.
Print Assumptions C07_levels_cover.

(* the code as pinned (before fix 1b3e70c) tested |f(centre)| >= hdiag: with that comparison the
   statement C07_quadtree_eq_uniform is false - for the union of the circle circumscribed about one
   finest square with a circle covering its two upper corners (1-Lipschitz) that renderer emits
   nothing, the evaluation of the cell emits the segment along its lower side.  (The real code showed
   the same loss in 2D and 3D: corpus/C07.json.) *)
Theorem C07_original_comparison_refuted : exists f : RV2 -> R, lip2 f /\
  @quadtree_ge ROps (mkV2 0 0) 1 (fv2 (mkV2 0 0) 1 f) 0 (0, 0)%Z = [] /\
  @quad_uniform ROps (mkV2 0 0) 1 (fv2 (mkV2 0 0) 1 f) 0 (0, 0)%Z = [(mkV2 0 0, mkV2 2 0)].
Proof. exists tie_field. exact ge_variant_loses_segment. Qed.
Print Assumptions C07_original_comparison_refuted.

(* the hypotheses are satisfiable: spheres and circles are 1-Lipschitz *)
Example C07_sphere_instance : forall c R0, lip3 (fun p => dist3 p c - R0).
Proof. exact sphere_lip3. Qed.
Example C07_circle_instance : forall c R0, lip2 (fun p => dist2 p c - R0).
Proof. exact circle_lip2. Qed.

(* ---------------------------------------------------------------- syntactic tie to the Go source
   Generated/RenderExpr.v is re-translated from the Go AST of the current source tree on every run
   (harness/rendergen); Render/GenEqRender.v and Render/GenEqMC.v prove the generated definitions equal to the model the
   theorems above are about, for all arguments over an arbitrary Ops (all of them: Props/TRANSLR.v).
   Each theorem below breaks when the Go function it is named after changes what it computes. *)
From Coq Require Import ZArith List.
Import ListNotations.
From Sdfx Require Num.Ops Geo.Vec Geo.Box Render.Interp Render.Octree Render.Sample Render.Lattice Render.MS Render.RgLib Generated.RenderExpr Render.GenEqRender Render.GenEqMC Render.GenEqOct.
Import Num.Ops Geo.Vec.

Theorem C07_TRANSL_dcache3_isEmpty : forall (O : Ops) (origin : V3 O) (res : T O) (fv : Lattice.pt -> T O) (n m : nat) (v : Lattice.pt),
    (S m < n)%nat ->
    RenderExpr.rg_render_dcache3_isEmpty (Octree.hdiag3_table res n) (fun vi => (Octree.oct_point origin res vi, fv vi)) v (Z.of_nat (S m)) =
    Octree.oct_empty res fv m v.
Proof. exact (@GenEqRender.dcache3_isEmpty_eq). Qed.
Print Assumptions C07_TRANSL_dcache3_isEmpty.

Theorem C07_TRANSL_dcache2_isEmpty : forall (O : Ops) (origin : V2 O) (res : T O) (fv : MS.pt2 -> T O) (n m : nat) (v : MS.pt2),
    (S m < n)%nat ->
    RenderExpr.rg_render_dcache2_isEmpty (Octree.hdiag2_table res n) (fun vi => (Octree.quad_point origin res vi, fv vi)) v (Z.of_nat (S m)) =
    Octree.quad_empty res fv m v.
Proof. exact (@GenEqRender.dcache2_isEmpty_eq). Qed.
Print Assumptions C07_TRANSL_dcache2_isEmpty.

Theorem C07_TRANSL_newDcache3 : forall (O : Ops) (origin : V3 O) (res : T O) (n : nat),
    RenderExpr.rg_render_newDcache3 origin res (Z.of_nat n) = (origin, res, Octree.hdiag3_table res n).
Proof. exact (@GenEqRender.newDcache3_eq). Qed.
Print Assumptions C07_TRANSL_newDcache3.

Theorem C07_TRANSL_newDcache2 : forall (O : Ops) (origin : V2 O) (res : T O) (n : nat),
    RenderExpr.rg_render_newDcache2 origin res (Z.of_nat n) = (origin, res, Octree.hdiag2_table res n).
Proof. exact (@GenEqRender.newDcache2_eq). Qed.
Print Assumptions C07_TRANSL_newDcache2.

Theorem C07_TRANSL_dcache3_point_prefix : forall (O : Ops) (origin : V3 O) (res : T O) (vi : Lattice.pt),
    RenderExpr.rg_render_dcache3_evaluate origin res vi = Octree.oct_point origin res vi.
Proof. exact (@GenEqRender.dcache3_point_eq). Qed.
Print Assumptions C07_TRANSL_dcache3_point_prefix.

Theorem C07_TRANSL_dcache2_point_prefix : forall (O : Ops) (origin : V2 O) (res : T O) (vi : MS.pt2),
    RenderExpr.rg_render_dcache2_evaluate origin res vi = Octree.quad_point origin res vi.
Proof. exact (@GenEqRender.dcache2_point_eq). Qed.
Print Assumptions C07_TRANSL_dcache2_point_prefix.

Theorem C07_TRANSL_mcToTriangles : forall (O : Ops) (p0 p1 p2 p3 p4 p5 p6 p7 : V3 O) (v0 v1 v2 v3 v4 v5 v6 v7 x : T O),
    RenderExpr.rg_render_mcToTriangles [p0; p1; p2; p3; p4; p5; p6; p7] [v0; v1; v2; v3; v4; v5; v6; v7] x =
    Interp.mc_to_triangles (Octree.sel8 p0 p1 p2 p3 p4 p5 p6 p7) (Octree.sel8 v0 v1 v2 v3 v4 v5 v6 v7) x.
Proof. exact (@GenEqMC.mcToTriangles_eq). Qed.
Print Assumptions C07_TRANSL_mcToTriangles.

Theorem C07_TRANSL_msToLines : forall (O : Ops) (p0 p1 p2 p3 : V2 O) (v0 v1 v2 v3 x : T O),
    RenderExpr.rg_render_msToLines [p0; p1; p2; p3] [v0; v1; v2; v3] x =
    Interp.ms_to_lines (Octree.sel4 p0 p1 p2 p3) (Octree.sel4 v0 v1 v2 v3) x.
Proof. exact (@GenEqRender.msToLines_eq). Qed.
Print Assumptions C07_TRANSL_msToLines.

(* processCube / processSquare, translated as the list of events of one activation (RgOut = the value
   written, RgCall = the arguments of a recursive call): the model recursion of the theorems above is
   the interpretation of the generated step, with isEmpty the generated isEmpty over the generated
   hdiag table and dc.evaluate the function (point of the index, field value at the index) *)
Theorem C07_TRANSL_octree_step : forall (O : Ops) (origin : V3 O) (res : T O) (fv : Lattice.pt -> T O) (n m : nat) (v : Lattice.pt),
    (S m < n)%nat ->
    Octree.octree origin res fv m v =
    RgLib.run_trace (fun a : Lattice.pt * Z => Octree.octree origin res fv (pred m) (fst a))
      (RenderExpr.rg_render_dcache3_processCube
         (fun a => RenderExpr.rg_render_dcache3_isEmpty (Octree.hdiag3_table res n) (fun vi => (Octree.oct_point origin res vi, fv vi)) (fst a) (snd a))
         (fun vi => (Octree.oct_point origin res vi, fv vi)) v (Z.of_nat (S m))).
Proof. exact (@GenEqOct.octree_step). Qed.
Print Assumptions C07_TRANSL_octree_step.

Theorem C07_TRANSL_quadtree_step : forall (O : Ops) (origin : V2 O) (res : T O) (fv : MS.pt2 -> T O) (n m : nat) (v : MS.pt2),
    (S m < n)%nat ->
    Octree.quadtree origin res fv m v =
    RgLib.run_trace (fun a : MS.pt2 * Z => Octree.quadtree origin res fv (pred m) (fst a))
      (RenderExpr.rg_render_dcache2_processSquare
         (fun a => RenderExpr.rg_render_dcache2_isEmpty (Octree.hdiag2_table res n) (fun vi => (Octree.quad_point origin res vi, fv vi)) (fst a) (snd a))
         (fun vi => (Octree.quad_point origin res vi, fv vi)) v (Z.of_nat (S m))).
Proof. exact (@GenEqOct.quadtree_step). Qed.
Print Assumptions C07_TRANSL_quadtree_step.

(* ---- inventory of mutable state (DESIGN.md 2.3).  The models above are functions of their arguments; they are
   faithful only as long as the code keeps no state between calls beyond what they mention.  The package-level
   variables and struct fields in the scope of C07 (and which of them are written outside construction, from which
   entry points) are regenerated from the current source on every run (harness/stategen -> Generated/StateInv.v)
   and contain no state beyond the expected, reviewed inventory of Sys/StateInvSpec.v, where every piece of state
   that legitimately exists names the model component that accounts for it.  Breaks when a written package-level
   variable, a struct field, or a write of a field outside its constructor is added in scope (coqc then prints the
   differences); tolerates moved declarations, reordered fields, renamed locals, new helpers / constants / tables
   nothing writes. *)
From Sdfx Require Sys.StateInvSpec Sys.StateInvC07.
Theorem C07_state_inventory : Sdfx.Sys.StateInvSpec.state_ok_C07 = true.
Proof. exact Sdfx.Sys.StateInvC07.C07_state_inventory. Qed.
Print Assumptions C07_state_inventory.
