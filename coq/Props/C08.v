(* C08 - 2D marching-squares contours are closed and lie on the boundary.  Theorems only.
   See DESIGN.md section 6, C08.  Tables: Generated/MarchTables.v (regenerated from the source on
   every run); combinatorial model: Render/MS.v, Render/Lattice.v; numeric model and the real-number
   lift: Render/Interp.v, Render/LatticeR.v, Render/CircleR.v; algebra of degrees: Render/Balance.v. *)
From Coq Require Import List ZArith NArith Reals Bool.
From Sdfx Require Import Num.Ops.
From Sdfx Require Import Num.RInst.
From Sdfx Require Import Geo.Vec.
From Sdfx Require Import Geo.NormR.
From Sdfx Require Import Generated.MarchTables.
From Sdfx Require Import Render.Balance.
From Sdfx Require Import Render.MS.
From Sdfx Require Import Render.Lattice.
From Sdfx Require Import Render.Interp.
From Sdfx Require Import Render.LatticeR.
From Sdfx Require Import Render.CircleR.
Import ListNotations.

(* ---------------------------------------------------------------- the tables (domain: all 16 rows) *)

(* msEdgeTable: the mask is exactly the set of sign-changing sides *)
Theorem C08_ms_edge_table_ok : forall cfg e, (cfg < 16)%N -> (e < 4)%N ->
  N.testbit (sq_edge_mask cfg) e = sq_crossing cfg e.
Proof. exact sq_edge_table_ok. Qed.
Print Assumptions C08_ms_edge_table_ok.

(* msLineTable: every sign-changing side of a cell is the end point of exactly one of its segments,
   the other sides of none (so segments use interpolated points only) *)
Theorem C08_ms_each_crossing_used_once : forall cfg e, (cfg < 16)%N -> (e < 4)%N ->
  ncount e (line_row cfg) = if sq_crossing cfg e then 1%nat else 0%nat.
Proof. exact each_crossing_used_once. Qed.
Print Assumptions C08_ms_each_crossing_used_once.
Theorem C08_ms_lines_use_crossing_edges : forall cfg e, (cfg < 16)%N -> In e (line_row cfg) ->
  (e < 4)%N /\ sq_crossing cfg e = true.
Proof. exact lines_use_crossing_edges. Qed.
Print Assumptions C08_ms_lines_use_crossing_edges.
Theorem C08_ms_rows_whole_segments : forall cfg, (cfg < 16)%N -> (N.of_nat (length (line_row cfg)) mod 2 = 0)%N.
Proof. exact line_rows_whole. Qed.
Print Assumptions C08_ms_rows_whole_segments.
Theorem C08_ms_nonempty : forall cfg, (cfg < 16)%N -> cfg <> 0%N -> cfg <> 15%N -> local_lines cfg <> [].
Proof. exact sq_nonempty. Qed.
Print Assumptions C08_ms_nonempty.

(* ---------------------------------------------------------------- the lift to whole lattices *)

(* every sign assignment on every lattice size: a lattice edge is the end point of exactly two
   segments when it is a sign-changing edge of the lattice, of none otherwise *)
Theorem C08_even_degree : forall nx ny (sgn : pt2 -> bool), boundary_outside2 nx ny sgn ->
  forall v, deg2 (mesh2 nx ny sgn) v = (2 * crossing_at nx ny sgn v)%Z.
Proof. exact mesh2_degree. Qed.
Print Assumptions C08_even_degree.

(* even degree everywhere survives ANY identification of end points, and the removal of zero-length
   segments changes each degree by an even number - for any vertex type *)
Theorem C08_identification_preserves_even_degree :
  forall (V W : Type) (veqb : V -> V -> bool), (forall a b, veqb a b = true <-> a = b) ->
  forall (weqb : W -> W -> bool) (phi : V -> W) l,
  (forall v, exists k, deg veqb l v = (2 * k)%Z) -> forall w, exists k, deg weqb (map (mapE phi) l) w = (2 * k)%Z.
Proof. exact @identification_preserves_even_degree. Qed.
Print Assumptions C08_identification_preserves_even_degree.
Theorem C08_zero_length_removal_preserves_parity :
  forall (V : Type) (veqb : V -> V -> bool), (forall a b, veqb a b = true <-> a = b) ->
  forall l v, exists k, deg veqb (filter (fun e => negb (zero_length veqb e)) l) v = (deg veqb l v - 2 * k)%Z.
Proof. exact @zero_length_removal_parity. Qed.
Print Assumptions C08_zero_length_removal_preserves_parity.

(* the model of the code (msToLines run over every cell, real arithmetic, arbitrary lattice-point
   positions and values): every point of the plane is the end point of an even number of emitted
   segments, and no emitted segment has zero length *)
Theorem C08_emitted_contour_closed : forall (cpos : pt2 -> V2 ROps) (val : pt2 -> R) (x : R) nx ny,
  boundary_outside2 nx ny (sgnR2 val x) ->
  forall q, exists k, deg v2_eqbR (meshR2 cpos val x nx ny) q = (2 * k)%Z.
Proof. exact meshR2_even_degree. Qed.
Print Assumptions C08_emitted_contour_closed.
Theorem C08_emitted_segments_nonzero : forall (cpos : pt2 -> V2 ROps) (val : pt2 -> R) (x : R) nx ny l,
  In l (meshR2 cpos val x nx ny) -> fst l <> snd l.
Proof. exact meshR2_segments_nonzero. Qed.
Print Assumptions C08_emitted_segments_nonzero.

(* ---------------------------------------------------------------- end points lie on the boundary *)

(* the crossing computed from either end of a sign-changing edge is the same point *)
Theorem C08_interp_symmetric : forall p1 p2 v1 v2 x, v1 <> v2 ->
  @ms_interpolate ROps p2 p1 v2 v1 x = @ms_interpolate ROps p1 p2 v1 v2 x.
Proof. exact ms_interp_symmetric. Qed.
Print Assumptions C08_interp_symmetric.

(* it is a point of the lattice edge (t in [0,1]) where the linear interpolant of the two values is
   within epsilon of the level *)
Theorem C08_interp_on_edge : forall p1 p2 v1 v2 x, straddles v1 v2 x ->
  exists t, (0 <= t <= 1)%R /\ (Rabs (lerp v1 v2 t - x) < eps)%R /\
    @ms_interpolate ROps p1 p2 v1 v2 x = mkV2 (lerp (vx p1) (vx p2) t) (lerp (vy p1) (vy p2) t).
Proof. exact ms_interp_on_edge. Qed.
Print Assumptions C08_interp_on_edge.

(* straight boundaries: exact (within epsilon when a snapping branch applies) *)
Theorem C08_interp_line_exact : forall (p1 p2 : V2 ROps) (v1 v2 x : R) (f : V2 ROps -> R),
  (forall t, f (mkV2 (lerp (vx p1) (vx p2) t) (lerp (vy p1) (vy p2) t)) = lerp v1 v2 t) ->
  straddles v1 v2 x ->
  (Rabs (f (@ms_interpolate ROps p1 p2 v1 v2 x) - x) < eps)%R /\
  ((eps <= Rabs (x - v1))%R -> (eps <= Rabs (x - v2))%R -> f (@ms_interpolate ROps p1 p2 v1 v2 x) = x).
Proof. exact ms_interp_line_exact. Qed.
Print Assumptions C08_interp_line_exact.

(* circle of radius R, lattice edge no longer than h < R: within h^2/(8(R-h)) (+ epsilon) *)
Theorem C08_interp_circle_bound : forall (c p1 p2 : V2 ROps) (R h : R),
  (dist2 p1 p2 <= h)%R -> (h < R)%R -> (@eps ROps <= h)%R ->
  straddles (dist2 p1 c - R) (dist2 p2 c - R) 0 ->
  (Rabs (dist2 (@ms_interpolate ROps p1 p2 (dist2 p1 c - R) (dist2 p2 c - R) 0) c - R)
     < h * h / (8 * (R - h)) + @eps ROps)%R.
Proof. exact ms_interp_circle_bound. Qed.
Print Assumptions C08_interp_circle_bound.

(* "total length converges to the perimeter" is measured by the harness on circles, not proved. *)

(* ---------------------------------------------------------------- non-vacuity *)
Example C08_hyp_satisfiable :
  let sgn : pt2 -> bool := fun q => let '(x, y) := q in ((x =? 1) && (y =? 1))%Z in
  boundary_outside2 2 2 sgn /\ length (mesh2 2 2 sgn) = 4%nat /\ deg2 (mesh2 2 2 sgn) (1, 0, 1)%Z = 2%Z.
Proof.
  cbv zeta. split.
  - intros x y Hx Hy Hb. cbn in Hx, Hy.
    destruct (Z.eqb_spec x 1), (Z.eqb_spec y 1); subst; cbn; try reflexivity.
    exfalso. cbn in Hb. intuition discriminate.
  - vm_compute. split; reflexivity.
Qed.

(* ---------------------------------------------------------------- syntactic tie to the Go source
   Generated/RenderExpr.v is re-translated from the Go AST of the current source tree on every run
   (harness/rendergen); Render/GenEqRender.v prove the generated definitions equal to the model the
   theorems above are about, for all arguments over an arbitrary Ops (all of them: Props/TRANSLR.v).
   Each theorem below breaks when the Go function it is named after changes what it computes. *)
From Coq Require Import ZArith List.
Import ListNotations.
From Sdfx Require Num.Ops Geo.Vec Render.Interp Render.Octree Generated.RenderExpr Render.GenEqRender.
Import Num.Ops Geo.Vec.

Theorem C08_TRANSL_msToLines : forall (O : Ops) (p0 p1 p2 p3 : V2 O) (v0 v1 v2 v3 x : T O),
    RenderExpr.rg_render_msToLines [p0; p1; p2; p3] [v0; v1; v2; v3] x =
    Interp.ms_to_lines (Octree.sel4 p0 p1 p2 p3) (Octree.sel4 v0 v1 v2 v3) x.
Proof. exact (@GenEqRender.msToLines_eq). Qed.
Print Assumptions C08_TRANSL_msToLines.

Theorem C08_TRANSL_msInterpolate : forall (O : Ops) (p1 p2 : V2 O) (v1 v2 x : T O),
    RenderExpr.rg_render_msInterpolate p1 p2 v1 v2 x = Interp.ms_interpolate p1 p2 v1 v2 x.
Proof. exact (@GenEqRender.msInterpolate_eq). Qed.
Print Assumptions C08_TRANSL_msInterpolate.

Theorem C08_TRANSL_Line2_Degenerate : forall (O : Ops) (l : V2 O * V2 O) (tol : T O),
    RenderExpr.rg_sdf_Line2_Degenerate l tol = Interp.line2_degenerate l tol.
Proof. exact (@GenEqRender.Line2_Degenerate_eq). Qed.
Print Assumptions C08_TRANSL_Line2_Degenerate.

(* ---- inventory of mutable state (DESIGN.md 2.3).  The models above are functions of their arguments; they are
   faithful only as long as the code keeps no state between calls beyond what they mention.  The package-level
   variables and struct fields in the scope of C08 (and which of them are written outside construction, from which
   entry points) are regenerated from the current source on every run (harness/stategen -> Generated/StateInv.v)
   and contain no state beyond the expected, reviewed inventory of Sys/StateInvSpec.v, where every piece of state
   that legitimately exists names the model component that accounts for it.  Breaks when a written package-level
   variable, a struct field, or a write of a field outside its constructor is added in scope (coqc then prints the
   differences); tolerates moved declarations, reordered fields, renamed locals, new helpers / constants / tables
   nothing writes. *)
From Sdfx Require Sys.StateInvSpec Sys.StateInvC08.
Theorem C08_state_inventory : Sdfx.Sys.StateInvSpec.state_ok_C08 = true.
Proof. exact Sdfx.Sys.StateInvC08.C08_state_inventory. Qed.
Print Assumptions C08_state_inventory.
