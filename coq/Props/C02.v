(* C02 - combinators denote the set / geometric operation they name: theorems only.
   See DESIGN.md section 6, C02.  Every statement is about the ROps (real number) instance of
   the model in Sdf/Shape.v and of the matrix code translated from sdf/matrix.go
   (Generated/MatrixExpr.v); `k_xxx ... = Some o` reads "the Go constructor returned the object o". *)
From Coq Require Import Reals List Lra ZArith.
(* the hand-written model functions are equal to the terms translated from the current Go source *)
From Sdfx Require Sdf.GenEq.
From Sdfx Require Import Num.Ops Num.RInst Geo.Vec Geo.Box Geo.NormR Geo.MinMaxR Geo.Mat Geo.MatR Geo.RotR Geo.PolarR
  Sdf.Union2 Sdf.Union2R Sdf.Shape Sdf.ShapeR Sdf.BlendR Sdf.DenoteR Sdf.DenoteR2 Sdf.Cache Sdf.Voxel.
Import ListNotations.
Open Scope R_scope.

(* ================================================================== matrices *)
(* the cofactor formulas of M22/M33/M44.Inverse are inverses whenever the determinant is not 0 *)
Theorem C02_inverse_correct_44 : forall a, det44 a <> 0 -> mul44 a (inv44 a) = id44 /\ mul44 (inv44 a) a = id44.
Proof. exact inverse_correct_44. Qed.
Theorem C02_inverse_correct_33 : forall a, det33 a <> 0 -> mul33 a (inv33 a) = id33 /\ mul33 (inv33 a) a = id33.
Proof. exact inverse_correct_33. Qed.
Theorem C02_inverse_correct_22 : forall a, det22 a <> 0 -> mul22 a (inv22 a) = id22 /\ mul22 (inv22 a) a = id22.
Proof. exact inverse_correct_22. Qed.
(* ... and undo the map on positions (affine = last row 0 0 0 1) *)
Theorem C02_inverse_position_44 : forall a p, det44 a <> 0 -> affine44 a -> mp44 (inv44 a) (mp44 a p) = p.
Proof. exact inverse_position_44. Qed.
Theorem C02_inverse_position_33 : forall a p, det33 a <> 0 -> affine33 a -> mp33 (inv33 a) (mp33 a p) = p.
Proof. exact inverse_position_33. Qed.
Theorem C02_inverse_position_22 : forall a p, det22 a <> 0 -> mp22 (inv22 a) (mp22 a p) = p.
Proof. exact inverse_position_22. Qed.

(* Transform3D / Transform2D: the value at the image of q is the operand's value at q *)
Theorem C02_transform_sem : forall (s o : RObj3) m, k_transform3 s m = Some o ->
  det44 m <> 0 -> affine44 m -> forall q, ev3 o (mp44 m q) = ev3 s q.
Proof. exact transform3_sem. Qed.
Theorem C02_transform2_sem : forall (s o : RObj2) m, k_transform2 s m = Some o ->
  det33 m <> 0 -> affine33 m -> forall q, ev2 o (mp33 m q) = ev2 s q.
Proof. exact transform2_sem. Qed.
Theorem C02_transform_preimage : forall (s o : RObj3) m, k_transform3 s m = Some o ->
  det44 m <> 0 -> affine44 m -> forall p, exists q, mp44 m q = p /\ ev3 o p = ev3 s q.
Proof. exact transform3_preimage. Qed.

(* Rotate3d about any axis v <> 0: affine, orthogonal, determinant +1, fixes v, preserves lengths,
   and turns a vector perpendicular to the axis right-handedly: R u = cos a u + sin a (v^ x u) *)
Theorem C02_rotate3d_orthonormal : forall (v : RV3) (a : R), len3 v <> 0 ->
  let m := @mk_rotate3d ROps v a in
  let n := @v3normalize ROps v in
  affine44 m /\ orthogonal44 m /\ det44 m = 1 /\
  mp44 m v = v /\
  (forall u, len3 (mp44 m u) = len3 u) /\
  (forall u : RV3, wx n * wx u + wy n * wy u + wz n * wz u = 0 ->
     mp44 m u = let nu := @v3cross ROps n u in
                mkV3 (cos a * wx u + sin a * wx nu) (cos a * wy u + sin a * wy nu) (cos a * wz u + sin a * wz nu)).
Proof. exact rotate3d_orthonormal. Qed.
Theorem C02_rotate_xyz_orthonormal : forall a,
  (affine44 (@mk_rotatex ROps a) /\ orthogonal44 (@mk_rotatex ROps a) /\ det44 (@mk_rotatex ROps a) = 1) /\
  (affine44 (@mk_rotatey ROps a) /\ orthogonal44 (@mk_rotatey ROps a) /\ det44 (@mk_rotatey ROps a) = 1) /\
  (affine44 (@mk_rotatez ROps a) /\ orthogonal44 (@mk_rotatez ROps a) /\ det44 (@mk_rotatez ROps a) = 1).
Proof. exact rotate_xyz_orthonormal. Qed.
(* explicit actions: counter-clockwise about the named axis, seen from its positive end *)
Theorem C02_rotate_xyz_action : forall a (p : RV3),
  mp44 (@mk_rotatex ROps a) p = mkV3 (wx p) (cos a * wy p - sin a * wz p) (sin a * wy p + cos a * wz p) /\
  mp44 (@mk_rotatey ROps a) p = mkV3 (cos a * wx p + sin a * wz p) (wy p) (- sin a * wx p + cos a * wz p) /\
  mp44 (@mk_rotatez ROps a) p = mkV3 (cos a * wx p - sin a * wy p) (sin a * wx p + cos a * wy p) (wz p).
Proof. intros a p. exact (conj (rotatex_action a p) (conj (rotatey_action a p) (rotatez_action a p))). Qed.
(* the mirrors are orthogonal with determinant -1 and flip the named coordinate *)
Theorem C02_mirrors3d :
  (orthogonal44 (@mk_mirrorxy ROps) /\ det44 (@mk_mirrorxy ROps) = -1 /\ affine44 (@mk_mirrorxy ROps) /\
   forall p : RV3, mp44 (@mk_mirrorxy ROps) p = mkV3 (wx p) (wy p) (- wz p)) /\
  (orthogonal44 (@mk_mirrorxz ROps) /\ det44 (@mk_mirrorxz ROps) = -1 /\ affine44 (@mk_mirrorxz ROps) /\
   forall p : RV3, mp44 (@mk_mirrorxz ROps) p = mkV3 (wx p) (- wy p) (wz p)) /\
  (orthogonal44 (@mk_mirroryz ROps) /\ det44 (@mk_mirroryz ROps) = -1 /\ affine44 (@mk_mirroryz ROps) /\
   forall p : RV3, mp44 (@mk_mirroryz ROps) p = mkV3 (- wx p) (wy p) (wz p)) /\
  (orthogonal44 (@mk_mirrorxeqy ROps) /\ det44 (@mk_mirrorxeqy ROps) = -1 /\ affine44 (@mk_mirrorxeqy ROps) /\
   forall p : RV3, mp44 (@mk_mirrorxeqy ROps) p = mkV3 (wy p) (wx p) (wz p)).
Proof. exact mirrors3d. Qed.
Theorem C02_mirrors2d :
  (orthogonal33 (@mk_mirrorx ROps) /\ det33 (@mk_mirrorx ROps) = -1 /\ affine33 (@mk_mirrorx ROps) /\
   forall p : RV2, mp33 (@mk_mirrorx ROps) p = mkV2 (vx p) (- vy p)) /\
  (orthogonal33 (@mk_mirrory ROps) /\ det33 (@mk_mirrory ROps) = -1 /\ affine33 (@mk_mirrory ROps) /\
   forall p : RV2, mp33 (@mk_mirrory ROps) p = mkV2 (- vx p) (vy p)).
Proof. exact mirrors2d. Qed.
Theorem C02_rotate2d_orthonormal : forall a,
  let m := @mk_rotate2d ROps a in
  affine33 m /\ orthogonal33 m /\ det33 m = 1 /\
  forall p : RV2, mp33 m p = mkV2 (cos a * vx p - sin a * vy p) (sin a * vx p + cos a * vy p).
Proof. exact rotate2d_orthonormal. Qed.
Theorem C02_rotate_orthonormal : forall a,
  let m := @mk_rotate ROps a in
  orthogonal22 m /\ det22 m = 1 /\
  forall p : RV2, mp22 m p = mkV2 (cos a * vx p - sin a * vy p) (sin a * vx p + cos a * vy p).
Proof. exact rotate_orthonormal. Qed.

(* ================================================================== uniform scale *)
Theorem C02_scale_sem : forall (s o : RObj3) k, k_scaleuniform3 s k = Some o -> k <> 0 ->
  forall q, ev3 o (@v3muls ROps q k) = k * ev3 s q.
Proof. exact scale3_sem. Qed.
Theorem C02_scale2_sem : forall (s o : RObj2) k, k_scaleuniform2 s k = Some o -> k <> 0 ->
  forall q, ev2 o (@v2muls ROps q k) = k * ev2 s q.
Proof. exact scale2_sem. Qed.

(* ================================================================== unions and their folds *)
(* Union3D (default minimum): the list minimum of the operand values, one-operand shortcut included *)
Theorem C02_union_sem : forall (s0 : RObj3) (r : list RObj3) (o : RObj3), k_union3 MinDef (s0 :: r) = Some o ->
  forall p, ev3 o p = lmin (ev3 s0 p) (map (fun x => ev3 x p) r).
Proof. exact union3_sem. Qed.
Theorem C02_union_inside : forall (l : list RObj3) (o : RObj3), k_union3 MinDef l = Some o ->
  forall p, ev3 o p < 0 <-> exists x, In x l /\ ev3 x p < 0.
Proof. exact union3_inside. Qed.
(* Union2D: the box-pruned evaluation equals the list minimum under the facts pruning relies on
   (C16 union_prune_eq: operand value >= distance to its box, a solid point in the box) *)
Theorem C02_union2_sem : forall (s0 : RObj2) (r : list RObj2) (o : RObj2), k_union2 MinDef (s0 :: r) = Some o ->
  forall p, let ops := map (opdata p) (s0 :: r) in
  Forall iv_ok ops -> Forall lower_ok ops -> Forall upper_ok ops ->
  ev2 o p = lmin (ev2 s0 p) (map (fun x => ev2 x p) r).
Proof. exact union2_sem. Qed.
(* any blend of the enum installed on a union only adds material: the fold lies below the list minimum *)
Theorem C02_union_blend_never_removes : forall (m : MinK ROps) (s0 : RObj3) (r : list RObj3) (o : RObj3),
  blend_ok m -> k_union3 m (s0 :: r) = Some o ->
  forall p, ev3 o p <= lmin (ev3 s0 p) (map (fun x => ev3 x p) r).
Proof. exact union3_blend_never_removes. Qed.
Theorem C02_union2_blend_never_removes : forall (m : MinK ROps) (s0 : RObj2) (r : list RObj2) (o : RObj2),
  blend_ok m -> min_is_blend m = true -> k_union2 m (s0 :: r) = Some o ->
  forall p, ev2 o p <= lmin (ev2 s0 p) (map (fun x => ev2 x p) r).
Proof. exact union2_blend_never_removes. Qed.

(* Array3D / Array2D: the fold from MaxFloat64 is the minimum over the grid of translates p - (j,k,l)*step *)
Theorem C02_array_sem : forall (s o : RObj3) nx ny nz step, k_array3 MinDef s nx ny nz step = Some o ->
  forall p, ev3 o p = lmin Rmaxfloat (map (ev3 s) (array3_points nx ny nz step p)).
Proof. exact array3_sem. Qed.
Theorem C02_array2_sem : forall (s o : RObj2) nx ny step, k_array2 MinDef s nx ny step = Some o ->
  forall p, ev2 o p = lmin Rmaxfloat (map (ev2 s) (array2_points nx ny step p)).
Proof. exact array2_sem. Qed.
(* the sentinel disappears as soon as the operand's value at p is at most MaxFloat64 *)
Theorem C02_array_is_grid_min : forall (s o : RObj3) nx ny nz step, k_array3 MinDef s nx ny nz step = Some o ->
  forall p, ev3 s p <= Rmaxfloat ->
  exists rest, array3_points nx ny nz step p = p :: rest /\ ev3 o p = lmin (ev3 s p) (map (ev3 s) rest).
Proof. exact array3_is_grid_min. Qed.

(* RotateUnion: the minimum over the operand at inverse(step)^i p, i = 0 .. num-1 ... *)
Theorem C02_rotateunion_sem : forall (s o : RObj3) num step, k_rotateunion3 MinDef s num step = Some o ->
  forall p, ev3 o p = lmin Rmaxfloat (map (fun i => ev3 s (mp44 (rpow44 (inv44 step) i) p)) (seq 0 (Z.to_nat num))).
Proof. exact rotateunion3_sem. Qed.
Theorem C02_rotateunion2_sem : forall (s o : RObj2) num step, k_rotateunion2 MinDef s num step = Some o ->
  forall p, ev2 o p = lmin Rmaxfloat (map (fun i => ev2 s (mp33 (rpow33 (inv33 step) i) p)) (seq 0 (Z.to_nat num))).
Proof. exact rotateunion2_sem. Qed.
(* ... i.e. copy i is the operand moved by step^i (copies at +i*step) *)
Theorem C02_rotateunion_copy : forall (s : RObj3) step i q, det44 step <> 0 -> affine44 step ->
  ev3 s (mp44 (rpow44 (inv44 step) i) (mp44 (rpow44 step i) q)) = ev3 s q.
Proof. exact rotateunion3_copy. Qed.
Theorem C02_rotateunion2_copy : forall (s : RObj2) step i q, det33 step <> 0 -> affine33 step ->
  ev2 s (mp33 (rpow33 (inv33 step) i) (mp33 (rpow33 step i) q)) = ev2 s q.
Proof. exact rotateunion2_copy. Qed.
Theorem C02_rotateunion_is_orbit_min : forall (s o : RObj3) num step, k_rotateunion3 MinDef s num step = Some o ->
  forall p, ev3 s p <= Rmaxfloat ->
  ev3 o p = lmin (ev3 s p) (map (fun i => ev3 s (mp44 (rpow44 (inv44 step) i) p)) (seq 1 (Z.to_nat num - 1))).
Proof. exact rotateunion3_is_orbit_min. Qed.

(* ================================================================== difference, intersection, cut, offset, shell, elongate *)
Theorem C02_difference_sem : forall (s0 s1 o : RObj3), k_difference3 MaxDef s0 s1 = Some o ->
  forall p, ev3 o p = Rmax (ev3 s0 p) (- ev3 s1 p).
Proof. exact difference3_sem. Qed.
Theorem C02_difference_keeps_a_removes_b : forall (s0 s1 o : RObj3), k_difference3 MaxDef s0 s1 = Some o ->
  forall p, ev3 o p < 0 <-> ev3 s0 p < 0 /\ 0 < ev3 s1 p.
Proof. exact difference3_keeps_a_removes_b. Qed.
Theorem C02_difference2_keeps_a_removes_b : forall (s0 s1 o : RObj2), k_difference2 MaxDef s0 s1 = Some o ->
  forall p, ev2 o p < 0 <-> ev2 s0 p < 0 /\ 0 < ev2 s1 p.
Proof. exact difference2_keeps_a_removes_b. Qed.
Theorem C02_intersect_sem : forall (s0 s1 o : RObj3), k_intersect3 MaxDef s0 s1 = Some o ->
  forall p, ev3 o p = Rmax (ev3 s0 p) (ev3 s1 p) /\ (ev3 o p < 0 <-> ev3 s0 p < 0 /\ ev3 s1 p < 0).
Proof. exact intersect3_sem. Qed.
Theorem C02_intersect2_sem : forall (s0 s1 o : RObj2), k_intersect2 MaxDef s0 s1 = Some o ->
  forall p, ev2 o p = Rmax (ev2 s0 p) (ev2 s1 p) /\ (ev2 o p < 0 <-> ev2 s0 p < 0 /\ ev2 s1 p < 0).
Proof. exact intersect2_sem. Qed.
Theorem C02_difference_blend_never_adds : forall (m : MaxK ROps) (s0 s1 o : RObj3),
  (match m with MaxPoly k => 0 < k | _ => True end) -> k_difference3 m s0 s1 = Some o ->
  forall p, Rmax (ev3 s0 p) (- ev3 s1 p) <= ev3 o p.
Proof. exact difference3_blend_never_adds. Qed.
Theorem C02_intersect_blend_never_adds : forall (m : MaxK ROps) (s0 s1 o : RObj3),
  (match m with MaxPoly k => 0 < k | _ => True end) -> k_intersect3 m s0 s1 = Some o ->
  forall p, Rmax (ev3 s0 p) (ev3 s1 p) <= ev3 o p.
Proof. exact intersect3_blend_never_adds. Qed.
(* Cut3D keeps the half-space the normal points into; Cut2D keeps the side to the right of a + t v *)
Theorem C02_cut_sem : forall (s o : RObj3) (a n : RV3), k_cut3 s a n = Some o -> len3 n <> 0 ->
  forall p, ev3 o p = Rmax (- (DenoteR.dot3 (sub3 p a) n / len3 n)) (ev3 s p) /\
            (ev3 o p < 0 <-> ev3 s p < 0 /\ 0 < DenoteR.dot3 (sub3 p a) n).
Proof. exact cut3_sem. Qed.
Theorem C02_cut2_sem : forall (s o : RObj2) (a v : RV2), k_cut2 s a v = Some o -> len2 v <> 0 ->
  forall p, let c := vx v * (vy p - vy a) - vy v * (vx p - vx a) in
            ev2 o p = Rmax (c / len2 v) (ev2 s p) /\ (ev2 o p < 0 <-> ev2 s p < 0 /\ c < 0).
Proof. exact cut2_sem. Qed.
Theorem C02_offset_sem : forall (s o : RObj3) d, k_offset3 s d = Some o -> forall p, ev3 o p = ev3 s p - d.
Proof. exact offset3_sem. Qed.
Theorem C02_offset2_sem : forall (s o : RObj2) d, k_offset2 s d = Some o -> forall p, ev2 o p = ev2 s p - d.
Proof. exact offset2_sem. Qed.
Theorem C02_shell_sem : forall (s o : RObj3) t, k_shell3 s t = Some o ->
  0 < t /\ forall p, ev3 o p = Rabs (ev3 s p) - t / 2 /\ (ev3 o p < 0 <-> - (t / 2) < ev3 s p < t / 2).
Proof. exact shell3_sem. Qed.
(* Elongate: p - clamp(p, -|h|/2, |h|/2), coordinate by coordinate *)
Theorem C02_elongate_sem : forall (s o : RObj3) (h : RV3), k_elongate3 s h = Some o ->
  forall p, ev3 o p = ev3 s (mkV3 (elong1 (Rabs (wx h)) (wx p)) (elong1 (Rabs (wy h)) (wy p)) (elong1 (Rabs (wz h)) (wz p))).
Proof. exact elongate3_sem. Qed.
Theorem C02_elongate2_sem : forall (s o : RObj2) (h : RV2), k_elongate2 s h = Some o ->
  forall p, ev2 o p = ev2 s (mkV2 (elong1 (Rabs (vx h)) (vx p)) (elong1 (Rabs (vy h)) (vy p))).
Proof. exact elongate2_sem. Qed.

(* ================================================================== SawTooth, RotateCopy *)
Theorem C02_sawtooth_range : forall x T, 0 < T -> - (T / 2) <= saw x T < T / 2.
Proof. exact sawtooth_range. Qed.
Theorem C02_sawtooth_periodic : forall x T (k : Z), T <> 0 -> saw (x + IZR k * T) T = saw x T.
Proof. exact sawtooth_periodic. Qed.
Theorem C02_sawtooth_congruent : forall x T, T <> 0 -> saw x T = x - T * Rfloor ((x + T / 2) / T).
Proof. exact sawtooth_congruent. Qed.
Theorem C02_sawtooth_id : forall x T, 0 < T -> - (T / 2) <= x < T / 2 -> saw x T = x.
Proof. exact sawtooth_id. Qed.
(* math.Atan2 in polar form, and existence of polar coordinates (what the cartesian statements rest on) *)
Theorem C02_atan2_polar : forall r phi, 0 < r -> - PI < phi <= PI -> Ratan2 (r * sin phi) (r * cos phi) = phi.
Proof. exact atan2_polar. Qed.
(* RotateCopy is invariant under the rotation by 2 PI / n about z -- cartesian form, all points *)
Theorem C02_rotatecopy_invariant : forall (s o : RObj3) n, k_rotatecopy3 s n = Some o ->
  forall p, ev3 o (mp44 (@mk_rotatez ROps (sector_angle n)) p) = ev3 o p.
Proof. exact rotatecopy3_invariant. Qed.
Theorem C02_rotatecopy2_invariant : forall (s o : RObj2) n, k_rotatecopy2 s n = Some o ->
  forall p, ev2 o (mp33 (@mk_rotate2d ROps (sector_angle n)) p) = ev2 o p.
Proof. exact rotatecopy2_invariant. Qed.
(* ... and equals the operand on the sector centred on +x *)
Theorem C02_rotatecopy_fundamental : forall (s o : RObj3) n, k_rotatecopy3 s n = Some o ->
  forall p : RV3, len2 (mkV2 (wx p) (wy p)) <> 0 ->
  - (PI / IZR n) <= Ratan2 (wy p) (wx p) < PI / IZR n -> ev3 o p = ev3 s p.
Proof. exact rotatecopy3_fundamental. Qed.
Theorem C02_rotatecopy2_fundamental : forall (s o : RObj2) n, k_rotatecopy2 s n = Some o ->
  forall p : RV2, len2 p <> 0 ->
  - (PI / IZR n) <= Ratan2 (vy p) (vx p) < PI / IZR n -> ev2 o p = ev2 s p.
Proof. exact rotatecopy2_fundamental. Qed.

(* ================================================================== Revolve *)
(* the angle used is theta0 reduced to [0, 2 PI) *)
Theorem C02_revolve_angle : forall theta0, 0 <= theta0 ->
  let theta := Rfmod (Rabs theta0) (@tau ROps) in
  0 <= theta < 2 * PI /\ exists k : Z, (0 <= k)%Z /\ theta0 = theta + IZR k * (2 * PI).
Proof. exact revolve_angle. Qed.
Theorem C02_revolve_full : forall (s : RObj2) (o : RObj3) theta0, k_revolve s theta0 = Some o ->
  Rfmod (Rabs theta0) (@tau ROps) = 0 ->
  forall p, ev3 o p = ev2 s (mkV2 (sqrt (wx p * wx p + wy p * wy p)) (wz p)).
Proof. exact revolve_full. Qed.
(* partial revolve (both wedge constructions, theta < PI and theta >= PI): inside iff the profile
   contains (rho, z) and the azimuth lies in (0, theta) *)
Theorem C02_revolve_sem : forall (s : RObj2) (o : RObj3) theta0, k_revolve s theta0 = Some o ->
  let theta := Rfmod (Rabs theta0) (@tau ROps) in theta <> 0 ->
  forall rho phi z, 0 < rho -> 0 <= phi < 2 * PI ->
  (ev3 o (mkV3 (rho * cos phi) (rho * sin phi) z) < 0 <-> ev2 s (mkV2 rho z) < 0 /\ 0 < phi < theta).
Proof. exact revolve_sector. Qed.

(* ================================================================== extrusions, loft, slice *)
Theorem C02_extrude_zrange : forall (s : RObj2) (o : RObj3) h tw sc,
  (k_extrude s h = Some o \/ k_twistextrude s h tw = Some o \/
   k_scaleextrude s h sc = Some o \/ k_scaletwistextrude s h tw sc = Some o) ->
  forall p, ev3 o p < 0 -> Rabs (wz p) < h / 2.
Proof. exact extrude_zrange. Qed.
Theorem C02_extrude_sem : forall (s : RObj2) (o : RObj3) h, k_extrude s h = Some o ->
  forall p, ev3 o p = Rmax (ev2 s (mkV2 (wx p) (wy p))) (Rabs (wz p) - h / 2).
Proof. exact extrude_sem. Qed.
(* the cross-section at height z is the profile turned by -z*twist/height *)
Theorem C02_twist_section : forall (s : RObj2) (o : RObj3) h tw, k_twistextrude s h tw = Some o ->
  forall (q : RV2) z,
  let q' := rot2 (- (z * (tw / h))) q in
  ev3 o (mkV3 (vx q') (vy q') z) = Rmax (ev2 s q) (Rabs z - h / 2).
Proof. exact twist_section. Qed.
Theorem C02_scale_section : forall (s : RObj2) (o : RObj3) h (sc : RV2), k_scaleextrude s h sc = Some o ->
  forall p, ev3 o p = Rmax (ev2 s (mkV2 (wx p * scale_lam h (vx sc) (wz p)) (wy p * scale_lam h (vy sc) (wz p))))
                           (Rabs (wz p) - h / 2).
Proof. exact scale_section. Qed.
Theorem C02_scale_lam_ends : forall h sc, h <> 0 -> sc <> 0 ->
  scale_lam h sc (- (h / 2)) = 1 /\ scale_lam h sc (h / 2) = 1 / sc /\
  forall z, scale_lam h sc z = 1 + (z / h + 1 / 2) * (1 / sc - 1).
Proof. exact scale_lam_ends. Qed.
Theorem C02_scale_section_faces : forall (s : RObj2) (o : RObj3) h (sc : RV2), k_scaleextrude s h sc = Some o ->
  0 < h -> vx sc <> 0 -> vy sc <> 0 -> forall q : RV2,
  ev3 o (mkV3 (vx q) (vy q) (- (h / 2))) = Rmax (ev2 s q) 0 /\
  ev3 o (mkV3 (vx sc * vx q) (vy sc * vy q) (h / 2)) = Rmax (ev2 s q) 0.
Proof. exact scale_section_faces. Qed.
Theorem C02_scaletwist_section : forall (s : RObj2) (o : RObj3) h tw (sc : RV2), k_scaletwistextrude s h tw sc = Some o ->
  forall p, ev3 o p =
    Rmax (ev2 s (rot2 (wz p * (tw / h))
                      (mkV2 (wx p * scale_lam h (vx sc) (wz p)) (wy p * scale_lam h (vy sc) (wz p)))))
         (Rabs (wz p) - h / 2).
Proof. exact scaletwist_section. Qed.
Theorem C02_rounded_combine_sem : forall a b r,
  @rounded_combine ROps a b r = sqrt (Rmax a 0 * Rmax a 0 + Rmax b 0 * Rmax b 0) + Rmin (Rmax a b) 0 - r.
Proof. exact rounded_combine_sem. Qed.
Theorem C02_extrude_rounded_sem : forall (s : RObj2) (o : RObj3) h r, k_extruderounded s h r = Some o -> r <> 0 ->
  0 < r /\ 2 * r <= h /\
  forall p, ev3 o p = @rounded_combine ROps (ev2 s (mkV2 (wx p) (wy p))) (Rabs (wz p) - (h / 2 - r)) r /\
            (ev3 o p < 0 -> Rabs (wz p) < h / 2).
Proof. exact extrude_rounded_sem. Qed.
Theorem C02_loft_sem : forall (s0 s1 : RObj2) (o : RObj3) h r, k_loft s0 s1 h r = Some o ->
  0 <= r /\ 2 * r <= h /\ 0 < h /\
  forall p, let sh := h / 2 - r in let k := loft_mix sh (wz p) in
    ev3 o p = @rounded_combine ROps (ev2 s0 (mkV2 (wx p) (wy p)) + k * (ev2 s1 (mkV2 (wx p) (wy p)) - ev2 s0 (mkV2 (wx p) (wy p))))
                                    (Rabs (wz p) - sh) r.
Proof. exact loft_sem. Qed.
(* mix factor 0 at the bottom of the straight part, 1 at its top, linear in between *)
Theorem C02_loft_mix_ends : forall sh z, 0 < sh ->
  (z <= - sh -> loft_mix sh z = 0) /\ (sh <= z -> loft_mix sh z = 1) /\
  (- sh <= z <= sh -> loft_mix sh z = (z + sh) / (2 * sh)).
Proof. exact loft_mix_ends. Qed.
Theorem C02_slice_sem : forall (s : RObj3) (o : RObj2) (a n : RV3), k_slice2 s a n = Some o ->
  forall p : RV2, ev2 o p = ev3 s (mkV3 (wx a + wx (slice_u n) * vx p + wx (slice_v n) * vy p)
                                       (wy a + wy (slice_u n) * vx p + wy (slice_v n) * vy p)
                                       (wz a + wz (slice_u n) * vx p + wz (slice_v n) * vy p)).
Proof. exact slice_sem. Qed.
Theorem C02_slice_axes_orthonormal : forall n : RV3, len3 n <> 0 ->
  DenoteR2.dot3 (slice_u n) (slice_u n) = 1 /\ DenoteR2.dot3 (slice_v n) (slice_v n) = 1 /\
  DenoteR2.dot3 (slice_u n) (slice_v n) = 0 /\
  DenoteR2.dot3 (slice_u n) n = 0 /\ DenoteR2.dot3 (slice_v n) n = 0.
Proof. exact slice_axes_orthonormal. Qed.

(* ================================================================== blends *)
Theorem C02_polymin_bounds : forall k a b, 0 < k -> Rmin a b - k / 4 <= polymin k a b <= Rmin a b.
Proof. exact polymin_bounds. Qed.
Theorem C02_polymin_le_min : forall k a b, 0 < k -> polymin k a b <= Rmin a b.
Proof. exact polymin_le_min. Qed.
Theorem C02_polymin_far : forall k a b, 0 < k -> k <= Rabs (a - b) -> polymin k a b = Rmin a b.
Proof. exact polymin_far. Qed.
Theorem C02_polymin_sym : forall k a b, 0 < k -> polymin k a b = polymin k b a.
Proof. exact polymin_sym. Qed.
Theorem C02_polymax_mirror : forall k a b, polymax k a b = - polymin k (- a) (- b).
Proof. exact polymax_mirror. Qed.
Theorem C02_polymax_bounds : forall k a b, 0 < k -> Rmax a b <= polymax k a b <= Rmax a b + k / 4.
Proof. exact polymax_bounds. Qed.
Theorem C02_polymax_far : forall k a b, 0 < k -> k <= Rabs (a - b) -> polymax k a b = Rmax a b.
Proof. exact polymax_far. Qed.
Theorem C02_polymax_sym : forall k a b, 0 < k -> polymax k a b = polymax k b a.
Proof. exact polymax_sym. Qed.
Theorem C02_roundmin_le_min : forall k a b, roundmin k a b <= Rmin a b.
Proof. exact roundmin_le_min. Qed.
Theorem C02_roundmin_sym : forall k a b, roundmin k a b = roundmin k b a.
Proof. exact roundmin_sym. Qed.
Theorem C02_roundmin_far : forall k a b, k <= a -> k <= b -> roundmin k a b = Rmin a b.
Proof. exact roundmin_far. Qed.
Theorem C02_chamfermin_le_min : forall k a b, chamfermin k a b <= Rmin a b.
Proof. exact chamfermin_le_min. Qed.
Theorem C02_chamfermin_sym : forall k a b, chamfermin k a b = chamfermin k b a.
Proof. exact chamfermin_sym. Qed.
Theorem C02_min_blend_never_removes : forall (m : MinK ROps) a b,
  (match m with MinPoly k => 0 < k | _ => True end) -> @min_apply ROps m a b <= Rmin a b.
Proof. exact min_blend_never_removes. Qed.
Theorem C02_min_blend_symmetric : forall (m : MinK ROps) a b,
  (match m with MinPoly k => 0 < k | _ => True end) -> @min_apply ROps m a b = @min_apply ROps m b a.
Proof. exact min_blend_symmetric. Qed.
Theorem C02_min_blend_inside : forall (m : MinK ROps) a b,
  (match m with MinPoly k => 0 < k | _ => True end) -> (a < 0 \/ b < 0) -> @min_apply ROps m a b < 0.
Proof. exact min_blend_inside. Qed.
(* ExpMin (exp / log over the reals) *)
Theorem C02_expmin_le_min : forall k a b, 0 < k -> expmin k a b <= Rmin a b.
Proof. exact expmin_le_min. Qed.
Theorem C02_expmin_bounds : forall k a b, 0 < k -> Rmin a b - ln 2 / k <= expmin k a b.
Proof. exact expmin_bounds. Qed.
Theorem C02_expmin_sym : forall k a b, expmin k a b = expmin k b a.
Proof. exact expmin_sym. Qed.
(* PowMin ("weird results" in the source) does remove material: two inside values give an outside one *)
Theorem C02_powmin_never_removes_refuted : exists a b, a < 0 /\ b < 0 /\ 0 < powmin2 a b.
Proof. exact powmin_removes_material_refuted. Qed.
Theorem C02_powmin_le_min_partial : forall a b, 0 < a -> 0 < b -> powmin2 a b <= Rmin a b.
Proof. exact powmin2_le_min_positive. Qed.

(* ================================================================== cache, voxel *)
(* every history of queries against a fresh CacheSDF2 returns the wrapped shape's own values
   (keys compared by an equality that implies Leibniz equality, as the bit-pattern keys do) *)
Theorem C02_cache_refines : forall (K V : Type) (keq : K -> K -> bool) (f : K -> V),
  (forall a b, keq a b = true -> a = b) ->
  forall qs : list K, snd (crun keq f cinit qs) = map f qs.
Proof. intros K V keq f H qs. exact (cache_refines keq f H qs). Qed.
Print Assumptions C02_cache_refines.
Theorem C02_cache_refines_from : forall (K V : Type) (keq : K -> K -> bool) (f : K -> V),
  (forall a b, keq a b = true -> a = b) ->
  forall st (qs : list K), consistent keq f st ->
  snd (crun keq f st qs) = map f qs /\ consistent keq f (fst (crun keq f st qs)).
Proof. intros K V keq f H st qs. exact (cache_refines_from keq f H st qs). Qed.
Print Assumptions C02_cache_refines_from.
Theorem C02_cache_counters : forall (K V : Type) (keq : K -> K -> bool) (f : K -> V) (qs : list K),
  let st := fst (crun keq f cinit qs) in
  creads st = N.of_nat (length qs) /\ (chits st + N.of_nat (length (cmap st)) = creads st)%N.
Proof. intros K V keq f qs. exact (cache_counters keq f qs). Qed.
Print Assumptions C02_cache_counters.

Theorem C02_voxel_at_corner : forall (m : @voxel ROps) (i : I3),
  lt3 (vmin m) (vmax m) -> pos3 (vnum m) -> nonneg3 i -> le_i3 i (vnum m) ->
  @voxel_eval ROps m (lattice_point m i) = vtab m i.
Proof. exact voxel_at_corner. Qed.
Theorem C02_voxel_in_range : forall (m : @voxel ROps) (p : RV3) lo hi,
  lt3 (vmin m) (vmax m) -> pos3 (vnum m) -> le3 (vmin m) p -> le3 p (vmax m) ->
  let s := fst (@voxel_locate ROps m p) in
  nonneg3 s /\
  ((forall k, In k (cell_corners s) -> lo <= vtab m k <= hi) -> lo <= @voxel_eval ROps m p <= hi).
Proof. exact voxel_in_range. Qed.
Theorem C02_voxel_outside : forall (m : @voxel ROps) (p : RV3),
  @box3_contains ROps (mkBox3 (vmin m) (vmax m)) p = false ->
  let q := @v3clamp ROps p (vmin m) (vmax m) in
  @voxel_eval ROps m p = @voxel_cell_eval ROps m q + dist3 p q.
Proof. exact voxel_outside. Qed.

(* assumptions of all theorems above (Print Assumptions of a tuple = union over its components;
   one command per theorem costs ~1 s each, so they are grouped) *)
Definition C02_group_0 := (C02_inverse_correct_44, C02_inverse_correct_33, C02_inverse_correct_22, C02_inverse_position_44, C02_inverse_position_33, C02_inverse_position_22, C02_transform_sem, C02_transform2_sem, C02_transform_preimage, C02_rotate3d_orthonormal, C02_rotate_xyz_orthonormal, C02_rotate_xyz_action, C02_mirrors3d, C02_mirrors2d, C02_rotate2d_orthonormal, C02_rotate_orthonormal, C02_scale_sem, C02_scale2_sem, C02_union_sem, C02_union_inside, C02_union2_sem, C02_union_blend_never_removes, C02_union2_blend_never_removes, C02_array_sem, C02_array2_sem, C02_array_is_grid_min, C02_rotateunion_sem, C02_rotateunion2_sem, C02_rotateunion_copy, C02_rotateunion2_copy).
Print Assumptions C02_group_0.
Definition C02_group_1 := (C02_rotateunion_is_orbit_min, C02_difference_sem, C02_difference_keeps_a_removes_b, C02_difference2_keeps_a_removes_b, C02_intersect_sem, C02_intersect2_sem, C02_difference_blend_never_adds, C02_intersect_blend_never_adds, C02_cut_sem, C02_cut2_sem, C02_offset_sem, C02_offset2_sem, C02_shell_sem, C02_elongate_sem, C02_elongate2_sem, C02_sawtooth_range, C02_sawtooth_periodic, C02_sawtooth_congruent, C02_sawtooth_id, C02_atan2_polar, C02_rotatecopy_invariant, C02_rotatecopy2_invariant, C02_rotatecopy_fundamental, C02_rotatecopy2_fundamental, C02_revolve_angle, C02_revolve_full, C02_revolve_sem, C02_extrude_zrange, C02_extrude_sem, C02_twist_section).
Print Assumptions C02_group_1.
Definition C02_group_2 := (C02_scale_section, C02_scale_lam_ends, C02_scale_section_faces, C02_scaletwist_section, C02_rounded_combine_sem, C02_extrude_rounded_sem, C02_loft_sem, C02_loft_mix_ends, C02_slice_sem, C02_slice_axes_orthonormal, C02_polymin_bounds, C02_polymin_le_min, C02_polymin_far, C02_polymin_sym, C02_polymax_mirror, C02_polymax_bounds, C02_polymax_far, C02_polymax_sym, C02_roundmin_le_min, C02_roundmin_sym, C02_roundmin_far, C02_chamfermin_le_min, C02_chamfermin_sym, C02_min_blend_never_removes, C02_min_blend_symmetric, C02_min_blend_inside, C02_expmin_le_min, C02_expmin_bounds, C02_expmin_sym, C02_powmin_never_removes_refuted).
Print Assumptions C02_group_2.
Definition C02_group_3 := (C02_powmin_le_min_partial, C02_cache_refines, C02_cache_refines_from, C02_cache_counters, C02_voxel_at_corner, C02_voxel_in_range, C02_voxel_outside).
Print Assumptions C02_group_3.

(* ================================================================== non-vacuity *)
(* a rotation about a skew axis composed with a translation meets the hypotheses of transform_sem *)
Example C02_hyp_transform :
  let m := mul44 (@mk_translate3d ROps (mkV3 1 2 3)) (@mk_rotatez ROps 1) in affine44 m.
Proof.
  cbv zeta. apply mul44_affine; [apply translate3d_det | apply (rotate_xyz_orthonormal 1)].
Qed.
Example C02_hyp_axis : len3 (mkV3 1 2 2 : RV3) <> 0.
Proof.
  unfold len3; cbn [wx wy wz]. replace (1 * 1 + 2 * 2 + 2 * 2) with (3 * 3) by ring.
  rewrite sqrt_square; lra.
Qed.
Example C02_hyp_real_keys : forall a b : R * R,
  (let '(x, y) := a in let '(u, v) := b in Reqb x u && Reqb y v)%bool = true -> a = b.
Proof.
  intros [x y] [u v] H. apply andb_prop in H. destruct H as [H1 H2].
  apply Reqb_true in H1, H2. subst. reflexivity.
Qed.
Example C02_hyp_voxel : lt3 (mkV3 0 0 0) (mkV3 4 2 1) /\ pos3 (4, 2, 1)%Z /\ nonneg3 (4, 0, 1)%Z /\ le_i3 (4, 0, 1)%Z (4, 2, 1)%Z.
Proof. unfold lt3, pos3, nonneg3, le_i3; cbn [wx wy wz]. repeat split; try lra; try reflexivity; discriminate. Qed.

(* ---- inventory of mutable state (DESIGN.md 2.3).  The models above are functions of their arguments; they are
   faithful only as long as the code keeps no state between calls beyond what they mention.  The package-level
   variables and struct fields in the scope of C02 (and which of them are written outside construction, from which
   entry points) are regenerated from the current source on every run (harness/stategen -> Generated/StateInv.v)
   and contain no state beyond the expected, reviewed inventory of Sys/StateInvSpec.v, where every piece of state
   that legitimately exists names the model component that accounts for it.  Breaks when a written package-level
   variable, a struct field, or a write of a field outside its constructor is added in scope (coqc then prints the
   differences); tolerates moved declarations, reordered fields, renamed locals, new helpers / constants / tables
   nothing writes. *)
From Sdfx Require Sys.StateInvSpec Sys.StateInvC02.
Theorem C02_state_inventory : Sdfx.Sys.StateInvSpec.state_ok_C02 = true.
Proof. exact Sdfx.Sys.StateInvC02.C02_state_inventory. Qed.
Print Assumptions C02_state_inventory.
