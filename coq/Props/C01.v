(* C01 - bounding boxes enclose the solid: theorems only.
   All statements are about the ROps (real number) instance of the model Sdf/Shape.v, whose
   k_xxx functions follow the Go constructors + Evaluate statement by statement.
     enc2/enc3 o   : the stored box is ordered and every point with a negative value lies in it.
     lbinf_* / lb2_*: outside the box the value is at least the max-norm / Euclidean distance to it
                     (the operand classes under which Offset/Shell/ExtrudeRounded/Loft keep their material
                     in the box; lb2 is contained in lbinf).
   `k_xxx args = Some o` carries the constructor's own parameter checks; hypotheses written out in a
   statement are exactly what the Go constructor does not check itself. *)
From Coq Require Import Reals List ZArith.
(* the hand-written model functions are equal to the terms translated from the current Go source *)
From Sdfx Require Sdf.GenEq.
From Sdfx Require Import Num.Ops Num.RInst Geo.Vec Geo.Box Geo.BoxR Geo.Mat Sdf.Shape Sdf.ShapeR
  Sdf.EncloseR Sdf.EncloseComb Sdf.EncloseXform Sdf.EncloseExtr Sdf.EncloseRev Sdf.EncloseRot
  Sdf.EncloseSlice Sdf.EncloseCone Sdf.EncloseRigid Sdf.EncloseBox Sdf.EncloseAll Sdf.EncloseEx.
Import ListNotations.
Open Scope R_scope.

(* ============================================================ primitives *)
Theorem C01_circle : forall r o, @k_circle ROps r = Some o -> lb2_2 o.
Proof. exact circle_lb2. Qed.
Print Assumptions C01_circle.
Theorem C01_circle_encloses : forall r o, @k_circle ROps r = Some o -> enc2 o.
Proof. exact circle_enc. Qed.
Print Assumptions C01_circle_encloses.

(* Box2D does not validate: the box is ordered iff size >= 0; any rounding (even > size/2) *)
Theorem C01_box2 : forall size round o, 0 <= vx size -> 0 <= vy size ->
  @k_box2 ROps size round = Some o -> lbinf_2 o.
Proof. exact box2_lbinf. Qed.
Print Assumptions C01_box2.
Theorem C01_box2_encloses : forall size round o, 0 <= vx size -> 0 <= vy size ->
  @k_box2 ROps size round = Some o -> enc2 o.
Proof. exact box2_enc. Qed.
Print Assumptions C01_box2_encloses.

(* with round >= 0 the (rounded) box is even in the Euclidean class *)
Theorem C01_box2_lb2 : forall size round o, 0 <= vx size -> 0 <= vy size -> 0 <= round ->
  @k_box2 ROps size round = Some o -> lb2_2 o.
Proof. exact box2_lb2. Qed.
Print Assumptions C01_box2_lb2.

Theorem C01_line2 : forall l round o, 0 <= l -> 0 <= round -> @k_line2 ROps l round = Some o -> lbinf_2 o.
Proof. exact line2_lbinf. Qed.
Print Assumptions C01_line2.
Theorem C01_line2_encloses : forall l round o, 0 <= l -> 0 <= round -> @k_line2 ROps l round = Some o -> enc2 o.
Proof. exact line2_enc. Qed.
Print Assumptions C01_line2_encloses.

Theorem C01_sphere : forall r o, @k_sphere ROps r = Some o -> lb2_3 o.
Proof. exact sphere_lb2. Qed.
Print Assumptions C01_sphere.
Theorem C01_sphere_encloses : forall r o, @k_sphere ROps r = Some o -> enc3 o.
Proof. exact sphere_enc. Qed.
Print Assumptions C01_sphere_encloses.

Theorem C01_box3 : forall size round o, @k_box3 ROps size round = Some o -> lbinf_3 o.
Proof. exact box3_lbinf. Qed.
Print Assumptions C01_box3.
Theorem C01_box3_encloses : forall size round o, @k_box3 ROps size round = Some o -> enc3 o.
Proof. exact box3_enc. Qed.
Print Assumptions C01_box3_encloses.

Theorem C01_box3_lb2 : forall size round o, @k_box3 ROps size round = Some o -> lb2_3 o.
Proof. exact box3_lb2. Qed.
Print Assumptions C01_box3_lb2.

(* cylinder and capsule (round = radius) *)
Theorem C01_cylinder_lb2 : forall h r round o, @k_cylinder ROps h r round = Some o -> lb2_3 o.
Proof. exact cylinder_lb2. Qed.
Print Assumptions C01_cylinder_lb2.
Theorem C01_cylinder : forall h r round o, @k_cylinder ROps h r round = Some o -> lbinf_3 o.
Proof. exact cylinder_lbinf. Qed.
Print Assumptions C01_cylinder.
Theorem C01_cylinder_encloses : forall h r round o, @k_cylinder ROps h r round = Some o -> enc3 o.
Proof. exact cylinder_enc. Qed.
Print Assumptions C01_cylinder_encloses.

(* truncated cone, r0 < r1 and r0 > r1, with rounding; Cone3D does not validate the radii *)
Theorem C01_cone_encloses : forall h r0 r1 round o, 0 <= r0 -> 0 <= r1 ->
  @k_cone ROps h r0 r1 round = Some o -> enc3 o.
Proof. exact cone_enc. Qed.
Print Assumptions C01_cone_encloses.
Theorem C01_cone : forall h r0 r1 round o, 0 <= r0 -> 0 <= r1 -> @k_cone ROps h r0 r1 round = Some o -> lbinf_3 o.
Proof. exact cone_lbinf. Qed.
Print Assumptions C01_cone.

(* ============================================================ set combinators *)
(* the material-removing blend PolyMax(k), k > 0, never goes below the maximum *)
Theorem C01_polymax_ge_max : forall m (a b : R), max_ok m -> Rmax a b <= @max_apply ROps m a b.
Proof. exact max_apply_ge. Qed.
Print Assumptions C01_polymax_ge_max.

Theorem C01_union2_encloses : forall l o, (forall x, In x l -> enc2 x) -> @k_union2 ROps MinDef l = Some o -> enc2 o.
Proof. exact union2_enc. Qed.
Print Assumptions C01_union2_encloses.
Theorem C01_union3_encloses : forall l o, (forall x, In x l -> enc3 x) -> @k_union3 ROps MinDef l = Some o -> enc3 o.
Proof. exact union3_enc. Qed.
Print Assumptions C01_union3_encloses.
Theorem C01_intersect2_encloses : forall m s0 s1 o, max_ok m -> @k_intersect2 ROps m s0 s1 = Some o -> enc2 s0 -> enc2 o.
Proof. exact intersect2_enc. Qed.
Print Assumptions C01_intersect2_encloses.
Theorem C01_intersect3_encloses : forall m s0 s1 o, max_ok m -> @k_intersect3 ROps m s0 s1 = Some o -> enc3 s0 -> enc3 o.
Proof. exact intersect3_enc. Qed.
Print Assumptions C01_intersect3_encloses.
Theorem C01_difference2_encloses : forall m s0 s1 o, max_ok m -> @k_difference2 ROps m s0 s1 = Some o -> enc2 s0 -> enc2 o.
Proof. exact difference2_enc. Qed.
Print Assumptions C01_difference2_encloses.
Theorem C01_difference3_encloses : forall m s0 s1 o, max_ok m -> @k_difference3 ROps m s0 s1 = Some o -> enc3 s0 -> enc3 o.
Proof. exact difference3_enc. Qed.
Print Assumptions C01_difference3_encloses.
(* Cut2D/Cut3D: any vector, the zero vector included *)
Theorem C01_cut2_encloses : forall s a v o, @k_cut2 ROps s a v = Some o -> enc2 s -> enc2 o.
Proof. exact cut2_enc. Qed.
Print Assumptions C01_cut2_encloses.
Theorem C01_cut3_encloses : forall s a n o, @k_cut3 ROps s a n = Some o -> enc3 s -> enc3 o.
Proof. exact cut3_enc. Qed.
Print Assumptions C01_cut3_encloses.
(* arrays: all counts, steps of either sign *)
Theorem C01_array2_encloses : forall s nx ny step o, @k_array2 ROps MinDef s nx ny step = Some o -> enc2 s -> enc2 o.
Proof. exact array2_enc. Qed.
Print Assumptions C01_array2_encloses.
Theorem C01_array3_encloses : forall s nx ny nz step o, @k_array3 ROps MinDef s nx ny nz step = Some o -> enc3 s -> enc3 o.
Proof. exact array3_enc. Qed.
Print Assumptions C01_array3_encloses.
Theorem C01_elongate2_encloses : forall s h o, @k_elongate2 ROps s h = Some o -> enc2 s -> enc2 o.
Proof. exact elongate2_enc. Qed.
Print Assumptions C01_elongate2_encloses.
Theorem C01_elongate3_encloses : forall s h o, @k_elongate3 ROps s h = Some o -> enc3 s -> enc3 o.
Proof. exact elongate3_enc. Qed.
Print Assumptions C01_elongate3_encloses.
(* ScaleUniform: k > 0 (k < 0 is refuted below) *)
Theorem C01_scaleuniform2_encloses : forall s k o, 0 < k -> @k_scaleuniform2 ROps s k = Some o -> enc2 s -> enc2 o.
Proof. exact scaleuniform2_enc. Qed.
Print Assumptions C01_scaleuniform2_encloses.
Theorem C01_scaleuniform3_encloses : forall s k o, 0 < k -> @k_scaleuniform3 ROps s k = Some o -> enc3 s -> enc3 o.
Proof. exact scaleuniform3_enc. Qed.
Print Assumptions C01_scaleuniform3_encloses.
(* Offset / Shell: offset >= 0, operand in class lbinf; the result is again in lbinf *)
Theorem C01_offset2 : forall s off o, 0 <= off -> @k_offset2 ROps s off = Some o -> lbinf_2 s -> lbinf_2 o.
Proof. exact offset2_lbinf. Qed.
Print Assumptions C01_offset2.
Theorem C01_offset3 : forall s off o, 0 <= off -> @k_offset3 ROps s off = Some o -> lbinf_3 s -> lbinf_3 o.
Proof. exact offset3_lbinf. Qed.
Print Assumptions C01_offset3.
Theorem C01_shell3 : forall s th o, @k_shell3 ROps s th = Some o -> lbinf_3 s -> lbinf_3 o.
Proof. exact shell3_lbinf. Qed.
Print Assumptions C01_shell3.
Theorem C01_lbinf_encloses : forall o, lbinf_3 o -> enc3 o.
Proof. exact lbinf3_enc. Qed.
Print Assumptions C01_lbinf_encloses.
Theorem C01_lb2_in_lbinf : forall o, lb2_3 o -> lbinf_3 o.
Proof. exact lb2_lbinf3. Qed.
Print Assumptions C01_lb2_in_lbinf.

(* ============================================================ transforms *)
Theorem C01_inverse33_correct : forall m p, affine33 m -> @m33_determinant ROps m <> 0 ->
  @m33_mulposition ROps (@m33_inverse ROps m) (@m33_mulposition ROps m p) = p.
Proof. exact inverse33_correct. Qed.
Print Assumptions C01_inverse33_correct.
Theorem C01_inverse44_correct : forall m p, affine44 m -> @m44_determinant ROps m <> 0 ->
  @m44_mulposition ROps (@m44_inverse ROps m) (@m44_mulposition ROps m p) = p.
Proof. exact inverse44_correct. Qed.
Print Assumptions C01_inverse44_correct.
Theorem C01_inverse44_correct_r : forall m p, affine44 m -> @m44_determinant ROps m <> 0 ->
  @m44_mulposition ROps m (@m44_mulposition ROps (@m44_inverse ROps m) p) = p.
Proof. exact inverse44_correct_r. Qed.
Print Assumptions C01_inverse44_correct_r.
Theorem C01_mulbox33_hull : forall m b q, in_box2 b q -> in_box2 (m33_mulbox m b) (@m33_mulposition ROps m q).
Proof. exact mulbox33_hull. Qed.
Print Assumptions C01_mulbox33_hull.
Theorem C01_mulbox44_hull : forall m b q, in_box3 b q -> in_box3 (m44_mulbox m b) (@m44_mulposition ROps m q).
Proof. exact mulbox44_hull. Qed.
Print Assumptions C01_mulbox44_hull.
(* any matrix with last row (0,0,1) / (0,0,0,1) and non-zero determinant (neither is checked by Go) *)
Theorem C01_transform2_encloses : forall s m o, affine33 m -> @m33_determinant ROps m <> 0 ->
  @k_transform2 ROps s m = Some o -> enc2 s -> enc2 o.
Proof. exact transform2_enc. Qed.
Print Assumptions C01_transform2_encloses.
Theorem C01_transform3_encloses : forall s m o, affine44 m -> @m44_determinant ROps m <> 0 ->
  @k_transform3 ROps s m = Some o -> enc3 s -> enc3 o.
Proof. exact transform3_enc. Qed.
Print Assumptions C01_transform3_encloses.
(* rigid motions keep the Euclidean class *)
Theorem C01_transform2_rigid_lb2 : forall s m o, rigid33 m -> @k_transform2 ROps s m = Some o -> lb2_2 s -> lb2_2 o.
Proof. exact transform2_rigid_lb2. Qed.
Print Assumptions C01_transform2_rigid_lb2.
Theorem C01_transform3_rigid_lb2 : forall s m o, rigid44 m -> @k_transform3 ROps s m = Some o -> lb2_3 s -> lb2_3 o.
Proof. exact transform3_rigid_lb2. Qed.
Print Assumptions C01_transform3_rigid_lb2.

(* ============================================================ 2D -> 3D *)
(* full revolution and every partial revolution (all quadrant sets selected by theta) *)
Theorem C01_revolve_encloses : forall s theta o, @k_revolve ROps s theta = Some o -> enc2 s -> enc3 o.
Proof. exact revolve_enc. Qed.
Print Assumptions C01_revolve_encloses.
(* full revolutions (theta = 0 mod 2 pi, i.e. Revolve3D) keep the class lbinf *)
Theorem C01_revolve_full_lbinf : forall s theta o, Rfmod (Rabs theta) (@tau ROps) = 0 ->
  @k_revolve ROps s theta = Some o -> lbinf_2 s -> lbinf_3 o.
Proof. exact revolve_full_lbinf. Qed.
Print Assumptions C01_revolve_full_lbinf.
Theorem C01_extrude_encloses : forall s h o, 0 <= h -> @k_extrude ROps s h = Some o -> enc2 s -> enc3 o.
Proof. exact extrude_enc. Qed.
Print Assumptions C01_extrude_encloses.
Theorem C01_extrude_lbinf : forall s h o, 0 <= h -> @k_extrude ROps s h = Some o -> lbinf_2 s -> lbinf_3 o.
Proof. exact extrude_lbinf. Qed.
Print Assumptions C01_extrude_lbinf.
Theorem C01_twistextrude_encloses : forall s h tw o, 0 <= h -> @k_twistextrude ROps s h tw = Some o -> enc2 s -> enc3 o.
Proof. exact twistextrude_enc. Qed.
Print Assumptions C01_twistextrude_encloses.
Theorem C01_scaleextrude_encloses : forall s h sc o, 0 < h -> 0 < vx sc -> 0 < vy sc ->
  @k_scaleextrude ROps s h sc = Some o -> enc2 s -> enc3 o.
Proof. exact scaleextrude_enc. Qed.
Print Assumptions C01_scaleextrude_encloses.
Theorem C01_scaletwistextrude_encloses : forall s h tw sc o, 0 < h -> 0 < vx sc -> 0 < vy sc ->
  @k_scaletwistextrude ROps s h tw sc = Some o -> enc2 s -> enc3 o.
Proof. exact scaletwistextrude_enc. Qed.
Print Assumptions C01_scaletwistextrude_encloses.
Theorem C01_extruderounded : forall s h round o, 0 <= h -> @k_extruderounded ROps s h round = Some o -> lbinf_2 s -> lbinf_3 o.
Proof. exact extruderounded_lbinf. Qed.
Print Assumptions C01_extruderounded.
Theorem C01_loft : forall s0 s1 h round o, @k_loft ROps s0 s1 h round = Some o -> lbinf_2 s0 -> lbinf_2 s1 -> lbinf_3 o.
Proof. exact loft_lbinf. Qed.
Print Assumptions C01_loft.
Theorem C01_loft_unrounded_encloses : forall s0 s1 h o, @k_loft ROps s0 s1 h 0 = Some o -> enc2 s0 -> enc2 s1 -> enc3 o.
Proof. exact loft0_enc. Qed.
Print Assumptions C01_loft_unrounded_encloses.

(* ============================================================ rotations, slices *)
Theorem C01_rotatecopy2_encloses : forall s n o, @k_rotatecopy2 ROps s n = Some o -> enc2 s -> enc2 o.
Proof. exact rotatecopy2_enc. Qed.
Print Assumptions C01_rotatecopy2_encloses.
Theorem C01_rotatecopy3_encloses : forall s n o, @k_rotatecopy3 ROps s n = Some o -> enc3 s -> enc3 o.
Proof. exact rotatecopy3_enc. Qed.
Print Assumptions C01_rotatecopy3_encloses.
(* any copy count, any affine step matrix with non-zero determinant *)
Theorem C01_rotateunion2_encloses : forall s num step o, affine33 step -> @m33_determinant ROps step <> 0 ->
  @k_rotateunion2 ROps MinDef s num step = Some o -> enc2 s -> enc2 o.
Proof. exact rotateunion2_enc. Qed.
Print Assumptions C01_rotateunion2_encloses.
Theorem C01_rotateunion3_encloses : forall s num step o, affine44 step -> @m44_determinant ROps step <> 0 ->
  @k_rotateunion3 ROps MinDef s num step = Some o -> enc3 s -> enc3 o.
Proof. exact rotateunion3_enc. Qed.
Print Assumptions C01_rotateunion3_encloses.
(* Slice2D: every normal n <> 0 (all four branches for the in-plane axes) *)
Theorem C01_slice2_encloses : forall s a n o, 0 < dot3 n n -> @k_slice2 ROps s a n = Some o -> enc3 s -> enc2 o.
Proof. exact slice2_enc. Qed.
Print Assumptions C01_slice2_encloses.

(* ============================================================ all compositions *)
(* wf2/wf3 (Sdf/EncloseAll.v) collect exactly the side conditions of the lemmas above; for
   Offset/Shell/ExtrudeRounded/Loft(round > 0) the operand must be in one of the syntactic classes
   cinf (LbInf) / cl2 (Lb2).  Blend unions (PolyMin etc.) are not well-formed: they add material. *)
Theorem C01_all_compositions : forall s o, wf3 s -> @build3 ROps s = Some o -> enc3 o.
Proof. exact all_compositions3. Qed.
Print Assumptions C01_all_compositions.
Theorem C01_all_compositions_2d : forall s o, wf2 s -> @build2 ROps s = Some o -> enc2 o.
Proof. exact all_compositions2. Qed.
Print Assumptions C01_all_compositions_2d.
Theorem C01_all_compositions_lbinf : forall s o, wf3 s -> cinf3 s \/ cl2_3 s -> @build3 ROps s = Some o -> lbinf_3 o.
Proof. exact all_compositions3_lbinf. Qed.
Print Assumptions C01_all_compositions_lbinf.
Theorem C01_all_compositions_lb2 : forall s o, wf3 s -> cl2_3 s -> @build3 ROps s = Some o -> lb2_3 o.
Proof. exact all_compositions3_lb2. Qed.
Print Assumptions C01_all_compositions_lb2.

(* ============================================================ refutations: wf cannot be dropped *)
(* Offset3D over a rotated plain extrusion (well-formed, but outside both classes):
   a point with negative value outside the (ordered) box *)
Theorem C01_offset_outside_class_refuted :
  exists s off o p, wf3 s /\ 0 <= off /\ @build3 ROps (Offset3 s off) = Some o /\
                    ordered3 (bb3 o) /\ ev3 o p < 0 /\ ~ in_box3 (bb3 o) p.
Proof. exact offset_outside_class_refuted. Qed.
Print Assumptions C01_offset_outside_class_refuted.
Theorem C01_offset_witness_outside_classes : wf3 rot_extrusion /\ ~ (cinf3 rot_extrusion \/ cl2_3 rot_extrusion).
Proof. exact (conj rot_extrusion_wf rot_extrusion_outside). Qed.
Print Assumptions C01_offset_witness_outside_classes.
(* ScaleUniform3D(Sphere(1), -1): the value is multiplied by k < 0, the solid is turned inside out *)
Theorem C01_scaleuniform_negative_refuted :
  exists o p, @build3 ROps (ScaleUniform3 (Sphere 1) (- (1))) = Some o /\
              ordered3 (bb3 o) /\ ev3 o p < 0 /\ ~ in_box3 (bb3 o) p.
Proof. exact scaleuniform_negative_refuted. Qed.
Print Assumptions C01_scaleuniform_negative_refuted.
(* a negative offset over a non-isometric transform of a sphere: enclosure of the operand is not enough *)
Theorem C01_offset_negative_refuted :
  exists s o p, wf3 s /\ @build3 ROps (Offset3 s (- (1 / 4))) = Some o /\
                ordered3 (bb3 o) /\ ev3 o p < 0 /\ ~ in_box3 (bb3 o) p.
Proof. exact offset_negative_refuted. Qed.
Print Assumptions C01_offset_negative_refuted.

(* ============================================================ the hypotheses are satisfiable *)
Example C01_ex_plate : wf3 ex_plate /\ (exists o, @build3 ROps ex_plate = Some o) /\
  forall o, @build3 ROps ex_plate = Some o -> enc3 o.
Proof. exact (conj ex_plate_wf (conj ex_plate_builds ex_plate_enclosed)). Qed.
(* a rotated rounded box and a rotated cylinder are in Lb2: their union may be offset and shelled *)
Example C01_ex_rotated_box : wf3 ex_rotated_box /\ forall o, @build3 ROps ex_rotated_box = Some o -> enc3 o.
Proof. exact (conj ex_rotated_box_wf ex_rotated_box_enclosed). Qed.
(* offset of a torus (Revolve with theta = 0) intersected with a rounded cone *)
Example C01_ex_torus : wf3 ex_torus /\ forall o, @build3 ROps ex_torus = Some o -> enc3 o.
Proof. exact (conj ex_torus_wf ex_torus_enclosed). Qed.
Example C01_ex_ring : wf3 ex_ring /\ forall o, @build3 ROps ex_ring = Some o -> enc3 o.
Proof. exact (conj ex_ring_wf ex_ring_enclosed). Qed.
Example C01_ex_twisted_slice : wf3 ex_twisted_slice /\ forall o, @build3 ROps ex_twisted_slice = Some o -> enc3 o.
Proof. exact (conj ex_twisted_slice_wf ex_twisted_slice_enclosed). Qed.

(* ============================================================ reified library objects
   Per-object certificates (DESIGN.md 2.2).  The hook sdf.VerifDumpTree2/3 reads any Go shape back
   into a tree of Sdf/Reify.v (RShape2/RShape3: the 38 constructors above, the polygon-mesh leaf
   RMesh2 = MeshSDF2 over its quadtree pieces, Cache2D, Screw3D, and opaque leaves for Go types without a
   model); the run prints it over exact rationals, replays it at primitive floats against the
   object's own BoundingBox()/Evaluate(), and evaluates the boolean checker wfb2/wfb3 on it.
   The theorems below make `wfb3 t = true` a proof about the real-number object denoted by t. *)
From Coq Require Import QArith.
From Sdfx Require Import Num.QInst Sdf.Poly Sdf.PolyR Sdf.Reify Sdf.ReifyR Sdf.ReifyCheck Sdf.ReifyBuild Sdf.ReifyEx.
Open Scope R_scope.

(* a polygon mesh: box ordered, every segment end point in the box, every start point an end point
   (with multiplicity: closed chains) - then the crossing number is 0 at every point outside the box *)
Theorem C01_mesh2_encloses : forall (segs : list (Seg ROps)) (bb : Box2 ROps) o,
  mesh_ok segs bb -> @k_mesh2 ROps segs bb = Some o -> enc2 o.
Proof. exact mesh2_enc. Qed.
Print Assumptions C01_mesh2_encloses.
(* Offset2D directly over a mesh (obj.Hex2D): non-degenerate segments, 0 <= offset, offset^2 < MaxFloat64 *)
Theorem C01_mesh_offset2_encloses : forall (segs : list (Seg ROps)) (bb : Box2 ROps) off o1 o,
  mesh_ok segs bb -> Forall nondeg segs -> 0 <= off -> off * off < Rmaxfloat ->
  @k_mesh2 ROps segs bb = Some o1 -> @k_offset2 ROps o1 off = Some o -> enc2 o.
Proof. exact mesh_offset2_enc. Qed.
Print Assumptions C01_mesh_offset2_encloses.

(* Screw3D (bolts, nuts, threaded parts): any thread profile that is enclosed by its box and whose box
   top (the screw radius) is >= 0; every taper in [0, pi/2), any pitch, starts of either hand *)
Theorem C01_screw_encloses : forall (th : Obj2 ROps) length taper pitch starts o,
  enc2 th -> 0 <= vy (b2max (bb2 th)) -> @k_screw ROps th length taper pitch starts = Some o -> enc3 o.
Proof. exact screw_enc. Qed.
Print Assumptions C01_screw_encloses.

(* all compositions over the extended trees, relative to the opaque leaves (leaves2/leaves3: each
   opaque leaf in a material-carrying position is negative only inside its own box) *)
Theorem C01_reified_compositions : forall (E : Env ROps) (s : RShape3 ROps) o,
  rwf3 s -> leaves3 E s -> interp3 E s = Some o -> enc3 o.
Proof. exact reified_compositions3. Qed.
Print Assumptions C01_reified_compositions.
Theorem C01_reified_compositions_2d : forall (E : Env ROps) (s : RShape2 ROps) o,
  rwf2 s -> leaves2 E s -> interp2 E s = Some o -> enc2 o.
Proof. exact reified_compositions2. Qed.
Print Assumptions C01_reified_compositions_2d.

(* soundness of the checker that runs at exact rationals: every side condition it accepts holds for
   the parameters injected into R (determinants, exact translations / orthonormal matrices, closed
   chains of mesh segments by multiset equality of start and end points, ...) *)
Theorem C01_wf_check_sound : forall t : RShape3 QOps, wfb3 t = true -> rwf3 (inj3 t).
Proof. exact wfb3_sound. Qed.
Print Assumptions C01_wf_check_sound.
Theorem C01_wf_check_sound_2d : forall t : RShape2 QOps, wfb2 t = true -> rwf2 (inj2 t).
Proof. exact wfb2_sound. Qed.
Print Assumptions C01_wf_check_sound_2d.

(* the certificate: checker verdict true => the box of the denoted object contains every point of
   space with a negative value (relative to the leaf hypothesis; unconditionally without opaque leaves) *)
Theorem C01_reified_certificate3 : forall t : RShape3 QOps, wfb3 t = true ->
  forall (E : Env ROps) o, leaves3 E (inj3 t) -> interp3 E (inj3 t) = Some o -> enc3 o.
Proof. exact reified_certificate3. Qed.
Print Assumptions C01_reified_certificate3.
Theorem C01_reified_certificate2 : forall t : RShape2 QOps, wfb2 t = true ->
  forall (E : Env ROps) o, leaves2 E (inj2 t) -> interp2 E (inj2 t) = Some o -> enc2 o.
Proof. exact reified_certificate2. Qed.
Print Assumptions C01_reified_certificate2.
Theorem C01_reified_certificate3_closed : forall t : RShape3 QOps, wfb3 t = true -> opaque_free3 t = true ->
  forall (E : Env ROps) o, interp3 E (inj3 t) = Some o -> enc3 o.
Proof. exact reified_certificate3_closed. Qed.
Print Assumptions C01_reified_certificate3_closed.
Theorem C01_reified_certificate2_closed : forall t : RShape2 QOps, wfb2 t = true -> opaque_free2 t = true ->
  forall (E : Env ROps) o, interp2 E (inj2 t) = Some o -> enc2 o.
Proof. exact reified_certificate2_closed. Qed.
Print Assumptions C01_reified_certificate2_closed.

(* non-vacuity: the constructors' own argument checks evaluated on the dumped rationals (buildsb) imply
   that the tree builds over the reals, so the certificate comes with its witness *)
Theorem C01_reified_builds : forall (E : Env ROps) (t : RShape3 QOps), buildsb3 t = true ->
  exists o, interp3 E (inj3 t) = Some o.
Proof. exact builds3. Qed.
Print Assumptions C01_reified_builds.
Theorem C01_reified_certificate3_total : forall t : RShape3 QOps,
  wfb3 t = true -> buildsb3 t = true -> opaque_free3 t = true ->
  forall E : Env ROps, exists o, interp3 E (inj3 t) = Some o /\ enc3 o.
Proof. exact reified_certificate3_total. Qed.
Print Assumptions C01_reified_certificate3_total.
Theorem C01_reified_certificate2_total : forall t : RShape2 QOps,
  wfb2 t = true -> buildsb2 t = true -> opaque_free2 t = true ->
  forall E : Env ROps, exists o, interp2 E (inj2 t) = Some o /\ enc2 o.
Proof. exact reified_certificate2_total. Qed.
Print Assumptions C01_reified_certificate2_total.

(* the hypotheses are satisfiable: an offset polygon mesh, extruded and translated, minus an
   unmodelled shape, is accepted by the checker, builds, and is enclosed *)
Example C01_ex_reified : wfb3 ex_part = true /\ (forall E, exists o, interp3 E (inj3 ex_part) = Some o) /\
  forall E o, interp3 E (inj3 ex_part) = Some o -> enc3 o.
Proof. exact (conj ex_part_wf (conj ex_part_builds ex_part_enclosed)). Qed.

(* ============================================================ primitives outside sdf2.go / sdf3.go
   (sdf/cams.go, sdf/flange.go, sdf/spiral.go, sdf/rack.go; model Sdf/Prim2X.v, proofs Sdf/Prim2XR.v).
   The hand-written model functions are equal to the terms translated from the current Go source
   (Sdf/GenEqX.v: FlatFlankCam2D, MakeFlatFlankCam, NewFlange1, ThreeArcCam2D, their Evaluate methods,
   GearRackSDF2.Evaluate, polarDist2); ArcSpiral2D is tied by differential execution.  The hypotheses
   written out are exactly what the Go constructors do not check themselves. *)
From Coq Require Import Qreals.
From Sdfx Require Sdf.GenEqX.
From Sdfx Require Import Sdf.Prim2X Sdf.Prim2XR.

(* FlatFlankCam2D validates nothing.  Either circle may be the larger one (box repaired by c241c7a);
   the circles must not be nested, otherwise there is no tangent flank (sin >= 1, cos = NaN) *)
Theorem C01_flatflankcam_encloses : forall distance baseRadius noseRadius o,
  0 < distance -> 0 <= baseRadius -> 0 <= noseRadius -> Rabs (baseRadius - noseRadius) < distance ->
  @k_flatflankcam ROps distance baseRadius noseRadius = Some o -> enc2 o.
Proof. exact flatflankcam_enc. Qed.
Print Assumptions C01_flatflankcam_encloses.
(* MakeFlatFlankCam checks its design parameters: no hypothesis at all *)
Theorem C01_makeflatflankcam_encloses : forall lift duration maxDiameter o,
  @k_makeflatflankcam ROps lift duration maxDiameter = Some o -> enc2 o.
Proof. exact makeflatflankcam_enc. Qed.
Print Assumptions C01_makeflatflankcam_encloses.
(* NewFlange1 validates nothing; box repaired by 9483321 *)
Theorem C01_flange1_encloses : forall distance centerRadius sideRadius o,
  0 < distance -> 0 <= centerRadius -> 0 <= sideRadius -> Rabs (centerRadius - sideRadius) < distance ->
  @k_flange1 ROps distance centerRadius sideRadius = Some o -> enc2 o.
Proof. exact flange1_enc. Qed.
Print Assumptions C01_flange1_encloses.
(* ThreeArcCam2D checks flankRadius >= (baseRadius + distance + noseRadius) / 2 only; missing: circles that are not
   nested (otherwise the flank centre is the square root of a negative number).  Every accepted flank radius:
   above the minimum the flank arc is compared through cross products (all directions have a positive x
   component), at the minimum the flank centre is on the axis and the cam is the flank circle.  About the
   repaired box (6b60422: the flank arc may bulge beyond both circles) *)
Theorem C01_threearccam_encloses : forall distance baseRadius noseRadius flankRadius o,
  0 < distance -> 0 <= baseRadius -> 0 <= noseRadius -> Rabs (baseRadius - noseRadius) < distance ->
  @k_threearccam ROps distance baseRadius noseRadius flankRadius = Some o -> enc2 o.
Proof. exact threearccam_enc_all. Qed.
Print Assumptions C01_threearccam_encloses.
(* ArcSpiral2D checks a <> 0 and start <> end; every slope, offset k (negative polar radii included),
   angle range of either order and sign, any band half-width d >= 0.  The two `for` loops of Evaluate are
   modelled with a fuel of trunc(gap / 2pi) + 2 iterations, proved sufficient (C01_spiral_loops_reach) *)
Theorem C01_arcspiral_encloses : forall a k start end_ d o, 0 <= d ->
  @k_arcspiral ROps a k start end_ d = Some o -> enc2 o.
Proof. exact arcspiral_enc. Qed.
Print Assumptions C01_arcspiral_encloses.
Theorem C01_spiral_loops_reach : forall theta lim,
  lim <= @up_loop ROps (@loop_fuel ROps (lim - theta)) theta lim /\
  @down_loop ROps (@loop_fuel ROps (theta - lim)) theta lim <= lim.
Proof. exact (fun theta lim => conj (up_loop_reaches _ _ _ (loop_fuel_enough _)) (down_loop_reaches _ _ _ (loop_fuel_enough _))). Qed.
Print Assumptions C01_spiral_loops_reach.
(* GearRackSDF2 over any enclosed tooth profile, for the stored fields; and GearRack2D for every parameter
   vector it accepts, given the tooth polygon it built (enclosed by C01_mesh2_encloses, box = hull of the
   six half-tooth vertices, y from 0 to the tooth height) *)
Theorem C01_rack2_encloses : forall (tooth : Obj2 ROps) pitch length bb o,
  enc2 tooth -> rack_box_ok (bb2 tooth) length bb -> @k_rack2 ROps tooth pitch length bb = Some o -> enc2 o.
Proof. exact rack2_enc. Qed.
Print Assumptions C01_rack2_encloses.
Theorem C01_gearrack_encloses : forall (tooth : Obj2 ROps) numberTeeth module pressureAngle backlash baseHeight o,
  enc2 tooth -> 0 <= vy (b2min (bb2 tooth)) -> vy (b2max (bb2 tooth)) <= @gearrack_height ROps module baseHeight ->
  @k_gearrack ROps tooth numberTeeth module pressureAngle backlash baseHeight = Some o -> enc2 o.
Proof. exact gearrack_enc. Qed.
Print Assumptions C01_gearrack_encloses.
(* the checker's side conditions for these leaves, evaluated on the dumped rationals, imply the real ones *)
Theorem C01_prim2_check_sound : forall p : Prim2 QOps, prim2_wfb p = true ->
  forall o, @k_prim2 ROps (map_prim2 (A := QOps) (B := ROps) Q2R p) = Some o -> enc2 o.
Proof. exact (fun p W o H => prim2_enc _ o (prim2_wfb_sound p W) H). Qed.
Print Assumptions C01_prim2_check_sound.
(* hypotheses satisfiable: the cams of examples/benchmark, a spiral through the centre, a cam with the larger nose *)
Example C01_ex_prims :
  (prim2_wfb (PFlatFlankCam (O := QOps) 30 20 5) = true /\ prim2_wfb (PThreeArcCam (O := QOps) 30 20 5 (55 # 2)) = true /\
   prim2_wfb (PFlange1 (O := QOps) (13 # 32) (5 # 16) (5 # 32)) = true /\ prim2_wfb (PArcSpiral (O := QOps) 1 (-(10)) 0 12 (1 # 2)) = true /\
   prim2_wfb (PFlatFlankCam (O := QOps) 10 2 5) = true)%Q.
Proof. vm_compute. repeat split. Qed.

(* ---- inventory of mutable state (DESIGN.md 2.3).  The models above are functions of their arguments; they are
   faithful only as long as the code keeps no state between calls beyond what they mention.  The package-level
   variables and struct fields in the scope of C01 (and which of them are written outside construction, from which
   entry points) are regenerated from the current source on every run (harness/stategen -> Generated/StateInv.v)
   and contain no state beyond the expected, reviewed inventory of Sys/StateInvSpec.v, where every piece of state
   that legitimately exists names the model component that accounts for it.  Breaks when a written package-level
   variable, a struct field, or a write of a field outside its constructor is added in scope (coqc then prints the
   differences); tolerates moved declarations, reordered fields, renamed locals, new helpers / constants / tables
   nothing writes. *)
From Sdfx Require Sys.StateInvSpec Sys.StateInvC01.
Theorem C01_state_inventory : Sdfx.Sys.StateInvSpec.state_ok_C01 = true.
Proof. exact Sdfx.Sys.StateInvC01.C01_state_inventory. Qed.
Print Assumptions C01_state_inventory.
