(* C01 - bounding boxes enclose the solid: theorems only.
   All statements are about the ROps (real number) instance of the model Sdf/Shape.v.
   enc2/enc3 o: the stored box is ordered and every point with a negative value lies in it.
   lbinf_*/lb2_*: outside the box the value is at least the max-norm / Euclidean distance to it. *)
From Coq Require Import Reals List ZArith.
From Sdfx Require Import Num.Ops Num.RInst Geo.Vec Geo.Box Geo.BoxR Geo.Mat Sdf.Shape Sdf.ShapeR
  Sdf.EncloseR Sdf.EncloseComb Sdf.EncloseXform.
Import ListNotations.
Open Scope R_scope.

(* ------------------------------------------------------------ primitives *)
Theorem C01_circle : forall r o, @k_circle ROps r = Some o -> enc2 o /\ lb2_2 o.
Proof. exact (fun r o H => conj (circle_enc r o H) (circle_lb2 r o H)). Qed.
Print Assumptions C01_circle.

(* Box2D does not validate: the box is ordered iff size >= 0 (any rounding) *)
Theorem C01_box2 : forall size round o, 0 <= vx size -> 0 <= vy size ->
  @k_box2 ROps size round = Some o -> enc2 o /\ lbinf_2 o.
Proof. exact (fun size round o Hx Hy H => conj (box2_enc size round o Hx Hy H) (box2_lbinf size round o Hx Hy H)). Qed.
Print Assumptions C01_box2.

Theorem C01_line2 : forall l round o, 0 <= l -> 0 <= round ->
  @k_line2 ROps l round = Some o -> enc2 o /\ lbinf_2 o.
Proof. exact (fun l round o Hl Hr H => conj (line2_enc l round o Hl Hr H) (line2_lbinf l round o Hl Hr H)). Qed.
Print Assumptions C01_line2.

Theorem C01_sphere : forall r o, @k_sphere ROps r = Some o -> enc3 o /\ lb2_3 o.
Proof. exact (fun r o H => conj (sphere_enc r o H) (sphere_lb2 r o H)). Qed.
Print Assumptions C01_sphere.

Theorem C01_box3 : forall size round o, @k_box3 ROps size round = Some o -> enc3 o /\ lbinf_3 o.
Proof. exact (fun size round o H => conj (box3_enc size round o H) (box3_lbinf size round o H)). Qed.
Print Assumptions C01_box3.

Theorem C01_cylinder : forall h r round o, @k_cylinder ROps h r round = Some o -> enc3 o /\ lbinf_3 o.
Proof. exact (fun h r round o H => conj (cylinder_enc h r round o H) (cylinder_lbinf h r round o H)). Qed.
Print Assumptions C01_cylinder.

(* ------------------------------------------------------------ unions (plain minimum) *)
Theorem C01_union3 : forall l o, (forall x, In x l -> enc3 x) -> @k_union3 ROps MinDef l = Some o -> enc3 o.
Proof. exact union3_enc. Qed.
Print Assumptions C01_union3.
Theorem C01_union2 : forall l o, (forall x, In x l -> enc2 x) -> @k_union2 ROps MinDef l = Some o -> enc2 o.
Proof. exact union2_enc. Qed.
Print Assumptions C01_union2.

(* ------------------------------------------------------------ transforms *)
Theorem C01_inverse33_correct : forall m p, affine33 m -> @m33_determinant ROps m <> 0 ->
  @m33_mulposition ROps (@m33_inverse ROps m) (@m33_mulposition ROps m p) = p /\
  @m33_mulposition ROps m (@m33_mulposition ROps (@m33_inverse ROps m) p) = p.
Proof. exact (fun m p Ha Hd => conj (inverse33_correct m p Ha Hd) (inverse33_correct_r m p Ha Hd)). Qed.
Print Assumptions C01_inverse33_correct.
Theorem C01_inverse44_correct : forall m p, affine44 m -> @m44_determinant ROps m <> 0 ->
  @m44_mulposition ROps (@m44_inverse ROps m) (@m44_mulposition ROps m p) = p /\
  @m44_mulposition ROps m (@m44_mulposition ROps (@m44_inverse ROps m) p) = p.
Proof. exact (fun m p Ha Hd => conj (inverse44_correct m p Ha Hd) (inverse44_correct_r m p Ha Hd)). Qed.
Print Assumptions C01_inverse44_correct.
Theorem C01_mulbox33_hull : forall m b q, in_box2 b q -> in_box2 (m33_mulbox m b) (@m33_mulposition ROps m q).
Proof. exact mulbox33_hull. Qed.
Print Assumptions C01_mulbox33_hull.
Theorem C01_mulbox44_hull : forall m b q, in_box3 b q -> in_box3 (m44_mulbox m b) (@m44_mulposition ROps m q).
Proof. exact mulbox44_hull. Qed.
Print Assumptions C01_mulbox44_hull.
Theorem C01_transform2 : forall s m o, affine33 m -> @m33_determinant ROps m <> 0 ->
  @k_transform2 ROps s m = Some o -> enc2 s -> enc2 o.
Proof. exact transform2_enc. Qed.
Print Assumptions C01_transform2.
Theorem C01_transform3 : forall s m o, affine44 m -> @m44_determinant ROps m <> 0 ->
  @k_transform3 ROps s m = Some o -> enc3 s -> enc3 o.
Proof. exact transform3_enc. Qed.
Print Assumptions C01_transform3.
