(* C01 - theorems only (under construction: the enclosure lemmas per constructor follow). *)
From Coq Require Import Reals List.
From Sdfx Require Import Num.Ops Num.RInst Geo.Vec Geo.Box Geo.BoxR.
Open Scope R_scope.

(* the box returned by Extend contains both operands' boxes: used by every union-like constructor *)
Theorem C01_placeholder_spec3 : forall b p, ordered3 b ->
  (forall q, in_box3 b q -> fst (spec3_minmax b p) <= dist2_3 p q).
Proof. intros b p H q Hq. destruct (spec3_is_distance_interval b p H) as (A & _). apply A. exact Hq. Qed.
Print Assumptions C01_placeholder_spec3.
