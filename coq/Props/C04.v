(* C04 - theorems only.  See DESIGN.md section 6, C04.
   Model: Sdf/Poly.v (follows sdf/mesh2.go, sdf/box2.go).  All statements are about the ROps
   (real number) instance.  NOT proved (and not claimed): the topological fact that a non-zero
   crossing number means "enclosed" for a simple polygon (Jordan curve theorem); the crossing
   number written with exact cross products is taken as the specification of inside. *)
From Coq Require Import Reals List ZArith Permutation Lra Floats QArith.
From Sdfx Require Import Num.Ops Num.RInst Geo.Vec Geo.Box Geo.BoxR Sdf.Poly Sdf.PolyR Sdf.PolyTreeR Sdf.PolyClipR.
From Sdfx Require Import Num.FInst Num.QInst Sdf.C04Corr.
From Sdfx Require Import Generated.SdfExpr Sdf.GenEqPoly Sdf.GenEqPolyR.
Import ListNotations.
Open Scope R_scope.

(* (1) lineInfo.winding (normalised direction vector, square root) is the specification increment
   written with the cross product, for every segment and every point, vertex levels included ... *)
Theorem C04_winding_is_spec : forall (l : Seg ROps) (p : V2 ROps),
  winding (new_line_info l) p = cross_spec l p.
Proof. exact winding_eq_spec. Qed.
Print Assumptions C04_winding_is_spec.

(* ... hence, summed over the edges (of a closed chain or any list), the brute-force winding number
   is the specification crossing number at every point *)
Theorem C04_halfopen_crossing_spec : forall (ls : list (Seg ROps)) (p : V2 ROps),
  snd (slow_loop (convert_lines ls) p) = wn_spec ls p.
Proof. exact halfopen_crossing_spec. Qed.
Print Assumptions C04_halfopen_crossing_spec.

(* on a closed chain the half-open rule gives each vertex level to exactly one of the two edges
   meeting there: the edges going up through a level and those going down through it balance *)
Theorem C04_closed_chain_level_balance : forall (vs : list (V2 ROps)) (y : R),
  sumZ (map (updown y) (closed_edges vs)) = 0%Z.
Proof. exact closed_chain_level_balance. Qed.
Print Assumptions C04_closed_chain_level_balance.

(* (2) minDistance2 is the squared Euclidean distance to the segment: attained at a parameter in
   [0,1] and a lower bound for every parameter in [0,1] *)
Theorem C04_segdist2_exact : forall (l : Seg ROps) (p : V2 ROps), nondeg l ->
  (exists t, 0 <= t <= 1 /\ dist2_2 p (pt (fst l) (snd l) t) = min_distance2 (new_line_info l) p) /\
  (forall t, 0 <= t <= 1 -> min_distance2 (new_line_info l) p <= dist2_2 p (pt (fst l) (snd l) t)).
Proof. exact segdist2_exact. Qed.
Print Assumptions C04_segdist2_exact.

(* the sqrt-free specification run at exact rationals against the implementation is the same value *)
Theorem C04_segdist2_spec : forall (l : Seg ROps) (p : V2 ROps), nondeg l ->
  min_distance2 (new_line_info l) p = segdist2_spec l p.
Proof. exact mindist2_eq_spec. Qed.
Print Assumptions C04_segdist2_spec.

(* (3) replacing a segment by two pieces meeting at a point C strictly inside it changes neither the
   summed winding (half-open rule at the cut) nor the minimum distance *)
Theorem C04_split_preserves : forall (A B C p : V2 ROps) (s : R), between A B C s ->
  (winding (new_line_info (A, C)) p + winding (new_line_info (C, B)) p = winding (new_line_info (A, B)) p)%Z /\
  (nondeg (A, B) ->
   Rmin (min_distance2 (new_line_info (A, C)) p) (min_distance2 (new_line_info (C, B)) p)
   = min_distance2 (new_line_info (A, B)) p).
Proof. exact split_preserves. Qed.
Print Assumptions C04_split_preserves.

(* (4) minBoxDist2 is the squared distance to the node square (clamp specification of Geo/BoxR.v) ... *)
Theorem C04_min_box_dist2_exact : forall (c : V2 ROps) (hs : R) (p : V2 ROps), 0 <= hs ->
  min_box_dist2 c hs p = fst (spec2_minmax (sq_box c hs) p).
Proof. exact min_box_dist2_spec. Qed.
Print Assumptions C04_min_box_dist2_exact.

(* ... pieces lie in their node squares, so the pruned search (skip a node when its box distance is
   >= the best so far; children in any of the 8 search orders) returns the least of dd and the
   squared distances of ALL pieces of the tree *)
Theorem C04_prune_sound : forall (t : qt ROps (Seg ROps)) (p : V2 ROps),
  box_ok t -> Forall nondeg (pieces t) -> forall dd, dd <= omaxf ROps ->
  is_min (qt_mindist2 (qt_map new_line_info t) p dd) dd (map (d2f p) (pieces t)).
Proof. exact prune_sound. Qed.
Print Assumptions C04_prune_sound.

Theorem C04_search_order_permutes : forall (c p : V2 ROps),
  let '(i0, i1, i2, i3) := search_order c p in Permutation [i0; i1; i2; i3] [0; 1; 2; 3]%nat.
Proof. exact search_order_perm. Qed.
Print Assumptions C04_search_order_permutes.

(* (5) the children skipped by qtNode.winding hold only pieces the +x ray from p cannot cross: the
   walk returns the sum over ALL pieces of the tree *)
Theorem C04_ray_children_sound : forall (t : qt ROps (Seg ROps)) (p : V2 ROps), ray_ok t ->
  forall wn, qt_winding (qt_map new_line_info t) p wn = (wn + Wl p (pieces t))%Z.
Proof. exact ray_children_sound. Qed.
Print Assumptions C04_ray_children_sound.

(* (6) fast = slow at every point of the plane, for every tree and segment list that pass the
   clipping certificate ... *)
Theorem C04_fast_eq_slow : forall (tree : qt ROps (Seg ROps)) (segs : list (Seg ROps)),
  well_clipped tree segs -> forall p,
  eval_fast (qt_map new_line_info tree) p = eval_slow (convert_lines segs) p.
Proof. exact fast_eq_slow. Qed.
Print Assumptions C04_fast_eq_slow.

(* ... the inside/outside half needs only the winding part of the certificate (no box containment,
   degenerate segments allowed) ... *)
Theorem C04_fast_winding_eq_slow : forall (tree : qt ROps (Seg ROps)) (segs : list (Seg ROps)),
  winding_clipped tree segs -> forall p,
  qt_winding (qt_map new_line_info tree) p 0%Z = snd (slow_loop (convert_lines segs) p).
Proof. exact fast_winding_eq_slow. Qed.
Print Assumptions C04_fast_winding_eq_slow.

(* ... and the certificate is decidable: the boolean checker (run at exact rationals on the dumped
   quadtree of every tested polygon) is sound at tolerance 0 *)
Theorem C04_well_clipped_check_sound : forall tree segs chains,
  well_clipped_check 0 tree segs chains = true -> well_clipped tree segs.
Proof. exact well_clipped_check_sound. Qed.
Print Assumptions C04_well_clipped_check_sound.
Theorem C04_winding_clipped_check_sound : forall tree segs chains,
  winding_clipped_check 0 tree segs chains = true -> winding_clipped tree segs.
Proof. exact winding_clipped_check_sound. Qed.
Print Assumptions C04_winding_clipped_check_sound.

(* (7) FULL (this was C04_clip_correct_partial before the repair of Box2.lineIntersect).  The model
   of Box2.lineClip / Box2.lineIntersect (clipping by coordinates, no tolerance): for EVERY box with
   a positive extent and EVERY segment owned by it (end points in the closed box, not running along
   its top or right edge) the pieces returned for the four sub-quadrants are, up to order, a chain
   of the segment - consecutive pieces share their joint, the joints lie on the segment with
   increasing parameters, none lost, none doubled - and each piece is owned by its quadrant.
   No separation or tolerance hypothesis.  (math.Nextafter, which keeps a rounded cut point off the
   top of the range at float64, is the identity at the real instance.) *)
Theorem C04_clip_correct : forall (a : Box2 ROps) (l : Seg ROps), good a -> owned a l ->
  exists ch, is_chain l ch /\
    Permutation (o2l (line_intersect idn (quad0 a) l) ++ o2l (line_intersect idn (quad1 a) l) ++
                 o2l (line_intersect idn (quad2 a) l) ++ o2l (line_intersect idn (quad3 a) l)) ch /\
    (forall P, line_intersect idn (quad0 a) l = Some P -> owned (quad0 a) P) /\
    (forall P, line_intersect idn (quad1 a) l = Some P -> owned (quad1 a) P) /\
    (forall P, line_intersect idn (quad2 a) l = Some P -> owned (quad2 a) P) /\
    (forall P, line_intersect idn (quad3 a) l = Some P -> owned (quad3 a) P).
Proof. exact quad_split. Qed.
Print Assumptions C04_clip_correct.

(* ... hence, by induction over the levels: qtBuild on ANY list of segments owned by its box yields a
   tree whose pieces are exactly the pieces of chains of the segments, each piece in the closed box
   of every node above it, on its child's side of every centre, and (square boxes) inside the square
   minBoxDist2 measures *)
Theorem C04_qt_build_clipped : forall (fuel : nat) (a : Box2 ROps) (ls : list (Seg ROps)),
  good a -> Forall (owned a) ls ->
  (exists chains, Forall2 is_chain ls chains /\ Permutation (pieces (qt_build idn fuel a ls)) (concat chains)) /\
  Forall (contained a) (pieces (qt_build idn fuel a ls)) /\ ray_ok (qt_build idn fuel a ls) /\
  (square a -> box_ok (qt_build idn fuel a ls)).
Proof. exact qt_build_clipped. Qed.
Print Assumptions C04_qt_build_clipped.

(* ... and for Mesh2D itself (root box = the bounding box squared up and scaled by 1.01): the tree
   built for ANY non-empty list of non-degenerate segments, to any depth, is well_clipped - the
   certificate of (6) always holds - so the quadtree evaluation equals the brute-force evaluation at
   EVERY point of the plane *)
Theorem C04_mesh2d_well_clipped : forall (n : nat) (ls : list (Seg ROps)), ls <> [] -> Forall nondeg ls ->
  well_clipped (mesh2d idn n ls) ls.
Proof. exact mesh2d_well_clipped. Qed.
Print Assumptions C04_mesh2d_well_clipped.

Theorem C04_mesh2d_fast_eq_slow : forall (n : nat) (ls : list (Seg ROps)), ls <> [] -> Forall nondeg ls ->
  forall p, eval_fast (qt_map new_line_info (mesh2d idn n ls)) p = eval_slow (convert_lines ls) p.
Proof. exact mesh2d_fast_eq_slow. Qed.
Print Assumptions C04_mesh2d_fast_eq_slow.

(* the inside/outside half holds without the non-degeneracy hypothesis, as soon as the bounding box
   has a positive extent *)
Theorem C04_mesh2d_winding_eq_slow : forall (n : nat) (l0 : Seg ROps) (ls : list (Seg ROps)),
  (let bb := mesh_bb (l0 :: ls) in 0 < Rmax (vx (b2max bb) - vx (b2min bb)) (vy (b2max bb) - vy (b2min bb))) ->
  forall p, qt_winding (qt_map new_line_info (mesh2d idn n (l0 :: ls))) p 0%Z = snd (slow_loop (convert_lines (l0 :: ls)) p).
Proof. exact mesh2d_winding_eq_slow. Qed.
Print Assumptions C04_mesh2d_winding_eq_slow.

(* The code before "fix: Box2.lineIntersect clips by coordinates" violated the property.  Witness
   (float64 instance of the model of the OLD lineIntersect - candidate parameters merged and points
   snapped within 1e-9 -, evaluated by the kernel): the documented example examples/bezier egg1.  A
   vertex lies 2 ulp above the centre line of the quadtree box; it was snapped onto the line in one
   leaf piece and not in its neighbour, so at (-67.678, 7.9999999999999991) - left of the bounding
   box, exact rational crossing number 0, brute force 0 - the old quadtree walk counts -1 and
   Evaluate returns -67.678 (inside).  The repaired model: 0 and +67.678.  Replayed on the
   implementation: corpus/C04.json (bezier-egg1). *)
Theorem C04_pinned_snap_refuted :
  exists (verts : list (float * float)) (p : V2 FOps),
    let segs := segsF verts in
    PrimFloat.ltb (vx p) (vx (b2min (@mesh_bb FOps segs))) = true /\
    @wn_spec QOps (map seg_to_Q segs) (mkV2 (F2Q (vx p)) (F2Q (vy p))) = 0%Z /\
    snd (@slow_loop FOps (@convert_lines FOps segs) p) = 0%Z /\
    fwalk (@mesh2d_snap FOps 3 segs) p = (-1)%Z /\
    PrimFloat.ltb (ffast (@mesh2d_snap FOps 3 segs) p) 0%float = true /\
    fwalk (@mesh2d FOps fnextafter 3 segs) p = 0%Z /\
    PrimFloat.ltb 0%float (ffast (@mesh2d FOps fnextafter 3 segs) p) = true.
Proof. exact pinned_snap_refuted. Qed.
Print Assumptions C04_pinned_snap_refuted.

(* The pinned commit violated the property in a second way (repaired earlier, "fix: ... keeps the end
   points of a clipped line bit-exact").  Witness (float64 instance of the model, evaluated by
   the kernel): for the edge of the 10-vertex star arriving at the inner vertex with
   y = -0.2351141009169893 the pinned clipping recomputed the end point as u + v*1, one ulp off;
   at the point (-0.809..., -0.2351141009169893), level with that vertex, the clipped piece then
   counts as an upward crossing (1) which the edge itself does not make (0); clip_pt (the code
   between the two repairs) returns the vertex itself.  Replayed on the implementation: corpus/C04.json. *)
Theorem C04_pinned_clip_refuted :
  exists (l : Seg FOps) (p : V2 FOps),
    v2same (@clip_pt_pinned FOps l 1%float) (snd l) = false /\
    @winding FOps (@new_line_info FOps (fst l, @clip_pt_pinned FOps l 1%float)) p = 1%Z /\
    @winding FOps (@new_line_info FOps l) p = 0%Z /\
    v2same (@clip_pt FOps l 1%float) (snd l) = true.
Proof. exact pinned_clip_refuted. Qed.
Print Assumptions C04_pinned_clip_refuted.

(* non-vacuity: the diagonal of a square cut at the centre of a one-level quadtree *)
Definition ex_A : V2 ROps := mkV2 (-1) (-1).
Definition ex_B : V2 ROps := mkV2 1 1.
Definition ex_C : V2 ROps := mkV2 0 0.
Definition ex_box : Box2 ROps := mkBox2 (mkV2 (-2) (-2)) (mkV2 2 2).
Definition ex_tree : qt ROps (Seg ROps) :=
  QNode ex_box ex_C 2
    (QLeaf (mkBox2 (mkV2 (-2) (-2)) ex_C) (mkV2 (-1) (-1)) 1 [(ex_A, ex_C)])
    QNil QNil
    (QLeaf (mkBox2 ex_C (mkV2 2 2)) (mkV2 1 1) 1 [(ex_C, ex_B)]).
Example C04_hyp_satisfiable : well_clipped ex_tree [(ex_A, ex_B)] /\ between ex_A ex_B ex_C (1 / 2).
Proof.
  split.
  - exists [[(ex_A, ex_C); (ex_C, ex_B)]]. split; [|split; [|split; [|split]]].
    + constructor; [|constructor]. unfold is_chain; cbn [fst snd].
      apply (chain_cons _ _ ex_A ex_C 0 (1 / 2)).
      * unfold pt, ex_A, ex_B; cbn [vx vy]. f_equal; lra.
      * unfold pt, ex_A, ex_B, ex_C; cbn [vx vy]. f_equal; lra.
      * lra.
      * apply chain_last; [unfold pt, ex_A, ex_B, ex_C; cbn [vx vy]; f_equal; lra | lra].
    + unfold ex_tree. cbn [pieces concat app]. apply Permutation_refl.
    + unfold ex_tree. cbn [ray_ok pieces]. unfold seg_all, ex_A, ex_B, ex_C.
      repeat split; try exact I; repeat (apply Forall_cons || apply Forall_nil); cbn [fst snd vx vy]; lra.
    + unfold ex_tree. cbn [box_ok pieces app]. unfold seg_all, in_sq, ex_A, ex_B, ex_C.
      repeat split; try exact I; try lra; repeat (apply Forall_cons || apply Forall_nil); cbn [fst snd vx vy];
        repeat split; apply Rabs_le; lra.
    + constructor; [|constructor]. unfold nondeg, ex_A, ex_B; cbn [fst snd vx vy]. lra.
  - unfold between, ex_A, ex_B, ex_C; cbn [vx vy]. lra.
Qed.

(* non-vacuity of (7): the box [-2,2]^2 is good and square and owns the diagonal; a triangle is a
   non-empty list of non-degenerate segments *)
Example C04_clip_hyp_satisfiable : good ex_box /\ square ex_box /\ owned ex_box (ex_A, ex_B) /\
  Forall nondeg [(ex_A, ex_B); (ex_B, mkV2 1 (-1)); (mkV2 1 (-1), ex_A)].
Proof.
  unfold good, square, owned, own1, ex_box, ex_A, ex_B, nondeg; cbn [b2min b2max fst snd vx vy].
  repeat split; try lra; try (intros [? ?]; lra); repeat (apply Forall_cons || apply Forall_nil); cbn [fst snd vx vy]; lra.
Qed.

(* ---- The tie to the Go source for the per-segment functions.  Generated/SdfExpr.v is re-translated
   from the Go AST of the current source tree on every run (harness/sdfgen); the definitions
   generated from newLineInfo, lineInfo.winding and lineInfo.minDistance2 are equal to the model
   functions theorems (1) and (2) are about, for all segments and points (Sdf/GenEqPoly.v, by
   conversion).  A semantic edit of one of these Go functions breaks an obligation below.  (The
   quadtree walk and the clipping stay tied by differential execution incl. the rebuilt tree.) *)
Theorem C04_go_winding_is_model : forall (a : @LineInfo ROps) (p : V2 ROps),
  @sdf_lineInfo_winding ROps (li_a a, li_b a) (li_u a) p = winding a p.
Proof. exact (@lineInfo_winding_eq ROps). Qed.
Print Assumptions C04_go_winding_is_model.

Theorem C04_go_minDistance2_is_model : forall (l : Seg ROps) (p : V2 ROps),
  let a := li_of (@sdf_newLineInfo ROps l) in
  @sdf_lineInfo_minDistance2 ROps (li_a a, li_b a) (li_u a) (li_len a) p = min_distance2 (new_line_info l) p.
Proof. exact go_minDistance2_is_model. Qed.
Print Assumptions C04_go_minDistance2_is_model.

(* hence, about the translated code itself: winding computed from what newLineInfo stores is the
   crossing-number increment of the specification *)
Theorem C04_go_winding_is_spec : forall (l : Seg ROps) (p : V2 ROps),
  let a := li_of (@sdf_newLineInfo ROps l) in
  @sdf_lineInfo_winding ROps (li_a a, li_b a) (li_u a) p = cross_spec l p.
Proof. exact go_winding_is_spec. Qed.
Print Assumptions C04_go_winding_is_spec.

(* ---- inventory of mutable state (DESIGN.md 2.3).  The models above are functions of their arguments; they are
   faithful only as long as the code keeps no state between calls beyond what they mention.  The package-level
   variables and struct fields in the scope of C04 (and which of them are written outside construction, from which
   entry points) are regenerated from the current source on every run (harness/stategen -> Generated/StateInv.v)
   and contain no state beyond the expected, reviewed inventory of Sys/StateInvSpec.v, where every piece of state
   that legitimately exists names the model component that accounts for it.  Breaks when a written package-level
   variable, a struct field, or a write of a field outside its constructor is added in scope (coqc then prints the
   differences); tolerates moved declarations, reordered fields, renamed locals, new helpers / constants / tables
   nothing writes. *)
From Sdfx Require Sys.StateInvSpec Sys.StateInvC04.
Theorem C04_state_inventory : Sdfx.Sys.StateInvSpec.state_ok_C04 = true.
Proof. exact Sdfx.Sys.StateInvC04.C04_state_inventory. Qed.
Print Assumptions C04_state_inventory.
