(* C04 - theorems only.  See DESIGN.md section 6, C04. *)
From Coq Require Import Reals List Lra.
From Sdfx Require Import Num.Ops Num.RInst Geo.Vec Geo.Box Sdf.Poly.
