(* C06 - mesh vertices lie on the surface; the mesh is complete and accurate.
   Statements are about the ROps instance of the models
     Render/Interp.v   mcInterpolate / mcToTriangles (render/march3.go)
     Render/Sample.v   MarchingCubesUniform.Render, marchingCubes, layerYZ (lattice, two-layer cache)
     Render/Octree.v   dcache3 / processCube (render/march3x.go)
   Proved without bound: every vertex of every emitted triangle is the linear crossing on a lattice edge
   whose end values straddle 0 (all snapping branches), with the bounds of the property for planes,
   spheres and 1-Lipschitz fields; the values handed to mcToTriangles are f at the eight corner points
   (two-layer cache and its y*(nz+1)+z index; distance cache); sample boxes contain the bounding box;
   vertices stay in the sample box; a zero of f lies on the edge of every vertex (intermediate value
   theorem); a cell with corners of both strict signs has a non-empty table row.
   Measured by the harness only (not proved): the two-sided Hausdorff distance beyond the cell-wise
   statements, agreement of triangle normals with the gradient, second-order convergence of the
   enclosed volume.  Floating point rounding is not covered. *)
From Coq Require Import List ZArith NArith Bool Reals Lra Lia.
From Sdfx Require Import Num.Ops Num.RInst Geo.Vec Geo.Box Geo.NormR Generated.MarchTables
  Render.MC Render.MS Render.Lattice Render.Interp Render.LatticeR Render.Octree Render.Sample Render.InterpR.
Import ListNotations.
Open Scope R_scope.

(* interp_on_edge: for every pair of end values that straddle 0 the computed point is p1 + t (p2 - p1)
   with t in [0,1]; the linear interpolant of the values at t is within epsilon of 0; the four
   branches of mcInterpolate (snap to p1, snap to p2, midpoint, linear) are spelled out *)
Theorem C06_interp_on_edge : forall (p1 p2 : RV3) (v1 v2 : R), straddles v1 v2 0 ->
  let t := interp_t v1 v2 0 in
  0 <= t <= 1 /\ Rabs (lerp v1 v2 t) < @eps ROps /\ @mc_interpolate ROps p1 p2 v1 v2 0 = lerp3 p1 p2 t /\
  ((Rabs v1 < @eps ROps /\ @eps ROps <= Rabs v2 /\ t = 0) \/
   (@eps ROps <= Rabs v1 /\ Rabs v2 < @eps ROps /\ t = 1) \/
   (Rabs v1 < @eps ROps /\ Rabs v2 < @eps ROps /\ t = 1 / 2) \/
   (@eps ROps <= Rabs v1 /\ @eps ROps <= Rabs v2 /\ t = - v1 / (v2 - v1) /\ lerp v1 v2 t = 0)).
Proof. exact interp_on_edge. Qed.
Print Assumptions C06_interp_on_edge.

(* every vertex of every triangle a cell emits is such a point, on a cell edge (two adjacent corners)
   whose corner values straddle 0 *)
Theorem C06_cell_vertices : forall (p : N -> RV3) (v : N -> R) t, In t (@mc_to_triangles ROps p v 0) ->
  let '(w0, w1, w2) := t in is_crossing_point p v w0 /\ is_crossing_point p v w1 /\ is_crossing_point p v w2.
Proof. exact mc_vertices. Qed.
Print Assumptions C06_cell_vertices.

(* interp_plane_exact: affine f *)
Theorem C06_interp_plane_exact : forall f p1 p2, affine3 f -> straddles (f p1) (f p2) 0 ->
  let w := @mc_interpolate ROps p1 p2 (f p1) (f p2) 0 in
  Rabs (f w) < @eps ROps /\ (@eps ROps <= Rabs (f p1) -> @eps ROps <= Rabs (f p2) -> f w = 0).
Proof. exact interp_plane_exact. Qed.
Print Assumptions C06_interp_plane_exact.

(* interp_lip_bound: any field that never overestimates distances (1-Lipschitz): |f v| <= edge length *)
Theorem C06_interp_lip_bound : forall f p1 p2, lip3 f -> straddles (f p1) (f p2) 0 ->
  Rabs (f (@mc_interpolate ROps p1 p2 (f p1) (f p2) 0)) <= dist3 p1 p2.
Proof. exact interp_lip_bound. Qed.
Print Assumptions C06_interp_lip_bound.

(* interp_sphere_bound: sphere of radius R about c, edge no longer than h < R *)
Theorem C06_interp_sphere_bound : forall (c p1 p2 : RV3) R h, h < R -> dist3 p1 p2 <= h ->
  let f := fun p => dist3 p c - R in
  straddles (f p1) (f p2) 0 ->
  let w := @mc_interpolate ROps p1 p2 (f p1) (f p2) 0 in
  - (h * h / (8 * (R - h))) - @eps ROps < f w < @eps ROps /\
  (@eps ROps <= Rabs (f p1) -> @eps ROps <= Rabs (f p2) -> - (h * h / (8 * (R - h))) <= f w <= 0).
Proof. exact interp_sphere_bound. Qed.
Print Assumptions C06_interp_sphere_bound.

(* cell_values_paired, uniform renderer: in the cube walk of marchingCubes, with val0 / val1 the layers
   x and x+1 of the two-layer cache, the corner coordinates of cell (x,y,z) are the lattice points
   (x,y,z) + corner offset and the values read at y*(nz+1)+z are f at exactly those points; hence the
   whole walk is the mesh of the lattice  base + (i,j,k) * inc  sampled by f *)
Theorem C06_cell_values_paired : forall (L : lattice3 ROps) (f : RV3 -> R),
  (forall x y z c, (y < lny L)%nat -> (z < lnz L)%nat ->
     @cell_corners ROps L x y z c = lpoint L (addp (npt x y z) (corner_off c)) /\
     @cell_values ROps L (@layer ROps L f x) (@layer ROps L f (S x)) y z c = lval L f (addp (npt x y z) (corner_off c))) /\
  @marching_cubes ROps L f = meshR (lpoint L) (lval L f) 0 (lnx L) (lny L) (lnz L).
Proof. intros L f. split; [intros; now apply cell_values_paired | apply marching_cubes_is_meshR]. Qed.
Print Assumptions C06_cell_values_paired.

(* cell_values_paired, octree renderer: the distance cache is transparent (any number system, any field) *)
Theorem C06_dcache_values_paired : forall (O : Ops) origin res (fv : pt -> T O) m v s, cache3_ok fv s ->
  fst (@octree_st O origin res fv m v s) = @octree O origin res fv m v /\
  cache3_ok fv (snd (@octree_st O origin res fv m v s)).
Proof. intros. now apply octree_cache_refines. Qed.
Print Assumptions C06_dcache_values_paired.

(* sample_box_contains_bbox: uniform renderer - the sampled box contains the bounding box with half a
   cell of padding and the lattice spans it exactly with cells no larger than the step;
   octree renderer - the box scaled by 1.01 contains the bounding box (the top cube covers it: C07_levels_cover) *)
Theorem C06_sample_box_contains_bbox : forall (bb0 : Box3 ROps) (meshCells : Z),
  Sample.ordered3 bb0 -> 0 < @v3maxcomp ROps (box3_size bb0) -> (1 <= meshCells)%Z ->
  (let '(bb, inc) := @mcu_box ROps bb0 meshCells in
   0 < inc /\ inc * IZR meshCells = @v3maxcomp ROps (box3_size bb0) /\ padded_in bb0 bb (inc / 2)) /\
  (let bb := @box3_scale_about_center ROps bb0 (@cst ROps 101 100) in
   wx (b3min bb) <= wx (b3min bb0) /\ wy (b3min bb) <= wy (b3min bb0) /\ wz (b3min bb) <= wz (b3min bb0) /\
   wx (b3max bb0) <= wx (b3max bb) /\ wy (b3max bb0) <= wy (b3max bb) /\ wz (b3max bb0) <= wz (b3max bb) /\
   box3_size bb = v3muls (box3_size bb0) (101 / 100)).
Proof.
  intros bb0 mc Ho Hm Hc. split; [now apply mcu_sample_box_contains_bbox | now apply scaled_box_contains_bbox].
Qed.
Print Assumptions C06_sample_box_contains_bbox.

Theorem C06_lattice_spans_box : forall (box : Box3 ROps) (step : R),
  wx (b3min box) < wx (b3max box) -> wy (b3min box) < wy (b3max box) -> wz (b3min box) < wz (b3max box) -> 0 < step ->
  let L := @mc_lattice ROps box step in
  let '(nx, ny, nz) := lsteps L in
  (1 <= nx)%Z /\ (1 <= ny)%Z /\ (1 <= nz)%Z /\
  0 < wx (linc L) <= step /\ 0 < wy (linc L) <= step /\ 0 < wz (linc L) <= step /\
  lpoint L (0, 0, 0)%Z = b3min box /\ lpoint L (nx, ny, nz) = b3max box.
Proof. exact mc_lattice_spans. Qed.
Print Assumptions C06_lattice_spans_box.

(* mesh_in_sample_box and the vertex theorems for whole meshes of the uniform renderer: every vertex is
   the crossing on a lattice edge of the sampled lattice, lies in the sampled box, and for a
   1-Lipschitz field has |f| at most one cell edge and a zero of f within one cell edge *)
Theorem C06_mesh_in_sample_box : forall (L : lattice3 ROps) (f : RV3 -> R),
  0 <= wx (linc L) /\ 0 <= wy (linc L) /\ 0 <= wz (linc L) ->
  forall t w, In t (@marching_cubes ROps L f) -> In w (tri_vertices t) ->
    (exists q q', in_lattice (lnx L) (lny L) (lnz L) q /\ in_lattice (lnx L) (lny L) (lnz L) q' /\ lattice_step q q' /\
                  crossing_of f (lpoint L q) (lpoint L q') w) /\
    Sample.in_box3 (mkBox3 (lpoint L (0, 0, 0)%Z) (lpoint L (Z.of_nat (lnx L), Z.of_nat (lny L), Z.of_nat (lnz L)))) w.
Proof.
  intros L f Hi t w Ht Hw. split; [exact (uniform_vertices L f t w Ht Hw) | exact (uniform_mesh_in_sample_box L f Hi t w Ht Hw)].
Qed.
Print Assumptions C06_mesh_in_sample_box.

Theorem C06_mesh_accuracy : forall (L : lattice3 ROps) (f : RV3 -> R),
  0 <= wx (linc L) /\ 0 <= wy (linc L) /\ 0 <= wz (linc L) -> lip3 f ->
  forall t w, In t (@marching_cubes ROps L f) -> In w (tri_vertices t) ->
    Rabs (f w) <= @v3maxcomp ROps (linc L) /\ exists z, f z = 0 /\ dist3 w z <= @v3maxcomp ROps (linc L).
Proof. intros L f Hi Hl t w Ht Hw. exact (uniform_mesh_accuracy L f Hi t w Hl Ht Hw). Qed.
Print Assumptions C06_mesh_accuracy.

(* the same for the octree renderer (through C07: its output is the evaluation of the finest cells) *)
Theorem C06_octree_vertices : forall (origin : RV3) (res : R) (f : RV3 -> R), 0 <= res -> lip3 f ->
  forall m v t w, In t (@octree ROps origin res (fv3 origin res f) m v) -> In w (tri_vertices t) ->
    exists q q', in_cube m v q /\ in_cube m v q' /\ cell_step q q' /\
                 crossing_of f (@oct_point ROps origin res q) (@oct_point ROps origin res q') w.
Proof.
  intros origin res f Hr Hl m v t w Ht Hw. rewrite (octree_eq_uniform origin res Hr f Hl) in Ht.
  exact (octree_vertices origin res f m v t w Ht Hw).
Qed.
Print Assumptions C06_octree_vertices.

(* vertex_near_surface: f continuous along the edge and end values straddling 0: the edge carries a zero
   of f (intermediate value theorem) within the edge length of the computed vertex *)
Theorem C06_vertex_near_surface : forall f p1 p2, continuity (fun t => f (lerp3 p1 p2 t)) -> straddles (f p1) (f p2) 0 ->
  exists z, f z = 0 /\ dist3 (@mc_interpolate ROps p1 p2 (f p1) (f p2) 0) z <= dist3 p1 p2.
Proof. exact vertex_near_surface. Qed.
Print Assumptions C06_vertex_near_surface.

(* complete_cellwise_partial: a cell with a corner strictly inside and a corner strictly outside has a
   non-empty row of the triangle table (and a non-zero edge mask): it emits at least one triangle
   before the removal of triangles with two coincident vertices.
   PARTIAL: the full completeness claim of the property (every resolvable surface point is within one
   cell diagonal of the mesh) needs that the surviving triangles cover the cell's part of the
   surface; that, like the normal / gradient agreement and the second-order volume convergence, is
   measured by the harness on shapes with known surface, not proved. *)
Theorem C06_complete_cellwise_partial : forall (v : N -> R) a b, (a < 8)%N -> (b < 8)%N -> v a < 0 -> 0 < v b ->
  local_tris (@mc_index ROps v 0) <> [] /\ edge_mask (@mc_index ROps v 0) <> 0%N.
Proof. exact complete_cellwise. Qed.
Print Assumptions C06_complete_cellwise_partial.

(* hypotheses are satisfiable *)
Example C06_sphere_straddles : let f := fun p : RV3 => dist3 p (mkV3 0 0 0) - 1 in
  straddles (f (mkV3 0 0 0)) (f (mkV3 2 0 0)) 0.
Proof.
  cbv zeta. left. unfold dist3, len3, NormR.sub3. cbn [wx wy wz].
  replace ((0 - 0) * (0 - 0) + (0 - 0) * (0 - 0) + (0 - 0) * (0 - 0)) with 0 by ring.
  replace ((2 - 0) * (2 - 0) + (0 - 0) * (0 - 0) + (0 - 0) * (0 - 0)) with (2 * 2) by ring.
  rewrite sqrt_0, sqrt_square by lra. lra.
Qed.
Example C06_affine_instance : affine3 (fun p => 2 * wx p - wy p + 3).
Proof. exists 2, (-1), 0, 3. intros p. ring. Qed.

(* ---------------------------------------------------------------- syntactic tie to the Go source
   Generated/RenderExpr.v is re-translated from the Go AST of the current source tree on every run
   (harness/rendergen); Render/GenEqRender.v and Render/GenEqMC.v prove the generated definitions equal to the model the
   theorems above are about, for all arguments over an arbitrary Ops (all of them: Props/TRANSLR.v).
   Each theorem below breaks when the Go function it is named after changes what it computes. *)
From Coq Require Import ZArith List.
Import ListNotations.
From Sdfx Require Num.Ops Geo.Vec Geo.Box Render.Interp Render.Octree Render.Sample Generated.RenderExpr Render.GenEqRender Render.GenEqMC.
Import Num.Ops Geo.Vec.

Theorem C06_TRANSL_mcInterpolate : forall (O : Ops) (p1 p2 : V3 O) (v1 v2 x : T O),
    RenderExpr.rg_render_mcInterpolate p1 p2 v1 v2 x = Interp.mc_interpolate p1 p2 v1 v2 x.
Proof. exact (@GenEqRender.mcInterpolate_eq). Qed.
Print Assumptions C06_TRANSL_mcInterpolate.

Theorem C06_TRANSL_mcToTriangles : forall (O : Ops) (p0 p1 p2 p3 p4 p5 p6 p7 : V3 O) (v0 v1 v2 v3 v4 v5 v6 v7 x : T O),
    RenderExpr.rg_render_mcToTriangles [p0; p1; p2; p3; p4; p5; p6; p7] [v0; v1; v2; v3; v4; v5; v6; v7] x =
    Interp.mc_to_triangles (Octree.sel8 p0 p1 p2 p3 p4 p5 p6 p7) (Octree.sel8 v0 v1 v2 v3 v4 v5 v6 v7) x.
Proof. exact (@GenEqMC.mcToTriangles_eq). Qed.
Print Assumptions C06_TRANSL_mcToTriangles.

Theorem C06_TRANSL_marchingCubes_lattice_prefix : forall (O : Ops) (box : Geo.Box.Box3 O) (step : T O),
    RenderExpr.rg_render_marchingCubes box step =
    (Sample.lbase (Sample.mc_lattice box step), Sample.linc (Sample.mc_lattice box step), Sample.lsteps (Sample.mc_lattice box step)).
Proof. exact (@GenEqRender.marchingCubes_lattice_eq). Qed.
Print Assumptions C06_TRANSL_marchingCubes_lattice_prefix.

Theorem C06_TRANSL_MarchingCubesUniform_box_prefix : forall (O : Ops) (meshCells : Z) (bb0 : Geo.Box.Box3 O),
    RenderExpr.rg_render_MarchingCubesUniform_Render meshCells bb0 = Sample.mcu_box bb0 meshCells.
Proof. exact (@GenEqRender.mcu_box_eq). Qed.
Print Assumptions C06_TRANSL_MarchingCubesUniform_box_prefix.

Theorem C06_TRANSL_layerYZ_Get : forall (O : Ops) (L : Sample.lattice3 O) (v0 v1 : list (T O)) (x : Z) (y z : nat),
    (0 <= snd (Sample.lsteps L))%Z ->
    RenderExpr.rg_render_layerYZ_Get (Sample.lsteps L) v0 v1 x (Z.of_nat y) (Z.of_nat z) = Sample.lget L (if (x =? 0)%Z then v0 else v1) y z.
Proof. exact (@GenEqRender.layerYZ_Get_eq). Qed.
Print Assumptions C06_TRANSL_layerYZ_Get.
