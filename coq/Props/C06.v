(* C06 - mesh vertices lie on the surface; the mesh is complete and accurate.
   Statements are about the ROps instance of the models
     Render/Interp.v   mcInterpolate / mcToTriangles (render/march3.go)
     Render/Sample.v   MarchingCubesUniform.Render, marchingCubes, layerYZ (lattice, two-layer cache)
     Render/Octree.v   dcache3 / processCube (render/march3x.go)
   Proved without bound: every vertex of every emitted triangle is the linear crossing on a lattice edge
   whose end values straddle 0 (all snapping branches), with the bounds of the property for planes,
   spheres and 1-Lipschitz fields; the values handed to mcToTriangles are f at the eight corner points
   (two-layer cache and its y*(nz+1)+z index; distance cache); sample boxes contain the bounding box;
   vertices stay in the sample box; a zero of f lies on the edge of every vertex (intermediate value
   theorem).  Completeness of the EMITTED mesh (Render/CompleteR.v): every lattice edge whose end values have
   different sign and lie outside the snapping window carries an emitted vertex (reflection over 256
   configurations x 256 window masks); a point with tangent balls of radius > half a cell diagonal on either
   side of the surface has an emitted vertex within ONE cell diagonal when no lattice value near it is inside
   the window (or only harmless ones); without that condition the statement holds for the mesh before the
   removal of degenerate triangles and is refuted for the emitted mesh of an arbitrary field.
   Measured by the harness only (not proved): completeness for distance-like fields with lattice values inside
   the window in general position, agreement of triangle normals with the gradient, second-order convergence of
   the enclosed volume.  Floating point rounding is not covered. *)
From Coq Require Import List ZArith NArith Bool Reals Lra Lia.
From Sdfx Require Import Num.Ops Num.RInst Geo.Vec Geo.Box Geo.NormR Generated.MarchTables
  Render.Balance Render.MC Render.MS Render.Lattice Render.Interp Render.LatticeR Render.Octree Render.Sample Render.InterpR Render.CompleteR.
Import ListNotations.
Open Scope R_scope.

(* interp_on_edge: for every pair of end values that straddle 0 the computed point is p1 + t (p2 - p1)
   with t in [0,1]; the linear interpolant of the values at t is within epsilon of 0; the four
   branches of mcInterpolate (snap to p1, snap to p2, midpoint, linear) are spelled out *)
Theorem C06_interp_on_edge : forall (p1 p2 : RV3) (v1 v2 : R), straddles v1 v2 0 ->
  let t := interp_t v1 v2 0 in
  0 <= t <= 1 /\ Rabs (lerp v1 v2 t) < @eps ROps /\ @mc_interpolate ROps p1 p2 v1 v2 0 = lerp3 p1 p2 t /\
  ((Rabs v1 < @eps ROps /\ @eps ROps <= Rabs v2 /\ t = 0) \/
   (@eps ROps <= Rabs v1 /\ Rabs v2 < @eps ROps /\ t = 1) \/
   (Rabs v1 < @eps ROps /\ Rabs v2 < @eps ROps /\ t = 1 / 2) \/
   (@eps ROps <= Rabs v1 /\ @eps ROps <= Rabs v2 /\ t = - v1 / (v2 - v1) /\ lerp v1 v2 t = 0)).
Proof. exact interp_on_edge. Qed.
Print Assumptions C06_interp_on_edge.

(* every vertex of every triangle a cell emits is such a point, on a cell edge (two adjacent corners)
   whose corner values straddle 0 *)
Theorem C06_cell_vertices : forall (p : N -> RV3) (v : N -> R) t, In t (@mc_to_triangles ROps p v 0) ->
  let '(w0, w1, w2) := t in is_crossing_point p v w0 /\ is_crossing_point p v w1 /\ is_crossing_point p v w2.
Proof. exact mc_vertices. Qed.
Print Assumptions C06_cell_vertices.

(* interp_plane_exact: affine f *)
Theorem C06_interp_plane_exact : forall f p1 p2, affine3 f -> straddles (f p1) (f p2) 0 ->
  let w := @mc_interpolate ROps p1 p2 (f p1) (f p2) 0 in
  Rabs (f w) < @eps ROps /\ (@eps ROps <= Rabs (f p1) -> @eps ROps <= Rabs (f p2) -> f w = 0).
Proof. exact interp_plane_exact. Qed.
Print Assumptions C06_interp_plane_exact.

(* interp_lip_bound: any field that never overestimates distances (1-Lipschitz): |f v| <= edge length *)
Theorem C06_interp_lip_bound : forall f p1 p2, lip3 f -> straddles (f p1) (f p2) 0 ->
  Rabs (f (@mc_interpolate ROps p1 p2 (f p1) (f p2) 0)) <= dist3 p1 p2.
Proof. exact interp_lip_bound. Qed.
Print Assumptions C06_interp_lip_bound.

(* interp_sphere_bound: sphere of radius R about c, edge no longer than h < R *)
Theorem C06_interp_sphere_bound : forall (c p1 p2 : RV3) R h, h < R -> dist3 p1 p2 <= h ->
  let f := fun p => dist3 p c - R in
  straddles (f p1) (f p2) 0 ->
  let w := @mc_interpolate ROps p1 p2 (f p1) (f p2) 0 in
  - (h * h / (8 * (R - h))) - @eps ROps < f w < @eps ROps /\
  (@eps ROps <= Rabs (f p1) -> @eps ROps <= Rabs (f p2) -> - (h * h / (8 * (R - h))) <= f w <= 0).
Proof. exact interp_sphere_bound. Qed.
Print Assumptions C06_interp_sphere_bound.

(* cell_values_paired, uniform renderer: in the cube walk of marchingCubes, with val0 / val1 the layers
   x and x+1 of the two-layer cache, the corner coordinates of cell (x,y,z) are the lattice points
   (x,y,z) + corner offset and the values read at y*(nz+1)+z are f at exactly those points; hence the
   whole walk is the mesh of the lattice  base + (i,j,k) * inc  sampled by f *)
Theorem C06_cell_values_paired : forall (L : lattice3 ROps) (f : RV3 -> R),
  (forall x y z c, (y < lny L)%nat -> (z < lnz L)%nat ->
     @cell_corners ROps L x y z c = lpoint L (addp (npt x y z) (corner_off c)) /\
     @cell_values ROps L (@layer ROps L f x) (@layer ROps L f (S x)) y z c = lval L f (addp (npt x y z) (corner_off c))) /\
  @marching_cubes ROps L f = meshR (lpoint L) (lval L f) 0 (lnx L) (lny L) (lnz L).
Proof. intros L f. split; [intros; now apply cell_values_paired | apply marching_cubes_is_meshR]. Qed.
Print Assumptions C06_cell_values_paired.

(* cell_values_paired, octree renderer: the distance cache is transparent (any number system, any field) *)
Theorem C06_dcache_values_paired : forall (O : Ops) origin res (fv : pt -> T O) m v s, cache3_ok fv s ->
  fst (@octree_st O origin res fv m v s) = @octree O origin res fv m v /\
  cache3_ok fv (snd (@octree_st O origin res fv m v s)).
Proof. intros. now apply octree_cache_refines. Qed.
Print Assumptions C06_dcache_values_paired.

(* sample_box_contains_bbox: uniform renderer - the sampled box contains the bounding box with half a
   cell of padding and the lattice spans it exactly with cells no larger than the step;
   octree renderer - the box scaled by 1.01 contains the bounding box (the top cube covers it: C07_levels_cover) *)
Theorem C06_sample_box_contains_bbox : forall (bb0 : Box3 ROps) (meshCells : Z),
  Sample.ordered3 bb0 -> 0 < @v3maxcomp ROps (box3_size bb0) -> (1 <= meshCells)%Z ->
  (let '(bb, inc) := @mcu_box ROps bb0 meshCells in
   0 < inc /\ inc * IZR meshCells = @v3maxcomp ROps (box3_size bb0) /\ padded_in bb0 bb (inc / 2)) /\
  (let bb := @box3_scale_about_center ROps bb0 (@cst ROps 101 100) in
   wx (b3min bb) <= wx (b3min bb0) /\ wy (b3min bb) <= wy (b3min bb0) /\ wz (b3min bb) <= wz (b3min bb0) /\
   wx (b3max bb0) <= wx (b3max bb) /\ wy (b3max bb0) <= wy (b3max bb) /\ wz (b3max bb0) <= wz (b3max bb) /\
   box3_size bb = v3muls (box3_size bb0) (101 / 100)).
Proof.
  intros bb0 mc Ho Hm Hc. split; [now apply mcu_sample_box_contains_bbox | now apply scaled_box_contains_bbox].
Qed.
Print Assumptions C06_sample_box_contains_bbox.

Theorem C06_lattice_spans_box : forall (box : Box3 ROps) (step : R),
  wx (b3min box) < wx (b3max box) -> wy (b3min box) < wy (b3max box) -> wz (b3min box) < wz (b3max box) -> 0 < step ->
  let L := @mc_lattice ROps box step in
  let '(nx, ny, nz) := lsteps L in
  (1 <= nx)%Z /\ (1 <= ny)%Z /\ (1 <= nz)%Z /\
  0 < wx (linc L) <= step /\ 0 < wy (linc L) <= step /\ 0 < wz (linc L) <= step /\
  lpoint L (0, 0, 0)%Z = b3min box /\ lpoint L (nx, ny, nz) = b3max box.
Proof. exact mc_lattice_spans. Qed.
Print Assumptions C06_lattice_spans_box.

(* mesh_in_sample_box and the vertex theorems for whole meshes of the uniform renderer: every vertex is
   the crossing on a lattice edge of the sampled lattice, lies in the sampled box, and for a
   1-Lipschitz field has |f| at most one cell edge and a zero of f within one cell edge *)
Theorem C06_mesh_in_sample_box : forall (L : lattice3 ROps) (f : RV3 -> R),
  0 <= wx (linc L) /\ 0 <= wy (linc L) /\ 0 <= wz (linc L) ->
  forall t w, In t (@marching_cubes ROps L f) -> In w (tri_vertices t) ->
    (exists q q', in_lattice (lnx L) (lny L) (lnz L) q /\ in_lattice (lnx L) (lny L) (lnz L) q' /\ lattice_step q q' /\
                  crossing_of f (lpoint L q) (lpoint L q') w) /\
    Sample.in_box3 (mkBox3 (lpoint L (0, 0, 0)%Z) (lpoint L (Z.of_nat (lnx L), Z.of_nat (lny L), Z.of_nat (lnz L)))) w.
Proof.
  intros L f Hi t w Ht Hw. split; [exact (uniform_vertices L f t w Ht Hw) | exact (uniform_mesh_in_sample_box L f Hi t w Ht Hw)].
Qed.
Print Assumptions C06_mesh_in_sample_box.

Theorem C06_mesh_accuracy : forall (L : lattice3 ROps) (f : RV3 -> R),
  0 <= wx (linc L) /\ 0 <= wy (linc L) /\ 0 <= wz (linc L) -> lip3 f ->
  forall t w, In t (@marching_cubes ROps L f) -> In w (tri_vertices t) ->
    Rabs (f w) <= @v3maxcomp ROps (linc L) /\ exists z, f z = 0 /\ dist3 w z <= @v3maxcomp ROps (linc L).
Proof. intros L f Hi Hl t w Ht Hw. exact (uniform_mesh_accuracy L f Hi t w Hl Ht Hw). Qed.
Print Assumptions C06_mesh_accuracy.

(* the same for the octree renderer (through C07: its output is the evaluation of the finest cells) *)
Theorem C06_octree_vertices : forall (origin : RV3) (res : R) (f : RV3 -> R), 0 <= res -> lip3 f ->
  forall m v t w, In t (@octree ROps origin res (fv3 origin res f) m v) -> In w (tri_vertices t) ->
    exists q q', in_cube m v q /\ in_cube m v q' /\ cell_step q q' /\
                 crossing_of f (@oct_point ROps origin res q) (@oct_point ROps origin res q') w.
Proof.
  intros origin res f Hr Hl m v t w Ht Hw. rewrite (octree_eq_uniform origin res Hr f Hl) in Ht.
  exact (octree_vertices origin res f m v t w Ht Hw).
Qed.
Print Assumptions C06_octree_vertices.

(* vertex_near_surface: f continuous along the edge and end values straddling 0: the edge carries a zero
   of f (intermediate value theorem) within the edge length of the computed vertex *)
Theorem C06_vertex_near_surface : forall f p1 p2, continuity (fun t => f (lerp3 p1 p2 t)) -> straddles (f p1) (f p2) 0 ->
  exists z, f z = 0 /\ dist3 (@mc_interpolate ROps p1 p2 (f p1) (f p2) 0) z <= dist3 p1 p2.
Proof. exact vertex_near_surface. Qed.
Print Assumptions C06_vertex_near_surface.

(* ---------------------------------------------------------------- completeness (Render/CompleteR.v)
   Statements about the mesh that is EMITTED (after Triangle3.Degenerate(0) removed the triangles with two
   coincident vertices), for all lattices with positive increments and all fields.  "window" = the snapping
   window |v| < epsilon of mcInterpolate; diag L = the cell diagonal. *)

(* table completeness, by reflection over the 256 configurations of the regenerated tables: the edge mask is
   the set of edges whose corner signs differ, the triangle row uses exactly those edges, rows are whole
   triangles over three different edges *)
Theorem C06_table_complete : forall cfg e, (cfg < 256)%N -> (e < 12)%N ->
  N.testbit (edge_mask cfg) e = crossing cfg e /\
  (crossing cfg e = true <-> In e (tri_row cfg)) /\
  (N.of_nat (length (tri_row cfg)) mod 3 = 0)%N /\
  (forall a b c, In (a, b, c) (local_tris cfg) -> a <> b /\ b <> c /\ a <> c).
Proof. exact table_complete. Qed.
Print Assumptions C06_table_complete.

(* 256 configurations x 256 window masks x 12 edges: a sign-changing edge with at most one corner inside the
   window (bit c of sm) whose vertex is not shared with another sign-changing edge of the cell lies in a
   triangle of the row whose three vertices stay pairwise distinct (dpos: vertex position in doubled cell
   coordinates, 0/2 = snapped onto a corner, 1 = strictly inside the edge) *)
Theorem C06_table_alive : forall cfg sm e, (cfg < 256)%N -> (sm < 256)%N -> (e < 12)%N ->
  crossing cfg e = true -> notboth_i sm (einfo e) = true ->
  (forall e', (e' < 12)%N -> crossing cfg e' = true -> e' <> e -> pt_eqb (dpos sm e') (dpos sm e) = false) ->
  exists t, In t (local_tris cfg) /\ uses e t = true /\ alive sm t = true.
Proof. exact alive_sound_gen. Qed.
Print Assumptions C06_table_alive.

(* in ANY cell (any eight positions of a lattice with positive increments, any eight values) a sign-changing
   edge whose two end values are outside the window carries a vertex of a triangle the cell emits *)
Theorem C06_cell_edge_complete : forall (L : lattice3 ROps) (f : RV3 -> R),
  0 < wx (linc L) /\ 0 < wy (linc L) /\ 0 < wz (linc L) ->
  forall p e, (e < 12)%N -> crossing (cfg_at (sgnR (lval L f) 0) p) e = true ->
    snp L f (addp p (fst (ledge e))) = false -> snp L f (addp p (far_of (ledge e))) = false ->
    exists t, In t (@mc_to_triangles ROps (cell_p (lpoint L) p) (cell_v (lval L f) p) 0) /\
              In (vposR (lpoint L) (lval L f) 0 (shiftv p (ledge e))) (tri_vertices t).
Proof. exact cell_edge_complete. Qed.
Print Assumptions C06_cell_edge_complete.

(* lattice-edge completeness: two lattice points of the sampled lattice one step apart whose values have
   different sign and are both outside the window: the linear zero crossing between them (t0 strictly between
   0 and 1) is a vertex of an emitted triangle of marching_cubes L f, whatever all other lattice values are *)
Theorem C06_lattice_edge_complete : forall (L : lattice3 ROps) (f : RV3 -> R),
  0 < wx (linc L) /\ 0 < wy (linc L) /\ 0 < wz (linc L) ->
  forall q q', (0 < lnx L)%nat -> (0 < lny L)%nat -> (0 < lnz L)%nat ->
    in_lattice (lnx L) (lny L) (lnz L) q -> in_lattice (lnx L) (lny L) (lnz L) q' -> lattice_step q q' ->
    straddles (lval L f q) (lval L f q') 0 -> @eps ROps <= Rabs (lval L f q) -> @eps ROps <= Rabs (lval L f q') ->
    let t0 := - lval L f q / (lval L f q' - lval L f q) in
    let w := lerp3 (lpoint L q) (lpoint L q') t0 in
    0 < t0 < 1 /\ lerp (lval L f q) (lval L f q') t0 = 0 /\ crossing_of f (lpoint L q) (lpoint L q') w /\
    exists t, In t (@marching_cubes ROps L f) /\ In w (tri_vertices t).
Proof. exact lattice_edge_complete. Qed.
Print Assumptions C06_lattice_edge_complete.

(* one end value inside the window: the lattice point z itself is an emitted vertex, provided q is the only
   lattice neighbour of z outside the window whose sign differs from that of z *)
Theorem C06_lattice_edge_complete_snap : forall (L : lattice3 ROps) (f : RV3 -> R),
  0 < wx (linc L) /\ 0 < wy (linc L) /\ 0 < wz (linc L) ->
  forall q z, (0 < lnx L)%nat -> (0 < lny L)%nat -> (0 < lnz L)%nat ->
    in_lattice (lnx L) (lny L) (lnz L) q -> in_lattice (lnx L) (lny L) (lnz L) z -> lattice_step q z ->
    straddles (lval L f q) (lval L f z) 0 -> @eps ROps <= Rabs (lval L f q) -> Rabs (lval L f z) < @eps ROps ->
    (forall m, in_lattice (lnx L) (lny L) (lnz L) m -> lattice_step z m -> m <> q ->
               sgnR (lval L f) 0 m = sgnR (lval L f) 0 z \/ Rabs (lval L f m) < @eps ROps) ->
    crossing_of f (lpoint L q) (lpoint L z) (lpoint L z) /\
    exists t, In t (@marching_cubes ROps L f) /\ In (lpoint L z) (tri_vertices t).
Proof. exact lattice_edge_complete_snap. Qed.
Print Assumptions C06_lattice_edge_complete_snap.

(* a cell that emits nothing has no sign change between two values outside the window: every sign-changing
   edge of it has an end with |f| < epsilon *)
Theorem C06_mixed_cell_empty_only_if : forall (L : lattice3 ROps) (f : RV3 -> R),
  0 < wx (linc L) /\ 0 < wy (linc L) /\ 0 < wz (linc L) ->
  forall p, @mc_to_triangles ROps (cell_p (lpoint L) p) (cell_v (lval L f) p) 0 = [] ->
  forall e, (e < 12)%N -> crossing (cfg_at (sgnR (lval L f) 0) p) e = true ->
    snp L f (addp p (fst (ledge e))) = true \/ snp L f (addp p (far_of (ledge e))) = true.
Proof. exact mixed_cell_empty_only_if. Qed.
Print Assumptions C06_mixed_cell_empty_only_if.

(* no lattice value of the sampled lattice inside the window: every triangle of every cell has three pairwise
   distinct vertices, Degenerate removes nothing, the emitted mesh is the image of the abstract mesh of C05 *)
Theorem C06_nosnap_nothing_removed : forall (L : lattice3 ROps) (f : RV3 -> R),
  0 < wx (linc L) /\ 0 < wy (linc L) /\ 0 < wz (linc L) ->
  (forall q, in_lattice (lnx L) (lny L) (lnz L) q -> @eps ROps <= Rabs (lval L f q)) ->
  @marching_cubes ROps L f =
  map (mapT (vposR (lpoint L) (lval L f) 0)) (mesh (lnx L) (lny L) (lnz L) (sgnR (lval L f) 0)).
Proof. exact nosnap_nothing_removed. Qed.
Print Assumptions C06_nosnap_nothing_removed.

(* complete_resolvable: s a point with two open balls of radius r > diag/2 tangent at s (centres s - r n and
   s + r n, |n| = 1), the first inside {f < 0}, the second inside {f > 0}; the closed ball of radius diag
   around s inside the sampled box; no lattice point within diag of s has its value inside the window.  Then
   the emitted mesh has a vertex within ONE cell diagonal of s, and that vertex is the linear zero crossing on
   a lattice edge.  (f arbitrary otherwise: no continuity or Lipschitz condition.)
   PARTIAL with respect to the property sentence "every surface point the lattice can resolve is within one
   cell diagonal of the mesh": the condition on the window.  It is relaxed by C06_complete_resolvable_gen
   (window values allowed when every such lattice point has at most one neighbour of the other sign, that one
   outside the window: planes and box faces lying in lattice planes), it is not needed for the mesh before the
   removal of degenerate triangles (C06_complete_resolvable_unfiltered), and it cannot be dropped for
   arbitrary fields (C06_complete_snap_refuted).  Open: fields that are distance-like near the surface with
   lattice values inside the window in general position (a surface passing within 1e-12 of a lattice point
   obliquely).  The octree renderer: C06_octree_same_triangles / C06_octree_complete_resolvable below. *)
Theorem C06_complete_resolvable_partial : forall (L : lattice3 ROps) (f : RV3 -> R),
  0 < wx (linc L) /\ 0 < wy (linc L) /\ 0 < wz (linc L) ->
  forall (s n : RV3) (r : R), len3 n = 1 -> diag L / 2 < r ->
    (forall p, dist3 p (offs s n (- r)) < r -> f p < 0) -> (forall p, dist3 p (offs s n r) < r -> 0 < f p) ->
    ball_in_sample_box L s (diag L) ->
    (forall q, in_lattice (lnx L) (lny L) (lnz L) q -> dist3 (lpoint L q) s <= diag L -> @eps ROps <= Rabs (lval L f q)) ->
    exists t w, In t (@marching_cubes ROps L f) /\ In w (tri_vertices t) /\ dist3 w s <= diag L /\
      exists q q', in_lattice (lnx L) (lny L) (lnz L) q /\ in_lattice (lnx L) (lny L) (lnz L) q' /\ lattice_step q q' /\
                   crossing_of f (lpoint L q) (lpoint L q') w /\
                   w = lerp3 (lpoint L q) (lpoint L q') (- lval L f q / (lval L f q' - lval L f q)) /\
                   lerp (lval L f q) (lval L f q') (- lval L f q / (lval L f q' - lval L f q)) = 0.
Proof. exact complete_resolvable. Qed.
Print Assumptions C06_complete_resolvable_partial.

Theorem C06_complete_resolvable_gen : forall (L : lattice3 ROps) (f : RV3 -> R),
  0 < wx (linc L) /\ 0 < wy (linc L) /\ 0 < wz (linc L) ->
  forall (s n : RV3) (r : R), len3 n = 1 -> diag L / 2 < r ->
    (forall p, dist3 p (offs s n (- r)) < r -> f p < 0) -> (forall p, dist3 p (offs s n r) < r -> 0 < f p) ->
    ball_in_sample_box L s (diag L) -> window_regular L f s ->
    exists t w, In t (@marching_cubes ROps L f) /\ In w (tri_vertices t) /\ dist3 w s <= diag L /\
      exists q q', in_lattice (lnx L) (lny L) (lnz L) q /\ in_lattice (lnx L) (lny L) (lnz L) q' /\ lattice_step q q' /\
                   crossing_of f (lpoint L q) (lpoint L q') w.
Proof. exact complete_resolvable_gen. Qed.
Print Assumptions C06_complete_resolvable_gen.

(* no condition on the values at all: the mesh BEFORE the removal of degenerate triangles (the emitted mesh is
   its filter) has a vertex within one cell diagonal of s *)
Theorem C06_complete_resolvable_unfiltered : forall (L : lattice3 ROps) (f : RV3 -> R),
  0 < wx (linc L) /\ 0 < wy (linc L) /\ 0 < wz (linc L) ->
  forall (s n : RV3) (r : R), len3 n = 1 -> diag L / 2 < r ->
    (forall p, dist3 p (offs s n (- r)) < r -> f p < 0) -> (forall p, dist3 p (offs s n r) < r -> 0 < f p) ->
    ball_in_sample_box L s (diag L) ->
    @marching_cubes ROps L f =
      filter nondegR (map (mapT (vposR (lpoint L) (lval L f) 0)) (mesh (lnx L) (lny L) (lnz L) (sgnR (lval L f) 0))) /\
    exists u w, In u (mesh (lnx L) (lny L) (lnz L) (sgnR (lval L f) 0)) /\
                In w (tri_vertices (mapT (vposR (lpoint L) (lval L f) 0) u)) /\ dist3 w s <= diag L.
Proof. exact complete_resolvable_unfiltered. Qed.
Print Assumptions C06_complete_resolvable_unfiltered.

(* the octree renderer: for a 1-Lipschitz field (what the pruning of C07 needs) it emits exactly the triangles of
   the uniform walk over the lattice of its finest cells (base oct_point v, increment 2 res, 2^m cells per axis),
   so every statement above holds for it; the geometric one is spelled out *)
Theorem C06_octree_same_triangles : forall (origin : RV3) (res : R) (f : RV3 -> R), 0 <= res -> lip3 f -> forall m v t,
  In t (@octree ROps origin res (fv3 origin res f) m v) <-> In t (@marching_cubes ROps (oct_lattice origin res m v) f).
Proof. exact octree_same_triangles. Qed.
Print Assumptions C06_octree_same_triangles.

Theorem C06_octree_complete_resolvable_partial : forall (origin : RV3) (res : R) (f : RV3 -> R), 0 < res -> lip3 f ->
  forall m v (s n : RV3) (r : R),
  let L := oct_lattice origin res m v in
  len3 n = 1 -> diag L / 2 < r ->
  (forall p, dist3 p (offs s n (- r)) < r -> f p < 0) -> (forall p, dist3 p (offs s n r) < r -> 0 < f p) ->
  ball_in_sample_box L s (diag L) ->
  (forall q, in_lattice (lnx L) (lny L) (lnz L) q -> dist3 (lpoint L q) s <= diag L -> @eps ROps <= Rabs (lval L f q)) ->
  exists t w, In t (@octree ROps origin res (fv3 origin res f) m v) /\ In w (tri_vertices t) /\ dist3 w s <= diag L.
Proof. exact octree_complete_resolvable. Qed.
Print Assumptions C06_octree_complete_resolvable_partial.

(* the window condition cannot be dropped for arbitrary fields: a field whose only negative lattice value lies
   in (-epsilon, 0) renders to the empty mesh (every crossing vertex snaps onto that lattice point, every
   triangle is degenerate) ... *)
Theorem C06_lonely_snap_empty : forall (L : lattice3 ROps) (f : RV3 -> R) z0,
  (forall q, lval L f q < 0 -> q = z0) -> - @eps ROps < lval L f z0 -> (forall q, q <> z0 -> @eps ROps <= lval L f q) ->
  @marching_cubes ROps L f = [].
Proof. exact lonely_snap_empty. Qed.
Print Assumptions C06_lonely_snap_empty.

(* ... and such a field exists with a resolvable surface: the witness is the unit lattice of 6^3 cells, the field
   -epsilon/2 inside the ball of radius 9/10 about the lattice point (3,3,3) and 1 outside, s = (3.9, 3, 3) *)
Theorem C06_complete_snap_refuted : exists (L : lattice3 ROps) (f : RV3 -> R) (s n : RV3) (r : R),
  (0 < wx (linc L) /\ 0 < wy (linc L) /\ 0 < wz (linc L)) /\ len3 n = 1 /\ diag L / 2 < r /\
  (forall p, dist3 p (offs s n (- r)) < r -> f p < 0) /\ (forall p, dist3 p (offs s n r) < r -> 0 < f p) /\
  ball_in_sample_box L s (diag L) /\ @marching_cubes ROps L f = [].
Proof. exact snap_refuted. Qed.
Print Assumptions C06_complete_snap_refuted.

(* hypotheses are satisfiable *)
Example C06_sphere_straddles : let f := fun p : RV3 => dist3 p (mkV3 0 0 0) - 1 in
  straddles (f (mkV3 0 0 0)) (f (mkV3 2 0 0)) 0.
Proof.
  cbv zeta. left. unfold dist3, len3, NormR.sub3. cbn [wx wy wz].
  replace ((0 - 0) * (0 - 0) + (0 - 0) * (0 - 0) + (0 - 0) * (0 - 0)) with 0 by ring.
  replace ((2 - 0) * (2 - 0) + (0 - 0) * (0 - 0) + (0 - 0) * (0 - 0)) with (2 * 2) by ring.
  rewrite sqrt_0, sqrt_square by lra. lra.
Qed.
Example C06_affine_instance : affine3 (fun p => 2 * wx p - wy p + 3).
Proof. exists 2, (-1), 0, 3. intros p. ring. Qed.

(* the hypotheses of C06_complete_resolvable_partial hold for the plane x = 5/2 on the unit lattice of 5^3 cells *)
Example C06_resolvable_plane_instance :
  let L := unitL 5 in let s := mkV3 (5 / 2) (5 / 2) (5 / 2) in let n := mkV3 1 0 0 in
  (0 < wx (linc L) /\ 0 < wy (linc L) /\ 0 < wz (linc L)) /\ len3 n = 1 /\ diag L / 2 < 1 /\
  (forall p, dist3 p (offs s n (- 1)) < 1 -> plane_field p < 0) /\ (forall p, dist3 p (offs s n 1) < 1 -> 0 < plane_field p) /\
  ball_in_sample_box L s (diag L) /\
  (forall q, in_lattice (lnx L) (lny L) (lnz L) q -> dist3 (lpoint L q) s <= diag L -> @eps ROps <= Rabs (lval L plane_field q)).
Proof. exact plane_example. Qed.
(* those of C06_complete_resolvable_gen hold, with lattice values inside the window, for the plane x = 2 lying in a
   lattice plane of the unit lattice of 4^3 cells, s the lattice point (2,2,2) *)
Example C06_resolvable_aligned_plane_instance :
  let L := unitL 4 in let s := mkV3 2 2 2 in let n := mkV3 1 0 0 in
  (0 < wx (linc L) /\ 0 < wy (linc L) /\ 0 < wz (linc L)) /\ len3 n = 1 /\ diag L / 2 < 1 /\
  (forall p, dist3 p (offs s n (- 1)) < 1 -> aligned_field p < 0) /\ (forall p, dist3 p (offs s n 1) < 1 -> 0 < aligned_field p) /\
  ball_in_sample_box L s (diag L) /\ window_regular L aligned_field s /\
  Rabs (lval L aligned_field (2, 2, 2)%Z) < @eps ROps.
Proof. exact aligned_plane_example. Qed.

(* ---------------------------------------------------------------- syntactic tie to the Go source
   Generated/RenderExpr.v is re-translated from the Go AST of the current source tree on every run
   (harness/rendergen); Render/GenEqRender.v and Render/GenEqMC.v prove the generated definitions equal to the model the
   theorems above are about, for all arguments over an arbitrary Ops (all of them: Props/TRANSLR.v).
   Each theorem below breaks when the Go function it is named after changes what it computes. *)
From Coq Require Import ZArith List.
Import ListNotations.
From Sdfx Require Num.Ops Geo.Vec Geo.Box Render.Interp Render.Octree Render.Sample Generated.RenderExpr Render.GenEqRender Render.GenEqMC.
Import Num.Ops Geo.Vec.

Theorem C06_TRANSL_mcInterpolate : forall (O : Ops) (p1 p2 : V3 O) (v1 v2 x : T O),
    RenderExpr.rg_render_mcInterpolate p1 p2 v1 v2 x = Interp.mc_interpolate p1 p2 v1 v2 x.
Proof. exact (@GenEqRender.mcInterpolate_eq). Qed.
Print Assumptions C06_TRANSL_mcInterpolate.

Theorem C06_TRANSL_mcToTriangles : forall (O : Ops) (p0 p1 p2 p3 p4 p5 p6 p7 : V3 O) (v0 v1 v2 v3 v4 v5 v6 v7 x : T O),
    RenderExpr.rg_render_mcToTriangles [p0; p1; p2; p3; p4; p5; p6; p7] [v0; v1; v2; v3; v4; v5; v6; v7] x =
    Interp.mc_to_triangles (Octree.sel8 p0 p1 p2 p3 p4 p5 p6 p7) (Octree.sel8 v0 v1 v2 v3 v4 v5 v6 v7) x.
Proof. exact (@GenEqMC.mcToTriangles_eq). Qed.
Print Assumptions C06_TRANSL_mcToTriangles.

Theorem C06_TRANSL_marchingCubes_lattice_prefix : forall (O : Ops) (box : Geo.Box.Box3 O) (step : T O),
    RenderExpr.rg_render_marchingCubes box step =
    (Sample.lbase (Sample.mc_lattice box step), Sample.linc (Sample.mc_lattice box step), Sample.lsteps (Sample.mc_lattice box step)).
Proof. exact (@GenEqRender.marchingCubes_lattice_eq). Qed.
Print Assumptions C06_TRANSL_marchingCubes_lattice_prefix.

Theorem C06_TRANSL_MarchingCubesUniform_box_prefix : forall (O : Ops) (meshCells : Z) (bb0 : Geo.Box.Box3 O),
    RenderExpr.rg_render_MarchingCubesUniform_Render meshCells bb0 = Sample.mcu_box bb0 meshCells.
Proof. exact (@GenEqRender.mcu_box_eq). Qed.
Print Assumptions C06_TRANSL_MarchingCubesUniform_box_prefix.

Theorem C06_TRANSL_layerYZ_Get : forall (O : Ops) (L : Sample.lattice3 O) (v0 v1 : list (T O)) (x : Z) (y z : nat),
    (0 <= snd (Sample.lsteps L))%Z ->
    RenderExpr.rg_render_layerYZ_Get (Sample.lsteps L) v0 v1 x (Z.of_nat y) (Z.of_nat z) = Sample.lget L (if (x =? 0)%Z then v0 else v1) y z.
Proof. exact (@GenEqRender.layerYZ_Get_eq). Qed.
Print Assumptions C06_TRANSL_layerYZ_Get.

(* ---- inventory of mutable state (DESIGN.md 2.3).  The models above are functions of their arguments; they are
   faithful only as long as the code keeps no state between calls beyond what they mention.  The package-level
   variables and struct fields in the scope of C06 (and which of them are written outside construction, from which
   entry points) are regenerated from the current source on every run (harness/stategen -> Generated/StateInv.v)
   and contain no state beyond the expected, reviewed inventory of Sys/StateInvSpec.v, where every piece of state
   that legitimately exists names the model component that accounts for it.  Breaks when a written package-level
   variable, a struct field, or a write of a field outside its constructor is added in scope (coqc then prints the
   differences); tolerates moved declarations, reordered fields, renamed locals, new helpers / constants / tables
   nothing writes. *)
From Sdfx Require Sys.StateInvSpec Sys.StateInvC06.
Theorem C06_state_inventory : Sdfx.Sys.StateInvSpec.state_ok_C06 = true.
Proof. exact Sdfx.Sys.StateInvC06.C06_state_inventory. Qed.
Print Assumptions C06_state_inventory.
