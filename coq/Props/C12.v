(* C12 - rendering always returns; goroutines do not accumulate.
   Theorems only; see DESIGN.md section 6 (C12).  Model: Sys/Pipeline.v. *)
From Coq Require Import List Arith NArith.
From Sdfx Require Import Sys.Pipeline.
From Sdfx Require Import Generated.BufferConsts.
Import ListNotations.

(* Repaired protocol (the writer keeps draining the channel after a write error):
   for all batch lists and all failure points, every execution is finite
   (at most `measure` steps) and the only states without an enabled step are those
   where the call has returned, the writer goroutine has finished and nothing is
   left unsent; the file is then either complete or cut at the failing item with the
   header left untouched. *)
Theorem C12_always_returns : forall (A : Type) (batches : list (list A)) (fail : option nat),
  (forall s n s', reachable Repaired fail (init batches) s -> path Repaired fail s n s' -> n <= measure s) /\
  (forall s, reachable Repaired fail (init batches) s -> stuck Repaired fail s ->
             main_done s = true /\ con s = Done /\ todo s = [] /\
             ((complete batches s /\ (forall f, fail = Some f -> length (concat batches) <= f))
              \/ truncated fail batches s)).
Proof. exact repaired_always_returns. Qed.
Print Assumptions C12_always_returns.

(* When the output cannot be created the call returns without starting anything. *)
Theorem C12_create_failure_returns : forall (A : Type) (batches : list (list A)),
  call_returned (start false batches) = true.
Proof. exact create_failure_returns. Qed.
Print Assumptions C12_create_failure_returns.

(* The scheduler evaluated in the cases files produces a maximal execution, so by
   C12_always_returns its outcome is the outcome of every execution. *)
Theorem C12_final_is_maximal : forall (A : Type) (P : proto) (fail : option nat) (batches : list (list A)),
  reachable P fail (init batches) (final P fail batches) /\ stuck P fail (final P fail batches).
Proof. exact final_is_maximal. Qed.
Print Assumptions C12_final_is_maximal.

(* Worker pool started once: after any history of renders at most NumCPU pool
   goroutines exist (exactly NumCPU once a pool-using renderer has run). *)
Theorem C12_goroutines_bounded : forall ncpu history, spawned Repaired ncpu history <= ncpu.
Proof. exact goroutines_bounded. Qed.
Print Assumptions C12_goroutines_bounded.

Theorem C12_goroutines_exact : forall ncpu history,
  spawned Repaired ncpu history = if existsb (fun u => u) history then ncpu else 0.
Proof. exact spawned_repaired_exact. Qed.
Print Assumptions C12_goroutines_exact.

(* The pinned code (writer returns on the first write error): whenever the failing
   item lies in a batch that is not the last one, a deadlock is reachable: the
   renderer is blocked on its send, the writer has returned, ToSTL never returns. *)
Theorem C12_hang_refuted : forall (A : Type) (pre : list (list A)) (b : list A) (post : list (list A)) (f : nat),
  post <> [] -> length (concat pre) <= f < length (concat pre) + length b ->
  exists s, reachable Pinned (Some f) (init (pre ++ b :: post)) s /\ deadlocked Pinned (Some f) s.
Proof. exact pinned_hang. Qed.
Print Assumptions C12_hang_refuted.

(* The pinned code starts NumCPU workers per uniform marching-cubes render: linear growth. *)
Theorem C12_leak_refuted : forall ncpu k, spawned Pinned ncpu (repeat true k) = k * ncpu.
Proof. exact pinned_leak. Qed.
Print Assumptions C12_leak_refuted.

(* non-vacuity / witnesses: ToSTL to /dev/full with 3 full buffers - the 81st
   triangle's write fails (first 4096-byte flush), two batches are still to come
   (three Writes of tBufferSize triangles, the threshold read from the source). *)
Example C12_hang_witness :
  fst (predicted Pinned (batches_of tBufferSize [(tBufferSize, 3)]) (Some 80) true) = false /\
  fst (predicted Repaired (batches_of tBufferSize [(tBufferSize, 3)]) (Some 80) true) = true.
Proof. split; vm_compute; reflexivity. Qed.

Example C12_leak_witness : spawned Pinned 16 (repeat true 5) = 80 /\ spawned Repaired 16 (repeat true 5) = 16.
Proof. split; vm_compute; reflexivity. Qed.
