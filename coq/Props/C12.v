(* C12 - rendering always returns; goroutines do not accumulate.
   Theorems only; see DESIGN.md section 6 (C12).  Model: Sys/Pipeline.v.
   Tie to the source: Generated/SysProgs.v holds the statement skeleton of ToTriangles / ToSTL /
   To3MF / ToDXF / ToSVG, of WriteTriangles / writeSTL / write3MF / writeDXF / writeSVG with their
   writer goroutines, of evalRoutines and of marchingCubes, extracted from the current Go source
   (harness/sysgen); Sys/PipeProg.v gives a call (driver + writer function + goroutine) a
   small-step meaning and proves it a refinement of Pipeline.v; Sys/PoolProg.v does the same
   for the goroutine pool.  The C12_source_* theorems are about the GENERATED programs. *)
From Coq Require Import String.
From Coq Require Import List Arith NArith.
From Sdfx Require Import Sys.SysLang.
From Sdfx Require Import Sys.Pipeline.
From Sdfx Require Import Sys.PipeProg Sys.PoolProg.
From Sdfx Require Import Generated.BufferConsts Generated.SysProgs.
From Sdfx Require Import Sys.SysProgsC12.
Import ListNotations.

(* Repaired protocol (the writer keeps draining the channel after a write error):
   for all batch lists and all failure points, every execution is finite
   (at most `measure` steps) and the only states without an enabled step are those
   where the call has returned, the writer goroutine has finished and nothing is
   left unsent; the file is then either complete (finalised iff the finalisation calls -
   header rewrite, encode, save - succeed, fin_ok) or cut at the failing item with the
   header left untouched. *)
Theorem C12_always_returns : forall (A : Type) (batches : list (list A)) (fail : option nat) (fin_ok : bool),
  (forall s n s', reachable Repaired fail fin_ok (init batches) s -> path Repaired fail fin_ok s n s' -> n <= measure s) /\
  (forall s, reachable Repaired fail fin_ok (init batches) s -> stuck Repaired fail fin_ok s ->
             main_done s = true /\ con s = Done /\ todo s = [] /\
             ((complete fin_ok batches s /\ (forall f, fail = Some f -> length (concat batches) <= f))
              \/ truncated fail batches s)).
Proof. exact repaired_always_returns. Qed.
Print Assumptions C12_always_returns.

(* When the output cannot be created the call returns without starting anything. *)
Theorem C12_create_failure_returns : forall (A : Type) (batches : list (list A)),
  call_returned (start false batches) = true.
Proof. exact create_failure_returns. Qed.
Print Assumptions C12_create_failure_returns.

(* The scheduler evaluated in the cases files produces a maximal execution, so by
   C12_always_returns its outcome is the outcome of every execution. *)
Theorem C12_final_is_maximal : forall (A : Type) (P : proto) (fail : option nat) (fin_ok : bool) (batches : list (list A)),
  reachable P fail fin_ok (init batches) (final P fail fin_ok batches) /\ stuck P fail fin_ok (final P fail fin_ok batches).
Proof. exact final_is_maximal. Qed.
Print Assumptions C12_final_is_maximal.

(* Worker pool started once: after any history of renders at most NumCPU pool
   goroutines exist (exactly NumCPU once a pool-using renderer has run). *)
Theorem C12_goroutines_bounded : forall ncpu history, spawned Repaired ncpu history <= ncpu.
Proof. exact goroutines_bounded. Qed.
Print Assumptions C12_goroutines_bounded.

Theorem C12_goroutines_exact : forall ncpu history,
  spawned Repaired ncpu history = if existsb (fun u => u) history then ncpu else 0.
Proof. exact spawned_repaired_exact. Qed.
Print Assumptions C12_goroutines_exact.

(* The pinned code (writer returns on the first write error): whenever the failing
   item lies in a batch that is not the last one, a deadlock is reachable: the
   renderer is blocked on its send, the writer has returned, ToSTL never returns. *)
Theorem C12_hang_refuted : forall (A : Type) (fin_ok : bool) (pre : list (list A)) (b : list A) (post : list (list A)) (f : nat),
  post <> [] -> length (concat pre) <= f < length (concat pre) + length b ->
  exists s, reachable Pinned (Some f) fin_ok (init (pre ++ b :: post)) s /\ deadlocked fin_ok Pinned (Some f) s.
Proof. exact pinned_hang. Qed.
Print Assumptions C12_hang_refuted.

(* The pinned code starts NumCPU workers per uniform marching-cubes render: linear growth. *)
Theorem C12_leak_refuted : forall ncpu k, spawned Pinned ncpu (repeat true k) = k * ncpu.
Proof. exact pinned_leak. Qed.
Print Assumptions C12_leak_refuted.

(* ------------------------------------------------------------------ tie to the source by translation *)

(* A call = a To* driver with the writeXXX function it names and that function's goroutine, as
   found in the source.  `source_call_returns A dp wp wn bn` (Sys/PipeProg.v) says: the two
   programs parse (driver: create, render, close(channel), Wait in this order; writer: creating
   calls that return their error, unbuffered channel, wg.Add(1) BEFORE the go statement; goroutine:
   deferred wg.Done(), receive loop, item loop whose error path drains the channel before it
   returns, finalisation whose error paths return), the driver names writer wn and buffer bn, a
   writer that can fail has a driver that returns on the error, and therefore, in the
   small-step semantics of the call - every interleaving of caller, renderer sends and writer
   goroutine; a write error at ANY item or none; ANY subset of the finalisation calls failing;
   ANY of the creating calls failing -
     * every execution is finite (bounded by a measure of the initial state), and
     * an execution can only stop with the caller returned and the WaitGroup at zero, and either
       nothing was started (the output could not be created) or the goroutine is gone, nothing
       is unsent and the output is complete (finalised iff the finalisation succeeded) or cut
       exactly at the failing item.
   The semantics is a refinement of Pipeline.v: PipeProg.sim_step maps every step to a step
   of Pipeline.next or to no step. *)
Theorem C12_source_ToSTL_returns : forall A : Type,
  source_call_returns A ToSTL writeSTL "writeSTL"%string "Triangle3Buffer"%string.
Proof. exact ToSTL_returns. Qed.
Print Assumptions C12_source_ToSTL_returns.

Theorem C12_source_To3MF_returns : forall A : Type,
  source_call_returns A To3MF write3MF "write3MF"%string "Triangle3Buffer"%string.
Proof. exact To3MF_returns. Qed.
Print Assumptions C12_source_To3MF_returns.

Theorem C12_source_ToDXF_returns : forall A : Type,
  source_call_returns A ToDXF writeDXF "writeDXF"%string "Line2Buffer"%string.
Proof. exact ToDXF_returns. Qed.
Print Assumptions C12_source_ToDXF_returns.

Theorem C12_source_ToSVG_returns : forall A : Type,
  source_call_returns A ToSVG writeSVG "writeSVG"%string "Line2Buffer"%string.
Proof. exact ToSVG_returns. Qed.
Print Assumptions C12_source_ToSVG_returns.

Theorem C12_source_ToTriangles_returns : forall A : Type,
  source_call_returns A ToTriangles WriteTriangles "WriteTriangles"%string "Triangle3Buffer"%string.
Proof. exact ToTriangles_returns. Qed.
Print Assumptions C12_source_ToTriangles_returns.

(* The semantics of a call refines Pipeline.v, for every consumer of the grammar (draining or
   not: protocol Repaired resp. Pinned), every driver, every failure choice: each step is a step
   of Pipeline.next on the abstracted state or leaves it unchanged and decreases a rank. *)
Theorem C12_source_semantics_refines_model :
  forall (A : Type) (K : consumer) (opens : nat) (hret : bool) (fail : option nat) (ffail : prim -> bool) (cfail : option nat),
    create_fails opens cfail = false ->
    forall c c' : ist A, IInv K c -> istep K opens hret fail ffail cfail c c' ->
      Pipeline.step (PipeProg.P K) (pfail K fail) (PipeProg.fin_ok K ffail) (abs K ffail c) (abs K ffail c') \/
      (abs K ffail c' = abs K ffail c /\ rank K c' < rank K c).
Proof. exact sim_step. Qed.
Print Assumptions C12_source_semantics_refines_model.

(* The pool: the extracted evalRoutines starts one routine per CPU; the extracted
   marchingCubes starts them through a sync.Once before it evaluates the first layer; the
   effect on the pool is render_pool Repaired, for every CPU count and every pool state. *)
Theorem C12_source_pool_started_once : forall (ncpu : nat) (pl : pool),
  pool_stmts "evalRoutines"%string (go_count ncpu (strip evalRoutines)) (strip marchingCubes) pl
    = Some (render_pool Repaired ncpu pl true) /\
  starts_before_eval (strip marchingCubes) = true.
Proof. exact source_pool. Qed.
Print Assumptions C12_source_pool_started_once.

(* non-vacuity / witnesses: ToSTL to /dev/full with 3 full buffers - the 81st
   triangle's write fails (first 4096-byte flush), two batches are still to come
   (three Writes of tBufferSize triangles, the threshold read from the source). *)
Example C12_hang_witness :
  fst (predicted Pinned (batches_of tBufferSize [(tBufferSize, 3)]) (Some 80) true) = false /\
  fst (predicted Repaired (batches_of tBufferSize [(tBufferSize, 3)]) (Some 80) true) = true.
Proof. split; vm_compute; reflexivity. Qed.

Example C12_leak_witness : spawned Pinned 16 (repeat true 5) = 80 /\ spawned Repaired 16 (repeat true 5) = 16.
Proof. split; vm_compute; reflexivity. Qed.

(* non-vacuity of the source-level theorems, stated independently of how the source spells the
   calls: the writer goroutine of writeSTL tests its writes and drains the channel on an error;
   for ToSVG / writeSVG and ToSTL / writeSTL the pair is in order - a writer that can fail to
   open has a driver that returns on the error (either disjunct may be the one that holds: ToSVG's
   handler need not return as long as writeSVG cannot fail before its goroutine is started). *)
Example C12_source_shapes :
  (exists w, parse_writer (strip writeSTL) = Some w /\ k_fallible (w_cons w) = true /\ k_drain (w_cons w) = true) /\
  (exists d w, parse_driver (strip ToSVG) = Some d /\ parse_writer (strip writeSVG) = Some w /\
     (w_opens w = 0 \/ d_returns d = true) /\ k_drain (w_cons w) = true) /\
  (exists d w, parse_driver (strip ToSTL) = Some d /\ parse_writer (strip writeSTL) = Some w /\
     (w_opens w = 0 \/ d_returns d = true) /\ k_drain (w_cons w) = true).
Proof.
  split; [|split].
  - eexists. split; [vm_compute; reflexivity|]. split; vm_compute; reflexivity.
  - eexists. eexists. split; [vm_compute; reflexivity|]. split; [vm_compute; reflexivity|].
    split; [first [left; vm_compute; reflexivity | right; vm_compute; reflexivity] | vm_compute; reflexivity].
  - eexists. eexists. split; [vm_compute; reflexivity|]. split; [vm_compute; reflexivity|].
    split; [first [left; vm_compute; reflexivity | right; vm_compute; reflexivity] | vm_compute; reflexivity].
Qed.

(* The semantics is not vacuously safe: run on the PINNED error path (the goroutine of writeSTL
   with `return` instead of `for range c {}; return`) with a write error at item 1 of three
   batches, it stops with the caller blocked in Render, two batches unsent and the goroutine
   gone; and a writer that can fail under a driver whose handler does not return (ToSVG's
   shape) stops with the caller blocked in Render and no goroutine at all. *)
Example C12_source_semantics_exhibits_hang :
  (forall K, parse_consumer [Defer PWgDone; Defer PCloseFile; RangeChan [RangeItems [IfErr PWriteItem [Return]; Do PCount]]] = Some K ->
     let c := iexec K 0 true (Some 1) (fun _ => false) None 200 (iinit [[1; 2; 3]; [4; 5]; [6]]) in
     i_m c = MRender /\ i_k c = Some KExit /\ i_todo c = [[4; 5]; [6]] /\ i_out c = [1] /\
     inext K 0 true (Some 1) (fun _ => false) None c = []) /\
  (forall K, parse_consumer [Defer PWgDone; RangeChan [RangeItems [Do PAccItem]]] = Some K ->
     let c := iexec K 1 false None (fun _ => false) (Some 0) 200 (iinit [[1; 2; 3]]) in
     i_m c = MRender /\ i_k c = None /\ inext K 1 false None (fun _ => false) (Some 0) c = []).
Proof.
  split; intros K H; vm_compute in H; inversion H; subst K; vm_compute; repeat split; reflexivity.
Qed.

(* ---- inventory of mutable state (DESIGN.md 2.3).  The models above are functions of their arguments; they are
   faithful only as long as the code keeps no state between calls beyond what they mention.  The package-level
   variables and struct fields in the scope of C12 (and which of them are written outside construction, from which
   entry points) are regenerated from the current source on every run (harness/stategen -> Generated/StateInv.v)
   and contain no state beyond the expected, reviewed inventory of Sys/StateInvSpec.v, where every piece of state
   that legitimately exists names the model component that accounts for it.  Breaks when a written package-level
   variable, a struct field, or a write of a field outside its constructor is added in scope (coqc then prints the
   differences); tolerates moved declarations, reordered fields, renamed locals, new helpers / constants / tables
   nothing writes. *)
From Sdfx Require Sys.StateInvSpec Sys.StateInvC12.
Theorem C12_state_inventory : Sdfx.Sys.StateInvSpec.state_ok_C12 = true.
Proof. exact Sdfx.Sys.StateInvC12.C12_state_inventory. Qed.
Print Assumptions C12_state_inventory.
