(* Vocabulary of Generated/IoExpr.v (produced by harness/iogen from the Go AST of
   render/stl.go, render/3mf.go, render/dxf.go, render/svg.go, sdf/triangle3.go and the
   vector methods they call): the part of Go and of its standard library those
   functions use, written once as Gallina.

   * integers: every Go integer expression is a Z; arithmetic at a sized type
     (uint8/16/32/64, int8/16/32/64) is wrapped to that type after each operation;
     `int` (slice lengths, indices, loop counters) is not wrapped: the functions
     translated only add small constants to lengths, which cannot leave 64 bits.
   * slices are lists; an index / slice expression out of range is [None], which
     the generated code turns into [Panic] at the statement it occurs in.
   * a function returning (T, error) that may panic is a [res T]; loop bodies are
     [ctl] (next state, or return from the enclosing function).
   * encoding/binary on fixed-size structs: a struct type is its [layout] (fields in
     declaration order), a struct value the list of its scalar slots (raw patterns),
     blank fields included.
   * os.File / bufio / binary.Read / binary.Write on the ONE file a function opens or
     creates: [fw] = bytes on disk, file offset, bytes held back by the bufio.Writer.
     Assumptions written into the definitions below: Stat, Seek to a position >= 0,
     Write and Flush do not fail (I/O failure is the subject of C12, not of the
     format properties); Open/Create fail exactly when [fw_open_err] says so. *)
From Coq Require Import ZArith NArith List Lia Bool.
From Coq Require String.
Import ListNotations.
Notation string := String.string.

Definition byte := N.

(* ------------------------------------------------------------------ errors, results *)
Inductive goerr := ErrEOF | ErrUnexpectedEOF | ErrOther (tag : N).
Definition error := option goerr.                       (* nil = None *)
Definition io_EOF : error := Some ErrEOF.
Definition io_ErrUnexpectedEOF : error := Some ErrUnexpectedEOF.
(* fmt.Errorf / errors.New at the n-th such call site of the file (the text is not modelled) *)
Definition new_error (site : N) : error := Some (ErrOther site).

Definition err_nonnil (e : error) : bool := match e with None => false | Some _ => true end.
Definition goerr_eqb (a b : goerr) : bool :=
  match a, b with
  | ErrEOF, ErrEOF => true
  | ErrUnexpectedEOF, ErrUnexpectedEOF => true
  | ErrOther m, ErrOther n => N.eqb m n
  | _, _ => false
  end.
(* err == io.EOF *)
Definition err_eqb (a b : error) : bool :=
  match a, b with
  | None, None => true
  | Some x, Some y => goerr_eqb x y
  | _, _ => false
  end.

(* what a call of `func ... (T, error)` does: returns a value and an error, or panics *)
Inductive res (A : Type) := Val (a : A) (e : error) | Panic.
Arguments Val {A}. Arguments Panic {A}.

(* a loop body: go on with the next state, or return r from the enclosing function *)
Inductive ctl (St R : Type) := Next (s : St) | Return (r : R).
Arguments Next {St R}. Arguments Return {St R}.

(* ------------------------------------------------------------------ integers *)
Definition wrapu (bits : Z) (z : Z) : Z := z mod 2 ^ bits.
Definition wraps (bits : Z) (z : Z) : Z := (z + 2 ^ (bits - 1)) mod 2 ^ bits - 2 ^ (bits - 1).

Lemma wrapu_small bits z : (0 <= z < 2 ^ bits)%Z -> wrapu bits z = z.
Proof. intros H. unfold wrapu. now apply Z.mod_small. Qed.
Lemma wraps_small bits z : (0 < bits)%Z -> (- 2 ^ (bits - 1) <= z < 2 ^ (bits - 1))%Z -> wraps bits z = z.
Proof.
  intros Hb H. unfold wraps.
  assert (E : (2 ^ bits = 2 * 2 ^ (bits - 1))%Z).
  { replace bits with (Z.succ (bits - 1)) at 1 by lia. rewrite Z.pow_succ_r by lia. reflexivity. }
  rewrite Z.mod_small by lia. lia.
Qed.

(* ------------------------------------------------------------------ slices *)
Definition zlen {A} (l : list A) : Z := Z.of_nat (length l).
(* l[i] *)
Definition idx {A} (l : list A) (i : Z) : option A :=
  if (i <? 0)%Z then None else nth_error l (Z.to_nat i).
(* l[i:] *)
Definition slice_from {A} (l : list A) (i : Z) : option (list A) :=
  if ((0 <=? i) && (i <=? zlen l))%Z then Some (skipn (Z.to_nat i) l) else None.
(* l[i] = v *)
Fixpoint upd_nat {A} (l : list A) (i : nat) (v : A) : option (list A) :=
  match l, i with
  | [], _ => None
  | _ :: r, O => Some (v :: r)
  | x :: r, S j => match upd_nat r j v with Some r' => Some (x :: r') | None => None end
  end.
Definition upd {A} (l : list A) (i : Z) (v : A) : option (list A) :=
  if (i <? 0)%Z then None else upd_nat l (Z.to_nat i) v.
(* make([]T, n) *)
Definition make_slice {A} (zero : A) (n : Z) : option (list A) :=
  if (n <? 0)%Z then None else Some (repeat zero (Z.to_nat n)).

Definition obind {A B} (o : option A) (k : A -> option B) : option B :=
  match o with Some a => k a | None => None end.

(* for i, x := range l { body } *)
Fixpoint range_loop {A St R} (body : Z -> A -> St -> ctl St R) (i : Z) (l : list A) (s : St) : ctl St R :=
  match l with
  | [] => Next s
  | x :: r =>
    match body i x s with
    | Next s' => range_loop body (i + 1) r s'
    | Return v => Return v
    end
  end.

(* for i := a; i < n; i += k { body } with a constant k > 0 and n, k not changed by the
   body: at most n - a iterations *)
Fixpoint for_step {St R} (fuel : nat) (n k : Z) (body : Z -> St -> ctl St R) (i : Z) (s : St) : ctl St R :=
  if (i <? n)%Z then
    match fuel with
    | O => Next s
    | S f =>
      match body i s with
      | Next s' => for_step f n k body (i + k) s'
      | Return v => Return v
      end
    end
  else Next s.
Definition for_upto {St R} (a n k : Z) (body : Z -> St -> ctl St R) (s : St) : ctl St R :=
  for_step (Z.to_nat (n - a)) n k body a s.

Lemma zlen_nonneg {A} (l : list A) : (0 <= zlen l)%Z.
Proof. unfold zlen. lia. Qed.
Lemma zlen_app {A} (l m : list A) : zlen (l ++ m) = (zlen l + zlen m)%Z.
Proof. unfold zlen. rewrite app_length. lia. Qed.
Lemma idx_nat {A} (l : list A) (i : nat) : idx l (Z.of_nat i) = nth_error l i.
Proof. unfold idx. destruct (Z.ltb_spec (Z.of_nat i) 0); [lia|]. now rewrite Nat2Z.id. Qed.

(* ------------------------------------------------------------------ encoding/binary *)
Inductive scalar := U8 | U16 | U32 | U64 | I8 | I16 | I32 | I64 | F32 | F64.
Definition scalar_size (s : scalar) : nat :=
  match s with
  | U8 | I8 => 1 | U16 | I16 => 2 | U32 | I32 | F32 => 4 | U64 | I64 | F64 => 8
  end.
Inductive byte_order := LittleEndian | BigEndian.
(* one field: blank (`_`) or not, element type, number of elements (1 for a scalar field) *)
Record field := mkfield { f_blank : bool; f_ty : scalar; f_count : nat }.
Definition layout := list field.
Definition field_size (f : field) : nat := f_count f * scalar_size (f_ty f).
Definition layout_size (l : layout) : nat := fold_right (fun f n => field_size f + n) 0 l.
Definition layout_slots (l : layout) : nat := fold_right (fun f n => f_count f + n) 0 l.
Definition zero_slots (l : layout) : list N := repeat 0%N (layout_slots l).
(* d.Field[i]: slot number known to the translator *)
Definition slot (d : list N) (i : nat) : N := nth i d 0%N.
Fixpoint set_slot (d : list N) (i : nat) (v : N) : list N :=
  match d, i with
  | [], _ => []
  | _ :: r, O => v :: r
  | x :: r, S j => x :: set_slot r j v
  end.

(* k bytes of n, least significant first (LittleEndian.PutUintXX) *)
Fixpoint le_bytes (k : nat) (n : N) : list byte :=
  match k with
  | O => []
  | S k' => N.land n 255 :: le_bytes k' (N.shiftr n 8)
  end.
Fixpoint unle_bytes (bs : list byte) : N :=
  match bs with
  | [] => 0
  | b :: r => b + 256 * unle_bytes r
  end.
Definition put (o : byte_order) (k : nat) (n : N) : list byte :=
  match o with LittleEndian => le_bytes k n | BigEndian => rev (le_bytes k n) end.
Definition get (o : byte_order) (bs : list byte) : N :=
  match o with LittleEndian => unle_bytes bs | BigEndian => unle_bytes (rev bs) end.

(* binary.Write of a struct value: the fields in order; zeros for a blank field *)
Fixpoint encode_struct (o : byte_order) (l : layout) (d : list N) : list byte :=
  match l with
  | [] => []
  | f :: r =>
    (if f_blank f then repeat 0%N (field_size f)
     else flat_map (put o (scalar_size (f_ty f))) (firstn (f_count f) d))
    ++ encode_struct o r (skipn (f_count f) d)
  end.

Fixpoint chunks (k n : nat) (bs : list byte) : list (list byte) :=
  match n with
  | O => []
  | S n' => firstn k bs :: chunks k n' (skipn k bs)
  end.
(* binary.Read into a struct value: blank fields are skipped and keep their value *)
Fixpoint decode_struct (o : byte_order) (l : layout) (cur : list N) (bs : list byte) : list N :=
  match l with
  | [] => []
  | f :: r =>
    (if f_blank f then firstn (f_count f) cur
     else map (get o) (chunks (scalar_size (f_ty f)) (f_count f) bs))
    ++ decode_struct o r (skipn (f_count f) cur) (skipn (field_size f) bs)
  end.

(* ------------------------------------------------------------------ the file *)
Record fw := mkfw { fw_disk : list byte; fw_pos : nat; fw_buf : list byte; fw_open_err : error }.
Definition fw_rest (w : fw) : list byte := skipn (fw_pos w) (fw_disk w).
Definition fw_at (w : fw) (p : nat) : fw :=
  {| fw_disk := fw_disk w; fw_pos := p; fw_buf := fw_buf w; fw_open_err := fw_open_err w |}.

(* os.Open(path): offset 0 *)
Definition os_Open (path : string) (w : fw) : error * fw := (fw_open_err w, fw_at w 0).
(* os.Create(path): empty file *)
Definition os_Create (path : string) (w : fw) : error * fw :=
  (fw_open_err w, {| fw_disk := []; fw_pos := 0; fw_buf := []; fw_open_err := fw_open_err w |}).
(* file.Stat(); info.Size() *)
Definition FileInfo := Z.
Definition file_Stat (w : fw) : FileInfo * error * fw := (zlen (fw_disk w), None, w).
Definition FileInfo_Size (i : FileInfo) : Z := i.
(* file.Seek(off, whence) *)
Definition file_Seek (off whence : Z) (w : fw) : Z * error * fw :=
  let p := (match whence with
            | 0 => off
            | 1 => Z.of_nat (fw_pos w) + off
            | _ => zlen (fw_disk w) + off
            end)%Z in
  if (p <? 0)%Z then (0%Z, new_error 0, w) else (p, None, fw_at w (Z.to_nat p)).

(* binary.Read(r, order, &d) for r the file or a bufio.Reader on it (io.ReadFull: EOF when
   nothing is left, ErrUnexpectedEOF when less than the struct is left; d unchanged) *)
Definition binary_Read (o : byte_order) (l : layout) (cur : list N) (w : fw) : list N * error * fw :=
  let rest := fw_rest w in
  let n := layout_size l in
  if (n <=? length rest)%nat then (decode_struct o l cur rest, None, fw_at w (fw_pos w + n))
  else match rest with
       | [] => (cur, io_EOF, w)
       | _ => (cur, io_ErrUnexpectedEOF, fw_at w (length (fw_disk w)))
       end.

(* bufio.NewWriter(f): 4096 bytes *)
Definition bufio_default_size : nat := 4096.
(* bufio.Writer.Write: what does not fit is written out (only the bytes that reach
   the file matter, not how they are cut into write calls) *)
Definition file_Write (data : list byte) (w : fw) : error * fw :=
  (None, {| fw_disk := firstn (fw_pos w) (fw_disk w) ++ data ++ skipn (fw_pos w + length data) (fw_disk w);
            fw_pos := fw_pos w + length data; fw_buf := fw_buf w; fw_open_err := fw_open_err w |}).
Definition bufio_Write (cap : nat) (data : list byte) (w : fw) : error * fw :=
  if (length (fw_buf w) + length data <=? cap)%nat
  then (None, {| fw_disk := fw_disk w; fw_pos := fw_pos w; fw_buf := fw_buf w ++ data; fw_open_err := fw_open_err w |})
  else file_Write (fw_buf w ++ data)
         {| fw_disk := fw_disk w; fw_pos := fw_pos w; fw_buf := []; fw_open_err := fw_open_err w |}.
Definition bufio_Flush (w : fw) : error * fw :=
  file_Write (fw_buf w) {| fw_disk := fw_disk w; fw_pos := fw_pos w; fw_buf := []; fw_open_err := fw_open_err w |}.
(* binary.Write(buf, order, &d) on the bufio.Writer / binary.Write(f, order, &d) on the file *)
Definition binary_Write_bufio (cap : nat) (o : byte_order) (l : layout) (d : list N) (w : fw) : error * fw :=
  bufio_Write cap (encode_struct o l d) w.
Definition binary_Write_file (o : byte_order) (l : layout) (d : list N) (w : fw) : error * fw :=
  file_Write (encode_struct o l d) w.

(* ------------------------------------------------------------------ maps *)
(* map[K]V as an association list, newest binding first; == on keys is [keqb] *)
Section GoMap.
  Context {K V : Type} (keqb : K -> K -> bool).
  Fixpoint map_get (m : list (K * V)) (k : K) : option V :=
    match m with
    | [] => None
    | (k', v) :: r => if keqb k' k then Some v else map_get r k
    end.
  Definition map_set (m : list (K * V)) (k : K) (v : V) : list (K * V) := (k, v) :: m.
End GoMap.

(* ------------------------------------------------------------------ lemmas *)
Lemma le_bytes_length k n : length (le_bytes k n) = k.
Proof. revert n; induction k as [|k IH]; intros n; cbn [le_bytes length]; [reflexivity | now rewrite IH]. Qed.
Lemma put_length o k n : length (put o k n) = k.
Proof. destruct o; cbn [put]; [|rewrite rev_length]; apply le_bytes_length. Qed.

Lemma set_slot_length d i v : length (set_slot d i v) = length d.
Proof. revert i; induction d as [|x r IH]; intros [|j]; cbn [set_slot length]; try reflexivity. now rewrite IH. Qed.

Lemma range_loop_app {A St R} (body : Z -> A -> St -> ctl St R) l m : forall i s,
  range_loop body i (l ++ m) s =
  match range_loop body i l s with
  | Next s' => range_loop body (i + zlen l) m s'
  | Return v => Return v
  end.
Proof.
  induction l as [|x l IH]; intros i s; cbn [app range_loop].
  - unfold zlen. cbn [length Z.of_nat]. now rewrite Z.add_0_r.
  - destruct (body i x s) as [s'|v]; [|reflexivity]. rewrite IH.
    destruct (range_loop body (i + 1) l s'); [|reflexivity].
    f_equal. unfold zlen. cbn [length]. lia.
Qed.

(* ------------------------------------------------------------------ loops, independently of the shape of the body
   An invariant rule for [range_loop]: the equality proofs state what a loop does by an invariant
   over (number of elements consumed, state) and discharge the one-iteration obligation by
   running the generated body, whatever its spelling (helper calls, lets, order of the tests,
   extra variables in the state). *)
Lemma range_loop_inv {A St R} (body : Z -> A -> St -> ctl St R) (I : nat -> St -> Prop) (Q : R -> Prop) (l : list A) :
  (forall k x s, nth_error l k = Some x -> I k s ->
     match body (Z.of_nat k) x s with Next s' => I (S k) s' | Return r => Q r end) ->
  forall s, I 0%nat s ->
  match range_loop body 0%Z l s with Next s' => I (length l) s' | Return r => Q r end.
Proof.
  intros Hstep.
  assert (G : forall suf pre s, l = pre ++ suf -> I (length pre) s ->
            match range_loop body (zlen pre) suf s with Next s' => I (length l) s' | Return r => Q r end).
  { induction suf as [|x suf IH]; intros pre s El Hs; cbn [range_loop].
    - subst l. now rewrite app_nil_r.
    - assert (Hn : nth_error l (length pre) = Some x).
      { subst l. rewrite nth_error_app2 by lia. now rewrite Nat.sub_diag. }
      specialize (Hstep (length pre) x s Hn Hs). unfold zlen.
      destruct (body (Z.of_nat (length pre)) x s) as [s'|r]; [|exact Hstep].
      specialize (IH (pre ++ [x]) s').
      replace (zlen (pre ++ [x])) with (Z.of_nat (length pre) + 1)%Z in IH
        by (unfold zlen; rewrite app_length; cbn [length]; lia).
      apply IH.
      + subst l. now rewrite <- app_assoc.
      + rewrite app_length. cbn [length]. now rewrite Nat.add_1_r. }
  intros s Hs. exact (G l [] s eq_refl Hs).
Qed.

(* the counted loop `for i := 0; i < n; i++` *)
Lemma for_upto_inv01 {St R} (n : nat) (body : Z -> St -> ctl St R) (I : nat -> St -> Prop) (Q : R -> Prop) :
  (forall k s, (k < n)%nat -> I k s ->
     match body (Z.of_nat k) s with Next s' => I (S k) s' | Return r => Q r end) ->
  forall s, I 0%nat s ->
  match for_upto 0%Z (Z.of_nat n) 1%Z body s with Next s' => I n s' | Return r => Q r end.
Proof.
  intros Hstep.
  assert (G : forall fuel k s, (k <= n)%nat -> (n - k <= fuel)%nat -> I k s ->
            match for_step fuel (Z.of_nat n) 1 body (Z.of_nat k) s with Next s' => I n s' | Return r => Q r end).
  { induction fuel as [|f IH]; intros k s Hk Hf Hs; cbn [for_step].
    - destruct (Z.ltb_spec (Z.of_nat k) (Z.of_nat n)); [lia|]. replace n with k by lia. exact Hs.
    - destruct (Z.ltb_spec (Z.of_nat k) (Z.of_nat n)) as [Hlt|Hge].
      + specialize (Hstep k s ltac:(lia) Hs). destruct (body (Z.of_nat k) s) as [s'|r]; [|exact Hstep].
        replace (Z.of_nat k + 1)%Z with (Z.of_nat (S k)) by lia. apply IH; [lia | lia | exact Hstep].
      + replace n with k by lia. exact Hs. }
  intros s Hs. unfold for_upto. rewrite Z.sub_0_r, Nat2Z.id.
  exact (G n 0%nat s ltac:(lia) ltac:(lia) Hs).
Qed.

(* the same for a loop that never returns early and whose effect is a fold *)
Lemma range_loop_fold_inv {A St R} (body : Z -> A -> St -> ctl St R) (f : St -> A -> St) (l : list A) :
  (forall i x s, body i x s = Next (f s x)) ->
  forall i s, range_loop body i l s = Next (fold_left f l s).
Proof. intros H. induction l as [|x l IH]; intros i s; cbn [range_loop fold_left]; [reflexivity|]. now rewrite H, IH. Qed.

Lemma nth_error_firstn_S {A} (l : list A) k x : nth_error l k = Some x -> firstn (S k) l = firstn k l ++ [x].
Proof.
  revert k; induction l as [|y l IH]; intros [|k] H; cbn [nth_error] in H; try discriminate.
  - inversion H. reflexivity.
  - cbn [firstn app]. f_equal. now apply IH.
Qed.

Lemma nth_error_lt {A} (l : list A) k x : nth_error l k = Some x -> (k < length l)%nat.
Proof. intros H. apply nth_error_Some. congruence. Qed.

(* l[k] = v on a slice that is long enough *)
Lemma upd_ok {A} (l : list A) (k : nat) v : (k < length l)%nat ->
  upd l (Z.of_nat k) v = Some (firstn k l ++ v :: skipn (S k) l).
Proof.
  intros H. unfold upd. destruct (Z.ltb_spec (Z.of_nat k) 0) as [H0|_]; [lia|]. rewrite Nat2Z.id.
  revert k H; induction l as [|x l IH]; intros [|k] H; cbn [length] in H; try lia; cbn [upd_nat firstn skipn app]; [reflexivity|].
  rewrite IH by lia. reflexivity.
Qed.

Lemma firstn_app_exact {A} (a b : list A) n : n = length a -> firstn n (a ++ b) = a.
Proof. intros ->. rewrite firstn_app, Nat.sub_diag, firstn_all. cbn [firstn]. apply app_nil_r. Qed.

Lemma firstn_snoc_exact {A} (a r : list A) v k : length a = k -> firstn (S k) (a ++ v :: r) = a ++ [v].
Proof.
  intros <-. replace (a ++ v :: r) with ((a ++ [v]) ++ r) by now rewrite <- app_assoc.
  apply firstn_app_exact. rewrite app_length. cbn [length]. lia.
Qed.

(* component of a given type of a (left-nested) tuple type, as a function: the loop states of
   the generated code are tuples of the variables the body assigns, in an order and number that
   depend on how the source is spelled *)
Ltac proj_of T S :=
  lazymatch S with
  | T => constr:(fun x : T => x)
  | prod ?A ?B =>
    match constr:(Set) with
    | _ => let g := proj_of T B in constr:(fun p : A * B => g (snd p))
    | _ => let g := proj_of T A in constr:(fun p : A * B => g (fst p))
    end
  end.

(* a loop state (left-nested tuple) into its components *)
Ltac destruct_state s :=
  lazymatch type of s with
  | (_ * _)%type => let a := fresh "a" in let b := fresh "b" in destruct s as [a b]; destruct_state a
  | _ => idtac
  end.

(* file.Close() called explicitly (a deferred Close is not translated): no effect on the bytes *)
Definition file_Close (w : fw) : error * fw := (None, w).

(* ------------------------------------------------------------------ instantiating a generated definition
   The definitions of Generated/IoExpr.v are abstracted over exactly those Section variables
   (library calls, float types) that the current spelling of the Go function happens to use,
   in declaration order; the binders keep the variables' names.  [inst_models f] applies f to
   the hypotheses of the goal that carry the names of its leading binders (their bodies, for
   local definitions), so an equality proof names the model of each library call once,
   whatever subset is used.  It stops at the first binder for which no hypothesis exists: the
   first parameter of the Go function (the translator never gives a parameter the name of a
   Section variable). *)
Ltac inst_models f :=
  lazymatch type of f with
  | forall x : _, _ =>
    match constr:(Set) with
    | _ => let v := constr:(x) in let v' := eval cbv delta [x] in v in inst_models (f v')
    | _ => let v := constr:(x) in inst_models (f v)
    | _ => f
    end
  | _ => f
  end.

(* [by_name tac f]: solve the goal with f instantiated by name after [tac] has posed the models *)
Ltac by_name tac f :=
  let t := constr:(ltac:(tac; let u := inst_models f in exact u)) in
  let t' := eval cbv zeta in t in exact t'.

(* [L : match loop with Next s' => .. | Return r => .. end]: case analysis on the loop, also where
   the goal spells the same loop term differently (up to conversion) *)
Ltac destruct_loop L st r :=
  match type of L with
  | match ?t with _ => _ end =>
    try match goal with
        | |- context [range_loop ?b0 ?i0 ?l0 ?s0] => progress change (range_loop b0 i0 l0 s0) with t
        | |- context [for_upto ?a0 ?n0 ?k0 ?b0 ?s0] => progress change (for_upto a0 n0 k0 b0 s0) with t
        end;
    destruct t as [st|r]
  end.
