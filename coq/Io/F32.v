(* float64 -> float32 conversion (round to nearest, ties to even) and the exact
   float32 -> float64 widening, on integers.

   A float64 value is a [spec_float] of the standard library (sign, positive
   mantissa, exponent: value = (-1)^s * m * 2^e; this is what [Prim2SF] returns for
   a primitive float, so cases files feed exact hex-float literals).  A float32 is
   its 32-bit pattern [word = N].  Go: float32(x) and float64(w) as used by
   render/stl.go (SaveSTL, writeSTL, loadSTLBinary).

   NaN: Go keeps sign/payload bits; this model has one NaN (pattern 0x7FC00000).
   Comparisons with the implementation treat all NaN patterns as one class. *)
From Coq Require Import ZArith NArith List Lia Bool Floats.
Import ListNotations.
Open Scope N_scope.

Definition word := N.

Definition inf32 : N := 0x7F800000.
Definition nan32 : N := 0x7FC00000.
Definition sign32 (s : bool) : N := if s then 0x80000000 else 0.

(* m / 2^k rounded to the nearest integer, ties to even *)
Definition round_shift (m k : N) : N :=
  if k =? 0 then m else
  let q := N.shiftr m k in
  let r := m - N.shiftl q k in
  let half := N.shiftl 1 (k - 1) in
  if (half <? r) || ((r =? half) && N.odd q) then q + 1 else q.

(* magnitude bits (31 bits) of the float32 nearest to m * 2^e, m > 0.
   e' is the exponent of the unit in the last place of the result: 24 significant
   bits, but never below 2^-149 (subnormals).  The biased exponent field of a
   24-bit mantissa q at exponent e' is e'+150, so the pattern is
   (e'+150)*2^23 + (q - 2^23) = (e'+149)*2^23 + q; this formula is also right for
   subnormals (e' = -149, q < 2^23) and for a mantissa that rounded up to 2^24
   (carry into the exponent).  Anything at or above the pattern of infinity is
   infinity (overflow). *)
Definition narrow_mag (m : N) (e : Z) : N :=
  let d := Z.of_N (N.size m) in
  let e' := Z.max (d + e - 24) (-149) in
  let q := if (e' <=? e)%Z then N.shiftl m (Z.to_N (e - e'))
           else round_shift m (Z.to_N (e' - e)) in
  N.min (Z.to_N (e' + 149) * 2 ^ 23 + q) inf32.

(* float32(x) as a bit pattern *)
Definition narrow32 (x : spec_float) : word :=
  match x with
  | S754_zero s => sign32 s
  | S754_infinity s => sign32 s + inf32
  | S754_nan => nan32
  | S754_finite s m e => sign32 s + narrow_mag (Npos m) e
  end.

(* canonical binary64 form (53-bit mantissa) of p * 2^e for p of at most 53 bits *)
Definition normalize53 (s : bool) (p : positive) (e : Z) : spec_float :=
  let k := 53 - N.size (Npos p) in
  S754_finite s (Pos.shiftl p k) (e - Z.of_N k).

Definition sign_of (w : word) : bool := 0x80000000 <=? w.
Definition expo_of (w : word) : N := (w / 2 ^ 23) mod 256.
Definition mant_of (w : word) : N := w mod 2 ^ 23.
Definition is_nan32 (w : word) : bool := (expo_of w =? 255) && negb (mant_of w =? 0).

(* float64(w): exact *)
Definition widen32 (w : word) : spec_float :=
  let s := sign_of w in
  let E := expo_of w in
  let M := mant_of w in
  if E =? 255 then (if M =? 0 then S754_infinity s else S754_nan)
  else if E =? 0 then
    match M with
    | 0 => S754_zero s
    | Npos p => normalize53 s p (-149)
    end
  else
    match 2 ^ 23 + M with
    | 0 => S754_zero s
    | Npos p => normalize53 s p (Z.of_N E - 150)
    end.

(* the float64 value of the float32 rounding of x *)
Definition round32 (x : spec_float) : spec_float := widen32 (narrow32 x).

(* structural equality of values (one NaN) *)
Definition sf_eqb (x y : spec_float) : bool :=
  match x, y with
  | S754_zero a, S754_zero b => Bool.eqb a b
  | S754_infinity a, S754_infinity b => Bool.eqb a b
  | S754_nan, S754_nan => true
  | S754_finite a m e, S754_finite b n f => Bool.eqb a b && Pos.eqb m n && Z.eqb e f
  | _, _ => false
  end.

Lemma sf_eqb_eq x y : sf_eqb x y = true <-> x = y.
Proof.
  destruct x as [a|a| |a m e], y as [b|b| |b n f]; cbn; split; intro H; try discriminate; try reflexivity.
  - apply Bool.eqb_prop in H. now subst.
  - inversion H. apply Bool.eqb_reflx.
  - apply Bool.eqb_prop in H. now subst.
  - inversion H. apply Bool.eqb_reflx.
  - apply andb_prop in H as [H H3]. apply andb_prop in H as [H1 H2].
    apply Bool.eqb_prop in H1. apply Pos.eqb_eq in H2. apply Z.eqb_eq in H3. now subst.
  - inversion H. now rewrite Bool.eqb_reflx, Pos.eqb_refl, Z.eqb_refl.
Qed.

(* ------------------------------------------------------------------ lemmas *)

Lemma narrow_mag_le m e : narrow_mag m e <= inf32.
Proof. unfold narrow_mag. apply N.le_min_r. Qed.

Lemma narrow32_lt x : narrow32 x < 2 ^ 32.
Proof.
  assert (I : inf32 = 2139095040) by reflexivity.
  assert (P : 2 ^ 32 = 4294967296) by reflexivity.
  destruct x as [s|s| |s m e]; cbn [narrow32]; rewrite P.
  - destruct s; cbn; lia.
  - destruct s; cbn [sign32]; lia.
  - cbv; reflexivity.
  - pose proof (narrow_mag_le (Npos m) e). destruct s; cbn [sign32]; lia.
Qed.

Lemma size_mul_pow2 p k : N.size (Npos p * 2 ^ k) = N.size (Npos p) + k.
Proof.
  assert (H0 : Npos p * 2 ^ k <> 0).
  { apply N.neq_mul_0. split; [discriminate | apply N.pow_nonzero; discriminate]. }
  rewrite !N.size_log2 by (assumption || discriminate).
  rewrite N.log2_mul_pow2 by lia. lia.
Qed.

Lemma round_shift_exact m k : round_shift (m * 2 ^ k) k = m.
Proof.
  unfold round_shift. destruct (N.eqb_spec k 0) as [->|Hk]; [now rewrite N.mul_1_r|].
  cbv zeta. rewrite N.shiftr_div_pow2, N.div_mul by (apply N.pow_nonzero; discriminate).
  rewrite !N.shiftl_mul_pow2, N.sub_diag, N.mul_1_l.
  assert (Hh : 0 < 2 ^ (k - 1)).
  { apply N.neq_0_lt_0, N.pow_nonzero. discriminate. }
  replace (2 ^ (k - 1) <? 0) with false by (symmetry; apply N.ltb_ge; lia).
  replace (0 =? 2 ^ (k - 1)) with false by (symmetry; apply N.eqb_neq; lia).
  reflexivity.
Qed.

Lemma pos_shiftl_N p k : Npos (Pos.shiftl p k) = Npos p * 2 ^ k.
Proof.
  change (Npos (Pos.shiftl p k)) with (N.shiftl (Npos p) k). apply N.shiftl_mul_pow2.
Qed.

(* the decomposition of a 32-bit pattern *)
Lemma word_fields w : w < 2 ^ 32 ->
  w = sign32 (sign_of w) + expo_of w * 2 ^ 23 + mant_of w /\ expo_of w < 256 /\ mant_of w < 2 ^ 23.
Proof.
  intros Hw. unfold sign_of, expo_of, mant_of, sign32.
  assert (P32 : 2 ^ 32 = 4294967296) by reflexivity. rewrite P32 in Hw.
  assert (P23 : 2 ^ 23 = 8388608) by reflexivity. rewrite P23.
  pose proof (N.div_mod w 8388608 ltac:(discriminate)) as D1.
  pose proof (N.mod_lt w 8388608 ltac:(discriminate)) as L1.
  pose proof (N.div_mod (w / 8388608) 256 ltac:(discriminate)) as D2.
  pose proof (N.mod_lt (w / 8388608) 256 ltac:(discriminate)) as L2.
  assert (Hq : w / 8388608 < 512) by (apply N.div_lt_upper_bound; lia).
  assert (Hq2 : w / 8388608 / 256 < 2) by (apply N.div_lt_upper_bound; lia).
  destruct (N.leb_spec 2147483648 w) as [Hs|Hs]; split; try (split; assumption).
  - assert (w / 8388608 / 256 = 1).
    { assert (256 <= w / 8388608) by (apply N.div_le_lower_bound; lia).
      assert (1 <= w / 8388608 / 256) by (apply N.div_le_lower_bound; lia). lia. }
    lia.
  - assert (w / 8388608 / 256 = 0).
    { assert (w / 8388608 < 256) by (apply N.div_lt_upper_bound; lia).
      apply N.div_small; assumption. }
    lia.
Qed.

(* narrowing the canonical binary64 form of a float32 mantissa/exponent pair *)
Lemma narrow_mag_normalized p e :
  N.size (Npos p) <= 24 ->
  (Z.max (Z.of_N (N.size (Npos p)) + e - 24) (-149) = e)%Z ->
  (e + 149 < 254)%Z ->
  let k := 53 - N.size (Npos p) in
  narrow_mag (Npos p * 2 ^ k) (e - Z.of_N k) = Z.to_N (e + 149) * 2 ^ 23 + Npos p.
Proof.
  intros Hd He Hov k. unfold narrow_mag.
  rewrite size_mul_pow2.
  assert (Hk : N.size (Npos p) + k = 53) by (unfold k; lia).
  rewrite Hk.
  replace (Z.of_N 53 + (e - Z.of_N k) - 24)%Z with (Z.of_N (N.size (Npos p)) + e - 24)%Z by lia.
  rewrite He.
  assert (Hkpos : 29 <= k) by (unfold k; lia).
  destruct (Z.leb_spec e (e - Z.of_N k)) as [Hc|Hc]; [lia|].
  replace (Z.to_N (e - (e - Z.of_N k))) with k by lia.
  rewrite round_shift_exact.
  apply N.min_l.
  assert (Hp : Npos p < 2 ^ 24).
  { destruct (N.lt_ge_cases (Npos p) (2 ^ 24)) as [|Hge]; [assumption|].
    apply N.log2_le_mono in Hge. rewrite N.log2_pow2 in Hge by lia.
    rewrite N.size_log2 in Hd by discriminate. lia. }
  assert (P24 : 2 ^ 24 = 16777216) by reflexivity.
  assert (P23 : 2 ^ 23 = 8388608) by reflexivity.
  assert (I : inf32 = 255 * 8388608) by reflexivity.
  rewrite P24 in Hp. rewrite P23, I.
  assert (He' : (-149 <= e)%Z) by lia.
  destruct (Z.eq_dec e (-149)) as [->|Hne].
  - cbn. lia.
  - (* normal: the mantissa has exactly 24 bits *)
    assert (Hd24 : N.size (Npos p) = 24) by lia.
    assert (Z.to_N (e + 149) <= 253) by lia.
    nia.
Qed.

Lemma size_lt_pow2 n b : n < 2 ^ b -> N.size n <= b.
Proof.
  intros H. destruct n as [|p]; [cbn; lia|].
  rewrite N.size_log2 by discriminate.
  assert (N.log2 (Npos p) < b) by (apply N.log2_lt_pow2; [reflexivity | assumption]). lia.
Qed.

Lemma size_ge_pow2 n b : 2 ^ b <= n -> b < N.size n.
Proof.
  intros H. assert (n <> 0) by (pose proof (N.pow_nonzero 2 b ltac:(discriminate)); lia).
  rewrite N.size_log2 by assumption.
  apply N.log2_le_mono in H. rewrite N.log2_pow2 in H by lia. lia.
Qed.

(* narrow (widen w) = w for every non-NaN float32 pattern *)
Theorem narrow_widen w : w < 2 ^ 32 -> is_nan32 w = false -> narrow32 (widen32 w) = w.
Proof.
  intros Hw Hnan. destruct (word_fields w Hw) as (Hdec & HE & HM).
  unfold is_nan32 in Hnan. unfold widen32.
  set (s := sign_of w) in *. set (E := expo_of w) in *. set (M := mant_of w) in *.
  assert (P23 : 2 ^ 23 = 8388608) by reflexivity.
  destruct (N.eqb_spec E 255) as [E255|E255].
  - cbn [andb] in Hnan. apply negb_false_iff in Hnan. rewrite Hnan. apply N.eqb_eq in Hnan.
    cbn [narrow32]. rewrite Hdec, E255, Hnan. change inf32 with (255 * 2 ^ 23). lia.
  - destruct (N.eqb_spec E 0) as [E0|E0].
    + destruct M as [|p] eqn:EM.
      * cbn [narrow32]. rewrite Hdec, E0. lia.
      * unfold normalize53. cbn [narrow32]. rewrite pos_shiftl_N.
        assert (Hsz : N.size (Npos p) <= 23) by (apply size_lt_pow2; assumption).
        rewrite narrow_mag_normalized; [rewrite Hdec, E0; cbn; lia | lia | lia | lia].
    + assert (Hp : 2 ^ 23 + M <> 0) by (rewrite P23; lia).
      destruct (2 ^ 23 + M) as [|p] eqn:EP; [contradiction|].
      unfold normalize53. cbn [narrow32]. rewrite pos_shiftl_N.
      assert (Hsz : N.size (Npos p) = 24).
      { assert (N.size (Npos p) <= 24) by (apply size_lt_pow2; rewrite <- EP; change (2^24) with (2^23 + 2^23); lia).
        assert (23 < N.size (Npos p)) by (apply size_ge_pow2; rewrite <- EP; lia). lia. }
      rewrite narrow_mag_normalized; [| lia | lia | lia].
      rewrite <- EP, Hdec. fold E. fold M.
      replace (Z.to_N (Z.of_N E - 150 + 149)) with (E - 1) by lia.
      rewrite P23. nia.
Qed.

Corollary widen32_injective w1 w2 :
  w1 < 2 ^ 32 -> w2 < 2 ^ 32 -> is_nan32 w1 = false -> is_nan32 w2 = false ->
  widen32 w1 = widen32 w2 -> w1 = w2.
Proof.
  intros H1 H2 N1 N2 E. rewrite <- (narrow_widen w1 H1 N1), <- (narrow_widen w2 H2 N2). now rewrite E.
Qed.

Corollary round32_idempotent x : is_nan32 (narrow32 x) = false -> round32 (round32 x) = round32 x.
Proof.
  intros H. unfold round32. now rewrite (narrow_widen (narrow32 x) (narrow32_lt x) H).
Qed.

(* ----- the rounding is to nearest, ties to even (integer statement) *)

(* round_shift m k = q with |m - q*2^k| <= 2^k/2, and q even when the error is exactly one half *)
Lemma round_shift_nearest m k : k <> 0 ->
  let q := round_shift m k in
  (2 * (m - q * 2 ^ k) <= 2 ^ k /\ 2 * (q * 2 ^ k - m) <= 2 ^ k) /\
  ((2 * (m - q * 2 ^ k) = 2 ^ k \/ 2 * (q * 2 ^ k - m) = 2 ^ k) -> N.even q = true).
Proof.
  intros Hk. unfold round_shift. rewrite (proj2 (N.eqb_neq k 0) Hk).
  cbv zeta. rewrite N.shiftr_div_pow2, !N.shiftl_mul_pow2, N.mul_1_l.
  assert (Hp : 2 ^ k <> 0) by (apply N.pow_nonzero; discriminate).
  pose proof (N.div_mod m (2 ^ k) Hp) as D. pose proof (N.mod_lt m (2 ^ k) Hp) as L.
  set (q := m / 2 ^ k) in *. set (r := m mod 2 ^ k) in *.
  assert (Hh : 2 ^ k = 2 * 2 ^ (k - 1)).
  { rewrite <- N.pow_succ_r'. f_equal. lia. }
  set (h := 2 ^ (k - 1)) in *.
  replace (m - q * 2 ^ k) with r by lia.
  destruct (N.ltb_spec h r) as [Hlt|Hge]; cbn [orb].
  - split; [split; nia|]. intros [H|H]; nia.
  - destruct (N.eqb_spec r h) as [Heq|Hne]; cbn [andb].
    + destruct (N.odd q) eqn:Ho.
      * split; [split; nia|]. intros _. rewrite N.even_add, <- N.negb_odd, Ho. reflexivity.
      * split; [split; nia|]. intros _. now rewrite <- N.negb_odd, Ho.
    + split; [split; nia|]. intros [H|H]; nia.
Qed.

(* Samples, cross-checked against the generic IEEE rounding of the standard library
   (SpecFloat.binary_normalize at precision 24, emax 128). *)
Definition narrow_ref (x : spec_float) : spec_float :=
  match x with
  | S754_finite s m e => binary_normalize 24 128 (cond_Zopp s (Zpos m)) e s
  | _ => x
  end.
Definition ref_agrees (x : float) : bool :=
  let w := narrow32 (Prim2SF x) in
  match narrow_ref (Prim2SF x) with
  | S754_finite s m e => sf_eqb (widen32 w) (normalize53 s m e)
  | y => sf_eqb (widen32 w) y
  end.
Example narrow_samples :
  forallb ref_agrees
    [1; 0x1.999999999999ap-4; -0x1.999999999999ap-4; 0x1.fffffep+127; 0x1.ffffffp+127; 0x1.fffffefffffffp+127;
     0x1p+128; -0x1p+128; 0x1p-150; 0x1.0000000000001p-150; 0x1.8p-149; 0x1.8p-148; 0x1p-126; 0x1.fffffcp-127;
     0x1.fffffffffffffp-127; 0x1.000001p+0; 0x1.000003p+0; 0x1.0000010000001p+0; -0x1.000002fffffffp+0;
     0x1p-1074; 0x1.fffffffffffffp+1023; 0x0p+0; -0x0p+0; 0x1.921fb54442d18p+1; 0x1.fffffffffffffp-1]%float = true.
Proof. vm_compute. reflexivity. Qed.
