(* Model of render/stl.go: the binary STL layout (STLHeader, STLTriangle), the
   batch writer SaveSTL, the streaming writer writeSTL (used by render.ToSTL) and
   the binary loader loadSTLBinary; Triangle3.Normal of sdf/triangle3.go.

   A file is a [list byte] with bytes as N < 256.  Coordinates are [spec_float]
   (float64 values); the float32 layer is Io/F32.v. *)
From Coq Require Import ZArith NArith List Lia Bool Floats.
From Coq Require Uint63.
From Sdfx Require Import Io.F32.
Import ListNotations.
Open Scope N_scope.

Definition byte := N.
Definition vec := (spec_float * spec_float * spec_float)%type.
Definition tri := (vec * vec * vec)%type.

(* binary.LittleEndian: k bytes of n, least significant first *)
Fixpoint le (k : nat) (n : N) : list byte :=
  match k with
  | O => []
  | S k' => N.land n 255 :: le k' (N.shiftr n 8)     (* byte(v), v >> 8 *)
  end.

Fixpoint unle (bs : list byte) : N :=
  match bs with
  | [] => 0
  | b :: r => b + 256 * unle r
  end.

(* len() as a binary number *)
Definition nlen {A} (l : list A) : N := fold_left (fun n _ => N.succ n) l 0.

Definition bytes_ok (bs : list byte) : Prop := Forall (fun b => b < 256) bs.

(* ------------------------------------------------------------------ writers *)

Section Writer.
  (* Triangle3.Normal; the layout theorems hold for any function *)
  Variable normal : tri -> vec.

  Definition vec_words (v : vec) : list word :=
    let '(x, y, z) := v in [narrow32 x; narrow32 y; narrow32 z].

  (* STLTriangle: Normal, Vertex1, Vertex2, Vertex3 as float32 *)
  Definition tri_words (t : tri) : list word :=
    let '(a, b, c) := t in vec_words (normal t) ++ vec_words a ++ vec_words b ++ vec_words c.

  Definition encode_words (ws : list word) : list byte := flat_map (le 4) ws.

  (* binary.Write(LittleEndian, &STLTriangle): 12 float32 words, then the uint16 attribute = 0 *)
  Definition encode_triangle (t : tri) : list byte := encode_words (tri_words t) ++ le 2 0.

  (* binary.Write(LittleEndian, &STLHeader): 80 zero bytes, then Count (uint32) *)
  Definition encode_header (count : N) : list byte := repeat 0 80 ++ le 4 count.

  (* SaveSTL: header.Count = uint32(len(mesh)); then every triangle *)
  Definition save (ts : list tri) : list byte :=
    encode_header (nlen ts mod 2 ^ 32) ++ flat_map encode_triangle ts.

  (* --- writeSTL: a file with a buffered writer in front, a counter, and a final
         seek(0) + header rewrite.  [cap] is the bufio buffer size. *)
  Variable cap : nat.

  Record wstate := { disk : list byte; buf : list byte; cnt : N }.

  (* bufio.Writer.Write: data goes to the buffer; an over-full buffer is written out *)
  Definition bwrite (data : list byte) (st : wstate) : wstate :=
    if (length (buf st) + length data <=? cap)%nat
    then {| disk := disk st; buf := buf st ++ data; cnt := cnt st |}
    else {| disk := disk st ++ buf st ++ data; buf := []; cnt := cnt st |}.

  Definition bflush (st : wstate) : wstate :=
    {| disk := disk st ++ buf st; buf := []; cnt := cnt st |}.

  (* f.Seek(0,0); write at the start of the file, over what is there *)
  Definition pwrite0 (data file : list byte) : list byte := data ++ skipn (length data) file.

  (* one triangle received from the channel: write it, count++ (uint32) *)
  Definition wtriangle (st : wstate) (t : tri) : wstate :=
    let st' := bwrite (encode_triangle t) st in
    {| disk := disk st'; buf := buf st'; cnt := (cnt st' + 1) mod 2 ^ 32 |}.

  Definition stream_save (batches : list (list tri)) : list byte :=
    (* write an empty header *)
    let st0 := bwrite (encode_header 0) {| disk := []; buf := []; cnt := 0 |} in
    (* for ts := range c { for _, t := range ts { ... } } *)
    let st1 := fold_left (fun st ts => fold_left wtriangle ts st) batches st0 in
    (* buf.Flush() *)
    let st2 := bflush st1 in
    (* seek to the start, rewrite the header with the count *)
    pwrite0 (encode_header (cnt st2)) (disk st2).
End Writer.

(* ------------------------------------------------------------------ loader *)

(* read exactly n bytes: None when the data is too short (io.ErrUnexpectedEOF / EOF) *)
Fixpoint take (n : nat) (l : list byte) : option (list byte * list byte) :=
  match n with
  | O => Some ([], l)
  | S n' =>
    match l with
    | [] => None
    | x :: r =>
      match take n' r with
      | Some (a, b) => Some (x :: a, b)
      | None => None
      end
    end
  end.

Fixpoint words_of (bs : list byte) : list word :=
  match bs with
  | b0 :: b1 :: b2 :: b3 :: r => unle [b0; b1; b2; b3] :: words_of r
  | _ => []
  end.

Definition zero_vec : vec := (S754_zero false, S754_zero false, S754_zero false).

(* STLTriangle -> Triangle3: the normal and the attribute are ignored *)
Definition decode_triangle (rec : list byte) : tri :=
  match words_of rec with
  | [_; _; _; a1; a2; a3; b1; b2; b3; c1; c2; c3] =>
    ((widen32 a1, widen32 a2, widen32 a3),
     (widen32 b1, widen32 b2, widen32 b3),
     (widen32 c1, widen32 c2, widen32 c3))
  | _ => (zero_vec, zero_vec, zero_vec)
  end.

(* for i := range mesh { binary.Read(&d) ... }; fuel bounds the recursion by the data length *)
Fixpoint decode_tris (fuel : nat) (count : N) (data : list byte) : option (list tri) :=
  if count =? 0 then Some [] else
  match fuel with
  | O => None
  | S f =>
    match take 50 data with
    | None => None
    | Some (rec, rest) =>
      match decode_tris f (count - 1) rest with
      | Some r => Some (decode_triangle rec :: r)
      | None => None
      end
    end
  end.

Definition header_count (hdr : list byte) : N := unle (skipn 80 hdr).

(* loadSTLBinary *)
Definition decode (file : list byte) : option (list tri) :=
  match take 84 file with
  | None => None
  | Some (hdr, body) => decode_tris (length body) (header_count hdr) body
  end.

Definition round_vec (v : vec) : vec := let '(x, y, z) := v in (round32 x, round32 y, round32 z).
Definition round_tri (t : tri) : tri := let '(a, b, c) := t in (round_vec a, round_vec b, round_vec c).

(* ------------------------------------------------------------------ Normal *)

(* Triangle3.Normal = e1.Cross(e2).Normalize(), the same text for floats and reals *)
Record ops (T : Type) := {
  o_sub : T -> T -> T; o_add : T -> T -> T; o_mul : T -> T -> T;
  o_div : T -> T -> T; o_sqrt : T -> T; o_one : T }.
Arguments o_sub {T}. Arguments o_add {T}. Arguments o_mul {T}.
Arguments o_div {T}. Arguments o_sqrt {T}. Arguments o_one {T}.

Section Normal.
  Context {T : Type} (o : ops T).
  Notation "x - y" := (o_sub o x y). Notation "x + y" := (o_add o x y).
  Notation "x * y" := (o_mul o x y). Notation "x / y" := (o_div o x y).
  Definition sub3 (a b : T * T * T) : T * T * T :=
    let '(ax, ay, az) := a in let '(bx, by_, bz) := b in (ax - bx, ay - by_, az - bz).
  Definition cross3 (a b : T * T * T) : T * T * T :=
    let '(ax, ay, az) := a in let '(bx, by_, bz) := b in
    (ay * bz - az * by_, az * bx - ax * bz, ax * by_ - ay * bx).
  Definition dot3 (a b : T * T * T) : T :=
    let '(ax, ay, az) := a in let '(bx, by_, bz) := b in ax * bx + ay * by_ + az * bz.
  Definition scale3 (a : T * T * T) (k : T) : T * T * T :=
    let '(ax, ay, az) := a in (ax * k, ay * k, az * k).
  (* Normalize: a.MulScalar(1 / a.Length()) *)
  Definition normalize3 (a : T * T * T) : T * T * T :=
    scale3 a (o_one o / o_sqrt o (dot3 a a)).
  Definition normal_g (a b c : T * T * T) : T * T * T :=
    normalize3 (cross3 (sub3 b a) (sub3 c a)).
End Normal.

Definition float_ops : ops float :=
  {| o_sub := PrimFloat.sub; o_add := PrimFloat.add; o_mul := PrimFloat.mul;
     o_div := PrimFloat.div; o_sqrt := PrimFloat.sqrt; o_one := 1%float |}.

Definition vec_prim (v : vec) : float * float * float :=
  let '(x, y, z) := v in (SF2Prim x, SF2Prim y, SF2Prim z).
Definition vec_sf (v : float * float * float) : vec :=
  let '(x, y, z) := v in (Prim2SF x, Prim2SF y, Prim2SF z).

(* Triangle3.Normal in binary64 arithmetic (Go on amd64 does not fuse multiply-add) *)
Definition normal_f (t : tri) : vec :=
  let '(a, b, c) := t in vec_sf (normal_g float_ops (vec_prim a) (vec_prim b) (vec_prim c)).

Definition save_f := save normal_f.
Definition stream_save_f := stream_save normal_f 4096.

(* ------------------------------------------------------------------ lemmas *)

Lemma nlen_length {A} (l : list A) : nlen l = N.of_nat (length l).
Proof.
  unfold nlen. assert (G : forall n, fold_left (fun n (_ : A) => N.succ n) l n = n + N.of_nat (length l)).
  { induction l as [|x r IH]; intros n; cbn [fold_left length]; [lia|]. rewrite IH. lia. }
  now rewrite G.
Qed.

Lemma le_length k n : length (le k n) = k.
Proof. revert n; induction k as [|k IH]; intros n; cbn [le length]; [reflexivity|now rewrite IH]. Qed.

Lemma low_byte n : N.land n 255 = n mod 256.
Proof. change 255 with (N.ones 8). rewrite N.land_ones. reflexivity. Qed.
Lemma high_bytes n : N.shiftr n 8 = n / 256.
Proof. rewrite N.shiftr_div_pow2. reflexivity. Qed.

Lemma le_bytes_ok k n : bytes_ok (le k n).
Proof.
  revert n; induction k as [|k IH]; intros n; cbn [le]; constructor; [|apply IH].
  rewrite low_byte. apply N.mod_lt. discriminate.
Qed.

Lemma unle_le k n : n < 256 ^ N.of_nat k -> unle (le k n) = n.
Proof.
  revert n; induction k as [|k IH]; intros n Hn.
  - cbn in *. lia.
  - cbn [le unle]. rewrite low_byte, high_bytes, IH.
    + pose proof (N.div_mod n 256 ltac:(discriminate)). lia.
    + rewrite Nat2N.inj_succ, N.pow_succ_r' in Hn. apply N.div_lt_upper_bound; [discriminate | lia].
Qed.

Lemma unle_le4 w : w < 2 ^ 32 -> unle (le 4 w) = w.
Proof. intros H. apply unle_le. exact H. Qed.

Lemma take_app a b : take (length a) (a ++ b) = Some (a, b).
Proof. induction a as [|x a IH]; cbn [take length app]; [reflexivity | now rewrite IH]. Qed.

Lemma take_length n l a b : take n l = Some (a, b) -> l = a ++ b /\ length a = n.
Proof.
  revert l a b; induction n as [|n IH]; intros l a b H; cbn [take] in H.
  - inversion H; subst. now split.
  - destruct l as [|x r]; [discriminate|]. destruct (take n r) as [[a' b']|] eqn:E; [|discriminate].
    inversion H; subst. destruct (IH _ _ _ E) as [-> <-]. now split.
Qed.

Lemma take_short n l : (length l < n)%nat -> take n l = None.
Proof.
  revert l; induction n as [|n IH]; intros l H; [lia|].
  destruct l as [|x r]; cbn [take]; [reflexivity|]. cbn [length] in H. rewrite IH by lia. reflexivity.
Qed.

Lemma firstn_exact {A} (a b : list A) : firstn (length a) (a ++ b) = a.
Proof. rewrite firstn_app, Nat.sub_diag, firstn_all. cbn [firstn]. apply app_nil_r. Qed.
Lemma skipn_exact {A} (a b : list A) : skipn (length a) (a ++ b) = b.
Proof. rewrite skipn_app, Nat.sub_diag, skipn_all. reflexivity. Qed.
Lemma zeros_length : length (repeat 0 80) = 80%nat.
Proof. apply repeat_length. Qed.

Section WriterLemmas.
  Variable normal : tri -> vec.

  Lemma encode_words_length ws : length (encode_words ws) = (4 * length ws)%nat.
  Proof. induction ws as [|w r IH]; cbn [encode_words flat_map length]; [reflexivity|].
    rewrite app_length, le_length. fold (encode_words r). lia. Qed.

  Lemma vec_words_length v : length (vec_words v) = 3%nat.
  Proof. destruct v as [[x y] z]. reflexivity. Qed.

  Lemma tri_words_length t : length (tri_words normal t) = 12%nat.
  Proof. destruct t as [[a b] c]. unfold tri_words. rewrite !app_length, !vec_words_length. reflexivity. Qed.

  Lemma vec_words_lt v : Forall (fun w => w < 2 ^ 32) (vec_words v).
  Proof. destruct v as [[x y] z]. repeat constructor; apply narrow32_lt. Qed.

  Lemma tri_words_lt t : Forall (fun w => w < 2 ^ 32) (tri_words normal t).
  Proof. destruct t as [[a b] c]. unfold tri_words. rewrite !Forall_app. repeat split; apply vec_words_lt. Qed.

  (* exactly 50 bytes per triangle *)
  Lemma triangle_length t : length (encode_triangle normal t) = 50%nat.
  Proof. unfold encode_triangle. rewrite app_length, encode_words_length, tri_words_length. reflexivity. Qed.

  (* 80-byte header + 4-byte count *)
  Lemma header_length count : length (encode_header count) = 84%nat.
  Proof. unfold encode_header. rewrite app_length, repeat_length, le_length. reflexivity. Qed.

  Lemma header_zero count : firstn 80 (encode_header count) = repeat 0 80.
  Proof. unfold encode_header. rewrite <- zeros_length at 1. apply firstn_exact. Qed.

  Lemma body_length ts : length (flat_map (encode_triangle normal) ts) = (50 * length ts)%nat.
  Proof. induction ts as [|t r IH]; cbn [flat_map length]; [reflexivity|].
    rewrite app_length, triangle_length, IH. lia. Qed.

  Lemma save_length ts : length (save normal ts) = (84 + 50 * length ts)%nat.
  Proof. unfold save. rewrite app_length, header_length, body_length. reflexivity. Qed.

  Lemma encode_words_ok ws : bytes_ok (encode_words ws).
  Proof. induction ws as [|w r IH]; cbn [encode_words flat_map]; [constructor|].
    apply Forall_app; split; [apply le_bytes_ok | exact IH]. Qed.

  Lemma save_bytes_ok ts : bytes_ok (save normal ts).
  Proof.
    unfold save, encode_header. repeat (apply Forall_app; split).
    - apply Forall_forall. intros b Hb. apply repeat_spec in Hb. subst. reflexivity.
    - apply le_bytes_ok.
    - induction ts as [|t r IH]; cbn [flat_map]; [constructor|].
      apply Forall_app; split; [|exact IH]. unfold encode_triangle.
      apply Forall_app; split; [apply encode_words_ok | apply le_bytes_ok].
  Qed.

  (* the count field holds the number of triangles *)
  Lemma count_field ts : nlen ts < 2 ^ 32 ->
    unle (firstn 4 (skipn 80 (save normal ts))) = nlen ts.
  Proof.
    intros H. unfold save, encode_header. rewrite <- !app_assoc.
    rewrite <- zeros_length at 1. rewrite skipn_exact.
    rewrite <- (le_length 4 (nlen ts mod 2 ^ 32)) at 1. rewrite firstn_exact.
    rewrite N.mod_small by exact H. apply unle_le4, H.
  Qed.

  (* the attribute bytes are zero, the 48 bytes before them are the 12 words *)
  Lemma triangle_layout t :
    encode_triangle normal t = encode_words (tri_words normal t) ++ [0; 0].
  Proof. reflexivity. Qed.

  Lemma words_of_encode ws tail : Forall (fun w => w < 2 ^ 32) ws -> (length tail < 4)%nat ->
    words_of (encode_words ws ++ tail) = ws.
  Proof.
    intros H Ht. induction H as [|w r Hw Hr IH].
    - cbn. destruct tail as [|a [|b [|c [|d ?]]]]; cbn in *; try reflexivity; lia.
    - cbn [encode_words flat_map]. fold (encode_words r). rewrite <- app_assoc.
      change (le 4 w) with [N.land w 255; N.land (N.shiftr w 8) 255; N.land (N.shiftr (N.shiftr w 8) 8) 255;
                            N.land (N.shiftr (N.shiftr (N.shiftr w 8) 8) 8) 255].
      cbn [app words_of]. rewrite IH. f_equal.
      change [N.land w 255; N.land (N.shiftr w 8) 255; N.land (N.shiftr (N.shiftr w 8) 8) 255;
              N.land (N.shiftr (N.shiftr (N.shiftr w 8) 8) 8) 255] with (le 4 w).
      apply unle_le4, Hw.
  Qed.

  (* each vertex word of a record is the float32 rounding of the input coordinate, in order *)
  Lemma record_words t :
    words_of (encode_triangle normal t) = tri_words normal t.
  Proof. unfold encode_triangle. apply words_of_encode; [apply tri_words_lt | cbn; lia]. Qed.

  Lemma record_layout t :
    encode_triangle normal t = encode_words (tri_words normal t) ++ [0; 0] /\
    words_of (encode_triangle normal t) = tri_words normal t /\
    (let '(a, b, c) := t in
     tri_words normal t = vec_words (normal t) ++ vec_words a ++ vec_words b ++ vec_words c).
  Proof.
    split; [apply triangle_layout|]. split; [apply record_words|].
    destruct t as [[a b] c]. reflexivity.
  Qed.

  Lemma decode_encode_triangle t : decode_triangle (encode_triangle normal t) = round_tri t.
  Proof.
    unfold decode_triangle. rewrite record_words.
    destruct t as [[[[a1 a2] a3] [[b1 b2] b3]] [[c1 c2] c3]].
    unfold tri_words. destruct (normal _) as [[n1 n2] n3]. reflexivity.
  Qed.

  Lemma decode_tris_body ts : forall fuel rest, (length ts <= fuel)%nat ->
    decode_tris fuel (N.of_nat (length ts)) (flat_map (encode_triangle normal) ts ++ rest)
    = Some (map round_tri ts).
  Proof.
    induction ts as [|t r IH]; intros fuel rest Hf.
    - destruct fuel; reflexivity.
    - cbn [length] in Hf. destruct fuel as [|f]; [lia|].
      cbn [decode_tris]. replace (N.of_nat (length (t :: r)) =? 0) with false
        by (symmetry; apply N.eqb_neq; cbn [length]; lia).
      cbn [flat_map]. rewrite <- app_assoc.
      rewrite <- (triangle_length t) at 1. rewrite take_app.
      replace (N.of_nat (length (t :: r)) - 1) with (N.of_nat (length r)) by (cbn [length]; lia).
      rewrite IH by lia. cbn [map]. now rewrite decode_encode_triangle.
  Qed.

  (* loading a saved file returns the float32 values exactly, in order *)
  Theorem roundtrip ts : nlen ts < 2 ^ 32 -> decode (save normal ts) = Some (map round_tri ts).
  Proof.
    intros H. unfold decode, save.
    rewrite <- (header_length (nlen ts mod 2 ^ 32)) at 1. rewrite take_app.
    unfold header_count, encode_header. rewrite <- zeros_length at 1. rewrite skipn_exact.
    rewrite N.mod_small by exact H. rewrite unle_le4 by exact H.
    rewrite nlen_length.
    rewrite <- (app_nil_r (flat_map (encode_triangle normal) ts)) at 2.
    apply decode_tris_body. rewrite body_length. lia.
  Qed.

  (* --- streaming = batch *)
  Variable cap : nat.

  Definition content (st : wstate) : list byte := disk st ++ buf st.

  Lemma bwrite_content d st : content (bwrite cap d st) = content st ++ d.
  Proof.
    unfold bwrite, content. destruct (_ <=? _)%nat; cbn [disk buf]; rewrite <- ?app_assoc, ?app_nil_r; reflexivity.
  Qed.
  Lemma bwrite_cnt d st : cnt (bwrite cap d st) = cnt st.
  Proof. unfold bwrite. destruct (_ <=? _)%nat; reflexivity. Qed.

  Lemma wtriangle_content st t :
    content (wtriangle normal cap st t) = content st ++ encode_triangle normal t.
  Proof. unfold wtriangle. change (content (bwrite cap (encode_triangle normal t) st) = content st ++ encode_triangle normal t).
    apply bwrite_content. Qed.
  Lemma wtriangle_cnt st t : cnt (wtriangle normal cap st t) = (cnt st + 1) mod 2 ^ 32.
  Proof. unfold wtriangle. cbn [cnt]. now rewrite bwrite_cnt. Qed.

  (* the counter stays reduced modulo 2^32 *)
  Lemma fold_triangles ts : forall st, cnt st < 2 ^ 32 ->
    content (fold_left (wtriangle normal cap) ts st) = content st ++ flat_map (encode_triangle normal) ts /\
    cnt (fold_left (wtriangle normal cap) ts st) = (cnt st + nlen ts) mod 2 ^ 32.
  Proof.
    induction ts as [|t r IH]; intros st Hc; cbn [fold_left flat_map].
    - rewrite app_nil_r. split; [reflexivity|]. rewrite nlen_length. cbn [length N.of_nat].
      rewrite N.add_0_r, N.mod_small; [reflexivity | exact Hc].
    - destruct (IH (wtriangle normal cap st t)) as [E1 E2].
      { rewrite wtriangle_cnt. apply N.mod_lt. discriminate. }
      split.
      + rewrite E1, wtriangle_content, <- app_assoc. reflexivity.
      + rewrite E2, wtriangle_cnt. rewrite !nlen_length. cbn [length].
        rewrite N.add_mod_idemp_l by discriminate. f_equal. lia.
  Qed.

  Lemma fold_batches batches : forall st, cnt st < 2 ^ 32 ->
    let st' := fold_left (fun st ts => fold_left (wtriangle normal cap) ts st) batches st in
    content st' = content st ++ flat_map (encode_triangle normal) (concat batches) /\
    cnt st' = (cnt st + nlen (concat batches)) mod 2 ^ 32.
  Proof.
    induction batches as [|b r IH]; intros st Hc; cbn [fold_left concat].
    - cbn [flat_map]. rewrite app_nil_r. split; [reflexivity|].
      rewrite nlen_length. cbn [length N.of_nat]. rewrite N.add_0_r, N.mod_small; [reflexivity | exact Hc].
    - destruct (fold_triangles b st Hc) as [E1 E2].
      destruct (IH (fold_left (wtriangle normal cap) b st)) as [F1 F2].
      { rewrite E2. apply N.mod_lt. discriminate. }
      cbv zeta in *. split.
      + rewrite F1, E1, flat_map_app, <- app_assoc. reflexivity.
      + rewrite F2, E2, !nlen_length, app_length.
        rewrite N.add_mod_idemp_l by discriminate. f_equal. lia.
  Qed.

  (* the streaming writer produces the same bytes as the batch writer, for every
     partition of the triangles into batches and every buffer size *)
  Theorem stream_eq_batch batches : stream_save normal cap batches = save normal (concat batches).
  Proof.
    unfold stream_save.
    set (st0 := bwrite cap (encode_header 0) {| disk := []; buf := []; cnt := 0 |}).
    assert (C0 : content st0 = encode_header 0) by (unfold st0; rewrite bwrite_content; reflexivity).
    assert (N0 : cnt st0 = 0) by (unfold st0; rewrite bwrite_cnt; reflexivity).
    destruct (fold_batches batches st0) as [E1 E2]; [rewrite N0; reflexivity|].
    cbv zeta in E1, E2.
    set (st1 := fold_left _ batches st0) in *.
    unfold bflush. cbn [disk cnt]. fold (content st1). rewrite E1, E2, C0, N0, N.add_0_l.
    unfold pwrite0, save.
    rewrite header_length, <- (header_length 0), skipn_exact. reflexivity.
  Qed.
End WriterLemmas.

(* ------------------------------------------------------------------ correspondence *)

Definition fvec := (float * float * float)%type.
Definition ftri := (fvec * fvec * fvec)%type.
Definition tri_sf (t : ftri) : tri := let '(a, b, c) := t in (vec_sf a, vec_sf b, vec_sf c).

Definition vec_eqb (u v : vec) : bool :=
  let '(a, b, c) := u in let '(x, y, z) := v in sf_eqb a x && sf_eqb b y && sf_eqb c z.
Definition tri_eqb (s t : tri) : bool :=
  let '(a, b, c) := s in let '(x, y, z) := t in vec_eqb a x && vec_eqb b y && vec_eqb c z.
Fixpoint tris_eqb (l m : list tri) : bool :=
  match l, m with
  | [], [] => true
  | x :: l', y :: m' => tri_eqb x y && tris_eqb l' m'
  | _, _ => false
  end.

(* file contents are shipped as 7-byte little-endian chunks in primitive integers
   (the last one shorter) *)
Definition chunk := PrimInt63.int.
Fixpoint unpack (len : N) (chunks : list chunk) : list byte :=
  match chunks with
  | [] => []
  | c :: r =>
    let n := Z.to_N (Uint63.to_Z c) in
    if len <? 7 then le (N.to_nat len) n else le 7 n ++ unpack (len - 7) r
  end.

Fixpoint bytes_eqb (l m : list byte) : bool :=
  match l, m with
  | [], [] => true
  | x :: l', y :: m' => (x =? y) && bytes_eqb l' m'
  | _, _ => false
  end.

(* float32 patterns equal, or both NaN *)
Definition word_same (w1 w2 : word) : bool := (w1 =? w2) || (is_nan32 w1 && is_nan32 w2).

(* Normal words: the model computes Normal() in binary64 exactly as the Go code does, so
   the words are expected to be identical; an algebraically equivalent rewrite of
   Normal()/Normalize() may move a component of the unit vector by a rounding error,
   which still counts as agreement: both finite and |difference| <= 2^-22 (about two
   float32 ulp at 1).  Vertex words and every other byte must be identical. *)
Definition word_val (w : word) : Z :=          (* value in units of 2^-149 *)
  let m := if expo_of w =? 0 then mant_of w else N.shiftl (2 ^ 23 + mant_of w) (expo_of w - 1) in
  if sign_of w then (- Z.of_N m)%Z else Z.of_N m.
Definition word_close (w1 w2 : word) : bool :=
  word_same w1 w2 ||
  (negb (expo_of w1 =? 255) && negb (expo_of w2 =? 255) &&
   (Z.abs (word_val w1 - word_val w2) <=? 2 ^ 127)%Z).

Section Agree.
  Variable cmp : word -> word -> bool.   (* comparison of Normal words *)
  Definition record_agree (rm ri : list byte) : bool :=
    match words_of rm, words_of ri with
    | n1 :: n2 :: n3 :: vm, k1 :: k2 :: k3 :: vi =>
      cmp n1 k1 && cmp n2 k2 && cmp n3 k3 &&
      bytes_eqb vm vi && bytes_eqb (skipn 48 rm) (skipn 48 ri)
    | _, _ => false
    end.

  Fixpoint records_agree (fuel : nat) (m i : list byte) : bool :=
    match fuel with
    | O => false
    | S f =>
      match m, i with
      | [], [] => true
      | _, _ =>
        match take 50 m, take 50 i with
        | Some (rm, m'), Some (ri, i') => record_agree rm ri && records_agree f m' i'
        | _, _ => false
        end
      end
    end.

  (* the 80 header bytes are free text (the property only fixes their number); the count
     and every record byte are compared *)
  Definition files_agree_with (mb ib : list byte) : bool :=
    bytes_eqb mb ib ||
    match take 80 mb, take 80 ib with
    | Some (_, bm), Some (_, bi) =>
      match take 4 bm, take 4 bi with
      | Some (cm, rm), Some (ci, ri) => bytes_eqb cm ci && records_agree (S (length rm)) rm ri
      | _, _ => false
      end
    | _, _ => false
    end.
End Agree.
Definition files_agree := files_agree_with word_close.
Definition files_exact := files_agree_with word_same.

(* id, triangles, bytes written by SaveSTL, bytes written by the streaming writer
   (ToSTL), what LoadSTL returned for the SaveSTL file (None = error) *)
Definition case := (N * list ftri * (N * list chunk) * (N * list chunk) * option (list ftri))%type.

Definition case_check (agree : list byte -> list byte -> bool) (c : case) : bool :=
  let '(_, fts, (slen, schunks), (tlen, tchunks), loaded) := c in
  let ts := map tri_sf fts in
  let sb := unpack slen schunks in
  let tb := unpack tlen tchunks in
  agree (save_f ts) sb && agree (stream_save_f [ts]) tb &&
  match decode sb, loaded with
  | Some l, Some l' => tris_eqb l (map tri_sf l')
  | None, None => true
  | _, _ => false
  end.
Definition case_ok := case_check files_agree.

Definition case_id (c : case) : N := let '(id, _, _, _, _) := c in id.
Definition mismatches (cs : list case) : list N :=
  map case_id (filter (fun c => negb (case_ok c)) cs).
(* cases that are not bit-exact (Normal words NaN-class-equal but otherwise identical
   patterns): with no mismatch these are the cases agreeing only within the tolerance
   (information, not an alarm) *)
Definition inexact (cs : list case) : list N :=
  map case_id (filter (fun c => negb (case_check files_exact c)) cs).

(* conversions alone: id, x, Float32bits(float32(x)), float64(float32(x)) *)
Definition conv_case := (N * float * N * float)%type.
Definition conv_ok (c : conv_case) : bool :=
  let '(_, x, w, y) := c in
  word_same (narrow32 (Prim2SF x)) w && sf_eqb (widen32 w) (Prim2SF y).
Definition conv_mismatches (cs : list conv_case) : list N :=
  map (fun c : conv_case => let '(id, _, _, _) := c in id) (filter (fun c => negb (conv_ok c)) cs).

(* ------------------------------------------------------------------ the normal over the reals *)
From Coq Require Import Reals Lra.

Definition R_ops : ops R :=
  {| o_sub := Rminus; o_add := Rplus; o_mul := Rmult; o_div := Rdiv; o_sqrt := sqrt; o_one := 1%R |}.

Section NormalR.
  Open Scope R_scope.
  Definition dotR := dot3 R_ops.
  Definition crossR := cross3 R_ops.
  Definition subR := sub3 R_ops.

  (* For a non-degenerate triangle (e1 x e2 <> 0) Normal() is the unit vector along
     (b-a) x (c-a): unit length, orthogonal to both edges, and on the right-hand side. *)
  Theorem normal_right_handed (a b c : R * R * R) :
    let n := normal_g R_ops a b c in
    let cr := crossR (subR b a) (subR c a) in
    dotR cr cr <> 0 ->
    dotR n n = 1 /\ dotR n (subR b a) = 0 /\ dotR n (subR c a) = 0 /\
    0 < dotR n cr /\ scale3 R_ops n (sqrt (dotR cr cr)) = cr.
  Proof.
    destruct a as [[ax ay] az], b as [[bx by_] bz], c as [[cx cy] cz].
    unfold normal_g, normalize3, crossR, subR, dotR. cbn [sub3 cross3 R_ops o_sub o_mul o_add o_div o_sqrt o_one].
    set (x := (by_ - ay) * (cz - az) - (bz - az) * (cy - ay)).
    set (y := (bz - az) * (cx - ax) - (bx - ax) * (cz - az)).
    set (z := (bx - ax) * (cy - ay) - (by_ - ay) * (cx - ax)).
    cbn [dot3 scale3 R_ops o_sub o_mul o_add o_div o_sqrt o_one].
    set (l2 := x * x + y * y + z * z). intros Hne.
    assert (Hpos : 0 < l2).
    { assert (0 <= l2) by (unfold l2; nra). lra. }
    assert (Hs : 0 < sqrt l2) by (apply sqrt_lt_R0; exact Hpos).
    assert (Hss : sqrt l2 * sqrt l2 = l2) by (apply sqrt_sqrt; lra).
    set (s := sqrt l2) in *.
    assert (Hk : 1 / s * s = 1) by (field; lra).
    set (k := 1 / s) in *.
    assert (Hkk : k * k * l2 = 1) by (rewrite <- Hss; replace (k * k * (s * s)) with ((k * s) * (k * s)) by ring; rewrite Hk; ring).
    assert (Hkpos : 0 < k) by (unfold k; apply Rdiv_lt_0_compat; lra).
    repeat split.
    - replace (x * k * (x * k) + y * k * (y * k) + z * k * (z * k)) with (k * k * l2) by (unfold l2; ring). exact Hkk.
    - unfold x, y, z. ring.
    - unfold x, y, z. ring.
    - replace (x * k * x + y * k * y + z * k * z) with (k * l2) by (unfold l2; ring). nra.
    - f_equal; [f_equal|]; rewrite Rmult_assoc, Hk; ring.
  Qed.
End NormalR.
