(* Model of the DXF drawing object of render/dxf.go as a state machine driven by
   an arbitrary sequence of its public operations (NewDXF, then Line / Lines /
   Points / Triangle / Box in any order and number, then Save).  The drawing
   holds a current layer; (DXF).Points switches it to "Points" and nothing
   switches it back, so every (DXF).Line must select "Lines" itself. *)
From Coq Require Import String.
From Coq Require Import List ZArith NArith QArith Lia Bool.
From Sdfx Require Import Io.Export.
Import ListNotations.

Inductive dxf_op : Type :=
| OpLine (l : seg)
| OpLines (ls : list seg)
| OpPoints (ps : list vec2) (r : Q)
| OpTriangle (a b c : vec2)
| OpBox (mn mx : vec2).

(* entities: LINE layer start end | CIRCLE layer centre radius *)
Inductive ent : Type :=
| ELine (layer : string) (p q : q3)
| ECircle (layer : string) (c : q3) (r : Q).

Definition drawing2 := (list string * string * list ent)%type.

(* Drawing.ChangeLayer *)
Definition change_layer2 (n : string) (d : drawing2) : drawing2 :=
  let '(ls, cur, es) := d in if has_layer n ls then (ls, n, es) else d.
(* Drawing.Line / Drawing.Circle: entity on the current layer, appended *)
Definition draw_line2 (d : drawing2) (p q : q3) : drawing2 :=
  let '(ls, cur, es) := d in (ls, cur, es ++ [ELine cur p q]).
Definition draw_circle2 (d : drawing2) (c : q3) (r : Q) : drawing2 :=
  let '(ls, cur, es) := d in (ls, cur, es ++ [ECircle cur c r]).
(* NewDXF: layers "0", "Lines", "Points"; the last AddLayer(.., true) leaves "Points" current *)
Definition new_dxf2 : drawing2 := (["0"; "Lines"; "Points"]%string, "Points"%string, []).

(* (DXF).Line *)
Definition op_line (d : drawing2) (l : seg) : drawing2 :=
  let '((x0, y0), (x1, y1)) := l in
  draw_line2 (change_layer2 "Lines"%string d) (x0, y0, 0) (x1, y1, 0).
(* (DXF).Lines *)
Definition op_lines (d : drawing2) (ls : list seg) : drawing2 := fold_left op_line ls d.
(* (DXF).Points *)
Definition op_points (d : drawing2) (ps : list vec2) (r : Q) : drawing2 :=
  fold_left (fun d (p : vec2) => draw_circle2 d (fst p, snd p, 0) r) ps (change_layer2 "Points"%string d).
(* (DXF).Triangle: l0 = (t0,t1), l1 = (t1,t2), l2 = (t2,t0) *)
Definition tri_segs (a b c : vec2) : list seg := [(a, b); (b, c); (c, a)].
(* (DXF).Box: l0 = (min, (max.x,min.y)), l1 = (l0[1], max), l2 = (l1[1], (min.x,max.y)), l3 = (l2[1], l0[0]) *)
Definition box_segs (mn mx : vec2) : list seg :=
  let c1 := (fst mx, snd mn) in let c3 := (fst mn, snd mx) in
  [(mn, c1); (c1, mx); (mx, c3); (c3, mn)].

Definition dxf_apply (d : drawing2) (o : dxf_op) : drawing2 :=
  match o with
  | OpLine l => op_line d l
  | OpLines ls => op_lines d ls
  | OpPoints ps r => op_points d ps r
  | OpTriangle a b c => op_lines d (tri_segs a b c)
  | OpBox mn mx => op_lines d (box_segs mn mx)
  end.
(* what Save writes: the entities in the order they were added *)
Definition dxf_run (ops : list dxf_op) : list ent := snd (fold_left dxf_apply ops new_dxf2).

(* ---- specification: what each operation contributes, independent of the history *)
Definition line_spec (l : seg) : ent :=
  let '((x0, y0), (x1, y1)) := l in ELine "Lines"%string (x0, y0, 0) (x1, y1, 0).
Definition circle_spec (r : Q) (p : vec2) : ent := ECircle "Points"%string (fst p, snd p, 0) r.
Definition op_spec (o : dxf_op) : list ent :=
  match o with
  | OpLine l => [line_spec l]
  | OpLines ls => map line_spec ls
  | OpPoints ps r => map (circle_spec r) ps
  | OpTriangle a b c => map line_spec (tri_segs a b c)
  | OpBox mn mx => map line_spec (box_segs mn mx)
  end.

Definition L3 : list string := ["0"; "Lines"; "Points"]%string.

Lemma op_line_L3 cur es l : op_line (L3, cur, es) l = (L3, "Lines"%string, es ++ [line_spec l]).
Proof. destruct l as [[x0 y0] [x1 y1]]. reflexivity. Qed.

Lemma op_lines_L3 ls : forall cur es, exists cur',
  op_lines (L3, cur, es) ls = (L3, cur', es ++ map line_spec ls).
Proof.
  unfold op_lines. induction ls as [|l ls IH]; intros cur es; cbn [fold_left map].
  - exists cur. now rewrite app_nil_r.
  - rewrite op_line_L3. destruct (IH "Lines"%string (es ++ [line_spec l])) as (c & Hc).
    exists c. rewrite Hc, <- app_assoc. reflexivity.
Qed.

Lemma circles_L3 r ps : forall es,
  fold_left (fun d (p : vec2) => draw_circle2 d (fst p, snd p, 0) r) ps (L3, "Points"%string, es)
  = (L3, "Points"%string, es ++ map (circle_spec r) ps).
Proof.
  induction ps as [|p ps IH]; intros es; cbn [fold_left map].
  - now rewrite app_nil_r.
  - cbn [draw_circle2]. rewrite IH, <- app_assoc. reflexivity.
Qed.

Lemma dxf_apply_L3 cur es o : exists cur', dxf_apply (L3, cur, es) o = (L3, cur', es ++ op_spec o).
Proof.
  destruct o as [l|ls|ps r|a b c|mn mx]; cbn [dxf_apply op_spec].
  - exists "Lines"%string. apply op_line_L3.
  - apply op_lines_L3.
  - exists "Points"%string. unfold op_points.
    change (change_layer2 "Points"%string (L3, cur, es)) with (L3, "Points"%string, es). apply circles_L3.
  - apply op_lines_L3.
  - apply op_lines_L3.
Qed.

Lemma dxf_fold_L3 ops : forall cur es, exists cur',
  fold_left dxf_apply ops (L3, cur, es) = (L3, cur', es ++ flat_map op_spec ops).
Proof.
  induction ops as [|o ops IH]; intros cur es; cbn [fold_left flat_map].
  - exists cur. now rewrite app_nil_r.
  - destruct (dxf_apply_L3 cur es o) as (c1 & H1). rewrite H1.
    destruct (IH c1 (es ++ op_spec o)) as (c2 & H2). exists c2. rewrite H2, <- app_assoc. reflexivity.
Qed.

(* Whatever the sequence of operations, the saved drawing holds exactly the
   entities each operation supplies, in order; in particular every segment is a
   LINE on layer "Lines" also after any number of Points calls. *)
Lemma dxf_run_spec ops : dxf_run ops = flat_map op_spec ops.
Proof.
  unfold dxf_run, new_dxf2. destruct (dxf_fold_L3 ops "Points"%string []) as (c & H).
  change (["0"; "Lines"; "Points"]%string) with L3. rewrite H. reflexivity.
Qed.

(* the segments an operation sequence supplies *)
Definition op_segs (o : dxf_op) : list seg :=
  match o with
  | OpLine l => [l]
  | OpLines ls => ls
  | OpPoints _ _ => []
  | OpTriangle a b c => tri_segs a b c
  | OpBox mn mx => box_segs mn mx
  end.
Definition is_line (e : ent) : bool := match e with ELine _ _ _ => true | ECircle _ _ _ => false end.

Lemma filter_lines_spec o : filter is_line (op_spec o) = map line_spec (op_segs o).
Proof.
  assert (HL : forall ls, filter is_line (map line_spec ls) = map line_spec ls).
  { induction ls as [|[[x0 y0] [x1 y1]] ls IH]; cbn; [reflexivity | now rewrite IH]. }
  destruct o as [l|ls|ps r|a b c|mn mx]; cbn [op_spec op_segs].
  - apply (HL [l]).
  - apply HL.
  - induction ps as [|p ps IH]; cbn; [reflexivity | exact IH].
  - apply HL.
  - apply HL.
Qed.

(* the LINE entities of the saved drawing are the supplied segments, in order, all on "Lines" *)
Lemma dxf_run_lines ops : filter is_line (dxf_run ops) = map line_spec (flat_map op_segs ops).
Proof.
  rewrite dxf_run_spec. induction ops as [|o ops IH]; [reflexivity|].
  cbn [flat_map]. rewrite filter_app, map_app, IH, filter_lines_spec. reflexivity.
Qed.

(* ---------------------------------------------------------------- correspondence *)
(* entities read back: kind (0 LINE, 1 CIRCLE), layer, two points (end = (radius,0,0) for a
   circle), integers in units of 1e-16 *)
Definition ent_obs := (N * string * z3 * z3)%type.
Definition ent_obs_eqb (a b : ent_obs) : bool :=
  let '(ka, la, pa, qa) := a in let '(kb, lb, pb, qb) := b in
  N.eqb ka kb && String.eqb la lb && z3eqb pa pb && z3eqb qa qb.
Definition obs_of (e : ent) : ent_obs :=
  match e with
  | ELine l p q => (0%N, l, fmt3 16 p, fmt3 16 q)
  | ECircle l c r => (1%N, l, fmt3 16 c, fmt3 16 (r, 0, 0))
  end.
Definition ops_case := (N * list dxf_op * list ent_obs)%type.
Definition ops_case_ok (c : ops_case) : bool :=
  let '(id, ops, ents) := c in list_eqb ent_obs_eqb (map obs_of (dxf_run ops)) ents.
Definition mismatches_ops (cs : list ops_case) : list N :=
  map (fun c : ops_case => let '(id, _, _) := c in id) (filter (fun c => negb (ops_case_ok c)) cs).
