(* Rounding-error bound for the stored STL normal.

   Triangle3.Normal() evaluates  normalize ((b-a) x (c-a))  in binary64 and SaveSTL
   stores the float32 rounding of each component.  Here: a rigorous bound on the
   distance of each stored component from the exact unit normal, for triangles in a
   stated regime (edge components bounded by M, 2^-200 <= M <= 2^200, and
   |(b-a) x (c-a)| >= kappa * M^2, kappa >= 2^-20 - "not needle-like"), by a standard
   forward error analysis over Flocq's model of rounding:

     rn x = round radix2 (FLT_exp (-1074) 53) ZnearestE x   (binary64)
     |rn x - x| <= 2^-53 |x| + 2^-1075                      (Flocq, error_N_FLT)

   Part 1: the analysis over the reals with [rn] after every operation
           ([normal_g rnd_ops]).
   Part 2: Coq's primitive floats compute exactly [normal_g rnd_ops] in the regime (no
           overflow, no division by zero): Flocq's Bplus/Bmult/Bdiv/Bsqrt_correct
           through Flocq.IEEE754.PrimFloat.
   Part 3: the float32 step (Io/F32Spec.v) and the statement about the model's words. *)
From Coq Require Import ZArith NArith List Lia Bool Floats Reals Lra Psatz.
From Flocq Require Import Core BinarySingleNaN Relative.
From Sdfx Require Import Io.F32 Io.F32Spec Io.Stl.
Import ListNotations.

Open Scope R_scope.

(* ------------------------------------------------------------------ binary64 rounding *)

Definition fexp64 : Z -> Z := FLT_exp (-1074) 53.
Definition rn (x : R) : R := round radix2 fexp64 ZnearestE x.

Definition u : R := bpow radix2 (-53).
Definition eta : R := bpow radix2 (-1075).
(* unit roundoff with the underflow term absorbed, valid against any bound X >= 2^-900 *)
Definition u1 : R := u * (1 + bpow radix2 (-100)).

Lemma u_pos : 0 < u. Proof. apply bpow_gt_0. Qed.
Lemma u1_pos : 0 < u1.
Proof. unfold u1. pose proof u_pos. pose proof (bpow_gt_0 radix2 (-100)). nra. Qed.

Lemma rn_err x : Rabs (rn x - x) <= u * Rabs x + eta.
Proof.
  destruct (error_N_FLT radix2 (-1074) 53 ltac:(lia) (fun n => negb (Z.even n)) x)
    as (eps & et & He & Ht & _ & E).
  change (round radix2 (FLT_exp (-1074) 53) (Znearest (fun n => negb (Z.even n))) x) with (rn x) in E.
  rewrite E. replace (x * (1 + eps) + et - x) with (x * eps + et) by ring.
  assert (Hu : / 2 * bpow radix2 (- (53) + 1) = u).
  { unfold u. change (/ 2) with (bpow radix2 (-1)). rewrite <- bpow_plus. reflexivity. }
  assert (Het : / 2 * bpow radix2 (-1074) = eta).
  { unfold eta. change (/ 2) with (bpow radix2 (-1)). rewrite <- bpow_plus. reflexivity. }
  rewrite Hu in He. rewrite Het in Ht.
  apply Rle_trans with (1 := Rabs_triang _ _). rewrite Rabs_mult.
  pose proof (Rabs_pos x). nra.
Qed.

Lemma eta_small X : bpow radix2 (-900) <= X -> eta <= u * bpow radix2 (-100) * X.
Proof.
  intros HX. unfold eta, u. rewrite <- bpow_plus.
  apply Rle_trans with (bpow radix2 (-53 + -100) * bpow radix2 (-900)).
  - rewrite <- bpow_plus. apply bpow_le. lia.
  - apply Rmult_le_compat_l; [left; apply bpow_gt_0 | exact HX].
Qed.

(* the working form: x within E of the exact v, and bounded by X *)
Lemma rn_ap vt v E X : Rabs (vt - v) <= E -> Rabs vt <= X -> bpow radix2 (-900) <= X ->
  Rabs (rn vt - v) <= E + u1 * X.
Proof.
  intros HE HX Hbig. pose proof (rn_err vt) as H. pose proof (eta_small X Hbig) as He.
  replace (rn vt - v) with ((rn vt - vt) + (vt - v)) by ring.
  apply Rle_trans with (1 := Rabs_triang _ _). unfold u1. pose proof u_pos. nra.
Qed.

Lemma Rabs_mul_le x y X Y : Rabs x <= X -> Rabs y <= Y -> Rabs (x * y) <= X * Y.
Proof.
  intros Hx Hy. rewrite Rabs_mult. pose proof (Rabs_pos x). pose proof (Rabs_pos y).
  apply Rmult_le_compat; assumption.
Qed.

Lemma Rabs_le_add x y X Y : Rabs x <= X -> Rabs y <= Y -> Rabs (x + y) <= X + Y.
Proof. intros Hx Hy. apply Rle_trans with (1 := Rabs_triang _ _). lra. Qed.

Lemma Rabs_le_sub x y X Y : Rabs x <= X -> Rabs y <= Y -> Rabs (x - y) <= X + Y.
Proof. intros Hx Hy. unfold Rminus. apply Rabs_le_add; [exact Hx | now rewrite Rabs_Ropp]. Qed.

(* |xt| <= |x| + error *)
Lemma Rabs_near xt x E X : Rabs (xt - x) <= E -> Rabs x <= X -> Rabs xt <= X + E.
Proof.
  intros HE HX. replace xt with (x + (xt - x)) by ring. apply Rabs_le_add; assumption.
Qed.

(* product of two approximations *)
Lemma mul_ap xt x yt y ex ey X Y :
  Rabs (xt - x) <= ex -> Rabs (yt - y) <= ey -> Rabs x <= X -> Rabs y <= Y ->
  Rabs (xt * yt - x * y) <= ex * Y + X * ey + ex * ey.
Proof.
  intros Hx Hy HX HY.
  replace (xt * yt - x * y) with ((xt - x) * y + x * (yt - y) + (xt - x) * (yt - y)) by ring.
  apply Rabs_le_add; [apply Rabs_le_add|]; apply Rabs_mul_le; assumption.
Qed.

Lemma u1_small : u1 <= / 1000000.
Proof.
  unfold u1, u.
  assert (H1 : bpow radix2 (-53) <= / 8000000).
  { change (bpow radix2 (-53)) with (/ IZR 9007199254740992). lra. }
  assert (H2 : bpow radix2 (-100) <= 1).
  { change 1 with (bpow radix2 0). apply bpow_le. lia. }
  pose proof (bpow_gt_0 radix2 (-53)). pose proof (bpow_gt_0 radix2 (-100)). nra.
Qed.

(* c1 * S <= c2 * S from c1 <= c2 *)
Ltac by_coef c1 c2 S :=
  match goal with
  | |- ?l <= ?r =>
    replace l with (c1 * S) by field; replace r with (c2 * S) by field;
    apply Rmult_le_compat_r; [nra | nra]
  end.

(* ------------------------------------------------------------------ Part 1: the stages *)

(* an edge component: one subtraction of two inputs *)
Lemma edge_ap p q M : Rabs (p - q) <= M -> bpow radix2 (-900) <= M ->
  Rabs (rn (p - q) - (p - q)) <= u1 * M.
Proof.
  intros H HM. pose proof (rn_ap (p - q) (p - q) 0 M) as A.
  replace (p - q - (p - q)) with 0 in A by ring. rewrite Rabs_R0 in A.
  specialize (A (Rle_refl 0) H HM). lra.
Qed.

(* a product of two edge components *)
Lemma prod_ap Pt P Qt Q M : 0 < M -> bpow radix2 (-900) <= M * M ->
  Rabs (Pt - P) <= u1 * M -> Rabs (Qt - Q) <= u1 * M -> Rabs P <= M -> Rabs Q <= M ->
  Rabs (rn (Pt * Qt) - P * Q) <= 31 / 10 * u1 * (M * M).
Proof.
  intros HM Hbig HP HQ BP BQ. pose proof u1_pos as U0. pose proof u1_small as U1.
  pose proof (mul_ap _ _ _ _ _ _ _ _ HP HQ BP BQ) as E.
  pose proof (Rabs_mul_le _ _ _ _ (Rabs_near _ _ _ _ HP BP) (Rabs_near _ _ _ _ HQ BQ)) as X.
  assert (HS : 0 < M * M) by nra.
  assert (Hb : bpow radix2 (-900) <= (M + u1 * M) * (M + u1 * M)).
  { apply Rle_trans with (1 := Hbig). assert (0 <= u1 * (M * M)) by nra. nra. }
  pose proof (rn_ap _ _ _ _ E X Hb) as A.
  apply Rle_trans with (1 := A).
  by_coef (2 * u1 + u1 * u1 + u1 * ((1 + u1) * (1 + u1))) (31 / 10 * u1) (M * M).
Qed.

(* a component of the cross product: the difference of two such products *)
Lemma cross_ap p1t p1 p2t p2 M : 0 < M -> bpow radix2 (-900) <= M * M ->
  Rabs (p1t - p1) <= 31 / 10 * u1 * (M * M) -> Rabs (p2t - p2) <= 31 / 10 * u1 * (M * M) ->
  Rabs p1 <= M * M -> Rabs p2 <= M * M ->
  Rabs (rn (p1t - p2t) - (p1 - p2)) <= 9 * u1 * (M * M).
Proof.
  intros HM Hbig H1 H2 B1 B2. pose proof u1_pos as U0. pose proof u1_small as U1.
  assert (E : Rabs (p1t - p2t - (p1 - p2)) <= 31 / 10 * u1 * (M * M) + 31 / 10 * u1 * (M * M)).
  { replace (p1t - p2t - (p1 - p2)) with ((p1t - p1) - (p2t - p2)) by ring. now apply Rabs_le_sub. }
  pose proof (Rabs_le_sub _ _ _ _ (Rabs_near _ _ _ _ H1 B1) (Rabs_near _ _ _ _ H2 B2)) as X.
  assert (HS : 0 < M * M) by nra.
  assert (Hb : bpow radix2 (-900) <= M * M + 31 / 10 * u1 * (M * M) + (M * M + 31 / 10 * u1 * (M * M))).
  { apply Rle_trans with (1 := Hbig). assert (0 <= u1 * (M * M)) by nra. nra. }
  pose proof (rn_ap _ _ _ _ E X Hb) as A.
  apply Rle_trans with (1 := A).
  by_coef (62 / 10 * u1 + u1 * (2 + 62 / 10 * u1)) (9 * u1) (M * M).
Qed.

(* the square of a cross component; L = |cross|, th = relative error of the components *)
Lemma sq_ap ct c L th : 0 < L -> bpow radix2 (-900) <= L * L -> 0 <= th <= / 1000 ->
  Rabs (ct - c) <= th * L -> Rabs c <= L ->
  Rabs (rn (ct * ct) - c * c) <= (21 / 10 * th + 11 / 10 * u1) * (L * L).
Proof.
  intros HL Hbig Hth Hc Bc. pose proof u1_pos as U0. pose proof u1_small as U1.
  pose proof (mul_ap _ _ _ _ _ _ _ _ Hc Hc Bc Bc) as E.
  pose proof (Rabs_mul_le _ _ _ _ (Rabs_near _ _ _ _ Hc Bc) (Rabs_near _ _ _ _ Hc Bc)) as X.
  assert (HS : 0 < L * L) by nra.
  assert (Hb : bpow radix2 (-900) <= (L + th * L) * (L + th * L)).
  { apply Rle_trans with (1 := Hbig). assert (0 <= th * (L * L)) by nra. nra. }
  pose proof (rn_ap _ _ _ _ E X Hb) as A.
  apply Rle_trans with (1 := A).
  by_coef (2 * th + th * th + u1 * ((1 + th) * (1 + th))) (21 / 10 * th + 11 / 10 * u1) (L * L).
Qed.

Lemma add_ap xt x yt y ex ey S :
  Rabs (xt - x) <= ex -> Rabs (yt - y) <= ey -> Rabs (x + y) <= S ->
  bpow radix2 (-900) <= S + (ex + ey) ->
  Rabs (rn (xt + yt) - (x + y)) <= ex + ey + u1 * (S + (ex + ey)).
Proof.
  intros Hx Hy HS Hb.
  assert (E : Rabs (xt + yt - (x + y)) <= ex + ey).
  { replace (xt + yt - (x + y)) with ((xt - x) + (yt - y)) by ring. now apply Rabs_le_add. }
  exact (rn_ap _ _ _ _ E (Rabs_near _ _ _ _ E HS) Hb).
Qed.

(* the sum of the three squares *)
Lemma dot_ap q1t q1 q2t q2 q3t q3 L a : 0 < L -> bpow radix2 (-900) <= L * L -> 0 <= a <= / 100 ->
  Rabs (q1t - q1) <= a * (L * L) -> Rabs (q2t - q2) <= a * (L * L) -> Rabs (q3t - q3) <= a * (L * L) ->
  0 <= q1 -> 0 <= q2 -> 0 <= q3 -> q1 + q2 + q3 = L * L ->
  Rabs (rn (rn (q1t + q2t) + q3t) - L * L) <= (3 * a + 21 / 10 * u1) * (L * L).
Proof.
  intros HL Hbig Ha H1 H2 H3 P1 P2 P3 Hs. pose proof u1_pos as U0. pose proof u1_small as U1.
  assert (HS : 0 < L * L) by nra. set (S := L * L) in *.
  assert (B12 : Rabs (q1 + q2) <= S) by (rewrite Rabs_pos_eq; lra).
  assert (Hb1 : bpow radix2 (-900) <= S + (a * S + a * S)) by nra.
  pose proof (add_ap _ _ _ _ _ _ _ H1 H2 B12 Hb1) as A1.
  assert (B3 : Rabs (q1 + q2 + q3) <= S) by (rewrite Hs, Rabs_pos_eq; lra).
  set (e1 := a * S + a * S + u1 * (S + (a * S + a * S))) in *.
  assert (HaS : 0 <= a * S) by nra.
  assert (He1 : 0 <= e1) by (unfold e1; assert (0 <= u1 * (S + (a * S + a * S))) by (apply Rmult_le_pos; nra); nra).
  assert (Hb2 : bpow radix2 (-900) <= S + (e1 + a * S)) by nra.
  pose proof (add_ap _ _ _ _ _ _ _ A1 H3 B3 Hb2) as A2. rewrite Hs in A2.
  apply Rle_trans with (1 := A2). unfold e1.
  by_coef (3 * a + u1 * (1 + 2 * a) + u1 * (1 + (3 * a + u1 * (1 + 2 * a)))) (3 * a + 21 / 10 * u1) S.
Qed.

(* the square root *)
Lemma sqrt_ap st L a : 0 < L -> 0 <= a <= / 2 -> Rabs (st - L * L) <= a * (L * L) ->
  Rabs (sqrt st - L) <= a * L.
Proof.
  intros HL Ha Hs. apply Rabs_le_inv in Hs. destruct Hs as [Hs1 Hs2].
  assert (Hst : 0 <= st) by nra.
  pose proof (sqrt_pos st) as Ht. pose proof (sqrt_sqrt st Hst) as Htt.
  set (t := sqrt st) in *. apply Rabs_le. split.
  - destruct (Rle_or_lt (- (a * L)) (t - L)) as [|C]; [assumption|]. exfalso.
    assert ((t - L) * (t + L) < - (a * L) * (t + L)) by (apply Rmult_lt_compat_r; lra).
    assert (- (a * L) * (t + L) <= - (a * L) * L) by nra.
    nra.
  - destruct (Rle_or_lt (t - L) (a * L)) as [|C]; [assumption|]. exfalso.
    assert (a * L * (t + L) < (t - L) * (t + L)) by (apply Rmult_lt_compat_r; lra).
    assert (a * L * L <= a * L * (t + L)) by (apply Rmult_le_compat_l; nra).
    nra.
Qed.

Lemma len_ap st L a : 0 < L -> bpow radix2 (-900) <= L -> 0 <= a <= / 100 ->
  Rabs (st - L * L) <= a * (L * L) ->
  Rabs (rn (sqrt st) - L) <= (a + 11 / 10 * u1) * L.
Proof.
  intros HL Hbig Ha Hs. pose proof u1_pos as U0. pose proof u1_small as U1.
  assert (E : Rabs (sqrt st - L) <= a * L) by (apply sqrt_ap; [assumption | lra | assumption]).
  assert (BL : Rabs L <= L) by (rewrite Rabs_pos_eq; lra).
  assert (Hb : bpow radix2 (-900) <= L + a * L) by nra.
  pose proof (rn_ap _ _ _ _ E (Rabs_near _ _ _ _ E BL) Hb) as A.
  apply Rle_trans with (1 := A).
  by_coef (a + u1 * (1 + a)) (a + 11 / 10 * u1) L.
Qed.

(* the reciprocal *)
Lemma inv_ap lt L a : 0 < L -> 0 <= a <= / 4 -> Rabs (lt - L) <= a * L ->
  0 < lt /\ Rabs (/ lt - / L) <= (1 + 2 * a) * a * / L /\ Rabs (/ lt) <= (1 + 2 * a) * / L.
Proof.
  intros HL Ha Hl. apply Rabs_le_inv in Hl. destruct Hl as [Hl1 Hl2].
  assert (Hlt : 0 < lt) by nra.
  assert (Hv : 0 < / L) by (apply Rinv_0_lt_compat; exact HL).
  assert (Hw : 0 < / lt) by (apply Rinv_0_lt_compat; exact Hlt).
  assert (Ev : / L * L = 1) by (apply Rinv_l; lra).
  assert (Ew : / lt * lt = 1) by (apply Rinv_l; lra).
  set (v := / L) in *. set (w := / lt) in *.
  assert (W1 : w * (1 - a) <= v).
  { assert (w * ((1 - a) * L) <= w * lt) by (apply Rmult_le_compat_l; nra).
    assert (w * (1 - a) * L <= v * L) by nra.
    apply Rmult_le_reg_r with L; [exact HL | nra]. }
  assert (W2 : w <= (1 + 2 * a) * v).
  { assert (w <= w * (1 - a) * (1 + 2 * a)).
    { assert (0 <= w * (a * (1 - 2 * a))) by (apply Rmult_le_pos; nra). nra. }
    assert (w * (1 - a) * (1 + 2 * a) <= v * (1 + 2 * a)) by (apply Rmult_le_compat_r; nra). nra. }
  split; [exact Hlt|]. split.
  - assert (Ed : w - v = w * v * (L - lt)).
    { replace (w * v * (L - lt)) with (w * (v * L) - v * (w * lt)) by ring. rewrite Ev, Ew. ring. }
    rewrite Ed. replace ((1 + 2 * a) * a * v) with (((1 + 2 * a) * v) * v * (a * L)).
    2:{ replace ((1 + 2 * a) * v * v * (a * L)) with ((1 + 2 * a) * a * v * (v * L)) by ring. rewrite Ev. ring. }
    apply Rabs_mul_le; [apply Rabs_mul_le|].
    + rewrite Rabs_pos_eq; lra.
    + rewrite Rabs_pos_eq; lra.
    + apply Rabs_le. lra.
  - rewrite Rabs_pos_eq; lra.
Qed.

Lemma rcp_ap lt L a : 0 < L -> bpow radix2 (-900) <= / L -> 0 <= a <= / 100 ->
  Rabs (lt - L) <= a * L ->
  Rabs (rn (1 / lt) - / L) <= (103 / 100 * a + 11 / 10 * u1) * / L.
Proof.
  intros HL Hbig Ha Hl. pose proof u1_pos as U0. pose proof u1_small as U1.
  destruct (inv_ap lt L a HL ltac:(lra) Hl) as (Hlt & E & X).
  assert (Hv : 0 < / L) by (apply Rinv_0_lt_compat; exact HL).
  unfold Rdiv. rewrite Rmult_1_l.
  assert (Hb : bpow radix2 (-900) <= (1 + 2 * a) * / L) by nra.
  pose proof (rn_ap _ _ _ _ E X Hb) as A.
  apply Rle_trans with (1 := A).
  set (v := / L) in *.
  by_coef ((1 + 2 * a) * a + u1 * (1 + 2 * a)) (103 / 100 * a + 11 / 10 * u1) v.
Qed.

(* the final product: component times reciprocal length *)
Lemma comp_ap ct c kt L th b : 0 < L -> 0 <= th <= / 1000 -> 0 <= b <= / 100 ->
  Rabs (ct - c) <= th * L -> Rabs c <= L -> Rabs (kt - / L) <= b * / L ->
  Rabs (rn (ct * kt) - c * / L) <= th + b + th * b + u1 * ((1 + th) * (1 + b)) /\
  Rabs (rn (ct * kt)) <= 1 + (th + b + th * b + u1 * ((1 + th) * (1 + b))).
Proof.
  intros HL Hth Hb Hc Bc Hk. pose proof u1_pos as U0.
  assert (Hv : 0 < / L) by (apply Rinv_0_lt_compat; exact HL).
  assert (Ev : L * / L = 1) by (apply Rinv_r; lra).
  assert (Bk : Rabs (/ L) <= / L) by (rewrite Rabs_pos_eq; lra).
  pose proof (mul_ap _ _ _ _ _ _ _ _ Hc Hk Bc Bk) as E.
  pose proof (Rabs_mul_le _ _ _ _ (Rabs_near _ _ _ _ Hc Bc) (Rabs_near _ _ _ _ Hk Bk)) as X.
  replace (th * L * / L + L * (b * / L) + th * L * (b * / L)) with (th + b + th * b) in E.
  2:{ replace (th * L * / L + L * (b * / L) + th * L * (b * / L)) with ((th + b + th * b) * (L * / L)) by ring.
      rewrite Ev. ring. }
  replace ((L + th * L) * (/ L + b * / L)) with ((1 + th) * (1 + b)) in X.
  2:{ replace ((L + th * L) * (/ L + b * / L)) with ((1 + th) * (1 + b) * (L * / L)) by ring.
      rewrite Ev. ring. }
  assert (Hb1 : bpow radix2 (-900) <= (1 + th) * (1 + b)).
  { apply Rle_trans with 1; [|nra]. change 1 with (bpow radix2 0). apply bpow_le. lia. }
  pose proof (rn_ap _ _ _ _ E X Hb1) as A. split; [exact A|].
  assert (Bn : Rabs (c * / L) <= 1).
  { rewrite <- Ev. apply Rabs_mul_le; assumption. }
  pose proof (Rabs_near _ _ _ _ A Bn). lra.
Qed.

(* ------------------------------------------------------------------ Part 1: composition *)

(* Triangle3.Normal() with a binary64 rounding after every operation *)
Definition rnd_ops : ops R :=
  {| o_sub := fun x y => rn (x - y); o_add := fun x y => rn (x + y); o_mul := fun x y => rn (x * y);
     o_div := fun x y => rn (x / y); o_sqrt := fun x => rn (sqrt x); o_one := 1 |}.

Lemma u_le_u1 : u <= u1.
Proof. unfold u1. pose proof u_pos. pose proof (bpow_gt_0 radix2 (-100)). nra. Qed.

Lemma bpow_sq_ge M k : bpow radix2 k <= M -> bpow radix2 (k + k) <= M * M.
Proof.
  intros H. rewrite bpow_plus. pose proof (bpow_gt_0 radix2 k).
  apply Rmult_le_compat; lra.
Qed.
Lemma bpow_sq_le M k : 0 <= M -> M <= bpow radix2 k -> M * M <= bpow radix2 (k + k).
Proof. intros H0 H. rewrite bpow_plus. apply Rmult_le_compat; lra. Qed.

Lemma sq_le_abs c L : 0 <= L -> c * c <= L * L -> Rabs c <= L.
Proof.
  intros HL H. apply Rabs_le. split.
  - destruct (Rle_or_lt (- L) c); [assumption | exfalso; nra].
  - destruct (Rle_or_lt c L); [assumption | exfalso; nra].
Qed.

Section Analysis.
  (* exact edge vectors e1 = b - a, e2 = c - a and their computed versions *)
  Variables x1 y1 z1 x2 y2 z2 x1t y1t z1t x2t y2t z2t : R.
  Variables M th : R.
  Hypothesis HMlo : bpow radix2 (-200) <= M.
  Hypothesis HMhi : M <= bpow radix2 200.
  Hypothesis Bx1 : Rabs x1 <= M. Hypothesis By1 : Rabs y1 <= M. Hypothesis Bz1 : Rabs z1 <= M.
  Hypothesis Bx2 : Rabs x2 <= M. Hypothesis By2 : Rabs y2 <= M. Hypothesis Bz2 : Rabs z2 <= M.
  Hypothesis Ex1 : Rabs (x1t - x1) <= u1 * M. Hypothesis Ey1 : Rabs (y1t - y1) <= u1 * M.
  Hypothesis Ez1 : Rabs (z1t - z1) <= u1 * M. Hypothesis Ex2 : Rabs (x2t - x2) <= u1 * M.
  Hypothesis Ey2 : Rabs (y2t - y2) <= u1 * M. Hypothesis Ez2 : Rabs (z2t - z2) <= u1 * M.

  Let cx := y1 * z2 - z1 * y2.
  Let cy := z1 * x2 - x1 * z2.
  Let cz := x1 * y2 - y1 * x2.
  Let L := sqrt (cx * cx + cy * cy + cz * cz).
  (* conditioning: the error of a cross component, 9 u1 M^2, relative to |cross| *)
  Hypothesis Hth : 0 <= th <= / 1000.
  Hypothesis Hcond : 9 * u1 * (M * M) <= th * L.

  Let cxt := rn (rn (y1t * z2t) - rn (z1t * y2t)).
  Let cyt := rn (rn (z1t * x2t) - rn (x1t * z2t)).
  Let czt := rn (rn (x1t * y2t) - rn (y1t * x2t)).
  Let st := rn (rn (rn (cxt * cxt) + rn (cyt * cyt)) + rn (czt * czt)).
  Let kt := rn (1 / rn (sqrt st)).

  Lemma M_pos : 0 < M.
  Proof. pose proof (bpow_gt_0 radix2 (-200)). lra. Qed.
  Lemma MM_big : bpow radix2 (-900) <= M * M.
  Proof.
    apply Rle_trans with (bpow radix2 (-200 + -200)); [apply bpow_le; lia | now apply bpow_sq_ge].
  Qed.

  Lemma cross_err_x : Rabs (cxt - cx) <= 9 * u1 * (M * M).
  Proof.
    pose proof M_pos. pose proof MM_big.
    apply cross_ap; try assumption; try (apply prod_ap; assumption); apply Rabs_mul_le; assumption.
  Qed.
  Lemma cross_err_y : Rabs (cyt - cy) <= 9 * u1 * (M * M).
  Proof.
    pose proof M_pos. pose proof MM_big.
    apply cross_ap; try assumption; try (apply prod_ap; assumption); apply Rabs_mul_le; assumption.
  Qed.
  Lemma cross_err_z : Rabs (czt - cz) <= 9 * u1 * (M * M).
  Proof.
    pose proof M_pos. pose proof MM_big.
    apply cross_ap; try assumption; try (apply prod_ap; assumption); apply Rabs_mul_le; assumption.
  Qed.

  Lemma L_sq : L * L = cx * cx + cy * cy + cz * cz.
  Proof. unfold L. apply sqrt_sqrt. nra. Qed.
  Lemma L_nonneg : 0 <= L.
  Proof. apply sqrt_pos. Qed.

  Lemma L_lower : bpow radix2 (-450) <= L.
  Proof.
    pose proof u_le_u1 as Hu. pose proof MM_big. pose proof L_nonneg. pose proof M_pos.
    assert (H400 : bpow radix2 (-400) <= M * M) by (apply (bpow_sq_ge M (-200)); assumption).
    assert (K1 : 9 * u * bpow radix2 (-400) <= th * L).
    { apply Rle_trans with (2 := Hcond). pose proof u_pos. pose proof (bpow_gt_0 radix2 (-400)).
      apply Rmult_le_compat; nra. }
    assert (K2 : th * L <= L) by nra.
    apply Rle_trans with (9 * u * bpow radix2 (-400)); [|lra].
    unfold u. apply Rle_trans with (bpow radix2 3 * (bpow radix2 (-53) * bpow radix2 (-400))).
    - rewrite <- !bpow_plus. apply bpow_le. lia.
    - change (bpow radix2 3) with 8. pose proof (bpow_gt_0 radix2 (-53)). pose proof (bpow_gt_0 radix2 (-400)). nra.
  Qed.
  Lemma L_pos : 0 < L.
  Proof. pose proof L_lower. pose proof (bpow_gt_0 radix2 (-450)). lra. Qed.
  Lemma LL_big : bpow radix2 (-900) <= L * L.
  Proof.
    apply Rle_trans with (bpow radix2 (-450 + -450)); [apply bpow_le; lia | apply bpow_sq_ge, L_lower].
  Qed.
  Lemma L_big : bpow radix2 (-900) <= L.
  Proof. apply Rle_trans with (2 := L_lower). apply bpow_le. lia. Qed.

  Lemma L_upper : L <= bpow radix2 402.
  Proof.
    pose proof M_pos as HM.
    assert (HMM : M * M <= bpow radix2 400) by (apply (bpow_sq_le M 200); lra).
    assert (Hc : forall p q r s, Rabs p <= M -> Rabs q <= M -> Rabs r <= M -> Rabs s <= M ->
                 Rabs (p * q - r * s) <= 2 * bpow radix2 400).
    { intros p q r s Hp Hq Hr Hs.
      pose proof (Rabs_le_sub _ _ _ _ (Rabs_mul_le _ _ _ _ Hp Hq) (Rabs_mul_le _ _ _ _ Hr Hs)). lra. }
    assert (Hsq : forall c, Rabs c <= 2 * bpow radix2 400 -> c * c <= 4 * bpow radix2 800).
    { intros c Hc'. replace (c * c) with (Rabs c * Rabs c) by (rewrite <- Rabs_mult; apply Rabs_pos_eq; nra).
      replace (4 * bpow radix2 800) with ((2 * bpow radix2 400) * (2 * bpow radix2 400)).
      - pose proof (Rabs_pos c). apply Rmult_le_compat; lra.
      - replace 800%Z with (400 + 400)%Z by reflexivity. rewrite bpow_plus. ring. }
    assert (HLL : L * L <= 16 * bpow radix2 800).
    { rewrite L_sq. pose proof (Hsq cx (Hc _ _ _ _ By1 Bz2 Bz1 By2)).
      pose proof (Hsq cy (Hc _ _ _ _ Bz1 Bx2 Bx1 Bz2)). pose proof (Hsq cz (Hc _ _ _ _ Bx1 By2 By1 Bx2)).
      pose proof (bpow_gt_0 radix2 800). lra. }
    assert (E : 16 * bpow radix2 800 = bpow radix2 402 * bpow radix2 402).
    { rewrite <- bpow_plus. replace (402 + 402)%Z with (4 + 800)%Z by reflexivity. rewrite bpow_plus. reflexivity. }
    rewrite E in HLL. pose proof L_nonneg. pose proof (bpow_gt_0 radix2 402).
    destruct (Rle_or_lt L (bpow radix2 402)); [assumption | exfalso; nra].
  Qed.
  Lemma invL_big : bpow radix2 (-900) <= / L.
  Proof.
    pose proof L_pos. apply Rle_trans with (/ bpow radix2 402).
    - rewrite <- bpow_opp. apply bpow_le. lia.
    - apply Rinv_le_contravar; [assumption | apply L_upper].
  Qed.

  Lemma cx_le : Rabs cx <= L. Proof. apply sq_le_abs; [apply L_nonneg | rewrite L_sq; nra]. Qed.
  Lemma cy_le : Rabs cy <= L. Proof. apply sq_le_abs; [apply L_nonneg | rewrite L_sq; nra]. Qed.
  Lemma cz_le : Rabs cz <= L. Proof. apply sq_le_abs; [apply L_nonneg | rewrite L_sq; nra]. Qed.

  Lemma cxt_rel : Rabs (cxt - cx) <= th * L. Proof. apply Rle_trans with (1 := cross_err_x). exact Hcond. Qed.
  Lemma cyt_rel : Rabs (cyt - cy) <= th * L. Proof. apply Rle_trans with (1 := cross_err_y). exact Hcond. Qed.
  Lemma czt_rel : Rabs (czt - cz) <= th * L. Proof. apply Rle_trans with (1 := cross_err_z). exact Hcond. Qed.

  (* the squared length *)
  Lemma st_err : Rabs (st - L * L) <= (63 / 10 * th + 54 / 10 * u1) * (L * L).
  Proof.
    pose proof L_pos as HL. pose proof LL_big as HLL. pose proof u1_pos as U0. pose proof u1_small as U1.
    pose proof (sq_ap _ _ _ _ HL HLL Hth cxt_rel cx_le) as Q1.
    pose proof (sq_ap _ _ _ _ HL HLL Hth cyt_rel cy_le) as Q2.
    pose proof (sq_ap _ _ _ _ HL HLL Hth czt_rel cz_le) as Q3.
    assert (Ha : 0 <= 21 / 10 * th + 11 / 10 * u1 <= / 100) by lra.
    pose proof (dot_ap _ _ _ _ _ _ L _ HL HLL Ha Q1 Q2 Q3
                  ltac:(nra) ltac:(nra) ltac:(nra) (eq_sym L_sq)) as D.
    fold st in D. apply Rle_trans with (1 := D).
    apply Rmult_le_compat_r; [nra | lra].
  Qed.

  (* the reciprocal length *)
  Lemma kt_err : Rabs (kt - / L) <= (66 / 10 * th + 8 * u1) * / L.
  Proof.
    pose proof L_pos as HL. pose proof u1_pos as U0. pose proof u1_small as U1.
    assert (Ha : 0 <= 63 / 10 * th + 54 / 10 * u1 <= / 100) by lra.
    pose proof (len_ap _ _ _ HL L_big Ha st_err) as Hl.
    assert (Hb : 0 <= 63 / 10 * th + 54 / 10 * u1 + 11 / 10 * u1 <= / 100) by lra.
    pose proof (rcp_ap _ _ _ HL invL_big Hb Hl) as Hk. fold kt in Hk.
    apply Rle_trans with (1 := Hk).
    assert (0 < / L) by (apply Rinv_0_lt_compat; exact HL).
    apply Rmult_le_compat_r; lra.
  Qed.

  Definition err_n : R := 8 * th + 10 * u1.

  Lemma comp_bound ct c : Rabs (ct - c) <= th * L -> Rabs c <= L ->
    Rabs (rn (ct * kt) - c * (1 / L)) <= err_n /\ Rabs (rn (ct * kt)) <= 1 + err_n.
  Proof.
    intros Hc Bc. replace (1 / L) with (/ L) by (unfold Rdiv; ring). pose proof L_pos as HL. pose proof u1_pos as U0. pose proof u1_small as U1.
    assert (Hb : 0 <= 66 / 10 * th + 8 * u1 <= / 100) by lra.
    destruct (comp_ap _ _ _ _ _ _ HL Hth Hb Hc Bc kt_err) as [A B].
    assert (E : th + (66 / 10 * th + 8 * u1) + th * (66 / 10 * th + 8 * u1) +
                u1 * ((1 + th) * (1 + (66 / 10 * th + 8 * u1))) <= err_n) by (unfold err_n; nra).
    split; lra.
  Qed.

  Lemma normal_x : Rabs (rn (cxt * kt) - cx * (1 / L)) <= err_n /\ Rabs (rn (cxt * kt)) <= 1 + err_n.
  Proof. apply comp_bound; [apply cxt_rel | apply cx_le]. Qed.
  Lemma normal_y : Rabs (rn (cyt * kt) - cy * (1 / L)) <= err_n /\ Rabs (rn (cyt * kt)) <= 1 + err_n.
  Proof. apply comp_bound; [apply cyt_rel | apply cy_le]. Qed.
  Lemma normal_z : Rabs (rn (czt * kt) - cz * (1 / L)) <= err_n /\ Rabs (rn (czt * kt)) <= 1 + err_n.
  Proof. apply comp_bound; [apply czt_rel | apply cz_le]. Qed.
  (* what the float evaluation needs: the radicand is positive, the divisor not tiny *)
  Lemma st_pos : 0 < st.
  Proof.
    pose proof L_pos as HL. pose proof u1_pos as U0. pose proof u1_small as U1.
    pose proof st_err as E. apply Rabs_le_inv in E. destruct E as [E _].
    assert (HS : 0 < L * L) by nra.
    assert ((63 / 10 * th + 54 / 10 * u1) * (L * L) <= / 100 * (L * L)) by (apply Rmult_le_compat_r; lra).
    lra.
  Qed.

  Lemma lt_lower : bpow radix2 (-451) <= rn (sqrt st).
  Proof.
    pose proof L_pos as HL. pose proof u1_pos as U0. pose proof u1_small as U1.
    assert (Ha : 0 <= 63 / 10 * th + 54 / 10 * u1 <= / 100) by lra.
    pose proof (len_ap _ _ _ HL L_big Ha st_err) as Hl. apply Rabs_le_inv in Hl. destruct Hl as [Hl _].
    assert ((63 / 10 * th + 54 / 10 * u1 + 11 / 10 * u1) * L <= / 2 * L) by (apply Rmult_le_compat_r; lra).
    pose proof L_lower as H450.
    assert (E : bpow radix2 (-451) = / 2 * bpow radix2 (-450)).
    { change (/ 2) with (bpow radix2 (-1)). rewrite <- bpow_plus. reflexivity. }
    rewrite E. lra.
  Qed.
End Analysis.

(* ------------------------------------------------------------------ Part 2: primitive floats *)

Notation pfloat := Coq.Floats.PrimFloat.float (only parsing).

(* f is finite with real value v *)
Definition fin (f : pfloat) (v : R) : Prop :=
  is_finite (FP.Prim2B f) = true /\ B2R (FP.Prim2B f) = v.

Lemma rn_abs_le x k : (-1074 <= k)%Z -> Rabs x <= bpow radix2 k -> Rabs (rn x) <= bpow radix2 k.
Proof.
  intros Hk H. apply abs_round_le_generic; [apply FLT_exp_valid; reflexivity | apply valid_rnd_N | | exact H].
  apply generic_format_bpow. unfold fexp64, FLT_exp. lia.
Qed.

Lemma rn_lt_max x : Rabs x <= bpow radix2 1023 -> Rabs (rn x) < bpow radix2 1024.
Proof.
  intros H. apply Rle_lt_trans with (bpow radix2 1023); [apply rn_abs_le; [lia | exact H] | apply bpow_lt; lia].
Qed.

Lemma fin_sub f g x y : fin f x -> fin g y -> Rabs (x - y) <= bpow radix2 1023 ->
  fin (PrimFloat.sub f g) (rn (x - y)).
Proof.
  intros [Ff Vf] [Fg Vg] H. unfold fin. rewrite FP.sub_equiv.
  pose proof (Bminus_correct _ _ FP.Hprec FP.Hmax mode_NE _ _ Ff Fg) as C.
  rewrite Vf, Vg in C. rewrite Rlt_bool_true in C by (apply rn_lt_max; exact H).
  destruct C as (V & F & _). split; assumption.
Qed.

Lemma fin_add f g x y : fin f x -> fin g y -> Rabs (x + y) <= bpow radix2 1023 ->
  fin (PrimFloat.add f g) (rn (x + y)).
Proof.
  intros [Ff Vf] [Fg Vg] H. unfold fin. rewrite FP.add_equiv.
  pose proof (Bplus_correct _ _ FP.Hprec FP.Hmax mode_NE _ _ Ff Fg) as C.
  rewrite Vf, Vg in C. rewrite Rlt_bool_true in C by (apply rn_lt_max; exact H).
  destruct C as (V & F & _). split; assumption.
Qed.

Lemma fin_mul f g x y : fin f x -> fin g y -> Rabs (x * y) <= bpow radix2 1023 ->
  fin (PrimFloat.mul f g) (rn (x * y)).
Proof.
  intros [Ff Vf] [Fg Vg] H. unfold fin. rewrite FP.mul_equiv.
  pose proof (Bmult_correct _ _ FP.Hprec FP.Hmax mode_NE (FP.Prim2B f) (FP.Prim2B g)) as C.
  rewrite Vf, Vg in C. rewrite Rlt_bool_true in C by (apply rn_lt_max; exact H).
  destruct C as (V & F & _). rewrite Ff, Fg in F. split; assumption.
Qed.

Lemma fin_div f g x y : fin f x -> fin g y -> y <> 0 -> Rabs (x / y) <= bpow radix2 1023 ->
  fin (PrimFloat.div f g) (rn (x / y)).
Proof.
  intros [Ff Vf] [Fg Vg] Hy H. unfold fin. rewrite FP.div_equiv.
  assert (Hy' : B2R (FP.Prim2B g) <> 0) by (rewrite Vg; exact Hy).
  pose proof (Bdiv_correct _ _ FP.Hprec FP.Hmax mode_NE (FP.Prim2B f) (FP.Prim2B g) Hy') as C.
  rewrite Vf, Vg in C. rewrite Rlt_bool_true in C by (apply rn_lt_max; exact H).
  destruct C as (V & F & _). rewrite Ff in F. split; assumption.
Qed.

Lemma fin_sqrt f x : fin f x -> 0 < x -> fin (PrimFloat.sqrt f) (rn (sqrt x)).
Proof.
  intros [Ff Vf] Hx. unfold fin. rewrite FP.sqrt_equiv.
  destruct (Bsqrt_correct _ _ FP.Hprec FP.Hmax mode_NE (FP.Prim2B f)) as (V & F & _).
  rewrite Vf in V. split; [|exact V]. rewrite F.
  destruct (FP.Prim2B f) as [s|s| |s m e B]; try discriminate Ff; [reflexivity|].
  destruct s; [|reflexivity]. exfalso. cbn [B2R] in Vf.
  assert (F2R (Float radix2 (cond_Zopp true (Zpos m)) e) < 0) by (apply F2R_lt_0; reflexivity). lra.
Qed.

Lemma fin_one : fin 1%float 1.
Proof.
  unfold fin. change 1%float with PrimFloat.one. rewrite FP.one_equiv, FP.Prim2B_B2Prim.
  split; [apply is_finite_Bone | apply Bone_correct].
Qed.

(* crude magnitudes, as powers of two, to rule out overflow *)
Definition bnd (x : R) (k : Z) : Prop := Rabs x <= bpow radix2 k.

Lemma bnd_weaken x j k : bnd x j -> (j <= k)%Z -> bnd x k.
Proof. intros H Hjk. apply Rle_trans with (1 := H). now apply bpow_le. Qed.
Lemma bnd_rn x k : bnd x k -> (-1074 <= k)%Z -> bnd (rn x) k.
Proof. intros H Hk. now apply rn_abs_le. Qed.
Lemma bnd_mul x y j k : bnd x j -> bnd y k -> bnd (x * y) (j + k).
Proof. intros Hx Hy. unfold bnd. rewrite bpow_plus. now apply Rabs_mul_le. Qed.
Lemma bnd_add x y j k : bnd x j -> bnd y k -> bnd (x + y) (Z.max j k + 1).
Proof.
  intros Hx Hy. unfold bnd in *.
  assert (bpow radix2 j <= bpow radix2 (Z.max j k)) by (apply bpow_le; lia).
  assert (bpow radix2 k <= bpow radix2 (Z.max j k)) by (apply bpow_le; lia).
  rewrite bpow_plus. change (bpow radix2 1) with 2.
  pose proof (Rabs_le_add _ _ _ _ Hx Hy). lra.
Qed.
Lemma bnd_sub x y j k : bnd x j -> bnd y k -> bnd (x - y) (Z.max j k + 1).
Proof. intros Hx Hy. unfold Rminus. apply bnd_add; [exact Hx | unfold bnd; now rewrite Rabs_Ropp]. Qed.
Lemma bnd_sqrt x k : bnd x (k + k) -> bnd (sqrt x) k.
Proof.
  intros H. unfold bnd in *. rewrite Rabs_pos_eq by apply sqrt_pos.
  apply Rle_trans with (sqrt (bpow radix2 (k + k))).
  - apply sqrt_le_1_alt. apply Rle_trans with (2 := H). apply Rle_abs.
  - rewrite bpow_plus. rewrite sqrt_square; [apply Rle_refl | left; apply bpow_gt_0].
Qed.
Lemma bnd_inv x k : bpow radix2 (- k) <= x -> bnd (1 / x) k.
Proof.
  intros H. pose proof (bpow_gt_0 radix2 (- k)). unfold bnd, Rdiv. rewrite Rmult_1_l.
  assert (0 < / x) by (apply Rinv_0_lt_compat; lra). rewrite Rabs_pos_eq by lra.
  replace k with (- - k)%Z by lia. rewrite (bpow_opp radix2 (- k)).
  apply Rinv_le_contravar; assumption.
Qed.

(* ------------------------------------------------------------------ the two theorems *)

Definition max3 (v : R * R * R) (m : R) : Prop :=
  let '(x, y, z) := v in Rabs x <= m /\ Rabs y <= m /\ Rabs z <= m.
Definition close3 (v w : R * R * R) (e : R) : Prop :=
  let '(x, y, z) := v in let '(p, q, r) := w in
  Rabs (x - p) <= e /\ Rabs (y - q) <= e /\ Rabs (z - r) <= e.

(* the regime: M bounds the components of both edge vectors; th bounds the error of a
   cross component (9 u1 M^2) relative to |(b-a) x (c-a)| *)
Definition regime (a b c : R * R * R) (M th : R) : Prop :=
  bpow radix2 (-200) <= M /\ M <= bpow radix2 200 /\
  max3 (subR b a) M /\ max3 (subR c a) M /\
  0 <= th <= / 1000 /\
  9 * u1 * (M * M) <= th * sqrt (dotR (crossR (subR b a) (subR c a)) (crossR (subR b a) (subR c a))).

Lemma edge_err p q M : bpow radix2 (-200) <= M -> Rabs (p - q) <= M ->
  Rabs (rn (p - q) - (p - q)) <= u1 * M.
Proof.
  intros HM H. apply edge_ap; [exact H|]. apply Rle_trans with (2 := HM). apply bpow_le. lia.
Qed.

(* Part 1: the binary64 evaluation is within err_n of the exact unit normal *)
Theorem normal_rnd_error a b c M th : regime a b c M th ->
  close3 (normal_g rnd_ops a b c) (normal_g R_ops a b c) (err_n th) /\
  max3 (normal_g rnd_ops a b c) (1 + err_n th).
Proof.
  destruct a as [[ax ay] az], b as [[bx by_] bz], c as [[cx cy] cz].
  unfold regime, subR, crossR, dotR. cbn [sub3 cross3 dot3 R_ops o_sub o_mul o_add max3].
  intros (HMlo & HMhi & (B1 & B2 & B3) & (B4 & B5 & B6) & Hth & Hcond).
  pose proof (edge_err _ _ _ HMlo B1) as E1. pose proof (edge_err _ _ _ HMlo B2) as E2.
  pose proof (edge_err _ _ _ HMlo B3) as E3. pose proof (edge_err _ _ _ HMlo B4) as E4.
  pose proof (edge_err _ _ _ HMlo B5) as E5. pose proof (edge_err _ _ _ HMlo B6) as E6.
  pose proof (normal_x _ _ _ _ _ _ _ _ _ _ _ _ M th HMlo HMhi B1 B2 B3 B4 B5 B6 E1 E2 E3 E4 E5 E6 Hth Hcond) as [X1 X2].
  pose proof (normal_y _ _ _ _ _ _ _ _ _ _ _ _ M th HMlo HMhi B1 B2 B3 B4 B5 B6 E1 E2 E3 E4 E5 E6 Hth Hcond) as [Y1 Y2].
  pose proof (normal_z _ _ _ _ _ _ _ _ _ _ _ _ M th HMlo HMhi B1 B2 B3 B4 B5 B6 E1 E2 E3 E4 E5 E6 Hth Hcond) as [Z1 Z2].
  unfold normal_g, normalize3.
  cbn [sub3 cross3 dot3 scale3 rnd_ops R_ops o_sub o_mul o_add o_div o_sqrt o_one close3 max3].
  repeat split; assumption.
Qed.

(* finite with value x, and |x| <= 2^k *)
Definition fb (f : pfloat) (x : R) (k : Z) : Prop := fin f x /\ bnd x k.

Lemma fb_sub f g x y j k : fb f x j -> fb g y k -> (-1074 <= Z.max j k + 1 <= 1023)%Z ->
  fb (PrimFloat.sub f g) (rn (x - y)) (Z.max j k + 1).
Proof.
  intros [Ff Bf] [Fg Bg] Hk. pose proof (bnd_sub _ _ _ _ Bf Bg) as B. split.
  - apply fin_sub; try assumption. apply (bnd_weaken _ _ _ B). lia.
  - apply bnd_rn; [exact B | lia].
Qed.
Lemma fb_add f g x y j k : fb f x j -> fb g y k -> (-1074 <= Z.max j k + 1 <= 1023)%Z ->
  fb (PrimFloat.add f g) (rn (x + y)) (Z.max j k + 1).
Proof.
  intros [Ff Bf] [Fg Bg] Hk. pose proof (bnd_add _ _ _ _ Bf Bg) as B. split.
  - apply fin_add; try assumption. apply (bnd_weaken _ _ _ B). lia.
  - apply bnd_rn; [exact B | lia].
Qed.
Lemma fb_mul f g x y j k : fb f x j -> fb g y k -> (-1074 <= j + k <= 1023)%Z ->
  fb (PrimFloat.mul f g) (rn (x * y)) (j + k).
Proof.
  intros [Ff Bf] [Fg Bg] Hk. pose proof (bnd_mul _ _ _ _ Bf Bg) as B. split.
  - apply fin_mul; try assumption. apply (bnd_weaken _ _ _ B). lia.
  - apply bnd_rn; [exact B | lia].
Qed.
Lemma fb_sqrt f x j : fb f x j -> 0 < x -> (0 <= j)%Z -> fb (PrimFloat.sqrt f) (rn (sqrt x)) j.
Proof.
  intros [Ff Bf] Hx Hj. split; [now apply fin_sqrt|].
  apply bnd_rn; [|lia]. apply bnd_sqrt. apply (bnd_weaken _ _ _ Bf). lia.
Qed.
Lemma fb_rcp f x j k : fb f x j -> bpow radix2 k <= x -> (-1074 <= - k <= 1023)%Z ->
  fb (PrimFloat.div 1%float f) (rn (1 / x)) (- k).
Proof.
  intros [Ff Bf] Hx Hk. pose proof (bpow_gt_0 radix2 k).
  assert (B : bnd (1 / x) (- k)) by (apply bnd_inv; now rewrite Z.opp_involutive).
  split.
  - apply fin_div; [apply fin_one | exact Ff | lra | apply (bnd_weaken _ _ _ B); lia].
  - apply bnd_rn; [exact B | lia].
Qed.

Ltac fgo :=
  first [ eassumption |
  lazymatch goal with
  | |- fb (PrimFloat.sub _ _) _ _ => eapply fb_sub; [fgo | fgo | ]
  | |- fb (PrimFloat.add _ _) _ _ => eapply fb_add; [fgo | fgo | ]
  | |- fb (PrimFloat.mul _ _) _ _ => eapply fb_mul; [fgo | fgo | ]
  | |- fb (PrimFloat.sqrt _) _ _ => eapply fb_sqrt; [fgo | eassumption | ]
  | |- fb (PrimFloat.div _ _) _ _ => eapply fb_rcp; [fgo | eassumption | ]
  end ].

Definition fin3 (v : fvec) (r : R * R * R) : Prop :=
  let '(f1, f2, f3) := v in let '(x, y, z) := r in fin f1 x /\ fin f2 y /\ fin f3 z.

(* Part 2: in the regime Coq's primitive binary64 floats compute exactly the rounded-real
   evaluation: every intermediate result is finite (no overflow), the radicand is
   positive and the divisor is not zero.  The coordinates themselves only have to be
   finite. *)
Theorem normal_float_eq fa fb_ fc a b c M th :
  fin3 fa a -> fin3 fb_ b -> fin3 fc c -> regime a b c M th ->
  fin3 (normal_g float_ops fa fb_ fc) (normal_g rnd_ops a b c).
Proof.
  destruct a as [[ax ay] az], b as [[bx by_] bz], c as [[cx cy] cz].
  destruct fa as [[fax fay] faz], fb_ as [[fbx fby] fbz], fc as [[fcx fcy] fcz].
  unfold regime, subR, crossR, dotR. cbn [sub3 cross3 dot3 R_ops o_sub o_mul o_add max3 fin3].
  intros (Fax & Fay & Faz) (Fbx & Fby & Fbz) (Fcx & Fcy & Fcz).
  intros (HMlo & HMhi & (B1 & B2 & B3) & (B4 & B5 & B6) & Hth & Hcond).
  pose proof (edge_err _ _ _ HMlo B1) as E1. pose proof (edge_err _ _ _ HMlo B2) as E2.
  pose proof (edge_err _ _ _ HMlo B3) as E3. pose proof (edge_err _ _ _ HMlo B4) as E4.
  pose proof (edge_err _ _ _ HMlo B5) as E5. pose proof (edge_err _ _ _ HMlo B6) as E6.
  pose proof (st_pos _ _ _ _ _ _ _ _ _ _ _ _ M th HMlo B1 B2 B3 B4 B5 B6 E1 E2 E3 E4 E5 E6 Hth Hcond) as Hst.
  pose proof (lt_lower _ _ _ _ _ _ _ _ _ _ _ _ M th HMlo B1 B2 B3 B4 B5 B6 E1 E2 E3 E4 E5 E6 Hth Hcond) as Hlt.
  (* the six edge components: finite, at most M <= 2^200 *)
  assert (H200 : forall f g p q, fin f p -> fin g q -> Rabs (p - q) <= M ->
                 fb (PrimFloat.sub f g) (rn (p - q)) 200).
  { intros f g p q Ff Fg Hpq.
    assert (B : bnd (p - q) 200) by (unfold bnd; lra). split.
    - apply fin_sub; try assumption. apply (bnd_weaken _ _ _ B). lia.
    - apply bnd_rn; [exact B | lia]. }
  pose proof (H200 _ _ _ _ Fbx Fax B1) as G1. pose proof (H200 _ _ _ _ Fby Fay B2) as G2.
  pose proof (H200 _ _ _ _ Fbz Faz B3) as G3. pose proof (H200 _ _ _ _ Fcx Fax B4) as G4.
  pose proof (H200 _ _ _ _ Fcy Fay B5) as G5. pose proof (H200 _ _ _ _ Fcz Faz B6) as G6.
  clear H200.
  unfold normal_g, normalize3.
  cbn [sub3 cross3 dot3 scale3 rnd_ops float_ops o_sub o_mul o_add o_div o_sqrt o_one fin3].
  split; [|split]; (refine (proj1 (_ : fb _ _ _)); fgo; cbn; lia).
Qed.

(* ------------------------------------------------------------------ Part 3: the stored words *)

Local Instance prec24_gt_0 : Prec_gt_0 24.
Proof. reflexivity. Qed.
Local Instance fexp32_valid : Valid_exp fexp32.
Proof. unfold fexp32. apply FLT_exp_valid. exact prec24_gt_0. Qed.

(* the float32 rounding of a value of magnitude at most 1 + 2^-25 moves it by at most
   2^-25 (half a unit in the last place below 1; beyond 1 the nearest float32 is at
   least as close as 1 itself) *)
Lemma rnd32_unit_err y : Rabs y <= 1 + bpow radix2 (-25) ->
  Rabs (rnd32 y - y) <= bpow radix2 (-25) /\ Rabs (rnd32 y) < bpow radix2 128.
Proof.
  intros Hy. pose proof (bpow_gt_0 radix2 (-25)) as H25.
  assert (H25' : bpow radix2 (-25) <= 1).
  { change 1 with (bpow radix2 0). apply bpow_le. lia. }
  split.
  - destruct (Rlt_or_le (Rabs y) 1) as [Hlt|Hge].
    + destruct (Req_dec y 0) as [->|Hy0].
      { unfold rnd32. rewrite round_0 by apply valid_rnd_N. rewrite Rminus_0_r, Rabs_R0. lra. }
      pose proof (error_le_half_ulp radix2 fexp32 (fun n => negb (Z.even n)) y) as E.
      fold ZnearestE in E. fold (rnd32 y) in E.
      rewrite ulp_neq_0 in E by exact Hy0.
      assert (Hm : (mag radix2 y <= 0)%Z) by (apply mag_le_bpow; [exact Hy0 | exact Hlt]).
      assert (Hc : (cexp radix2 fexp32 y <= -24)%Z) by (unfold cexp, fexp32, FLT_exp; lia).
      apply Rle_trans with (1 := E).
      replace (bpow radix2 (-25)) with (/ 2 * bpow radix2 (-24)).
      2:{ change (/ 2) with (bpow radix2 (-1)). rewrite <- bpow_plus. reflexivity. }
      apply Rmult_le_compat_l; [lra | apply bpow_le; exact Hc].
    + (* 1 <= |y| <= 1 + 2^-25: the point +-1 of the format is within 2^-25 *)
      destruct (round_N_pt radix2 fexp32 (fun n => negb (Z.even n)) y) as [_ Hn].
      fold ZnearestE in Hn. fold (rnd32 y) in Hn.
      assert (F1 : generic_format radix2 fexp32 1).
      { change 1 with (bpow radix2 0). apply generic_format_bpow. unfold fexp32, FLT_exp. lia. }
      destruct (Rle_or_lt 0 y) as [Hp|Hneg].
      * rewrite Rabs_pos_eq in Hy, Hge by exact Hp.
        apply Rle_trans with (1 := Hn 1 F1). rewrite Rabs_minus_sym, Rabs_pos_eq; lra.
      * rewrite Rabs_left in Hy, Hge by exact Hneg.
        assert (F1' : generic_format radix2 fexp32 (-1)) by (apply generic_format_opp; exact F1).
        apply Rle_trans with (1 := Hn (-1) F1'). rewrite Rabs_pos_eq; lra.
  - apply Rle_lt_trans with (bpow radix2 1).
    + apply abs_round_le_generic; [apply FLT_exp_valid; reflexivity | apply valid_rnd_N | |].
      * apply generic_format_bpow. unfold fexp32, FLT_exp. lia.
      * change (bpow radix2 1) with 2. lra.
    + apply bpow_lt. lia.
Qed.

(* the real value of a float32 pattern *)
Definition word_R (w : word) : R := SF2R radix2 (widen32 w).

(* a stored component: finite g with value v, |v| <= 1 + 2^-25 *)
Lemma stored_comp g v : fin g v -> Rabs v <= 1 + bpow radix2 (-25) ->
  let w := narrow32 (Prim2SF g) in
  is_finite_SF (widen32 w) = true /\ Rabs (word_R w - v) <= bpow radix2 (-25).
Proof.
  intros [Fg Vg] Hv w. destruct (rnd32_unit_err v Hv) as [E B].
  destruct (narrow32_binary64 (FP.Prim2B g) Fg) as [H _]. cbv zeta in H.
  rewrite FP.B2SF_Prim2B in H.
  assert (B' := B). rewrite <- Vg in B'. destruct (H B') as (V & Fi & _).
  assert (V' : SF2R radix2 (round32 (Prim2SF g)) = rnd32 v) by (rewrite <- Vg; exact V).
  unfold word_R, w. fold (round32 (Prim2SF g)). split; [exact Fi | rewrite V'; exact E].
Qed.

Definition bval (f : pfloat) : R := B2R (FP.Prim2B f).
Definition val3 (v : fvec) : R * R * R := let '(x, y, z) := v in (bval x, bval y, bval z).
Definition finite3 (v : fvec) : Prop :=
  let '(x, y, z) := v in
  is_finite (FP.Prim2B x) = true /\ is_finite (FP.Prim2B y) = true /\ is_finite (FP.Prim2B z) = true.

Lemma fin3_val v : finite3 v -> fin3 v (val3 v).
Proof. destruct v as [[x y] z]. intros (Fx & Fy & Fz). repeat split; assumption. Qed.

(* the three Normal words SaveSTL / writeSTL store for a triangle of binary64 vertices *)
Definition stored_words (ft : ftri) : list word := vec_words (normal_f (tri_sf ft)).
Definition stored_normal (ft : ftri) : R * R * R :=
  match stored_words ft with
  | [w1; w2; w3] => (word_R w1, word_R w2, word_R w3)
  | _ => (0, 0, 0)
  end.

Lemma vec_prim_sf v : vec_prim (vec_sf v) = v.
Proof. destruct v as [[x y] z]. cbn [vec_sf vec_prim]. now rewrite !SF2Prim_Prim2SF. Qed.

Definition err_total (th : R) : R := bpow radix2 (-25) + err_n th.

(* stored normal vs exact unit normal, conditioning parameter th *)
Theorem stored_normal_error_th (ft : ftri) M th :
  let '(fa, fb_, fc) := ft in
  finite3 fa -> finite3 fb_ -> finite3 fc ->
  regime (val3 fa) (val3 fb_) (val3 fc) M th -> th <= bpow radix2 (-29) ->
  Forall (fun w => is_finite_SF (widen32 w) = true) (stored_words ft) /\
  close3 (stored_normal ft) (normal_g R_ops (val3 fa) (val3 fb_) (val3 fc)) (err_total th).
Proof.
  destruct ft as [[fa fb_] fc]. intros Fa Fb Fc Hreg Hth29.
  pose proof (normal_float_eq _ _ _ _ _ _ M th (fin3_val _ Fa) (fin3_val _ Fb) (fin3_val _ Fc) Hreg) as HF.
  destruct (normal_rnd_error _ _ _ M th Hreg) as [HC HM].
  unfold stored_normal, stored_words, normal_f. cbn [tri_sf]. rewrite !vec_prim_sf.
  destruct (normal_g float_ops fa fb_ fc) as [[g1 g2] g3].
  destruct (normal_g rnd_ops (val3 fa) (val3 fb_) (val3 fc)) as [[v1 v2] v3].
  destruct (normal_g R_ops (val3 fa) (val3 fb_) (val3 fc)) as [[n1 n2] n3].
  cbn [fin3 close3 max3 vec_sf vec_words] in *.
  destruct HF as (F1 & F2 & F3). destruct HC as (C1 & C2 & C3). destruct HM as (M1 & M2 & M3).
  assert (He : err_n th <= bpow radix2 (-25)).
  { unfold err_n. pose proof u1_small.
    assert (E29 : bpow radix2 (-29) = / 16 * bpow radix2 (-25)).
    { change (/ 16) with (bpow radix2 (-4)). rewrite <- bpow_plus. reflexivity. }
    assert (u1 <= / 32 * / 10 * bpow radix2 (-25)).
    { unfold u1, u. replace (bpow radix2 (-53)) with (bpow radix2 (-28) * bpow radix2 (-25)) by (rewrite <- bpow_plus; reflexivity).
      assert (bpow radix2 (-28) * (1 + bpow radix2 (-100)) <= / 32 * / 10).
      { assert (bpow radix2 (-100) <= 1) by (change 1 with (bpow radix2 0); apply bpow_le; lia).
        change (bpow radix2 (-28)) with (/ 268435456). lra. }
      pose proof (bpow_gt_0 radix2 (-25)). nra. }
    pose proof (bpow_gt_0 radix2 (-25)). lra. }
  destruct (stored_comp g1 v1 F1 ltac:(lra)) as [W1 D1].
  destruct (stored_comp g2 v2 F2 ltac:(lra)) as [W2 D2].
  destruct (stored_comp g3 v3 F3 ltac:(lra)) as [W3 D3].
  cbv zeta in W1, W2, W3, D1, D2, D3.
  assert (T : forall w v n, Rabs (w - v) <= bpow radix2 (-25) -> Rabs (v - n) <= err_n th ->
              Rabs (w - n) <= err_total th).
  { intros w v n H1 H2. replace (w - n) with ((w - v) + (v - n)) by ring.
    unfold err_total. now apply Rabs_le_add. }
  split.
  - repeat constructor; assumption.
  - repeat split; eapply T; eassumption.
Qed.

(* ------------------------------------------------------------------ the stated regime *)

(* M bounds the components of both edge vectors, 2^-200 <= M <= 2^200, and the
   triangle is not needle-like at that scale: |(b-a) x (c-a)| >= 2^-20 M^2 *)
Definition well_shaped (a b c : R * R * R) (M : R) : Prop :=
  bpow radix2 (-200) <= M /\ M <= bpow radix2 200 /\
  max3 (subR b a) M /\ max3 (subR c a) M /\
  bpow radix2 (-20) * (M * M) <=
    sqrt (dotR (crossR (subR b a) (subR c a)) (crossR (subR b a) (subR c a))).

Lemma u1_tiny : u1 <= / 9000000000000000.
Proof.
  unfold u1, u.
  assert (bpow radix2 (-100) <= / 1000000).
  { apply Rle_trans with (bpow radix2 (-20)); [apply bpow_le; lia|].
    change (bpow radix2 (-20)) with (/ 1048576). lra. }
  change (bpow radix2 (-53)) with (/ 9007199254740992).
  pose proof (bpow_gt_0 radix2 (-100)). lra.
Qed.

Lemma well_shaped_regime a b c M : well_shaped a b c M ->
  regime a b c M (9 * u1 * bpow radix2 20) /\ 9 * u1 * bpow radix2 20 <= bpow radix2 (-29) /\
  err_total (9 * u1 * bpow radix2 20) <= bpow radix2 (-24).
Proof.
  intros (HMlo & HMhi & E1 & E2 & Hk). pose proof u1_pos as U0. pose proof u1_tiny as U1.
  set (L := sqrt _) in *.
  assert (B20 : bpow radix2 20 = 1048576) by reflexivity.
  assert (Hth : 9 * u1 * bpow radix2 20 <= bpow radix2 (-29)).
  { rewrite B20. change (bpow radix2 (-29)) with (/ 536870912). lra. }
  split; [|split].
  - unfold regime. fold L. repeat split; try assumption.
    + rewrite B20. lra.
    + rewrite B20. lra.
    + assert (E : M * M <= bpow radix2 20 * L).
      { apply Rmult_le_reg_l with (bpow radix2 (-20)); [apply bpow_gt_0|].
        replace (bpow radix2 (-20) * (bpow radix2 20 * L)) with L; [exact Hk|].
        rewrite <- Rmult_assoc, <- bpow_plus. change (bpow radix2 (-20 + 20)) with 1. ring. }
      replace (9 * u1 * bpow radix2 20 * L) with (9 * u1 * (bpow radix2 20 * L)) by ring.
      apply Rmult_le_compat_l; lra.
  - exact Hth.
  - unfold err_total, err_n. rewrite B20.
    change (bpow radix2 (-25)) with (/ 33554432). change (bpow radix2 (-24)) with (/ 16777216). lra.
Qed.

(* The stored float32 normal of a triangle of finite binary64 vertices in the regime is
   finite and within 2^-24 (about 6e-8), componentwise, of the exact right-hand-rule
   unit normal of the triangle with those vertices. *)
Theorem stored_normal_error (ft : ftri) M :
  let '(fa, fb_, fc) := ft in
  finite3 fa -> finite3 fb_ -> finite3 fc ->
  well_shaped (val3 fa) (val3 fb_) (val3 fc) M ->
  Forall (fun w => is_finite_SF (widen32 w) = true) (stored_words ft) /\
  close3 (stored_normal ft) (normal_g R_ops (val3 fa) (val3 fb_) (val3 fc)) (bpow radix2 (-24)).
Proof.
  destruct ft as [[fa fb_] fc]. intros Fa Fb Fc W.
  destruct (well_shaped_regime _ _ _ _ W) as (Hr & Hth & He).
  destruct (stored_normal_error_th (fa, fb_, fc) M _ Fa Fb Fc Hr Hth) as [HF HC].
  split; [exact HF|].
  destruct (stored_normal (fa, fb_, fc)) as [[s1 s2] s3].
  destruct (normal_g R_ops (val3 fa) (val3 fb_) (val3 fc)) as [[n1 n2] n3].
  cbn [close3] in *. destruct HC as (C1 & C2 & C3). repeat split; lra.
Qed.

(* the regime is inhabited: the unit right triangle, M = 1 *)
Lemma bval_zero : bval 0%float = 0.
Proof. unfold bval. change 0%float with PrimFloat.zero. rewrite FP.zero_equiv, FP.Prim2B_B2Prim. reflexivity. Qed.
Lemma bval_one : bval 1%float = 1.
Proof. exact (proj2 fin_one). Qed.
Lemma finite_zero : is_finite (FP.Prim2B 0%float) = true.
Proof. change 0%float with PrimFloat.zero. rewrite FP.zero_equiv, FP.Prim2B_B2Prim. reflexivity. Qed.

Example well_shaped_instance :
  let ft : ftri := ((0, 0, 0), (1, 0, 0), (0, 1, 0))%float in
  let '(fa, fb_, fc) := ft in
  finite3 fa /\ finite3 fb_ /\ finite3 fc /\ well_shaped (val3 fa) (val3 fb_) (val3 fc) 1.
Proof.
  cbv zeta. cbn [finite3 val3]. pose proof finite_zero as Z. pose proof (proj1 fin_one) as O.
  split; [repeat split; assumption|]. split; [repeat split; assumption|]. split; [repeat split; assumption|].
  unfold well_shaped, subR, crossR, dotR. cbn [sub3 cross3 dot3 R_ops o_sub o_mul o_add max3].
  rewrite !bval_zero, !bval_one.
  replace (1 - 0) with 1 by ring. replace (0 - 0) with 0 by ring.
  replace (0 * 0 - 0 * 1) with 0 by ring. replace (0 * 0 - 1 * 0) with 0 by ring.
  replace (1 * 1 - 0 * 0) with 1 by ring. replace (0 * 0 + 0 * 0 + 1 * 1) with 1 by ring.
  rewrite sqrt_1, Rabs_R0, Rabs_R1, !Rmult_1_r.
  assert (bpow radix2 (-200) <= 1) by (change 1 with (bpow radix2 0); apply bpow_le; lia).
  assert (1 <= bpow radix2 200) by (change 1 with (bpow radix2 0); apply bpow_le; lia).
  assert (bpow radix2 (-20) <= 1) by (change 1 with (bpow radix2 0); apply bpow_le; lia).
  repeat split; lra.
Qed.
