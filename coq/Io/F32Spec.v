(* The float32 conversion model of Io/F32.v is IEEE-754 rounding to nearest, ties to
   even, into binary32 - proved against Flocq's specification of rounding
   ([round radix2 (FLT_exp (-149) 24) ZnearestE]) for every finite value
   (-1)^s * m * 2^e (any positive mantissa, any exponent: every binary64 is one).

   Layout: (1) [round_shift] is Flocq's [ZnearestE] of the quotient; (2) the exponent
   [narrow_mag] picks is Flocq's canonical exponent of the binary32 format, so the
   integer mantissa it computes is the mantissa of the rounded value; (3) decoding the
   packed pattern with [widen32] gives back that mantissa and exponent (subnormal,
   normal, carry into the exponent), or infinity exactly when the rounded value
   reaches 2^128; (4) the widened value is a canonical binary64. *)
From Coq Require Import ZArith NArith List Lia Bool Floats Reals Lra Psatz.
From Flocq Require Import Core BinarySingleNaN.
From Sdfx Require Import Io.F32.
Import ListNotations.

Open Scope R_scope.

Definition fexp32 : Z -> Z := FLT_exp (-149) 24.
(* IEEE-754 roundTiesToEven into the binary32 format, no overflow *)
Definition rnd32 (x : R) : R := round radix2 fexp32 ZnearestE x.

(* ------------------------------------------------------------------ 1. round_shift *)

Lemma N2Z_pow2 k : Z.of_N (2 ^ k) = (2 ^ Z.of_N k)%Z.
Proof. rewrite N2Z.inj_pow. reflexivity. Qed.

(* round_shift on Z: quotient, remainder, comparison with the half *)
Lemma round_shift_Z m k : k <> 0%N ->
  let q := (Z.of_N m / 2 ^ Z.of_N k)%Z in
  let r := (Z.of_N m mod 2 ^ Z.of_N k)%Z in
  Z.of_N (round_shift m k) =
  match (2 * r ?= 2 ^ Z.of_N k)%Z with
  | Lt => q
  | Eq => if Z.even q then q else (q + 1)%Z
  | Gt => (q + 1)%Z
  end.
Proof.
  intros Hk q r. unfold round_shift. rewrite (proj2 (N.eqb_neq k 0) Hk). cbv zeta.
  rewrite N.shiftr_div_pow2, !N.shiftl_mul_pow2, N.mul_1_l.
  assert (Hp : (2 ^ k <> 0)%N) by (apply N.pow_nonzero; discriminate).
  pose proof (N.div_mod m (2 ^ k) Hp) as D. pose proof (N.mod_lt m (2 ^ k) Hp) as L.
  assert (Eq_ : Z.of_N (m / 2 ^ k) = q) by (unfold q; rewrite N2Z.inj_div, N2Z_pow2; reflexivity).
  assert (Er : Z.of_N (m mod 2 ^ k) = r) by (unfold r; rewrite N2Z.inj_mod, N2Z_pow2; reflexivity).
  assert (Hh : (2 ^ k = 2 * 2 ^ (k - 1))%N).
  { rewrite <- N.pow_succ_r'. f_equal. lia. }
  assert (Hh' : (2 ^ Z.of_N k = 2 * Z.of_N (2 ^ (k - 1)))%Z).
  { rewrite <- N2Z_pow2, Hh. lia. }
  rewrite (N.mul_comm (m / 2 ^ k)), <- N.mod_eq by exact Hp.
  set (h := (2 ^ (k - 1))%N) in *.
  assert (Eo : N.odd (m / 2 ^ k) = negb (Z.even q)).
  { rewrite <- Eq_. rewrite <- N.negb_even. f_equal.
    destruct (m / 2 ^ k)%N as [|[p|p|]]; reflexivity. }
  destruct (N.ltb_spec h (m mod 2 ^ k)) as [Hlt|Hge]; cbn [orb].
  - replace (2 * r ?= 2 ^ Z.of_N k)%Z with Gt by (symmetry; apply Z.compare_gt_iff; lia). lia.
  - destruct (N.eqb_spec (m mod 2 ^ k) h) as [Heq|Hne]; cbn [andb].
    + replace (2 * r ?= 2 ^ Z.of_N k)%Z with Eq by (symmetry; apply Z.compare_eq_iff; lia).
      rewrite Eo. destruct (Z.even q); cbn [negb]; lia.
    + replace (2 * r ?= 2 ^ Z.of_N k)%Z with Lt by (symmetry; apply Z.compare_lt_iff; lia). lia.
Qed.

(* the mantissa rounding step is Flocq's round-to-nearest-even of the exact quotient *)
Lemma round_shift_ZnearestE m k :
  ZnearestE (IZR (Z.of_N m) / IZR (2 ^ Z.of_N k)) = Z.of_N (round_shift m k).
Proof.
  destruct (N.eq_dec k 0) as [->|Hk].
  { unfold round_shift. cbn [N.eqb Z.of_N Z.pow]. unfold Rdiv. rewrite Rinv_1, Rmult_1_r.
    apply (@Zrnd_IZR _ (valid_rnd_N _)). }
  rewrite (round_shift_Z m k Hk). cbv zeta.
  set (M := Z.of_N m). set (P := (2 ^ Z.of_N k)%Z).
  assert (HP : (0 < P)%Z) by (apply Z.pow_pos_nonneg; lia).
  assert (HP0 : P <> 0%Z) by lia.
  assert (HPR : 0 < IZR P) by (apply IZR_lt; exact HP).
  pose proof (Z.div_mod M P HP0) as D. pose proof (Z.mod_pos_bound M P HP) as B.
  set (q := (M / P)%Z) in *. set (r := (M mod P)%Z) in *.
  unfold Znearest. rewrite Zfloor_div by exact HP0. fold q.
  assert (Ex : IZR M / IZR P - IZR q = IZR r / IZR P).
  { rewrite D, plus_IZR, mult_IZR. field. lra. }
  rewrite Ex.
  assert (Ec : Rcompare (IZR r / IZR P) (/ 2) = (2 * r ?= P)%Z).
  { destruct (Z.compare_spec (2 * r) P) as [H|H|H].
    - apply Rcompare_Eq. rewrite <- H, mult_IZR. field. apply IZR_neq. lia.
    - apply Rcompare_Lt. apply IZR_lt in H. rewrite mult_IZR in H.
      apply Rmult_lt_reg_r with (IZR P); [exact HPR|]. unfold Rdiv. rewrite Rmult_assoc, Rinv_l by lra. lra.
    - apply Rcompare_Gt. apply IZR_lt in H. rewrite mult_IZR in H.
      apply Rmult_lt_reg_r with (IZR P); [exact HPR|]. unfold Rdiv. rewrite Rmult_assoc, Rinv_l by lra. lra. }
  rewrite Ec.
  assert (Hceil : r <> 0%Z -> Zceil (IZR M / IZR P) = (q + 1)%Z).
  { intros Hr. rewrite Zceil_floor_neq; rewrite Zfloor_div by exact HP0; fold q; [reflexivity|].
    intros E. rewrite E in Ex. replace (IZR M / IZR P - IZR M / IZR P) with 0 in Ex by ring.
    symmetry in Ex. apply Rmult_integral in Ex. destruct Ex as [Ex|Ex].
    - apply eq_IZR in Ex. contradiction.
    - pose proof (Rinv_0_lt_compat _ HPR). lra. }
  destruct (Z.compare_spec (2 * r) P) as [H|H|H].
  - rewrite Hceil by lia. destruct (Z.even q); reflexivity.
  - reflexivity.
  - apply Hceil. lia.
Qed.

(* ------------------------------------------------------------------ 2. exponent and mantissa *)

Lemma size_Zdigits p : Z.of_N (N.size (Npos p)) = Zdigits radix2 (Zpos p).
Proof.
  rewrite <- Zpos_digits2_pos. cbn [N.size Z.of_N].
  assert (E : Pos.size p = digits2_pos p) by (induction p as [p IH|p IH|]; cbn [Pos.size digits2_pos]; congruence).
  now rewrite E.
Qed.

(* exponent of the last place, and the integer mantissa at that exponent *)
Definition ulp_exp (m : N) (e : Z) : Z := Z.max (Z.of_N (N.size m) + e - 24) (-149).
Definition mant_q (m : N) (e : Z) : N :=
  let e' := ulp_exp m e in
  if (e' <=? e)%Z then N.shiftl m (Z.to_N (e - e')) else round_shift m (Z.to_N (e' - e)).

Lemma narrow_mag_eq m e :
  narrow_mag m e = N.min (Z.to_N (ulp_exp m e + 149) * 2 ^ 23 + mant_q m e) inf32.
Proof. reflexivity. Qed.

Lemma ulp_exp_ge m e : (-149 <= ulp_exp m e)%Z.
Proof. unfold ulp_exp. lia. Qed.

Section Pos.
  Variables (p : positive) (e : Z).
  Let x := F2R (Float radix2 (Zpos p) e).
  Let e' := ulp_exp (Npos p) e.
  Let q := mant_q (Npos p) e.

  Lemma x_pos : 0 < x.
  Proof. apply F2R_gt_0. reflexivity. Qed.

  Lemma mag_x : (mag radix2 x : Z) = (Z.of_N (N.size (Npos p)) + e)%Z.
  Proof. unfold x. rewrite mag_F2R_Zdigits by discriminate. now rewrite size_Zdigits. Qed.

  (* the model's exponent is the canonical exponent of the binary32 format *)
  Lemma cexp_x : cexp radix2 fexp32 x = e'.
  Proof. unfold cexp. rewrite mag_x. reflexivity. Qed.

  (* the model's mantissa is the rounded scaled mantissa *)
  Lemma rnd32_mant : rnd32 x = F2R (Float radix2 (Z.of_N q) e').
  Proof.
    unfold rnd32, round. rewrite cexp_x. f_equal. f_equal.
    unfold scaled_mantissa. rewrite cexp_x. unfold q, mant_q. fold e'.
    unfold x, F2R. cbn [Fnum Fexp].
    destruct (Z.leb_spec e' e) as [H|H].
    - rewrite Rmult_assoc, <- bpow_plus.
      rewrite <- (IZR_Zpower radix2 (e + - e')) by lia. rewrite <- mult_IZR.
      rewrite (@Zrnd_IZR _ (valid_rnd_N _)).
      rewrite N.shiftl_mul_pow2, N2Z.inj_mul, N2Z_pow2, Z2N.id by lia.
      replace (e + - e')%Z with (e - e')%Z by lia. reflexivity.
    - rewrite <- round_shift_ZnearestE. f_equal. cbn [Z.of_N].
      rewrite Rmult_assoc, <- bpow_plus.
      replace (e + - e')%Z with (- (e' - e))%Z by lia. rewrite bpow_opp.
      rewrite Z2N.id by lia. change 2%Z with (radix_val radix2). rewrite IZR_Zpower by lia.
      reflexivity.
  Qed.

  Lemma x_lt : x < bpow radix2 (e' + 24).
  Proof.
    apply Rlt_le_trans with (bpow radix2 (mag radix2 x)).
    - pose proof x_pos as Hx. apply Rle_lt_trans with (Rabs x); [rewrite Rabs_pos_eq; lra | apply bpow_mag_gt].
    - apply bpow_le. rewrite mag_x. unfold e', ulp_exp. lia.
  Qed.

  Lemma format_bpow32 k : (-149 <= k)%Z -> generic_format radix2 fexp32 (bpow radix2 k).
  Proof. intros Hk. apply generic_format_bpow. unfold fexp32, FLT_exp. lia. Qed.

  (* at most 24 bits plus the carry *)
  Lemma mant_q_le : (q <= 2 ^ 24)%N.
  Proof.
    assert (H : rnd32 x <= bpow radix2 (e' + 24)).
    { apply round_le_generic; [apply FLT_exp_valid; reflexivity | apply valid_rnd_N | | left; exact x_lt].
      apply format_bpow32. pose proof (ulp_exp_ge (Npos p) e). fold e' in H. lia. }
    rewrite rnd32_mant in H. unfold F2R in H. cbn [Fnum Fexp] in H.
    rewrite bpow_plus, Rmult_comm in H.
    apply Rmult_le_reg_l in H; [|apply bpow_gt_0].
    change (bpow radix2 24) with (IZR (2 ^ 24)) in H. apply le_IZR in H.
    apply N2Z.inj_le. rewrite N2Z_pow2. exact H.
  Qed.

  (* a normal result has its leading bit *)
  Lemma mant_q_ge : (-149 < e')%Z -> (2 ^ 23 <= q)%N.
  Proof.
    intros Hn.
    assert (E : e' = (mag radix2 x - 24)%Z) by (rewrite mag_x; unfold e', ulp_exp in *; lia).
    assert (H : bpow radix2 (e' + 23) <= rnd32 x).
    { apply round_ge_generic; [apply FLT_exp_valid; reflexivity | apply valid_rnd_N | apply format_bpow32; lia |].
      replace (e' + 23)%Z with (mag radix2 x - 1)%Z by lia.
      pose proof x_pos as Hx.
      apply Rle_trans with (Rabs x); [apply bpow_mag_le; lra | rewrite Rabs_pos_eq; lra]. }
    rewrite rnd32_mant in H. unfold F2R in H. cbn [Fnum Fexp] in H.
    rewrite bpow_plus, Rmult_comm in H.
    apply Rmult_le_reg_r in H; [|apply bpow_gt_0].
    change (bpow radix2 23) with (IZR (2 ^ 23)) in H. apply le_IZR in H.
    apply N2Z.inj_le. rewrite N2Z_pow2. exact H.
  Qed.
End Pos.

(* ------------------------------------------------------------------ 3. decoding the pattern *)

Lemma fields_of s E M : (E < 256)%N -> (M < 2 ^ 23)%N ->
  let w := (sign32 s + (E * 2 ^ 23 + M))%N in
  sign_of w = s /\ expo_of w = E /\ mant_of w = M.
Proof.
  intros HE HM w. assert (P23 : (2 ^ 23 = 8388608)%N) by reflexivity.
  unfold sign_of, expo_of, mant_of. subst w. rewrite P23 in *.
  set (S := (if s then 256 else 0)%N).
  assert (ES : sign32 s = (S * 8388608)%N) by (destruct s; reflexivity).
  rewrite ES.
  assert (Ed : ((S * 8388608 + (E * 8388608 + M)) / 8388608 = S + E)%N).
  { symmetry. apply N.div_unique with M; [exact HM | lia]. }
  assert (Em : ((S * 8388608 + (E * 8388608 + M)) mod 8388608 = M)%N).
  { symmetry. apply N.mod_unique with (S + E)%N; [exact HM | lia]. }
  rewrite Ed, Em. repeat split.
  - destruct s; subst S; [apply N.leb_le | apply N.leb_gt]; lia.
  - symmetry. apply N.mod_unique with (S / 256)%N; [exact HE | destruct s; subst S; cbn; lia].
Qed.

Lemma cond_Zopp_mul s a b : (cond_Zopp s a * b = cond_Zopp s (a * b))%Z.
Proof. destruct s; cbn [cond_Zopp]; lia. Qed.

(* normalize53 keeps the value and gives a canonical binary64 *)
Lemma normalize53_spec s p E : (N.size (Npos p) <= 53)%N -> (-1022 <= E <= 971)%Z ->
  let y := normalize53 s p E in
  SF2R radix2 y = F2R (Float radix2 (cond_Zopp s (Zpos p)) E) /\
  is_finite_SF y = true /\ sign_SF y = s /\ SpecFloat.valid_binary 53 1024 y = true.
Proof.
  intros Hsz HE y. unfold y, normalize53. set (k := (53 - N.size (Npos p))%N).
  assert (Ek : Zpos (Pos.shiftl p k) = (Zpos p * 2 ^ Z.of_N k)%Z).
  { change (Zpos (Pos.shiftl p k)) with (Z.of_N (Npos (Pos.shiftl p k))).
    rewrite pos_shiftl_N, N2Z.inj_mul, N2Z_pow2. reflexivity. }
  repeat split.
  - cbn [SF2R]. rewrite (F2R_change_exp radix2 (E - Z.of_N k) _ E) by lia.
    replace (E - (E - Z.of_N k))%Z with (Z.of_N k) by lia.
    rewrite Ek, cond_Zopp_mul. reflexivity.
  - cbn [SpecFloat.valid_binary]. unfold SpecFloat.bounded, SpecFloat.canonical_mantissa.
    assert (Ed : Zpos (digits2_pos (Pos.shiftl p k)) = 53%Z).
    { rewrite Zpos_digits2_pos, <- size_Zdigits, pos_shiftl_N, size_mul_pow2. unfold k. lia. }
    assert (Hk : (Z.of_N k <= 52)%Z) by (unfold k; cbn [N.size]; lia).
    rewrite Ed. unfold SpecFloat.fexp, SpecFloat.emin. apply andb_true_intro. split.
    + apply Zeq_bool_true. lia.
    + apply Z.leb_le. lia.
Qed.

(* the value of the packed pattern A * 2^23 + q: mantissa q at exponent A - 149,
   for a subnormal (A = 0, q < 2^23), a normal (2^23 <= q < 2^24) and a mantissa
   that rounded up to 2^24 *)
Lemma widen_pack s A q : (q <= 2 ^ 24)%N -> ((0 < A)%N -> (2 ^ 23 <= q)%N) ->
  (A * 2 ^ 23 + q < inf32)%N ->
  let y := widen32 (sign32 s + (A * 2 ^ 23 + q))%N in
  SF2R radix2 y = F2R (Float radix2 (cond_Zopp s (Z.of_N q)) (Z.of_N A - 149)) /\
  is_finite_SF y = true /\ sign_SF y = s /\ SpecFloat.valid_binary 53 1024 y = true.
Proof.
  intros Hq HA Hlt.
  assert (P23 : (2 ^ 23 = 8388608)%N) by reflexivity.
  assert (P24 : (2 ^ 24 = 16777216)%N) by reflexivity.
  assert (I : inf32 = (255 * 8388608)%N) by reflexivity.
  rewrite P23 in *. rewrite P24 in *. rewrite I in *.
  assert (Hsz : forall p, (Npos p <= 16777216)%N -> (N.size (Npos p) <= 53)%N).
  { intros p Hp. assert (N.size (Npos p) <= 25)%N by (apply size_lt_pow2; change (2 ^ 25)%N with 33554432%N; lia). lia. }
  destruct (N.lt_ge_cases q 8388608) as [Hsub|Hnorm].
  - (* subnormal or zero *)
    assert (A0 : A = 0%N) by (destruct (N.eq_dec A 0) as [|n]; [assumption | lia]). subst A.
    pose proof (fields_of s 0 q ltac:(lia) ltac:(rewrite P23; exact Hsub)) as F.
    rewrite P23 in F. cbv zeta in F. destruct F as (Fs & Fe & Fm).
    intros y. unfold y, widen32. rewrite Fs, Fe, Fm. cbn [N.eqb].
    destruct q as [|p].
    + cbn [SF2R is_finite_SF sign_SF SpecFloat.valid_binary]. cbn [Z.of_N cond_Zopp].
      replace (cond_Zopp s 0) with 0%Z by (destruct s; reflexivity). rewrite F2R_0. repeat split.
    + apply normalize53_spec; [apply Hsz; lia | lia].
  - destruct (N.eq_dec q 16777216) as [Hc|Hnc].
    + (* carry: the mantissa is 2^24 *)
      subst q. assert (HA' : (A + 2 < 255)%N) by lia.
      replace (A * 8388608 + 16777216)%N with ((A + 2) * 8388608 + 0)%N by lia.
      pose proof (fields_of s (A + 2) 0 ltac:(lia) ltac:(reflexivity)) as F.
      rewrite P23 in F. cbv zeta in F. destruct F as (Fs & Fe & Fm).
      intros y. unfold y, widen32. rewrite Fs, Fe, Fm.
      replace (A + 2 =? 255)%N with false by (symmetry; apply N.eqb_neq; lia).
      replace (A + 2 =? 0)%N with false by (symmetry; apply N.eqb_neq; lia).
      change (2 ^ 23 + 0)%N with (Npos 8388608). cbv iota.
      destruct (normalize53_spec s 8388608 (Z.of_N (A + 2) - 150)) as (V & R); [cbn; lia | lia |].
      split; [|exact R]. rewrite V.
      rewrite (F2R_change_exp radix2 (Z.of_N A - 149) _ (Z.of_N (A + 2) - 150)) by lia.
      rewrite cond_Zopp_mul. do 3 f_equal.
      replace (Z.of_N (A + 2) - 150 - (Z.of_N A - 149))%Z with 1%Z by lia. reflexivity.
    + (* normal *)
      assert (HA' : (A + 1 < 255)%N) by lia.
      replace (A * 8388608 + q)%N with ((A + 1) * 8388608 + (q - 8388608))%N by lia.
      pose proof (fields_of s (A + 1) (q - 8388608) ltac:(lia) ltac:(rewrite P23; lia)) as F.
      rewrite P23 in F. cbv zeta in F. destruct F as (Fs & Fe & Fm).
      intros y. unfold y, widen32. rewrite Fs, Fe, Fm.
      replace (A + 1 =? 255)%N with false by (symmetry; apply N.eqb_neq; lia).
      replace (A + 1 =? 0)%N with false by (symmetry; apply N.eqb_neq; lia).
      rewrite P23. replace (8388608 + (q - 8388608))%N with q by lia.
      destruct q as [|p]; [lia|].
      replace (Z.of_N (A + 1) - 150)%Z with (Z.of_N A - 149)%Z by lia.
      apply normalize53_spec; [apply Hsz; lia | lia].
Qed.

(* ------------------------------------------------------------------ 4. overflow threshold *)

Lemma pack_lt A q : (q <= 2 ^ 24)%N -> ((0 < A)%N -> (2 ^ 23 <= q)%N) ->
  (A * 2 ^ 23 + q < inf32)%N ->
  IZR (Z.of_N q) * bpow radix2 (Z.of_N A - 149) < bpow radix2 128.
Proof.
  intros Hq HA Hlt.
  assert (P23 : (2 ^ 23 = 8388608)%N) by reflexivity.
  assert (P24 : (2 ^ 24 = 16777216)%N) by reflexivity.
  assert (I : inf32 = (255 * 8388608)%N) by reflexivity.
  rewrite P23 in *. rewrite P24 in *. rewrite I in *.
  assert (Hq' : IZR (Z.of_N q) <= bpow radix2 24).
  { change (bpow radix2 24) with (IZR 16777216). apply IZR_le. lia. }
  assert (Hq0 : 0 <= IZR (Z.of_N q)) by (apply IZR_le; lia).
  pose proof (bpow_gt_0 radix2 (Z.of_N A - 149)) as Hb.
  destruct (N.le_gt_cases A 252) as [Hs|Hb253].
  - apply Rle_lt_trans with (bpow radix2 24 * bpow radix2 103).
    + apply Rmult_le_compat; [exact Hq0 | lra | exact Hq' | apply bpow_le; lia].
    + rewrite <- bpow_plus. apply bpow_lt. lia.
  - assert (A = 253%N) by lia. subst A.
    assert (Hq'' : IZR (Z.of_N q) < bpow radix2 24).
    { change (bpow radix2 24) with (IZR 16777216). apply IZR_lt. lia. }
    replace (Z.of_N 253 - 149)%Z with 104%Z by reflexivity.
    replace (bpow radix2 128) with (bpow radix2 24 * bpow radix2 104) by (rewrite <- bpow_plus; reflexivity).
    apply Rmult_lt_compat_r; [apply bpow_gt_0 | exact Hq''].
Qed.

Lemma pack_ge A q : (q <= 2 ^ 24)%N -> ((0 < A)%N -> (2 ^ 23 <= q)%N) ->
  (inf32 <= A * 2 ^ 23 + q)%N ->
  bpow radix2 128 <= IZR (Z.of_N q) * bpow radix2 (Z.of_N A - 149).
Proof.
  intros Hq HA Hge.
  assert (P23 : (2 ^ 23 = 8388608)%N) by reflexivity.
  assert (P24 : (2 ^ 24 = 16777216)%N) by reflexivity.
  assert (I : inf32 = (255 * 8388608)%N) by reflexivity.
  rewrite P23 in *. rewrite P24 in *. rewrite I in *.
  assert (H253 : (253 <= A)%N) by lia.
  destruct (N.eq_dec A 253) as [->|Hne].
  - assert (q = 16777216%N) by lia. subst q.
    change (IZR (Z.of_N 16777216)) with (bpow radix2 24).
    rewrite <- bpow_plus. apply bpow_le. cbn. lia.
  - assert (Hq' : bpow radix2 23 <= IZR (Z.of_N q)).
    { change (bpow radix2 23) with (IZR 8388608). apply IZR_le. lia. }
    apply Rle_trans with (bpow radix2 23 * bpow radix2 105).
    + rewrite <- bpow_plus. apply bpow_le. cbn. lia.
    + apply Rmult_le_compat; [left; apply bpow_gt_0 | left; apply bpow_gt_0 | exact Hq' | apply bpow_le; lia].
Qed.

(* ------------------------------------------------------------------ 5. the theorem *)

Lemma rnd32_cond_Ropp s v : rnd32 (cond_Ropp s v) = cond_Ropp s (rnd32 v).
Proof. destruct s; cbn [cond_Ropp]; [apply round_NE_opp | reflexivity]. Qed.

Lemma widen_inf s : widen32 (sign32 s + inf32)%N = S754_infinity s.
Proof. destruct s; reflexivity. Qed.

(* float64(float32(x)) for a finite x = (-1)^s * m * 2^e: IEEE-754 round to nearest,
   ties to even, into binary32 when that stays below 2^128 - same value, same sign
   (also of a zero result), a canonical binary64 - and the infinity of the sign of x
   otherwise. *)
Theorem narrow32_is_IEEE_rounding s m e :
  let x := S754_finite s m e in
  let r := rnd32 (SF2R radix2 x) in
  let y := round32 x in
  (Rabs r < bpow radix2 128 ->
     SF2R radix2 y = r /\ is_finite_SF y = true /\ sign_SF y = s /\
     SpecFloat.valid_binary 53 1024 y = true) /\
  (bpow radix2 128 <= Rabs r -> y = S754_infinity s).
Proof.
  intros x r y.
  set (e' := ulp_exp (Npos m) e). set (q := mant_q (Npos m) e).
  set (A := Z.to_N (e' + 149)).
  pose proof (ulp_exp_ge (Npos m) e) as He'. fold e' in He'.
  assert (EA : (Z.of_N A - 149)%Z = e') by (unfold A; lia).
  pose proof (mant_q_le m e) as Hq. fold q in Hq.
  assert (HA : (0 < A)%N -> (2 ^ 23 <= q)%N).
  { intros H. apply mant_q_ge. fold e'. lia. }
  assert (Er : r = cond_Ropp s (F2R (Float radix2 (Z.of_N q) e'))).
  { unfold r, x. cbn [SF2R]. rewrite F2R_cond_Zopp, rnd32_cond_Ropp, rnd32_mant. reflexivity. }
  assert (Eabs : Rabs r = IZR (Z.of_N q) * bpow radix2 (Z.of_N A - 149)).
  { rewrite Er, EA, abs_cond_Ropp. unfold F2R. cbn [Fnum Fexp]. apply Rabs_pos_eq.
    apply Rmult_le_pos; [apply IZR_le; lia | left; apply bpow_gt_0]. }
  assert (Ey : y = widen32 (sign32 s + N.min (A * 2 ^ 23 + q) inf32)%N).
  { unfold y, round32, x. cbn [narrow32]. rewrite narrow_mag_eq. reflexivity. }
  destruct (N.lt_ge_cases (A * 2 ^ 23 + q) inf32) as [Hlt|Hge].
  - rewrite N.min_l in Ey by lia. split.
    + intros _. rewrite Ey.
      destruct (widen_pack s A q Hq HA Hlt) as (V & R). split; [|exact R].
      rewrite V, EA, F2R_cond_Zopp. symmetry. exact Er.
    + intros Hov. pose proof (pack_lt A q Hq HA Hlt). lra.
  - rewrite N.min_r in Ey by lia. split.
    + intros Hno. pose proof (pack_ge A q Hq HA Hge). lra.
    + intros _. rewrite Ey. apply widen_inf.
Qed.

(* the remaining inputs: zeros, infinities and NaN go through unchanged *)
Lemma round32_special x :
  match x with S754_finite _ _ _ => True | _ => round32 x = x end.
Proof. destruct x as [[|]|[|]| |s m e]; try reflexivity. all: exact Logic.I. Qed.

(* ------------------------------------------------------------------ 6. on binary64 values *)
Require Flocq.IEEE754.PrimFloat.
Module FP := Flocq.IEEE754.PrimFloat.
Notation pfloat := Coq.Floats.PrimFloat.float (only parsing).

Definition b64 := binary_float 53 1024.

Lemma sign_SF_B2SF (b : b64) : sign_SF (B2SF b) = Bsign b.
Proof. destruct b; reflexivity. Qed.

(* every finite binary64 (zeros included) *)
Theorem narrow32_binary64 (b : b64) : is_finite b = true ->
  let r := rnd32 (B2R b) in
  let y := round32 (B2SF b) in
  (Rabs r < bpow radix2 128 ->
     SF2R radix2 y = r /\ is_finite_SF y = true /\ sign_SF y = Bsign b /\
     SpecFloat.valid_binary 53 1024 y = true) /\
  (bpow radix2 128 <= Rabs r -> y = S754_infinity (Bsign b)).
Proof.
  destruct b as [s|s| |s m e B]; intros F; try discriminate F.
  - cbn [B2R B2SF Bsign]. unfold rnd32. rewrite round_0 by apply valid_rnd_N.
    cbv zeta. split.
    + intros _. destruct s; repeat split.
    + rewrite Rabs_R0. intros H. pose proof (bpow_gt_0 radix2 128). lra.
  - cbn [B2R B2SF Bsign]. exact (narrow32_is_IEEE_rounding s m e).
Qed.

(* the same on Coq's primitive floats: g is float64(float32(f)) *)
Theorem narrow32_prim (f : pfloat) :
  let bf := FP.Prim2B f in
  is_finite bf = true ->
  let r := rnd32 (B2R bf) in
  let g := SF2Prim (round32 (Prim2SF f)) in
  (Rabs r < bpow radix2 128 ->
     is_finite (FP.Prim2B g) = true /\ B2R (FP.Prim2B g) = r /\
     Bsign (FP.Prim2B g) = Bsign bf) /\
  (bpow radix2 128 <= Rabs r -> g = if Bsign bf then Coq.Floats.PrimFloat.neg_infinity else Coq.Floats.PrimFloat.infinity).
Proof.
  intros bf F r g. unfold g. rewrite <- (FP.B2SF_Prim2B f). fold bf.
  destruct (narrow32_binary64 bf F) as [H1 H2]. fold r in H1, H2. split.
  - intros Hr. destruct (H1 Hr) as (V & Fi & Sg & Va).
    set (y := round32 (B2SF bf)) in *.
    assert (E : B2SF (FP.Prim2B (SF2Prim y)) = y).
    { rewrite FP.B2SF_Prim2B. apply Prim2SF_SF2Prim. exact Va. }
    rewrite <- is_finite_SF_B2SF, <- (SF2R_B2SF 53 1024), <- sign_SF_B2SF.
    repeat split.
    + etransitivity; [|exact Fi]. f_equal. exact E.
    + etransitivity; [|exact V]. f_equal. exact E.
    + etransitivity; [|exact Sg]. f_equal. exact E.
  - intros Hr. pose proof (H2 Hr) as E2.
    transitivity (SF2Prim (S754_infinity (Bsign bf))); [f_equal; exact E2 | destruct (Bsign bf); reflexivity].
Qed.

(* ------------------------------------------------------------------ 7. both cases occur *)
Lemma rnd32_bpow k : (-149 <= k)%Z -> rnd32 (bpow radix2 k) = bpow radix2 k.
Proof.
  intros Hk. apply round_generic; [apply valid_rnd_N|].
  apply generic_format_bpow. unfold fexp32, FLT_exp. lia.
Qed.

Lemma SF2R_pow2 k : SF2R radix2 (S754_finite false 1 k) = bpow radix2 k.
Proof. cbn [SF2R cond_Zopp]. apply F2R_bpow. Qed.

Example in_range_instance :
  Rabs (rnd32 (SF2R radix2 (S754_finite false 1 0))) < bpow radix2 128.
Proof.
  rewrite SF2R_pow2, rnd32_bpow by lia. rewrite Rabs_pos_eq by (left; apply bpow_gt_0).
  apply bpow_lt. lia.
Qed.

Example overflow_instance :
  bpow radix2 128 <= Rabs (rnd32 (SF2R radix2 (S754_finite false 1 128))).
Proof.
  rewrite SF2R_pow2, rnd32_bpow by lia. rewrite Rabs_pos_eq by (left; apply bpow_gt_0).
  apply Rle_refl.
Qed.
