(* The syntactic tie for the 2D / 3MF exporters: the definitions of Generated/IoExpr.v
   translated (harness/iogen, every run) from render/dxf.go, render/svg.go and render/3mf.go
   are instantiated with the models of the libraries they call (the yofu/dxf drawing of
   Io/Export.v and Io/ExportOps.v: layers, current layer, entity list; the svgo canvas as the
   record of its Start / Line calls; go3mf's Encode as the record of the mesh it is given;
   float64 = Q, float32(x) = f32round x) and proved equal to the hand-written model functions
   the theorems of C15 are about, for all inputs.  A semantic edit of the Go source (another
   layer name, swapped or dropped coordinates, another min/max update, no Y flip, another
   canvas size, another de-duplication key, a re-created index map) changes what the generated
   term computes and breaks the lemma named after the function.  Behaviour-preserving rewrites
   do not: the definitions are instantiated by name ([by_name], Io/GoSem.v), helper functions
   and constructors are unfolded wherever they occur (extracted or inlined), the translator
   emits normal forms for loops (see Io/IoEq.v). *)
From Coq Require Import String.
From Coq Require Import List ZArith NArith QArith Lia Bool.
From Sdfx Require Import Io.Export Io.ExportOps Io.GoSem Generated.IoExpr.
Import ListNotations.

(* ------------------------------------------------------------------ general *)
Lemma range_loop_fold {A St R} (f : St -> A -> St) (g : Z -> A -> St -> ctl St R) :
  (forall i x s, g i x s = Next (f s x)) ->
  forall l i s, range_loop g i l s = Next (fold_left f l s).
Proof. intros H. induction l as [|x l IH]; intros i s; cbn [range_loop fold_left]; [reflexivity|]. now rewrite H, IH. Qed.

(* a loop body that reads l[i] while ranging over l sees the element *)
Lemma range_loop_ext {A St R} (f g : Z -> A -> St -> ctl St R) (l : list A) :
  forall pre i s, i = zlen pre ->
  (forall k x s', nth_error (pre ++ l) k = Some x -> (length pre <= k)%nat ->
                  f (Z.of_nat k) x s' = g (Z.of_nat k) x s') ->
  range_loop f i l s = range_loop g i l s.
Proof.
  induction l as [|x l IH]; intros pre i s Hi H; cbn [range_loop]; [reflexivity|].
  subst i. unfold zlen.
  rewrite (H (length pre) x s).
  - destruct (g _ x s) as [s'|v]; [|reflexivity].
    apply (IH (pre ++ [x])).
    + unfold zlen. rewrite app_length. cbn [length]. lia.
    + intros k y s'' Hk Hle. apply H; [now rewrite <- app_assoc in Hk|].
      rewrite app_length in Hle. cbn [length] in Hle. lia.
  - rewrite nth_error_app2 by lia. now rewrite Nat.sub_diag.
  - lia.
Qed.

(* ================================================================== DXF *)
(* the drawing library on the model of Io/Export.v; a saved file is (name, entities) *)
Definition dxfW := list (string * list dxf_ent).
Definition AddLayer_m (d : drawing) (n : string) (b : bool) : drawing := add_layer n b d.
Definition ChangeLayer_m (d : drawing) (n : string) : drawing := change_layer n d.
Definition Line_m (d : drawing) (a b c x y z : Q) : drawing := draw_line d (a, b, c) (x, y, z).
Definition SaveAs_m (d : drawing) (name : string) (w : dxfW) : error * dxfW := (None, w ++ [(name, snd d)]).

(* the models under the names of the Section variables of Generated/IoExpr.v (GoSem.by_name) *)
Ltac pose_dxf :=
  pose (F64 := Q); pose (World := dxfW); pose (Drawing := drawing); pose (fz := inject_Z);
  pose (dxf_NewDrawing := dxf_drawing0); pose (Drawing_AddLayer := AddLayer_m);
  pose (Drawing_ChangeLayer := ChangeLayer_m); pose (Drawing_Line := Line_m); pose (Drawing_SaveAs := SaveAs_m).
Definition NewDXF_m := ltac:(by_name ltac:(pose_dxf) gen_NewDXF).
Definition SaveDXF_m := ltac:(by_name ltac:(pose_dxf) gen_SaveDXF).
Definition writeDXF_m := ltac:(by_name ltac:(pose_dxf) gen_writeDXF).

(* NewDXF: layers "Lines" then "Points", both made current in turn *)
Lemma NewDXF_eq name : NewDXF_m name = (name, new_dxf).
Proof. reflexivity. Qed.

Definition seg_step (d : string * drawing) (l : seg) : string * drawing := (fst d, dxf_seg (snd d) l).

Lemma fold_seg_step mesh : forall d, fold_left seg_step mesh d = (fst d, fold_left dxf_seg mesh (snd d)).
Proof. induction mesh as [|l mesh IH]; intros [n d]; cbn [fold_left fst snd]; [reflexivity|]. rewrite IH. reflexivity. Qed.

(* SaveDXF: NewDXF, ChangeLayer("Lines"), one Line(p0.X, p0.Y, 0, p1.X, p1.Y, 0) per segment, Save *)
Lemma SaveDXF_eq path mesh w : SaveDXF_m path mesh w = Val (w ++ [(path, save_dxf mesh)]) None.
Proof.
  unfold SaveDXF_m, gen_SaveDXF, gen_NewDXF. autounfold with iogen_helpers. cbv zeta. cbn [fst snd].
  erewrite (range_loop_ext _ (fun _ l d => Next (seg_step d l)) mesh [] 0%Z _ eq_refl).
  - rewrite (range_loop_fold seg_step _ (fun _ _ _ => eq_refl)). rewrite fold_seg_step. cbn [fst snd].
    unfold gen_DXF_Save, SaveAs_m, save_dxf, ChangeLayer_m. cbn [fst snd err_nonnil]. reflexivity.
  - intros k [[x0 y0] [x1 y1]] d Hk _. cbn [app] in Hk. cbv beta.
    repeat match goal with |- context [idx ?m ?i] => replace (idx m i) with (Some (x0, y0, (x1, y1))) by (rewrite idx_nat; symmetry; exact Hk) end.
    reflexivity.
Qed.

(* writeDXF (the consumer behind ToDXF) fed with any list of batches *)
Lemma writeDXF_eq path batches w : writeDXF_m path batches w = Val (w ++ [(path, write_dxf batches)]) None.
Proof.
  unfold writeDXF_m, gen_writeDXF, gen_NewDXF. autounfold with iogen_helpers. cbv zeta. cbn [fst snd].
  rewrite (range_loop_fold (fun d ls => fold_left seg_step ls d)).
  2:{ intros i ls d. rewrite (range_loop_fold seg_step); [reflexivity|]. intros j [[x0 y0] [x1 y1]] s. reflexivity. }
  assert (E : forall bs d, fold_left (fun d ls => fold_left seg_step ls d) bs d
                           = (fst d, fold_left (fun d ls => fold_left dxf_seg ls d) bs (snd d))).
  { induction bs as [|b bs IH]; intros d; cbn [fold_left]; [now destruct d|]. rewrite IH, fold_seg_step. reflexivity. }
  rewrite E. cbn [fst snd]. unfold gen_DXF_Save, SaveAs_m, write_dxf, ChangeLayer_m. cbn [fst snd err_nonnil]. reflexivity.
Qed.

(* ---- the drawing object API on the model of Io/ExportOps.v (LINE and CIRCLE entities) *)
Definition add_layer2 (n : string) (setcur : bool) (d : drawing2) : drawing2 :=
  let '(ls, cur, es) := d in
  if has_layer n ls then (ls, (if setcur then n else cur), es)
  else (ls ++ [n], (if setcur then n else cur), es).
Definition dxf_drawing02 : drawing2 := (["0"%string], "0"%string, []).
Definition AddLayer2 (d : drawing2) (n : string) (b : bool) : drawing2 := add_layer2 n b d.
Definition ChangeLayer2 (d : drawing2) (n : string) : drawing2 := change_layer2 n d.
Definition Line2 (d : drawing2) (a b c x y z : Q) : drawing2 := draw_line2 d (a, b, c) (x, y, z).
Definition Circle2 (d : drawing2) (a b c r : Q) : drawing2 := draw_circle2 d (a, b, c) r.

Ltac pose_dxf2 :=
  pose (F64 := Q); pose (Drawing := drawing2); pose (fz := inject_Z);
  pose (dxf_NewDrawing := dxf_drawing02); pose (Drawing_AddLayer := AddLayer2);
  pose (Drawing_ChangeLayer := ChangeLayer2); pose (Drawing_Line := Line2); pose (Drawing_Circle := Circle2).
Definition NewDXF2_m := ltac:(by_name ltac:(pose_dxf2) gen_NewDXF).
Lemma NewDXF2_eq name : NewDXF2_m name = (name, new_dxf2).
Proof. reflexivity. Qed.

Definition DXF_Line_m := ltac:(by_name ltac:(pose_dxf2) gen_DXF_Line).
Definition DXF_Lines_m := ltac:(by_name ltac:(pose_dxf2) gen_DXF_Lines).
Definition DXF_Points_m := ltac:(by_name ltac:(pose_dxf2) gen_DXF_Points).
Definition DXF_Triangle_m := ltac:(by_name ltac:(pose_dxf2) gen_DXF_Triangle).
Definition DXF_Box_m := ltac:(by_name ltac:(pose_dxf2) gen_DXF_Box).

(* (DXF).Line: ChangeLayer("Lines") then Line(x0, y0, 0, x1, y1, 0) *)
Lemma DXF_Line_eq d l : DXF_Line_m d l = (fst d, op_line (snd d) l).
Proof. destruct l as [[x0 y0] [x1 y1]]. unfold DXF_Line_m, gen_DXF_Line. autounfold with iogen_helpers. reflexivity. Qed.

Lemma DXF_Lines_eq d ls : DXF_Lines_m d ls = Val (fst d, op_lines (snd d) ls) None.
Proof.
  unfold DXF_Lines_m, gen_DXF_Lines. autounfold with iogen_helpers. cbv zeta. fold DXF_Line_m.
  rewrite (range_loop_fold (fun d l => (fst d, op_line (snd d) l))) by (intros; now rewrite DXF_Line_eq).
  unfold op_lines. f_equal. revert d. induction ls as [|l ls IH]; intros [n d]; cbn [fold_left fst snd]; [reflexivity | apply IH].
Qed.

Lemma DXF_Points_eq d ps r : DXF_Points_m d ps r = Val (fst d, op_points (snd d) ps r) None.
Proof.
  unfold DXF_Points_m, gen_DXF_Points. autounfold with iogen_helpers. cbv zeta. cbn [fst snd].
  rewrite (range_loop_fold (fun (d : string * drawing2) (p : vec2) => (fst d, draw_circle2 (snd d) (fst p, snd p, 0) r))) by reflexivity.
  unfold op_points, ChangeLayer2. f_equal. generalize (change_layer2 "Points" (snd d)). intros d0.
  generalize (fst d). intros n. revert d0. induction ps as [|p ps IH]; intros d0; cbn [fold_left fst snd]; [reflexivity | apply IH].
Qed.

Lemma DXF_Triangle_eq d a b c : DXF_Triangle_m d (a, b, c) = Val (fst d, op_lines (snd d) (tri_segs a b c)) None.
Proof. unfold DXF_Triangle_m, gen_DXF_Triangle. autounfold with iogen_helpers. cbv zeta. fold DXF_Lines_m DXF_Line_m. rewrite ?DXF_Lines_eq, ?DXF_Line_eq. reflexivity. Qed.

Lemma DXF_Box_eq d mn mx : DXF_Box_m d (mn, mx) = Val (fst d, op_lines (snd d) (box_segs mn mx)) None.
Proof. unfold DXF_Box_m, gen_DXF_Box. autounfold with iogen_helpers. cbv zeta. fold DXF_Lines_m DXF_Line_m. rewrite ?DXF_Lines_eq, ?DXF_Line_eq. reflexivity. Qed.

(* ================================================================== SVG *)
(* the canvas: file name, (width, height, lines), the variadic string arguments of Start and
   of every Line (namespaces / style) *)
Definition svgW := (string * svg_out * list (list string))%type.
Definition svg_Create (path : string) (w : svgW) : error * svgW := (None, (path, (0, 0, []), [])).
Definition svg_Close (w : svgW) : error * svgW := (None, w).
Definition svg_New_m (w : svgW) : svgW := w.
Definition svg_Start_m (wd h : Q) (ns : list string) (w : svgW) : svgW := (fst (fst w), (wd, h, []), [ns]).
Definition svg_Line_m (a b c d : Q) (style : list string) (w : svgW) : svgW :=
  let '(name, (wd, h, ls), ss) := w in (name, (wd, h, ls ++ [(a, b, c, d)]), ss ++ [style]).
Definition svg_End_m (w : svgW) : svgW := w.

Definition svgT := (string * string * list vec2 * list vec2 * vec2 * vec2)%type.
Definition svg_st (s : svgT) : svg_state := let '(_, _, p0s, p1s, mn, mx) := s in (p0s, p1s, mn, mx).
Definition svg_with (s : svgT) (t : svg_state) : svgT :=
  let '(fn, ls, _, _, _, _) := s in let '(p0s, p1s, mn, mx) := t in (fn, ls, p0s, p1s, mn, mx).

Ltac pose_svg :=
  pose (F64 := Q); pose (World := svgW); pose (fz := inject_Z); pose (fsub := Qminus); pose (fadd := Qplus);
  pose (fmin := qmin); pose (fmax := qmax);
  pose (os_Create := svg_Create); pose (file_Close := svg_Close); pose (svg_New := svg_New_m);
  pose (svg_Start := svg_Start_m); pose (svg_Line := svg_Line_m); pose (svg_End := svg_End_m).
Definition NewSVG_m := ltac:(by_name ltac:(pose_svg) gen_NewSVG).
Definition SVG_Line_m := ltac:(by_name ltac:(pose_svg) gen_SVG_Line).
Definition SVG_Save_m := ltac:(by_name ltac:(pose_svg) gen_SVG_Save).
Definition SaveSVG_m := ltac:(by_name ltac:(pose_svg) gen_SaveSVG).
Definition writeSVG_m := ltac:(by_name ltac:(pose_svg) gen_writeSVG).

Lemma NewSVG_eq fn ls : NewSVG_m fn ls = svg_with (fn, ls, [], [], (0, 0), (0, 0)) svg_new.
Proof. reflexivity. Qed.

(* SVG.Line: first segment initialises min/max, later ones extend them; both end points stored *)
Lemma SVG_Line_eq s p0 p1 : SVG_Line_m s p0 p1 = svg_with s (svg_line (svg_st s) (p0, p1)).
Proof. destruct s as [[[[[fn ls] p0s] p1s] mn] mx]. destruct p0s; reflexivity. Qed.

Lemma svg_lines_fold style (lines : list (Q * Q * Q * Q)) : forall name wd h ls ss,
  fold_left (fun w (l : Q * Q * Q * Q) => let '(a, b, c, d) := l in svg_Line_m a b c d style w) lines (name, (wd, h, ls), ss)
  = (name, (wd, h, ls ++ lines), ss ++ map (fun _ => style) lines).
Proof.
  induction lines as [|[[[a b] c] d] lines IH]; intros name wd h ls ss; cbn [fold_left map].
  - now rewrite !app_nil_r.
  - cbn [svg_Line_m]. rewrite IH, <- !app_assoc. reflexivity.
Qed.

(* SVG.Save: canvas max-min; per stored pair Line(p0.X-min.X, max.Y-p0.Y, p1.X-min.X, max.Y-p1.Y, style) *)
Lemma SVG_Save_eq s w : (let '(_, _, p0s, p1s, _, _) := s in length p0s = length p1s) ->
  SVG_Save_m s w =
  Val (let '(fn, ls, p0s, _, _, _) := s in (fn, svg_save (svg_st s), [] :: map (fun _ => [ls]) p0s)) None.
Proof.
  destruct s as [[[[[fn ls] p0s] p1s] mn] mx]. intros Hl.
  unfold SVG_Save_m, gen_SVG_Save. autounfold with iogen_helpers. unfold svg_Create. cbv beta iota zeta. cbn [fst snd err_nonnil svg_st svg_save].
  set (tr := fun pp : vec2 * vec2 => let '(p0, p1) := pp in
               (fst p0 - fst mn, snd mx - snd p0, fst p1 - fst mn, snd mx - snd p1)).
  assert (L : forall (pre1 l0 l1 : list vec2) i (w0 : svgW), length l0 = length l1 -> i = zlen pre1 ->
     forall (g : Z -> vec2 -> svgW -> ctl svgW (res svgW)),
     (forall k p0 w', g (Z.of_nat (length pre1 + k)) p0 w' =
        match nth_error l1 k with
        | None => Return Panic
        | Some p1 => Next (let '(a, b, c, d) := tr (p0, p1) in svg_Line_m a b c d [ls] w')
        end) ->
     range_loop g i l0 w0 =
     Next (fold_left (fun w (l : Q * Q * Q * Q) => let '(a, b, c, d) := l in svg_Line_m a b c d [ls] w) (map tr (combine l0 l1)) w0)).
  { intros pre1 l0. revert pre1. induction l0 as [|p0 l0 IH]; intros pre1 l1 i w0 Hlen Hi g Hg; [reflexivity|].
    destruct l1 as [|p1 l1]; [discriminate Hlen|]. cbn [range_loop combine map fold_left].
    subst i. specialize (Hg 0%nat p0 w0) as Hg0. rewrite Nat.add_0_r in Hg0. unfold zlen. rewrite Hg0. cbn [nth_error].
    apply (IH (pre1 ++ [p0]) l1 _ _ ltac:(cbn [length] in Hlen; lia)).
    - unfold zlen. rewrite app_length. cbn [length]. lia.
    - intros k q w'. rewrite app_length. cbn [length]. replace (length pre1 + 1 + k)%nat with (length pre1 + S k)%nat by lia.
      rewrite Hg. reflexivity. }
  rewrite (L [] p0s p1s 0%Z _ Hl eq_refl).
  2:{ intros k p0 w'. cbn [length Nat.add]. rewrite idx_nat. destruct (nth_error _ k); reflexivity. }
  unfold svg_New_m, svg_Start_m. cbn [fst snd]. rewrite svg_lines_fold. cbn [app].
  unfold svg_End_m, svg_Close. cbn [fst snd].
  assert (M : forall (a b : list vec2), length a = length b ->
            map (fun _ : Q * Q * Q * Q => [ls]) (map tr (combine a b)) = map (fun _ : vec2 => [ls]) a).
  { induction a as [|p a IH]; intros [|q b] Hab; try discriminate Hab; [reflexivity|].
    cbn [combine map]. f_equal. apply IH. cbn [length] in Hab. lia. }
  rewrite M by exact Hl. reflexivity.
Qed.

Lemma svg_line_lengths s l : (let '(p0s, p1s, _, _) := s in length p0s = length p1s) ->
  let '(p0s, p1s, _, _) := svg_line s l in length p0s = length p1s.
Proof. destruct s as [[[p0s p1s] mn] mx], l as [p0 p1]. intros H. cbn [svg_line]. destruct p0s; rewrite !app_length; cbn [length] in *; lia. Qed.

Lemma svg_fold_lengths mesh : forall s, (let '(p0s, p1s, _, _) := s in length p0s = length p1s) ->
  let '(p0s, p1s, _, _) := fold_left svg_line mesh s in length p0s = length p1s.
Proof. induction mesh as [|l mesh IH]; intros s H; cbn [fold_left]; [exact H|]. apply IH. now apply svg_line_lengths. Qed.

Lemma svg_fold_with mesh : forall s, fold_left (fun s (v : seg) => SVG_Line_m s (fst v) (snd v)) mesh s
  = svg_with s (fold_left svg_line mesh (svg_st s)).
Proof.
  induction mesh as [|[p0 p1] mesh IH]; intros s; cbn [fold_left fst snd].
  - destruct s as [[[[[fn ls] p0s] p1s] mn] mx]. reflexivity.
  - rewrite IH, SVG_Line_eq. destruct s as [[[[[fn ls] p0s] p1s] mn] mx]. cbn [svg_st].
    destruct (svg_line _ _) as [[[a b] c] d]. cbn [svg_with svg_st].
    destruct (fold_left svg_line _ _) as [[[? ?] ?] ?]. reflexivity.
Qed.

Definition sv_name (s : svgT) : string := let '(fn, _, _, _, _, _) := s in fn.
Definition sv_style (s : svgT) : string := let '(_, ls, _, _, _, _) := s in ls.
Definition st_p0s (t : svg_state) : list vec2 := let '(p0s, _, _, _) := t in p0s.
Definition st_ok (t : svg_state) : Prop := let '(p0s, p1s, _, _) := t in length p0s = length p1s.

Lemma SVG_Save_eq' s w : st_ok (svg_st s) ->
  SVG_Save_m s w = Val (sv_name s, svg_save (svg_st s), [] :: map (fun _ => [sv_style s]) (st_p0s (svg_st s))) None.
Proof. destruct s as [[[[[fn ls] p0s] p1s] mn] mx]. intros H. now rewrite SVG_Save_eq. Qed.

Lemma svg_st_with s t : svg_st (svg_with s t) = t.
Proof. destruct s as [[[[[fn ls] p0s] p1s] mn] mx], t as [[[a b] c] d]. reflexivity. Qed.
Lemma sv_name_with s t : sv_name (svg_with s t) = sv_name s.
Proof. destruct s as [[[[[fn ls] p0s] p1s] mn] mx], t as [[[a b] c] d]. reflexivity. Qed.
Lemma sv_style_with s t : sv_style (svg_with s t) = sv_style s.
Proof. destruct s as [[[[[fn ls] p0s] p1s] mn] mx], t as [[[a b] c] d]. reflexivity. Qed.

Lemma st_ok_fold mesh : st_ok (fold_left svg_line mesh svg_new).
Proof. exact (svg_fold_lengths mesh svg_new eq_refl). Qed.
Lemma st_p0s_fold mesh : st_p0s (fold_left svg_line mesh svg_new) = map fst mesh.
Proof.
  pose proof (svg_final_inv mesh) as H. destruct (fold_left svg_line mesh svg_new) as [[[p0s p1s] mn] mx].
  exact (proj1 H).
Qed.

Lemma save_after_lines path style mesh w :
  SVG_Save_m (svg_with (path, style, [], [], (0, 0), (0, 0)) (fold_left svg_line mesh svg_new)) w
  = Val (path, save_svg mesh, [] :: map (fun _ => [style]) mesh) None.
Proof.
  rewrite SVG_Save_eq' by (rewrite svg_st_with; apply st_ok_fold).
  rewrite svg_st_with, sv_name_with, sv_style_with, st_p0s_fold, map_map. reflexivity.
Qed.

(* SaveSVG: every segment through SVG.Line, then Save: the canvas holds [save_svg mesh], each line
   with the caller's style string *)
Lemma SaveSVG_eq path style mesh w :
  SaveSVG_m path style mesh w = Val (path, save_svg mesh, [] :: map (fun _ => [style]) mesh) None.
Proof.
  unfold SaveSVG_m, gen_SaveSVG, gen_NewSVG. autounfold with iogen_helpers. cbv zeta. fold SVG_Line_m.
  rewrite (range_loop_fold (fun s (v : seg) => SVG_Line_m s (fst v) (snd v))) by reflexivity.
  rewrite svg_fold_with. fold SVG_Save_m.
  etransitivity; [|apply (save_after_lines path style mesh w)].
  match goal with |- context [SVG_Save_m ?s w] =>
    change s with (svg_with (path, style, [], [], (0, 0), (0, 0)) (fold_left svg_line mesh svg_new)) end.
  destruct (SVG_Save_m _ w) as [w' [e|]|]; reflexivity.
Qed.

(* writeSVG (the consumer behind ToSVG) fed with any list of batches *)
Lemma writeSVG_eq path style batches w :
  writeSVG_m path style batches w = Val (path, write_svg batches, [] :: map (fun _ => [style]) (concat batches)) None.
Proof.
  unfold writeSVG_m, gen_writeSVG, gen_NewSVG. autounfold with iogen_helpers. cbv zeta. fold SVG_Line_m.
  rewrite (range_loop_fold (fun s ls => fold_left (fun s (v : seg) => SVG_Line_m s (fst v) (snd v)) ls s)).
  2:{ intros i ls s. now rewrite (range_loop_fold (fun s (v : seg) => SVG_Line_m s (fst v) (snd v))) by reflexivity. }
  rewrite Export.fold_batches, svg_fold_with. fold SVG_Save_m.
  rewrite write_svg_batching.
  match goal with |- context [SVG_Save_m ?s w] =>
    change s with (svg_with (path, style, [], [], (0, 0), (0, 0)) (fold_left svg_line (concat batches) svg_new)) end.
  rewrite save_after_lines. reflexivity.
Qed.

(* ================================================================== 3MF *)
(* float64 = Q, float32(x) = f32round x (Io/Export.v), == on float32 = equality of the reduced
   fractions; go3mf's Encode records the mesh it is given *)
Definition mfW := list (list q3 * list (Z * Z * Z)).
Definition mf_Create (path : string) (w : mfW) : error * mfW := (None, w).
Definition mf_Encode_m (v : list q3) (t : list (Z * Z * Z)) (w : mfW) : error * mfW := (None, w ++ [(v, t)]).

Ltac pose_3mf :=
  pose (F64 := Q); pose (F32 := Q); pose (World := mfW); pose (to32 := f32round); pose (f32eqb := qeqb);
  pose (mf_CreateWriter := mf_Create); pose (mf_Encode := mf_Encode_m).
Definition toPoint3D_m := ltac:(by_name ltac:(pose_3mf) gen_toPoint3D).
Lemma toPoint3D_eq a : toPoint3D_m a = nq3 a.
Proof. destruct a as [[x y] z]. reflexivity. Qed.

Definition addVertex_m := ltac:(by_name ltac:(pose_3mf) gen_write3MF_addVertex).
Definition write3MF_m := ltac:(by_name ltac:(pose_3mf) gen_write3MF).

Definition av_now := add_vertex q3 q3 (fun v => v) q3eqb.
Definition at_now := add_triangle q3 q3 (fun v => v) q3eqb.
Definition find_now (k : q3) (tbl : list q3) := find_idx q3 q3 (fun v => v) q3eqb k tbl.
Definition itZ (t : nat * nat * nat) : Z * Z * Z := let '(i, j, k) := t in (Z.of_nat i, Z.of_nat j, Z.of_nat k).

Lemma map_get_ext {K V} (k1 k2 : K -> K -> bool) (m : list (K * V)) p :
  (forall a b, k1 a b = k2 a b) -> map_get k1 m p = map_get k2 m p.
Proof. intros H. induction m as [|[k v] m IH]; cbn [map_get]; [reflexivity|]. now rewrite H, IH. Qed.

(* the map of the Go code holds, for every key, the position of its first occurrence in the table *)
Definition Imap (index : list (q3 * Z)) (tbl : list q3) : Prop :=
  forall p, map_get q3eqb index p = option_map Z.of_nat (find_now p tbl).

Lemma find_from_snoc k v : forall l i,
  find_from q3 q3 (fun v => v) q3eqb k (l ++ [v]) i =
  match find_from q3 q3 (fun v => v) q3eqb k l i with
  | Some j => Some j
  | None => if q3eqb v k then Some (i + length l)%nat else None
  end.
Proof.
  induction l as [|x l IH]; intros i; cbn [app find_from length].
  - rewrite Nat.add_0_r. reflexivity.
  - destruct (q3eqb x k); [reflexivity|]. rewrite IH. replace (S i + length l)%nat with (i + S (length l))%nat by lia. reflexivity.
Qed.

Lemma addVertex_eq index tbl p : Imap index tbl -> (zlen tbl < 2 ^ 32)%Z ->
  exists index', addVertex_m index tbl p = (Z.of_nat (snd (av_now tbl p)), fst (av_now tbl p), index') /\
                 Imap index' (fst (av_now tbl p)).
Proof.
  intros HI Hb. unfold addVertex_m, gen_write3MF_addVertex, av_now, add_vertex.
  rewrite (map_get_ext _ q3eqb) by (intros [[a0 a1] a2] [[b0 b1] b2]; reflexivity).
  rewrite HI. fold (find_now p tbl). destruct (find_now p tbl) as [j|] eqn:Ef; cbn [option_map fst snd].
  - exists index. split; [reflexivity | exact HI].
  - rewrite wrapu_small by (split; [apply zlen_nonneg | exact Hb]).
    eexists. split; [reflexivity|].
    intros q. unfold map_set. cbn [map_get]. unfold find_now, find_idx. rewrite find_from_snoc. cbn [Nat.add].
    fold (find_idx q3 q3 (fun v => v) q3eqb q tbl). fold (find_now q tbl).
    destruct (q3eqb p q) eqn:Epq.
    + apply q3eqb_eq in Epq. subst q. rewrite Ef. reflexivity.
    + rewrite HI. destruct (find_now q tbl); reflexivity.
Qed.

Lemma av_now_length tbl p : (zlen (fst (av_now tbl p)) <= zlen tbl + 1)%Z.
Proof.
  unfold av_now, add_vertex. destruct (find_idx _ _ _ _ _ _); cbn [fst]; [lia|]. rewrite zlen_app. unfold zlen. cbn [length]. lia.
Qed.

(* one triangle: three addVertex calls on the float32 corners, then the index triple *)
Lemma triangle_step index tbl its (t : q3 * q3 * q3) :
  Imap index tbl -> (zlen tbl + 3 <= 2 ^ 32)%Z ->
  exists index',
    (let '(v1, tbl1, index1) := addVertex_m index tbl (toPoint3D_m (fst (fst t))) in
     let '(v2, tbl2, index2) := addVertex_m index1 tbl1 (toPoint3D_m (snd (fst t))) in
     let '(v3, tbl3, index3) := addVertex_m index2 tbl2 (toPoint3D_m (snd t)) in
     (tbl3, index3, map itZ its ++ [(v1, v2, v3)]))
    = (fst (at_now (tbl, its) (map_tri nq3 t)), index', map itZ (snd (at_now (tbl, its) (map_tri nq3 t)))) /\
    Imap index' (fst (at_now (tbl, its) (map_tri nq3 t))) /\
    (zlen (fst (at_now (tbl, its) (map_tri nq3 t))) <= zlen tbl + 3)%Z.
Proof.
  intros HI Hb. destruct t as [[a b] c]. cbn [fst snd map_tri]. rewrite !toPoint3D_eq.
  unfold at_now, add_triangle. fold av_now.
  destruct (addVertex_eq index tbl (nq3 a) HI ltac:(lia)) as (i1 & E1 & H1). rewrite E1.
  pose proof (av_now_length tbl (nq3 a)) as L1.
  destruct (av_now tbl (nq3 a)) as [tbl1 j1]. cbn [fst snd] in *.
  destruct (addVertex_eq i1 tbl1 (nq3 b) H1 ltac:(lia)) as (i2 & E2 & H2). rewrite E2.
  pose proof (av_now_length tbl1 (nq3 b)) as L2.
  destruct (av_now tbl1 (nq3 b)) as [tbl2 j2]. cbn [fst snd] in *.
  destruct (addVertex_eq i2 tbl2 (nq3 c) H2 ltac:(lia)) as (i3 & E3 & H3). rewrite E3.
  pose proof (av_now_length tbl2 (nq3 c)) as L3.
  destruct (av_now tbl2 (nq3 c)) as [tbl3 j3]. cbn [fst snd] in *.
  exists i3. split; [|split; [exact H3 | lia]].
  rewrite map_app. reflexivity.
Qed.

Lemma mf_loop {R} (g : Z -> (q3 * q3 * q3) -> list q3 * list (q3 * Z) * list (Z * Z * Z) -> ctl (list q3 * list (q3 * Z) * list (Z * Z * Z)) (res R)) :
  (forall i t tbl index its, g i t (tbl, index, map itZ its) =
     Next (let '(v1, tbl1, index1) := addVertex_m index tbl (toPoint3D_m (fst (fst t))) in
           let '(v2, tbl2, index2) := addVertex_m index1 tbl1 (toPoint3D_m (snd (fst t))) in
           let '(v3, tbl3, index3) := addVertex_m index2 tbl2 (toPoint3D_m (snd t)) in
           (tbl3, index3, map itZ its ++ [(v1, v2, v3)]))) ->
  forall ts i tbl index its, Imap index tbl -> (zlen tbl + 3 * zlen ts <= 2 ^ 32)%Z ->
  exists index',
    range_loop g i ts (tbl, index, map itZ its) =
    Next (fst (fold_left at_now (map (map_tri nq3) ts) (tbl, its)), index',
          map itZ (snd (fold_left at_now (map (map_tri nq3) ts) (tbl, its)))) /\
    Imap index' (fst (fold_left at_now (map (map_tri nq3) ts) (tbl, its))) /\
    (zlen (fst (fold_left at_now (map (map_tri nq3) ts) (tbl, its))) <= zlen tbl + 3 * zlen ts)%Z.
Proof.
  intros Hg. induction ts as [|t ts IH]; intros i tbl index its HI Hb; cbn [range_loop map fold_left].
  - exists index. cbn [fst snd]. repeat split; [exact HI | unfold zlen; cbn [length]; lia].
  - assert (Ec : zlen (t :: ts) = (zlen ts + 1)%Z) by (unfold zlen; cbn [length]; lia). rewrite Ec in Hb.
    rewrite Hg. destruct (triangle_step index tbl its t HI ltac:(pose proof (zlen_nonneg ts); lia)) as (i1 & E & H1 & L1).
    rewrite E. destruct (at_now (tbl, its) (map_tri nq3 t)) as [tbl1 its1]. cbn [fst snd] in *.
    destruct (IH (i + 1)%Z tbl1 i1 its1 H1 ltac:(lia)) as (i2 & E2 & H2 & L2).
    exists i2. split; [exact E2|]. split; [exact H2|]. rewrite Ec. etransitivity; [exact L2 | lia].
Qed.

(* write3MF fed with any list of batches whose triangles have fewer than 2^32 corners in total:
   what reaches Encode is the vertex table and the index triples of [mf_write_now] on the float32
   corners (the map is created once, before the loop) *)
Lemma write3MF_eq path batches w : (3 * zlen (concat batches) <= 2 ^ 32)%Z ->
  write3MF_m path batches w =
  Val (w ++ [(fst (mf_write_now (map (map (map_tri nq3)) batches)),
              map itZ (snd (mf_write_now (map (map (map_tri nq3)) batches))))]) None.
Proof.
  intros Hb. unfold write3MF_m, gen_write3MF. autounfold with iogen_helpers. unfold mf_Create. cbv zeta. cbn [err_nonnil].
  fold addVertex_m. fold toPoint3D_m.
  (* the nested loops are one loop over the concatenation *)
  assert (Hcat : forall (bs : list (list (q3 * q3 * q3))) tbl index its, Imap index tbl ->
            (zlen tbl + 3 * zlen (concat bs) <= 2 ^ 32)%Z ->
            forall (g : Z -> list (q3 * q3 * q3) -> _ -> ctl _ (res mfW)),
            (forall i ts tbl index its, Imap index tbl -> (zlen tbl + 3 * zlen ts <= 2 ^ 32)%Z -> exists index',
               g i ts (tbl, index, map itZ its) =
               Next (fst (fold_left at_now (map (map_tri nq3) ts) (tbl, its)), index',
                     map itZ (snd (fold_left at_now (map (map_tri nq3) ts) (tbl, its)))) /\
               Imap index' (fst (fold_left at_now (map (map_tri nq3) ts) (tbl, its))) /\
               (zlen (fst (fold_left at_now (map (map_tri nq3) ts) (tbl, its))) <= zlen tbl + 3 * zlen ts)%Z) ->
            forall i, exists index',
            range_loop g i bs (tbl, index, map itZ its) =
            Next (fst (fold_left (fun s ts => fold_left at_now ts s) (map (map (map_tri nq3)) bs) (tbl, its)), index',
                  map itZ (snd (fold_left (fun s ts => fold_left at_now ts s) (map (map (map_tri nq3)) bs) (tbl, its))))).
  { induction bs as [|b bs IH]; intros tbl index its HI Hlen g Hg i; cbn [range_loop map fold_left concat].
    - exists index. reflexivity.
    - cbn [concat] in Hlen. rewrite zlen_app in Hlen.
      destruct (Hg i b tbl index its HI ltac:(pose proof (zlen_nonneg (concat bs)); lia)) as (i1 & E & H1 & L1).
      rewrite E. destruct (fold_left at_now (map (map_tri nq3) b) (tbl, its)) as [tbl1 its1]. cbn [fst snd] in *.
      apply IH; [exact H1 | lia | exact Hg]. }
  match goal with |- context [range_loop ?b 0%Z batches _] => set (outer := b) end.
  destruct (Hcat batches [] [] [] ltac:(intros p; reflexivity) ltac:(exact Hb) outer) with (i := 0%Z) as (ix & E).
  { intros i ts tbl index its HI Hl. unfold outer.
    match goal with |- context [range_loop ?b 0%Z ts _] => set (inner := b) end.
    destruct (mf_loop inner) with (ts := ts) (i := 0%Z) (tbl := tbl) (index := index) (its := its) as (i1 & E1 & H1 & L1);
      [|exact HI|exact Hl|].
    { intros j t tbl0 index0 its0. unfold inner, addVertex_m, toPoint3D_m, q3 in *.
      destruct (gen_write3MF_addVertex _ _ _ _ _) as [[v1 tbl1] index1].
      destruct (gen_write3MF_addVertex _ _ _ _ _) as [[v2 tbl2] index2].
      destruct (gen_write3MF_addVertex _ _ _ _ _) as [[v3 tbl3] index3]. reflexivity. }
    exists i1.
    match goal with |- context [range_loop ?b 0%Z ts ?s] => set (loop := range_loop b 0%Z ts s) end.
    match type of E1 with _ = ?r => assert (El : loop = r) by exact E1 end. rewrite El. auto. }
  match goal with |- context [range_loop ?b 0%Z batches ?s] => set (loop := range_loop b 0%Z batches s) end.
  match type of E with _ = ?r => assert (El : loop = r) by exact E end. rewrite El. clear El loop.
  unfold mf_Encode_m. cbn [err_nonnil]. unfold mf_write_now, mf_write_exact, mf_write. reflexivity.
Qed.

(* the statements of write3MF around the mesh, as go/printer prints them *)
Definition mf_setup_expected : list string :=
  [ "var model go3mf.Model";
    "obj := &go3mf.Object{Mesh: &mesh}";
    "obj.ID = model.Resources.UnusedID()";
    "model.Resources.Objects = append(model.Resources.Objects, obj)";
    "model.Build.Items = append(model.Build.Items, &go3mf.Item{ObjectID: obj.ID})";
    "f.Encode(&model)" ]%string.
Lemma mf_setup_eq : gen_write3MF_setup = mf_setup_expected.
Proof. reflexivity. Qed.
