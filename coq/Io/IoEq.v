(* The syntactic tie for the file formats: every definition of Generated/IoExpr.v
   (re-translated by harness/iogen from the Go AST of render/stl.go on every run)
   is instantiated with the models of the Go library functions it calls
   (Io/GoSem.v: os, bufio, encoding/binary on one file; Io/F32.v: the float32
   conversions; oracles for bufio.Scanner, strings.Fields, strconv.ParseFloat) and
   proved equal, for all inputs, to the hand-written model of Io/Stl.v and
   Io/StlLoad.v that the theorems of C13 and C14 are about.

   A semantic edit of the Go source (field order or width of STLHeader /
   STLTriangle, BigEndian, another size formula or threshold in LoadSTL, another test
   on the vertex lines, a dropped rewind, another float conversion or vertex order in
   the writers) changes the generated term and breaks the lemma named after the
   function; renaming, reformatting and named constants do not. *)
From Coq Require Import ZArith NArith List Lia Bool Floats.
From Coq Require String.
From Sdfx Require Import Io.F32 Io.Stl Io.StlLoad Io.GoSem Generated.IoExpr.
Import ListNotations.
Import String.StringSyntax.
Open Scope N_scope.

(* ------------------------------------------------------------------ general *)

Lemma le_bytes_le k n : le_bytes k n = le k n.
Proof. revert n; induction k as [|k IH]; intros n; cbn [le_bytes le]; [reflexivity | now rewrite IH]. Qed.

Lemma unle_bytes_unle bs : unle_bytes bs = unle bs.
Proof. induction bs as [|b r IH]; cbn [unle_bytes unle]; [reflexivity | now rewrite IH]. Qed.

(* a loop body that reads l[i] while ranging over l sees the element *)
Lemma range_loop_ext {A St R} (f g : Z -> A -> St -> ctl St R) (l : list A) :
  forall pre i s, i = zlen pre ->
  (forall k x s', nth_error (pre ++ l) k = Some x -> (length pre <= k)%nat ->
                  f (Z.of_nat k) x s' = g (Z.of_nat k) x s') ->
  range_loop f i l s = range_loop g i l s.
Proof.
  induction l as [|x l IH]; intros pre i s Hi H; cbn [range_loop]; [reflexivity|].
  subst i. unfold zlen.
  rewrite (H (length pre) x s).
  - destruct (g _ x s) as [s'|v]; [|reflexivity].
    apply (IH (pre ++ [x])).
    + unfold zlen. rewrite app_length. cbn [length]. lia.
    + intros k y s'' Hk Hle. apply H; [now rewrite <- app_assoc in Hk|].
      rewrite app_length in Hle. cbn [length] in Hle. lia.
  - rewrite nth_error_app2 by lia. now rewrite Nat.sub_diag.
  - lia.
Qed.

Lemma idx_app_r {A} (pre l : list A) k : (length pre <= k)%nat ->
  idx (pre ++ l) (Z.of_nat k) = nth_error l (k - length pre).
Proof. intros H. rewrite idx_nat. now apply nth_error_app2. Qed.

(* ------------------------------------------------------------------ (1) the byte layout *)

(* sizes: 80 + 4 and 12 * 4 + 2 *)
Lemma STLHeader_size : layout_size STLHeader_layout = 84%nat.
Proof. reflexivity. Qed.
Lemma STLTriangle_size : layout_size STLTriangle_layout = 50%nat.
Proof. reflexivity. Qed.
Lemma STLHeader_slots : layout_slots STLHeader_layout = 81%nat.
Proof. reflexivity. Qed.
Lemma STLTriangle_slots : layout_slots STLTriangle_layout = 13%nat.
Proof. reflexivity. Qed.

Lemma skipn_set_slot_ge d : forall i v n, (i < n)%nat -> skipn n (set_slot d i v) = skipn n d.
Proof.
  induction d as [|x d IH]; intros i v n H; [destruct i; reflexivity|].
  destruct i as [|i]; destruct n as [|n]; try lia; cbn [set_slot skipn]; [reflexivity|].
  apply IH. lia.
Qed.

Lemma set_slot_repeat_last n v : set_slot (repeat 0 (S n)) n v = repeat 0 n ++ [v].
Proof. induction n as [|n IH]; [reflexivity|]. cbn [repeat set_slot app] in *. now rewrite IH. Qed.

(* binary.Write(LittleEndian, &STLHeader{Count: c}) = 80 zero bytes, then c as 4 bytes LE *)
Lemma header_bytes d : length d = 81%nat ->
  encode_struct LittleEndian STLHeader_layout d = encode_header (nth 80 d 0).
Proof.
  intros H. unfold STLHeader_layout, encode_header.
  cbn [encode_struct f_blank f_ty f_count field_size scalar_size Nat.mul Nat.add].
  rewrite app_nil_r. f_equal.
  assert (E : skipn 80 d = [nth 80 d 0]).
  { do 81 (destruct d as [|? d]; [discriminate H|]). destruct d; [reflexivity | discriminate H]. }
  rewrite E. cbn [firstn flat_map put]. rewrite app_nil_r. apply le_bytes_le.
Qed.

(* binary.Write(LittleEndian, &STLTriangle): the 12 float32 slots, then two zero bytes *)
Lemma triangle_bytes (ws : list word) x : length ws = 12%nat ->
  encode_struct LittleEndian STLTriangle_layout (ws ++ [x]) = encode_words ws ++ le 2 0.
Proof.
  intros H. do 12 (destruct ws as [|? ws]; [discriminate H|]). destruct ws; [|discriminate H].
  unfold STLTriangle_layout, encode_words.
  cbn [encode_struct f_blank f_ty f_count field_size scalar_size Nat.mul Nat.add app firstn skipn flat_map put repeat].
  rewrite !le_bytes_le, !app_nil_r, <- !app_assoc. reflexivity.
Qed.

(* binary.Read(LittleEndian, &STLHeader): slot 80 is the little-endian word at offset 80 *)
Lemma header_decode cur bs : length cur = 81%nat ->
  slot (decode_struct LittleEndian STLHeader_layout cur bs) 80 = unle (firstn 4 (skipn 80 bs)).
Proof.
  intros H. unfold STLHeader_layout.
  cbn [decode_struct f_blank f_ty f_count field_size scalar_size Nat.mul Nat.add chunks map get].
  unfold slot. rewrite app_nth2; rewrite firstn_length, H; [|cbn; lia].
  cbn [Nat.min Nat.sub app nth]. apply unle_bytes_unle.
Qed.

(* ------------------------------------------------------------------ (2) the loaders *)

Definition outcome_of {W} (r : res (list tri * W)) : outcome :=
  match r with
  | GoSem.Panic => StlLoad.Panic
  | Val (m, _) None => Mesh m
  | Val _ (Some _) => Err
  end.

Section Loaders.
  (* oracles: what bufio.Scanner delivers for a byte string (tokens, final error), strings.Fields,
     strconv.ParseFloat(s, 64); fz is the value of an integer literal of type float64 *)
  Variable scan : list byte -> list string * error.
  Variable Fields : string -> list string.
  Variable pf : string -> option spec_float.
  Variable fz : Z -> spec_float.

  Definition pf_err : error := new_error 1000.
  (* strconv.ParseFloat(s, bitSize): the oracle speaks about bitSize 64 only *)
  Definition ParseFloat (s : string) (bits : Z) : spec_float * error :=
    if (bits =? 64)%Z then
      match pf s with Some x => (x, None) | None => (fz 0%Z, pf_err) end
    else (fz 0%Z, new_error 1001).

  Definition parseFloats_m := gen_parseFloats spec_float fz ParseFloat.

  Lemma upd_nat_app {A} (done : list A) z zs v :
    upd_nat (done ++ z :: zs) (length done) v = Some (done ++ v :: zs).
  Proof. induction done as [|d done IH]; cbn [app length upd_nat]; [reflexivity | now rewrite IH]. Qed.

  Lemma pf_loop (g : Z -> string -> list spec_float -> ctl (list spec_float) (res (list spec_float))) :
    (forall i x out, g i x out =
       match pf x with
       | None => Return (Val [] pf_err)
       | Some v => match upd out i v with None => Return GoSem.Panic | Some o => Next o end
       end) ->
    forall l done zs, length zs = length l ->
    range_loop g (zlen done) l (done ++ zs) =
    match parse_floats pf l with
    | Some o => Next (done ++ o)
    | None => Return (Val [] pf_err)
    end.
  Proof.
    intros Hg. induction l as [|x l IH]; intros done zs Hz; cbn [range_loop parse_floats].
    - destruct zs; [reflexivity | discriminate Hz].
    - destruct zs as [|z zs]; [discriminate Hz|]. rewrite Hg.
      destruct (pf x) as [v|]; [|reflexivity].
      unfold upd, zlen. destruct (Z.ltb_spec (Z.of_nat (length done)) 0); [lia|].
      rewrite Nat2Z.id, upd_nat_app.
      replace (done ++ v :: zs) with ((done ++ [v]) ++ zs) by now rewrite <- app_assoc.
      replace (Z.of_nat (length done) + 1)%Z with (zlen (done ++ [v])) by (unfold zlen; rewrite app_length; cbn [length]; lia).
      rewrite IH by (cbn [length] in Hz; lia).
      destruct (parse_floats pf l); [|reflexivity]. now rewrite <- app_assoc.
  Qed.

  (* parseFloats = parse_floats of the model *)
  Lemma parseFloats_eq l :
    parseFloats_m l = match parse_floats pf l with Some o => Val o None | None => Val [] pf_err end.
  Proof.
    unfold parseFloats_m, gen_parseFloats, make_slice.
    destruct (Z.ltb_spec (zlen l) 0) as [H|_]; [pose proof (zlen_nonneg l); lia|].
    unfold zlen at 1. rewrite Nat2Z.id.
    erewrite (range_loop_ext _ (fun i x out =>
       match pf x with
       | None => Return (Val [] pf_err)
       | Some v => match upd out i v with None => Return GoSem.Panic | Some o => Next o end
       end) l [] 0%Z _ eq_refl).
    - pose proof (pf_loop _ (fun _ _ _ => eq_refl) l [] (repeat (fz 0%Z) (length l)) (repeat_length _ _)) as P.
      cbn [app] in P. change (zlen (@nil spec_float)) with 0%Z in P. rewrite P.
      destruct (parse_floats pf l); reflexivity.
    - intros k x s' Hk _. cbn [app] in Hk. rewrite idx_nat, Hk. unfold ParseFloat. cbn [Z.eqb Pos.eqb].
      destruct (pf x) as [v|]; cbn [err_nonnil pf_err new_error]; [|reflexivity].
      destruct (upd s' (Z.of_nat k) v); reflexivity.
  Qed.

  (* ---- loadSTLAscii *)
  Definition scan_w (w : fw) : list string * error := scan (fw_rest w).
  Definition loadSTLAscii_m := gen_loadSTLAscii spec_float fw fz scan_w Fields ParseFloat.
  (* the file as the model sees it: bytes, the scanner's tokens split into fields, scanner error *)
  Definition file_at (w : fw) : file :=
    {| f_bytes := fw_disk w; f_lines := map Fields (fst (scan_w w)); f_scan_err := err_nonnil (snd (scan_w w)) |}.

  Lemma zlen_eqb {A} (l : list A) n : (zlen l =? Z.of_nat n)%Z = (length l =? n)%nat.
  Proof. unfold zlen. destruct (Nat.eqb_spec (length l) n) as [->|H]; [apply Z.eqb_refl | apply Z.eqb_neq; lia]. Qed.

  Lemma rem3 {A} (l : list A) : (Z.rem (zlen l) 3 =? 0)%Z = (length l mod 3 =? 0)%nat.
  Proof.
    unfold zlen. rewrite Z.rem_mod_nonneg by lia.
    change 3%Z with (Z.of_nat 3). rewrite <- Nat2Z.inj_mod. change 0%Z with (Z.of_nat 0).
    destruct (Nat.eqb_spec (length l mod 3) 0) as [->|H]; [apply Z.eqb_refl | apply Z.eqb_neq; lia].
  Qed.

  Lemma scan_loop (w : fw) (g : Z -> string -> list vec -> ctl (list vec) (res (list tri * fw))) :
    (forall i line v, g i line v =
       if is_vertex_line (Fields line) then
         match parse_floats pf (tl (Fields line)) with
         | None => Return (Val ([], w) pf_err)
         | Some f =>
           match nth_error f 0, nth_error f 1, nth_error f 2 with
           | Some x, Some y, Some z => Next (v ++ [(x, y, z)])
           | _, _, _ => Return GoSem.Panic
           end
         end
       else Next v) ->
    forall lines i v,
    range_loop g i lines v =
    match scan_lines pf (map Fields lines) v with
    | SOk v' => Next v'
    | SErr => Return (Val ([], w) pf_err)
    | SPanic => Return GoSem.Panic
    end.
  Proof.
    intros Hg. induction lines as [|line lines IH]; intros i v; cbn [range_loop map scan_lines]; [reflexivity|].
    rewrite Hg. destruct (is_vertex_line (Fields line)); [|apply IH].
    destruct (parse_floats pf (tl (Fields line))) as [f|]; [|reflexivity].
    destruct (nth_error f 0) as [x|]; [|reflexivity].
    destruct (nth_error f 1) as [y|]; [|reflexivity].
    destruct (nth_error f 2) as [z|]; [|reflexivity].
    apply IH.
  Qed.

  Lemma group_loop (v : list vec) {R} (g : Z -> list tri -> ctl (list tri) (res R)) :
    (forall i mesh, g (Z.of_nat i) mesh =
       match nth_error v i, nth_error v (i + 1), nth_error v (i + 2) with
       | Some a, Some b, Some c => Next (mesh ++ [(a, b, c)])
       | _, _, _ => Return GoSem.Panic
       end) ->
    forall fuelf fuelg i mesh, (length v - i < fuelg)%nat -> (length v - i <= fuelf)%nat ->
    for_step fuelf (zlen v) 3 g (Z.of_nat i) mesh =
    match group fuelg i v mesh with GOk m => Next m | GPanic => Return GoSem.Panic end.
  Proof.
    intros Hg. induction fuelf as [|f IH]; intros fuelg i mesh Hfg Hff.
    - cbn [for_step]. unfold zlen. destruct (Z.ltb_spec (Z.of_nat i) (Z.of_nat (length v))); [lia|].
      destruct fuelg; cbn [group]; (destruct (Nat.ltb_spec i (length v)); [lia | reflexivity]).
    - cbn [for_step]. unfold zlen. destruct (Z.ltb_spec (Z.of_nat i) (Z.of_nat (length v))) as [Hlt|Hge].
      + destruct fuelg as [|fg]; [lia|]. cbn [group].
        destruct (Nat.ltb_spec i (length v)); [|lia].
        rewrite Hg.
        destruct (nth_error v i) as [a|]; [|reflexivity].
        destruct (nth_error v (i + 1)) as [b|]; [|reflexivity].
        destruct (nth_error v (i + 2)) as [c|]; [|reflexivity].
        replace (Z.of_nat i + 3)%Z with (Z.of_nat (i + 3)) by lia.
        fold (zlen v). apply IH; lia.
      + destruct fuelg; cbn [group]; (destruct (Nat.ltb_spec i (length v)); [lia | reflexivity]).
  Qed.

  (* loadSTLAscii = load_ascii of the model (repaired version), for every file and every oracle *)
  Lemma loadSTLAscii_eq w : outcome_of (loadSTLAscii_m w) = load_ascii pf Repaired (file_at w).
  Proof.
    unfold loadSTLAscii_m, gen_loadSTLAscii, load_ascii, file_at. cbn [f_lines f_scan_err].
    unfold tri, vec.
    match goal with |- context [range_loop ?b 0%Z (fst (scan_w w)) []] => set (body := b) end.
    rewrite (scan_loop w body).
    2:{ intros i line v. unfold body. unfold is_vertex_line.
        try rewrite (Z.eqb_sym 4%Z). try rewrite (String.eqb_sym "vertex").
        change 4%Z with (Z.of_nat 4). rewrite zlen_eqb.
        destruct (Nat.eqb_spec (length (Fields line)) 4) as [E|E]; [|reflexivity].
        destruct (Fields line) as [|f0 [|f1 [|f2 [|f3 [|f4 r]]]]]; try discriminate E.
        cbn [obind idx Z.ltb Z.compare Z.to_nat nth_error andb tl].
        try rewrite (String.eqb_sym "vertex" f0).
        destruct (String.eqb f0 "vertex"); [|reflexivity].
        cbn [slice_from zlen length Z.of_nat Pos.of_succ_nat Pos.succ Z.leb Z.compare Pos.compare Pos.compare_cont andb Z.to_nat Pos.to_nat Pos.iter_op Nat.add skipn].
        change (Pos.to_nat 1) with 1%nat. cbn [skipn].
        fold parseFloats_m. rewrite parseFloats_eq.
        destruct (parse_floats pf [f1; f2; f3]) as [f|]; [|reflexivity].
        cbn [err_nonnil]. unfold idx. cbn [Z.ltb Z.compare Z.to_nat].
        change (Pos.to_nat 1) with 1%nat. change (Pos.to_nat 2) with 2%nat.
        destruct f as [|a [|b [|c f']]]; reflexivity. }
    unfold tri, vec.
    match goal with |- context [scan_lines pf ?l ?n] => destruct (scan_lines pf l n) as [| |v] end; [reflexivity | reflexivity |].
    rewrite rem3. unfold tri, vec. destruct (_ mod 3 =? 0)%nat; cbn [negb]; [|reflexivity].
    unfold for_upto. rewrite Z.sub_0_r.
    match goal with |- context [for_step _ _ _ ?b _ _] => set (gbody := b) end.
    change 0%Z with (Z.of_nat 0).
    rewrite (group_loop v gbody) with (fuelg := S (length v)); [| |lia|unfold zlen; rewrite Nat2Z.id, Nat.sub_0_r; apply Nat.le_refl].
    2:{ intros i mesh. unfold gbody. rewrite Z.add_0_r.
        replace (Z.of_nat i + 1)%Z with (Z.of_nat (i + 1)) by lia.
        replace (Z.of_nat i + 2)%Z with (Z.of_nat (i + 2)) by lia.
        rewrite !idx_nat. reflexivity. }
    unfold tri, vec.
    match goal with |- context [group ?a ?b ?c ?d] => destruct (group a b c d) end; [reflexivity|].
    cbn [outcome_of]. destruct (snd (scan_w w)); reflexivity.
  Qed.

  (* ---- loadSTLBinary *)
  Definition loadSTLBinary_m := gen_loadSTLBinary spec_float word fw fz widen32 (fun n : N => n) GoSem.binary_Read.

  (* decode_tris without fuel *)
  Fixpoint dec (n : nat) (data : list byte) : option (list tri) :=
    match n with
    | O => Some []
    | S n' =>
      match take 50 data with
      | None => None
      | Some (rec, rest) =>
        match dec n' rest with
        | Some r => Some (decode_triangle rec :: r)
        | None => None
        end
      end
    end.

  Lemma decode_tris_dec n : forall fuel data, (length data <= fuel)%nat ->
    decode_tris fuel (N.of_nat n) data = dec n data.
  Proof.
    induction n as [|n IH]; intros fuel data Hf.
    - destruct fuel; reflexivity.
    - destruct fuel as [|f]; cbn [decode_tris dec].
      + destruct data; [reflexivity | cbn [length] in Hf; lia].
      + replace (N.of_nat (S n) =? 0) with false by (symmetry; apply N.eqb_neq; lia).
        destruct (take 50 data) as [[rec rest]|] eqn:Et; [|reflexivity].
        replace (N.of_nat (S n) - 1) with (N.of_nat n) by lia.
        rewrite IH; [reflexivity|].
        apply take_length in Et as [-> Hl]. rewrite app_length in Hf. lia.
  Qed.

  Lemma take_split n (l : list byte) : (n <= length l)%nat -> take n l = Some (firstn n l, skipn n l).
  Proof.
    intros H. rewrite <- (firstn_skipn n l) at 1.
    rewrite <- (firstn_length_le l H) at 1. apply take_app.
  Qed.

  Definition tri_of_slots (d : list N) : tri :=
    ((widen32 (slot d 3), widen32 (slot d 4), widen32 (slot d 5)),
     (widen32 (slot d 6), widen32 (slot d 7), widen32 (slot d 8)),
     (widen32 (slot d 9), widen32 (slot d 10), widen32 (slot d 11))).

  (* binary.Read(LittleEndian, &STLTriangle) followed by the three float64(d.VertexK[i]) = decode_triangle *)
  Lemma triangle_decode cur bs : (50 <= length bs)%nat ->
    tri_of_slots (decode_struct LittleEndian STLTriangle_layout cur bs) = decode_triangle (firstn 50 bs).
  Proof.
    intros H. do 50 (destruct bs as [|? bs]; [cbn [length] in H; lia|]).
    unfold tri_of_slots, decode_triangle, STLTriangle_layout.
    cbn [decode_struct f_blank f_ty f_count field_size scalar_size Nat.mul Nat.add chunks map get firstn skipn app slot nth words_of].
    rewrite !unle_bytes_unle. reflexivity.
  Qed.

  Lemma skipn_add {A} (l : list A) : forall m n, skipn (m + n) l = skipn n (skipn m l).
  Proof. induction l as [|x l IH]; intros [|m] n; cbn [skipn Nat.add]; try reflexivity; [now destruct n | apply IH]. Qed.

  Lemma fw_rest_at w n : fw_rest (fw_at w (fw_pos w + n)) = skipn n (fw_rest w).
  Proof. unfold fw_rest, fw_at. cbn [fw_disk fw_pos]. apply skipn_add. Qed.

  Lemma upd_mid {A} (done : list A) z zs v : upd (done ++ z :: zs) (zlen done) v = Some (done ++ v :: zs).
  Proof.
    unfold upd, zlen. destruct (Z.ltb_spec (Z.of_nat (length done)) 0); [lia|].
    rewrite Nat2Z.id. apply upd_nat_app.
  Qed.

  Lemma bin_loop (z : tri) (g : Z -> tri -> list tri * fw -> ctl (list tri * fw) (res (list tri * fw))) :
    (forall i x mesh w, g i x (mesh, w) =
       let '(d, err, w') := GoSem.binary_Read LittleEndian STLTriangle_layout (zero_slots STLTriangle_layout) w in
       if err_nonnil err then Return (Val ([], w') err)
       else match upd mesh i (tri_of_slots d) with
            | None => Return GoSem.Panic
            | Some m => Next (m, w')
            end) ->
    forall n done w,
    match range_loop g (zlen done) (repeat z n) (done ++ repeat z n, w) with
    | Next (m, _) => exists ts, dec n (fw_rest w) = Some ts /\ m = done ++ ts
    | Return r => dec n (fw_rest w) = None /\ outcome_of r = Err
    end.
  Proof.
    intros Hg. induction n as [|n IH]; intros done w; cbn [repeat range_loop dec].
    - exists []. split; [reflexivity|]. reflexivity.
    - rewrite Hg. unfold GoSem.binary_Read. rewrite STLTriangle_size.
      destruct (Nat.leb_spec 50 (length (fw_rest w))) as [Hle|Hlt].
      + cbn [err_nonnil]. rewrite upd_mid. rewrite (take_split 50 _ Hle).
        rewrite triangle_decode by exact Hle.
        replace (done ++ decode_triangle (firstn 50 (fw_rest w)) :: repeat z n)
          with ((done ++ [decode_triangle (firstn 50 (fw_rest w))]) ++ repeat z n) by now rewrite <- app_assoc.
        replace (zlen done + 1)%Z with (zlen (done ++ [decode_triangle (firstn 50 (fw_rest w))]))
          by (rewrite zlen_app; reflexivity).
        specialize (IH (done ++ [decode_triangle (firstn 50 (fw_rest w))]) (fw_at w (fw_pos w + 50))).
        rewrite fw_rest_at in IH.
        destruct (range_loop g _ _ _) as [[m w']|r].
        * destruct IH as (ts & -> & ->). eexists. split; [reflexivity|]. now rewrite <- app_assoc.
        * destruct IH as [-> Ho]. split; [reflexivity | exact Ho].
      + rewrite (take_short 50 _ Hlt). destruct (fw_rest w); cbn [err_nonnil io_EOF io_ErrUnexpectedEOF]; split; reflexivity.
  Qed.

  (* loadSTLBinary = decode of the model, reading from the current offset of the file *)
  Lemma loadSTLBinary_eq w :
    outcome_of (loadSTLBinary_m w) = match decode (fw_rest w) with Some ts => Mesh ts | None => Err end.
  Proof.
    unfold loadSTLBinary_m, gen_loadSTLBinary, decode.
    unfold GoSem.binary_Read at 1. rewrite STLHeader_size.
    destruct (Nat.leb_spec 84 (length (fw_rest w))) as [Hle|Hlt].
    - cbn [err_nonnil]. rewrite (take_split 84 _ Hle).
      rewrite header_decode by reflexivity.
      unfold header_count. rewrite skipn_firstn_comm. change (84 - 80)%nat with 4%nat.
      set (c := unle (firstn 4 (skipn 80 (fw_rest w)))).
      unfold make_slice. destruct (Z.ltb_spec (Z.of_N c) 0) as [H|_]; [lia|].
      replace (Z.to_nat (Z.of_N c)) with (N.to_nat c) by lia.
      assert (Ec : c = N.of_nat (N.to_nat c)) by (symmetry; apply Nnat.N2Nat.id).
      set (n := N.to_nat c) in *. clearbody n. rewrite Ec.
      rewrite decode_tris_dec by (rewrite skipn_length; lia).
      match goal with |- context [range_loop ?b 0%Z _ _] => set (body := b) end.
      match goal with |- context [repeat ?z n] => pose proof (bin_loop z body) as L end.
      specialize (L ltac:(intros i x mesh w0; unfold body;
                          destruct (GoSem.binary_Read LittleEndian STLTriangle_layout (zero_slots STLTriangle_layout) w0) as [[d e] w'];
                          destruct (err_nonnil e); reflexivity)).
      specialize (L n [] (fw_at w (fw_pos w + 84))).
      cbn [app] in L. change (zlen (@nil tri)) with 0%Z in L. rewrite fw_rest_at in L.
      unfold tri, vec in *.
      match goal with |- context [range_loop ?a ?b ?c ?d] => destruct (range_loop a b c d) as [[m w']|r] end.
      + destruct L as (ts & -> & ->). reflexivity.
      + destruct L as [-> Ho]. exact Ho.
    - rewrite (take_short 84 _ Hlt). destruct (fw_rest w); reflexivity.
  Qed.

  (* ---- LoadSTL *)
  Definition LoadSTL_m :=
    gen_LoadSTL spec_float word fw Z fz widen32 (fun n : N => n) GoSem.os_Open GoSem.file_Stat GoSem.file_Seek
      GoSem.FileInfo_Size GoSem.binary_Read scan_w Fields ParseFloat.

  Lemma bytes_ok_firstn n : forall l, bytes_ok l -> bytes_ok (firstn n l).
  Proof. induction n as [|n IH]; intros [|x l] H; cbn [firstn]; try constructor; inversion H; subst; auto. apply IH; assumption. Qed.
  Lemma bytes_ok_skipn n : forall l, bytes_ok l -> bytes_ok (skipn n l).
  Proof. induction n as [|n IH]; intros [|x l] H; cbn [skipn]; try assumption. inversion H; subst. now apply IH. Qed.
  Lemma unle_lt bs : bytes_ok bs -> unle bs < 256 ^ N.of_nat (length bs).
  Proof.
    induction 1 as [|b r Hb Hr IH]; [cbn; lia|].
    cbn [unle length]. rewrite Nat2N.inj_succ, N.pow_succ_r'. lia.
  Qed.

  Lemma outcome_eta {W} (r : res (list tri * W)) :
    outcome_of (match r with GoSem.Panic => GoSem.Panic | Val (a, w) e => Val (a, w) e end) = outcome_of r.
  Proof. destruct r as [[a w] e|]; reflexivity. Qed.

  (* LoadSTL = load of the model (repaired version) for every file that can be opened *)
  Lemma LoadSTL_eq path w : fw_open_err w = None -> bytes_ok (fw_disk w) ->
    outcome_of (LoadSTL_m path w) = load pf Repaired (file_at (fw_at w 0)).
  Proof.
    intros Ho Hb. unfold LoadSTL_m, gen_LoadSTL, load, GoSem.os_Open, GoSem.file_Stat. rewrite Ho. cbn [err_nonnil].
    cbn [file_at f_bytes fw_at fw_disk].
    unfold GoSem.binary_Read at 1. rewrite STLHeader_size.
    change (fw_rest (fw_at w 0)) with (fw_disk w).
    destruct (Nat.leb_spec 84 (length (fw_disk w))) as [Hle|Hlt].
    - cbn [err_nonnil]. rewrite (take_split 84 _ Hle). rewrite header_decode by reflexivity.
      unfold header_count. rewrite skipn_firstn_comm. change (84 - 80)%nat with 4%nat.
      set (c := unle (firstn 4 (skipn 80 (fw_disk w)))).
      assert (Hc : c < 2 ^ 32).
      { pose proof (unle_lt _ (bytes_ok_firstn 4 _ (bytes_ok_skipn 80 _ Hb))) as H.
        fold c in H. eapply N.lt_le_trans; [exact H|].
        change (2 ^ 32) with (256 ^ 4). apply N.pow_le_mono_r; [discriminate|].
        rewrite firstn_length. lia. }
      change (2 ^ 32) with 4294967296 in Hc.
      rewrite (wraps_small 64 (Z.of_N c)) by (change (2 ^ (64 - 1))%Z with 9223372036854775808%Z; lia).
      rewrite (wraps_small 64 (Z.of_N c * 50)) by (change (2 ^ (64 - 1))%Z with 9223372036854775808%Z; lia).
      rewrite (wraps_small 64 (Z.of_N c * 50 + 84)) by (change (2 ^ (64 - 1))%Z with 9223372036854775808%Z; lia).
      unfold GoSem.file_Seek. cbn [Z.ltb Z.compare err_nonnil Z.to_nat].
      unfold GoSem.FileInfo_Size. rewrite nlen_length.
      replace (zlen (fw_disk w) =? Z.of_N c * 50 + 84)%Z with (N.of_nat (length (fw_disk w)) =? c * 50 + 84).
      2:{ unfold zlen. destruct (N.eqb_spec (N.of_nat (length (fw_disk w))) (c * 50 + 84)) as [E|E];
          symmetry; [apply Z.eqb_eq | apply Z.eqb_neq]; lia. }
      destruct (_ =? c * 50 + 84).
      + rewrite outcome_eta. apply loadSTLBinary_eq.
      + rewrite outcome_eta. apply loadSTLAscii_eq.
    - rewrite (take_short 84 _ Hlt).
      destruct (fw_disk w) eqn:Ed; cbn [err_nonnil io_EOF io_ErrUnexpectedEOF err_eqb goerr_eqb orb];
        unfold GoSem.file_Seek; cbn [Z.ltb Z.compare err_nonnil Z.to_nat];
        rewrite outcome_eta, loadSTLAscii_eq; unfold file_at, scan_w, fw_rest, fw_at; cbn [fw_disk fw_pos skipn]; rewrite ?Ed; reflexivity.
  Qed.

  Lemma LoadSTL_open_error path w e : fw_open_err w = Some e -> outcome_of (LoadSTL_m path w) = Err.
  Proof. intros Ho. unfold LoadSTL_m, gen_LoadSTL, GoSem.os_Open. rewrite Ho. reflexivity. Qed.
End Loaders.

(* ------------------------------------------------------------------ (3) the writers *)

(* Triangle3.Normal (with Vec.Sub, Cross, Normalize, MulScalar, Length, Length2, Dot) = normal_g,
   over any number system; the literal 1 of `1 / a.Length()` is o_one *)
Definition fz_ops {T} (o : ops T) (z : Z) : T :=
  if (z =? 1)%Z then o_one o else o_sub o (o_one o) (o_one o).
Lemma Normal_eq {T} (o : ops T) (t : (T * T * T) * (T * T * T) * (T * T * T)) :
  gen_Triangle3_Normal T (fz_ops o) (o_add o) (o_sub o) (o_mul o) (o_div o) (o_sqrt o) t
  = let '(a, b, c) := t in normal_g o a b c.
Proof. destruct t as [[[[ax ay] az] [[bx by_] bz]] [[cx cy] cz]]. reflexivity. Qed.

(* the bufio.Writer on a file whose offset is at its end *)
Definition wf (w : fw) : Prop := fw_pos w = length (fw_disk w).
Definition content (w : fw) : list byte := fw_disk w ++ fw_buf w.

Lemma bufio_Write_ok cap data w : wf w ->
  fst (GoSem.bufio_Write cap data w) = None /\ wf (snd (GoSem.bufio_Write cap data w)) /\
  content (snd (GoSem.bufio_Write cap data w)) = content w ++ data.
Proof.
  unfold wf, content, GoSem.bufio_Write, GoSem.file_Write. intros H.
  destruct (_ <=? cap)%nat; cbn [fst snd fw_disk fw_pos fw_buf].
  - repeat split; [exact H | now rewrite app_assoc].
  - rewrite H, firstn_all. rewrite skipn_all2 by lia.
    rewrite !app_nil_r. repeat split; [rewrite !app_length; lia | now rewrite <- app_assoc].
Qed.

Lemma bufio_Flush_ok w : wf w ->
  fst (GoSem.bufio_Flush w) = None /\ wf (snd (GoSem.bufio_Flush w)) /\
  fw_disk (snd (GoSem.bufio_Flush w)) = content w /\ fw_buf (snd (GoSem.bufio_Flush w)) = [].
Proof.
  unfold wf, content, GoSem.bufio_Flush, GoSem.file_Write. intros H. cbn [fst snd fw_disk fw_pos fw_buf].
  rewrite H, firstn_all. rewrite skipn_all2 by lia. rewrite !app_nil_r, app_length. repeat split.
Qed.

Lemma count_word {A} (l : list A) : Z.to_N (wrapu 32 (zlen l)) = nlen l mod 2 ^ 32.
Proof.
  unfold wrapu, zlen. rewrite nlen_length.
  rewrite <- (N2Z.id (N.of_nat (length l) mod 2 ^ 32)). f_equal.
  rewrite N2Z.inj_mod. rewrite nat_N_Z. reflexivity.
Qed.

Lemma nth_set_slot_last n v : nth n (set_slot (repeat 0 (S n)) n v) 0 = v.
Proof. rewrite set_slot_repeat_last, app_nth2; rewrite repeat_length; [now rewrite Nat.sub_diag | lia]. Qed.

Section Writers.
  (* any float64 arithmetic on spec_float values; the stored words are narrow32 of the values *)
  Variable fz : Z -> spec_float.
  Variables fadd fsub fmul fdiv : spec_float -> spec_float -> spec_float.
  Variable fsqrt : spec_float -> spec_float.
  Definition nrm : tri -> vec := gen_Triangle3_Normal spec_float fz fadd fsub fmul fdiv fsqrt.
  Let cap := bufio_default_size.

  Definition SaveSTL_m :=
    gen_SaveSTL spec_float word fw fz fadd fsub fmul fdiv fsqrt narrow32 (fun n : N => n)
      GoSem.os_Create (GoSem.binary_Write_bufio cap) GoSem.bufio_Flush.

  (* the record a loop iteration builds: 12 words from the triangle, the attribute slot untouched *)
  Lemma record_bytes (t : tri) (d : list N) : length d = 13%nat ->
    forall d', d' = tri_words nrm t ++ skipn 12 d ->
    length d' = 13%nat /\ encode_struct LittleEndian STLTriangle_layout d' = encode_triangle nrm t.
  Proof.
    intros H d' ->. do 13 (destruct d as [|? d]; [discriminate H|]). destruct d; [|discriminate H].
    cbn [skipn]. split; [rewrite app_length, tri_words_length; reflexivity|].
    apply triangle_bytes. apply tri_words_length.
  Qed.

  Lemma save_loop {R} (g : Z -> tri -> list N * fw -> ctl (list N * fw) (res R)) :
    (forall i t d w, length d = 13%nat -> exists d', length d' = 13%nat /\
       g i t (d, w) = Next (d', snd (GoSem.bufio_Write cap (encode_triangle nrm t) w))) ->
    forall ts i d w, length d = 13%nat -> wf w ->
    exists d' w', range_loop g i ts (d, w) = Next (d', w') /\ length d' = 13%nat /\ wf w' /\
                  content w' = content w ++ flat_map (encode_triangle nrm) ts.
  Proof.
    intros Hg. induction ts as [|t ts IH]; intros i d w Hd Hw; cbn [range_loop flat_map].
    - exists d, w. rewrite app_nil_r. auto.
    - destruct (Hg i t d w Hd) as (d1 & Hd1 & ->).
      destruct (bufio_Write_ok cap (encode_triangle nrm t) w Hw) as (_ & Hw1 & Hc1).
      destruct (IH (i + 1)%Z d1 _ Hd1 Hw1) as (d' & w' & -> & Hd' & Hw' & Hc').
      exists d', w'. repeat split; auto. rewrite Hc', Hc1, app_assoc. reflexivity.
  Qed.

  Ltac record_step d t Hd :=
    do 13 (destruct d as [|? d]; [discriminate Hd|]); destruct d; [|discriminate Hd];
    destruct t as [[[[a1 a2] a3] [[b1 b2] b3]] [[c1 c2] c3]].

  (* SaveSTL: header with uint32(len(mesh)), then every record, then Flush: the file is [save] *)
  Lemma SaveSTL_eq path mesh w : fw_open_err w = None ->
    exists w', SaveSTL_m path mesh w = Val w' None /\ fw_disk w' = save nrm mesh /\ fw_buf w' = [].
  Proof.
    intros Ho. unfold SaveSTL_m, gen_SaveSTL, GoSem.os_Create. rewrite Ho. cbn [err_nonnil].
    set (w0 := {| fw_disk := []; fw_pos := 0; fw_buf := []; fw_open_err := None |}).
    assert (Hw0 : wf w0) by reflexivity.
    unfold GoSem.binary_Write_bufio at 1.
    rewrite header_bytes by (rewrite set_slot_length; reflexivity).
    change (zero_slots STLHeader_layout) with (repeat 0 81). rewrite nth_set_slot_last, count_word.
    destruct (bufio_Write_ok cap (encode_header (nlen mesh mod 2 ^ 32)) w0 Hw0) as (He & Hw1 & Hc1).
    destruct (GoSem.bufio_Write cap (encode_header (nlen mesh mod 2 ^ 32)) w0) as [e1 w1].
    cbn [fst snd] in He, Hw1, Hc1. subst e1. cbn [err_nonnil].
    match goal with |- context [range_loop ?b 0%Z mesh _] => set (body := b) end.
    destruct (save_loop body) with (ts := mesh) (i := 0%Z) (d := zero_slots STLTriangle_layout) (w := w1)
      as (d' & w' & El & _ & Hw' & Hc'); [|reflexivity|exact Hw1|
      match goal with |- context [range_loop ?b 0%Z mesh ?s] => set (loop := range_loop b 0%Z mesh s) end;
      assert (El' : loop = Next (d', w')) by exact El; rewrite El'; clear El' loop].
    { intros i t d w2 Hd.
      destruct (record_bytes t d Hd _ eq_refl) as [Hl Hb].
      exists (tri_words nrm t ++ skipn 12 d). split; [exact Hl|].
      unfold body, GoSem.binary_Write_bufio.
      match goal with |- context [encode_struct LittleEndian STLTriangle_layout ?x] =>
        replace x with (tri_words nrm t ++ skipn 12 d) by (record_step d t Hd; reflexivity) end.
      rewrite Hb.
      destruct (GoSem.bufio_Write cap (encode_triangle nrm t) w2) as [e w3] eqn:E.
      assert (e = None) as ->.
      { unfold GoSem.bufio_Write, GoSem.file_Write in E. destruct (_ <=? cap)%nat; inversion E; reflexivity. }
      reflexivity. }
    destruct (bufio_Flush_ok w' Hw') as (He & _ & Hd' & Hb').
    destruct (GoSem.bufio_Flush w') as [e2 w2]. cbn [fst snd] in He, Hd', Hb'. subst e2.
    exists w2. split; [reflexivity|]. split; [|exact Hb'].
    rewrite Hd', Hc', Hc1. reflexivity.
  Qed.

  (* ---- writeSTL (the goroutine behind render.ToSTL); the channel delivers [batches] *)
  Definition writeSTL_m :=
    gen_writeSTL spec_float word fw fz fadd fsub fmul fdiv fsqrt narrow32 (fun n : N => n)
      GoSem.os_Create GoSem.file_Seek GoSem.binary_Write_file (GoSem.binary_Write_bufio cap) GoSem.bufio_Flush.

  Definition count_after {A} (c : Z) (ts : list A) : Z := fold_left (fun c _ => wrapu 32 (c + 1)) ts c.

  Lemma count_after_mod {A} (ts : list A) : forall c, (0 <= c < 2 ^ 32)%Z ->
    count_after c ts = ((c + zlen ts) mod 2 ^ 32)%Z.
  Proof.
    induction ts as [|t ts IH]; intros c Hc; unfold count_after; cbn [fold_left].
    - unfold zlen. cbn [length Z.of_nat]. rewrite Z.add_0_r, Z.mod_small; [reflexivity | exact Hc].
    - fold (count_after (wrapu 32 (c + 1)) ts). rewrite IH by (unfold wrapu; apply Z.mod_pos_bound; reflexivity).
      unfold wrapu. rewrite Z.add_mod_idemp_l by discriminate. f_equal. unfold zlen. cbn [length]. lia.
  Qed.

  Lemma stream_inner {R} (g : Z -> tri -> list N * Z * fw -> ctl (list N * Z * fw) (res R)) :
    (forall i t d c w, length d = 13%nat -> exists d', length d' = 13%nat /\
       g i t (d, c, w) = Next (d', wrapu 32 (c + 1), snd (GoSem.bufio_Write cap (encode_triangle nrm t) w))) ->
    forall ts i d c w, length d = 13%nat -> wf w ->
    exists d' w', range_loop g i ts (d, c, w) = Next (d', count_after c ts, w') /\ length d' = 13%nat /\ wf w' /\
                  content w' = content w ++ flat_map (encode_triangle nrm) ts.
  Proof.
    intros Hg. induction ts as [|t ts IH]; intros i d c w Hd Hw; cbn [range_loop flat_map].
    - exists d, w. rewrite app_nil_r. auto.
    - destruct (Hg i t d c w Hd) as (d1 & Hd1 & ->).
      destruct (bufio_Write_ok cap (encode_triangle nrm t) w Hw) as (_ & Hw1 & Hc1).
      destruct (IH (i + 1)%Z d1 (wrapu 32 (c + 1)) _ Hd1 Hw1) as (d' & w' & -> & Hd' & Hw' & Hc').
      exists d', w'. repeat split; auto. rewrite Hc', Hc1, app_assoc. reflexivity.
  Qed.

  Lemma stream_outer {R} (g : Z -> list tri -> list N * Z * fw -> ctl (list N * Z * fw) (res R)) :
    (forall i ts d c w, length d = 13%nat -> wf w -> exists d' w',
       g i ts (d, c, w) = Next (d', count_after c ts, w') /\ length d' = 13%nat /\ wf w' /\
       content w' = content w ++ flat_map (encode_triangle nrm) ts) ->
    forall bs i d c w, length d = 13%nat -> wf w ->
    exists d' w', range_loop g i bs (d, c, w) = Next (d', count_after c (concat bs), w') /\ wf w' /\
                  content w' = content w ++ flat_map (encode_triangle nrm) (concat bs).
  Proof.
    intros Hg. induction bs as [|b bs IH]; intros i d c w Hd Hw; cbn [range_loop concat].
    - exists d, w. cbn [flat_map]. rewrite app_nil_r. auto.
    - destruct (Hg i b d c w Hd Hw) as (d1 & w1 & -> & Hd1 & Hw1 & Hc1).
      destruct (IH (i + 1)%Z d1 (count_after c b) w1 Hd1 Hw1) as (d' & w' & -> & Hw' & Hc').
      exists d', w'. split; [|split; [exact Hw'|]].
      + unfold count_after. now rewrite fold_left_app.
      + rewrite Hc', Hc1, flat_map_app, app_assoc. reflexivity.
  Qed.

  Lemma bufio_Write_noerr data w : fst (GoSem.bufio_Write cap data w) = None.
  Proof. unfold GoSem.bufio_Write, GoSem.file_Write. destruct (_ <=? cap)%nat; reflexivity. Qed.

  (* writeSTL: empty header, records through the bufio.Writer, Flush, Seek(0,0), header with the
     uint32 counter: the file is [stream_save] = [save] of all triangles received *)
  Lemma writeSTL_eq path batches w : fw_open_err w = None ->
    exists w', writeSTL_m path batches w = Val w' None /\ fw_disk w' = stream_save nrm cap batches.
  Proof.
    intros Ho. unfold writeSTL_m, gen_writeSTL, GoSem.os_Create. rewrite Ho. cbn [err_nonnil].
    set (w0 := {| fw_disk := []; fw_pos := 0; fw_buf := []; fw_open_err := None |}).
    assert (Hw0 : wf w0) by reflexivity.
    unfold GoSem.binary_Write_bufio at 1. rewrite header_bytes by reflexivity.
    change (nth 80 (zero_slots STLHeader_layout) 0) with 0.
    destruct (bufio_Write_ok cap (encode_header 0) w0 Hw0) as (He & Hw1 & Hc1).
    destruct (GoSem.bufio_Write cap (encode_header 0) w0) as [e1 w1].
    cbn [fst snd] in He, Hw1, Hc1. subst e1. cbn [err_nonnil].
    match goal with |- context [range_loop ?b 0%Z batches _] => set (outer := b) end.
    destruct (stream_outer outer) with (bs := batches) (i := 0%Z) (d := zero_slots STLTriangle_layout) (c := 0%Z) (w := w1)
      as (d' & w' & El & Hw' & Hc'); [|reflexivity|exact Hw1|
      match goal with |- context [range_loop ?b 0%Z batches ?s] => set (loop := range_loop b 0%Z batches s) end;
      assert (El' : loop = Next (d', count_after 0 (concat batches), w')) by exact El; rewrite El'; clear El' loop].
    { intros i ts d c w2 Hd Hw2. unfold outer.
      match goal with |- context [range_loop ?b 0%Z ts _] => set (inner := b) end.
      destruct (stream_inner inner) with (ts := ts) (i := 0%Z) (d := d) (c := c) (w := w2)
        as (d2 & w3 & El & Hd2 & Hw3 & Hc3); [|exact Hd|exact Hw2|].
      { intros j t d3 cc w4 Hd3.
        destruct (record_bytes t d3 Hd3 _ eq_refl) as [Hl Hb].
        exists (tri_words nrm t ++ skipn 12 d3). split; [exact Hl|].
        unfold inner, GoSem.binary_Write_bufio.
        match goal with |- context [encode_struct LittleEndian STLTriangle_layout ?x] =>
          replace x with (tri_words nrm t ++ skipn 12 d3) by (record_step d3 t Hd3; reflexivity) end.
        rewrite Hb. pose proof (bufio_Write_noerr (encode_triangle nrm t) w4) as E.
        destruct (GoSem.bufio_Write cap (encode_triangle nrm t) w4) as [e w5]. cbn [fst] in E. subst e. reflexivity. }
      exists d2, w3.
      match goal with |- context [range_loop ?b 0%Z ts ?s] => set (loop := range_loop b 0%Z ts s) end.
      assert (El' : loop = Next (d2, count_after c ts, w3)) by exact El. rewrite El'. auto. }
    destruct (bufio_Flush_ok w' Hw') as (He & Hw2 & Hd2 & Hb2).
    destruct (GoSem.bufio_Flush w') as [e2 w2]. cbn [fst snd] in He, Hw2, Hd2, Hb2. subst e2.
    unfold GoSem.file_Seek. cbn [Z.ltb Z.compare err_nonnil Z.to_nat].
    unfold GoSem.binary_Write_file. rewrite header_bytes by (rewrite set_slot_length; reflexivity).
    change (zero_slots STLHeader_layout) with (repeat 0 81). rewrite nth_set_slot_last.
    unfold GoSem.file_Write. cbn [fw_at fw_pos fw_disk err_nonnil firstn app Nat.add].
    eexists. split; [reflexivity|]. cbn [fw_disk].
    rewrite stream_eq_batch. unfold save.
    rewrite count_after_mod by (split; [lia | reflexivity]). rewrite Z.add_0_l.
    fold (wrapu 32 (zlen (concat batches))). rewrite count_word.
    rewrite Hd2, Hc', Hc1. cbn [content w0 fw_disk fw_buf app].
    rewrite header_length, <- (header_length 0), skipn_exact. reflexivity.
  Qed.
End Writers.

(* ---- the binary64 instance: float64 operations of Go = PrimFloat operations on the values *)
Definition sf2 (op : float -> float -> float) (x y : spec_float) : spec_float := Prim2SF (op (SF2Prim x) (SF2Prim y)).
Definition sf_ops : ops spec_float :=
  {| o_sub := sf2 PrimFloat.sub; o_add := sf2 PrimFloat.add; o_mul := sf2 PrimFloat.mul; o_div := sf2 PrimFloat.div;
     o_sqrt := fun x => Prim2SF (PrimFloat.sqrt (SF2Prim x)); o_one := Prim2SF 1%float |}.
Definition nrm_f : tri -> vec :=
  nrm (fz_ops sf_ops) (o_add sf_ops) (o_sub sf_ops) (o_mul sf_ops) (o_div sf_ops) (o_sqrt sf_ops).

(* the generated Normal at binary64 is the model's normal_f (FloatAxioms.SF2Prim_Prim2SF:
   converting a primitive float to its (mantissa, exponent) form and back is the identity) *)
Lemma nrm_f_eq t : nrm_f t = normal_f t.
Proof.
  unfold nrm_f, nrm. rewrite Normal_eq.
  destruct t as [[[[ax ay] az] [[bx by_] bz]] [[cx cy] cz]].
  unfold normal_f, normal_g, normalize3, cross3, sub3, dot3, scale3, vec_prim, vec_sf.
  cbn [sf_ops float_ops o_sub o_add o_mul o_div o_sqrt o_one]. unfold sf2.
  rewrite !FloatAxioms.SF2Prim_Prim2SF. reflexivity.
Qed.

Lemma save_ext n1 n2 ts : (forall t, n1 t = n2 t) -> save n1 ts = save n2 ts.
Proof.
  intros H. unfold save. f_equal. apply flat_map_ext. intros t. unfold encode_triangle, tri_words.
  destruct t as [[a b] c]. now rewrite H.
Qed.

Lemma SaveSTL_f_eq path mesh w : fw_open_err w = None ->
  exists w', SaveSTL_m (fz_ops sf_ops) (o_add sf_ops) (o_sub sf_ops) (o_mul sf_ops) (o_div sf_ops) (o_sqrt sf_ops) path mesh w
             = Val w' None /\ fw_disk w' = save_f mesh.
Proof.
  intros Ho. destruct (SaveSTL_eq (fz_ops sf_ops) (o_add sf_ops) (o_sub sf_ops) (o_mul sf_ops) (o_div sf_ops) (o_sqrt sf_ops) path mesh w Ho)
    as (w' & E & Hd & _).
  exists w'. split; [exact E|]. rewrite Hd. apply save_ext, nrm_f_eq.
Qed.

Lemma writeSTL_f_eq path batches w : fw_open_err w = None ->
  exists w', writeSTL_m (fz_ops sf_ops) (o_add sf_ops) (o_sub sf_ops) (o_mul sf_ops) (o_div sf_ops) (o_sqrt sf_ops) path batches w
             = Val w' None /\ fw_disk w' = stream_save_f batches.
Proof.
  intros Ho. destruct (writeSTL_eq (fz_ops sf_ops) (o_add sf_ops) (o_sub sf_ops) (o_mul sf_ops) (o_div sf_ops) (o_sqrt sf_ops) path batches w Ho)
    as (w' & E & Hd).
  exists w'. split; [exact E|]. rewrite Hd. unfold stream_save_f. rewrite !stream_eq_batch. apply save_ext, nrm_f_eq.
Qed.

Lemma LoadSTL_total scan Fields pf fz path w : fw_open_err w = None -> bytes_ok (fw_disk w) ->
  outcome_of (LoadSTL_m scan Fields pf fz path w) <> StlLoad.Panic.
Proof. intros Ho Hb. rewrite LoadSTL_eq by assumption. apply load_total. Qed.
