(* The syntactic tie for the file formats: every definition of Generated/IoExpr.v
   (re-translated by harness/iogen from the Go AST of render/stl.go on every run)
   is instantiated with the models of the Go library functions it calls
   (Io/GoSem.v: os, bufio, encoding/binary on one file; Io/F32.v: the float32
   conversions; oracles for bufio.Scanner, strings.Fields, strconv.ParseFloat) and
   proved equal, for all inputs, to the hand-written model of Io/Stl.v and
   Io/StlLoad.v that the theorems of C13 and C14 are about.

   A semantic edit of the Go source (field order or width of STLHeader /
   STLTriangle, BigEndian, another size formula or threshold in LoadSTL, another test
   on the vertex lines, a dropped rewind, another float conversion or vertex order in
   the writers) changes what the generated term computes and breaks the lemma named
   after the function.

   Behaviour-preserving rewrites of the source must NOT break a lemma.  Three devices:
   * the translator emits normal forms (harness/iogen/loops.go: index loops = range loops,
     X[i] inside `for i := range X` is the element, small constant loops are unrolled,
     `if !c` is `if c` with the branches swapped, switch = if-chain, ...);
   * every definition is instantiated BY NAME ([by_name], Io/GoSem.v): the Section variables
     a generated definition is abstracted over depend on which library calls the current
     spelling uses; the models are posed under the variables' names and applied to whatever
     binders the definition has; `Proof using` pins the parameters of the _m definitions the
     theorems of Props/ mention;
   * the proofs do not match on the shape of the generated term: helper functions the
     translator finds (hint database iogen_helpers) and lets are unfolded first; a loop is
     characterised by an invariant ([range_loop_inv], [for_upto_inv01]) over the components
     of its state that are found BY TYPE ([proj_of]), whatever other variables the state
     carries (an err declared outside the loop, a record declared inside or outside); the
     one-iteration obligations and the straight-line parts are discharged by running the body
     on the cases of its inputs ([simpl_errs], [decide_zlen], [wraps_away], [explode_records]),
     so nesting and order of tests, early returns, `continue`, append vs make+index, helper
     extraction and named constants do not matter. *)
From Coq Require Import ZArith NArith List Lia Bool Floats.
From Coq Require String.
From Sdfx Require Import Io.F32 Io.Stl Io.StlLoad Io.GoSem Generated.IoExpr.
Import ListNotations.
Import String.StringSyntax.
Open Scope N_scope.

(* ------------------------------------------------------------------ general *)

Lemma le_bytes_le k n : le_bytes k n = le k n.
Proof. revert n; induction k as [|k IH]; intros n; cbn [le_bytes le]; [reflexivity | now rewrite IH]. Qed.

Lemma unle_bytes_unle bs : unle_bytes bs = unle bs.
Proof. induction bs as [|b r IH]; cbn [unle_bytes unle]; [reflexivity | now rewrite IH]. Qed.

(* a loop body that reads l[i] while ranging over l sees the element *)
Lemma range_loop_ext {A St R} (f g : Z -> A -> St -> ctl St R) (l : list A) :
  forall pre i s, i = zlen pre ->
  (forall k x s', nth_error (pre ++ l) k = Some x -> (length pre <= k)%nat ->
                  f (Z.of_nat k) x s' = g (Z.of_nat k) x s') ->
  range_loop f i l s = range_loop g i l s.
Proof.
  induction l as [|x l IH]; intros pre i s Hi H; cbn [range_loop]; [reflexivity|].
  subst i. unfold zlen.
  rewrite (H (length pre) x s).
  - destruct (g _ x s) as [s'|v]; [|reflexivity].
    apply (IH (pre ++ [x])).
    + unfold zlen. rewrite app_length. cbn [length]. lia.
    + intros k y s'' Hk Hle. apply H; [now rewrite <- app_assoc in Hk|].
      rewrite app_length in Hle. cbn [length] in Hle. lia.
  - rewrite nth_error_app2 by lia. now rewrite Nat.sub_diag.
  - lia.
Qed.

Lemma idx_app_r {A} (pre l : list A) k : (length pre <= k)%nat ->
  idx (pre ++ l) (Z.of_nat k) = nth_error l (k - length pre).
Proof. intros H. rewrite idx_nat. now apply nth_error_app2. Qed.

(* ------------------------------------------------------------------ (1) the byte layout *)

(* sizes: 80 + 4 and 12 * 4 + 2 *)
Lemma STLHeader_size : layout_size STLHeader_layout = 84%nat.
Proof. reflexivity. Qed.
Lemma STLTriangle_size : layout_size STLTriangle_layout = 50%nat.
Proof. reflexivity. Qed.
Lemma STLHeader_slots : layout_slots STLHeader_layout = 81%nat.
Proof. reflexivity. Qed.
Lemma STLTriangle_slots : layout_slots STLTriangle_layout = 13%nat.
Proof. reflexivity. Qed.

Lemma skipn_set_slot_ge d : forall i v n, (i < n)%nat -> skipn n (set_slot d i v) = skipn n d.
Proof.
  induction d as [|x d IH]; intros i v n H; [destruct i; reflexivity|].
  destruct i as [|i]; destruct n as [|n]; try lia; cbn [set_slot skipn]; [reflexivity|].
  apply IH. lia.
Qed.

Lemma set_slot_repeat_last n v : set_slot (repeat 0 (S n)) n v = repeat 0 n ++ [v].
Proof. induction n as [|n IH]; [reflexivity|]. cbn [repeat set_slot app] in *. now rewrite IH. Qed.

(* binary.Write(LittleEndian, &STLHeader{Count: c}) = 80 zero bytes, then c as 4 bytes LE *)
Lemma header_bytes d : length d = 81%nat ->
  encode_struct LittleEndian STLHeader_layout d = encode_header (nth 80 d 0).
Proof.
  intros H. unfold STLHeader_layout, encode_header.
  cbn [encode_struct f_blank f_ty f_count field_size scalar_size Nat.mul Nat.add].
  rewrite app_nil_r. f_equal.
  assert (E : skipn 80 d = [nth 80 d 0]).
  { do 81 (destruct d as [|? d]; [discriminate H|]). destruct d; [reflexivity | discriminate H]. }
  rewrite E. cbn [firstn flat_map put]. rewrite app_nil_r. apply le_bytes_le.
Qed.

(* binary.Write(LittleEndian, &STLTriangle): the 12 float32 slots, then two zero bytes *)
Lemma triangle_bytes (ws : list word) x : length ws = 12%nat ->
  encode_struct LittleEndian STLTriangle_layout (ws ++ [x]) = encode_words ws ++ le 2 0.
Proof.
  intros H. do 12 (destruct ws as [|? ws]; [discriminate H|]). destruct ws; [|discriminate H].
  unfold STLTriangle_layout, encode_words.
  cbn [encode_struct f_blank f_ty f_count field_size scalar_size Nat.mul Nat.add app firstn skipn flat_map put repeat].
  rewrite !le_bytes_le, !app_nil_r, <- !app_assoc. reflexivity.
Qed.

(* binary.Read(LittleEndian, &STLHeader): slot 80 is the little-endian word at offset 80 *)
Lemma header_decode cur bs : length cur = 81%nat ->
  slot (decode_struct LittleEndian STLHeader_layout cur bs) 80 = unle (firstn 4 (skipn 80 bs)).
Proof.
  intros H. unfold STLHeader_layout.
  cbn [decode_struct f_blank f_ty f_count field_size scalar_size Nat.mul Nat.add chunks map get].
  unfold slot. rewrite app_nth2; rewrite firstn_length, H; [|cbn; lia].
  cbn [Nat.min Nat.sub app nth]. apply unle_bytes_unle.
Qed.

(* ------------------------------------------------------------------ (2) the loaders *)

Definition outcome_of {W} (r : res (list tri * W)) : outcome :=
  match r with
  | GoSem.Panic => StlLoad.Panic
  | Val (m, _) None => Mesh m
  | Val _ (Some _) => Err
  end.

(* the models of os / bufio / encoding/binary (Io/GoSem.v) and of the float32 conversions
   (Io/F32.v), under the names of the Section variables of Generated/IoExpr.v *)
Ltac pose_stl_io :=
  pose (F64 := spec_float); pose (F32 := word); pose (World := fw); pose (FileInfo := Z);
  pose (to64 := widen32); pose (to32 := narrow32);
  pose (unbits32 := fun n : N => n); pose (bits32 := fun n : N => n);
  pose (os_Open := GoSem.os_Open); pose (os_Create := GoSem.os_Create); pose (file_Stat := GoSem.file_Stat);
  pose (file_Seek := GoSem.file_Seek); pose (file_Close := GoSem.file_Close);
  pose (FileInfo_Size := GoSem.FileInfo_Size); pose (binary_Read := GoSem.binary_Read);
  pose (binary_Write_file := GoSem.binary_Write_file);
  pose (binary_Write_bufio := GoSem.binary_Write_bufio bufio_default_size);
  pose (bufio_Flush := GoSem.bufio_Flush).

Section Loaders.
  (* oracles: what bufio.Scanner delivers for a byte string (tokens, final error), strings.Fields,
     strconv.ParseFloat(s, 64); fz is the value of an integer literal of type float64 *)
  Variable scan : list byte -> list string * error.
  Variable Fields : string -> list string.
  Variable pf : string -> option spec_float.
  Variable fz : Z -> spec_float.

  Definition pf_err : error := new_error 1000.
  (* strconv.ParseFloat(s, bitSize): the oracle speaks about bitSize 64 only *)
  Definition ParseFloat (s : string) (bits : Z) : spec_float * error :=
    if (bits =? 64)%Z then
      match pf s with Some x => (x, None) | None => (fz 0%Z, pf_err) end
    else (fz 0%Z, new_error 1001).

  Definition parseFloats_m : list string -> res (list spec_float).
  Proof using pf fz. by_name ltac:(pose_stl_io; pose (strconv_ParseFloat := ParseFloat)) gen_parseFloats. Defined.

  Lemma upd_nat_app {A} (done : list A) z zs v :
    upd_nat (done ++ z :: zs) (length done) v = Some (done ++ v :: zs).
  Proof. induction done as [|d done IH]; cbn [app length upd_nat]; [reflexivity | now rewrite IH]. Qed.

  Lemma parse_floats_snoc l x :
    parse_floats pf (l ++ [x]) =
    match parse_floats pf l with
    | None => None
    | Some o => match pf x with None => None | Some v => Some (o ++ [v]) end
    end.
  Proof.
    induction l as [|y l IH]; cbn [app parse_floats].
    - destruct (pf x); reflexivity.
    - destruct (pf y); [|reflexivity]. rewrite IH. destruct (parse_floats pf l); [|reflexivity].
      destruct (pf x); reflexivity.
  Qed.

  Lemma parse_floats_fail l k x : nth_error l k = Some x -> pf x = None -> parse_floats pf l = None.
  Proof.
    revert k; induction l as [|y l IH]; intros [|k] Hn Hx; cbn [nth_error] in Hn; try discriminate; cbn [parse_floats].
    - inversion Hn. subst. now rewrite Hx.
    - destruct (pf y); [|reflexivity]. now rewrite (IH k Hn Hx).
  Qed.

  (* parseFloats = parse_floats of the model.  The loop is characterised by an invariant on the
     output slice, so the proof does not depend on how the slice is built: allocated with
     make([]float64, len(in)) and filled by index, or grown with append from an empty one; the
     elements read through the range value or as in[i]. *)
  Lemma parseFloats_eq l :
    parseFloats_m l = match parse_floats pf l with Some o => Val o None | None => Val [] pf_err end.
  Proof.
    unfold parseFloats_m, gen_parseFloats. autounfold with iogen_helpers. cbv zeta.
    (* the initial slice *)
    try (unfold make_slice; destruct (Z.ltb_spec (zlen l) 0) as [H|_]; [pose proof (zlen_nonneg l); lia|];
         unfold zlen at 1; rewrite Nat2Z.id).
    match goal with |- context [range_loop ?b 0%Z l ?s0] =>
      pose proof (range_loop_inv b
        (fun k out => exists o, parse_floats pf (firstn k l) = Some o /\ firstn k out = o /\
                                ((length s0 = length l /\ length out = length l) \/ (length s0 = 0%nat /\ length out = k)))
        (fun r => parse_floats pf l = None /\ r = Val [] pf_err) l) as L;
      cbv beta in L; specialize (fun Hstep Hinit => L Hstep s0 Hinit)
    end.
    match type of L with ?Pstep -> ?Pinit -> _ => assert (Hstep : Pstep); [|assert (Hinit : Pinit); [|specialize (L Hstep Hinit)]] end.
    - intros k x out Hk (o & Ho & Hf & Hlen).
      pose proof (nth_error_lt _ _ _ Hk) as Hlt.
      unfold ParseFloat. cbn [Z.eqb Pos.eqb].
      destruct (pf x) as [v|] eqn:Ex; cbn [err_nonnil pf_err new_error].
      + assert (Hn : parse_floats pf (firstn (S k) l) = Some (o ++ [v]))
          by (rewrite (nth_error_firstn_S _ _ _ Hk), parse_floats_snoc, Ho, Ex; reflexivity).
        destruct Hlen as [[H0 Hl]|[H0 Hl]].
        * (* the slice has its final length: filled by index *)
          try (rewrite upd_ok by lia).
          first [ eexists; split; [exact Hn|]; split;
                  [ rewrite firstn_snoc_exact by (rewrite firstn_length; lia); now rewrite Hf
                  | left; split; [exact H0|]; rewrite app_length; cbn [length]; rewrite firstn_length, skipn_length; lia ]
                | exfalso; cbn [length] in H0; lia ].
        * (* the slice starts empty: grown by append *)
          first [ exfalso; rewrite repeat_length in H0; lia
                | eexists; split; [exact Hn|]; split;
                  [ rewrite firstn_all2 by (rewrite app_length; cbn [length]; lia); rewrite <- Hf, <- Hl, firstn_all; reflexivity
                  | right; split; [exact H0|]; rewrite app_length; cbn [length]; lia ] ].
      + split; [exact (parse_floats_fail _ _ _ Hk Ex) | reflexivity].
    - exists []. cbn [firstn parse_floats]. repeat split.
      first [ left; split; apply repeat_length | right; split; reflexivity ].
    - destruct_loop L out r.
      + destruct L as (o & Ho & Hf & Hlen). rewrite firstn_all in Ho. rewrite Ho. f_equal.
        destruct Hlen as [[_ Hl]|[_ Hl]]; rewrite <- Hf, <- Hl, firstn_all; reflexivity.
      + destruct L as [-> ->]. reflexivity.
  Qed.

  (* ---- loadSTLAscii *)
  Definition scan_w (w : fw) : list string * error := scan (fw_rest w).
  Ltac pose_loaders :=
    pose_stl_io; pose (bufio_scan := scan_w); pose (strings_Fields := Fields); pose (strconv_ParseFloat := ParseFloat).
  Definition loadSTLAscii_m : fw -> res (list tri * fw).
  Proof using scan Fields pf fz. by_name ltac:(pose_loaders) gen_loadSTLAscii. Defined.
  (* the file as the model sees it: bytes, the scanner's tokens split into fields, scanner error *)
  Definition file_at (w : fw) : file :=
    {| f_bytes := fw_disk w; f_lines := map Fields (fst (scan_w w)); f_scan_err := err_nonnil (snd (scan_w w)) |}.

  Lemma zlen_eqb {A} (l : list A) n : (zlen l =? Z.of_nat n)%Z = (length l =? n)%nat.
  Proof. unfold zlen. destruct (Nat.eqb_spec (length l) n) as [->|H]; [apply Z.eqb_refl | apply Z.eqb_neq; lia]. Qed.

  Lemma rem3 {A} (l : list A) : (Z.rem (zlen l) 3 =? 0)%Z = (length l mod 3 =? 0)%nat.
  Proof.
    unfold zlen. rewrite Z.rem_mod_nonneg by lia.
    change 3%Z with (Z.of_nat 3). rewrite <- Nat2Z.inj_mod. change 0%Z with (Z.of_nat 0).
    destruct (Nat.eqb_spec (length l mod 3) 0) as [->|H]; [apply Z.eqb_refl | apply Z.eqb_neq; lia].
  Qed.

  Lemma scan_loop (w : fw) (g : Z -> string -> list vec -> ctl (list vec) (res (list tri * fw))) :
    (forall i line v, g i line v =
       if is_vertex_line (Fields line) then
         match parse_floats pf (tl (Fields line)) with
         | None => Return (Val ([], w) pf_err)
         | Some f =>
           match nth_error f 0, nth_error f 1, nth_error f 2 with
           | Some x, Some y, Some z => Next (v ++ [(x, y, z)])
           | _, _, _ => Return GoSem.Panic
           end
         end
       else Next v) ->
    forall lines i v,
    range_loop g i lines v =
    match scan_lines pf (map Fields lines) v with
    | SOk v' => Next v'
    | SErr => Return (Val ([], w) pf_err)
    | SPanic => Return GoSem.Panic
    end.
  Proof.
    intros Hg. induction lines as [|line lines IH]; intros i v; cbn [range_loop map scan_lines]; [reflexivity|].
    rewrite Hg. destruct (is_vertex_line (Fields line)); [|apply IH].
    destruct (parse_floats pf (tl (Fields line))) as [f|]; [|reflexivity].
    destruct (nth_error f 0) as [x|]; [|reflexivity].
    destruct (nth_error f 1) as [y|]; [|reflexivity].
    destruct (nth_error f 2) as [z|]; [|reflexivity].
    apply IH.
  Qed.

  Lemma group_loop (v : list vec) {R} (g : Z -> list tri -> ctl (list tri) (res R)) :
    (forall i mesh, g (Z.of_nat i) mesh =
       match nth_error v i, nth_error v (i + 1), nth_error v (i + 2) with
       | Some a, Some b, Some c => Next (mesh ++ [(a, b, c)])
       | _, _, _ => Return GoSem.Panic
       end) ->
    forall fuelf fuelg i mesh, (length v - i < fuelg)%nat -> (length v - i <= fuelf)%nat ->
    for_step fuelf (zlen v) 3 g (Z.of_nat i) mesh =
    match group fuelg i v mesh with GOk m => Next m | GPanic => Return GoSem.Panic end.
  Proof.
    intros Hg. induction fuelf as [|f IH]; intros fuelg i mesh Hfg Hff.
    - cbn [for_step]. unfold zlen. destruct (Z.ltb_spec (Z.of_nat i) (Z.of_nat (length v))); [lia|].
      destruct fuelg; cbn [group]; (destruct (Nat.ltb_spec i (length v)); [lia | reflexivity]).
    - cbn [for_step]. unfold zlen. destruct (Z.ltb_spec (Z.of_nat i) (Z.of_nat (length v))) as [Hlt|Hge].
      + destruct fuelg as [|fg]; [lia|]. cbn [group].
        destruct (Nat.ltb_spec i (length v)); [|lia].
        rewrite Hg.
        destruct (nth_error v i) as [a|]; [|reflexivity].
        destruct (nth_error v (i + 1)) as [b|]; [|reflexivity].
        destruct (nth_error v (i + 2)) as [c|]; [|reflexivity].
        replace (Z.of_nat i + 3)%Z with (Z.of_nat (i + 3)) by lia.
        fold (zlen v). apply IH; lia.
      + destruct fuelg; cbn [group]; (destruct (Nat.ltb_spec i (length v)); [lia | reflexivity]).
  Qed.

  (* comparisons of a length with a literal, decided once the list is a cons-list with a known prefix *)
  Ltac decide_zlen :=
    repeat match goal with
           | |- context [(zlen ?l =? ?n)%Z] =>
             let H := fresh in destruct (Z.eqb_spec (zlen l) n) as [H|H]; unfold zlen in H; cbn [length] in H; try (exfalso; lia); clear H
           | |- context [(?n =? zlen ?l)%Z] =>
             let H := fresh in destruct (Z.eqb_spec n (zlen l)) as [H|H]; unfold zlen in H; cbn [length] in H; try (exfalso; lia); clear H
           | |- context [(zlen ?l <? ?n)%Z] =>
             let H := fresh in destruct (Z.ltb_spec (zlen l) n) as [H|H]; unfold zlen in H; cbn [length] in H; try (exfalso; lia); clear H
           | |- context [(?n <? zlen ?l)%Z] =>
             let H := fresh in destruct (Z.ltb_spec n (zlen l)) as [H|H]; unfold zlen in H; cbn [length] in H; try (exfalso; lia); clear H
           | |- context [(zlen ?l <=? ?n)%Z] =>
             let H := fresh in destruct (Z.leb_spec (zlen l) n) as [H|H]; unfold zlen in H; cbn [length] in H; try (exfalso; lia); clear H
           | |- context [(?n <=? zlen ?l)%Z] =>
             let H := fresh in destruct (Z.leb_spec n (zlen l)) as [H|H]; unfold zlen in H; cbn [length] in H; try (exfalso; lia); clear H
           end.

  (* list operations on lists with a known prefix; calls of translated functions stay folded *)
  Ltac go_cbn :=
    cbn [obind idx slice_from upd upd_nat Z.ltb Z.leb Z.eqb Z.compare Pos.compare Pos.compare_cont Pos.eqb
         zlen Z.of_nat Pos.of_succ_nat Pos.succ Z.to_nat Nat.add Nat.eqb nth_error tl skipn firstn length app
         andb orb negb err_nonnil err_eqb goerr_eqb fst snd];
    change (Pos.to_nat 1) with 1%nat; change (Pos.to_nat 2) with 2%nat; change (Pos.to_nat 3) with 3%nat;
    change (Pos.to_nat 4) with 4%nat;
    cbn [nth_error skipn firstn tl].

  (* loadSTLAscii = load_ascii of the model (repaired version), for every file and every oracle.
     The per-line step is checked by running the generated body on every shape of the field list
     (0 .. 4 fields, more), so the test on the line may be spelled and ordered in any way
     (nested ifs, `continue`, != instead of ==); likewise the grouping loop. *)
  Lemma loadSTLAscii_eq w : outcome_of (loadSTLAscii_m w) = load_ascii pf Repaired (file_at w).
  Proof.
    unfold loadSTLAscii_m, gen_loadSTLAscii, load_ascii, file_at. autounfold with iogen_helpers. cbv zeta.
    cbn [f_lines f_scan_err]. unfold tri, vec.
    pose proof parseFloats_eq as PF. unfold parseFloats_m in PF.
    match goal with |- context [range_loop ?b 0%Z (fst (scan_w w)) []] => set (body := b) end.
    rewrite (scan_loop w body).
    2:{ intros i line v. unfold body, is_vertex_line.
        destruct (Fields line) as [|f0 [|f1 [|f2 [|f3 [|f4 r]]]]]; decide_zlen; go_cbn;
          rewrite ?(String.eqb_sym "vertex"); try reflexivity;
          try (destruct (String.eqb f0 "vertex"); go_cbn; try reflexivity);
          rewrite ?PF;
          try (destruct (parse_floats pf [f1; f2; f3]) as [f|]; go_cbn; [|reflexivity];
               destruct f as [|a [|b [|c f']]]; go_cbn; reflexivity). }
    unfold tri, vec.
    match goal with |- context [scan_lines pf ?l ?n] => destruct (scan_lines pf l n) as [| |v] end; [reflexivity | reflexivity |].
    rewrite ?(Z.eqb_sym 0%Z). rewrite rem3. unfold tri, vec. destruct (_ mod 3 =? 0)%nat; cbn [negb]; [|reflexivity].
    unfold for_upto. rewrite Z.sub_0_r.
    match goal with |- context [for_step _ _ _ ?b _ _] => set (gbody := b) end.
    change 0%Z with (Z.of_nat 0).
    rewrite (group_loop v gbody) with (fuelg := S (length v)); [| |lia|unfold zlen; rewrite Nat2Z.id, Nat.sub_0_r; apply Nat.le_refl].
    2:{ intros i mesh. unfold gbody.
        repeat match goal with
               | |- context [idx v ?e] =>
                 lazymatch e with Z.of_nat _ => fail | _ => idtac end;
                 first [ replace e with (Z.of_nat i) by lia
                       | replace e with (Z.of_nat (i + 1)) by lia
                       | replace e with (Z.of_nat (i + 2)) by lia ]
               end.
        rewrite !idx_nat. unfold tri, vec in *.
        destruct (nth_error v i); [|reflexivity]. destruct (nth_error v (i + 1)); [|reflexivity].
        destruct (nth_error v (i + 2)); reflexivity. }
    unfold tri, vec.
    match goal with |- context [group ?a ?b ?c ?d] => destruct (group a b c d) end; [reflexivity|].
    cbn [outcome_of]. destruct (snd (scan_w w)); reflexivity.
  Qed.

  (* ---- loadSTLBinary *)
  Definition loadSTLBinary_m : fw -> res (list tri * fw).
  Proof using fz. by_name ltac:(pose_stl_io) gen_loadSTLBinary. Defined.

  (* decode_tris without fuel *)
  Fixpoint dec (n : nat) (data : list byte) : option (list tri) :=
    match n with
    | O => Some []
    | S n' =>
      match take 50 data with
      | None => None
      | Some (rec, rest) =>
        match dec n' rest with
        | Some r => Some (decode_triangle rec :: r)
        | None => None
        end
      end
    end.

  Lemma decode_tris_dec n : forall fuel data, (length data <= fuel)%nat ->
    decode_tris fuel (N.of_nat n) data = dec n data.
  Proof.
    induction n as [|n IH]; intros fuel data Hf.
    - destruct fuel; reflexivity.
    - destruct fuel as [|f]; cbn [decode_tris dec].
      + destruct data; [reflexivity | cbn [length] in Hf; lia].
      + replace (N.of_nat (S n) =? 0) with false by (symmetry; apply N.eqb_neq; lia).
        destruct (take 50 data) as [[rec rest]|] eqn:Et; [|reflexivity].
        replace (N.of_nat (S n) - 1) with (N.of_nat n) by lia.
        rewrite IH; [reflexivity|].
        apply take_length in Et as [-> Hl]. rewrite app_length in Hf. lia.
  Qed.

  Lemma take_split n (l : list byte) : (n <= length l)%nat -> take n l = Some (firstn n l, skipn n l).
  Proof.
    intros H. rewrite <- (firstn_skipn n l) at 1.
    rewrite <- (firstn_length_le l H) at 1. apply take_app.
  Qed.

  Definition tri_of_slots (d : list N) : tri :=
    ((widen32 (slot d 3), widen32 (slot d 4), widen32 (slot d 5)),
     (widen32 (slot d 6), widen32 (slot d 7), widen32 (slot d 8)),
     (widen32 (slot d 9), widen32 (slot d 10), widen32 (slot d 11))).

  (* binary.Read(LittleEndian, &STLTriangle) followed by the three float64(d.VertexK[i]) = decode_triangle *)
  Lemma triangle_decode cur bs : (50 <= length bs)%nat ->
    tri_of_slots (decode_struct LittleEndian STLTriangle_layout cur bs) = decode_triangle (firstn 50 bs).
  Proof.
    intros H. do 50 (destruct bs as [|? bs]; [cbn [length] in H; lia|]).
    unfold tri_of_slots, decode_triangle, STLTriangle_layout.
    cbn [decode_struct f_blank f_ty f_count field_size scalar_size Nat.mul Nat.add chunks map get firstn skipn app slot nth words_of].
    rewrite !unle_bytes_unle. reflexivity.
  Qed.

  Lemma skipn_add {A} (l : list A) : forall m n, skipn (m + n) l = skipn n (skipn m l).
  Proof. induction l as [|x l IH]; intros [|m] n; cbn [skipn Nat.add]; try reflexivity; [now destruct n | apply IH]. Qed.

  Lemma fw_rest_at w n : fw_rest (fw_at w (fw_pos w + n)) = skipn n (fw_rest w).
  Proof. unfold fw_rest, fw_at. cbn [fw_disk fw_pos]. apply skipn_add. Qed.

  Lemma dec_unfold m data : dec (S m) data =
    match take 50 data with
    | None => None
    | Some (rec, rest) => match dec m rest with Some r => Some (decode_triangle rec :: r) | None => None end
    end.
  Proof. reflexivity. Qed.

  (* one more record *)
  Lemma dec_S n : forall data, dec (S n) data =
    match dec n data with
    | None => None
    | Some ts => match take 50 (skipn (50 * n) data) with
                 | None => None
                 | Some (rec, _) => Some (ts ++ [decode_triangle rec])
                 end
    end.
  Proof.
    induction n as [|n IH]; intros data.
    - rewrite Nat.mul_0_r. cbn [dec skipn app]. destruct (take 50 data) as [[rec rest]|]; reflexivity.
    - rewrite (dec_unfold (S n)), (dec_unfold n).
      destruct (take 50 data) as [[rec rest]|] eqn:Et; [|reflexivity].
      rewrite IH. apply take_length in Et as [-> Hl].
      replace (50 * S n)%nat with (50 + 50 * n)%nat by lia. rewrite skipn_add.
      match goal with |- context [@skipn ?T 50 (rec ++ rest)] =>
        assert (Es : @skipn T 50 (rec ++ rest) = rest) by (rewrite <- Hl; apply skipn_exact); rewrite Es
      end.
      destruct (dec n rest) as [ts|]; [|reflexivity].
      match goal with |- context [take 50 ?x] => destruct (take 50 x) as [[r2 ?]|] end; reflexivity.
  Qed.

  Lemma dec_none_mono k : forall n data, (k <= n)%nat -> dec k data = None -> dec n data = None.
  Proof.
    intros n data Hle. induction Hle as [|n Hle IH]; intros H; [exact H|].
    rewrite dec_S, (IH H). reflexivity.
  Qed.

  (* loadSTLBinary = decode of the model, reading from the current offset of the file.  The record
     loop is characterised by an invariant over (records read, mesh so far, file offset) found
     in the loop state by type, so the proof does not depend on which other variables (an err
     declared outside the loop, a record variable reused between iterations) the state carries,
     nor on how the mesh is built: allocated with make([]T, n) and filled by index in a range
     loop, or grown with append in a counted loop. *)
  Section Binary.
    Variables (data : list byte) (n : nat).
    Notation T3 := (spec_float * spec_float * spec_float * (spec_float * spec_float * spec_float) *
                    (spec_float * spec_float * spec_float))%type.
    (* len0: the length of the mesh slice before the loop (n: filled by index, 0: grown by append) *)
    Definition bin_inv (len0 : nat) (k : nat) (mesh : list T3) (wk : fw) : Prop :=
      exists ts, dec k data = Some ts /\ firstn k mesh = ts /\
                 ((len0 = n /\ length mesh = n) \/ (len0 = 0%nat /\ length mesh = k)) /\
                 fw_rest wk = skipn (50 * k) data.
    Definition bin_post {W} (r : res (list tri * W)) : Prop := dec n data = None /\ outcome_of r = Err.

    Lemma bin_inv_read_upd k mesh wk : (k < n)%nat -> bin_inv n k mesh wk -> (50 <= length (fw_rest wk))%nat ->
      forall cur, bin_inv n (S k)
        (firstn k mesh ++ tri_of_slots (decode_struct LittleEndian STLTriangle_layout cur (fw_rest wk)) :: skipn (S k) mesh)
        (fw_at wk (fw_pos wk + 50)).
    Proof.
      intros Hlt (ts & Hd & Hf & Hl & Hr) H50 cur.
      assert (Hl' : length mesh = n) by (destruct Hl as [[_ Hl]|[E Hl]]; [exact Hl | lia]).
      rewrite triangle_decode by exact H50.
      exists (ts ++ [decode_triangle (firstn 50 (fw_rest wk))]). split; [|split; [|split]].
      - rewrite dec_S, Hd, <- Hr, (take_split 50 _ H50). reflexivity.
      - rewrite firstn_snoc_exact by (rewrite firstn_length; lia). now rewrite Hf.
      - left. split; [reflexivity|]. rewrite app_length. cbn [length]. rewrite firstn_length, skipn_length. lia.
      - rewrite fw_rest_at, Hr, <- skipn_add. f_equal. lia.
    Qed.

    Lemma bin_inv_read_app k mesh wk : (k < n)%nat -> bin_inv 0 k mesh wk -> (50 <= length (fw_rest wk))%nat ->
      forall cur, bin_inv 0 (S k)
        (mesh ++ [tri_of_slots (decode_struct LittleEndian STLTriangle_layout cur (fw_rest wk))])
        (fw_at wk (fw_pos wk + 50)).
    Proof.
      intros Hlt (ts & Hd & Hf & Hl & Hr) H50 cur.
      assert (Hl' : length mesh = k) by (destruct Hl as [[E Hl]|[_ Hl]]; [lia | exact Hl]).
      rewrite triangle_decode by exact H50.
      exists (ts ++ [decode_triangle (firstn 50 (fw_rest wk))]). split; [|split; [|split]].
      - rewrite dec_S, Hd, <- Hr, (take_split 50 _ H50). reflexivity.
      - rewrite firstn_all2 by (rewrite app_length; cbn [length]; lia). rewrite <- Hf, <- Hl', firstn_all. reflexivity.
      - right. split; [reflexivity|]. rewrite app_length. cbn [length]. lia.
      - rewrite fw_rest_at, Hr, <- skipn_add. f_equal. lia.
    Qed.

    Lemma bin_inv_short len0 k mesh wk : (k < n)%nat -> bin_inv len0 k mesh wk -> (length (fw_rest wk) < 50)%nat ->
      dec n data = None.
    Proof.
      intros Hlt (ts & Hd & Hf & Hl & Hr) H50.
      apply (dec_none_mono (S k)); [lia|]. rewrite dec_S, Hd, <- Hr, (take_short 50 _ H50). reflexivity.
    Qed.

    Lemma bin_inv_done len0 mesh wk : bin_inv len0 n mesh wk -> dec n data = Some mesh.
    Proof.
      intros (ts & Hd & Hf & Hl & _). rewrite Hd. f_equal.
      destruct Hl as [[_ Hl]|[_ Hl]]; rewrite <- Hf, <- Hl, firstn_all; reflexivity.
    Qed.
  End Binary.

  (* one iteration of the record loop: binary.Read of a record, then the element stored *)
  Ltac bin_step data n k Hlt HI :=
    unfold GoSem.binary_Read; rewrite STLTriangle_size;
    match goal with |- context [fw_rest ?wk] =>
      destruct (Nat.leb_spec 50 (length (fw_rest wk))) as [H50|H50];
      [ cbn [err_nonnil]; rewrite ?upd_ok by (destruct HI as (? & _ & _ & [[? ?]|[? ?]] & _); lia);
        cbn [fst snd];
        match goal with |- context [decode_struct ?o ?ly ?cur ?bs] =>
          first [ exact (bin_inv_read_upd data n k _ wk Hlt HI H50 cur)
                | exact (bin_inv_read_app data n k _ wk Hlt HI H50 cur) ]
        end
      | pose proof (bin_inv_short data n _ k _ wk Hlt HI H50) as Hn; clear HI H50;
        match goal with |- context [match fw_rest ?wk' with _ => _ end] => destruct (fw_rest wk') end;
        cbn [err_nonnil io_EOF io_ErrUnexpectedEOF]; (split; [exact Hn | reflexivity]) ]
    end.

  Lemma loadSTLBinary_eq w :
    outcome_of (loadSTLBinary_m w) = match decode (fw_rest w) with Some ts => Mesh ts | None => Err end.
  Proof.
    unfold loadSTLBinary_m, gen_loadSTLBinary, decode. autounfold with iogen_helpers. cbv zeta.
    unfold GoSem.binary_Read at 1. rewrite STLHeader_size.
    destruct (Nat.leb_spec 84 (length (fw_rest w))) as [Hle|Hlt].
    2:{ rewrite (take_short 84 _ Hlt). destruct (fw_rest w); reflexivity. }
    cbn [err_nonnil]. rewrite (take_split 84 _ Hle).
    rewrite header_decode by reflexivity.
    unfold header_count. rewrite skipn_firstn_comm. change (84 - 80)%nat with 4%nat.
    set (c := unle (firstn 4 (skipn 80 (fw_rest w)))).
    (* the allocation, if there is one *)
    try (unfold make_slice; destruct (Z.ltb_spec (Z.of_N c) 0) as [H|_]; [lia|];
         replace (Z.to_nat (Z.of_N c)) with (N.to_nat c) by lia).
    assert (Ec : c = N.of_nat (N.to_nat c)) by (symmetry; apply Nnat.N2Nat.id).
    set (n := N.to_nat c) in *. clearbody n. rewrite Ec. rewrite ?nat_N_Z.
    rewrite decode_tris_dec by (rewrite skipn_length; lia).
    set (w1 := fw_at w (fw_pos w + 84)).
    assert (Hr1 : fw_rest w1 = skipn 84 (fw_rest w)) by apply fw_rest_at.
    rewrite <- Hr1. set (data := fw_rest w1) in *.
    unfold tri, vec in *.
    first
    [ (* for i := range mesh *)
      match goal with |- context [range_loop ?b 0%Z (repeat ?z n) ?s0] =>
        let S := type of s0 in
        let pw := proj_of fw S in
        let pm := proj_of (list (spec_float * spec_float * spec_float * (spec_float * spec_float * spec_float) * (spec_float * spec_float * spec_float))) S in
        pose proof (range_loop_inv b (fun k st => bin_inv data n (length (pm s0)) k (pm st) (pw st)) (bin_post data n) (repeat z n)) as L;
        cbv beta in L; specialize (fun Hstep Hinit => L Hstep s0 Hinit); cbn [fst snd] in L; rewrite !repeat_length in L
      end;
      match type of L with ?Pstep -> ?Pinit -> _ => assert (Hstep : Pstep); [|assert (Hinit : Pinit); [|specialize (L Hstep Hinit)]] end;
      [ intros k x st Hk HI; pose proof (nth_error_lt _ _ _ Hk) as Hlt; rewrite repeat_length in Hlt;
        destruct_state st; cbn [fst snd] in *; bin_step data n k Hlt HI
      | | ]
    | (* for i := 0; i < n; i++ *)
      match goal with |- context [for_upto 0%Z (Z.of_nat n) 1%Z ?b ?s0] =>
        let S := type of s0 in
        let pw := proj_of fw S in
        let pm := proj_of (list (spec_float * spec_float * spec_float * (spec_float * spec_float * spec_float) * (spec_float * spec_float * spec_float))) S in
        pose proof (for_upto_inv01 n b (fun k st => bin_inv data n (length (pm s0)) k (pm st) (pw st)) (bin_post data n)) as L;
        cbv beta in L; specialize (fun Hstep Hinit => L Hstep s0 Hinit); cbn [fst snd length] in L; rewrite ?repeat_length in L
      end;
      match type of L with ?Pstep -> ?Pinit -> _ => assert (Hstep : Pstep); [|assert (Hinit : Pinit); [|specialize (L Hstep Hinit)]] end;
      [ intros k st Hlt HI; destruct_state st; cbn [fst snd] in *;
        bin_step data n k Hlt HI
      | | ] ].
    - (* the invariant holds before the loop *)
      exists []. rewrite Nat.mul_0_r. cbn [fst snd firstn dec skipn length]. rewrite ?repeat_length.
      repeat split. first [ left; split; reflexivity | right; split; reflexivity ].
    - (* after the loop *)
      destruct_loop L st r.
      + destruct_state st. cbn [fst snd] in L. rewrite (bin_inv_done _ _ _ _ _ L). reflexivity.
      + destruct L as [-> Ho]. exact Ho.
  Qed.

  (* ---- LoadSTL *)
  Definition LoadSTL_m : string -> fw -> res (list tri * fw).
  Proof using scan Fields pf fz. by_name ltac:(pose_loaders) gen_LoadSTL. Defined.

  Lemma bytes_ok_firstn n : forall l, bytes_ok l -> bytes_ok (firstn n l).
  Proof. induction n as [|n IH]; intros [|x l] H; cbn [firstn]; try constructor; inversion H; subst; auto. apply IH; assumption. Qed.
  Lemma bytes_ok_skipn n : forall l, bytes_ok l -> bytes_ok (skipn n l).
  Proof. induction n as [|n IH]; intros [|x l] H; cbn [skipn]; try assumption. inversion H; subst. now apply IH. Qed.
  Lemma unle_lt bs : bytes_ok bs -> unle bs < 256 ^ N.of_nat (length bs).
  Proof.
    induction 1 as [|b r Hb Hr IH]; [cbn; lia|].
    cbn [unle length]. rewrite Nat2N.inj_succ, N.pow_succ_r'. lia.
  Qed.

  Lemma outcome_eta {W} (r : res (list tri * W)) :
    outcome_of (match r with GoSem.Panic => GoSem.Panic | Val (a, w) e => Val (a, w) e end) = outcome_of r.
  Proof. destruct r as [[a w] e|]; reflexivity. Qed.

  (* tests on an error value that is known: err != nil, err == io.EOF, ... in whatever order and nesting *)
  Ltac simpl_errs :=
    cbn [err_nonnil err_eqb goerr_eqb orb andb negb io_EOF io_ErrUnexpectedEOF new_error N.eqb fst snd].

  (* int64 / uint32 arithmetic that stays inside its type: the wrap-arounds disappear; a
     wrap-around that can happen (a product formed at uint32, say) stays and blocks the proof *)
  Ltac wraps_away :=
    repeat match goal with
           | |- context [wraps 64 ?x] =>
             rewrite (wraps_small 64 x) by (change (2 ^ (64 - 1))%Z with 9223372036854775808%Z; lia)
           | |- context [wrapu 64 ?x] =>
             rewrite (wrapu_small 64 x) by (change (2 ^ 64)%Z with 18446744073709551616%Z; lia)
           | |- context [wrapu 32 ?x] =>
             rewrite (wrapu_small 32 x) by (change (2 ^ 32)%Z with 4294967296%Z; lia)
           end.

  (* LoadSTL = load of the model (repaired version) for every file that can be opened.  The proof
     runs the generated function on the two kinds of file (at least / fewer than 84 bytes) and
     decides every test on the error value and on the sizes, so it does not depend on how the
     tests are nested, on which err variable is assigned, or on how the size formula is spelled
     as long as it cannot wrap around. *)
  Lemma LoadSTL_eq path w : fw_open_err w = None -> bytes_ok (fw_disk w) ->
    outcome_of (LoadSTL_m path w) = load pf Repaired (file_at (fw_at w 0)).
  Proof.
    intros Ho Hb. unfold LoadSTL_m, gen_LoadSTL. autounfold with iogen_helpers. cbv zeta.
    unfold load, GoSem.os_Open, GoSem.file_Stat. rewrite Ho. simpl_errs.
    cbn [file_at f_bytes fw_at fw_disk].
    unfold GoSem.binary_Read at 1. rewrite STLHeader_size.
    change (fw_rest (fw_at w 0)) with (fw_disk w).
    destruct (Nat.leb_spec 84 (length (fw_disk w))) as [Hle|Hlt].
    - simpl_errs. rewrite (take_split 84 _ Hle). rewrite header_decode by reflexivity.
      unfold header_count. rewrite skipn_firstn_comm. change (84 - 80)%nat with 4%nat.
      set (c := unle (firstn 4 (skipn 80 (fw_disk w)))).
      assert (Hc : c < 2 ^ 32).
      { pose proof (unle_lt _ (bytes_ok_firstn 4 _ (bytes_ok_skipn 80 _ Hb))) as H.
        fold c in H. eapply N.lt_le_trans; [exact H|].
        change (2 ^ 32) with (256 ^ 4). apply N.pow_le_mono_r; [discriminate|].
        rewrite firstn_length. lia. }
      change (2 ^ 32) with 4294967296 in Hc.
      wraps_away.
      unfold GoSem.file_Seek. cbn [Z.ltb Z.compare Z.to_nat]. simpl_errs.
      unfold GoSem.FileInfo_Size. rewrite nlen_length.
      match goal with |- context [(?a =? ?b)%Z] => destruct (Z.eqb_spec a b) as [Ez|Ez] end;
        match goal with |- context [N.eqb ?a ?b] => destruct (N.eqb_spec a b) as [En|En] end;
        try (exfalso; unfold zlen, Stl.byte, GoSem.byte in *; lia);
        rewrite ?outcome_eta; [apply loadSTLBinary_eq | apply loadSTLAscii_eq].
    - rewrite (take_short 84 _ Hlt).
      destruct (fw_disk w) eqn:Ed; simpl_errs;
        unfold GoSem.file_Seek; cbn [Z.ltb Z.compare Z.to_nat]; simpl_errs;
        rewrite ?outcome_eta; (etransitivity; [apply loadSTLAscii_eq|]);
        unfold file_at, scan_w, fw_rest, fw_at; cbn [fw_disk fw_pos skipn]; rewrite ?Ed; reflexivity.
  Qed.

  Lemma LoadSTL_open_error path w e : fw_open_err w = Some e -> outcome_of (LoadSTL_m path w) = Err.
  Proof. intros Ho. unfold LoadSTL_m, gen_LoadSTL, GoSem.os_Open. rewrite Ho. reflexivity. Qed.
End Loaders.

(* ------------------------------------------------------------------ (3) the writers *)

(* Triangle3.Normal (with Vec.Sub, Cross, Normalize, MulScalar, Length, Length2, Dot) = normal_g,
   over any number system; the literal 1 of `1 / a.Length()` is o_one *)
Definition fz_ops {T} (o : ops T) (z : Z) : T :=
  if (z =? 1)%Z then o_one o else o_sub o (o_one o) (o_one o).
Lemma Normal_eq {T} (o : ops T) (t : (T * T * T) * (T * T * T) * (T * T * T)) :
  gen_Triangle3_Normal T (fz_ops o) (o_add o) (o_sub o) (o_mul o) (o_div o) (o_sqrt o) t
  = let '(a, b, c) := t in normal_g o a b c.
Proof. destruct t as [[[[ax ay] az] [[bx by_] bz]] [[cx cy] cz]]. reflexivity. Qed.

(* the bufio.Writer on a file whose offset is at its end *)
Definition wf (w : fw) : Prop := fw_pos w = length (fw_disk w).
Definition content (w : fw) : list byte := fw_disk w ++ fw_buf w.

Lemma bufio_Write_ok cap data w : wf w ->
  fst (GoSem.bufio_Write cap data w) = None /\ wf (snd (GoSem.bufio_Write cap data w)) /\
  content (snd (GoSem.bufio_Write cap data w)) = content w ++ data.
Proof.
  unfold wf, content, GoSem.bufio_Write, GoSem.file_Write. intros H.
  destruct (_ <=? cap)%nat; cbn [fst snd fw_disk fw_pos fw_buf].
  - repeat split; [exact H | now rewrite app_assoc].
  - rewrite H, firstn_all. rewrite skipn_all2 by lia.
    rewrite !app_nil_r. repeat split; [rewrite !app_length; lia | now rewrite <- app_assoc].
Qed.

Lemma bufio_Flush_ok w : wf w ->
  fst (GoSem.bufio_Flush w) = None /\ wf (snd (GoSem.bufio_Flush w)) /\
  fw_disk (snd (GoSem.bufio_Flush w)) = content w /\ fw_buf (snd (GoSem.bufio_Flush w)) = [].
Proof.
  unfold wf, content, GoSem.bufio_Flush, GoSem.file_Write. intros H. cbn [fst snd fw_disk fw_pos fw_buf].
  rewrite H, firstn_all. rewrite skipn_all2 by lia. rewrite !app_nil_r, app_length. repeat split.
Qed.

Lemma count_word {A} (l : list A) : Z.to_N (wrapu 32 (zlen l)) = nlen l mod 2 ^ 32.
Proof.
  unfold wrapu, zlen. rewrite nlen_length.
  rewrite <- (N2Z.id (N.of_nat (length l) mod 2 ^ 32)). f_equal.
  rewrite N2Z.inj_mod. rewrite nat_N_Z. reflexivity.
Qed.

Lemma nth_set_slot_last n v : nth n (set_slot (repeat 0 (S n)) n v) 0 = v.
Proof. rewrite set_slot_repeat_last, app_nth2; rewrite repeat_length; [now rewrite Nat.sub_diag | lia]. Qed.

Lemma bufio_Write_spec cap data w e w' : wf w -> GoSem.bufio_Write cap data w = (e, w') ->
  e = None /\ wf w' /\ content w' = content w ++ data.
Proof.
  intros Hw E. destruct (bufio_Write_ok cap data w Hw) as (He & Hw' & Hc). rewrite E in He, Hw', Hc. auto.
Qed.

Lemma bufio_Flush_spec w e w' : wf w -> GoSem.bufio_Flush w = (e, w') ->
  e = None /\ wf w' /\ fw_disk w' = content w /\ fw_buf w' = [].
Proof.
  intros Hw E. destruct (bufio_Flush_ok w Hw) as (He & Hw' & Hd & Hb). rewrite E in He, Hw', Hd, Hb. auto.
Qed.

Lemma concat_firstn_S {A} (bs : list (list A)) k b : nth_error bs k = Some b ->
  concat (firstn (S k) bs) = concat (firstn k bs) ++ b.
Proof. intros H. rewrite (nth_error_firstn_S _ _ _ H), concat_app. cbn [concat]. now rewrite app_nil_r. Qed.

(* a record variable of the generated code is known by the length of its slot list *)
Ltac explode_records :=
  repeat match goal with
         | H : length ?d = 13%nat |- _ =>
           is_var d; do 13 (destruct d as [|? d]; [discriminate H|]); destruct d; [clear H|discriminate H]
         end.

Section Writers.
  (* any float64 arithmetic on spec_float values; the stored words are narrow32 of the values *)
  Variable fz : Z -> spec_float.
  Variables fadd fsub fmul fdiv : spec_float -> spec_float -> spec_float.
  Variable fsqrt : spec_float -> spec_float.
  Definition nrm : tri -> vec.
  Proof using fz fadd fsub fmul fdiv fsqrt. by_name ltac:(pose_stl_io) gen_Triangle3_Normal. Defined.
  Notation cap := bufio_default_size.

  Definition SaveSTL_m : string -> list tri -> fw -> res fw.
  Proof using fz fadd fsub fmul fdiv fsqrt. by_name ltac:(pose_stl_io) gen_SaveSTL. Defined.

  (* what a loop iteration hands to binary.Write: 13 slots whose first 12 are the words of the
     triangle (Normal() through float32, then the nine coordinates through float32, in this
     order), whatever the attribute slot holds - and however the record was filled in (in
     place, by a helper, in another order of the twelve assignments) *)
  Lemma record_bytes (t : tri) (d' : list N) : length d' = 13%nat -> firstn 12 d' = tri_words nrm t ->
    encode_struct LittleEndian STLTriangle_layout d' = encode_triangle nrm t.
  Proof.
    intros Hl Hf. rewrite <- (firstn_skipn 12 d'), Hf.
    assert (E : exists x, skipn 12 d' = [x]).
    { do 13 (destruct d' as [|? d']; [discriminate Hl|]). destruct d'; [|discriminate Hl]. cbn [skipn]. eauto. }
    destruct E as [x ->]. apply triangle_bytes, tri_words_length.
  Qed.

  Lemma write_record (t : tri) (d' : list N) w e w2 : wf w -> length d' = 13%nat -> firstn 12 d' = tri_words nrm t ->
    GoSem.bufio_Write cap (encode_struct LittleEndian STLTriangle_layout d') w = (e, w2) ->
    e = None /\ wf w2 /\ content w2 = content w ++ encode_triangle nrm t.
  Proof. intros Hw Hl Hf E. rewrite (record_bytes t d' Hl Hf) in E. exact (bufio_Write_spec _ _ _ _ _ Hw E). Qed.

  Lemma write_header (d : list N) w e w2 : wf w -> length d = 81%nat ->
    GoSem.bufio_Write cap (encode_struct LittleEndian STLHeader_layout d) w = (e, w2) ->
    e = None /\ wf w2 /\ content w2 = content w ++ encode_header (nth 80 d 0).
  Proof. intros Hw Hl E. rewrite (header_bytes d Hl) in E. exact (bufio_Write_spec _ _ _ _ _ Hw E). Qed.

  (* one iteration of the record loop of SaveSTL / writeSTL: fill the record, binary.Write it to
     the bufio.Writer.  Leaves the goal after the write, with the facts about the new world. *)
  Ltac record_write_step_ t Hwf :=
    unfold GoSem.binary_Write_bufio;
    match goal with |- context [GoSem.bufio_Write cap (encode_struct LittleEndian STLTriangle_layout ?x) ?w] =>
      let e := fresh "e" in let w2 := fresh "w" in let E := fresh "E" in
      destruct (GoSem.bufio_Write cap (encode_struct LittleEndian STLTriangle_layout x) w) as [e w2] eqn:E;
      apply (write_record t) in E;
      [ destruct E as (-> & ? & ?); cbn [err_nonnil]
      | exact Hwf
      | try reflexivity; rewrite ?set_slot_length; assumption
      | explode_records; destruct t as [[[[? ?] ?] [[? ?] ?]] [[? ?] ?]]; reflexivity ]
    end.
  Tactic Notation "record_write_step" constr(t) constr(Hwf) := record_write_step_ t Hwf.

  (* SaveSTL: header with uint32(len(mesh)), then every record, then Flush: the file is [save] *)
  Lemma SaveSTL_eq path mesh w : fw_open_err w = None ->
    exists w', SaveSTL_m path mesh w = Val w' None /\ fw_disk w' = save nrm mesh /\ fw_buf w' = [].
  Proof.
    intros Ho. unfold SaveSTL_m, gen_SaveSTL. autounfold with iogen_helpers. cbv zeta.
    unfold GoSem.os_Create. rewrite Ho. cbn [err_nonnil].
    set (w0 := {| fw_disk := []; fw_pos := 0; fw_buf := []; fw_open_err := None |}).
    assert (Hw0 : wf w0) by reflexivity.
    (* the header *)
    unfold GoSem.binary_Write_bufio at 1.
    match goal with |- context [GoSem.bufio_Write cap (encode_struct LittleEndian STLHeader_layout ?d) w0] =>
      destruct (GoSem.bufio_Write cap (encode_struct LittleEndian STLHeader_layout d) w0) as [e1 w1] eqn:E1;
      apply write_header in E1; [destruct E1 as (-> & Hw1 & Hc1) | exact Hw0 | rewrite ?set_slot_length; reflexivity]
    end.
    change (zero_slots STLHeader_layout) with (repeat 0 81) in Hc1. rewrite nth_set_slot_last, count_word in Hc1.
    cbn [err_nonnil].
    (* the records *)
    match goal with |- context [range_loop ?b 0%Z mesh ?s0] =>
      let S := type of s0 in
      let pw := proj_of fw S in
      let Id := match constr:(Set) with
                | _ => let pd := proj_of (list N) S in constr:(fun st : S => length (pd st) = 13%nat)
                | _ => constr:(fun st : S => True)
                end in
      pose proof (range_loop_inv b
        (fun k st => wf (pw st) /\ content (pw st) = content w1 ++ flat_map (encode_triangle nrm) (firstn k mesh) /\ Id st)
        (fun _ => False) mesh) as L;
      cbv beta in L; specialize (fun Hstep Hinit => L Hstep s0 Hinit)
    end.
    match type of L with ?Pstep -> ?Pinit -> _ => assert (Hstep : Pstep); [|assert (Hinit : Pinit); [|specialize (L Hstep Hinit)]] end.
    - intros k t st Hk HI. destruct_state st. cbn [fst snd] in *. unfold tri, vec in *. destruct HI as (Hwf & Hc & Hd).
      record_write_step t Hwf.
      cbn [fst snd]. split; [assumption|]. split.
      + match goal with Hw : content ?w' = _ ++ encode_triangle nrm t |- content ?w' = _ => rewrite Hw end. rewrite Hc.
        rewrite (nth_error_firstn_S _ _ _ Hk), flat_map_app. cbn [flat_map]. rewrite app_nil_r. symmetry. apply app_assoc.
      + first [exact I | rewrite ?set_slot_length; assumption].
    - cbn [fst snd firstn flat_map]. rewrite app_nil_r. repeat split; try exact Hw1; try reflexivity.
    - destruct_loop L st r; [|contradiction].
      destruct_state st. cbn [fst snd] in L. destruct L as (Hwf & Hc & _). rewrite firstn_all in Hc.
      match goal with |- context [GoSem.bufio_Flush ?w] =>
        destruct (GoSem.bufio_Flush w) as [e2 w2] eqn:E2; apply bufio_Flush_spec in E2; [destruct E2 as (-> & _ & Hd2 & Hb2) | exact Hwf]
      end.
      exists w2. split; [reflexivity|]. split; [|exact Hb2].
      rewrite Hd2, Hc, Hc1. reflexivity.
  Qed.

  (* ---- writeSTL (the goroutine behind render.ToSTL); the channel delivers [batches] *)
  Definition writeSTL_m : string -> list (list tri) -> fw -> res fw.
  Proof using fz fadd fsub fmul fdiv fsqrt. by_name ltac:(pose_stl_io) gen_writeSTL. Defined.

  Definition count_after {A} (c : Z) (ts : list A) : Z := fold_left (fun c _ => wrapu 32 (c + 1)) ts c.

  Lemma count_after_mod {A} (ts : list A) : forall c, (0 <= c < 2 ^ 32)%Z ->
    count_after c ts = ((c + zlen ts) mod 2 ^ 32)%Z.
  Proof.
    induction ts as [|t ts IH]; intros c Hc; unfold count_after; cbn [fold_left].
    - unfold zlen. cbn [length Z.of_nat]. rewrite Z.add_0_r, Z.mod_small; [reflexivity | exact Hc].
    - fold (count_after (wrapu 32 (c + 1)) ts). rewrite IH by (unfold wrapu; apply Z.mod_pos_bound; reflexivity).
      unfold wrapu. rewrite Z.add_mod_idemp_l by discriminate. f_equal. unfold zlen. cbn [length]. lia.
  Qed.

  Lemma count_after_app {A} c (a b : list A) : count_after c (a ++ b) = count_after (count_after c a) b.
  Proof. unfold count_after. apply fold_left_app. Qed.

  (* writeSTL: empty header, records through the bufio.Writer, Flush, Seek(0,0), header with the
     uint32 counter: the file is [stream_save] = [save] of all triangles received *)
  Lemma writeSTL_eq path batches w : fw_open_err w = None ->
    exists w', writeSTL_m path batches w = Val w' None /\ fw_disk w' = stream_save nrm cap batches.
  Proof.
    intros Ho. unfold writeSTL_m, gen_writeSTL. autounfold with iogen_helpers. cbv zeta.
    unfold GoSem.os_Create. rewrite Ho. cbn [err_nonnil].
    set (w0 := {| fw_disk := []; fw_pos := 0; fw_buf := []; fw_open_err := None |}).
    assert (Hw0 : wf w0) by reflexivity.
    (* the empty header *)
    unfold GoSem.binary_Write_bufio at 1.
    match goal with |- context [GoSem.bufio_Write cap (encode_struct LittleEndian STLHeader_layout ?d) w0] =>
      destruct (GoSem.bufio_Write cap (encode_struct LittleEndian STLHeader_layout d) w0) as [e1 w1] eqn:E1;
      apply write_header in E1; [destruct E1 as (-> & Hw1 & Hc1) | exact Hw0 | rewrite ?set_slot_length; reflexivity]
    end.
    change (nth 80 (zero_slots STLHeader_layout) 0) with 0 in Hc1.
    cbn [err_nonnil].
    (* the batches *)
    match goal with |- context [range_loop ?b 0%Z batches ?s0] =>
      let S := type of s0 in
      let pw := proj_of fw S in
      let pc := proj_of Z S in
      let Id := match constr:(Set) with
                | _ => let pd := proj_of (list N) S in constr:(fun st : S => length (pd st) = 13%nat)
                | _ => constr:(fun st : S => True)
                end in
      pose proof (range_loop_inv b
        (fun k st => wf (pw st) /\
                     content (pw st) = content w1 ++ flat_map (encode_triangle nrm) (concat (firstn k batches)) /\
                     pc st = count_after 0 (concat (firstn k batches)) /\ Id st)
        (fun _ => False) batches) as L;
      cbv beta in L; specialize (fun Hstep Hinit => L Hstep s0 Hinit)
    end.
    match type of L with ?Pstep -> ?Pinit -> _ => assert (Hstep : Pstep); [|assert (Hinit : Pinit); [|specialize (L Hstep Hinit)]] end.
    - intros k ts st Hk HI. destruct_state st. cbn [fst snd] in *. unfold tri, vec in *. destruct HI as (Hwf & Hc & Hn & Hd).
      (* the triangles of one batch *)
      match goal with |- context [range_loop ?b 0%Z ts ?s0] =>
        let S := type of s0 in
        let pw := proj_of fw S in
        let pc := proj_of Z S in
        let Id := match constr:(Set) with
                  | _ => let pd := proj_of (list N) S in constr:(fun st : S => length (pd st) = 13%nat)
                  | _ => constr:(fun st : S => True)
                  end in
        pose proof (range_loop_inv b
          (fun j st => wf (pw st) /\
                       content (pw st) = content (pw s0) ++ flat_map (encode_triangle nrm) (firstn j ts) /\
                       pc st = count_after (pc s0) (firstn j ts) /\ Id st)
          (fun _ => False) ts) as Li;
        cbv beta in Li; specialize (fun Hstep Hinit => Li Hstep s0 Hinit)
      end.
      cbn [fst snd] in Li.
      match type of Li with ?Pstep -> ?Pinit -> _ => assert (Hstep : Pstep); [|assert (Hinit : Pinit); [|specialize (Li Hstep Hinit)]] end.
      + intros j t st Hj HI. destruct_state st. cbn [fst snd] in *. unfold tri, vec in *. destruct HI as (Hwf' & Hc' & Hn' & Hd').
        record_write_step t Hwf'.
        cbn [fst snd]. split; [assumption|]. split; [|split].
        * match goal with Hw : content ?w' = _ ++ encode_triangle nrm t |- content ?w' = _ => rewrite Hw end. rewrite Hc'.
          rewrite (nth_error_firstn_S _ _ _ Hj), flat_map_app. cbn [flat_map]. rewrite app_nil_r. symmetry. apply app_assoc.
        * rewrite (nth_error_firstn_S _ _ _ Hj), count_after_app, <- Hn'. reflexivity.
        * first [exact I | rewrite ?set_slot_length; assumption].
      + cbn [firstn flat_map]. rewrite app_nil_r. repeat split; try assumption; try reflexivity.
      + destruct_loop Li st r; [|contradiction].
        destruct_state st. cbn [fst snd] in *. destruct Li as (Hwf' & Hc' & Hn' & Hd'). rewrite firstn_all in Hc', Hn'.
        rewrite (concat_firstn_S _ _ _ Hk), flat_map_app, count_after_app.
        split; [assumption|]. split; [|split].
        * rewrite Hc', Hc, app_assoc. reflexivity.
        * rewrite Hn', Hn. reflexivity.
        * assumption.
    - cbn [fst snd firstn concat flat_map]. rewrite app_nil_r. repeat split; try exact Hw1; try reflexivity.
    - destruct_loop L st r; [|contradiction].
      destruct_state st. cbn [fst snd] in L. destruct L as (Hwf & Hc & Hn & _). rewrite firstn_all in Hc, Hn.
      (* Flush, Seek(0, 0), the header again *)
      match goal with |- context [GoSem.bufio_Flush ?w] =>
        destruct (GoSem.bufio_Flush w) as [e2 w2] eqn:E2; apply bufio_Flush_spec in E2; [destruct E2 as (-> & Hw2 & Hd2 & Hb2) | exact Hwf]
      end.
      unfold GoSem.file_Seek. cbn [Z.ltb Z.compare err_nonnil Z.to_nat].
      unfold GoSem.binary_Write_file. rewrite header_bytes by (rewrite ?set_slot_length; reflexivity).
      change (zero_slots STLHeader_layout) with (repeat 0 81). rewrite nth_set_slot_last.
      unfold GoSem.file_Write. cbn [fw_at fw_pos fw_disk err_nonnil firstn app Nat.add].
      eexists. split; [reflexivity|]. cbn [fw_disk].
      rewrite stream_eq_batch. unfold save.
      subst. rewrite count_after_mod by (split; [lia | reflexivity]). rewrite Z.add_0_l.
      fold (wrapu 32 (zlen (concat batches))). rewrite count_word.
      rewrite Hd2, Hc, Hc1. cbn [content w0 fw_disk fw_buf app].
      rewrite header_length, <- (header_length 0), skipn_exact. reflexivity.
  Qed.
End Writers.

(* ---- the binary64 instance: float64 operations of Go = PrimFloat operations on the values *)
Definition sf2 (op : float -> float -> float) (x y : spec_float) : spec_float := Prim2SF (op (SF2Prim x) (SF2Prim y)).
Definition sf_ops : ops spec_float :=
  {| o_sub := sf2 PrimFloat.sub; o_add := sf2 PrimFloat.add; o_mul := sf2 PrimFloat.mul; o_div := sf2 PrimFloat.div;
     o_sqrt := fun x => Prim2SF (PrimFloat.sqrt (SF2Prim x)); o_one := Prim2SF 1%float |}.
Definition nrm_f : tri -> vec :=
  nrm (fz_ops sf_ops) (o_add sf_ops) (o_sub sf_ops) (o_mul sf_ops) (o_div sf_ops) (o_sqrt sf_ops).

(* the generated Normal at binary64 is the model's normal_f (FloatAxioms.SF2Prim_Prim2SF:
   converting a primitive float to its (mantissa, exponent) form and back is the identity) *)
Lemma nrm_f_eq t : nrm_f t = normal_f t.
Proof.
  unfold nrm_f, nrm. rewrite Normal_eq.
  destruct t as [[[[ax ay] az] [[bx by_] bz]] [[cx cy] cz]].
  unfold normal_f, normal_g, normalize3, cross3, sub3, dot3, scale3, vec_prim, vec_sf.
  cbn [sf_ops float_ops o_sub o_add o_mul o_div o_sqrt o_one]. unfold sf2.
  rewrite !FloatAxioms.SF2Prim_Prim2SF. reflexivity.
Qed.

Lemma save_ext n1 n2 ts : (forall t, n1 t = n2 t) -> save n1 ts = save n2 ts.
Proof.
  intros H. unfold save. f_equal. apply flat_map_ext. intros t. unfold encode_triangle, tri_words.
  destruct t as [[a b] c]. now rewrite H.
Qed.

Lemma SaveSTL_f_eq path mesh w : fw_open_err w = None ->
  exists w', SaveSTL_m (fz_ops sf_ops) (o_add sf_ops) (o_sub sf_ops) (o_mul sf_ops) (o_div sf_ops) (o_sqrt sf_ops) path mesh w
             = Val w' None /\ fw_disk w' = save_f mesh.
Proof.
  intros Ho. destruct (SaveSTL_eq (fz_ops sf_ops) (o_add sf_ops) (o_sub sf_ops) (o_mul sf_ops) (o_div sf_ops) (o_sqrt sf_ops) path mesh w Ho)
    as (w' & E & Hd & _).
  exists w'. split; [exact E|]. rewrite Hd. apply save_ext, nrm_f_eq.
Qed.

Lemma writeSTL_f_eq path batches w : fw_open_err w = None ->
  exists w', writeSTL_m (fz_ops sf_ops) (o_add sf_ops) (o_sub sf_ops) (o_mul sf_ops) (o_div sf_ops) (o_sqrt sf_ops) path batches w
             = Val w' None /\ fw_disk w' = stream_save_f batches.
Proof.
  intros Ho. destruct (writeSTL_eq (fz_ops sf_ops) (o_add sf_ops) (o_sub sf_ops) (o_mul sf_ops) (o_div sf_ops) (o_sqrt sf_ops) path batches w Ho)
    as (w' & E & Hd).
  exists w'. split; [exact E|]. rewrite Hd. unfold stream_save_f. rewrite !stream_eq_batch. apply save_ext, nrm_f_eq.
Qed.

Lemma LoadSTL_total scan Fields pf fz path w : fw_open_err w = None -> bytes_ok (fw_disk w) ->
  outcome_of (LoadSTL_m scan Fields pf fz path w) <> StlLoad.Panic.
Proof. intros Ho Hb. rewrite LoadSTL_eq by assumption. apply load_total. Qed.
