(* Model of render.LoadSTL (render/stl.go): discrimination between binary and
   ASCII by the exact size 84 + 50*count, loadSTLBinary (Io/Stl.v: decode) and
   loadSTLAscii.  An outcome is an error, a mesh, or a run-time panic (index out of
   range), the last exactly where the Go code would index past the end of a slice.

   Tokenisation is an oracle: a file comes with the lines bufio.Scanner delivers,
   each already split by strings.Fields, and a flag telling whether the scanner
   stopped with an error (line longer than 64 KiB); strconv.ParseFloat is the
   section variable [parse_float].  The theorems quantify over every such file,
   also those whose lines have nothing to do with the bytes.

   Two versions: [Pinned] is the code as found, [Repaired] the code after the
   fix: commits (vertex count not a multiple of 3 is an error; a file shorter than
   a binary header is read as ASCII). *)
From Coq Require Import ZArith NArith List Lia Bool Floats.
From Coq Require String Ascii.
From Sdfx Require Import Io.F32 Io.Stl.
Import ListNotations.
Import String.StringSyntax.
Notation string := String.string.
Delimit Scope string_scope with string.
Open Scope N_scope.

Inductive outcome := Err | Mesh (ts : list tri) | Panic.
Inductive version := Pinned | Repaired.

Record file := { f_bytes : list byte; f_lines : list (list string); f_scan_err : bool }.

Definition is_vertex_line (fields : list string) : bool :=
  (length fields =? 4)%nat &&
  match fields with
  | f0 :: _ => String.eqb f0 "vertex"
  | [] => false
  end.

Section Load.
  Variable parse_float : string -> option spec_float.

  (* parseFloats: all values, or the first error *)
  Fixpoint parse_floats (l : list string) : option (list spec_float) :=
    match l with
    | [] => Some []
    | s :: r =>
      match parse_float s with
      | None => None
      | Some x =>
        match parse_floats r with
        | None => None
        | Some o => Some (x :: o)
        end
      end
    end.

  Inductive scan := SErr | SPanic | SOk (v : list vec).

  (* for scanner.Scan() { ... v = append(v, Vec{f[0], f[1], f[2]}) } *)
  Fixpoint scan_lines (ls : list (list string)) (v : list vec) : scan :=
    match ls with
    | [] => SOk v
    | fields :: r =>
      if is_vertex_line fields then
        match parse_floats (tl fields) with
        | None => SErr
        | Some f =>
          match nth_error f 0, nth_error f 1, nth_error f 2 with
          | Some x, Some y, Some z => scan_lines r (v ++ [(x, y, z)])
          | _, _, _ => SPanic
          end
        end
      else scan_lines r v
    end.

  Inductive grp := GPanic | GOk (mesh : list tri).

  (* for i := 0; i < len(v); i += 3 { mesh = append(mesh, {v[i+0], v[i+1], v[i+2]}) } *)
  Fixpoint group (fuel i : nat) (v : list vec) (mesh : list tri) : grp :=
    if (i <? length v)%nat then
      match fuel with
      | O => GPanic
      | S f =>
        match nth_error v i, nth_error v (i + 1), nth_error v (i + 2) with
        | Some a, Some b, Some c => group f (i + 3) v (mesh ++ [(a, b, c)])
        | _, _, _ => GPanic
        end
      end
    else GOk mesh.

  Definition load_ascii (ver : version) (f : file) : outcome :=
    match scan_lines (f_lines f) [] with
    | SErr => Err
    | SPanic => Panic
    | SOk v =>
      if (match ver with
          | Repaired => negb (length v mod 3 =? 0)%nat   (* fix: return an error *)
          | Pinned => false
          end)
      then Err
      else
        match group (S (length v)) 0 v [] with
        | GPanic => Panic
        | GOk mesh => if f_scan_err f then Err else Mesh mesh   (* return mesh, scanner.Err() *)
        end
    end.

  (* LoadSTL *)
  Definition load (ver : version) (f : file) : outcome :=
    let size := nlen (f_bytes f) in
    match take 84 (f_bytes f) with
    | None =>      (* binary.Read of the header fails: fewer than 84 bytes *)
      match ver with
      | Pinned => Err
      | Repaired => load_ascii ver f
      end
    | Some (hdr, _) =>
      let expected := header_count hdr * 50 + 84 in
      if size =? expected
      then match decode (f_bytes f) with
           | Some ts => Mesh ts
           | None => Err
           end
      else load_ascii ver f
    end.

  (* number of slice elements allocated from the header count before any triangle is read
     (make([]*sdf.Triangle3, int(header.Count)) in loadSTLBinary) *)
  Definition binary_alloc (f : file) : N :=
    match take 84 (f_bytes f) with
    | None => 0
    | Some (hdr, _) =>
      if nlen (f_bytes f) =? header_count hdr * 50 + 84 then header_count hdr else 0
    end.

  (* ---------------------------------------------------------------- totality *)

  Lemma parse_floats_length l o : parse_floats l = Some o -> length o = length l.
  Proof.
    revert o; induction l as [|s r IH]; intros o H; cbn [parse_floats] in H.
    - inversion H. reflexivity.
    - destruct (parse_float s); [|discriminate]. destruct (parse_floats r) as [o'|]; [|discriminate].
      inversion H. cbn [length]. now rewrite (IH o').
  Qed.

  Lemma scan_no_panic ls : forall v, scan_lines ls v <> SPanic.
  Proof.
    induction ls as [|fields r IH]; intros v; cbn [scan_lines]; [discriminate|].
    destruct (is_vertex_line fields) eqn:Hv; [|apply IH].
    destruct (parse_floats (tl fields)) as [f|] eqn:Hp; [|discriminate].
    apply parse_floats_length in Hp.
    unfold is_vertex_line in Hv. apply andb_prop in Hv as [Hl _]. apply Nat.eqb_eq in Hl.
    destruct fields as [|f0 rest]; [discriminate|]. cbn [tl length] in *.
    destruct f as [|x [|y [|z f']]]; cbn [length] in Hp; try lia.
    cbn [nth_error]. apply IH.
  Qed.

  Lemma nth_error_in_range {A} (l : list A) i : (i < length l)%nat -> exists x, nth_error l i = Some x.
  Proof. intros H. destruct (nth_error l i) eqn:E; [eauto|]. apply nth_error_None in E. lia. Qed.

  Lemma group_no_panic v : (length v mod 3 = 0)%nat ->
    forall fuel i mesh, (i mod 3 = 0)%nat -> (length v - i < fuel)%nat -> group fuel i v mesh <> GPanic.
  Proof.
    intros Hv. induction fuel as [|f IH]; intros i mesh Hi Hf; [lia|].
    cbn [group]. destruct (Nat.ltb_spec i (length v)) as [Hlt|Hge]; [|discriminate].
    assert (Hi2 : (i + 2 < length v)%nat).
    { apply Nat.div_exact in Hv; [|lia]. apply Nat.div_exact in Hi; [|lia]. lia. }
    destruct (nth_error_in_range v i) as [a ->]; [lia|].
    destruct (nth_error_in_range v (i + 1)) as [b ->]; [lia|].
    destruct (nth_error_in_range v (i + 2)) as [c ->]; [lia|].
    apply IH; [|lia].
    replace (i + 3)%nat with (i + 1 * 3)%nat by lia. rewrite Nat.mod_add by lia. exact Hi.
  Qed.

  Lemma load_ascii_total f : load_ascii Repaired f <> Panic.
  Proof.
    unfold load_ascii. destruct (scan_lines (f_lines f) []) as [| |v] eqn:Hs; [discriminate | | ].
    - exfalso. exact (scan_no_panic _ _ Hs).
    - destruct (Nat.eqb_spec (length v mod 3) 0) as [Hm|Hm]; cbn [negb]; [|discriminate].
      destruct (group (S (length v)) 0 v []) eqn:Hg.
      + exfalso. revert Hg. apply group_no_panic; [exact Hm | reflexivity | lia].
      + destruct (f_scan_err f); discriminate.
  Qed.

  (* the repaired loader never panics, whatever the file *)
  Theorem load_total f : load Repaired f <> Panic.
  Proof.
    unfold load. destruct (take 84 (f_bytes f)) as [[hdr body]|]; [|apply load_ascii_total].
    destruct (_ =? _); [|apply load_ascii_total].
    destruct (decode (f_bytes f)); discriminate.
  Qed.

  (* ---------------------------------------------------------------- allocation, short files *)

  Theorem alloc_proportional f :
    84 + 50 * binary_alloc f <= N.max 84 (nlen (f_bytes f)) /\
    binary_alloc f <= (nlen (f_bytes f) - 84) / 50.
  Proof.
    unfold binary_alloc. destruct (take 84 (f_bytes f)) as [[hdr body]|].
    - destruct (N.eqb_spec (nlen (f_bytes f)) (header_count hdr * 50 + 84)) as [E|E].
      + rewrite E. split; [lia|].
        replace (header_count hdr * 50 + 84 - 84) with (header_count hdr * 50) by lia.
        rewrite N.div_mul by discriminate. lia.
      + split; [lia | apply N.le_0_l].
    - split; [lia | apply N.le_0_l].
  Qed.

  Lemma decode_tris_count fuel : forall count data ts,
    decode_tris fuel count data = Some ts -> nlen ts = count.
  Proof.
    induction fuel as [|f IH]; intros count data ts H; cbn [decode_tris] in H.
    - destruct (N.eqb_spec count 0) as [->|]; [|discriminate]. inversion H. reflexivity.
    - destruct (N.eqb_spec count 0) as [->|Hc]; [inversion H; reflexivity|].
      destruct (take 50 data) as [[rec rest]|]; [|discriminate].
      destruct (decode_tris f (count - 1) rest) as [r|] eqn:E; [|discriminate].
      inversion H. apply IH in E. rewrite nlen_length in *. cbn [length]. lia.
  Qed.

  (* a mesh from the binary path has exactly (size-84)/50 triangles *)
  Theorem binary_mesh_size ver f ts :
    binary_alloc f <> 0 -> load ver f = Mesh ts -> nlen ts = (nlen (f_bytes f) - 84) / 50.
  Proof.
    unfold binary_alloc, load, decode. destruct (take 84 (f_bytes f)) as [[hdr body]|] eqn:Et; [|congruence].
    destruct (N.eqb_spec (nlen (f_bytes f)) (header_count hdr * 50 + 84)) as [E|E]; [|congruence].
    intros _ H. destruct (decode_tris (length body) (header_count hdr) body) as [ts'|] eqn:Ed; [|discriminate].
    inversion H; subst ts'. apply decode_tris_count in Ed. rewrite Ed, E.
    replace (header_count hdr * 50 + 84 - 84) with (header_count hdr * 50) by lia.
    now rewrite N.div_mul by discriminate.
  Qed.

  Lemma take_none_iff n l : take n l = None <-> (length l < n)%nat.
  Proof.
    split; [|apply take_short].
    intros H. destruct (Nat.lt_ge_cases (length l) n) as [|Hge]; [assumption|].
    rewrite <- (firstn_skipn n l) in H.
    assert (Hl : length (firstn n l) = n) by (apply firstn_length_le; exact Hge).
    rewrite <- Hl in H at 1. rewrite take_app in H. discriminate.
  Qed.

  (* a file shorter than the binary header: an error for the pinned code; after the
     repair it is read as ASCII; in both it is never treated as binary *)
  Theorem short_file f : nlen (f_bytes f) < 84 ->
    load Pinned f = Err /\ load Repaired f = load_ascii Repaired f /\ binary_alloc f = 0.
  Proof.
    intros H. rewrite nlen_length in H.
    assert (Ht : take 84 (f_bytes f) = None) by (apply take_short; lia).
    unfold load, binary_alloc. rewrite Ht. repeat split.
  Qed.

  (* ---------------------------------------------------------------- the pinned defect *)

  Lemma group_panics v : (length v mod 3 <> 0)%nat ->
    forall fuel i mesh, (i mod 3 = 0)%nat -> (i <= length v)%nat -> (length v - i < fuel)%nat ->
    group fuel i v mesh = GPanic.
  Proof.
    intros Hv. induction fuel as [|f IH]; intros i mesh Hi Hle Hf; [lia|].
    cbn [group].
    assert (Hne : i <> length v) by (intros ->; contradiction).
    destruct (Nat.ltb_spec i (length v)) as [Hlt|Hge]; [|lia].
    destruct (Nat.lt_ge_cases (i + 2) (length v)) as [H2|H2].
    - destruct (nth_error_in_range v i) as [a ->]; [lia|].
      destruct (nth_error_in_range v (i + 1)) as [b ->]; [lia|].
      destruct (nth_error_in_range v (i + 2)) as [c ->]; [lia|].
      apply IH; [|lia|lia].
      replace (i + 3)%nat with (i + 1 * 3)%nat by lia. rewrite Nat.mod_add by lia. exact Hi.
    - assert (E : nth_error v (i + 2) = None) by (apply nth_error_None; lia).
      rewrite E. destruct (nth_error v i); [|reflexivity]. destruct (nth_error v (i + 1)); reflexivity.
  Qed.

  (* pinned code: every file that reaches the ASCII path with a number of vertex
     lines that is not a multiple of 3 panics *)
  Theorem pinned_ascii_panics f v :
    scan_lines (f_lines f) [] = SOk v -> (length v mod 3 <> 0)%nat -> load_ascii Pinned f = Panic.
  Proof.
    intros Hs Hv. unfold load_ascii. rewrite Hs.
    rewrite (group_panics v Hv); [reflexivity | reflexivity | lia | lia].
  Qed.

  (* ---------------------------------------------------------------- well-formed listings *)

  Definition parse_vertex (fields : list string) : option vec :=
    match fields with
    | [_; sx; sy; sz] =>
      match parse_float sx, parse_float sy, parse_float sz with
      | Some x, Some y, Some z => Some (x, y, z)
      | _, _, _ => None
      end
    | _ => None
    end.

  (* a listing of triangles: any lines that are not vertex lines, and for each
     triangle three consecutive vertex lines whose numbers parse *)
  Inductive listing : list (list string) -> list tri -> Prop :=
  | L_nil : listing [] []
  | L_other l ls ts : is_vertex_line l = false -> listing ls ts -> listing (l :: ls) ts
  | L_facet la lb lc a b c ls ts :
      is_vertex_line la = true -> is_vertex_line lb = true -> is_vertex_line lc = true ->
      parse_vertex la = Some a -> parse_vertex lb = Some b -> parse_vertex lc = Some c ->
      listing ls ts -> listing (la :: lb :: lc :: ls) ((a, b, c) :: ts).

  Definition flatten (ts : list tri) : list vec := flat_map (fun t : tri => let '(a, b, c) := t in [a; b; c]) ts.

  Lemma scan_vertex_line l a r v : is_vertex_line l = true -> parse_vertex l = Some a ->
    scan_lines (l :: r) v = scan_lines r (v ++ [a]).
  Proof.
    intros Hv Hp. cbn [scan_lines]. rewrite Hv. unfold parse_vertex in Hp.
    destruct l as [|f0 [|sx [|sy [|sz [|? ?]]]]]; try discriminate.
    cbn [tl parse_floats].
    destruct (parse_float sx) as [x|]; [|discriminate]. destruct (parse_float sy) as [y|]; [|discriminate].
    destruct (parse_float sz) as [z|]; [|discriminate]. inversion Hp. reflexivity.
  Qed.

  Lemma scan_listing ls ts : listing ls ts -> forall v, scan_lines ls v = SOk (v ++ flatten ts).
  Proof.
    induction 1 as [|l ls ts Hl _ IH|la lb lc a b c ls ts Ha Hb Hc Pa Pb Pc _ IH]; intros v.
    - cbn. now rewrite app_nil_r.
    - cbn [scan_lines]. rewrite Hl. apply IH.
    - rewrite (scan_vertex_line la a) by assumption. rewrite (scan_vertex_line lb b) by assumption.
      rewrite (scan_vertex_line lc c) by assumption. rewrite IH. cbn [flatten flat_map].
      rewrite <- !app_assoc. reflexivity.
  Qed.

  Lemma flatten_length ts : length (flatten ts) = (3 * length ts)%nat.
  Proof. induction ts as [|[[a b] c] r IH]; cbn [flatten flat_map length app]; [reflexivity|].
    fold (flatten r). rewrite IH. lia. Qed.

  Lemma flatten_app a b : flatten (a ++ b) = (flatten a ++ flatten b)%list.
  Proof. unfold flatten. apply flat_map_app. Qed.

  Lemma group_flatten done rest : forall fuel mesh, (length rest < fuel)%nat ->
    group fuel (3 * length done) (flatten (done ++ rest)) mesh = GOk (mesh ++ rest).
  Proof.
    revert done. induction rest as [|[[a b] c] r IH]; intros done fuel mesh Hf.
    - rewrite app_nil_r. destruct fuel; cbn [group]; rewrite flatten_length, Nat.ltb_irrefl, app_nil_r; reflexivity.
    - destruct fuel as [|f]; [lia|]. cbn [group].
      rewrite flatten_app, app_length, !flatten_length. cbn [length].
      replace (3 * length done <? 3 * length done + 3 * S (length r))%nat with true
        by (symmetry; apply Nat.ltb_lt; lia).
      assert (Hd : length (flatten done) = (3 * length done)%nat) by apply flatten_length.
      cbn [flatten flat_map]. fold (flatten r).
      rewrite <- Hd.
      rewrite !(nth_error_app2 (flatten done)) by lia.
      replace (length (flatten done) - length (flatten done))%nat with 0%nat by lia.
      replace (length (flatten done) + 1 - length (flatten done))%nat with 1%nat by lia.
      replace (length (flatten done) + 2 - length (flatten done))%nat with 2%nat by lia.
      cbn [nth_error app].
      specialize (IH (done ++ [(a, b, c)])%list f (mesh ++ [(a, b, c)])%list).
      rewrite app_length in IH. cbn [length] in IH.
      replace (length (flatten done) + 3)%nat with (3 * (length done + 1))%nat by lia.
      rewrite <- !app_assoc in IH. cbn [app] in IH.
      rewrite flatten_app in IH. cbn [flatten flat_map app] in IH. fold (flatten r) in IH.
      apply IH. cbn [length] in Hf. lia.
  Qed.

  (* a well-formed ASCII listing loads to the triangles it lists (both versions) *)
  Theorem ascii_listing_loads ver f ts :
    listing (f_lines f) ts -> f_scan_err f = false -> load_ascii ver f = Mesh ts.
  Proof.
    intros Hl He. unfold load_ascii. rewrite (scan_listing _ _ Hl). cbn [app].
    rewrite flatten_length.
    replace (3 * length ts mod 3)%nat with 0%nat by (symmetry; rewrite Nat.mul_comm; apply Nat.mod_mul; lia).
    cbn [Nat.eqb negb].
    assert (G : group (S (3 * length ts)) 0 (flatten ts) [] = GOk ts).
    { pose proof (group_flatten [] ts (S (3 * length ts)) []) as G. cbn [length Nat.mul app] in G.
      apply G. lia. }
    destruct ver; rewrite G, He; reflexivity.
  Qed.

  (* LoadSTL on such a file, when its size is not that of a binary file with the count
     found at offset 80 (and, for the pinned code, it has at least 84 bytes) *)
  Theorem load_ascii_file ver f ts :
    listing (f_lines f) ts -> f_scan_err f = false ->
    binary_alloc f = 0 -> nlen (f_bytes f) <> 84 ->
    (ver = Repaired \/ 84 <= nlen (f_bytes f)) ->
    load ver f = Mesh ts.
  Proof.
    intros Hl He Hb H84 Hv. unfold load. unfold binary_alloc in Hb.
    destruct (take 84 (f_bytes f)) as [[hdr body]|] eqn:Et.
    - destruct (N.eqb_spec (nlen (f_bytes f)) (header_count hdr * 50 + 84)) as [E|E].
      + subst. exfalso. apply H84. rewrite E. lia.
      + now apply ascii_listing_loads.
    - destruct Hv as [->|Hv]; [now apply ascii_listing_loads|].
      apply take_none_iff in Et. rewrite nlen_length in Hv. lia.
  Qed.
End Load.

(* The usual layout: solid / facet normal / outer loop / 3 vertex / endloop / endfacet / endsolid *)
Definition strs3 := (string * string * string)%type.
Definition vertex_line (s : strs3) : list string := let '(x, y, z) := s in ["vertex"; x; y; z]%string.
Definition facet_lines (fc : strs3 * (strs3 * strs3 * strs3)) : list (list string) :=
  let '((n1, n2, n3), (a, b, c)) := fc in
  [["facet"; "normal"; n1; n2; n3]; ["outer"; "loop"]; vertex_line a; vertex_line b; vertex_line c;
   ["endloop"]; ["endfacet"]]%string.
Definition ascii_stl (name : string) (facets : list (strs3 * (strs3 * strs3 * strs3))) : list (list string) :=
  (["solid"; name]%string :: flat_map facet_lines facets ++ [["endsolid"; name]%string])%list.

Section Layout.
  Variable parse_float : string -> option spec_float.
  Definition parse3 (s : strs3) : option vec := parse_vertex parse_float (vertex_line s).
  Definition parse_facet (fc : strs3 * (strs3 * strs3 * strs3)) : option tri :=
    let '(_, (a, b, c)) := fc in
    match parse3 a, parse3 b, parse3 c with
    | Some x, Some y, Some z => Some (x, y, z)
    | _, _, _ => None
    end.
  Fixpoint parse_facets (fs : list (strs3 * (strs3 * strs3 * strs3))) : option (list tri) :=
    match fs with
    | [] => Some []
    | fc :: r =>
      match parse_facet fc, parse_facets r with
      | Some t, Some ts => Some (t :: ts)
      | _, _ => None
      end
    end.

  Lemma vertex_line_is s : is_vertex_line (vertex_line s) = true.
  Proof. destruct s as [[x y] z]. reflexivity. Qed.

  Lemma ascii_stl_listing name facets ts :
    parse_facets facets = Some ts -> listing parse_float (ascii_stl name facets) ts.
  Proof.
    intros H. unfold ascii_stl. apply L_other; [reflexivity|].
    revert ts H. induction facets as [|[[[n1 n2] n3] [[a b] c]] r IH]; intros ts H; cbn [parse_facets] in H.
    - inversion H. cbn. apply L_other; [reflexivity | constructor].
    - destruct (parse_facet _) as [t|] eqn:Pf; [|discriminate].
      destruct (parse_facets r) as [ts'|]; [|discriminate]. inversion H; subst ts.
      cbn [parse_facet] in Pf.
      destruct (parse3 a) as [x|] eqn:Pa; [|discriminate]. destruct (parse3 b) as [y|] eqn:Pb; [|discriminate].
      destruct (parse3 c) as [z|] eqn:Pc; [|discriminate]. inversion Pf; subst t.
      cbn [flat_map facet_lines app].
      apply L_other; [reflexivity|]. apply L_other; [reflexivity|].
      apply L_facet; try apply vertex_line_is; try assumption.
      apply L_other; [reflexivity|]. apply L_other; [reflexivity|]. now apply IH.
  Qed.
End Layout.

(* ------------------------------------------------------------------ correspondence *)

(* a string given by its bytes (for fields that are not printable ASCII) *)
Definition bs (p : N * list chunk) : string :=
  String.string_of_list_ascii (map Ascii.ascii_of_N (unpack (fst p) (snd p))).

(* a long string given by its runs of equal bytes: [(byte, count); ...] *)
Fixpoint rep_ascii (n : nat) (a : Ascii.ascii) (tail : string) : string :=
  match n with
  | O => tail
  | S k => String.String a (rep_ascii k a tail)
  end.
Fixpoint runs (l : list (N * N)) : string :=
  match l with
  | [] => String.EmptyString
  | (b, n) :: r => rep_ascii (N.to_nat n) (Ascii.ascii_of_N b) (runs r)
  end.

Fixpoint lookup (tbl : list (string * option float)) (s : string) : option spec_float :=
  match tbl with
  | [] => None
  | (k, v) :: r => if String.eqb k s then option_map Prim2SF v else lookup r s
  end.

(* class: 0 error, 1 mesh, 2 panic (or crash / hang / excessive allocation on the Go side) *)
Definition class_of (o : outcome) : N := match o with Err => 0 | Mesh _ => 1 | Panic => 2 end.

(* id, (length, chunks), lines, scanner error, ParseFloat table, LoadSTL (class, triangles), ImportSTL class *)
Definition case := (N * (N * list chunk) * list (list string) * bool * list (string * option float)
                    * (N * list ftri) * N)%type.

Definition case_ok (c : case) : bool :=
  let '(_, (len, chunks), lines, serr, tbl, (cls, tris), icls) := c in
  let f := {| f_bytes := unpack len chunks; f_lines := lines; f_scan_err := serr |} in
  let o := load (lookup tbl) Repaired f in
  (class_of o =? cls) && (class_of o =? icls) &&
  match o with
  | Mesh ts => tris_eqb ts (map tri_sf tris)
  | _ => true
  end.

Definition mismatches (cs : list case) : list N :=
  map (fun c : case => let '(id, _, _, _, _, _, _) := c in id) (filter (fun c => negb (case_ok c)) cs).

(* witness of the pinned defect: two vertex lines *)
Definition witness_file : file :=
  {| f_bytes := repeat 32 100;
     f_lines := [["solid"; "w"]; ["vertex"; "0"; "0"; "0"]; ["vertex"; "1"; "0"; "0"]; ["endsolid"; "w"]]%string;
     f_scan_err := false |}.
Definition witness_parse (s : string) : option spec_float :=
  if String.eqb s "0" then Some (S754_zero false) else if String.eqb s "1" then Some (S754_finite false 4503599627370496 (-52)) else None.

Lemma witness_pinned_panics : load witness_parse Pinned witness_file = Panic.
Proof. vm_compute. reflexivity. Qed.
Lemma witness_repaired_err : load witness_parse Repaired witness_file = Err.
Proof. vm_compute. reflexivity. Qed.

(* The pinned LoadSTL read the 84-byte binary header first, so the well-formed
   facet-free listing "solid x / endsolid x" (shorter than 84 bytes, lists no
   triangle) was an error instead of the empty mesh. *)
Definition empty_listing : file :=
  {| f_bytes := repeat 32 19; f_lines := ascii_stl "x"%string []; f_scan_err := false |}.
Lemma pinned_short_ascii parse_float :
  listing parse_float (f_lines empty_listing) [] /\
  load parse_float Pinned empty_listing = Err /\ load parse_float Repaired empty_listing = Mesh [].
Proof. split; [apply ascii_stl_listing; reflexivity|]. split; reflexivity. Qed.
