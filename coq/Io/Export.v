(* Model of render/3mf.go (write3MF), render/dxf.go (NewDXF, SaveDXF, writeDXF) and
   render/svg.go (SVG.Line, SVG.Save, SaveSVG, writeSVG), and of the two library
   functions whose behaviour decides the property: go3mf's MeshBuilder.AddVertex
   with its bucket key (math.go: newvec3IFromVec3) and strconv's fixed-precision
   decimal formatting.  Coordinates are rationals (every finite float is one);
   the theorems are about list structure: order, indices, de-duplication. *)
From Coq Require Import String.
From Coq Require Import List ZArith NArith QArith Qround Qabs Lia Lqa Bool.
Import ListNotations.

(* ------------------------------------------------------------------ generic *)

(* the writers receive a channel of batches; they loop over batches, then items *)
Lemma fold_batches {A S : Type} (f : S -> A -> S) (bs : list (list A)) (s : S) :
  fold_left (fun s b => fold_left f b s) bs s = fold_left f (concat bs) s.
Proof.
  revert s; induction bs as [|b bs IH]; intros s; cbn [concat fold_left]; [reflexivity|].
  rewrite fold_left_app. apply IH.
Qed.

Lemma Forall2_imp {A B : Type} (P Q : A -> B -> Prop) l m :
  (forall a b, P a b -> Q a b) -> Forall2 P l m -> Forall2 Q l m.
Proof. intros H F; induction F; constructor; auto. Qed.

(* ================================================================== 3MF *)
(* write3MF: for each triangle, three AddVertex calls (corner 0, 1, 2 in this
   order), then append Triangle{V1,V2,V3}.  AddVertex looks the key of the vertex
   up in a map key -> index; found: return the index; otherwise append the
   vertex to the table, record key -> new index, return it.  The map is
   represented by the table itself (first entry with the key); `key` is
     - the exact float32 triple for the repaired write3MF (vkey = identity),
     - go3mf's vec3I bucket for the MeshBuilder the pinned code used. *)
Section Dedup.
  Variables V K : Type.
  Variable key : V -> K.
  Variable keqb : K -> K -> bool.
  Hypothesis keqb_eq : forall a b, keqb a b = true <-> a = b.

  Fixpoint find_from (k : K) (tbl : list V) (i : nat) : option nat :=
    match tbl with
    | [] => None
    | v :: r => if keqb (key v) k then Some i else find_from k r (S i)
    end.
  Definition find_idx (k : K) (tbl : list V) : option nat := find_from k tbl 0.

  Definition add_vertex (tbl : list V) (v : V) : list V * nat :=
    match find_idx (key v) tbl with
    | Some i => (tbl, i)
    | None => (tbl ++ [v], length tbl)
    end.

  Definition tri := (V * V * V)%type.
  Definition itri := (nat * nat * nat)%type.
  Definition mstate := (list V * list itri)%type.

  Definition add_triangle (s : mstate) (t : tri) : mstate :=
    let '(tbl, its) := s in
    let '(a, b, c) := t in
    let '(tbl1, i1) := add_vertex tbl a in
    let '(tbl2, i2) := add_vertex tbl1 b in
    let '(tbl3, i3) := add_vertex tbl2 c in
    (tbl3, its ++ [(i1, i2, i3)]).

  Definition mf_write (batches : list (list tri)) : mstate :=
    fold_left (fun s ts => fold_left add_triangle ts s) batches ([], []).

  (* ---- specification vocabulary *)
  Definition flat (ts : list tri) : list V := flat_map (fun t : tri => let '(a, b, c) := t in [a; b; c]) ts.

  (* first occurrences (by key), in order of appearance *)
  Fixpoint first_occ (l : list V) : list V :=
    match l with
    | [] => []
    | v :: r => v :: filter (fun u => negb (keqb (key u) (key v))) (first_occ r)
    end.

  Definition lookup3 (tbl : list V) (it : itri) : option tri :=
    let '(i, j, k) := it in
    match nth_error tbl i, nth_error tbl j, nth_error tbl k with
    | Some a, Some b, Some c => Some (a, b, c)
    | _, _, _ => None
    end.

  (* index i of the table holds a vertex with the key of a *)
  Definition good (tbl : list V) (i : nat) (a : V) : Prop :=
    exists u, nth_error tbl i = Some u /\ key u = key a.
  Definition good3 (tbl : list V) (it : itri) (t : tri) : Prop :=
    let '(i, j, k) := it in let '(a, b, c) := t in good tbl i a /\ good tbl j b /\ good tbl k c.

  (* ---- lemmas *)
  Lemma keqb_refl a : keqb a a = true.
  Proof. now apply keqb_eq. Qed.
  Lemma keqb_sym a b : keqb a b = keqb b a.
  Proof.
    destruct (keqb a b) eqn:E1, (keqb b a) eqn:E2; try reflexivity.
    - apply keqb_eq in E1. subst. now rewrite keqb_refl in E2.
    - apply keqb_eq in E2. subst. now rewrite keqb_refl in E1.
  Qed.
  Lemma keqb_neq a b : keqb a b = false <-> a <> b.
  Proof.
    split.
    - intros E H. apply keqb_eq in H. congruence.
    - intros H. destruct (keqb a b) eqn:E; [|reflexivity]. apply keqb_eq in E. contradiction.
  Qed.

  Lemma find_from_some k tbl i j : find_from k tbl i = Some j ->
    (i <= j)%nat /\ exists v, nth_error tbl (j - i) = Some v /\ key v = k.
  Proof.
    revert i; induction tbl as [|v r IH]; intros i H; cbn [find_from] in H; [discriminate|].
    destruct (keqb (key v) k) eqn:E.
    - injection H as <-. split; [lia|]. exists v. rewrite Nat.sub_diag. split; [reflexivity|]. now apply keqb_eq.
    - apply IH in H as (Hle & u & Hu & Hk). split; [lia|]. exists u. split; [|exact Hk].
      replace (j - i)%nat with (S (j - S i)) by lia. exact Hu.
  Qed.

  Lemma find_from_none k tbl i : find_from k tbl i = None -> forall v, In v tbl -> key v <> k.
  Proof.
    revert i; induction tbl as [|v r IH]; intros i H u Hin; [destruct Hin|].
    cbn [find_from] in H. destruct (keqb (key v) k) eqn:E; [discriminate|].
    destruct Hin as [<-|Hin]; [now apply keqb_neq | now apply (IH _ H)].
  Qed.

  Lemma In_first_occ l u : In u (first_occ l) -> In u l.
  Proof.
    revert u; induction l as [|v r IH]; intros u H; [exact H|].
    cbn [first_occ] in H. destruct H as [<-|H]; [now left|].
    right. apply IH. apply filter_In in H. exact (proj1 H).
  Qed.

  Lemma keys_first_occ l k : (exists u, In u (first_occ l) /\ key u = k) <-> (exists u, In u l /\ key u = k).
  Proof.
    split.
    - intros (u & Hin & Hk). exists u. split; [now apply In_first_occ | exact Hk].
    - induction l as [|v r IH]; intros (u & Hin & Hk); [destruct Hin|].
      cbn [first_occ]. destruct (keqb k (key v)) eqn:E.
      + apply keqb_eq in E. exists v. split; [now left | now symmetry].
      + destruct Hin as [<-|Hin]; [rewrite Hk, keqb_refl in E; discriminate|].
        destruct IH as (w & Hw & Hwk); [now exists u|].
        exists w. split; [|exact Hwk]. right. apply filter_In. split; [exact Hw|].
        rewrite Hwk, E. reflexivity.
  Qed.

  Lemma first_occ_snoc l v :
    first_occ (l ++ [v]) =
      if existsb (fun u => keqb (key u) (key v)) l then first_occ l else first_occ l ++ [v].
  Proof.
    induction l as [|a l IH]; [reflexivity|].
    cbn [app first_occ existsb]. rewrite IH.
    destruct (existsb (fun u => keqb (key u) (key v)) l) eqn:Ex.
    - now rewrite orb_true_r.
    - rewrite orb_false_r, filter_app. cbn [filter]. rewrite (keqb_sym (key v) (key a)).
      destruct (keqb (key a) (key v)); cbn [negb]; [now rewrite app_nil_r | reflexivity].
  Qed.

  Lemma good_app tbl ext i a : good tbl i a -> good (tbl ++ ext) i a.
  Proof.
    intros (u & Hu & Hk). exists u. split; [|exact Hk].
    rewrite nth_error_app1; [exact Hu|]. apply nth_error_Some. congruence.
  Qed.

  Lemma add_vertex_spec l v tbl' i : add_vertex (first_occ l) v = (tbl', i) ->
    tbl' = first_occ (l ++ [v]) /\ good tbl' i v /\ exists ext, tbl' = first_occ l ++ ext.
  Proof.
    unfold add_vertex, find_idx. rewrite first_occ_snoc.
    destruct (find_from (key v) (first_occ l) 0) as [j|] eqn:F; intros [= <- <-].
    - apply find_from_some in F as (_ & u & Hu & Hk). rewrite Nat.sub_0_r in Hu.
      assert (Ex : existsb (fun u => keqb (key u) (key v)) l = true).
      { apply existsb_exists. destruct (proj1 (keys_first_occ l (key v))) as (w & Hw & Hwk).
        - exists u. split; [now apply nth_error_In with j | exact Hk].
        - exists w. split; [exact Hw | now apply keqb_eq]. }
      rewrite Ex. split; [reflexivity|]. split; [now exists u|]. exists []. now rewrite app_nil_r.
    - assert (Ex : existsb (fun u => keqb (key u) (key v)) l = false).
      { destruct (existsb _ l) eqn:Ex; [|reflexivity]. apply existsb_exists in Ex as (w & Hw & Hwk).
        apply keqb_eq in Hwk. destruct (proj2 (keys_first_occ l (key v))) as (u & Hu & Hk); [now exists w|].
        exfalso. exact (find_from_none _ _ _ F u Hu Hk). }
      rewrite Ex. split; [reflexivity|]. split; [|now exists [v]].
      exists v. split; [|reflexivity]. rewrite nth_error_app2 by lia. now rewrite Nat.sub_diag.
  Qed.

  Definition Inv (s : mstate) (done : list tri) : Prop :=
    fst s = first_occ (flat done) /\ Forall2 (good3 (fst s)) (snd s) done.

  Lemma good3_app tbl ext it t : good3 tbl it t -> good3 (tbl ++ ext) it t.
  Proof.
    destruct it as [[i j] k], t as [[a b] c]; cbn [good3]. intros (H1 & H2 & H3).
    repeat split; now apply good_app.
  Qed.

  Lemma flat_snoc done a b c : flat (done ++ [(a, b, c)]) = ((flat done ++ [a]) ++ [b]) ++ [c].
  Proof. unfold flat. rewrite flat_map_app. cbn [flat_map]. rewrite app_nil_r, <- !app_assoc. reflexivity. Qed.

  Lemma add_triangle_inv s done t : Inv s done -> Inv (add_triangle s t) (done ++ [t]).
  Proof.
    destruct s as [tbl its], t as [[a b] c]. unfold Inv; cbn [fst snd]. intros (Ht & Hf). subst tbl.
    unfold add_triangle.
    destruct (add_vertex (first_occ (flat done)) a) as [tbl1 i1] eqn:E1.
    apply add_vertex_spec in E1 as (T1 & G1 & x1 & X1).
    destruct (add_vertex tbl1 b) as [tbl2 i2] eqn:E2. rewrite T1 in E2.
    apply add_vertex_spec in E2 as (T2 & G2 & x2 & X2).
    destruct (add_vertex tbl2 c) as [tbl3 i3] eqn:E3. rewrite T2 in E3.
    apply add_vertex_spec in E3 as (T3 & G3 & x3 & X3).
    cbn [fst snd]. rewrite flat_snoc. split; [exact T3|].
    rewrite <- T2 in X3. rewrite <- T1 in X2.
    apply Forall2_app.
    - assert (Hext : tbl3 = first_occ (flat done) ++ (x1 ++ x2 ++ x3)).
      { rewrite X3, X2, X1, <- !app_assoc. reflexivity. }
      rewrite Hext. eapply Forall2_imp; [|exact Hf]. intros it t. apply good3_app.
    - constructor; [|constructor]. cbn [good3]. repeat split.
      + rewrite X3, X2. rewrite <- app_assoc. now apply good_app.
      + rewrite X3. now apply good_app.
      + exact G3.
  Qed.

  Lemma fold_add_triangle_inv ts s done : Inv s done -> Inv (fold_left add_triangle ts s) (done ++ ts).
  Proof.
    revert s done; induction ts as [|t ts IH]; intros s done H; cbn [fold_left].
    - now rewrite app_nil_r.
    - replace (done ++ t :: ts) with ((done ++ [t]) ++ ts) by now rewrite <- app_assoc.
      apply IH. now apply add_triangle_inv.
  Qed.

  Lemma mf_write_inv batches : Inv (mf_write batches) (concat batches).
  Proof.
    unfold mf_write. rewrite fold_batches.
    apply (fold_add_triangle_inv (concat batches) ([], []) []). split; [reflexivity | constructor].
  Qed.

  (* the channel batching does not matter *)
  Lemma mf_batching_irrelevant batches : mf_write batches = mf_write [concat batches].
  Proof. unfold mf_write. rewrite !fold_batches. cbn [concat]. now rewrite app_nil_r. Qed.

  (* the vertex table is the list of first occurrences of the corner stream *)
  Lemma mf_table batches : fst (mf_write batches) = first_occ (flat (concat batches)).
  Proof. exact (proj1 (mf_write_inv batches)). Qed.

  Lemma NoDup_map_filter (p : V -> bool) l : NoDup (map key l) -> NoDup (map key (filter p l)).
  Proof.
    induction l as [|a l IH]; intros H; [constructor|]. cbn [map] in H. inversion H as [|? ? Hn Hd]; subst.
    cbn [filter]. destruct (p a); [|now apply IH]. cbn [map]. constructor; [|now apply IH].
    intros Hin. apply Hn. apply in_map_iff in Hin as (u & Hu & Hin). apply in_map_iff. exists u.
    split; [exact Hu|]. apply filter_In in Hin. exact (proj1 Hin).
  Qed.

  Lemma first_occ_nodup l : NoDup (map key (first_occ l)).
  Proof.
    induction l as [|v r IH]; [constructor|]. cbn [first_occ map]. constructor; [|now apply NoDup_map_filter].
    intros Hin. apply in_map_iff in Hin as (u & Hu & Hin). apply filter_In in Hin as (_ & Hne).
    rewrite Hu, keqb_refl in Hne. discriminate.
  Qed.

  (* no two table entries share a key (hence none are equal) *)
  Lemma mf_no_duplicates_key batches : NoDup (map key (fst (mf_write batches))).
  Proof. rewrite mf_table. apply first_occ_nodup. Qed.

  Lemma mf_no_duplicates batches : NoDup (fst (mf_write batches)).
  Proof. apply (NoDup_map_inv key). apply mf_no_duplicates_key. Qed.

  Lemma mf_no_duplicates_both batches :
    NoDup (map key (fst (mf_write batches))) /\ NoDup (fst (mf_write batches)).
  Proof. split; [apply mf_no_duplicates_key | apply mf_no_duplicates]. Qed.

  (* every table entry is a corner of some input triangle, and every corner's key is in the table *)
  Lemma mf_table_sound batches u : In u (fst (mf_write batches)) -> In u (flat (concat batches)).
  Proof. rewrite mf_table. apply In_first_occ. Qed.

  (* one index triple per input triangle, in order; each index points at a vertex with the corner's key *)
  Lemma mf_indices_good batches :
    Forall2 (good3 (fst (mf_write batches))) (snd (mf_write batches)) (concat batches).
  Proof. exact (proj2 (mf_write_inv batches)). Qed.

  Lemma In_flat a b c ts : In (a, b, c) ts -> In a (flat ts) /\ In b (flat ts) /\ In c (flat ts).
  Proof.
    intros H. unfold flat. repeat split; apply in_flat_map; exists (a, b, c); (split; [exact H|]); cbn; auto.
  Qed.

  Lemma reconstruct_aux (tbl all : list V) its ts :
    (forall u, In u tbl -> In u all) ->
    (forall u v, In u all -> In v all -> key u = key v -> u = v) ->
    (forall a b c, In (a, b, c) ts -> In a all /\ In b all /\ In c all) ->
    Forall2 (good3 tbl) its ts -> map (lookup3 tbl) its = map Some ts.
  Proof.
    intros HS Hinj Hsub HF. induction HF as [|it t its' ts' Hg HF IH]; [reflexivity|].
    cbn [map]. f_equal; [|apply IH; intros a b c H; apply Hsub; now right].
    destruct it as [[i j] k], t as [[a b] c]. cbn [good3] in Hg.
    destruct Hg as ((ua & Ha & Ka) & (ub & Hb & Kb) & (uc & Hc & Kc)).
    destruct (Hsub a b c) as (Ia & Ib & Ic); [now left|].
    cbn [lookup3]. rewrite Ha, Hb, Hc.
    rewrite (Hinj ua a), (Hinj ub b), (Hinj uc c); auto; apply HS; eapply nth_error_In; eassumption.
  Qed.

  (* reconstruction: when the key separates the supplied vertices, indexing the
     table by the emitted triples returns the supplied triangles: same number,
     same order, same corner order (winding) *)
  Lemma mf_reconstruct batches :
    (forall u v, In u (flat (concat batches)) -> In v (flat (concat batches)) -> key u = key v -> u = v) ->
    map (lookup3 (fst (mf_write batches))) (snd (mf_write batches)) = map Some (concat batches).
  Proof.
    intros Hinj. apply (reconstruct_aux _ (flat (concat batches))).
    - apply mf_table_sound.
    - exact Hinj.
    - intros a b c. apply In_flat.
    - apply mf_indices_good.
  Qed.

  (* without any hypothesis: reconstruction up to the key *)
  Lemma mf_reconstruct_key batches :
    Forall2 (fun it t => exists t', lookup3 (fst (mf_write batches)) it = Some t' /\
                          let '(a', b', c') := t' in let '(a, b, c) := t in
                          key a' = key a /\ key b' = key b /\ key c' = key c)
            (snd (mf_write batches)) (concat batches).
  Proof.
    eapply Forall2_imp; [|apply mf_indices_good]. intros [[i j] k] [[a b] c]. cbn [good3].
    intros ((ua & Ha & Ka) & (ub & Hb & Kb) & (uc & Hc & Kc)). exists (ua, ub, uc).
    cbn [lookup3]. rewrite Ha, Hb, Hc. auto.
  Qed.

  Lemma mf_indices_in_range batches i j k :
    In (i, j, k) (snd (mf_write batches)) ->
    let n := length (fst (mf_write batches)) in (i < n /\ j < n /\ k < n)%nat.
  Proof.
    intros Hin. pose proof (mf_indices_good batches) as HF.
    induction HF as [|it t its' ts' Hg HF IH]; [destruct Hin|].
    destruct Hin as [->|Hin]; [|now apply IH].
    destruct t as [[a b] c]. cbn [good3] in Hg. destruct Hg as ((ua & Ha & _) & (ub & Hb & _) & (uc & Hc & _)).
    cbn zeta. repeat split; apply nth_error_Some; congruence.
  Qed.
End Dedup.

(* ---- the repaired write3MF: the key is the vertex itself *)
Section Exact.
  Variable V : Type.
  Variable veqb : V -> V -> bool.
  Hypothesis veqb_eq : forall a b, veqb a b = true <-> a = b.

  Definition mf_write_exact := mf_write V V (fun v => v) veqb.

  Lemma mf_reconstruct_exact batches :
    map (lookup3 V (fst (mf_write_exact batches))) (snd (mf_write_exact batches)) = map Some (concat batches).
  Proof. apply (mf_reconstruct V V (fun v => v) veqb veqb_eq). auto. Qed.

  Lemma mf_no_duplicates_exact batches : NoDup (fst (mf_write_exact batches)).
  Proof. apply (mf_no_duplicates V V (fun v => v) veqb veqb_eq). Qed.
End Exact.

(* ------------------------------------------------------------------ numbers *)

(* round half to even: what strconv's exact fixed-precision formatting does *)
Definition round_he (x : Q) : Z :=
  let f := Qfloor x in
  match Qcompare (x - inject_Z f) (1 # 2) with
  | Lt => f
  | Gt => (f + 1)%Z
  | Eq => if Z.even f then f else (f + 1)%Z
  end.
(* the integer printed by FormatFloat(x, 'f', d, _) with the decimal point removed *)
Definition fmt_dec (d : Z) (x : Q) : Z := round_he (x * inject_Z (10 ^ d)).

Definition pow2 (e : Z) : Q :=
  if (0 <=? e)%Z then inject_Z (2 ^ e) else 1 # (Z.to_pos (2 ^ (- e))).
(* floor(log2 |x|) for x <> 0 *)
Definition ilog2 (x : Q) : Z :=
  let e := (Z.log2 (Z.abs (Qnum x)) - Z.log2 (Zpos (Qden x)))%Z in
  if Qle_bool (pow2 e) (Qabs x) then e else (e - 1)%Z.
(* IEEE round-to-nearest-even to a binary format with `mant` fraction bits and
   minimum exponent `emin` (no overflow handling: finite results only) *)
Definition fround (mant emin : Z) (x : Q) : Q :=
  if Qeq_bool x 0 then 0
  else let e := Z.max (ilog2 x) emin in
       let ulp := pow2 (e - mant) in
       Qred (inject_Z (round_he (x / ulp)) * ulp).
Definition f32round : Q -> Q := fround 23 (-126).   (* float32(x), toPoint3D *)

Definition q3 := (Q * Q * Q)%type.
(* structural equality; on Qred-normal forms it is numeric equality *)
Definition qeqb (a b : Q) : bool := Z.eqb (Qnum a) (Qnum b) && Pos.eqb (Qden a) (Qden b).
Definition q3eqb (a b : q3) : bool :=
  let '(a0, a1, a2) := a in let '(b0, b1, b2) := b in qeqb a0 b0 && qeqb a1 b1 && qeqb a2 b2.
Definition z3 := (Z * Z * Z)%type.
Definition z3eqb (a b : z3) : bool :=
  let '(a0, a1, a2) := a in let '(b0, b1, b2) := b in Z.eqb a0 b0 && Z.eqb a1 b1 && Z.eqb a2 b2.

Lemma qeqb_eq a b : qeqb a b = true <-> a = b.
Proof.
  destruct a as [an ad], b as [bn bd]; unfold qeqb; cbn [Qnum Qden].
  rewrite andb_true_iff, Z.eqb_eq, Pos.eqb_eq. split; [intros [-> ->]; reflexivity | intros [= -> ->]; auto].
Qed.
Lemma q3eqb_eq a b : q3eqb a b = true <-> a = b.
Proof.
  destruct a as [[a0 a1] a2], b as [[b0 b1] b2]; unfold q3eqb.
  rewrite !andb_true_iff, !qeqb_eq. split; [intros [[-> ->] ->]; reflexivity | intros [= -> -> ->]; auto].
Qed.
Lemma z3eqb_eq a b : z3eqb a b = true <-> a = b.
Proof.
  destruct a as [[a0 a1] a2], b as [[b0 b1] b2]; unfold z3eqb.
  rewrite !andb_true_iff, !Z.eqb_eq. split; [intros [[-> ->] ->]; reflexivity | intros [= -> -> ->]; auto].
Qed.

(* ---- go3mf v0.24.2 math.go newvec3IFromVec3, as compiled for amd64:
        int32(math.Floor(float64(x / micronsAccuracy)))
   x is a float32 and micronsAccuracy = 1e-6 becomes the float32 constant
   8796093 / 2^43, so the division is a float32 division; the float64 -> int32
   conversion (CVTTSD2SL) yields -2^31 for every value outside the int32 range. *)
Definition c32 : Q := 8796093 # 8796093022208.
Definition sat32 (n : Z) : Z :=
  if ((- 2 ^ 31 <=? n) && (n <? 2 ^ 31))%Z then n else (- 2 ^ 31)%Z.
Definition mf_bucket (x : Q) : Z := sat32 (Qfloor (f32round (x / c32))).
Definition mf_bucket3 (v : q3) : z3 := let '(x, y, z) := v in (mf_bucket x, mf_bucket y, mf_bucket z).

(* the pinned write3MF (go3mf.NewMeshBuilder(&mesh); mb.AddVertex) *)
Definition mf_write_pinned := mf_write q3 z3 mf_bucket3 z3eqb.
(* the repaired write3MF (map[go3mf.Point3D]uint32 on the float32 triple) *)
Definition mf_write_now := mf_write_exact q3 q3eqb.

Lemma sat32_injective a b :
  (- 2 ^ 31 <= a < 2 ^ 31)%Z -> (- 2 ^ 31 <= b < 2 ^ 31)%Z -> sat32 a = sat32 b -> a = b.
Proof.
  unfold sat32. intros Ha Hb.
  replace ((- 2 ^ 31 <=? a)%Z && (a <? 2 ^ 31)%Z) with true by (symmetry; apply andb_true_iff; split; [apply Z.leb_le | apply Z.ltb_lt]; lia).
  replace ((- 2 ^ 31 <=? b)%Z && (b <? 2 ^ 31)%Z) with true by (symmetry; apply andb_true_iff; split; [apply Z.leb_le | apply Z.ltb_lt]; lia).
  auto.
Qed.

(* beyond +-2147.48 every coordinate lands in the same bucket: (3000,0,0), (4000,0,0)
   and (-3000,0,0) are one vertex for the builder *)
Definition mf_witness : list (list (q3 * q3 * q3)) :=
  [[((3000, 0, 0), (4000, 0, 0), (0, 1, 0)); ((-3000 # 1, 0, 0), (0, 1, 0), (0, 0, 1))]].
Lemma mf_pinned_refuted :
  snd (mf_write_pinned mf_witness) = [(0, 0, 1); (0, 1, 2)]%nat /\
  map (lookup3 q3 (fst (mf_write_pinned mf_witness))) (snd (mf_write_pinned mf_witness))
    <> map Some (concat mf_witness).
Proof. split; [vm_compute; reflexivity | vm_compute; discriminate]. Qed.
Lemma mf_now_on_witness :
  snd (mf_write_now mf_witness) = [(0, 1, 2); (3, 2, 4)]%nat.
Proof. vm_compute. reflexivity. Qed.

(* ================================================================== DXF *)
Definition vec2 := (Q * Q)%type.
Definition seg := (vec2 * vec2)%type.
Definition dxf_ent := (string * q3 * q3)%type.          (* LINE: layer, start, end *)
(* drawing: layer names, current layer, entities *)
Definition drawing := (list string * string * list dxf_ent)%type.

Definition has_layer (n : string) (ls : list string) : bool := existsb (String.eqb n) ls.
(* drawing.New(): layer "0"%string exists and is current *)
Definition dxf_drawing0 : drawing := (["0"%string], "0"%string, []).
(* Drawing.AddLayer(name, _, _, setcurrent) *)
Definition add_layer (n : string) (setcur : bool) (d : drawing) : drawing :=
  let '(ls, cur, es) := d in
  if has_layer n ls then (ls, (if setcur then n else cur), es)
  else (ls ++ [n], (if setcur then n else cur), es).
(* Drawing.ChangeLayer(name): error (ignored by the callers) when the layer does not exist *)
Definition change_layer (n : string) (d : drawing) : drawing :=
  let '(ls, cur, es) := d in if has_layer n ls then (ls, n, es) else d.
(* Drawing.Line(x1,y1,z1,x2,y2,z2): entity on the current layer, appended *)
Definition draw_line (d : drawing) (p q : q3) : drawing :=
  let '(ls, cur, es) := d in (ls, cur, es ++ [(cur, p, q)]).
(* NewDXF *)
Definition new_dxf : drawing := add_layer "Points"%string true (add_layer "Lines"%string true dxf_drawing0).
(* the loop body shared by SaveDXF and writeDXF *)
Definition dxf_seg (d : drawing) (l : seg) : drawing :=
  let '((x0, y0), (x1, y1)) := l in draw_line d (x0, y0, 0) (x1, y1, 0).
Definition save_dxf (mesh : list seg) : list dxf_ent :=
  snd (fold_left dxf_seg mesh (change_layer "Lines"%string new_dxf)).
Definition write_dxf (batches : list (list seg)) : list dxf_ent :=
  snd (fold_left (fun d ls => fold_left dxf_seg ls d) batches (change_layer "Lines"%string new_dxf)).

Definition dxf_spec (l : seg) : dxf_ent :=
  let '((x0, y0), (x1, y1)) := l in ("Lines"%string, (x0, y0, 0), (x1, y1, 0)).

Lemma dxf_fold ls cur es mesh :
  fold_left dxf_seg mesh (ls, cur, es) =
  (ls, cur, es ++ map (fun l : seg => let '((x0, y0), (x1, y1)) := l in (cur, (x0, y0, 0), (x1, y1, 0))) mesh).
Proof.
  revert es; induction mesh as [|[[x0 y0] [x1 y1]] mesh IH]; intros es; cbn [fold_left map].
  - now rewrite app_nil_r.
  - cbn [dxf_seg draw_line]. rewrite IH, <- app_assoc. reflexivity.
Qed.

Lemma save_dxf_spec mesh : save_dxf mesh = map dxf_spec mesh.
Proof.
  unfold save_dxf. change (change_layer "Lines"%string new_dxf) with (["0"%string; "Lines"%string; "Points"%string], "Lines"%string, @nil dxf_ent).
  rewrite dxf_fold. reflexivity.
Qed.

Lemma write_dxf_spec batches : write_dxf batches = map dxf_spec (concat batches).
Proof. unfold write_dxf. rewrite fold_batches. apply save_dxf_spec. Qed.

(* DXF.Lines / DXF.Line (the object API): ChangeLayer("Lines") before every line *)
Definition dxf_obj_line (d : drawing) (l : seg) : drawing := dxf_seg (change_layer "Lines"%string d) l.
Definition dxf_object_lines (batches : list (list seg)) : list dxf_ent :=
  snd (fold_left (fun d ls => fold_left dxf_obj_line ls d) batches new_dxf).

Lemma dxf_obj_fold cur es mesh :
  snd (fold_left dxf_obj_line mesh (["0"; "Lines"; "Points"]%string, cur, es)) = es ++ map dxf_spec mesh.
Proof.
  revert cur es; induction mesh as [|[[x0 y0] [x1 y1]] mesh IH]; intros cur es; cbn [fold_left map].
  - cbn [snd]. now rewrite app_nil_r.
  - change (dxf_obj_line (["0"; "Lines"; "Points"]%string, cur, es) (x0, y0, (x1, y1)))
      with (["0"; "Lines"; "Points"]%string, "Lines"%string, es ++ [dxf_spec (x0, y0, (x1, y1))]).
    rewrite IH, <- app_assoc. reflexivity.
Qed.

Lemma dxf_object_lines_spec batches : dxf_object_lines batches = map dxf_spec (concat batches).
Proof.
  unfold dxf_object_lines. rewrite fold_batches.
  change new_dxf with (["0"; "Lines"; "Points"]%string, "Points"%string, @nil dxf_ent).
  now rewrite dxf_obj_fold.
Qed.

(* ================================================================== SVG *)
Definition qmin (a b : Q) : Q := if Qle_bool a b then a else b.   (* math.Min on finite values *)
Definition qmax (a b : Q) : Q := if Qle_bool a b then b else a.   (* math.Max *)
Definition vmin (a b : vec2) : vec2 := (qmin (fst a) (fst b), qmin (snd a) (snd b)).
Definition vmax (a b : vec2) : vec2 := (qmax (fst a) (fst b), qmax (snd a) (snd b)).

(* SVG{p0s, p1s, min, max} *)
Definition svg_state := (list vec2 * list vec2 * vec2 * vec2)%type.
Definition svg_new : svg_state := ([], [], (0, 0), (0, 0)).
(* SVG.Line *)
Definition svg_line (s : svg_state) (l : seg) : svg_state :=
  let '(p0s, p1s, mn, mx) := s in
  let '(p0, p1) := l in
  let '(mn', mx') :=
    match p0s with
    | [] => (vmin p0 p1, vmax p0 p1)
    | _ => (vmin (vmin mn p0) p1, vmax (vmax mx p0) p1)
    end in
  (p0s ++ [p0], p1s ++ [p1], mn', mx').
(* SVG.Save: width, height, then one line per stored pair *)
Definition svg_out := (Q * Q * list (Q * Q * Q * Q))%type.
Definition svg_save (s : svg_state) : svg_out :=
  let '(p0s, p1s, mn, mx) := s in
  (fst mx - fst mn, snd mx - snd mn,
   map (fun pp : vec2 * vec2 => let '(p0, p1) := pp in
          (fst p0 - fst mn, snd mx - snd p0, fst p1 - fst mn, snd mx - snd p1)) (combine p0s p1s)).
Definition save_svg (mesh : list seg) : svg_out := svg_save (fold_left svg_line mesh svg_new).
Definition write_svg (batches : list (list seg)) : svg_out :=
  svg_save (fold_left (fun s ls => fold_left svg_line ls s) batches svg_new).
Definition svg_bounds (mesh : list seg) : vec2 * vec2 :=
  let '(_, _, mn, mx) := fold_left svg_line mesh svg_new in (mn, mx).

(* ---- specification vocabulary *)
Definition endpoints (mesh : list seg) : list vec2 := flat_map (fun l : seg => [fst l; snd l]) mesh.
Definition is_min (m : Q) (l : list Q) : Prop := In m l /\ forall x, In x l -> m <= x.
Definition is_max (m : Q) (l : list Q) : Prop := In m l /\ forall x, In x l -> x <= m.
(* translate so that (minx, .) becomes x = 0, flip Y so that maxy becomes y = 0 *)
Definition flip_translate (minx maxy : Q) (l : seg) : Q * Q * Q * Q :=
  let '((x0, y0), (x1, y1)) := l in (x0 - minx, maxy - y0, x1 - minx, maxy - y1).

Lemma qmin_le_l a b : qmin a b <= a.
Proof. unfold qmin. destruct (Qle_bool a b) eqn:E; [apply Qle_refl|]. apply Qlt_le_weak, Qnot_le_lt. intros H. apply Qle_bool_iff in H. congruence. Qed.
Lemma qmin_le_r a b : qmin a b <= b.
Proof. unfold qmin. destruct (Qle_bool a b) eqn:E; [now apply Qle_bool_iff | apply Qle_refl]. Qed.
Lemma qmax_ge_l a b : a <= qmax a b.
Proof. unfold qmax. destruct (Qle_bool a b) eqn:E; [now apply Qle_bool_iff | apply Qle_refl]. Qed.
Lemma qmax_ge_r a b : b <= qmax a b.
Proof. unfold qmax. destruct (Qle_bool a b) eqn:E; [apply Qle_refl|]. apply Qlt_le_weak, Qnot_le_lt. intros H. apply Qle_bool_iff in H. congruence. Qed.
Lemma qmin_cases a b : qmin a b = a \/ qmin a b = b.
Proof. unfold qmin. destruct (Qle_bool a b); auto. Qed.
Lemma qmax_cases a b : qmax a b = a \/ qmax a b = b.
Proof. unfold qmax. destruct (Qle_bool a b); auto. Qed.

Lemma is_min_pair a b : is_min (qmin a b) [a; b].
Proof.
  split; [destruct (qmin_cases a b) as [-> | ->]; cbn; auto|].
  intros x [<-|[<-|[]]]; [apply qmin_le_l | apply qmin_le_r].
Qed.
Lemma is_max_pair a b : is_max (qmax a b) [a; b].
Proof.
  split; [destruct (qmax_cases a b) as [-> | ->]; cbn; auto|].
  intros x [<-|[<-|[]]]; [apply qmax_ge_l | apply qmax_ge_r].
Qed.
Lemma is_min_step m l a : is_min m l -> is_min (qmin m a) (l ++ [a]).
Proof.
  intros [Hin Hle]. split.
  - apply in_or_app. destruct (qmin_cases m a) as [-> | ->]; [now left | right; now left].
  - intros x Hx. apply in_app_or in Hx as [Hx|[<-|[]]].
    + eapply Qle_trans; [apply qmin_le_l | now apply Hle].
    + apply qmin_le_r.
Qed.
Lemma is_max_step m l a : is_max m l -> is_max (qmax m a) (l ++ [a]).
Proof.
  intros [Hin Hle]. split.
  - apply in_or_app. destruct (qmax_cases m a) as [-> | ->]; [now left | right; now left].
  - intros x Hx. apply in_app_or in Hx as [Hx|[<-|[]]].
    + eapply Qle_trans; [now apply Hle | apply qmax_ge_l].
    + apply qmax_ge_r.
Qed.

Definition xs (mesh : list seg) : list Q := map fst (endpoints mesh).
Definition ys (mesh : list seg) : list Q := map snd (endpoints mesh).

Definition svg_inv (s : svg_state) (done : list seg) : Prop :=
  let '(p0s, p1s, mn, mx) := s in
  p0s = map fst done /\ p1s = map snd done /\
  (done <> [] ->
     is_min (fst mn) (xs done) /\ is_min (snd mn) (ys done) /\
     is_max (fst mx) (xs done) /\ is_max (snd mx) (ys done)).

Lemma endpoints_snoc done p0 p1 : endpoints (done ++ [(p0, p1)]) = (endpoints done ++ [p0]) ++ [p1].
Proof. unfold endpoints. rewrite flat_map_app. cbn [flat_map fst snd]. rewrite app_nil_r, <- app_assoc. reflexivity. Qed.

Lemma svg_line_inv s done l : svg_inv s done -> svg_inv (svg_line s l) (done ++ [l]).
Proof.
  destruct s as [[[p0s p1s] mn] mx], l as [p0 p1]. unfold svg_inv, svg_line. intros (H0 & H1 & Hb).
  destruct done as [|d done].
  - cbn [map] in H0. subst p0s. cbn [app map fst snd]. subst p1s.
    split; [reflexivity|]. split; [reflexivity|]. intros _.
    unfold xs, ys, endpoints. cbn [flat_map map fst snd app vmin vmax].
    repeat split; try apply is_min_pair; apply is_max_pair.
  - destruct p0s as [|q p0s]; [discriminate H0|].
    rewrite !map_app. cbn [map fst snd]. split; [now rewrite H0|]. split; [now rewrite H1|]. intros _.
    destruct Hb as (Bx & By & Cx & Cy); [discriminate|].
    unfold xs, ys. rewrite endpoints_snoc, !map_app. cbn [map vmin vmax fst snd].
    repeat split; try (apply is_min_step; apply is_min_step; assumption);
      apply is_max_step; apply is_max_step; assumption.
Qed.

Lemma svg_fold_inv mesh s done : svg_inv s done -> svg_inv (fold_left svg_line mesh s) (done ++ mesh).
Proof.
  revert s done; induction mesh as [|l mesh IH]; intros s done H; cbn [fold_left].
  - now rewrite app_nil_r.
  - replace (done ++ l :: mesh) with ((done ++ [l]) ++ mesh) by now rewrite <- app_assoc.
    apply IH. now apply svg_line_inv.
Qed.

Lemma svg_final_inv mesh : svg_inv (fold_left svg_line mesh svg_new) mesh.
Proof. apply (svg_fold_inv mesh svg_new []). cbn. split; [reflexivity|]. split; [reflexivity|]. intros X. now elim X. Qed.

Lemma combine_fst_snd {A B} (l : list (A * B)) : combine (map fst l) (map snd l) = l.
Proof. induction l as [|[a b] l IH]; cbn; [reflexivity | now rewrite IH]. Qed.

(* the stored bounds are the extremes of all end points *)
Lemma svg_bounds_extremes mesh : mesh <> [] ->
  let '(mn, mx) := svg_bounds mesh in
  is_min (fst mn) (xs mesh) /\ is_min (snd mn) (ys mesh) /\
  is_max (fst mx) (xs mesh) /\ is_max (snd mx) (ys mesh).
Proof.
  intros Hne. pose proof (svg_final_inv mesh) as H. unfold svg_bounds.
  destruct (fold_left svg_line mesh svg_new) as [[[p0s p1s] mn] mx]. cbn in H. now apply H.
Qed.

(* one output line per segment, same order: translation by the minimum corner, Y flipped *)
Lemma svg_is_flip_translate mesh :
  let '(mn, mx) := svg_bounds mesh in
  let '(w, h, lines) := save_svg mesh in
  lines = map (flip_translate (fst mn) (snd mx)) mesh.
Proof.
  pose proof (svg_final_inv mesh) as H. unfold svg_bounds, save_svg.
  destruct (fold_left svg_line mesh svg_new) as [[[p0s p1s] mn] mx]. cbn [svg_save].
  destruct H as (H0 & H1 & _). rewrite H0, H1, combine_fst_snd.
  apply map_ext. intros [[x0 y0] [x1 y1]]. reflexivity.
Qed.

(* the canvas is the extent of the drawing *)
Lemma svg_extent mesh :
  let '(mn, mx) := svg_bounds mesh in
  let '(w, h, lines) := save_svg mesh in
  w = fst mx - fst mn /\ h = snd mx - snd mn.
Proof.
  unfold svg_bounds, save_svg. destruct (fold_left svg_line mesh svg_new) as [[[p0s p1s] mn] mx].
  cbn [svg_save]. auto.
Qed.

Lemma svg_empty : save_svg [] = (0 - 0, 0 - 0, []).
Proof. reflexivity. Qed.

Definition in_canvas (w h : Q) (l : Q * Q * Q * Q) : Prop :=
  let '(x1, y1, x2, y2) := l in
  0 <= x1 /\ x1 <= w /\ 0 <= y1 /\ y1 <= h /\ 0 <= x2 /\ x2 <= w /\ 0 <= y2 /\ y2 <= h.

Lemma in_xs mesh p0 p1 : In (p0, p1) mesh ->
  In (fst p0) (xs mesh) /\ In (fst p1) (xs mesh) /\ In (snd p0) (ys mesh) /\ In (snd p1) (ys mesh).
Proof.
  intros H. unfold xs, ys, endpoints.
  repeat split; apply in_map; apply in_flat_map; exists (p0, p1); (split; [exact H|]); cbn; auto.
Qed.

Lemma svg_in_canvas mesh :
  let '(w, h, lines) := save_svg mesh in Forall (in_canvas w h) lines.
Proof.
  pose proof (svg_is_flip_translate mesh) as HF. pose proof (svg_extent mesh) as HE.
  destruct mesh as [|l0 mesh0]; [cbn; constructor|].
  pose proof (svg_bounds_extremes (l0 :: mesh0)) as HB.
  destruct (svg_bounds (l0 :: mesh0)) as [mn mx]. destruct (save_svg (l0 :: mesh0)) as [[w h] lines].
  destruct HB as ((_ & Bx) & (_ & By) & (_ & Cx) & (_ & Cy)); [discriminate|].
  destruct HE as [-> ->]. subst lines. apply Forall_forall. intros o Ho.
  apply in_map_iff in Ho as ([[x0 y0] [x1 y1]] & <- & Hin).
  destruct (in_xs _ _ _ Hin) as (I1 & I2 & I3 & I4). cbn [fst snd] in I1, I2, I3, I4.
  pose proof (Bx _ I1). pose proof (Bx _ I2). pose proof (By _ I3). pose proof (By _ I4).
  pose proof (Cx _ I1). pose proof (Cx _ I2). pose proof (Cy _ I3). pose proof (Cy _ I4).
  cbn [flip_translate in_canvas]. repeat split; lra.
Qed.

(* the canvas is tight: some output coordinate is 0 and some equals the width / height *)
Lemma svg_canvas_tight mesh : mesh <> [] ->
  let '(w, h, lines) := save_svg mesh in
  (exists l, In l lines /\ let '(x1, y1, x2, y2) := l in x1 == 0 \/ x2 == 0) /\
  (exists l, In l lines /\ let '(x1, y1, x2, y2) := l in x1 == w \/ x2 == w) /\
  (exists l, In l lines /\ let '(x1, y1, x2, y2) := l in y1 == 0 \/ y2 == 0) /\
  (exists l, In l lines /\ let '(x1, y1, x2, y2) := l in y1 == h \/ y2 == h).
Proof.
  intros Hne. pose proof (svg_is_flip_translate mesh) as HF. pose proof (svg_extent mesh) as HE.
  pose proof (svg_bounds_extremes mesh Hne) as HB.
  destruct (svg_bounds mesh) as [mn mx]. destruct (save_svg mesh) as [[w h] lines].
  destruct HB as ((Bx & _) & (By & _) & (Cx & _) & (Cy & _)). destruct HE as [-> ->]. subst lines.
  assert (Hpt : forall (f : vec2 -> Q) m, In m (map f (endpoints mesh)) ->
            exists p0 p1, In (p0, p1) mesh /\ (f p0 = m \/ f p1 = m)).
  { intros f m Hm. apply in_map_iff in Hm as (p & <- & Hp). apply in_flat_map in Hp as ([p0 p1] & Hl & Hp).
    exists p0, p1. split; [exact Hl|]. cbn in Hp. destruct Hp as [<-|[<-|[]]]; auto. }
  repeat split.
  - destruct (Hpt fst _ Bx) as ([x0 y0] & [x1 y1] & Hl & Hm). eexists. split; [apply in_map, Hl|].
    cbn [flip_translate fst] in *. destruct Hm as [-> | ->]; [left | right]; ring.
  - destruct (Hpt fst _ Cx) as ([x0 y0] & [x1 y1] & Hl & Hm). eexists. split; [apply in_map, Hl|].
    cbn [flip_translate fst] in *. destruct Hm as [-> | ->]; [left | right]; ring.
  - destruct (Hpt snd _ Cy) as ([x0 y0] & [x1 y1] & Hl & Hm). eexists. split; [apply in_map, Hl|].
    cbn [flip_translate snd] in *. destruct Hm as [-> | ->]; [left | right]; ring.
  - destruct (Hpt snd _ By) as ([x0 y0] & [x1 y1] & Hl & Hm). eexists. split; [apply in_map, Hl|].
    cbn [flip_translate snd] in *. destruct Hm as [-> | ->]; [left | right]; ring.
Qed.

Lemma write_svg_batching batches : write_svg batches = save_svg (concat batches).
Proof. unfold write_svg, save_svg. now rewrite fold_batches. Qed.

(* ================================================================== correspondence *)
(* -- 3MF: float64 corner coordinates as supplied (per Write call); the vertex
      table read back from the file as integers in units of 1e-4; the triangles *)
Definition nq3 (v : q3) : q3 := let '(x, y, z) := v in (f32round x, f32round y, f32round z).
Definition red3 (v : q3) : q3 := let '(x, y, z) := v in (Qred x, Qred y, Qred z).
Definition map_tri {A B} (f : A -> B) (t : A * A * A) : B * B * B := let '(a, b, c) := t in (f a, f b, f c).
Definition fmt3 (d : Z) (v : q3) : z3 := let '(x, y, z) := v in (fmt_dec d x, fmt_dec d y, fmt_dec d z).
Definition n3 := (N * N * N)%type.
Definition it_to_n (t : nat * nat * nat) : n3 := let '(i, j, k) := t in (N.of_nat i, N.of_nat j, N.of_nat k).
Definition n3eqb (a b : n3) : bool :=
  let '(a0, a1, a2) := a in let '(b0, b1, b2) := b in N.eqb a0 b0 && N.eqb a1 b1 && N.eqb a2 b2.
Fixpoint list_eqb {A B} (e : A -> B -> bool) (l : list A) (m : list B) : bool :=
  match l, m with
  | [], [] => true
  | x :: l', y :: m' => e x y && list_eqb e l' m'
  | _, _ => false
  end.

Definition mf_case := (N * list (list (q3 * q3 * q3)) * list z3 * list n3)%type.
Definition mf_case_ok (c : mf_case) : bool :=
  let '(id, batches, verts, tris) := c in
  let '(tbl, its) := mf_write_now (map (map (map_tri nq3)) batches) in
  list_eqb z3eqb (map (fmt3 4) tbl) verts && list_eqb n3eqb (map it_to_n its) tris.
Definition mismatches_mf (cs : list mf_case) : list N :=
  map (fun c : mf_case => let '(id, _, _, _) := c in id) (filter (fun c => negb (mf_case_ok c)) cs).

(* -- go3mf MeshBuilder driven directly: float32 corners, its vertex table (exact), its indices *)
Definition mb_case := (N * list (q3 * q3 * q3) * list q3 * list n3)%type.
Definition mb_case_ok (c : mb_case) : bool :=
  let '(id, ts, verts, tris) := c in
  let '(tbl, its) := mf_write_pinned [map (map_tri red3) ts] in
  list_eqb q3eqb tbl (map red3 verts) && list_eqb n3eqb (map it_to_n its) tris.
Definition mismatches_mb (cs : list mb_case) : list N :=
  map (fun c : mb_case => let '(id, _, _, _) := c in id) (filter (fun c => negb (mb_case_ok c)) cs).

(* -- DXF: the LINE entities read back, coordinates as integers in units of 1e-16
      (yofu/dxf drawing.New sets its formatter to 16 decimals) *)
Definition dxf_obs := (string * z3 * z3)%type.
Definition dxf_obs_eqb (a b : dxf_obs) : bool :=
  let '(la, pa, qa) := a in let '(lb, pb, qb) := b in String.eqb la lb && z3eqb pa pb && z3eqb qa qb.
(* via: 0 = ToDXF (writeDXF), 1 = SaveDXF, 2 = NewDXF + DXF.Lines + Save *)
Definition dxf_case := (N * N * list (list seg) * list dxf_obs)%type.
Definition dxf_case_ok (c : dxf_case) : bool :=
  let '(id, via, batches, ents) := c in
  let model := match via with
               | 0%N => write_dxf batches
               | 1%N => save_dxf (concat batches)
               | _ => dxf_object_lines batches
               end in
  list_eqb dxf_obs_eqb
    (map (fun e : dxf_ent => let '(l, p, q) := e in (l, fmt3 16 p, fmt3 16 q)) model) ents.
Definition mismatches_dxf (cs : list dxf_case) : list N :=
  map (fun c : dxf_case => let '(id, _, _, _) := c in id) (filter (fun c => negb (dxf_case_ok c)) cs).

(* -- SVG: width, height and the lines read back, integers in units of 1e-2.  The Go
      code subtracts in float64, the model exactly: a printed value p agrees with
      the exact value d when |p - 100 d| <= 1/2 + 100 |d| 2^-50 (half a unit of the
      last printed digit plus the rounding of one subtraction, with margin). *)
Definition near2 (p : Z) (d : Q) : bool :=
  Qle_bool (Qabs (inject_Z p - 100 * d)) ((1 # 2) + 100 * Qabs d * (1 # 1125899906842624)).
(* via: 0 = ToSVG (writeSVG), otherwise SaveSVG / SVG.Line + Save *)
Definition svg_case := (N * N * list (list seg) * Z * Z * list (Z * Z * Z * Z))%type.
Definition svg_case_ok (c : svg_case) : bool :=
  let '(id, via, batches, pw, ph, plines) := c in
  let '(w, h, lines) := match via with 0%N => write_svg batches | _ => save_svg (concat batches) end in
  near2 pw w && near2 ph h &&
  list_eqb (fun (m : Q * Q * Q * Q) (p : Z * Z * Z * Z) =>
              let '(a, b, c, d) := m in let '(pa, pb, pc, pd) := p in
              near2 pa a && near2 pb b && near2 pc c && near2 pd d) lines plines.
Definition mismatches_svg (cs : list svg_case) : list N :=
  map (fun c : svg_case => let '(id, _, _, _, _, _) := c in id) (filter (fun c => negb (svg_case_ok c)) cs).
