(* The syntactic tie for Triangle3.Normal (sdf/triangle3.go), the normal written into every STL
   facet: the definition generated from the Go AST (Generated/RenderExpr.v:
   e1 := t[1].Sub(t[0]); e2 := t[2].Sub(t[0]); e1.Cross(e2).Normalize(), with Sub, Cross, Dot,
   Length2, Length, MulScalar, Normalize of vec/v3 translated as callees) is the model
   Stl.normal_g, at every number system; Stl.float_ops is the binary64 instance FOps. *)
From Coq Require Import ZArith List Bool Floats.
From Sdfx Require Import Num.Ops Num.FInst Geo.Vec Io.Stl Generated.RenderExpr.
Import OpsNotations.
Local Open Scope ops_scope.

Definition ops_of (O : Ops) : Stl.ops (T O) :=
  {| o_sub := osub O; o_add := oadd O; o_mul := omul O; o_div := odiv O; o_sqrt := osqrt O; o_one := o1 O |}.

Definition v3_of {O : Ops} (a : T O * T O * T O) : V3 O := let '(x, y, z) := a in mkV3 x y z.

Lemma Triangle3_Normal_eq (O : Ops) : forall a b c : T O * T O * T O,
    rg_sdf_Triangle3_Normal (v3_of a, v3_of b, v3_of c) = v3_of (normal_g (ops_of O) a b c).
Proof.
  intros [[ax ay] az] [[bx by_] bz] [[cx cy] cz].
  first [ reflexivity | fail 1 "TRANSL_render_Triangle3_Normal: the definition generated from the current Go source is not convertible to Stl.normal_g" ].
Qed.

Lemma float_ops_FOps : float_ops = ops_of FOps.
Proof. reflexivity. Qed.
