(* Combinatorial model of marching squares (render/march2.go) over the regenerated tables:
   which segments a cell emits, in terms of GLOBAL vertex identities (a crossing = a lattice
   edge (x, y, axis)).  Segment i of a cell is  l[0] = points[table[2i+1]], l[1] = points[table[2i]].
   deg l v = number of segment end points equal to v. *)
From Coq Require Import List ZArith NArith Lia Bool.
From Sdfx Require Import Generated.MarchTables.
From Sdfx Require Import Render.Balance.
Import ListNotations.
Open Scope Z_scope.

Definition pt2 := (Z * Z)%type.
Definition gv2 := (pt2 * Z)%type.          (* base point, axis 0/1 *)
Notation seg := (gv2 * gv2)%type.

Definition gv2_eqb (a b : gv2) : bool :=
  let '(ax, ay, aa) := a in let '(bx, by_, ba) := b in (ax =? bx) && (ay =? by_) && (aa =? ba).
Lemma gv2_eqb_eq a b : gv2_eqb a b = true <-> a = b.
Proof.
  destruct a as [[ax ay] aa], b as [[bx by_] ba]; unfold gv2_eqb.
  rewrite !andb_true_iff, !Z.eqb_eq. split; [intros [[-> ->] ->]; reflexivity | intros [= -> -> ->]; auto].
Qed.

Definition deg2 : list seg -> gv2 -> Z := deg gv2_eqb.

(* ------------------------------------------------------------------ the cell *)
Definition sq_corner_off (c : N) : pt2 :=
  match c with 0%N => (0, 0) | 1%N => (1, 0) | 2%N => (1, 1) | _ => (0, 1) end.
Definition sq_corner_at (x y : Z) : N :=
  match x, y with 0, 0 => 0%N | 1, 0 => 1%N | 1, 1 => 2%N | _, _ => 3%N end.

Definition sq_pair_of (e : N) : N * N := nth (N.to_nat e) msPairTable (0%N, 0%N).
Definition sq_edge_mask (cfg : N) : N := nth (N.to_nat cfg) msEdgeTable 0%N.
Definition line_row (cfg : N) : list N := nth (N.to_nat cfg) msLineTable [].

Definition sq_ledge (e : N) : gv2 :=
  let '(a, b) := sq_pair_of e in
  let '(ax, ay) := sq_corner_off a in let '(bx, by_) := sq_corner_off b in
  (Z.min ax bx, Z.min ay by_, if ax =? bx then 1 else 0).

(* count := len(table)/2;  l[1], l[0] := points[table[2i]], points[table[2i+1]] *)
Fixpoint chunk2 (l : list N) : list (N * N) :=
  match l with
  | a :: b :: r => (b, a) :: chunk2 r
  | _ => []
  end.
Definition local_lines (cfg : N) : list (N * N) := chunk2 (line_row cfg).
Definition cell_lines (cfg : N) : list seg :=
  map (fun l : N * N => (sq_ledge (fst l), sq_ledge (snd l))) (local_lines cfg).

Definition b2n2 (b : bool) : N := if b then 1%N else 0%N.
Definition sq_of_bools (b0 b1 b2 b3 : bool) : N := (b2n2 b0 + 2 * b2n2 b1 + 4 * b2n2 b2 + 8 * b2n2 b3)%N.
Lemma sq_of_bools_spec b0 b1 b2 b3 :
  let c := sq_of_bools b0 b1 b2 b3 in
  (c < 16)%N /\ N.testbit c 0 = b0 /\ N.testbit c 1 = b1 /\ N.testbit c 2 = b2 /\ N.testbit c 3 = b3.
Proof. destruct b0, b1, b2, b3; vm_compute; repeat split. Qed.

Definition sq_cfgs : list N := map N.of_nat (seq 0 16).
Definition sq_edges4 : list N := map N.of_nat (seq 0 4).
Lemma in_sq_cfgs c : (c < 16)%N -> In c sq_cfgs.
Proof.
  intros H. unfold sq_cfgs. apply in_map_iff. exists (N.to_nat c). split; [apply N2Nat.id|]. apply in_seq. lia.
Qed.
Lemma in_sq_edges4 e : (e < 4)%N -> In e sq_edges4.
Proof.
  intros H. unfold sq_edges4. apply in_map_iff. exists (N.to_nat e). split; [apply N2Nat.id|]. apply in_seq. lia.
Qed.
Lemma forallb_sq_cfgs (f : N -> bool) : forallb f sq_cfgs = true -> forall c, (c < 16)%N -> f c = true.
Proof. intros H c Hc. rewrite forallb_forall in H. apply H. now apply in_sq_cfgs. Qed.
Lemma forallb_sq_edges (f : N -> bool) : forallb f sq_edges4 = true -> forall e, (e < 4)%N -> f e = true.
Proof. intros H e He. rewrite forallb_forall in H. apply H. now apply in_sq_edges4. Qed.

(* ---- msPairTable *)
Definition sq_pair_is_edge (e : N) : bool :=
  let '(a, b) := sq_pair_of e in
  let '(ax, ay) := sq_corner_off a in let '(bx, by_) := sq_corner_off b in
  (a <? 4)%N && (b <? 4)%N && (Z.abs (ax - bx) + Z.abs (ay - by_) =? 1).
Fixpoint distinct_gv2 (l : list gv2) : bool :=
  match l with
  | [] => true
  | x :: r => negb (existsb (gv2_eqb x) r) && distinct_gv2 r
  end.
Definition sq_pairs_check : bool :=
  (length msPairTable =? 4)%nat && forallb sq_pair_is_edge sq_edges4 && distinct_gv2 (map sq_ledge sq_edges4).

(* ---- msEdgeTable *)
Definition sq_crossing (cfg e : N) : bool :=
  let '(a, b) := sq_pair_of e in xorb (N.testbit cfg a) (N.testbit cfg b).
Definition sq_edge_row_check (cfg : N) : bool :=
  forallb (fun e => Bool.eqb (N.testbit (sq_edge_mask cfg) e) (sq_crossing cfg e)) sq_edges4
  && (sq_edge_mask cfg <? 16)%N.
Definition sq_edge_table_check : bool := (length msEdgeTable =? 16)%nat && forallb sq_edge_row_check sq_cfgs.

(* ---- msLineTable: whole segments over crossing edges; every crossing edge is an end point of
   exactly one segment of the cell, other edges of none *)
Definition ncount (e : N) (l : list N) : nat := length (filter (N.eqb e) l).
Definition line_row_check (cfg : N) : bool :=
  (N.of_nat (length (line_row cfg)) mod 2 =? 0)%N &&
  forallb (fun e => (e <? 4)%N) (line_row cfg) &&
  forallb (fun e => (ncount e (line_row cfg) =? (if sq_crossing cfg e then 1 else 0))%nat) sq_edges4.
Definition line_table_check : bool := (length msLineTable =? 16)%nat && forallb line_row_check sq_cfgs.

(* ------------------------------------------------------------------ faces (= sides of the square) *)
Definition unit2 (d : Z) : pt2 := if d =? 0 then (1, 0) else (0, 1).
Definition addp2 (p q : pt2) : pt2 := (fst p + fst q, snd p + snd q).
Definition negp2 (p : pt2) : pt2 := (- fst p, - snd p).
Definition shiftv2 (p : pt2) (v : gv2) : gv2 := (addp2 p (fst v), snd v).
Definition shiftS (p : pt2) (s : seg) : seg := (shiftv2 p (fst s), shiftv2 p (snd s)).

Lemma shiftv2_neg p v : shiftv2 (negp2 p) (shiftv2 p v) = v.
Proof. destruct p as [px py], v as [[x y] a]; unfold shiftv2, negp2, addp2; cbn [fst snd]. repeat f_equal; lia. Qed.
Lemma shiftv2_neg' p v : shiftv2 p (shiftv2 (negp2 p) v) = v.
Proof. destruct p as [px py], v as [[x y] a]; unfold shiftv2, negp2, addp2; cbn [fst snd]. repeat f_equal; lia. Qed.

(* the side of the square normal to d through the cell origin is the lattice edge along the other axis *)
Definition fvert (d : Z) : gv2 := (0, 0, if d =? 0 then 1 else 0).
(* two-bit signature of the side  coord d = s *)
Definition side_corner (d s u : Z) : N := if d =? 0 then sq_corner_at s u else sq_corner_at u s.
Definition sidesig (d s : Z) (cfg : N) : N :=
  (b2n2 (N.testbit cfg (side_corner d s 0)) + 2 * b2n2 (N.testbit cfg (side_corner d s 1)))%N.
(* configuration repeating a side signature on both sides normal to d *)
Definition ext2 (d : Z) (sg : N) : N :=
  if d =? 0
  then sq_of_bools (N.testbit sg 0) (N.testbit sg 0) (N.testbit sg 1) (N.testbit sg 1)
  else sq_of_bools (N.testbit sg 0) (N.testbit sg 1) (N.testbit sg 1) (N.testbit sg 0).
(* canonical weight of a side signature: the number of segment end points the configuration
   ext2 d sg puts on its lower side d (1 when the side is sign-changing, else 0).  Note that the
   line table is NOT consistently directed (complementary configurations emit the same directed
   segment), so only the undirected degree is meaningful in 2D. *)
Definition xpat (d : Z) (sg : N) : Z := deg2 (cell_lines (ext2 d sg)) (fvert d).

(* weighted vertex sums *)
Definition wsum (m : list (gv2 * Z)) (v : gv2) : Z :=
  fold_right Z.add 0 (map (fun wc : gv2 * Z => if gv2_eqb v (fst wc) then snd wc else 0) m).
Definition rhs2 (cfg : N) : list (gv2 * Z) :=
  flat_map (fun d => [(fvert d, xpat d (sidesig d 0 cfg)); (shiftv2 (unit2 d) (fvert d), xpat d (sidesig d 1 cfg))]) [0; 1].
Definition seg_verts (l : list seg) : list gv2 := map fst l ++ map snd l.
Definition sq_cell_check (cfg : N) : bool :=
  let l := cell_lines cfg in
  forallb (fun v => deg2 l v =? wsum (rhs2 cfg) v) (seg_verts l ++ map fst (rhs2 cfg)).

Lemma wsum_notin m v : ~ In v (map fst m) -> wsum m v = 0.
Proof.
  induction m as [|[w c] m IH]; cbn [map In fst]; intros H; [reflexivity|].
  unfold wsum in *. cbn [map fold_right fst snd]. rewrite IH by tauto.
  destruct (gv2_eqb v w) eqn:E; [apply gv2_eqb_eq in E; subst; tauto | reflexivity].
Qed.
Lemma deg2_notin l v : ~ In v (seg_verts l) -> deg2 l v = 0.
Proof.
  intros H. unfold deg2, deg, starts, ends, seg_verts in *.
  rewrite !(cnt_notin gv2_eqb gv2_eqb_eq); [reflexivity| |]; intro; apply H; apply in_or_app; tauto.
Qed.
Lemma sq_cell_check_sound cfg : sq_cell_check cfg = true ->
  forall v, deg2 (cell_lines cfg) v = wsum (rhs2 cfg) v.
Proof.
  unfold sq_cell_check. cbv zeta. rewrite forallb_forall. intros H v.
  destruct (in_dec (dec gv2_eqb gv2_eqb_eq) v (seg_verts (cell_lines cfg) ++ map fst (rhs2 cfg))) as [Hin|Hnin].
  - specialize (H v Hin). now apply Z.eqb_eq in H.
  - assert (N1 : ~ In v (seg_verts (cell_lines cfg))) by (intro; apply Hnin; apply in_or_app; tauto).
    assert (N2 : ~ In v (map fst (rhs2 cfg))) by (intro; apply Hnin; apply in_or_app; tauto).
    rewrite (deg2_notin _ _ N1). now rewrite wsum_notin.
Qed.

(* the lattice edge of local edge e joins exactly the two corners of msPairTable[e] *)
Definition pt2_eqb (p q : pt2) : bool := (fst p =? fst q) && (snd p =? snd q).
Lemma pt2_eqb_eq p q : pt2_eqb p q = true <-> p = q.
Proof.
  destruct p as [px py], q as [qx qy]; unfold pt2_eqb; cbn [fst snd]. rewrite !andb_true_iff, !Z.eqb_eq.
  split; [intros [-> ->]; reflexivity | intros [= -> ->]; auto].
Qed.
Definition sq_ledge_ends_check (e : N) : bool :=
  let '(a, b) := sq_pair_of e in
  let v := sq_ledge e in
  (a <? 4)%N && (b <? 4)%N &&
  ((pt2_eqb (fst v) (sq_corner_off a) && pt2_eqb (addp2 (fst v) (unit2 (snd v))) (sq_corner_off b)) ||
   (pt2_eqb (fst v) (sq_corner_off b) && pt2_eqb (addp2 (fst v) (unit2 (snd v))) (sq_corner_off a))).
Lemma sq_ledge_ends_ok_c : forallb sq_ledge_ends_check sq_edges4 = true.
Proof. vm_compute. reflexivity. Qed.
Lemma sq_ledge_ends e : (e < 4)%N ->
  let '(a, b) := sq_pair_of e in
  (a < 4)%N /\ (b < 4)%N /\
  ((fst (sq_ledge e) = sq_corner_off a /\ addp2 (fst (sq_ledge e)) (unit2 (snd (sq_ledge e))) = sq_corner_off b) \/
   (fst (sq_ledge e) = sq_corner_off b /\ addp2 (fst (sq_ledge e)) (unit2 (snd (sq_ledge e))) = sq_corner_off a)).
Proof.
  intros He. pose proof (forallb_sq_edges _ sq_ledge_ends_ok_c e He) as H. unfold sq_ledge_ends_check in H.
  destruct (sq_pair_of e) as [a b]. cbv zeta in H.
  rewrite !andb_true_iff, orb_true_iff, !andb_true_iff, !pt2_eqb_eq, !N.ltb_lt in H. tauto.
Qed.
Lemma addp2_assoc p q r : addp2 (addp2 p q) r = addp2 p (addp2 q r).
Proof. destruct p, q, r. unfold addp2; cbn [fst snd]. f_equal; lia. Qed.
Lemma in_chunk2 l a b : In (a, b) (chunk2 l) -> In a l /\ In b l.
Proof.
  revert l a b. fix IH 1. intros l a b. destruct l as [|x [|y r]]; cbn [chunk2]; try (intros F; contradiction).
  intros [E|Hr].
  - inversion E; subst. cbn; tauto.
  - destruct (IH r a b Hr) as (Ha & Hb). cbn; tauto.
Qed.

(* soundness of the table checks *)
Lemma sq_pairs_ok : sq_pairs_check = true.
Proof. vm_compute. reflexivity. Qed.
Lemma sq_edge_table_ok_c : sq_edge_table_check = true.
Proof. vm_compute. reflexivity. Qed.
Lemma line_table_ok_c : line_table_check = true.
Proof. vm_compute. reflexivity. Qed.

Lemma sq_edge_row_ok cfg : (cfg < 16)%N -> sq_edge_row_check cfg = true.
Proof.
  pose proof sq_edge_table_ok_c as H. unfold sq_edge_table_check in H. apply andb_true_iff in H as [_ H].
  now apply forallb_sq_cfgs.
Qed.
Lemma sq_edge_table_ok cfg e : (cfg < 16)%N -> (e < 4)%N -> N.testbit (sq_edge_mask cfg) e = sq_crossing cfg e.
Proof.
  intros Hc He. pose proof (sq_edge_row_ok cfg Hc) as H. unfold sq_edge_row_check in H. apply andb_true_iff in H as [H _].
  apply eqb_prop. now apply (forallb_sq_edges _ H).
Qed.
Lemma line_row_ok cfg : (cfg < 16)%N -> line_row_check cfg = true.
Proof.
  pose proof line_table_ok_c as H. unfold line_table_check in H. apply andb_true_iff in H as [_ H].
  now apply forallb_sq_cfgs.
Qed.
Lemma lines_use_edges cfg e : (cfg < 16)%N -> In e (line_row cfg) -> (e < 4)%N.
Proof.
  intros Hc Hin. pose proof (line_row_ok cfg Hc) as H. unfold line_row_check in H. rewrite !andb_true_iff in H.
  destruct H as [[_ H] _]. rewrite forallb_forall in H. apply N.ltb_lt. now apply H.
Qed.
Lemma ncount_pos e l : In e l -> (0 < ncount e l)%nat.
Proof.
  intros H. unfold ncount. assert (X : In e (filter (N.eqb e) l)) by (apply filter_In; split; [exact H | apply N.eqb_refl]).
  destruct (filter (N.eqb e) l); [destruct X | cbn; lia].
Qed.
(* every sign-changing side is an end point of exactly one segment of the cell, other sides of none *)
Lemma each_crossing_used_once cfg e : (cfg < 16)%N -> (e < 4)%N ->
  ncount e (line_row cfg) = if sq_crossing cfg e then 1%nat else 0%nat.
Proof.
  intros Hc He. pose proof (line_row_ok cfg Hc) as H. unfold line_row_check in H. rewrite !andb_true_iff in H.
  destruct H as [_ H]. apply Nat.eqb_eq. now apply (forallb_sq_edges _ H).
Qed.
Lemma lines_use_crossing_edges cfg e : (cfg < 16)%N -> In e (line_row cfg) -> (e < 4)%N /\ sq_crossing cfg e = true.
Proof.
  intros Hc Hin. pose proof (lines_use_edges cfg e Hc Hin) as He. split; [exact He|].
  pose proof (each_crossing_used_once cfg e Hc He) as H. pose proof (ncount_pos e _ Hin) as P.
  destruct (sq_crossing cfg e); [reflexivity | lia].
Qed.
Lemma line_rows_whole cfg : (cfg < 16)%N -> (N.of_nat (length (line_row cfg)) mod 2 = 0)%N.
Proof.
  intros Hc. pose proof (line_row_ok cfg Hc) as H. unfold line_row_check in H. rewrite !andb_true_iff in H.
  destruct H as [[H _] _]. now apply N.eqb_eq.
Qed.
Lemma sq_nonempty cfg : (cfg < 16)%N -> cfg <> 0%N -> cfg <> 15%N -> local_lines cfg <> [].
Proof.
  intros Hc. assert (X : forallb (fun c => (c =? 0)%N || (c =? 15)%N || negb (length (local_lines c) =? 0)%nat) sq_cfgs = true)
    by (vm_compute; reflexivity).
  pose proof (forallb_sq_cfgs _ X cfg Hc) as H. cbn beta in H. intros H0 H15 E.
  apply N.eqb_neq in H0, H15. rewrite H0, H15, E in H. discriminate.
Qed.
