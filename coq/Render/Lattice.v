(* The lift of the per-cell table facts to whole lattices (3D part; the 2D part is in MS.v).

   mesh nx ny nz sgn = all triangles emitted by the cube walk of marchingCubes over a lattice of
   nx*ny*nz cells for the sign assignment sgn (true = "v < x"), with GLOBAL vertex identities.
   mesh_closed: if every lattice point on the boundary of the lattice is outside, every directed
   edge is matched by its reverse equally often.  Proof: the cell identity (MC.cell_check, decided
   over the 256 configurations) writes the balance of a cell as a difference G d p - G d (p+e_d)
   of per-face terms along each axis; the sum over the lattice telescopes to the boundary faces,
   whose pattern is empty. *)
From Coq Require Import List ZArith NArith Lia Bool.
From Sdfx Require Import Generated.MarchTables.
From Sdfx Require Import Render.Balance.
From Sdfx Require Import Render.MC.
Import ListNotations.
Open Scope Z_scope.

(* ------------------------------------------------------------------ finite sums *)
Definition zsum {A} (l : list A) (f : A -> Z) : Z := fold_right Z.add 0 (map f l).

Lemma zsum_nil {A} (f : A -> Z) : zsum [] f = 0.
Proof. reflexivity. Qed.
Lemma zsum_cons {A} x (l : list A) f : zsum (x :: l) f = f x + zsum l f.
Proof. reflexivity. Qed.
Lemma zsum_app {A} (l m : list A) f : zsum (l ++ m) f = zsum l f + zsum m f.
Proof. induction l as [|x l IH]; [reflexivity|]. cbn [app]. rewrite !zsum_cons, IH. ring. Qed.
Lemma zsum_ext {A} (l : list A) f g : (forall x, In x l -> f x = g x) -> zsum l f = zsum l g.
Proof.
  induction l as [|x l IH]; intros H; [reflexivity|]. rewrite !zsum_cons, IH, (H x); [reflexivity|now left|].
  intros y Hy. apply H. now right.
Qed.
Lemma zsum_zero {A} (l : list A) f : (forall x, In x l -> f x = 0) -> zsum l f = 0.
Proof. induction l as [|x l IH]; intros H; [reflexivity|]. rewrite zsum_cons, IH, (H x); [reflexivity|now left|]. intros y Hy; apply H; now right. Qed.
Lemma zsum_add {A} (l : list A) f g : zsum l (fun x => f x + g x) = zsum l f + zsum l g.
Proof. induction l as [|x l IH]; [reflexivity|]. rewrite !zsum_cons, IH. ring. Qed.
Lemma zsum_sub {A} (l : list A) f g : zsum l (fun x => f x - g x) = zsum l f - zsum l g.
Proof. induction l as [|x l IH]; [reflexivity|]. rewrite !zsum_cons, IH. ring. Qed.
Lemma zsum_map {A B} (h : A -> B) (l : list A) f : zsum (map h l) f = zsum l (fun x => f (h x)).
Proof. unfold zsum. now rewrite map_map. Qed.
Lemma zsum_flat_map {A B} (h : A -> list B) (l : list A) f :
  zsum (flat_map h l) f = zsum l (fun x => zsum (h x) f).
Proof. induction l as [|x l IH]; [reflexivity|]. cbn [flat_map]. rewrite zsum_app, zsum_cons, IH. reflexivity. Qed.

Definition cellsZ (n : nat) : list Z := map Z.of_nat (seq 0 n).
Lemma in_cellsZ i n : In i (cellsZ n) <-> 0 <= i < Z.of_nat n.
Proof.
  unfold cellsZ. rewrite in_map_iff. split.
  - intros (k & <- & Hk). apply in_seq in Hk. lia.
  - intros H. exists (Z.to_nat i). split; [lia|]. apply in_seq. lia.
Qed.
Lemma cellsZ_S n : cellsZ (S n) = cellsZ n ++ [Z.of_nat n].
Proof. unfold cellsZ. rewrite seq_S, map_app. reflexivity. Qed.
Lemma zsum_telescope (g : Z -> Z) n : zsum (cellsZ n) (fun i => g i - g (i + 1)) = g 0 - g (Z.of_nat n).
Proof.
  induction n as [|n IH]; [cbn; ring|].
  rewrite cellsZ_S, zsum_app, IH, zsum_cons, zsum_nil. replace (Z.of_nat (S n)) with (Z.of_nat n + 1) by lia. ring.
Qed.

(* ------------------------------------------------------------------ configuration of a cell *)
Definition pt := (Z * Z * Z)%type.

Definition cfg_at (sgn : pt -> bool) (p : pt) : N :=
  cfg_of_bools (sgn (addp p (corner_off 0))) (sgn (addp p (corner_off 1))) (sgn (addp p (corner_off 2)))
               (sgn (addp p (corner_off 3))) (sgn (addp p (corner_off 4))) (sgn (addp p (corner_off 5)))
               (sgn (addp p (corner_off 6))) (sgn (addp p (corner_off 7))).

Lemma cfg_at_lt sgn p : (cfg_at sgn p < 256)%N.
Proof. unfold cfg_at. apply cfg_of_bools_spec. Qed.

(* offsets of the four corners of the face normal to d through the cell origin *)
Definition fpt (d u v : Z) : pt := if d =? 0 then (0, u, v) else if d =? 1 then (u, 0, v) else (u, v, 0).
Definition sigG (sgn : pt -> bool) (d : Z) (q : pt) : N :=
  (b2n (sgn (addp q (fpt d 0 0))) + 2 * b2n (sgn (addp q (fpt d 1 0))) +
   4 * b2n (sgn (addp q (fpt d 0 1))) + 8 * b2n (sgn (addp q (fpt d 1 1))))%N.

Definition sig4 (a b c d : bool) : N := (b2n a + 2 * b2n b + 4 * b2n c + 8 * b2n d)%N.
Lemma facesig_bools b0 b1 b2 b3 b4 b5 b6 b7 :
  let c := cfg_of_bools b0 b1 b2 b3 b4 b5 b6 b7 in
  facesig 0 0 c = sig4 b0 b3 b4 b7 /\ facesig 0 1 c = sig4 b1 b2 b5 b6 /\
  facesig 1 0 c = sig4 b0 b1 b4 b5 /\ facesig 1 1 c = sig4 b3 b2 b7 b6 /\
  facesig 2 0 c = sig4 b0 b1 b3 b2 /\ facesig 2 1 c = sig4 b4 b5 b7 b6.
Proof. destruct b0, b1, b2, b3, b4, b5, b6, b7; vm_compute; repeat split. Qed.

Lemma facesig_cfg_at sgn p d : d = 0 \/ d = 1 \/ d = 2 ->
  facesig d 0 (cfg_at sgn p) = sigG sgn d p /\ facesig d 1 (cfg_at sgn p) = sigG sgn d (addp p (unit d)).
Proof.
  intros Hd. unfold cfg_at.
  pose proof (facesig_bools (sgn (addp p (corner_off 0))) (sgn (addp p (corner_off 1))) (sgn (addp p (corner_off 2)))
               (sgn (addp p (corner_off 3))) (sgn (addp p (corner_off 4))) (sgn (addp p (corner_off 5)))
               (sgn (addp p (corner_off 6))) (sgn (addp p (corner_off 7)))) as S.
  cbv zeta in S. destruct S as (S00 & S01 & S10 & S11 & S20 & S21).
  destruct p as [[px py] pz].
  destruct Hd as [-> | [-> | ->]]; rewrite ?S00, ?S01, ?S10, ?S11, ?S20, ?S21;
    unfold sig4, sigG, fpt, unit, addp, corner_off; simpl; rewrite ?Z.add_0_r; split; reflexivity.
Qed.

(* ------------------------------------------------------------------ the mesh of a lattice *)
Definition cell_mesh (sgn : pt -> bool) (p : pt) : list tri := map (shiftT p) (cell_tris (cfg_at sgn p)).
Definition cells (nx ny nz : nat) : list pt :=
  flat_map (fun x => flat_map (fun y => map (fun z => (x, y, z)) (cellsZ nz)) (cellsZ ny)) (cellsZ nx).
Definition mesh (nx ny nz : nat) (sgn : pt -> bool) : list tri := flat_map (cell_mesh sgn) (cells nx ny nz).

Definition boundary_outside (nx ny nz : nat) (sgn : pt -> bool) : Prop :=
  forall x y z, 0 <= x <= Z.of_nat nx -> 0 <= y <= Z.of_nat ny -> 0 <= z <= Z.of_nat nz ->
    (x = 0 \/ x = Z.of_nat nx \/ y = 0 \/ y = Z.of_nat ny \/ z = 0 \/ z = Z.of_nat nz) -> sgn (x, y, z) = false.

Lemma edges_of_shift p ts : edges_of (map (shiftT p) ts) = map (shiftE p) (edges_of ts).
Proof.
  induction ts as [|[[a b] c] ts IH]; [reflexivity|].
  cbn [map edges_of flat_map]. fold (edges_of (map (shiftT p) ts)). fold (edges_of ts).
  rewrite IH, map_app. reflexivity.
Qed.
Lemma edges_of_flat_map {A} (f : A -> list tri) l : edges_of (flat_map f l) = flat_map (fun x => edges_of (f x)) l.
Proof.
  induction l as [|x l IH]; [reflexivity|]. cbn [flat_map]. unfold edges_of in *. rewrite flat_map_app, IH. reflexivity.
Qed.

Lemma bal_zsum {A} (f : A -> list dedge) l e : bal (flat_map f l) e = zsum l (fun x => bal (f x) e).
Proof. apply bal_flat_map. Qed.

(* ---- the table facts, decided once *)
Lemma cell_table_ok : forallb cell_check cfgs = true.
Proof. vm_compute. reflexivity. Qed.

Lemma fpat_empty : fpat 0 0 = [] /\ fpat 1 0 = [] /\ fpat 2 0 = [].
Proof. vm_compute. repeat split. Qed.

Lemma cell_identity cfg : (cfg < 256)%N -> forall e, bal (edges_of (cell_tris cfg)) e = bal (rhs cfg) e.
Proof.
  intros H. apply bal_eq_check_sound.
  exact (forallb_cfgs cell_check cell_table_ok cfg H).
Qed.

(* per-face term: the canonical pattern of the signature of the lattice face (d, q), placed at q *)
Definition G (sgn : pt -> bool) (d : Z) (q : pt) (e : dedge) : Z :=
  bal (fpat d (sigG sgn d q)) (shiftE (negp q) e).

Lemma shiftE_shiftE a b e : shiftE a (shiftE b e) = shiftE (addp a b) e.
Proof. destruct e as [u v]. unfold shiftE, mapE. cbn [fst snd]. now rewrite !shiftv_add. Qed.
Lemma negp_addp p q : addp (negp q) (negp p) = negp (addp p q).
Proof. destruct p as [[a b] c], q as [[a' b'] c']. unfold addp, negp. repeat f_equal; lia. Qed.

Lemma addp_unit x y z :
  addp (x, y, z) (unit 0) = (x + 1, y, z) /\ addp (x, y, z) (unit 1) = (x, y + 1, z) /\ addp (x, y, z) (unit 2) = (x, y, z + 1).
Proof. unfold addp, unit. simpl. rewrite !Z.add_0_r. auto. Qed.

Lemma cell_balance sgn p e :
  bal (edges_of (cell_mesh sgn p)) e =
  (G sgn 0 p e - G sgn 0 (addp p (unit 0)) e) + (G sgn 1 p e - G sgn 1 (addp p (unit 1)) e) +
  (G sgn 2 p e - G sgn 2 (addp p (unit 2)) e).
Proof.
  unfold cell_mesh. rewrite edges_of_shift, bal_shift, (cell_identity _ (cfg_at_lt sgn p)).
  unfold rhs. cbn [flat_map]. rewrite !bal_app, bal_nil, !bal_map_rev, !bal_shift, !shiftE_shiftE, !negp_addp.
  destruct (facesig_cfg_at sgn p 0) as [L0 U0]; [auto|].
  destruct (facesig_cfg_at sgn p 1) as [L1 U1]; [auto|].
  destruct (facesig_cfg_at sgn p 2) as [L2 U2]; [auto|].
  rewrite L0, U0, L1, U1, L2, U2. unfold G.
  repeat match goal with |- context [bal ?l ?x] => let t := fresh "t" in generalize (bal l x); intro t end.
  ring.
Qed.

Lemma G_outside sgn d q e : d = 0 \/ d = 1 \/ d = 2 ->
  sgn (addp q (fpt d 0 0)) = false -> sgn (addp q (fpt d 1 0)) = false ->
  sgn (addp q (fpt d 0 1)) = false -> sgn (addp q (fpt d 1 1)) = false -> G sgn d q e = 0.
Proof.
  intros Hd H0 H1 H2 H3. unfold G, sigG. rewrite H0, H1, H2, H3. cbn [b2n N.add N.mul].
  destruct fpat_empty as (E0 & E1 & E2). destruct Hd as [-> | [-> | ->]]; rewrite ?E0, ?E1, ?E2; apply bal_nil.
Qed.

(* ---- balance of the whole mesh as a triple sum *)
Lemma mesh_balance_sum nx ny nz sgn e :
  bal (edges_of (mesh nx ny nz sgn)) e =
  zsum (cellsZ nx) (fun x => zsum (cellsZ ny) (fun y => zsum (cellsZ nz) (fun z =>
     bal (edges_of (cell_mesh sgn (x, y, z))) e))).
Proof.
  unfold mesh. rewrite edges_of_flat_map, bal_zsum. unfold cells. rewrite zsum_flat_map.
  apply zsum_ext; intros x _. rewrite zsum_flat_map. apply zsum_ext; intros y _. now rewrite zsum_map.
Qed.

Theorem mesh_closed nx ny nz sgn : boundary_outside nx ny nz sgn ->
  forall e, bal (edges_of (mesh nx ny nz sgn)) e = 0.
Proof.
  intros B e. rewrite mesh_balance_sum.
  (* split the cell balance into its three axis differences *)
  rewrite (zsum_ext _ _ (fun x => zsum (cellsZ ny) (fun y => zsum (cellsZ nz) (fun z => G sgn 0 (x, y, z) e))
                               - zsum (cellsZ ny) (fun y => zsum (cellsZ nz) (fun z => G sgn 0 (x + 1, y, z) e))
                               + zsum (cellsZ ny) (fun y => zsum (cellsZ nz) (fun z => G sgn 1 (x, y, z) e - G sgn 1 (x, y + 1, z) e))
                               + zsum (cellsZ ny) (fun y => zsum (cellsZ nz) (fun z => G sgn 2 (x, y, z) e - G sgn 2 (x, y, z + 1) e)))).
  2:{ intros x _. rewrite <- zsum_sub, <- !zsum_add. apply zsum_ext; intros y _.
      rewrite <- zsum_sub, <- !zsum_add. apply zsum_ext; intros z _.
      rewrite cell_balance. destruct (addp_unit x y z) as (-> & -> & ->).
      repeat match goal with |- context [G ?s ?d ?q ?x] => let t := fresh "t" in generalize (G s d q x); intro t end.
      ring. }
  rewrite !zsum_add.
  rewrite (zsum_telescope (fun x => zsum (cellsZ ny) (fun y => zsum (cellsZ nz) (fun z => G sgn 0 (x, y, z) e)))).
  (* x faces *)
  assert (X : forall x, x = 0 \/ x = Z.of_nat nx ->
              zsum (cellsZ ny) (fun y => zsum (cellsZ nz) (fun z => G sgn 0 (x, y, z) e)) = 0).
  { intros x Hx. apply zsum_zero; intros y Hy. apply zsum_zero; intros z Hz.
    apply in_cellsZ in Hy, Hz. apply G_outside; [auto|..]; unfold addp, fpt; cbn [Z.eqb]; apply B; lia. }
  rewrite (X 0), (X (Z.of_nat nx)) by auto.
  (* y faces *)
  rewrite (zsum_zero (cellsZ nx) (fun x => zsum (cellsZ ny) (fun y => zsum (cellsZ nz) (fun z => G sgn 1 (x, y, z) e - G sgn 1 (x, y + 1, z) e)))).
  2:{ intros x Hx. apply in_cellsZ in Hx.
      rewrite (zsum_ext _ _ (fun y => zsum (cellsZ nz) (fun z => G sgn 1 (x, y, z) e) - zsum (cellsZ nz) (fun z => G sgn 1 (x, y + 1, z) e)))
        by (intros y _; apply zsum_sub).
      rewrite (zsum_telescope (fun y => zsum (cellsZ nz) (fun z => G sgn 1 (x, y, z) e))).
      assert (Y : forall y, y = 0 \/ y = Z.of_nat ny -> zsum (cellsZ nz) (fun z => G sgn 1 (x, y, z) e) = 0).
      { intros y Hy. apply zsum_zero; intros z Hz. apply in_cellsZ in Hz.
        apply G_outside; [auto|..]; unfold addp, fpt; cbn [Z.eqb]; apply B; lia. }
      rewrite (Y 0), (Y (Z.of_nat ny)) by auto. reflexivity. }
  (* z faces *)
  rewrite (zsum_zero (cellsZ nx) (fun x => zsum (cellsZ ny) (fun y => zsum (cellsZ nz) (fun z => G sgn 2 (x, y, z) e - G sgn 2 (x, y, z + 1) e)))).
  2:{ intros x Hx. apply in_cellsZ in Hx. apply zsum_zero; intros y Hy. apply in_cellsZ in Hy.
      rewrite (zsum_telescope (fun z => G sgn 2 (x, y, z) e)).
      assert (Zf : forall z, z = 0 \/ z = Z.of_nat nz -> G sgn 2 (x, y, z) e = 0).
      { intros z Hz. apply G_outside; [auto|..]; unfold addp, fpt; cbn [Z.eqb]; apply B; lia. }
      rewrite (Zf 0), (Zf (Z.of_nat nz)) by auto. reflexivity. }
  reflexivity.
Qed.

(* ================================================================== 2D: marching squares *)
From Sdfx Require Import Render.MS.

Lemma zsum_pair (g : Z -> Z) n :
  zsum (cellsZ n) (fun i => g i + g (i + 1)) = 2 * zsum (cellsZ (S n)) g - g 0 - g (Z.of_nat n).
Proof.
  induction n as [|n IH].
  { change (cellsZ 0) with (@nil Z). change (cellsZ 1) with [0]. rewrite zsum_cons, !zsum_nil. change (Z.of_nat 0) with 0. ring. }
  rewrite cellsZ_S, zsum_app, IH, zsum_cons, zsum_nil.
  rewrite (cellsZ_S (S n)), zsum_app, zsum_cons, zsum_nil.
  replace (Z.of_nat (S n)) with (Z.of_nat n + 1) by lia. ring.
Qed.
Lemma zsum_indicator (a : Z -> Z) k n :
  zsum (cellsZ n) (fun i => if i =? k then a i else 0) = if (0 <=? k) && (k <? Z.of_nat n) then a k else 0.
Proof.
  induction n as [|n IH].
  - cbn. destruct (0 <=? k) eqn:E1; cbn [andb]; [|reflexivity]. destruct (k <? 0) eqn:E2; [lia | reflexivity].
  - rewrite cellsZ_S, zsum_app, IH, zsum_cons, zsum_nil.
    destruct (Z.of_nat n =? k) eqn:E.
    + apply Z.eqb_eq in E. subst k.
      replace (0 <=? Z.of_nat n) with true by (symmetry; apply Z.leb_le; lia).
      replace (Z.of_nat n <? Z.of_nat n) with false by (symmetry; apply Z.ltb_ge; lia).
      replace (Z.of_nat n <? Z.of_nat (S n)) with true by (symmetry; apply Z.ltb_lt; lia). cbn [andb]. ring.
    + apply Z.eqb_neq in E. destruct (0 <=? k); cbn [andb]; [|ring].
      destruct (k <? Z.of_nat n) eqn:E1, (k <? Z.of_nat (S n)) eqn:E2; try ring;
        rewrite ?Z.ltb_lt, ?Z.ltb_ge in *; lia.
Qed.

Definition cfg2_at (sgn : pt2 -> bool) (p : pt2) : N :=
  sq_of_bools (sgn (addp2 p (sq_corner_off 0))) (sgn (addp2 p (sq_corner_off 1)))
              (sgn (addp2 p (sq_corner_off 2))) (sgn (addp2 p (sq_corner_off 3))).
Lemma cfg2_at_lt sgn p : (cfg2_at sgn p < 16)%N.
Proof. unfold cfg2_at. apply sq_of_bools_spec. Qed.

Definition spt (d u : Z) : pt2 := if d =? 0 then (0, u) else (u, 0).
Definition sigG2 (sgn : pt2 -> bool) (d : Z) (q : pt2) : N :=
  (b2n2 (sgn (addp2 q (spt d 0))) + 2 * b2n2 (sgn (addp2 q (spt d 1))))%N.

Lemma sidesig_bools b0 b1 b2 b3 :
  let c := sq_of_bools b0 b1 b2 b3 in
  sidesig 0 0 c = (b2n2 b0 + 2 * b2n2 b3)%N /\ sidesig 0 1 c = (b2n2 b1 + 2 * b2n2 b2)%N /\
  sidesig 1 0 c = (b2n2 b0 + 2 * b2n2 b1)%N /\ sidesig 1 1 c = (b2n2 b3 + 2 * b2n2 b2)%N.
Proof. destruct b0, b1, b2, b3; vm_compute; repeat split. Qed.

Lemma sidesig_cfg2_at sgn p d : d = 0 \/ d = 1 ->
  sidesig d 0 (cfg2_at sgn p) = sigG2 sgn d p /\ sidesig d 1 (cfg2_at sgn p) = sigG2 sgn d (addp2 p (unit2 d)).
Proof.
  intros Hd. unfold cfg2_at.
  pose proof (sidesig_bools (sgn (addp2 p (sq_corner_off 0))) (sgn (addp2 p (sq_corner_off 1)))
              (sgn (addp2 p (sq_corner_off 2))) (sgn (addp2 p (sq_corner_off 3)))) as S.
  cbv zeta in S. destruct S as (S00 & S01 & S10 & S11). destruct p as [px py].
  destruct Hd as [-> | ->]; rewrite ?S00, ?S01, ?S10, ?S11;
    unfold sigG2, spt, unit2, addp2, sq_corner_off; simpl; rewrite ?Z.add_0_r; split; reflexivity.
Qed.

Definition cell_mesh2 (sgn : pt2 -> bool) (p : pt2) : list seg := map (shiftS p) (cell_lines (cfg2_at sgn p)).
Definition cells2 (nx ny : nat) : list pt2 := flat_map (fun x => map (fun y => (x, y)) (cellsZ ny)) (cellsZ nx).
Definition mesh2 (nx ny : nat) (sgn : pt2 -> bool) : list seg := flat_map (cell_mesh2 sgn) (cells2 nx ny).

Definition boundary_outside2 (nx ny : nat) (sgn : pt2 -> bool) : Prop :=
  forall x y, 0 <= x <= Z.of_nat nx -> 0 <= y <= Z.of_nat ny ->
    (x = 0 \/ x = Z.of_nat nx \/ y = 0 \/ y = Z.of_nat ny) -> sgn (x, y) = false.

Lemma sq_cell_table_ok : forallb sq_cell_check sq_cfgs = true.
Proof. vm_compute. reflexivity. Qed.
Lemma xpat_is_xor : forallb (fun d => forallb (fun sg => xpat d sg =? (if xorb (N.testbit sg 0) (N.testbit sg 1) then 1 else 0))
                                            [0; 1; 2; 3]%N) [0; 1] = true.
Proof. vm_compute. reflexivity. Qed.

(* per-side term: weight of the lattice edge (q, other axis) seen from vertex v *)
Definition A2 (sgn : pt2 -> bool) (d : Z) (q : pt2) (v : gv2) : Z :=
  if gv2_eqb v (shiftv2 q (fvert d)) then xpat d (sigG2 sgn d q) else 0.

Lemma gv2_eqb_shift p v w : gv2_eqb (shiftv2 (negp2 p) v) w = gv2_eqb v (shiftv2 p w).
Proof.
  destruct (gv2_eqb v (shiftv2 p w)) eqn:E.
  - apply gv2_eqb_eq in E. subst v. apply gv2_eqb_eq. apply shiftv2_neg.
  - destruct (gv2_eqb (shiftv2 (negp2 p) v) w) eqn:E2; [|reflexivity].
    apply gv2_eqb_eq in E2. subst w. rewrite shiftv2_neg' in E.
    rewrite (proj2 (gv2_eqb_eq v v) eq_refl) in E. discriminate.
Qed.
Lemma shiftv2_add p q v : shiftv2 p (shiftv2 q v) = shiftv2 (addp2 p q) v.
Proof. destruct p, q, v as [[x y] a]; unfold shiftv2, addp2; cbn [fst snd]. f_equal. f_equal; lia. Qed.

Lemma deg2_shift p l v : deg2 (map (shiftS p) l) v = deg2 l (shiftv2 (negp2 p) v).
Proof.
  unfold deg2. change (shiftS p) with (@mapE gv2 gv2 (shiftv2 p)).
  apply (deg_map_bij gv2_eqb gv2_eqb_eq); [apply shiftv2_neg | apply shiftv2_neg'].
Qed.

Lemma cell_degree sgn p v :
  deg2 (cell_mesh2 sgn p) v =
  (A2 sgn 0 p v + A2 sgn 0 (addp2 p (unit2 0)) v) + (A2 sgn 1 p v + A2 sgn 1 (addp2 p (unit2 1)) v).
Proof.
  unfold cell_mesh2. rewrite deg2_shift.
  rewrite (sq_cell_check_sound _ (forallb_sq_cfgs _ sq_cell_table_ok _ (cfg2_at_lt sgn p))).
  destruct (sidesig_cfg2_at sgn p 0) as [L0 U0]; [auto|].
  destruct (sidesig_cfg2_at sgn p 1) as [L1 U1]; [auto|].
  unfold rhs2, wsum. cbn [flat_map map fold_right app fst snd].
  rewrite L0, U0, L1, U1, !gv2_eqb_shift, !shiftv2_add. unfold A2. ring.
Qed.

Lemma deg2_zsum {A} (f : A -> list seg) l v : deg2 (flat_map f l) v = zsum l (fun x => deg2 (f x) v).
Proof. apply deg_flat_map. Qed.

Lemma A2_outside sgn d q v : d = 0 \/ d = 1 ->
  sgn (addp2 q (spt d 0)) = false -> sgn (addp2 q (spt d 1)) = false -> A2 sgn d q v = 0.
Proof.
  intros Hd H0 H1. unfold A2, sigG2. rewrite H0, H1. destruct (gv2_eqb _ _); [|reflexivity].
  destruct Hd as [-> | ->]; vm_compute; reflexivity.
Qed.

(* number of sign-changing lattice edges equal to v (0 or 1) *)
Definition crossing_at (nx ny : nat) (sgn : pt2 -> bool) (v : gv2) : Z :=
  let '(x, y, a) := v in
  if a =? 1 then (if (0 <=? x) && (x <? Z.of_nat (S nx)) && ((0 <=? y) && (y <? Z.of_nat ny)) then xpat 0 (sigG2 sgn 0 (x, y)) else 0)
  else if a =? 0 then (if (0 <=? x) && (x <? Z.of_nat nx) && ((0 <=? y) && (y <? Z.of_nat (S ny))) then xpat 1 (sigG2 sgn 1 (x, y)) else 0)
  else 0.

Lemma zsum_const_mul {A} (l : list A) f c : zsum l (fun x => c * f x) = c * zsum l f.
Proof. induction l as [|x l IH]; [cbn; ring|]. rewrite !zsum_cons, IH. ring. Qed.

Lemma A2_indicator sgn d v n m : d = 0 \/ d = 1 ->
  zsum (cellsZ n) (fun x => zsum (cellsZ m) (fun y => A2 sgn d (x, y) v)) =
  let '(vx, vy, a) := v in
  if a =? (if d =? 0 then 1 else 0)
  then (if (0 <=? vx) && (vx <? Z.of_nat n) && ((0 <=? vy) && (vy <? Z.of_nat m)) then xpat d (sigG2 sgn d (vx, vy)) else 0)
  else 0.
Proof.
  intros Hd. destruct v as [[vx vy] a].
  rewrite (zsum_ext _ _ (fun x => if x =? vx then
            (if (0 <=? vy) && (vy <? Z.of_nat m) then (if a =? (if d =? 0 then 1 else 0) then xpat d (sigG2 sgn d (x, vy)) else 0) else 0) else 0)).
  - rewrite zsum_indicator. destruct (a =? (if d =? 0 then 1 else 0)); destruct ((0 <=? vx) && (vx <? Z.of_nat n)); cbn [andb];
      destruct ((0 <=? vy) && (vy <? Z.of_nat m)); reflexivity.
  - intros x _.
    rewrite (zsum_ext _ _ (fun y => if y =? vy then (if x =? vx then (if a =? (if d =? 0 then 1 else 0) then xpat d (sigG2 sgn d (x, y)) else 0) else 0) else 0)).
    + rewrite zsum_indicator. destruct (x =? vx); destruct ((0 <=? vy) && (vy <? Z.of_nat m)); reflexivity.
    + intros y _. unfold A2, shiftv2, fvert, addp2, gv2_eqb. cbn [fst snd]. rewrite !Z.add_0_r.
      rewrite (Z.eqb_sym vx x), (Z.eqb_sym vy y).
      destruct (x =? vx), (y =? vy); cbn [andb]; reflexivity.
Qed.

Theorem mesh2_degree nx ny sgn : boundary_outside2 nx ny sgn ->
  forall v, deg2 (mesh2 nx ny sgn) v = 2 * crossing_at nx ny sgn v.
Proof.
  intros B v. unfold mesh2. rewrite deg2_zsum. unfold cells2. rewrite zsum_flat_map.
  rewrite (zsum_ext _ _ (fun x =>
     (zsum (cellsZ ny) (fun y => A2 sgn 0 (x, y) v) + zsum (cellsZ ny) (fun y => A2 sgn 0 (x + 1, y) v))
     + zsum (cellsZ ny) (fun y => A2 sgn 1 (x, y) v + A2 sgn 1 (x, y + 1) v))).
  2:{ intros x _. rewrite zsum_map, <- !zsum_add. apply zsum_ext; intros y _.
      rewrite cell_degree. unfold addp2, unit2. cbn [Z.eqb fst snd]. rewrite !Z.add_0_r. reflexivity. }
  rewrite zsum_add.
  rewrite (zsum_pair (fun x => zsum (cellsZ ny) (fun y => A2 sgn 0 (x, y) v))).
  assert (X : forall x, x = 0 \/ x = Z.of_nat nx -> zsum (cellsZ ny) (fun y => A2 sgn 0 (x, y) v) = 0).
  { intros x Hx. apply zsum_zero; intros y Hy. apply in_cellsZ in Hy.
    apply A2_outside; [auto|..]; unfold addp2, spt; cbn [Z.eqb fst snd]; apply B; lia. }
  rewrite (X 0), (X (Z.of_nat nx)) by auto.
  rewrite (zsum_ext (cellsZ nx) _ (fun x => 2 * zsum (cellsZ (S ny)) (fun y => A2 sgn 1 (x, y) v))).
  2:{ intros x Hx. apply in_cellsZ in Hx. rewrite (zsum_pair (fun y => A2 sgn 1 (x, y) v)).
      assert (Y : forall y, y = 0 \/ y = Z.of_nat ny -> A2 sgn 1 (x, y) v = 0).
      { intros y Hy. apply A2_outside; [auto|..]; unfold addp2, spt; cbn [Z.eqb fst snd]; apply B; lia. }
      rewrite (Y 0), (Y (Z.of_nat ny)) by auto. ring. }
  rewrite zsum_const_mul, (A2_indicator sgn 0 v (S nx) ny), (A2_indicator sgn 1 v nx (S ny)) by auto.
  unfold crossing_at. destruct v as [[vx vy] a]. cbn [Z.eqb].
  destruct (a =? 1) eqn:E1; destruct (a =? 0) eqn:E0; try ring.
  apply Z.eqb_eq in E1, E0. lia.
Qed.
