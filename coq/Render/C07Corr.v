(* Correspondence for C07: the FOps instance of Render/Octree.v (processCube / isEmpty / dcache3 and
   the 2D twin) against what the real octree / quadtree code did on the same lattice:
     - the emitted triangles / segments, in order (bit for bit on the unchanged tree; a difference of at
       most 1e-12 of the lattice size still counts as agreement, so that a harmless algebraic rewrite
       of the Go code raises no alarm, and is reported separately as I_...);
     - the sequence of lattice points at which the SDF was called (= cache misses, in order), exactly;
     - the hdiag table (same tolerance rule);
     - (inside Coq) the model's output equals, as a multiset, the evaluation of every finest cell of
       the lattice in row-major order;
   and the lattice of the real renderers (origin, half resolution) against Sample.mco_lattice, with
   the exact rational inequality "the top cube covers the scaled box" on the observed level count. *)
From Coq Require Import List ZArith NArith Floats Bool QArith.
From Sdfx Require Import Num.Ops Num.FInst Geo.Vec Geo.Box Generated.MarchTables
  Render.MC Render.MS Render.Lattice Render.Interp Render.Octree Render.Sample.
Import ListNotations.

Definition f3 := (float * float * float)%type.
Definition f2 := (float * float)%type.
Definition v3of (p : f3) : V3 FOps := let '(x, y, z) := p in mkV3 x y z.
Definition v2of (p : f2) : V2 FOps := let '(x, y) := p in mkV2 x y.
Definition same3 (a : V3 FOps) (g : f3) : bool := let '(x, y, z) := g in fsame (wx a) x && fsame (wy a) y && fsame (wz a) z.
Definition same2 (a : V2 FOps) (g : f2) : bool := let '(x, y) := g in fsame (vx a) x && fsame (vy a) y.
Definition eq3 (a b : V3 FOps) : bool := fsame (wx a) (wx b) && fsame (wy a) (wy b) && fsame (wz a) (wz b).
Definition eq2 (a b : V2 FOps) : bool := fsame (vx a) (vx b) && fsame (vy a) (vy b).

(* agreement of positions up to a harmless algebraic rewrite of the Go code: 1e-12 of the size of the lattice *)
Definition closeS (sc a b : float) : bool :=
  fsame a b || PrimFloat.leb (PrimFloat.abs (a - b)) (0x1.19799812dea11p-40 * sc)%float.
Definition close3 (sc : float) (a : V3 FOps) (g : f3) : bool :=
  let '(x, y, z) := g in closeS sc (wx a) x && closeS sc (wy a) y && closeS sc (wz a) z.
Definition close2 (sc : float) (a : V2 FOps) (g : f2) : bool :=
  let '(x, y) := g in closeS sc (vx a) x && closeS sc (vy a) y.
Definition size3 (org : f3) (ext : float) : float :=
  let '(x, y, z) := org in (PrimFloat.abs x + PrimFloat.abs y + PrimFloat.abs z + PrimFloat.abs ext)%float.
Definition size2 (org : f2) (ext : float) : float :=
  let '(x, y) := org in (PrimFloat.abs x + PrimFloat.abs y + PrimFloat.abs ext)%float.

Fixpoint all2 {A B} (f : A -> B -> bool) (l : list A) (m : list B) : bool :=
  match l, m with
  | [], [] => true
  | a :: l', b :: m' => f a b && all2 f l' m'
  | _, _ => false
  end.
Definition tri_same (m : V3 FOps * V3 FOps * V3 FOps) (g : f3 * f3 * f3) : bool :=
  let '(a, b, c) := m in let '(ga, gb, gc) := g in same3 a ga && same3 b gb && same3 c gc.
Definition tri_close (sc : float) (m : V3 FOps * V3 FOps * V3 FOps) (g : f3 * f3 * f3) : bool :=
  let '(a, b, c) := m in let '(ga, gb, gc) := g in close3 sc a ga && close3 sc b gb && close3 sc c gc.
Definition tri_eq (s t : V3 FOps * V3 FOps * V3 FOps) : bool :=
  let '(a, b, c) := s in let '(a', b', c') := t in eq3 a a' && eq3 b b' && eq3 c c'.
Definition seg_same (m : V2 FOps * V2 FOps) (g : f2 * f2) : bool := same2 (fst m) (fst g) && same2 (snd m) (snd g).
Definition seg_close (sc : float) (m : V2 FOps * V2 FOps) (g : f2 * f2) : bool := close2 sc (fst m) (fst g) && close2 sc (snd m) (snd g).
Definition seg_eq (s t : V2 FOps * V2 FOps) : bool := eq2 (fst s) (fst t) && eq2 (snd s) (snd t).
(* equal as multisets *)
Definition msame {A} (eqb : A -> A -> bool) (l m : list A) : bool :=
  (length l =? length m)%nat && forallb (fun t => (length (filter (eqb t) l) =? length (filter (eqb t) m))%nat) l.

(* a table of field values over the lattice points 0..n per axis *)
Definition tab3 (n : Z) (vals : list float) (p : pt) : float :=
  let '(x, y, z) := p in nth (Z.to_nat ((x * (n + 1) + y) * (n + 1) + z)) vals 0%float.
Definition tab2 (n : Z) (vals : list float) (p : pt2) : float :=
  nth (Z.to_nat (fst p * (n + 1) + snd p)) vals 0%float.

(* ---- octree case: id, origin, resolution, m (top cube has Go level m+1, side 2^(m+1) lattice units),
   values at the (2^(m+1)+1)^3 lattice points, go triangles, go sequence of SDF calls, go hdiag table *)
Definition ocase3 := (N * f3 * float * nat * list float * list (f3 * f3 * f3) * list pt * list float)%type.
(* (agreement up to rewrites, bit-exact agreement): the first component decides, the second is reported *)
Definition ook3 (c : ocase3) : bool * bool :=
  let '(id, org, res, m, vals, gt, gs, gh) := c in
  let n := pow2 (S m) in
  let fv := tab3 n vals in
  let sc := size3 org (@ofZ FOps n * res)%float in
  let '(tris, cache) := @octree_st FOps (v3of org) res fv m (0, 0, 0)%Z [] in
  let discrete :=
    all2 pt_eqb (rev (map fst cache)) gs &&
    msame tri_eq tris (flat_map (@oct_cell FOps (v3of org) res fv) (cells_row_major m (0, 0, 0)%Z)) in
  (discrete && all2 (tri_close sc) tris gt && all2 fclose (@hdiag3_table FOps res (S (S m))) gh,
   discrete && all2 tri_same tris gt && all2 fsame (@hdiag3_table FOps res (S (S m))) gh).
Definition oid3 (c : ocase3) : N := let '(id, _, _, _, _, _, _, _) := c in id.
Definition omismatches3 (cs : list ocase3) : list N := map oid3 (filter (fun c => negb (fst (ook3 c))) cs).
Definition oinexact3 (cs : list ocase3) : list N := map oid3 (filter (fun c => negb (snd (ook3 c))) cs).

Definition ocase2 := (N * f2 * float * nat * list float * list (f2 * f2) * list pt2 * list float)%type.
Definition ook2 (c : ocase2) : bool * bool :=
  let '(id, org, res, m, vals, gt, gs, gh) := c in
  let n := pow2 (S m) in
  let fv := tab2 n vals in
  let sc := size2 org (@ofZ FOps n * res)%float in
  let '(segs, cache) := @quadtree_st FOps (v2of org) res fv m (0, 0)%Z [] in
  let discrete :=
    all2 pt2_eqb (rev (map fst cache)) gs &&
    msame seg_eq segs (flat_map (@quad_cell FOps (v2of org) res fv) (cells2_row_major m (0, 0)%Z)) in
  (discrete && all2 (seg_close sc) segs gt && all2 fclose (@hdiag2_table FOps res (S (S m))) gh,
   discrete && all2 seg_same segs gt && all2 fsame (@hdiag2_table FOps res (S (S m))) gh).
Definition oid2 (c : ocase2) : N := let '(id, _, _, _, _, _, _, _) := c in id.
Definition omismatches2 (cs : list ocase2) : list N := map oid2 (filter (fun c => negb (fst (ook2 c))) cs).
Definition oinexact2 (cs : list ocase2) : list N := map oid2 (filter (fun c => negb (snd (ook2 c))) cs).

(* ---- lattice of the real octree renderer: id, bounding box, meshCells, observed origin (first
   corner ever evaluated is not needed: the harness reads bb.Min of the scaled box), observed
   half resolution, observed number of levels *)
Definition lcase3 := (N * f3 * f3 * Z * f3 * float * nat)%type.
Definition lok3 (c : lcase3) : bool * bool :=
  let '(id, mn, mx, cells, gorg, gres, levels) := c in
  let '(org, res, long) := @mco_lattice FOps (mkBox3 (v3of mn) (v3of mx)) cells in
  (* levels_cover: 2^(levels-1) * res >= longAxis, exactly *)
  let cover := Qle_bool (F2Q long) (inject_Z (pow2 (levels - 1)) * F2Q res) in
  (cover && close3 (size3 mn long) org gorg && fclose res gres, cover && same3 org gorg && fsame res gres).
Definition lid3 (c : lcase3) : N := let '(id, _, _, _, _, _, _) := c in id.
Definition lmismatches3 (cs : list lcase3) : list N := map lid3 (filter (fun c => negb (fst (lok3 c))) cs).
Definition linexact3 (cs : list lcase3) : list N := map lid3 (filter (fun c => negb (snd (lok3 c))) cs).

(* the 2D renderer: same statements with Box2 *)
Definition mqo_lattice (bb0 : Box2 FOps) (meshCells : Z) : V2 FOps * float * float :=
  let resolution := (@v2maxcomp FOps (box2_size bb0) / @ofZ FOps meshCells)%float in
  let bb := @box2_scale_about_center FOps bb0 (@cst FOps 101 100) in
  let longAxis := @v2maxcomp FOps (box2_size bb) in
  (b2min bb, (@half FOps * resolution)%float, longAxis).
Definition lcase2 := (N * f2 * f2 * Z * f2 * float * nat)%type.
Definition lok2 (c : lcase2) : bool * bool :=
  let '(id, mn, mx, cells, gorg, gres, levels) := c in
  let '(org, res, long) := mqo_lattice (mkBox2 (v2of mn) (v2of mx)) cells in
  let cover := Qle_bool (F2Q long) (inject_Z (pow2 (levels - 1)) * F2Q res) in
  (cover && close2 (size2 mn long) org gorg && fclose res gres, cover && same2 org gorg && fsame res gres).
Definition lid2 (c : lcase2) : N := let '(id, _, _, _, _, _, _) := c in id.
Definition lmismatches2 (cs : list lcase2) : list N := map lid2 (filter (fun c => negb (fst (lok2 c))) cs).
Definition linexact2 (cs : list lcase2) : list N := map lid2 (filter (fun c => negb (snd (lok2 c))) cs).
