(* How far the marching-squares end point (linear interpolation on a lattice edge of length <= h)
   can be from a circle of radius R > h:  | |V - c| - R | < h^2 / (8 (R - h)) + epsilon.
   Algebraic: for V = P1 + t (P2 - P1),  |V-c|^2 = (1-t)|P1-c|^2 + t|P2-c|^2 - t(1-t)|P2-P1|^2, so
   the chord value L = (1-t) d0 + t d1 satisfies  L^2 - d^2 = t(1-t)(e^2 - (d1-d0)^2) in [0, h^2/4]. *)
From Coq Require Import Reals Lra Lia List Bool ZArith.
From Sdfx Require Import Num.Ops.
From Sdfx Require Import Num.RInst.
From Sdfx Require Import Geo.Vec.
From Sdfx Require Import Geo.NormR.
From Sdfx Require Import Generated.MarchTables.
From Sdfx Require Import Render.MC.
From Sdfx Require Import Render.MS.
From Sdfx Require Import Render.Interp.
Open Scope R_scope.

Lemma chord_gap (d0 d1 d e t R h ep : R) :
  0 <= d0 -> 0 <= d1 -> 0 <= d -> 0 <= e -> e <= h -> 0 <= t <= 1 ->
  d * d = (1 - t) * (d0 * d0) + t * (d1 * d1) - t * (1 - t) * (e * e) ->
  Rabs (d1 - d0) <= e -> R - h <= d -> h < R -> 0 < ep -> ep <= h ->
  Rabs (d0 + t * (d1 - d0) - R) < ep ->
  Rabs (d - R) < h * h / (8 * (R - h)) + ep.
Proof.
  intros H0 H1 Hd He Heh Ht Hsq Hlip HdR HhR Hep Heph HL.
  set (Ld := d0 + t * (d1 - d0)) in *.
  apply Rabs_def2 in HL. destruct HL as [HL1 HL2].
  assert (Hl : - e <= d1 - d0 <= e) by (unfold Rabs in Hlip; destruct (Rcase_abs (d1 - d0)); lra).
  assert (A : (Ld - d) * (Ld + d) = t * (1 - t) * (e * e - (d1 - d0) * (d1 - d0))).
  { unfold Ld. replace ((d0 + t * (d1 - d0) - d) * (d0 + t * (d1 - d0) + d))
      with ((d0 + t * (d1 - d0)) * (d0 + t * (d1 - d0)) - d * d) by ring. rewrite Hsq. ring. }
  assert (Q : 0 <= e * e - (d1 - d0) * (d1 - d0) <= h * h).
  { assert (P1 : 0 <= (e - (d1 - d0)) * (e + (d1 - d0))) by (apply Rmult_le_pos; lra).
    assert (P2 : e * e <= h * h) by (apply Rmult_le_compat; lra).
    assert (P3 : 0 <= (d1 - d0) * (d1 - d0)) by (pose proof (Rle_0_sqr (d1 - d0)) as Z; unfold Rsqr in Z; exact Z).
    split; lra. }
  assert (T4 : 0 <= t * (1 - t) <= 1 / 4).
  { split; [apply Rmult_le_pos; lra|]. pose proof (Rle_0_sqr (t - 1 / 2)) as Z. unfold Rsqr in Z. lra. }
  assert (A0 : 0 <= (Ld - d) * (Ld + d)) by (rewrite A; apply Rmult_le_pos; lra).
  assert (A1 : (Ld - d) * (Ld + d) <= h * h / 4).
  { rewrite A. destruct Q as [Q0 Q1]. destruct T4 as [T0 T1].
    apply Rle_trans with (1 / 4 * (h * h)); [|lra].
    apply Rmult_le_compat; lra. }
  assert (S : 2 * (R - h) <= Ld + d) by lra.
  assert (Sp : 0 < Ld + d) by lra.
  assert (G0 : 0 <= Ld - d).
  { destruct (Rle_dec 0 (Ld - d)) as [|N]; [assumption|]. exfalso.
    assert (X1 : 0 < (d - Ld) * (Ld + d)) by (apply Rmult_lt_0_compat; lra).
    assert (X2 : (d - Ld) * (Ld + d) = - ((Ld - d) * (Ld + d))) by ring. lra. }
  assert (G1 : (Ld - d) * (2 * (R - h)) <= h * h / 4).
  { apply Rle_trans with ((Ld - d) * (Ld + d)); [|exact A1]. apply Rmult_le_compat_l; lra. }
  assert (G2 : Ld - d <= h * h / (8 * (R - h))).
  { apply (Rmult_le_reg_r (8 * (R - h))); [lra|].
    replace (h * h / (8 * (R - h)) * (8 * (R - h))) with (h * h) by (field; lra). lra. }
  apply Rabs_def1; lra.
Qed.

Lemma seg_dist_sq (x1 y1 x2 y2 cx cy t : R) :
  (lerp x1 x2 t - cx) * (lerp x1 x2 t - cx) + (lerp y1 y2 t - cy) * (lerp y1 y2 t - cy) =
  (1 - t) * ((x1 - cx) * (x1 - cx) + (y1 - cy) * (y1 - cy)) + t * ((x2 - cx) * (x2 - cx) + (y2 - cy) * (y2 - cy))
  - t * (1 - t) * ((x2 - x1) * (x2 - x1) + (y2 - y1) * (y2 - y1)).
Proof. unfold lerp. ring. Qed.

(* the end point computed by msInterpolate on a lattice edge P1-P2 (length <= h) of a field that is the
   signed distance to a circle (centre c, radius R > h) is within h^2/(8(R-h)) + epsilon of the circle *)
Theorem ms_interp_circle_bound (c p1 p2 : V2 ROps) (R h : R) :
  dist2 p1 p2 <= h -> h < R -> @eps ROps <= h ->
  straddles (dist2 p1 c - R) (dist2 p2 c - R) 0 ->
  Rabs (dist2 (@ms_interpolate ROps p1 p2 (dist2 p1 c - R) (dist2 p2 c - R) 0) c - R) < h * h / (8 * (R - h)) + @eps ROps.
Proof.
  intros Hh HhR Heph S.
  destruct (ms_interp_on_edge p1 p2 _ _ 0 S) as (t & Ht & HL & ->).
  set (V := mkV2 (lerp (vx p1) (vx p2) t) (lerp (vy p1) (vy p2) t)).
  pose proof (len2_nonneg (sub2 p1 c)) as N0. pose proof (len2_nonneg (sub2 p2 c)) as N1.
  pose proof (len2_nonneg (sub2 V c)) as Nd. pose proof (len2_nonneg (sub2 p1 p2)) as Ne.
  pose proof (len2_sq (sub2 p1 c)) as Q0. pose proof (len2_sq (sub2 p2 c)) as Q1.
  pose proof (len2_sq (sub2 V c)) as Qd. pose proof (len2_sq (sub2 p1 p2)) as Qe.
  fold (dist2 p1 c) in *. fold (dist2 p2 c) in *. fold (dist2 V c) in *. fold (dist2 p1 p2) in *.
  destruct p1 as [x1 y1], p2 as [x2 y2], c as [cx cy]. simpl in Q0, Q1, Qd, Qe.
  (* the larger end distance is at least R; V is within h of both ends *)
  assert (Hh0 : 0 <= h) by lra.
  assert (E2 : (x1 - x2) * (x1 - x2) + (y1 - y2) * (y1 - y2) <= h * h).
  { rewrite <- Qe. apply Rmult_le_compat; lra. }
  assert (E0 : 0 <= (x1 - x2) * (x1 - x2) + (y1 - y2) * (y1 - y2)) by (rewrite <- Qe; apply Rmult_le_pos; lra).
  assert (D1 : dist2 (mkV2 x1 y1) V <= h).
  { unfold dist2. apply len2_le; [exact Hh0|]. unfold V. simpl. unfold lerp.
    replace ((x1 - (x1 + t * (x2 - x1))) * (x1 - (x1 + t * (x2 - x1))) + (y1 - (y1 + t * (y2 - y1))) * (y1 - (y1 + t * (y2 - y1))))
      with (t * t * ((x1 - x2) * (x1 - x2) + (y1 - y2) * (y1 - y2))) by ring.
    assert (T01 : 0 <= t * t <= 1) by (split; [apply Rmult_le_pos; lra | replace 1 with (1 * 1) by ring; apply Rmult_le_compat; lra]).
    apply Rle_trans with (1 * ((x1 - x2) * (x1 - x2) + (y1 - y2) * (y1 - y2))); [apply Rmult_le_compat_r; lra | lra]. }
  assert (D2 : dist2 (mkV2 x2 y2) V <= h).
  { unfold dist2. apply len2_le; [exact Hh0|]. unfold V. simpl. unfold lerp.
    replace ((x2 - (x1 + t * (x2 - x1))) * (x2 - (x1 + t * (x2 - x1))) + (y2 - (y1 + t * (y2 - y1))) * (y2 - (y1 + t * (y2 - y1))))
      with ((1 - t) * (1 - t) * ((x1 - x2) * (x1 - x2) + (y1 - y2) * (y1 - y2))) by ring.
    assert (T01 : 0 <= (1 - t) * (1 - t) <= 1) by (split; [apply Rmult_le_pos; lra | replace 1 with (1 * 1) at 3 by ring; apply Rmult_le_compat; lra]).
    apply Rle_trans with (1 * ((x1 - x2) * (x1 - x2) + (y1 - y2) * (y1 - y2))); [apply Rmult_le_compat_r; lra | lra]. }
  pose proof (dist2_triangle (mkV2 x1 y1) V (mkV2 cx cy)) as T1.
  pose proof (dist2_triangle (mkV2 x2 y2) V (mkV2 cx cy)) as T2.
  assert (HdR : R - h <= dist2 V (mkV2 cx cy)) by (destruct S as [[? ?]|[? ?]]; lra).
  pose proof (len2_lip (sub2 (mkV2 x2 y2) (mkV2 cx cy)) (sub2 (mkV2 x1 y1) (mkV2 cx cy))) as Lip.
  assert (E : dist2 (sub2 (mkV2 x2 y2) (mkV2 cx cy)) (sub2 (mkV2 x1 y1) (mkV2 cx cy)) = dist2 (mkV2 x1 y1) (mkV2 x2 y2)).
  { unfold dist2, len2, sub2. simpl. f_equal. ring. }
  rewrite E in Lip. fold (dist2 (mkV2 x2 y2) (mkV2 cx cy)) in Lip. fold (dist2 (mkV2 x1 y1) (mkV2 cx cy)) in Lip.
  apply (chord_gap (dist2 (mkV2 x1 y1) (mkV2 cx cy)) (dist2 (mkV2 x2 y2) (mkV2 cx cy)) (dist2 V (mkV2 cx cy))
                   (dist2 (mkV2 x1 y1) (mkV2 x2 y2)) t R h (@eps ROps)); try assumption; try lra.
  - rewrite Qd, Q0, Q1, Qe, seg_dist_sq. ring.
  - apply eps_pos.
  - unfold lerp in HL. replace (dist2 (mkV2 x1 y1) (mkV2 cx cy) + t * (dist2 (mkV2 x2 y2) (mkV2 cx cy) - dist2 (mkV2 x1 y1) (mkV2 cx cy)) - R)
      with (dist2 (mkV2 x1 y1) (mkV2 cx cy) - R + t * (dist2 (mkV2 x2 y2) (mkV2 cx cy) - R - (dist2 (mkV2 x1 y1) (mkV2 cx cy) - R)) - 0) by ring.
    exact HL.
Qed.
