(* Meaning of the constructs harness/rendergen emits for Go's integers, arrays, slices and
   counted loops (Generated/RenderExpr.v).  Hand-written, part of the translator's trusted base:

     int / uint            Z  (unbounded: no 64-bit wrap-around; uint(i) is the identity)
     [n]T with n <= 3      a tuple; a[k] with k a literal is a projection
     [n]T with n > 3, []T  list T; a[i] = znth i a zero, a[i] = e is zupd a i e, len a = zlen a
                           (an index out of range panics in Go; here the read yields the zero
                           value and the write does nothing)
     for i := lo; i < hi; i++ { body }     zfor lo hi (fun state i => body) state
     for i := range a                      zfor 0 (zlen a) ...
     for _, v := range a                   fold_left (fun state v => body) a state
     make([]T, n)                          zrepeat zero n
     f(args) / w.Write(x) statements of a trace target   RgCall args / RgOut x  (rg_ev, run_trace)
     x / y, x % y on int                   Z.quot, Z.rem (truncation toward zero)
     x << y, x | y, x & y                  Z.shiftl, Z.lor, Z.land
     a[lo:hi]                              zslice a lo hi
     for .. { f(args) } in a trace target  flat_map (fun i => events of the body) (zrange lo hi | the list)
     loops over arrays of <= 3 elements, loops with constant bounds left by return / break: unrolled
   The second half of the file holds the lemmas and tactics the GenEq* files use to compare a generated
   definition with the model THROUGH A NORMAL FORM (z_cases: integer code by deciding every comparison with
   lia; table_loop: a table filled by index or by append; split_pair_lets / trace_norm / eval_znth: event
   lists and corner lists computed and compared element by element), so that equivalent ways of writing the
   Go code leave the equality provable while any change of a value, an order or a condition does not. *)
From Coq Require Import ZArith List Bool Lia.
Import ListNotations.
Open Scope Z_scope.

Definition zrange (lo hi : Z) : list Z := map (fun k => lo + Z.of_nat k) (seq 0 (Z.to_nat (hi - lo))).
Definition zfor {S : Type} (lo hi : Z) (body : S -> Z -> S) (s : S) : S := fold_left body (zrange lo hi) s.
Definition znth {A : Type} (i : Z) (l : list A) (d : A) : A := if i <? 0 then d else nth (Z.to_nat i) l d.
Fixpoint upd_nth {A : Type} (l : list A) (n : nat) (x : A) : list A :=
  match l, n with
  | [], _ => []
  | _ :: r, O => x :: r
  | y :: r, S n' => y :: upd_nth r n' x
  end.
Definition zupd {A : Type} (l : list A) (i : Z) (x : A) : list A := if i <? 0 then l else upd_nth l (Z.to_nat i) x.
Definition zlen {A : Type} (l : list A) : Z := Z.of_nat (length l).
Definition zrepeat {A : Type} (x : A) (n : Z) : list A := repeat x (Z.to_nat n).

(* trace targets: a Go function without a result whose only effects are calls of itself and
   outputs to a writer is translated to the list of these events, in execution order *)
Inductive rg_ev (A B : Type) : Type := RgCall (a : A) | RgOut (b : B).
Arguments RgCall {A B} a.
Arguments RgOut {A B} b.
(* the output of a run: a recursive call contributes the output of that call *)
Definition run_trace {A X : Type} (rec : A -> list X) (evs : list (rg_ev A (list X))) : list X :=
  flat_map (fun e => match e with RgCall a => rec a | RgOut b => b end) evs.

(* ------------------------------------------------------------------ lemmas *)

Lemma zrange_nil lo hi : hi <= lo -> zrange lo hi = [].
Proof. intros H. unfold zrange. replace (Z.to_nat (hi - lo)) with 0%nat by lia. reflexivity. Qed.

Lemma zrange_0 (n : nat) : zrange 0 (Z.of_nat n) = map Z.of_nat (seq 0 n).
Proof. unfold zrange. rewrite Z.sub_0_r, Nat2Z.id. apply map_ext. intros k. lia. Qed.

Lemma zrange_length lo hi : length (zrange lo hi) = Z.to_nat (hi - lo).
Proof. unfold zrange. now rewrite map_length, seq_length. Qed.

Lemma znth_nat {A} (n : nat) (l : list A) d : znth (Z.of_nat n) l d = nth n l d.
Proof. unfold znth. destruct (Z.ltb_spec (Z.of_nat n) 0); [lia|]. now rewrite Nat2Z.id. Qed.

Lemma znth_N {A} (n : N) (l : list A) d : znth (Z.of_N n) l d = nth (N.to_nat n) l d.
Proof. unfold znth. destruct (Z.ltb_spec (Z.of_N n) 0); [lia|]. now replace (Z.to_nat (Z.of_N n)) with (N.to_nat n) by lia. Qed.

Lemma znth_map {A B} (f : A -> B) i l d : znth i (map f l) (f d) = f (znth i l d).
Proof. unfold znth. destruct (i <? 0); [reflexivity|]. apply map_nth. Qed.

Lemma zlen_map {A B} (f : A -> B) l : zlen (map f l) = zlen l.
Proof. unfold zlen. now rewrite map_length. Qed.

Lemma upd_nth_length {A} (l : list A) n x : length (upd_nth l n x) = length l.
Proof. revert n. induction l as [|y l IH]; intros [|n]; cbn; auto. Qed.

Lemma zupd_length {A} (l : list A) i x : length (zupd l i x) = length l.
Proof. unfold zupd. destruct (i <? 0); [reflexivity|]. apply upd_nth_length. Qed.

Lemma nth_upd_nth {A} (l : list A) n m x d :
  nth m (upd_nth l n x) d = if andb (Nat.eqb m n) (Nat.ltb n (length l)) then x else nth m l d.
Proof.
  revert n m. induction l as [|y l IH]; intros n m.
  - cbn. destruct m, n; cbn; try reflexivity; now rewrite andb_false_r.
  - destruct n as [|n], m as [|m]; cbn [upd_nth nth length]; try reflexivity.
    rewrite IH. reflexivity.
Qed.

Lemma upd_nth_app {A} (pre r : list A) (y x : A) : upd_nth (pre ++ y :: r) (length pre) x = pre ++ x :: r.
Proof. induction pre as [|p pre IH]; cbn; [reflexivity | now rewrite IH]. Qed.

(* the collecting loop:  for i := lo; i < hi; i++ { t := g i; if keep t { result = append(result, t) } } *)
Lemma fold_collect {A I} (body : list A -> I -> list A) (q : A -> bool) (g : I -> A) :
  (forall res i, body res i = if q (g i) then res ++ [g i] else res) ->
  forall l acc, fold_left body l acc = acc ++ filter q (map g l).
Proof.
  intros H. induction l as [|i l IH]; intros acc; cbn [fold_left map filter].
  - now rewrite app_nil_r.
  - rewrite IH, H. destruct (q (g i)); [now rewrite <- app_assoc | reflexivity].
Qed.

Lemma zfor_collect {A} lo hi (body : list A -> Z -> list A) (q : A -> bool) (g : Z -> A) :
  (forall res i, body res i = if q (g i) then res ++ [g i] else res) ->
  zfor lo hi body [] = filter q (map g (zrange lo hi)).
Proof. intros H. unfold zfor. now rewrite (fold_collect body q g H). Qed.

(* the same loop written with the test the other way round:  if drop t { continue }; result = append(result, t) *)
Lemma zfor_collect_not {A} lo hi (body : list A -> Z -> list A) (q : A -> bool) (g : Z -> A) :
  (forall res i, body res i = if q (g i) then res else res ++ [g i]) ->
  zfor lo hi body [] = filter (fun t => negb (q t)) (map g (zrange lo hi)).
Proof.
  intros H. apply zfor_collect. intros res i. rewrite H. now destruct (q (g i)).
Qed.

(* the filling loop:  for i := range a { a[i] = g i }  on a slice of length n *)
Lemma zfor_fill {A} (n : nat) (body : list A -> Z -> list A) (g : Z -> A) (z : A) :
  (forall l i, body l i = zupd l i (g i)) ->
  zfor 0 (Z.of_nat n) body (repeat z n) = map g (zrange 0 (Z.of_nat n)).
Proof.
  intros H. unfold zfor. rewrite zrange_0.
  assert (G : forall k m (pre : list A), length pre = k ->
            fold_left body (map Z.of_nat (seq k m)) (pre ++ repeat z m) = pre ++ map g (map Z.of_nat (seq k m))).
  { intros k m. revert k. induction m as [|m IH]; intros k pre Hp; cbn [seq map fold_left repeat]; [reflexivity|].
    rewrite H. unfold zupd. destruct (Z.ltb_spec (Z.of_nat k) 0); [lia|]. rewrite Nat2Z.id.
    replace (upd_nth (pre ++ z :: repeat z m) k (g (Z.of_nat k))) with ((pre ++ [g (Z.of_nat k)]) ++ repeat z m).
    - rewrite IH by (rewrite app_length; cbn; lia). now rewrite <- app_assoc.
    - rewrite <- app_assoc. cbn [app]. subst k. symmetry. apply upd_nth_app. }
  exact (G 0%nat n [] eq_refl).
Qed.

(* the same with the bound and the initial slice written in any way that comes to n and n zero values *)
Lemma zfor_fill_gen {A} (n : nat) (hi : Z) (body : list A -> Z -> list A) (g : Z -> A) (z : A) (init : list A) :
  hi = Z.of_nat n -> init = repeat z n -> (forall l i, body l i = zupd l i (g i)) ->
  zfor 0 hi body init = map g (zrange 0 (Z.of_nat n)).
Proof. intros -> -> H. now apply zfor_fill. Qed.

(* the appending loop:  for i := 0; i < n; i++ { a = append(a, g i) }  on an empty slice *)
Lemma zfor_append_gen {A} (n : nat) (hi : Z) (body : list A -> Z -> list A) (g : Z -> A) (init : list A) :
  hi = Z.of_nat n -> init = [] -> (forall l i, body l i = l ++ [g i]) ->
  zfor 0 hi body init = map g (zrange 0 (Z.of_nat n)).
Proof.
  intros -> -> H. unfold zfor. generalize (zrange 0 (Z.of_nat n)). intros l.
  change (map g l) with ([] ++ map g l). generalize (@nil A).
  induction l as [|i l IH]; intros acc; cbn [fold_left map]; [now rewrite app_nil_r|].
  rewrite H, IH, <- app_assoc. reflexivity.
Qed.

Lemma zlen_zrepeat {A} (z : A) (n : nat) : zlen (zrepeat z (Z.of_nat n)) = Z.of_nat n.
Proof. unfold zlen, zrepeat. now rewrite repeat_length, Nat2Z.id. Qed.
Lemma zrepeat_nat {A} (z : A) (n : nat) : zrepeat z (Z.of_nat n) = repeat z n.
Proof. unfold zrepeat. now rewrite Nat2Z.id. Qed.

(* bit tests:  m & (1 << i) != 0 *)
Lemma land_bit_test m i : 0 <= i -> negb (Z.land m (Z.shiftl 1 i) =? 0) = Z.testbit m i.
Proof.
  intros Hi. rewrite Z.shiftl_1_l.
  destruct (Z.testbit m i) eqn:E.
  - apply negb_true_iff, Z.eqb_neq. intros H.
    assert (F : Z.testbit (Z.land m (2 ^ i)) i = true) by (rewrite Z.land_spec, E, Z.pow2_bits_true; auto).
    rewrite H, Z.bits_0 in F. discriminate.
  - apply negb_false_iff, Z.eqb_eq. apply Z.bits_inj'. intros k Hk. rewrite Z.land_spec, Z.bits_0.
    destruct (Z.eq_dec k i) as [->|N]; [now rewrite E|]. rewrite Z.pow2_bits_false by lia. apply andb_false_r.
Qed.

(* ------------------------------------------------------------------ tactics of the GenEq* files *)

(* `same_as TRANSL_x`: reflexivity, with a failure message that names the theorem of Props/TRANSLR.v *)
Ltac same_tac s :=
  first [ reflexivity
        | fail 1 s ": the definition generated from the current Go source is not convertible to the hand-written model" ].
Tactic Notation "same_as" ident(s) := same_tac s.

(* split on every atomic boolean the two sides branch on (descending through && || negb, so that
   `a && negb b` and `b && negb a` are split on a and b, not as unrelated conditions), then compare *)
Ltac cond_atom c :=
  lazymatch c with
  | andb ?a _ => cond_atom a
  | orb ?a _ => cond_atom a
  | negb ?a => cond_atom a
  | _ => constr:(c)
  end.
Ltac split_ifs s :=
  cbv zeta;
  repeat (try reflexivity;
          match goal with
          | |- context [if ?c then _ else _] => let a := cond_atom c in destruct a
          end; cbn [negb andb orb]);
  same_tac s.
Tactic Notation "by_cases" ident(s) := split_ifs s.


(* ------------------------------------------------------------------ slices *)
(* a[lo:hi]: the elements lo .. hi-1 (out-of-range bounds panic in Go; here they are clipped) *)
Definition zslice {A : Type} (l : list A) (lo hi : Z) : list A := firstn (Z.to_nat (hi - lo)) (skipn (Z.to_nat lo) l).

Lemma nth_firstn_lt {A} (n i : nat) (l : list A) d : (i < n)%nat -> nth i (firstn n l) d = nth i l d.
Proof.
  revert i l. induction n as [|n IH]; intros i l H; [lia|].
  destruct l as [|x l]; [reflexivity|]. destruct i as [|i]; cbn; [reflexivity|]. apply IH. lia.
Qed.

Lemma nth_skipn_add {A} (n i : nat) (l : list A) d : nth i (skipn n l) d = nth (n + i) l d.
Proof.
  revert l. induction n as [|n IH]; intros l; [reflexivity|].
  destruct l as [|x l]; cbn [skipn]; [now destruct i|]. apply IH.
Qed.

Lemma znth_zslice {A} (l : list A) lo hi i d :
  0 <= lo -> 0 <= i < hi - lo -> znth i (zslice l lo hi) d = znth (lo + i) l d.
Proof.
  intros Hlo Hi. unfold znth, zslice.
  destruct (Z.ltb_spec i 0); [lia|]. destruct (Z.ltb_spec (lo + i) 0); [lia|].
  rewrite nth_firstn_lt by lia. rewrite nth_skipn_add. f_equal. lia.
Qed.

(* ------------------------------------------------------------------ more tactics of the GenEq* files *)

(* integer code: split on every comparison of integers with its specification, discard the impossible
   combinations by linear arithmetic and compare what is left (booleans by computation, tuples / lists of
   integers component by component).  Two pieces of code that decide the same thing by different chains of
   comparisons (nested ifs, early returns, a loop over the components) are identified by this. *)
Ltac z_split :=
  repeat match goal with
         | |- context [Z.gtb ?a ?b] => rewrite (Z.gtb_ltb a b)
         | |- context [Z.geb ?a ?b] => rewrite (Z.geb_leb a b)
         end;
  repeat (match goal with
          | |- context [Z.ltb ?a ?b] => destruct (Z.ltb_spec a b)
          | |- context [Z.leb ?a ?b] => destruct (Z.leb_spec a b)
          | |- context [Z.eqb ?a ?b] => destruct (Z.eqb_spec a b)
          end; try (exfalso; lia); cbn [negb andb orb]).
Ltac z_decide s :=
  cbv zeta; z_split;
  first [ reflexivity
        | repeat match goal with
                 | |- (_, _) = (_, _) => f_equal
                 | |- _ :: _ = _ :: _ => f_equal
                 end; lia
        | fail 1 s ": the definition generated from the current Go source differs from the hand-written model" ].
Tactic Notation "z_cases" ident(s) := z_decide s.

(* let '(a, b) := L in body  with L a loop / a call: the components by projection *)
Ltac split_pair_lets :=
  repeat match goal with
         | |- context [match ?L with pair _ _ => _ end] => rewrite (surjective_pairing L); cbv beta iota
         end.

(* a table built by a loop: `for i := range t { t[i] = g i }` on make([]T, n), or `t = append(t, g i)` on an
   empty slice, equals map g [0 .. n-1] *)
Ltac table_loop_tac n G s :=
  match goal with
  | |- @zfor _ 0%Z ?hi ?body ?init = _ =>
    apply eq_trans with (map G (zrange 0 (Z.of_nat n)));
    [ first [ eapply (zfor_fill_gen n hi body G _ init);
              [ rewrite ?zlen_zrepeat; reflexivity | rewrite ?zrepeat_nat; reflexivity | intros; reflexivity ]
            | apply (zfor_append_gen n hi body G init);
              [ rewrite ?zlen_zrepeat; reflexivity | reflexivity | intros; reflexivity ]
            | fail 2 s ": the loop does not build the table (t[i] = g i for i < n on make([]T, n), or t = append(t, g i) on an empty slice, g as in the model)" ]
    | ]
  end.

Tactic Notation "table_loop" constr(n) constr(G) ident(s) := table_loop_tac n G s.

(* closed index ranges and reads at closed indices are computed *)
Ltac eval_ranges :=
  repeat match goal with
         | |- context [zrange ?a ?b] =>
           let l := eval vm_compute in (zrange a b) in
           lazymatch l with
           | nil => change (zrange a b) with l
           | cons _ _ => change (zrange a b) with l
           end
         end.
Ltac eval_znth :=
  repeat match goal with
         | |- context [@znth ?A ?i ?l ?d] =>
           lazymatch i with
           | Z0 => idtac
           | Zpos ?p => lazymatch p with context [_ _] => idtac | xH => idtac end
           end;
           let n := eval vm_compute in (Z.to_nat i) in
           lazymatch l with
           | cons _ _ => change (@znth A i l d) with (@nth A n l d)
           end
         end;
  cbn [nth].

(* event lists: (e :: l) ++ l', l ++ [] *)
Ltac trace_norm := eval_ranges; cbn [app flat_map]; eval_znth; rewrite ?app_nil_r; cbn [app flat_map].
