(* Counting directed edges: the algebra behind "closed and consistently oriented".
   Generic in the vertex type (lattice edges in MC.v / MS.v, points of R^3 / R^2 in Interp.v).

   bal l (a,b) = #(a->b) - #(b->a) in the list of directed edges l;  closed l = all balances 0.
   - a triangle with two equal vertices has zero balance, so dropping such triangles
     (Triangle3.Degenerate) never changes any balance;
   - closedness pushes forward along ANY vertex map (coincident or merged vertices cannot
     open a mesh);
   - 2D: sdeg l v = #(segments starting at v) - #(segments ending at v); same two facts. *)
From Coq Require Import List ZArith Lia Bool Permutation.
Import ListNotations.
Open Scope Z_scope.

Section Cnt.
  Context {A : Type} (eqb : A -> A -> bool) (eqb_ok : forall a b, eqb a b = true <-> a = b).

  Fixpoint cnt (x : A) (l : list A) : Z :=
    match l with
    | [] => 0
    | y :: r => (if eqb x y then 1 else 0) + cnt x r
    end.

  Lemma eqb_refl a : eqb a a = true.
  Proof. now apply eqb_ok. Qed.
  Lemma eqb_neq a b : eqb a b = false <-> a <> b.
  Proof. rewrite <- eqb_ok. destruct (eqb a b); split; congruence. Qed.
  Definition dec (a b : A) : {a = b} + {a <> b} :=
    match eqb a b as x return eqb a b = x -> {a = b} + {a <> b} with
    | true => fun E => left (proj1 (eqb_ok a b) E)
    | false => fun E => right (proj1 (eqb_neq a b) E)
    end eq_refl.

  Lemma cnt_app x l m : cnt x (l ++ m) = cnt x l + cnt x m.
  Proof. induction l as [|y l IH]; cbn [cnt app]; [reflexivity | rewrite IH; ring]. Qed.
  Lemma cnt_nonneg x l : 0 <= cnt x l.
  Proof. induction l as [|y l IH]; cbn [cnt]; [lia | destruct (eqb x y); lia]. Qed.
  Lemma cnt_notin x l : ~ In x l -> cnt x l = 0.
  Proof.
    induction l as [|y l IH]; cbn [cnt In]; intros H; [reflexivity|].
    destruct (eqb x y) eqn:E; [apply eqb_ok in E; subst; tauto | rewrite IH; tauto].
  Qed.
  Lemma cnt_in x l : In x l -> 0 < cnt x l.
  Proof.
    induction l as [|y l IH]; cbn [cnt In]; [tauto|]. intros [->|H].
    - rewrite eqb_refl. pose proof (cnt_nonneg x l). lia.
    - specialize (IH H). destruct (eqb x y); lia.
  Qed.
  Lemma cnt_count_occ x l : cnt x l = Z.of_nat (count_occ dec l x).
  Proof.
    induction l as [|y l IH]; cbn [cnt count_occ]; [reflexivity|].
    destruct (dec y x) as [->|N].
    - rewrite eqb_refl, IH. lia.
    - assert (E : eqb x y = false) by (apply eqb_neq; congruence). rewrite E, IH. lia.
  Qed.
  Lemma cnt_perm l m : Permutation l m -> forall x, cnt x l = cnt x m.
  Proof. intros P x. rewrite !cnt_count_occ. f_equal. now apply Permutation_count_occ. Qed.
  Lemma perm_of_cnt l m : (forall x, cnt x l = cnt x m) -> Permutation l m.
  Proof.
    intros H. apply (Permutation_count_occ dec). intros x. specialize (H x). rewrite !cnt_count_occ in H. lia.
  Qed.
  Lemma cnt_repeat x y n : cnt x (repeat y n) = if eqb x y then Z.of_nat n else 0.
  Proof.
    induction n as [|n IH]; cbn [repeat cnt]; [now destruct (eqb x y)|]. rewrite IH. destruct (eqb x y); lia.
  Qed.
End Cnt.

Section CntMap.
  Context {A B : Type} (eqa : A -> A -> bool) (eqa_ok : forall a b, eqa a b = true <-> a = b)
          (eqb : B -> B -> bool) (eqb_ok : forall a b, eqb a b = true <-> a = b).
  (* equal counts are preserved by any map *)
  Lemma cnt_map_eq (f : A -> B) l m :
    (forall x, cnt eqa x l = cnt eqa x m) -> forall y, cnt eqb y (map f l) = cnt eqb y (map f m).
  Proof.
    intros H y. apply (cnt_perm eqb eqb_ok). apply Permutation_map. now apply (perm_of_cnt eqa eqa_ok).
  Qed.
  Lemma cnt_map_inj (f : A -> B) (g : B -> A) (Hgf : forall a, g (f a) = a) (Hfg : forall b, f (g b) = b) y l :
    cnt eqb y (map f l) = cnt eqa (g y) l.
  Proof.
    induction l as [|h l IH]; cbn [cnt map]; [reflexivity|]. rewrite IH. f_equal.
    destruct (eqb y (f h)) eqn:E1, (eqa (g y) h) eqn:E2; try reflexivity.
    - apply eqb_ok in E1. apply (eqb_neq eqa eqa_ok) in E2. exfalso; apply E2. subst y. apply Hgf.
    - apply eqa_ok in E2. apply (eqb_neq eqb eqb_ok) in E1. exfalso; apply E1. subst h. now rewrite Hfg.
  Qed.

  (* all multiplicities even is preserved by any map *)
  Lemma even_push (f : A -> B) l :
    (forall x, exists k, cnt eqa x l = 2 * k) -> forall y, exists k, cnt eqb y (map f l) = 2 * k.
  Proof.
    assert (G : forall n l, (length l <= n)%nat ->
              (forall x, exists k, cnt eqa x l = 2 * k) -> forall y, exists k, cnt eqb y (map f l) = 2 * k).
    { induction n as [|n IH]; intros l0 Hlen Hev y.
      - destruct l0; [exists 0; reflexivity | cbn in Hlen; lia].
      - destruct l0 as [|x l']; [exists 0; reflexivity|].
        assert (Hin : In x l').
        { destruct (in_dec (dec eqa eqa_ok) x l') as [|N]; [assumption|].
          destruct (Hev x) as [k Hk]. cbn [cnt] in Hk. rewrite (eqb_refl eqa eqa_ok), (cnt_notin eqa eqa_ok _ _ N) in Hk. lia. }
        apply in_split in Hin as (l1 & l2 & ->).
        assert (Hlen' : (length (l1 ++ l2) <= n)%nat).
        { cbn [length] in Hlen. rewrite app_length in *. cbn [length] in Hlen. lia. }
        assert (Hev' : forall z, exists k, cnt eqa z (l1 ++ l2) = 2 * k).
        { intros z. destruct (Hev z) as [k Hk]. cbn [cnt] in Hk. rewrite cnt_app in *. cbn [cnt] in Hk.
          exists (k - if eqa z x then 1 else 0). destruct (eqa z x); lia. }
        destruct (IH _ Hlen' Hev' y) as [k Hk].
        exists (k + if eqb y (f x) then 1 else 0).
        cbn [map cnt]. rewrite map_app in *. cbn [map]. rewrite cnt_app in *. cbn [cnt].
        destruct (eqb y (f x)); lia. }
    intros H. apply (G (length l) l (le_n _) H).
  Qed.
End CntMap.

(* ------------------------------------------------------------------ directed edges *)
Section Bal.
  Context {V : Type} (veqb : V -> V -> bool) (veqb_ok : forall a b, veqb a b = true <-> a = b).
  Local Notation edge := (V * V)%type.
  Definition eeqb (e f : edge) : bool := veqb (fst e) (fst f) && veqb (snd e) (snd f).
  Lemma eeqb_ok e f : eeqb e f = true <-> e = f.
  Proof.
    destruct e as [a b], f as [c d]; unfold eeqb; cbn [fst snd].
    rewrite andb_true_iff, !veqb_ok. split; [intros [-> ->]; reflexivity | intros [= -> ->]; auto].
  Qed.
  Definition revE (e : edge) : edge := (snd e, fst e).
  Lemma revE_invol e : revE (revE e) = e.
  Proof. now destruct e. Qed.
  Lemma eeqb_rev e f : eeqb (revE e) f = eeqb e (revE f).
  Proof. destruct e, f; unfold eeqb, revE; cbn [fst snd]. apply andb_comm. Qed.

  Definition bal (l : list edge) (e : edge) : Z := cnt eeqb e l - cnt eeqb (revE e) l.
  Definition closed (l : list edge) : Prop := forall e, bal l e = 0.

  Lemma bal_app l m e : bal (l ++ m) e = bal l e + bal m e.
  Proof. unfold bal. rewrite !cnt_app. ring. Qed.
  Lemma bal_nil e : bal [] e = 0.
  Proof. reflexivity. Qed.
  Lemma bal_rev l e : bal l (revE e) = - bal l e.
  Proof. unfold bal. rewrite revE_invol. ring. Qed.
  Lemma bal_loop l a : bal l (a, a) = 0.
  Proof. unfold bal, revE; cbn [fst snd]. ring. Qed.
  Lemma bal_flat_map {A} (f : A -> list edge) (l : list A) e :
    bal (flat_map f l) e = fold_right Z.add 0 (map (fun x => bal (f x) e) l).
  Proof. induction l as [|x l IH]; cbn [flat_map map fold_right]; [reflexivity | rewrite bal_app, IH; reflexivity]. Qed.
  Lemma cnt_map_rev e l : cnt eeqb e (map revE l) = cnt eeqb (revE e) l.
  Proof.
    induction l as [|h l IH]; cbn [cnt map]; [reflexivity|]. rewrite IH. f_equal.
    now rewrite eeqb_rev.
  Qed.
  Lemma bal_map_rev l e : bal (map revE l) e = - bal l e.
  Proof. unfold bal. rewrite !cnt_map_rev, revE_invol. ring. Qed.
  Lemma bal_nonzero_in l e : bal l e <> 0 -> In e l \/ In (revE e) l.
  Proof.
    intros H. destruct (in_dec (dec eeqb eeqb_ok) e l) as [|N1]; [auto|].
    destruct (in_dec (dec eeqb eeqb_ok) (revE e) l) as [|N2]; [auto|].
    exfalso; apply H. unfold bal. now rewrite !(cnt_notin eeqb eeqb_ok) by assumption.
  Qed.

  (* decision procedure: two edge lists have the same balance function *)
  Definition bal_eq_check (l m : list edge) : bool := forallb (fun e => bal l e =? bal m e) (l ++ m).
  Lemma bal_eq_check_sound l m : bal_eq_check l m = true -> forall e, bal l e = bal m e.
  Proof.
    unfold bal_eq_check. rewrite forallb_forall. intros H e.
    destruct (in_dec (dec eeqb eeqb_ok) e (l ++ m)) as [Hin|Hnin].
    - apply Z.eqb_eq. now apply H.
    - destruct (in_dec (dec eeqb eeqb_ok) (revE e) (l ++ m)) as [Hin'|Hnin'].
      + specialize (H _ Hin'). apply Z.eqb_eq in H. rewrite !bal_rev in H. lia.
      + unfold bal. assert (X : forall x, ~ In x (l ++ m) -> cnt eeqb x l = 0 /\ cnt eeqb x m = 0).
        { intros x Hx. split; apply (cnt_notin eeqb eeqb_ok); intro; apply Hx; apply in_or_app; tauto. }
        destruct (X _ Hnin) as [-> ->], (X _ Hnin') as [-> ->]. reflexivity.
  Qed.

  (* closed <-> the list is a rearrangement of its own reversal *)
  Lemma closed_perm l : closed l <-> Permutation l (map revE l).
  Proof.
    split.
    - intros C. apply (perm_of_cnt eeqb eeqb_ok). intros e. rewrite cnt_map_rev. specialize (C e). unfold bal in C. lia.
    - intros P e. unfold bal. rewrite (cnt_perm eeqb eeqb_ok _ _ P e), cnt_map_rev. ring.
  Qed.

  (* ---- triangles *)
  Local Notation tri := (V * V * V)%type.
  Definition tri_edges (t : tri) : list edge := let '(a, b, c) := t in [(a, b); (b, c); (c, a)].
  Definition edges_of (ts : list tri) : list edge := flat_map tri_edges ts.
  (* Triangle3.Degenerate(0) on abstract vertices: two of the three vertices are the same *)
  Definition degenerate (t : tri) : bool := let '(a, b, c) := t in veqb a b || veqb b c || veqb c a.

  Lemma edges_of_app l m : edges_of (l ++ m) = edges_of l ++ edges_of m.
  Proof. unfold edges_of. apply flat_map_app. Qed.

  Lemma degenerate_tri_balanced t : degenerate t = true -> forall e, bal (tri_edges t) e = 0.
  Proof.
    destruct t as [[a b] c]. unfold degenerate. rewrite !orb_true_iff, !veqb_ok.
    intros H e. unfold bal, tri_edges. cbn [cnt]. rewrite !eeqb_rev. unfold revE; cbn [fst snd].
    destruct H as [[->| ->]| ->];
      repeat match goal with |- context [eeqb e ?x] => let b := fresh "b" in generalize (eeqb e x); intro b end;
      repeat match goal with b : bool |- _ => destruct b end; reflexivity.
  Qed.

  (* removing the triangles with two equal vertices preserves every balance *)
  Lemma degenerate_removal_preserves_balance ts e :
    bal (edges_of (filter (fun t => negb (degenerate t)) ts)) e = bal (edges_of ts) e.
  Proof.
    induction ts as [|t ts IH]; [reflexivity|]. cbn [filter].
    change (edges_of (t :: ts)) with (tri_edges t ++ edges_of ts). rewrite bal_app, <- IH.
    destruct (degenerate t) eqn:D; cbn [negb].
    - rewrite (degenerate_tri_balanced t D). ring.
    - change (edges_of (t :: filter (fun t => negb (degenerate t)) ts)) with (tri_edges t ++ edges_of (filter (fun t => negb (degenerate t)) ts)).
      now rewrite bal_app.
  Qed.
  (* what is kept has three different vertices *)
  Lemma kept_triangles_distinct ts t : In t (filter (fun t => negb (degenerate t)) ts) ->
    let '(a, b, c) := t in a <> b /\ b <> c /\ c <> a.
  Proof.
    intros H. apply filter_In in H as [_ H]. destruct t as [[a b] c]. unfold degenerate in H.
    rewrite !negb_orb, !andb_true_iff, !negb_true_iff in H. destruct H as [[H1 H2] H3].
    apply (eqb_neq veqb veqb_ok) in H1, H2, H3. auto.
  Qed.

  (* ---- 2D: segments, signed degree *)
  Definition starts (l : list edge) : list V := map fst l.
  Definition ends (l : list edge) : list V := map snd l.
  Definition sdeg (l : list edge) (v : V) : Z := cnt veqb v (starts l) - cnt veqb v (ends l).
  Definition deg (l : list edge) (v : V) : Z := cnt veqb v (starts l) + cnt veqb v (ends l).
  Definition closed2 (l : list edge) : Prop := forall v, sdeg l v = 0.
  Definition zero_length (e : edge) : bool := veqb (fst e) (snd e).

  Lemma sdeg_app l m v : sdeg (l ++ m) v = sdeg l v + sdeg m v.
  Proof. unfold sdeg, starts, ends. rewrite !map_app, !cnt_app. ring. Qed.
  Lemma deg_app l m v : deg (l ++ m) v = deg l v + deg m v.
  Proof. unfold deg, starts, ends. rewrite !map_app, !cnt_app. ring. Qed.
  Lemma sdeg_flat_map {A} (f : A -> list edge) (l : list A) v :
    sdeg (flat_map f l) v = fold_right Z.add 0 (map (fun x => sdeg (f x) v) l).
  Proof. induction l as [|x l IH]; cbn [flat_map map fold_right]; [reflexivity | rewrite sdeg_app, IH; reflexivity]. Qed.
  Lemma deg_flat_map {A} (f : A -> list edge) (l : list A) v :
    deg (flat_map f l) v = fold_right Z.add 0 (map (fun x => deg (f x) v) l).
  Proof. induction l as [|x l IH]; cbn [flat_map map fold_right]; [reflexivity | rewrite deg_app, IH; reflexivity]. Qed.
  Lemma closed2_even_degree l : closed2 l -> forall v, exists k, deg l v = 2 * k.
  Proof. intros C v. exists (cnt veqb v (ends l)). specialize (C v). unfold sdeg in C. unfold deg. lia. Qed.
  Lemma zero_length_removal_preserves_sdeg l v :
    sdeg (filter (fun e => negb (zero_length e)) l) v = sdeg l v.
  Proof.
    induction l as [|[a b] l IH]; [reflexivity|]. cbn [filter]. unfold zero_length at 1; cbn [fst snd].
    change ((a, b) :: l) with ([(a, b)] ++ l). rewrite sdeg_app, <- IH.
    destruct (veqb a b) eqn:E; cbn [negb].
    - apply veqb_ok in E. subst b. unfold sdeg at 2. cbn. ring.
    - change ((a, b) :: filter (fun e => negb (zero_length e)) l) with ([(a, b)] ++ filter (fun e => negb (zero_length e)) l).
      now rewrite sdeg_app.
  Qed.
  Lemma zero_length_removal_parity l v :
    exists k, deg (filter (fun e => negb (zero_length e)) l) v = deg l v - 2 * k.
  Proof.
    induction l as [|[a b] l [k IH]]; [exists 0; reflexivity|]. cbn [filter]. unfold zero_length at 1; cbn [fst snd].
    change ((a, b) :: l) with ([(a, b)] ++ l). rewrite deg_app.
    destruct (veqb a b) eqn:E; cbn [negb].
    - apply veqb_ok in E. subst b. exists (k + if veqb v a then 1 else 0). rewrite IH. unfold deg, starts, ends. cbn [map cnt fst snd app].
      destruct (veqb v a); lia.
    - exists k. change ((a, b) :: filter (fun e => negb (zero_length e)) l) with ([(a, b)] ++ filter (fun e => negb (zero_length e)) l).
      rewrite deg_app, IH. ring.
  Qed.
  (* end points of all segments, with multiplicity *)
  Definition endpoints (l : list (V * V)) : list V := starts l ++ ends l.
  Lemma deg_endpoints l v : deg l v = cnt veqb v (endpoints l).
  Proof. unfold deg, endpoints. now rewrite cnt_app. Qed.
  Lemma kept_segments_nonzero l e : In e (filter (fun e => negb (zero_length e)) l) -> fst e <> snd e.
  Proof.
    intros H. apply filter_In in H as [_ H]. apply negb_true_iff in H. now apply (eqb_neq veqb veqb_ok) in H.
  Qed.
End Bal.

(* ------------------------------------------------------------------ vertex identification *)
Section Ident.
  Context {V W : Type} (veqb : V -> V -> bool) (veqb_ok : forall a b, veqb a b = true <-> a = b)
          (weqb : W -> W -> bool) (weqb_ok : forall a b, weqb a b = true <-> a = b).
  Variable phi : V -> W.
  Definition mapE (e : V * V) : W * W := (phi (fst e), phi (snd e)).
  Definition mapT (t : V * V * V) : W * W * W := let '(a, b, c) := t in (phi a, phi b, phi c).

  Lemma edges_of_mapT ts : edges_of (map mapT ts) = map mapE (edges_of ts).
  Proof.
    induction ts as [|[[a b] c] ts IH]; [reflexivity|].
    cbn [map]. change (edges_of (mapT (a, b, c) :: map mapT ts)) with (tri_edges (mapT (a, b, c)) ++ edges_of (map mapT ts)).
    change (edges_of ((a, b, c) :: ts)) with (tri_edges (a, b, c) ++ edges_of ts).
    rewrite IH, map_app. reflexivity.
  Qed.

  (* closedness pushes forward along any vertex map *)
  Lemma identification_preserves_closed l : closed veqb l -> closed weqb (map mapE l).
  Proof.
    intros C. apply (closed_perm weqb weqb_ok). apply (closed_perm veqb veqb_ok) in C.
    replace (map (@revE W) (map mapE l)) with (map mapE (map (@revE V) l)).
    - now apply Permutation_map.
    - rewrite !map_map. apply map_ext. intros [a b]. reflexivity.
  Qed.
  (* even degree everywhere is preserved by any vertex map *)
  Lemma identification_preserves_even_degree l :
    (forall v, exists k, deg veqb l v = 2 * k) -> forall w, exists k, deg weqb (map mapE l) w = 2 * k.
  Proof.
    intros H w. rewrite (deg_endpoints weqb). unfold endpoints, starts, ends. rewrite !map_map. cbn [mapE fst snd].
    rewrite <- (map_map fst phi), <- (map_map snd phi), <- map_app.
    apply (even_push veqb veqb_ok weqb). intros v. destruct (H v) as [k Hk]. exists k.
    rewrite <- Hk. rewrite (deg_endpoints veqb). reflexivity.
  Qed.
  Lemma identification_preserves_closed2 l : closed2 veqb l -> closed2 weqb (map mapE l).
  Proof.
    intros C w. unfold sdeg, starts, ends. rewrite !map_map. cbn [mapE fst snd].
    assert (P : Permutation (map fst l) (map snd l)).
    { apply (perm_of_cnt veqb veqb_ok). intros v. specialize (C v). unfold sdeg, starts, ends in C. lia. }
    rewrite <- (map_map fst phi), <- (map_map snd phi).
    rewrite (cnt_perm weqb weqb_ok _ _ (Permutation_map phi P) w). ring.
  Qed.
End Ident.

Section Bij.
  Context {V : Type} (veqb : V -> V -> bool) (veqb_ok : forall a b, veqb a b = true <-> a = b).
  Lemma bal_map_bij (f g : V -> V) (Hgf : forall v, g (f v) = v) (Hfg : forall v, f (g v) = v) e l :
    bal veqb (map (mapE f) l) e = bal veqb l (mapE g e).
  Proof.
    unfold bal.
    rewrite !(cnt_map_inj (eeqb veqb) (eeqb_ok veqb veqb_ok) (eeqb veqb) (eeqb_ok veqb veqb_ok) (mapE f) (mapE g)).
    - reflexivity.
    - intros [a b]; unfold mapE; cbn [fst snd]. now rewrite !Hgf.
    - intros [a b]; unfold mapE; cbn [fst snd]. now rewrite !Hfg.
    - intros [a b]; unfold mapE; cbn [fst snd]. now rewrite !Hgf.
    - intros [a b]; unfold mapE; cbn [fst snd]. now rewrite !Hfg.
  Qed.
  Lemma sdeg_map_bij (f g : V -> V) (Hgf : forall v, g (f v) = v) (Hfg : forall v, f (g v) = v) v l :
    sdeg veqb (map (mapE f) l) v = sdeg veqb l (g v).
  Proof.
    unfold sdeg, starts, ends. rewrite !map_map. cbn [mapE fst snd].
    rewrite <- (map_map fst f), <- (map_map snd f).
    now rewrite !(cnt_map_inj veqb veqb_ok veqb veqb_ok f g Hgf Hfg).
  Qed.
  Lemma deg_map_bij (f g : V -> V) (Hgf : forall v, g (f v) = v) (Hfg : forall v, f (g v) = v) v l :
    deg veqb (map (mapE f) l) v = deg veqb l (g v).
  Proof.
    unfold deg, starts, ends. rewrite !map_map. cbn [mapE fst snd].
    rewrite <- (map_map fst f), <- (map_map snd f).
    now rewrite !(cnt_map_inj veqb veqb_ok veqb veqb_ok f g Hgf Hfg).
  Qed.
End Bij.
