(* C06, completeness of the marching-cubes mesh (ROps instance of Interp.mc_to_triangles run over the
   lattice of Sample.marching_cubes).  Statements about the mesh that is actually EMITTED, i.e. after the
   removal of triangles with coincident vertices (Triangle3.Degenerate(0)); all lattices with positive
   increments, all fields f : R^3 -> R.  "window" = the snapping window |v| < epsilon of mcInterpolate.

   1. tables (reflection over the regenerated tables, 256 configurations x 256 window masks x 12 edges):
        alive_sound_gen      in every cell, a sign-changing edge with at most one end inside the window whose
                             vertex is not shared with another sign-changing edge of the cell is used by a
                             triangle of the row whose three vertices stay pairwise distinct, whatever the
                             other corners do
        alive_sound          special case: both ends outside the window (never shared)
        (table completeness itself - every sign-changing edge is used by the row and conversely - is
         MC.crossing_edges_used / MC.tris_use_crossing_edges)
   2. cells and lattices:
        cell_edge_complete(_gen)   such an edge carries a vertex of a triangle the cell emits
        lattice_edge_complete      every lattice edge of the sampled lattice with end values of different sign,
                                   both outside the window, carries a vertex of an emitted triangle of
                                   marching_cubes L f - the linear zero crossing - whatever all other values are
        lattice_edge_complete_snap one end inside the window: the lattice point is an emitted vertex if it has
                                   no other neighbour of the other sign outside the window
        lattice_edge_unfiltered    no condition at all: vertex of the mesh before the removal
        mixed_cell_empty_only_if   a cell that emits nothing has no sign change between two values outside
                                   the window
   3. geometry (diag = cell diagonal):
        resolvable_edge            s with open balls of radius r > diag/2 tangent at s, one in {f<0}, one in
                                   {f>0}, closed ball of radius diag around s inside the sampled box: a
                                   sign-changing lattice edge with both ends within diag of s
        complete_resolvable        + no lattice value inside the window within diag of s: the EMITTED mesh has
                                   a vertex within ONE cell diagonal of s (constant 1, radius > 1/2 diagonal)
        complete_resolvable_gen    + window values allowed when harmless (window_regular: e.g. planes and box
                                   faces lying in lattice planes)
        complete_resolvable_unfiltered  no condition: vertex of the mesh before the removal within diag of s
        nosnap_nothing_removed     no lattice value inside the window: Degenerate removes nothing
   4. the window condition cannot be dropped for arbitrary fields:
        lonely_snap_empty / snap_refuted  a field whose only negative lattice value lies in (-epsilon, 0)
                                   renders to the empty mesh although its surface is resolvable
   5. plane_example, aligned_plane_example: the hypotheses of 3. are satisfiable (also with window values)
   6. octree_same_triangles: for a 1-Lipschitz field the octree renderer emits exactly the triangles of the
      uniform walk over the lattice of its finest cells (through C07), so 2.-3. hold for it:
      octree_complete_resolvable *)
From Coq Require Import List ZArith NArith Bool Reals Lra Lia.
From Sdfx Require Import Num.Ops Num.RInst Geo.Vec Geo.Box Geo.NormR Generated.MarchTables
  Render.Balance Render.MC Render.MS Render.Lattice Render.Interp Render.LatticeR Render.Octree Render.Sample Render.InterpR.
Import ListNotations.

(* ================================================================== 1. tables *)
Open Scope Z_scope.

Definition scale3 (k : Z) (p : Z * Z * Z) : Z * Z * Z := let '(x, y, z) := p in (k * x, k * y, k * z).
Definition corner_of (p : Z * Z * Z) : N := let '(x, y, z) := p in corner_at x y z.
Definition far_of (v : gv) : Z * Z * Z := addp (fst v) (unit (snd v)).

(* static data of a local edge: corner numbers of its low and high end (in the orientation of
   LatticeR.vposR: base point, base point + unit axis), doubled base point, direction *)
Definition einfoT := (N * N * (Z * Z * Z) * (Z * Z * Z))%type.
Definition einfo (e : N) : einfoT :=
  let v := ledge e in (corner_of (fst v), corner_of (far_of v), scale3 2 (fst v), unit (snd v)).
(* where mcInterpolate puts the vertex of a sign-changing edge, as a function of which corners are inside
   the snapping window (bit c of sm): 0 = the low end, 2 = the high end, 1 = strictly between *)
Definition kind_i (sm : N) (i : einfoT) : Z :=
  let '(lo, hi, _, _) := i in
  let sl := N.testbit sm lo in let sh := N.testbit sm hi in
  if sl && negb sh then 0 else if sh && negb sl then 2 else 1.
(* the vertex in doubled cell coordinates {0,1,2}^3 (1 = anywhere strictly inside the edge) *)
Definition dpos_i (sm : N) (i : einfoT) : Z * Z * Z := let '(_, _, b2, u) := i in addp b2 (scale3 (kind_i sm i) u).
Definition nosnap_i (sm : N) (i : einfoT) : bool := let '(lo, hi, _, _) := i in negb (N.testbit sm lo) && negb (N.testbit sm hi).
Definition kind (sm e : N) : Z := kind_i sm (einfo e).
Definition dpos (sm e : N) : Z * Z * Z := dpos_i sm (einfo e).
(* the three vertices of a table triangle stay pairwise distinct *)
Definition alive (sm : N) (t : N * N * N) : bool :=
  let '(a, b, c) := t in
  negb (pt_eqb (dpos sm a) (dpos sm b)) && negb (pt_eqb (dpos sm b) (dpos sm c)) && negb (pt_eqb (dpos sm c) (dpos sm a)).
Definition uses (e : N) (t : N * N * N) : bool := let '(a, b, c) := t in (e =? a)%N || (e =? b)%N || (e =? c)%N.

(* the decision procedure, with the per-edge data and the per-mask positions computed once *)
Definition infos : list einfoT := map einfo ledges12.
Definition dflt : einfoT := (0%N, 0%N, (0, 0, 0), (0, 0, 0)).
Definition at_ {A} (l : list A) (d : A) (e : N) : A := nth (N.to_nat e) l d.
Definition alive_l (ps : list (Z * Z * Z)) (t : N * N * N) : bool :=
  let '(a, b, c) := t in
  let pa := at_ ps (0, 0, 0) a in let pb := at_ ps (0, 0, 0) b in let pc := at_ ps (0, 0, 0) c in
  negb (pt_eqb pa pb) && negb (pt_eqb pb pc) && negb (pt_eqb pc pa).
(* premise: not both ends inside the window (no midpoint vertex), and no other sign-changing edge of the
   cell has its vertex at the same place (no other edge snaps onto the same corner) *)
Definition notboth_i (sm : N) (i : einfoT) : bool := let '(lo, hi, _, _) := i in negb (N.testbit sm lo && N.testbit sm hi).
Definition unshared_l (ps : list (Z * Z * Z)) (xs : list N) (e : N) : bool :=
  forallb (fun e' => (e' =? e)%N || negb (pt_eqb (at_ ps (0, 0, 0) e') (at_ ps (0, 0, 0) e))) xs.
Definition fast_e (inf : list einfoT) (ps : list (Z * Z * Z)) (ts : list (N * N * N)) (xs : list N) (sm e : N) : bool :=
  implb (notboth_i sm (at_ inf dflt e) && unshared_l ps xs e) (existsb (fun t => uses e t && alive_l ps t) ts).
Definition fast_sm (inf : list einfoT) (ts : list (N * N * N)) (xs : list N) (sm : N) : bool :=
  forallb (fast_e inf (map (dpos_i sm) inf) ts xs sm) xs.
Definition fast_cfg (inf : list einfoT) (dom : list N) (cfg : N) : bool :=
  forallb (fast_sm inf (local_tris cfg) (filter (crossing cfg) ledges12)) dom.
Lemma alive_table_ok : forallb (fast_cfg infos cfgs) cfgs = true.
Proof. vm_cast_no_check (@eq_refl bool true). Qed.

Lemma at_map_ledges {A} (g : N -> A) d e : (e < 12)%N -> at_ (map g ledges12) d e = g e.
Proof.
  intros He. unfold at_, ledges12. rewrite map_map.
  rewrite (nth_indep _ d (g 0%N)) by (rewrite map_length, seq_length; lia).
  rewrite (map_nth (fun n => g (N.of_nat n)) (seq 0 12) 0%nat), seq_nth by lia. cbn [Nat.add]. now rewrite N2Nat.id.
Qed.

Lemma local_tris_edges cfg a b c : (cfg < 256)%N -> In (a, b, c) (local_tris cfg) ->
  ((a < 12)%N /\ crossing cfg a = true) /\ ((b < 12)%N /\ crossing cfg b = true) /\ ((c < 12)%N /\ crossing cfg c = true).
Proof.
  intros Hc Hin. apply in_chunk3 in Hin as (Ha & Hb & Hc'). fold (tri_row cfg) in Ha, Hb, Hc'.
  repeat split; now apply (tris_use_crossing_edges cfg).
Qed.

Lemma in_ledges12_inv e : In e ledges12 -> (e < 12)%N.
Proof. unfold ledges12. intros H. apply in_map_iff in H as (n & <- & Hn). apply in_seq in Hn. lia. Qed.

(* soundness of the decision procedure; the table of per-edge data and the enumeration of 0..255 are kept
   abstract so that the kernel has nothing to recompute when it checks this proof *)
Lemma fast_sound (inf : list einfoT) (dom : list N) : inf = map einfo ledges12 -> (forall c, (c < 256)%N -> In c dom) ->
  forallb (fast_cfg inf dom) dom = true ->
  forall cfg sm e, (cfg < 256)%N -> (sm < 256)%N -> (e < 12)%N ->
  crossing cfg e = true -> notboth_i sm (einfo e) = true ->
  (forall e', (e' < 12)%N -> crossing cfg e' = true -> e' <> e -> pt_eqb (dpos sm e') (dpos sm e) = false) ->
  exists t, In t (local_tris cfg) /\ uses e t = true /\ alive sm t = true.
Proof.
  intros Einf Hdom H cfg sm e Hc Hs He Hx Hn Hun.
  rewrite forallb_forall in H. pose proof (H cfg (Hdom cfg Hc)) as H1. unfold fast_cfg in H1.
  rewrite forallb_forall in H1. pose proof (H1 sm (Hdom sm Hs)) as H2. unfold fast_sm in H2. rewrite forallb_forall in H2.
  assert (Hin : In e (filter (crossing cfg) ledges12)) by (apply filter_In; split; [now apply in_ledges12 | exact Hx]).
  specialize (H2 e Hin). unfold fast_e in H2. subst inf. rewrite at_map_ledges in H2 by exact He. rewrite Hn in H2.
  assert (U : unshared_l (map (dpos_i sm) (map einfo ledges12)) (filter (crossing cfg) ledges12) e = true).
  { unfold unshared_l. apply forallb_forall. intros e' He'. apply filter_In in He' as [L' X']. apply in_ledges12_inv in L'.
    rewrite map_map, !at_map_ledges by assumption.
    destruct (N.eqb e' e) eqn:E; [reflexivity|]. apply N.eqb_neq in E. cbn [orb]. fold (dpos sm e') (dpos sm e).
    now rewrite (Hun e' L' X' E). }
  rewrite U in H2. cbn [andb implb] in H2.
  apply existsb_exists in H2 as (t & Ht & Hu). apply andb_true_iff in Hu as [Hu Ha]. exists t. split; [exact Ht|]. split; [exact Hu|].
  destruct t as [[a b] c]. destruct (local_tris_edges cfg a b c Hc Ht) as ((La & _) & (Lb & _) & (Lc & _)).
  unfold alive_l in Ha. cbv zeta in Ha. rewrite map_map in Ha. rewrite !at_map_ledges in Ha by assumption. exact Ha.
Qed.

(* alive_sound_gen: 256 configurations x 256 masks x 12 edges *)
Lemma alive_sound_gen cfg sm e : (cfg < 256)%N -> (sm < 256)%N -> (e < 12)%N ->
  crossing cfg e = true -> notboth_i sm (einfo e) = true ->
  (forall e', (e' < 12)%N -> crossing cfg e' = true -> e' <> e -> pt_eqb (dpos sm e') (dpos sm e) = false) ->
  exists t, In t (local_tris cfg) /\ uses e t = true /\ alive sm t = true.
Proof. exact (fast_sound infos cfgs eq_refl in_cfgs alive_table_ok cfg sm e). Qed.

(* doubled position as a function of the kind *)
Definition dposk (e : N) (k : Z) : Z * Z * Z := addp (scale3 2 (fst (ledge e))) (scale3 k (unit (snd (ledge e)))).
Lemma dpos_dposk sm e : dpos sm e = dposk e (kind sm e).
Proof. reflexivity. Qed.
(* the end of the edge a vertex of kind 0 / 2 sits on *)
Definition endk (e : N) (k : Z) : Z * Z * Z := if k =? 0 then fst (ledge e) else far_of (ledge e).

(* a vertex strictly inside an edge is shared with no other edge; a vertex at a corner is shared only with
   vertices at the same corner; an edge is determined by its two ends *)
Definition kinds3 : list Z := [0; 1; 2].
Definition inner_unique_check : bool :=
  forallb (fun e => forallb (fun e' => forallb (fun k' => implb (pt_eqb (dposk e 1) (dposk e' k')) (e =? e')%N) kinds3) ledges12) ledges12.
Definition corner_share_check : bool :=
  forallb (fun e => forallb (fun e' => forallb (fun k => forallb (fun k' =>
    implb (negb (k =? 1) && pt_eqb (dposk e k) (dposk e' k')) (negb (k' =? 1) && pt_eqb (endk e k) (endk e' k'))) kinds3) kinds3) ledges12) ledges12.
Definition ends_inj_check : bool :=
  forallb (fun e => forallb (fun e' => forallb (fun k => forallb (fun k' =>
    implb (negb (k =? 1) && negb (k' =? 1) && pt_eqb (endk e k) (endk e' k') && pt_eqb (endk e (2 - k)) (endk e' (2 - k'))) (e =? e')%N)
    kinds3) kinds3) ledges12) ledges12.
Lemma inner_unique_ok_c : inner_unique_check = true.
Proof. vm_cast_no_check (@eq_refl bool true). Qed.
Lemma corner_share_ok_c : corner_share_check = true.
Proof. vm_cast_no_check (@eq_refl bool true). Qed.
Lemma ends_inj_ok_c : ends_inj_check = true.
Proof. vm_cast_no_check (@eq_refl bool true). Qed.

Lemma in_kinds3 k : k = 0 \/ k = 1 \/ k = 2 -> In k kinds3.
Proof. unfold kinds3. cbn. intuition. Qed.
Lemma kind_cases sm e : kind sm e = 0 \/ kind sm e = 1 \/ kind sm e = 2.
Proof.
  unfold kind, kind_i. destruct (einfo e) as [[[lo hi] b2] u]. cbv zeta.
  destruct (N.testbit sm lo && negb (N.testbit sm hi)); [auto|]. destruct (N.testbit sm hi && negb (N.testbit sm lo)); auto.
Qed.
Lemma inner_unique e e' k' : (e < 12)%N -> (e' < 12)%N -> k' = 0 \/ k' = 1 \/ k' = 2 -> dposk e 1 = dposk e' k' -> e = e'.
Proof.
  intros He He' Hk E. pose proof inner_unique_ok_c as H. unfold inner_unique_check in H.
  pose proof (forallb_ledges _ (forallb_ledges _ H e He) e' He') as H1. cbv beta in H1. rewrite forallb_forall in H1.
  specialize (H1 k' (in_kinds3 k' Hk)). rewrite (proj2 (pt_eqb_eq _ _) E) in H1. now apply N.eqb_eq.
Qed.
Lemma corner_share e e' k k' : (e < 12)%N -> (e' < 12)%N -> k = 0 \/ k = 2 -> k' = 0 \/ k' = 1 \/ k' = 2 ->
  dposk e k = dposk e' k' -> (k' = 0 \/ k' = 2) /\ endk e k = endk e' k'.
Proof.
  intros He He' Hk Hk' E. pose proof corner_share_ok_c as H. unfold corner_share_check in H.
  pose proof (forallb_ledges _ (forallb_ledges _ H e He) e' He') as H1. cbv beta in H1. rewrite forallb_forall in H1.
  assert (Ik : In k kinds3) by (apply in_kinds3; tauto). specialize (H1 k Ik). rewrite forallb_forall in H1.
  specialize (H1 k' (in_kinds3 k' Hk')). rewrite (proj2 (pt_eqb_eq _ _) E) in H1.
  assert (K1 : (k =? 1) = false) by (destruct Hk as [-> | ->]; reflexivity). rewrite K1 in H1. cbn [negb andb implb] in H1.
  apply andb_true_iff in H1 as [A B]. apply pt_eqb_eq in B. split; [|exact B].
  apply negb_true_iff, Z.eqb_neq in A. lia.
Qed.
Lemma ends_inj e e' k k' : (e < 12)%N -> (e' < 12)%N -> k = 0 \/ k = 2 -> k' = 0 \/ k' = 2 ->
  endk e k = endk e' k' -> endk e (2 - k) = endk e' (2 - k') -> e = e'.
Proof.
  intros He He' Hk Hk' E1 E2. pose proof ends_inj_ok_c as H. unfold ends_inj_check in H.
  pose proof (forallb_ledges _ (forallb_ledges _ H e He) e' He') as H1. cbv beta in H1. rewrite forallb_forall in H1.
  assert (Ik : In k kinds3) by (apply in_kinds3; tauto). specialize (H1 k Ik). rewrite forallb_forall in H1.
  assert (Ik' : In k' kinds3) by (apply in_kinds3; tauto). specialize (H1 k' Ik').
  rewrite (proj2 (pt_eqb_eq _ _) E1), (proj2 (pt_eqb_eq _ _) E2) in H1.
  assert (K1 : (k =? 1) = false) by (destruct Hk as [-> | ->]; reflexivity).
  assert (K1' : (k' =? 1) = false) by (destruct Hk' as [-> | ->]; reflexivity). rewrite K1, K1' in H1. cbn [negb andb implb] in H1.
  now apply N.eqb_eq.
Qed.

(* alive_sound: the special case of an edge with both ends outside the window *)
Lemma alive_sound cfg sm e : (cfg < 256)%N -> (sm < 256)%N -> (e < 12)%N ->
  crossing cfg e = true -> nosnap_i sm (einfo e) = true ->
  exists t, In t (local_tris cfg) /\ uses e t = true /\ alive sm t = true.
Proof.
  intros Hc Hs He Hx Hn.
  assert (K : kind sm e = 1 /\ notboth_i sm (einfo e) = true).
  { unfold kind, kind_i, notboth_i. unfold nosnap_i in Hn. destruct (einfo e) as [[[lo hi] b2] u]. cbv zeta.
    apply andb_true_iff in Hn as [A B]. apply negb_true_iff in A, B. now rewrite A, B. }
  destruct K as [K Nb]. apply (alive_sound_gen cfg sm e Hc Hs He Hx Nb).
  intros e' He' Hx' Ne. destruct (pt_eqb (dpos sm e') (dpos sm e)) eqn:E; [|reflexivity]. exfalso. apply Ne.
  apply pt_eqb_eq in E. rewrite !dpos_dposk, K in E. symmetry. exact (inner_unique e e' _ He He' (kind_cases sm e') (eq_sym E)).
Qed.

(* table completeness (MC.v, restated in one place): the edge mask is the set of edges whose corner signs
   differ, the triangle row uses exactly those edges, rows are whole triangles over three different edges *)
Lemma table_complete cfg e : (cfg < 256)%N -> (e < 12)%N ->
  N.testbit (edge_mask cfg) e = crossing cfg e /\
  (crossing cfg e = true <-> In e (tri_row cfg)) /\
  (N.of_nat (length (tri_row cfg)) mod 3 = 0)%N /\
  (forall a b c, In (a, b, c) (local_tris cfg) -> a <> b /\ b <> c /\ a <> c).
Proof.
  intros Hc He. split; [now apply edge_table_ok|]. split; [|split; [now apply tri_rows_whole | intros a b c; now apply tris_three_edges]].
  split; [now apply crossing_edges_used | intros H; now apply (tris_use_crossing_edges cfg e Hc H)].
Qed.

(* shape of the twelve lattice edges of the unit cell and of the corner numbering *)
Definition okc (b u : Z) : bool := ((b =? 0) && (u =? 0)) || ((b =? 1) && (u =? 0)) || ((b =? 0) && (u =? 1)).
Definition shape_check (e : N) : bool :=
  let v := ledge e in
  let '(bx, by_, bz) := fst v in let '(ux, uy, uz) := unit (snd v) in
  okc bx ux && okc by_ uy && okc bz uz &&
  (corner_of (fst v) <? 8)%N && (corner_of (far_of v) <? 8)%N &&
  pt_eqb (corner_off (corner_of (fst v))) (fst v) && pt_eqb (corner_off (corner_of (far_of v))) (far_of v).
Lemma shape_ok_c : forallb shape_check ledges12 = true.
Proof. vm_cast_no_check (@eq_refl bool true). Qed.
Lemma shape_ok e : (e < 12)%N ->
  let v := ledge e in
  okc (fst (fst (fst v))) (fst (fst (unit (snd v)))) = true /\ okc (snd (fst (fst v))) (snd (fst (unit (snd v)))) = true /\
  okc (snd (fst v)) (snd (unit (snd v))) = true /\
  (corner_of (fst v) < 8)%N /\ (corner_of (far_of v) < 8)%N /\
  corner_off (corner_of (fst v)) = fst v /\ corner_off (corner_of (far_of v)) = far_of v.
Proof.
  intros He. pose proof (forallb_ledges _ shape_ok_c e He) as H. unfold shape_check in H. cbv zeta in *.
  destruct (fst (ledge e)) as [[bx by_] bz] eqn:Eb. destruct (unit (snd (ledge e))) as [[ux uy] uz] eqn:Eu.
  rewrite !andb_true_iff, !N.ltb_lt, !pt_eqb_eq in H. cbn [fst snd]. tauto.
Qed.

(* the cell edge with a given base offset and axis *)
Definition edge_ix (b : Z * Z * Z) (a : Z) : N :=
  match find (fun e => gv_eqb (ledge e) (b, a)) ledges12 with Some e => e | None => 0%N end.
Definition cell_bases (a : Z) : list (Z * Z * Z) :=
  if a =? 0 then [(0, 0, 0); (0, 1, 0); (0, 0, 1); (0, 1, 1)]
  else if a =? 1 then [(0, 0, 0); (1, 0, 0); (0, 0, 1); (1, 0, 1)]
  else [(0, 0, 0); (1, 0, 0); (0, 1, 0); (1, 1, 0)].
Definition edge_ix_check : bool :=
  forallb (fun a => forallb (fun b => (edge_ix b a <? 12)%N && gv_eqb (ledge (edge_ix b a)) (b, a)) (cell_bases a)) [0; 1; 2].
Lemma edge_ix_ok_c : edge_ix_check = true.
Proof. vm_cast_no_check (@eq_refl bool true). Qed.
Lemma edge_ix_ok a b : In a [0; 1; 2] -> In b (cell_bases a) -> (edge_ix b a < 12)%N /\ ledge (edge_ix b a) = (b, a).
Proof.
  intros Ha Hb. pose proof edge_ix_ok_c as H. unfold edge_ix_check in H. rewrite forallb_forall in H.
  specialize (H a Ha). rewrite forallb_forall in H. specialize (H b Hb).
  apply andb_true_iff in H as [H1 H2]. apply N.ltb_lt in H1. apply gv_eqb_eq in H2. now split.
Qed.

(* a row of whole triangles: every entry of the row lies in one of its triangles *)
Lemma in_chunk3_inv (l : list N) e : (N.of_nat (length l) mod 3 = 0)%N -> In e l ->
  exists t, In t (chunk3 l) /\ uses e t = true.
Proof.
  revert l. fix IH 1. intros l Hl Hin. destruct l as [|x [|y [|z r]]].
  - destruct Hin.
  - cbn in Hl. discriminate.
  - cbn in Hl. discriminate.
  - cbn [chunk3]. destruct Hin as [-> | [-> | [-> | Hin]]].
    + exists (z, y, e). split; [now left|]. unfold uses. now rewrite N.eqb_refl, !orb_true_r.
    + exists (z, e, x). split; [now left|]. unfold uses. now rewrite N.eqb_refl, orb_true_r.
    + exists (e, y, x). split; [now left|]. unfold uses. now rewrite N.eqb_refl.
    + destruct (IH r) as (t & Ht & Hu); [|exact Hin|].
      * cbn [length] in Hl. rewrite !Nat2N.inj_succ in Hl. rewrite <- !N.add_1_r in Hl.
        replace (N.of_nat (length r) + 1 + 1 + 1)%N with (N.of_nat (length r) + 1 * 3)%N in Hl by lia.
        now rewrite N.mod_add in Hl by lia.
      * exists t. split; [now right | exact Hu].
Qed.

(* ================================================================== 2. cells of a real lattice *)
Open Scope R_scope.

(* class of a parameter in [0,1]: 0 at 0, 2 at 1, 1 in between *)
Definition cls (t : R) : Z := if Reqb t 0 then 0%Z else if Reqb t 1 then 2%Z else 1%Z.
Lemma cls_0 : cls 0 = 0%Z.
Proof. unfold cls. now rewrite (proj2 (Reqb_true 0 0) eq_refl). Qed.
Lemma cls_1 : cls 1 = 2%Z.
Proof.
  unfold cls. assert (E : Reqb 1 0 = false) by (apply Reqb_false; lra). now rewrite E, (proj2 (Reqb_true 1 1) eq_refl).
Qed.
Lemma cls_mid t : t <> 0 -> t <> 1 -> cls t = 1%Z.
Proof. intros H0 H1. unfold cls. apply Reqb_false in H0, H1. now rewrite H0, H1. Qed.
Lemma cls_coord b u t : okc b u = true -> (2 * b + cls t * u)%Z = cls (IZR b + t * IZR u).
Proof.
  unfold okc. rewrite !orb_true_iff, !andb_true_iff, !Z.eqb_eq. intros [[[-> ->] | [-> ->]] | [-> ->]].
  - replace (0 + t * 0) with 0 by ring. rewrite cls_0. lia.
  - replace (1 + t * 0) with 1 by ring. rewrite cls_1. lia.
  - replace (0 + t * 1) with t by ring. lia.
Qed.

Section CellsR.
  Variable L : lattice3 ROps.
  Variable f : RV3 -> R.
  Hypothesis inc_pos : 0 < wx (linc L) /\ 0 < wy (linc L) /\ 0 < wz (linc L).

  Notation cpos := (lpoint L).
  Notation val := (lval L f).
  Notation sgn := (sgnR val 0).
  Notation vpos := (vposR cpos val 0).
  (* lattice point inside the snapping window *)
  Definition snp (q : pt) : bool := Rltb (Rabs (val q)) (@eps ROps).

  (* the point at parameter t of the lattice edge v = (base point, axis) *)
  Definition edge_point (v : gv) (t : R) : RV3 := lerp3 (cpos (fst v)) (cpos (far_of v)) t.

  Lemma vpos_edge_point v : vpos v = edge_point v (interp_t (val (fst v)) (val (far_of v)) 0).
  Proof. unfold vposR, edge_point, far_of. cbv zeta. apply mc_interpolate_lerp. Qed.

  (* local real coordinates of a point of a cell edge *)
  Lemma edge_point_coords px py pz e t :
    let v := ledge e in
    edge_point (shiftv (px, py, pz) v) t =
    mkV3 (wx (lbase L) + (IZR px + (IZR (fst (fst (fst v))) + t * IZR (fst (fst (unit (snd v)))))) * wx (linc L))
         (wy (lbase L) + (IZR py + (IZR (snd (fst (fst v))) + t * IZR (snd (fst (unit (snd v)))))) * wy (linc L))
         (wz (lbase L) + (IZR pz + (IZR (snd (fst v)) + t * IZR (snd (unit (snd v))))) * wz (linc L)).
  Proof.
    cbv zeta. destruct (ledge e) as [[[bx by_] bz] a]. unfold edge_point, far_of, shiftv. cbn [fst snd].
    destruct (unit a) as [[ux uy] uz]. cbn [addp fst snd]. unfold lerp3, lerp, lpoint. cbn [wx wy wz].
    rewrite !plus_IZR. f_equal; ring.
  Qed.

  (* separation: two points of cell edges that coincide have the same doubled cell coordinates *)
  Lemma edge_point_sep p e e' t t' : (e < 12)%N -> (e' < 12)%N ->
    edge_point (shiftv p (ledge e)) t = edge_point (shiftv p (ledge e')) t' ->
    addp (scale3 2 (fst (ledge e))) (scale3 (cls t) (unit (snd (ledge e)))) =
    addp (scale3 2 (fst (ledge e'))) (scale3 (cls t') (unit (snd (ledge e')))).
  Proof.
    intros He He' E. destruct p as [[px py] pz]. rewrite !edge_point_coords in E.
    destruct (shape_ok e He) as (X & Y & Z & _). destruct (shape_ok e' He') as (X' & Y' & Z' & _). cbv zeta in *.
    destruct (ledge e) as [[[bx by_] bz] a]. destruct (ledge e') as [[[bx' by'] bz'] a']. cbn [fst snd] in *.
    destruct (unit a) as [[ux uy] uz]. destruct (unit a') as [[ux' uy'] uz']. cbn [fst snd scale3 addp] in *.
    destruct inc_pos as (Ix & Iy & Iz). injection E as Ex Ey Ez.
    assert (Ex' : IZR bx + t * IZR ux = IZR bx' + t' * IZR ux') by nra.
    assert (Ey' : IZR by_ + t * IZR uy = IZR by' + t' * IZR uy') by nra.
    assert (Ez' : IZR bz + t * IZR uz = IZR bz' + t' * IZR uz') by nra.
    rewrite (cls_coord _ _ t X), (cls_coord _ _ t Y), (cls_coord _ _ t Z).
    rewrite (cls_coord _ _ t' X'), (cls_coord _ _ t' Y'), (cls_coord _ _ t' Z').
    now rewrite Ex', Ey', Ez'.
  Qed.

  (* the snapping mask of a cell and the class of the interpolation parameter *)
  Definition sm_at (p : pt) : N := cfg_at snp p.

  Lemma edge_ends_sgn p e : (e < 12)%N ->
    crossing (cfg_at sgn p) e = xorb (sgn (addp p (fst (ledge e)))) (sgn (addp p (far_of (ledge e)))).
  Proof.
    intros He. pose proof (ledge_ends e He) as Le. unfold crossing. destruct (pair_of e) as [a b].
    destruct Le as (Ha & Hb & Le). rewrite !cfg_at_testbit by assumption. unfold far_of.
    destruct Le as [[-> ->] | [-> ->]]; [reflexivity | apply xorb_comm].
  Qed.

  Lemma einfo_bits p e : (e < 12)%N ->
    let '(lo, hi, _, _) := einfo e in
    N.testbit (sm_at p) lo = snp (addp p (fst (ledge e))) /\ N.testbit (sm_at p) hi = snp (addp p (far_of (ledge e))).
  Proof.
    intros He. unfold einfo. cbv zeta. destruct (shape_ok e He) as (_ & _ & _ & L1 & L2 & E1 & E2). cbv zeta in *.
    unfold sm_at. rewrite !cfg_at_testbit by assumption. now rewrite E1, E2.
  Qed.

  Lemma kind_cls p e : (e < 12)%N -> crossing (cfg_at sgn p) e = true ->
    cls (interp_t (val (addp p (fst (ledge e)))) (val (addp p (far_of (ledge e)))) 0) = kind (sm_at p) e.
  Proof.
    intros He Hx. rewrite edge_ends_sgn in Hx by exact He. apply xor_straddles in Hx.
    pose proof (einfo_bits p e He) as B. unfold kind, kind_i. destruct (einfo e) as [[[lo hi] b2] u]. destruct B as [-> ->]. cbv zeta.
    set (v1 := val (addp p (fst (ledge e)))) in *. set (v2 := val (addp p (far_of (ledge e)))) in *.
    destruct (interp_on_edge (mkV3 0 0 0) (mkV3 0 0 0) v1 v2 Hx) as (_ & _ & _ & Br). cbv zeta in Br. pose proof eps_pos as Ep.
    unfold snp. fold v1 v2.
    destruct Br as [(A & B & ->) | [(A & B & ->) | [(A & B & ->) | (A & B & Et & Z)]]].
    - apply Rltb_true in A. apply Rltb_false in B. rewrite A, B. cbn [andb negb]. apply cls_0.
    - apply Rltb_false in A. apply Rltb_true in B. rewrite A, B. cbn [andb negb]. apply cls_1.
    - apply Rltb_true in A, B. rewrite A, B. cbn [andb negb]. apply cls_mid; lra.
    - assert (N1 : v1 <> 0) by (intros E0; rewrite E0, Rabs_R0 in A; lra).
      assert (N2 : v2 <> 0) by (intros E0; rewrite E0, Rabs_R0 in B; lra).
      apply Rltb_false in A, B. rewrite A, B. cbn [andb negb]. apply cls_mid.
      + intros E0. rewrite E0 in Z. unfold lerp in Z. lra.
      + intros E1. rewrite E1 in Z. unfold lerp in Z. lra.
  Qed.

  Lemma vpos_shift p e : vpos (shiftv p (ledge e)) =
    edge_point (shiftv p (ledge e)) (interp_t (val (addp p (fst (ledge e)))) (val (addp p (far_of (ledge e)))) 0).
  Proof.
    rewrite vpos_edge_point. unfold far_of, shiftv. cbn [fst snd]. now rewrite addp_assoc.
  Qed.

  (* two crossing edges of a cell with different doubled coordinates have different points *)
  Lemma vpos_distinct p e e' : (e < 12)%N -> (e' < 12)%N ->
    crossing (cfg_at sgn p) e = true -> crossing (cfg_at sgn p) e' = true ->
    pt_eqb (dpos (sm_at p) e) (dpos (sm_at p) e') = false ->
    v3_eqbR (vpos (shiftv p (ledge e))) (vpos (shiftv p (ledge e'))) = false.
  Proof.
    intros He He' Hx Hx' Hd. destruct (v3_eqbR _ _) eqn:E; [|reflexivity]. apply v3_eqbR_ok in E.
    rewrite !vpos_shift in E. apply (edge_point_sep p e e' _ _ He He') in E.
    rewrite (kind_cls p e He Hx), (kind_cls p e' He' Hx') in E.
    assert (D : dpos (sm_at p) e = dpos (sm_at p) e').
    { unfold dpos, dpos_i, kind in *. unfold einfo in *. cbv zeta in *. exact E. }
    apply pt_eqb_eq in D. congruence.
  Qed.

  (* a table triangle that stays alive is emitted *)
  Lemma alive_emits p a b c e : In (a, b, c) (local_tris (cfg_at sgn p)) -> uses e (a, b, c) = true -> alive (sm_at p) (a, b, c) = true ->
    exists t, In t (@mc_to_triangles ROps (cell_p cpos p) (cell_v val p) 0) /\ In (vpos (shiftv p (ledge e))) (tri_vertices t).
  Proof.
    intros Ht Hu Ha. rewrite cell_real.
    destruct (local_tris_edges _ a b c (cfg_at_lt sgn p) Ht) as ((La & Xa) & (Lb & Xb) & (Lc & Xc)).
    exists (mapT vpos (shiftT p (ledge a, ledge b, ledge c))). split.
    - apply filter_In. split.
      + apply in_map. unfold cell_mesh, cell_tris. apply in_map. apply (in_map (fun t : N * N * N => let '(a0, b0, c0) := t in (ledge a0, ledge b0, ledge c0))) in Ht. exact Ht.
      + unfold nondegR, degenerate. cbn [shiftT mapT]. unfold alive in Ha. rewrite !andb_true_iff, !negb_true_iff in Ha.
        destruct Ha as [[D1 D2] D3].
        rewrite (vpos_distinct p a b La Lb Xa Xb D1), (vpos_distinct p b c Lb Lc Xb Xc D2), (vpos_distinct p c a Lc La Xc Xa D3).
        reflexivity.
    - cbn [shiftT mapT tri_vertices]. unfold uses in Hu. rewrite !orb_true_iff, !N.eqb_eq in Hu.
      destruct Hu as [[-> | ->] | ->]; cbn; auto.
  Qed.

  (* cell_edge_complete: in ANY cell, a sign-changing edge whose two end values are outside the snapping
     window carries a vertex of a triangle the cell emits, whatever the other six corner values are *)
  Theorem cell_edge_complete p e : (e < 12)%N -> crossing (cfg_at sgn p) e = true ->
    snp (addp p (fst (ledge e))) = false -> snp (addp p (far_of (ledge e))) = false ->
    exists t, In t (@mc_to_triangles ROps (cell_p cpos p) (cell_v val p) 0) /\ In (vpos (shiftv p (ledge e))) (tri_vertices t).
  Proof.
    intros He Hx S1 S2.
    assert (Hn : nosnap_i (sm_at p) (einfo e) = true).
    { pose proof (einfo_bits p e He) as B. unfold nosnap_i. destruct (einfo e) as [[[lo hi] b2] u]. destruct B as [-> ->].
      now rewrite S1, S2. }
    assert (Hsm : (sm_at p < 256)%N) by apply cfg_at_lt.
    destruct (alive_sound _ _ e (cfg_at_lt sgn p) Hsm He Hx Hn) as ([[a b] c] & Ht & Hu & Ha).
    exact (alive_emits p a b c e Ht Hu Ha).
  Qed.

  (* cell_edge_complete_gen: the same for a sign-changing edge that has at most one end inside the window,
     provided no other sign-changing edge of the cell puts its vertex at the same place *)
  Theorem cell_edge_complete_gen p e : (e < 12)%N -> crossing (cfg_at sgn p) e = true ->
    snp (addp p (fst (ledge e))) && snp (addp p (far_of (ledge e))) = false ->
    (forall e', (e' < 12)%N -> crossing (cfg_at sgn p) e' = true -> e' <> e ->
                pt_eqb (dpos (sm_at p) e') (dpos (sm_at p) e) = false) ->
    exists t, In t (@mc_to_triangles ROps (cell_p cpos p) (cell_v val p) 0) /\ In (vpos (shiftv p (ledge e))) (tri_vertices t).
  Proof.
    intros He Hx S Hun.
    assert (Hn : notboth_i (sm_at p) (einfo e) = true).
    { pose proof (einfo_bits p e He) as B. unfold notboth_i. destruct (einfo e) as [[[lo hi] b2] u]. destruct B as [-> ->].
      now rewrite S. }
    assert (Hsm : (sm_at p < 256)%N) by apply cfg_at_lt.
    destruct (alive_sound_gen _ _ e (cfg_at_lt sgn p) Hsm He Hx Hn Hun) as ([[a b] c] & Ht & Hu & Ha).
    exact (alive_emits p a b c e Ht Hu Ha).
  Qed.

  Lemma kind_spec p e : (e < 12)%N ->
    kind (sm_at p) e =
    (if snp (addp p (fst (ledge e))) && negb (snp (addp p (far_of (ledge e)))) then 0
     else if snp (addp p (far_of (ledge e))) && negb (snp (addp p (fst (ledge e)))) then 2 else 1)%Z.
  Proof.
    intros He. pose proof (einfo_bits p e He) as B. unfold kind, kind_i. destruct (einfo e) as [[[lo hi] b2] u].
    destruct B as [-> ->]. reflexivity.
  Qed.

  Lemma step_unit x a : lattice_step x (addp x (unit a)) /\ lattice_step (addp x (unit a)) x.
  Proof.
    destruct x as [[x y] z]. unfold unit, addp, lattice_step.
    destruct (a =? 0)%Z; [|destruct (a =? 1)%Z]; split; lia.
  Qed.
  Lemma addp_inj x a b : addp x a = addp x b -> a = b.
  Proof.
    destruct x as [[x y] z], a as [[a1 a2] a3], b as [[b1 b2] b3]. unfold addp. intros [= E1 E2 E3]. f_equal; [f_equal|]; lia.
  Qed.

  (* the vertex of edge e snaps onto the lattice point z = p + endk e k (k = 0: low end, 2: high end), the
     other end being q.  If every other corner m of the cell adjacent to z has the sign of z or is inside the
     window too, no other sign-changing edge of the cell snaps onto z *)
  Lemma unshared_from_neighbours p e k : (e < 12)%N -> k = 0%Z \/ k = 2%Z -> kind (sm_at p) e = k ->
    (forall c m, m = addp p (corner_off c) -> lattice_step (addp p (endk e k)) m -> m <> addp p (endk e (2 - k)) ->
                 sgn m = sgn (addp p (endk e k)) \/ snp m = true) ->
    forall e', (e' < 12)%N -> crossing (cfg_at sgn p) e' = true -> e' <> e ->
               pt_eqb (dpos (sm_at p) e') (dpos (sm_at p) e) = false.
  Proof.
    intros He Hk Ek Hnb e' He' Hx' Ne. destruct (pt_eqb (dpos (sm_at p) e') (dpos (sm_at p) e)) eqn:E; [|reflexivity]. exfalso.
    apply pt_eqb_eq in E. rewrite !dpos_dposk, Ek in E.
    destruct (corner_share e e' k (kind (sm_at p) e') He He' Hk (kind_cases _ e') (eq_sym E)) as (Hk' & Ee).
    set (k' := kind (sm_at p) e') in *.
    pose proof (kind_spec p e' He') as Ks. fold k' in Ks.
    rewrite (edge_ends_sgn p e' He') in Hx'.
    destruct (shape_ok e' He') as (_ & _ & _ & _ & _ & C1 & C2). cbv zeta in C1, C2.
    destruct (step_unit (addp p (fst (ledge e'))) (snd (ledge e'))) as [St1 St2].
    rewrite addp_assoc in St1, St2. fold (far_of (ledge e')) in St1, St2.
    set (lo := addp p (fst (ledge e'))) in *. set (hi := addp p (far_of (ledge e'))) in *.
    destruct Hk' as [K0 | K2].
    - (* e' snaps onto its low end *)
      rewrite K0 in *. unfold endk at 2 in Ee. cbn [Z.eqb] in Ee.
      destruct (snp lo) eqn:Sl; destruct (snp hi) eqn:Sh; cbn [andb negb] in Ks; try discriminate.
      destruct (Hnb (corner_of (far_of (ledge e'))) hi) as [Hs | Hs].
      + unfold hi. now rewrite C2.
      + rewrite Ee. exact St1.
      + intros X. apply Ne. symmetry. apply (ends_inj e e' k 0%Z He He' Hk (or_introl eq_refl) Ee).
        unfold endk at 2. cbn [Z.eqb Z.sub Z.opp Z.add Pos.eqb]. unfold hi in X. apply addp_inj in X. now rewrite X.
      + rewrite Ee in Hs. fold lo in Hs. rewrite Hs in Hx'. now rewrite xorb_nilpotent in Hx'.
      + congruence.
    - (* e' snaps onto its high end *)
      rewrite K2 in *. unfold endk at 2 in Ee. cbn [Z.eqb Pos.eqb] in Ee.
      destruct (snp lo) eqn:Sl; destruct (snp hi) eqn:Sh; cbn [andb negb] in Ks; try discriminate.
      destruct (Hnb (corner_of (fst (ledge e'))) lo) as [Hs | Hs].
      + unfold lo. now rewrite C1.
      + rewrite Ee. exact St2.
      + intros X. apply Ne. symmetry. apply (ends_inj e e' k 2%Z He He' Hk (or_intror eq_refl) Ee).
        unfold endk at 2. cbn [Z.eqb Z.sub Z.opp Z.add Pos.eqb Z.pos_sub]. unfold lo in X. apply addp_inj in X. now rewrite X.
      + rewrite Ee in Hs. fold hi in Hs. rewrite <- Hs in Hx'. now rewrite xorb_nilpotent in Hx'.
      + congruence.
  Qed.
End CellsR.

(* ================================================================== 2b. whole lattices *)
Lemma straddles_xor v1 v2 : straddles v1 v2 0 -> xorb (Rltb v1 0) (Rltb v2 0) = true.
Proof.
  intros [[A B] | [A B]].
  - apply Rltb_true in A. apply Rltb_false in B. now rewrite A, B.
  - apply Rltb_true in A. apply Rltb_false in B. now rewrite A, B.
Qed.
Lemma straddles_sym v1 v2 : straddles v1 v2 0 -> straddles v2 v1 0.
Proof. unfold straddles. tauto. Qed.
Lemma straddles_neq v1 v2 : straddles v1 v2 0 -> v1 <> v2.
Proof. unfold straddles. lra. Qed.

Lemma pt_ext (x y z x' y' z' : Z) : x = x' -> y = y' -> z = z' -> (x, y, z) = (x', y', z').
Proof. congruence. Qed.
Lemma lattice_step_cases q q' : lattice_step q q' ->
  exists a, In a [0; 1; 2]%Z /\ (q' = addp q (unit a) \/ q = addp q' (unit a)).
Proof.
  destruct q as [[x y] z], q' as [[x' y'] z']. unfold lattice_step. intros H.
  assert (Hx : (x' = x \/ x' = x + 1 \/ x' = x - 1)%Z) by lia.
  assert (Hy : (y' = y \/ y' = y + 1 \/ y' = y - 1)%Z) by lia.
  assert (Hz : (z' = z \/ z' = z + 1 \/ z' = z - 1)%Z) by lia.
  destruct Hx as [-> | [-> | ->]], Hy as [-> | [-> | ->]], Hz as [-> | [-> | ->]]; try (exfalso; lia);
    first [ exists 0%Z; split; [cbn; auto|]; left; unfold addp, unit; cbn [Z.eqb Pos.eqb]; apply pt_ext; lia
          | exists 0%Z; split; [cbn; auto|]; right; unfold addp, unit; cbn [Z.eqb Pos.eqb]; apply pt_ext; lia
          | exists 1%Z; split; [cbn; auto|]; left; unfold addp, unit; cbn [Z.eqb Pos.eqb]; apply pt_ext; lia
          | exists 1%Z; split; [cbn; auto|]; right; unfold addp, unit; cbn [Z.eqb Pos.eqb]; apply pt_ext; lia
          | exists 2%Z; split; [cbn; auto|]; left; unfold addp, unit; cbn [Z.eqb Pos.eqb]; apply pt_ext; lia
          | exists 2%Z; split; [cbn; auto|]; right; unfold addp, unit; cbn [Z.eqb Pos.eqb]; apply pt_ext; lia ].
Qed.

Section LatticeR.
  Variable L : lattice3 ROps.
  Variable f : RV3 -> R.
  Hypothesis inc_pos : 0 < wx (linc L) /\ 0 < wy (linc L) /\ 0 < wz (linc L).

  Notation cpos := (lpoint L).
  Notation val := (lval L f).
  Notation sgn := (sgnR val 0).
  Notation vpos := (vposR cpos val 0).
  Notation nx := (lnx L).
  Notation ny := (lny L).
  Notation nz := (lnz L).

  Lemma edge_in_cell p b a : In a [0; 1; 2]%Z -> In b (cell_bases a) -> In p (cells nx ny nz) ->
    snp L f (addp p b) = false -> snp L f (addp (addp p b) (unit a)) = false ->
    xorb (sgn (addp p b)) (sgn (addp (addp p b) (unit a))) = true ->
    exists t, In t (@marching_cubes ROps L f) /\ In (vpos (addp p b, a)) (tri_vertices t).
  Proof.
    intros Ha Hb Hp S1 S2 Hx. destruct (edge_ix_ok a b Ha Hb) as [He El]. set (e := edge_ix b a) in *.
    assert (F1 : fst (ledge e) = b) by now rewrite El. assert (F2 : far_of (ledge e) = addp b (unit a)) by (unfold far_of; now rewrite El).
    destruct (cell_edge_complete L f inc_pos p e He) as (t & Ht & Hv).
    - rewrite (edge_ends_sgn L f p e He), F1, F2, <- addp_assoc. exact Hx.
    - now rewrite F1.
    - now rewrite F2, <- addp_assoc.
    - exists t. split.
      + rewrite marching_cubes_is_meshR. unfold meshR. apply in_flat_map. exists p. split; [exact Hp | exact Ht].
      + unfold shiftv in Hv. rewrite El in Hv. cbn [fst snd] in Hv. exact Hv.
  Qed.

  Lemma min_pred_cases y n : (0 <= y <= Z.of_nat n)%Z -> (0 < n)%nat ->
    (0 <= Z.min y (Z.of_nat n - 1) < Z.of_nat n)%Z /\ (y - Z.min y (Z.of_nat n - 1) = 0 \/ y - Z.min y (Z.of_nat n - 1) = 1)%Z.
  Proof. intros H1 H2. destruct (Z.min_spec y (Z.of_nat n - 1)) as [[A ->] | [A ->]]; lia. Qed.

  (* every lattice edge (base point q, axis a) of the sampled lattice is an edge of some cell of the walk *)
  Lemma edge_cell_exists q a : In a [0; 1; 2]%Z -> (0 < nx)%nat -> (0 < ny)%nat -> (0 < nz)%nat ->
    in_lattice nx ny nz q -> in_lattice nx ny nz (addp q (unit a)) ->
    exists p b, In b (cell_bases a) /\ In p (cells nx ny nz) /\ addp p b = q.
  Proof.
    intros Ha Nx Ny Nz Hq Hq'. destruct q as [[x y] z]. cbn [in_lattice] in Hq. destruct Hq as (Qx & Qy & Qz).
    destruct (min_pred_cases x nx Qx Nx) as (Px & Bx). destruct (min_pred_cases y ny Qy Ny) as (Py & By).
    destruct (min_pred_cases z nz Qz Nz) as (Pz & Bz).
    cbn [In] in Ha. destruct Ha as [<- | [<- | [<- | []]]]; unfold unit, addp in Hq'; cbn [Z.eqb Pos.eqb in_lattice] in Hq'.
    - exists (x, Z.min y (Z.of_nat ny - 1), Z.min z (Z.of_nat nz - 1))%Z, (0, y - Z.min y (Z.of_nat ny - 1), z - Z.min z (Z.of_nat nz - 1))%Z.
      split; [destruct By as [-> | ->], Bz as [-> | ->]; cbn; auto|]. split; [apply in_cells; lia|].
      unfold addp; f_equal; [f_equal|]; lia.
    - exists (Z.min x (Z.of_nat nx - 1), y, Z.min z (Z.of_nat nz - 1))%Z, (x - Z.min x (Z.of_nat nx - 1), 0, z - Z.min z (Z.of_nat nz - 1))%Z.
      split; [destruct Bx as [-> | ->], Bz as [-> | ->]; cbn; auto|]. split; [apply in_cells; lia|].
      unfold addp; f_equal; [f_equal|]; lia.
    - exists (Z.min x (Z.of_nat nx - 1), Z.min y (Z.of_nat ny - 1), z)%Z, (x - Z.min x (Z.of_nat nx - 1), y - Z.min y (Z.of_nat ny - 1), 0)%Z.
      split; [destruct Bx as [-> | ->], By as [-> | ->]; cbn; auto|]. split; [apply in_cells; lia|].
      unfold addp; f_equal; [f_equal|]; lia.
  Qed.

  (* every lattice edge (base point q, axis a) of the sampled lattice whose end values are outside the
     snapping window and of different sign carries a vertex of an emitted triangle *)
  Theorem lattice_edge_complete_axis q a : In a [0; 1; 2]%Z -> (0 < nx)%nat -> (0 < ny)%nat -> (0 < nz)%nat ->
    in_lattice nx ny nz q -> in_lattice nx ny nz (addp q (unit a)) ->
    snp L f q = false -> snp L f (addp q (unit a)) = false -> xorb (sgn q) (sgn (addp q (unit a))) = true ->
    exists t, In t (@marching_cubes ROps L f) /\ In (vpos (q, a)) (tri_vertices t).
  Proof.
    intros Ha Nx Ny Nz Hq Hq' S1 S2 Hx. destruct (edge_cell_exists q a Ha Nx Ny Nz Hq Hq') as (p & b & Hb & Hp & <-).
    now apply edge_in_cell.
  Qed.

  (* the same before the removal of degenerate triangles, without any condition on the values: a
     sign-changing lattice edge is a vertex of a triangle of the abstract mesh *)
  Lemma edge_in_cell_unfiltered p b a : In a [0; 1; 2]%Z -> In b (cell_bases a) -> In p (cells nx ny nz) ->
    xorb (sgn (addp p b)) (sgn (addp (addp p b) (unit a))) = true ->
    exists u, In u (mesh nx ny nz sgn) /\ In (vpos (addp p b, a)) (tri_vertices (mapT vpos u)).
  Proof.
    intros Ha Hb Hp Hx. destruct (edge_ix_ok a b Ha Hb) as [He El]. set (e := edge_ix b a) in *.
    assert (F1 : fst (ledge e) = b) by now rewrite El. assert (F2 : far_of (ledge e) = addp b (unit a)) by (unfold far_of; now rewrite El).
    assert (Hc : crossing (cfg_at sgn p) e = true) by (rewrite (edge_ends_sgn L f p e He), F1, F2, <- addp_assoc; exact Hx).
    pose proof (crossing_edges_used _ e (cfg_at_lt sgn p) He Hc) as Hin.
    destruct (in_chunk3_inv _ e (tri_rows_whole _ (cfg_at_lt sgn p)) Hin) as ([[i j] k] & Ht & Hu). fold (local_tris (cfg_at sgn p)) in Ht.
    exists (shiftT p (ledge i, ledge j, ledge k)). split.
    - unfold mesh. apply in_flat_map. exists p. split; [exact Hp|]. unfold cell_mesh, cell_tris. apply in_map.
      apply (in_map (fun t : N * N * N => let '(a0, b0, c0) := t in (ledge a0, ledge b0, ledge c0))) in Ht. exact Ht.
    - assert (Ev : (addp p b, a) = shiftv p (ledge e)) by (unfold shiftv; rewrite El; reflexivity). rewrite Ev.
      cbn [shiftT mapT tri_vertices]. unfold uses in Hu. rewrite !orb_true_iff, !N.eqb_eq in Hu.
      destruct Hu as [[-> | ->] | ->]; cbn; auto.
  Qed.

  (* the crossing point on an edge both of whose end values are outside the window *)
  Lemma nosnap_crossing p1 p2 v1 v2 : straddles v1 v2 0 -> @eps ROps <= Rabs v1 -> @eps ROps <= Rabs v2 ->
    let t := - v1 / (v2 - v1) in
    @mc_interpolate ROps p1 p2 v1 v2 0 = lerp3 p1 p2 t /\ 0 < t < 1 /\ lerp v1 v2 t = 0.
  Proof.
    intros S A B. cbv zeta. pose proof eps_pos as Ep.
    destruct (interp_on_edge p1 p2 v1 v2 S) as (T & _ & E & Br). cbv zeta in *.
    destruct Br as [(C & _) | [(_ & C & _) | [(C & _) | (_ & _ & Et & Z)]]]; try lra.
    rewrite Et in *. split; [exact E|]. split; [|exact Z].
    assert (N1 : v1 <> 0) by (intros E0; rewrite E0, Rabs_R0 in A; lra).
    assert (N2 : v2 <> 0) by (intros E0; rewrite E0, Rabs_R0 in B; lra).
    unfold lerp in Z. split.
    - destruct (Req_dec (- v1 / (v2 - v1)) 0) as [E0 | N0]; [rewrite E0 in Z; lra | lra].
    - destruct (Req_dec (- v1 / (v2 - v1)) 1) as [E1 | N1']; [rewrite E1 in Z; lra | lra].
  Qed.

  (* lattice_edge_complete: two lattice points of the sampled lattice one step apart whose field values
     have different sign and are both outside the snapping window: the linear zero crossing between them
     is a vertex of an emitted triangle, whatever the values at all other lattice points are *)
  Theorem lattice_edge_complete q q' : (0 < nx)%nat -> (0 < ny)%nat -> (0 < nz)%nat ->
    in_lattice nx ny nz q -> in_lattice nx ny nz q' -> lattice_step q q' ->
    straddles (val q) (val q') 0 -> @eps ROps <= Rabs (val q) -> @eps ROps <= Rabs (val q') ->
    let t0 := - val q / (val q' - val q) in
    let w := lerp3 (cpos q) (cpos q') t0 in
    0 < t0 < 1 /\ lerp (val q) (val q') t0 = 0 /\ crossing_of f (cpos q) (cpos q') w /\
    exists t, In t (@marching_cubes ROps L f) /\ In w (tri_vertices t).
  Proof.
    intros Nx Ny Nz Hq Hq' St S A B. cbv zeta.
    destruct (nosnap_crossing (cpos q) (cpos q') _ _ S A B) as (E & T & Z). cbv zeta in *.
    split; [exact T|]. split; [exact Z|]. split; [split; [exact S | now rewrite <- E]|]. rewrite <- E.
    assert (S1 : snp L f q = false) by (apply Rltb_false; exact A).
    assert (S2 : snp L f q' = false) by (apply Rltb_false; exact B).
    destruct (lattice_step_cases q q' St) as (a & Ha & [-> | ->]).
    - destruct (lattice_edge_complete_axis q a Ha Nx Ny Nz Hq Hq' S1 S2 (straddles_xor _ _ S)) as (t & Ht & Hv).
      exists t. split; [exact Ht | exact Hv].
    - destruct (lattice_edge_complete_axis q' a Ha Nx Ny Nz Hq' Hq S2 S1 (straddles_xor _ _ (straddles_sym _ _ S))) as (t & Ht & Hv).
      exists t. split; [exact Ht|]. unfold vposR in Hv. cbv zeta in Hv. cbn [fst snd] in Hv.
      rewrite (mc_interp_symmetric (cpos (addp q' (unit a))) (cpos q') _ _ 0 (straddles_neq _ _ S)) in Hv. exact Hv.
  Qed.

  Theorem lattice_edge_unfiltered q q' : (0 < nx)%nat -> (0 < ny)%nat -> (0 < nz)%nat ->
    in_lattice nx ny nz q -> in_lattice nx ny nz q' -> lattice_step q q' -> straddles (val q) (val q') 0 ->
    exists u, In u (mesh nx ny nz sgn) /\ In (@mc_interpolate ROps (cpos q) (cpos q') (val q) (val q') 0) (tri_vertices (mapT vpos u)).
  Proof.
    intros Nx Ny Nz Hq Hq' St S.
    destruct (lattice_step_cases q q' St) as (a & Ha & [-> | ->]).
    - destruct (edge_cell_exists q a Ha Nx Ny Nz Hq Hq') as (p & b & Hb & Hp & <-).
      exact (edge_in_cell_unfiltered p b a Ha Hb Hp (straddles_xor _ _ S)).
    - destruct (edge_cell_exists q' a Ha Nx Ny Nz Hq' Hq) as (p & b & Hb & Hp & <-).
      destruct (edge_in_cell_unfiltered p b a Ha Hb Hp (straddles_xor _ _ (straddles_sym _ _ S))) as (u & Hu & Hv).
      exists u. split; [exact Hu|].
      rewrite <- (mc_interp_symmetric (cpos (addp (addp p b) (unit a))) (cpos (addp p b)) _ _ 0 (straddles_neq _ _ S)). exact Hv.
  Qed.

  (* an end value inside the window against one outside: the vertex is the lattice point of the former *)
  Lemma snap_point p1 p2 v1 v2 : straddles v1 v2 0 -> @eps ROps <= Rabs v1 -> Rabs v2 < @eps ROps ->
    @mc_interpolate ROps p1 p2 v1 v2 0 = p2 /\ @mc_interpolate ROps p2 p1 v2 v1 0 = p2.
  Proof.
    intros S A B. split.
    - destruct (interp_on_edge p1 p2 v1 v2 S) as (_ & _ & E & Br). cbv zeta in *.
      destruct Br as [(C & _) | [(_ & _ & Et) | [(C & _) | (_ & C & _)]]]; try lra. rewrite E, Et. apply lerp3_1.
    - destruct (interp_on_edge p2 p1 v2 v1 (straddles_sym _ _ S)) as (_ & _ & E & Br). cbv zeta in *.
      destruct Br as [(_ & _ & Et) | [(_ & C & _) | [(_ & C & _) | (C & _)]]]; try lra. rewrite E, Et. apply lerp3_0.
  Qed.

  Lemma edge_in_cell_gen p b a k : In a [0; 1; 2]%Z -> In b (cell_bases a) -> In p (cells nx ny nz) -> k = 0%Z \/ k = 2%Z ->
    let lo := addp p b in let hi := addp (addp p b) (unit a) in
    let z := if (k =? 0)%Z then lo else hi in let q := if (k =? 0)%Z then hi else lo in
    snp L f z = true -> snp L f q = false -> xorb (sgn lo) (sgn hi) = true ->
    (forall m, in_lattice nx ny nz m -> lattice_step z m -> m <> q -> sgn m = sgn z \/ snp L f m = true) ->
    exists t, In t (@marching_cubes ROps L f) /\ In (vpos (addp p b, a)) (tri_vertices t).
  Proof.
    intros Ha Hb Hp Hk lo hi z q Sz Sq Hx Hnb. destruct (edge_ix_ok a b Ha Hb) as [He El]. set (e := edge_ix b a) in *.
    assert (F1 : fst (ledge e) = b) by now rewrite El. assert (F2 : far_of (ledge e) = addp b (unit a)) by (unfold far_of; now rewrite El).
    assert (Elo : addp p (fst (ledge e)) = lo) by now rewrite F1.
    assert (Ehi : addp p (far_of (ledge e)) = hi) by (rewrite F2; unfold hi; now rewrite addp_assoc).
    assert (Ek : kind (sm_at L f p) e = k).
    { rewrite (kind_spec L f inc_pos p e He), Elo, Ehi. destruct Hk as [-> | ->]; cbn [Z.eqb Pos.eqb] in *; subst z q; now rewrite Sz, Sq. }
    assert (Ez : addp p (endk e k) = z) by (unfold endk, z; destruct Hk as [-> | ->]; cbn [Z.eqb Pos.eqb]; assumption).
    assert (Eq : addp p (endk e (2 - k)) = q) by (unfold endk, q; destruct Hk as [-> | ->]; cbn [Z.eqb Pos.eqb Z.sub Z.add Z.opp Z.pos_sub]; assumption).
    destruct (cell_edge_complete_gen L f inc_pos p e He) as (t & Ht & Hv).
    - now rewrite (edge_ends_sgn L f p e He), Elo, Ehi.
    - rewrite Elo, Ehi. destruct Hk as [-> | ->]; cbn [Z.eqb Pos.eqb] in *; subst z q; rewrite Sz, Sq; reflexivity.
    - apply (unshared_from_neighbours L f inc_pos p e k He Hk Ek). rewrite Ez, Eq. intros c m -> St Nq.
      apply Hnb; [now apply corner_in_lattice | exact St | exact Nq].
    - exists t. split.
      + rewrite marching_cubes_is_meshR. unfold meshR. apply in_flat_map. exists p. split; [exact Hp | exact Ht].
      + unfold shiftv in Hv. rewrite El in Hv. cbn [fst snd] in Hv. exact Hv.
  Qed.

  (* lattice_edge_complete_snap: lattice edge q - z, value at q outside the window, value at z inside, signs
     different; if q is the only lattice neighbour of z (in the sampled lattice) that is outside the window
     with a sign different from z's, the lattice point z itself is a vertex of an emitted triangle *)
  Theorem lattice_edge_complete_snap q z : (0 < nx)%nat -> (0 < ny)%nat -> (0 < nz)%nat ->
    in_lattice nx ny nz q -> in_lattice nx ny nz z -> lattice_step q z ->
    straddles (val q) (val z) 0 -> @eps ROps <= Rabs (val q) -> Rabs (val z) < @eps ROps ->
    (forall m, in_lattice nx ny nz m -> lattice_step z m -> m <> q -> sgn m = sgn z \/ Rabs (val m) < @eps ROps) ->
    crossing_of f (cpos q) (cpos z) (cpos z) /\ exists t, In t (@marching_cubes ROps L f) /\ In (cpos z) (tri_vertices t).
  Proof.
    intros Nx Ny Nz Hq Hz St S A B Hnb. destruct (snap_point (cpos q) (cpos z) _ _ S A B) as [P1 P2].
    split; [split; [exact S | symmetry; exact P1]|].
    assert (Sq : snp L f q = false) by (apply Rltb_false; exact A).
    assert (Sz : snp L f z = true) by (apply Rltb_true; exact B).
    assert (Hnb' : forall m, in_lattice nx ny nz m -> lattice_step z m -> m <> q -> sgn m = sgn z \/ snp L f m = true).
    { intros m Hm Sm Nm. destruct (Hnb m Hm Sm Nm) as [E | E]; [now left | right; now apply Rltb_true]. }
    destruct (lattice_step_cases q z St) as (a & Ha & [-> | ->]).
    - destruct (edge_cell_exists q a Ha Nx Ny Nz Hq Hz) as (p & b & Hb & Hp & <-).
      destruct (edge_in_cell_gen p b a 2%Z Ha Hb Hp (or_intror eq_refl)) as (t & Ht & Hv); cbn [Z.eqb Pos.eqb]; try assumption.
      + exact (straddles_xor _ _ S).
      + exists t. split; [exact Ht|]. unfold vposR in Hv. cbv zeta in Hv. cbn [fst snd] in Hv. now rewrite P1 in Hv.
    - destruct (edge_cell_exists z a Ha Nx Ny Nz Hz Hq) as (p & b & Hb & Hp & <-).
      destruct (edge_in_cell_gen p b a 0%Z Ha Hb Hp (or_introl eq_refl)) as (t & Ht & Hv); cbn [Z.eqb Pos.eqb]; try assumption.
      + exact (straddles_xor _ _ (straddles_sym _ _ S)).
      + exists t. split; [exact Ht|]. unfold vposR in Hv. cbv zeta in Hv. cbn [fst snd] in Hv. now rewrite P2 in Hv.
  Qed.

  (* contrapositive for a single cell: a cell that emits nothing has no sign-changing edge with both end
     values outside the snapping window (every sign change of it has an end with |f| < epsilon) *)
  Theorem mixed_cell_empty_only_if p : @mc_to_triangles ROps (cell_p cpos p) (cell_v val p) 0 = [] ->
    forall e, (e < 12)%N -> crossing (cfg_at sgn p) e = true ->
      snp L f (addp p (fst (ledge e))) = true \/ snp L f (addp p (far_of (ledge e))) = true.
  Proof.
    intros Hem e He Hx. destruct (snp L f (addp p (fst (ledge e)))) eqn:S1; [now left|].
    destruct (snp L f (addp p (far_of (ledge e)))) eqn:S2; [now right|].
    destruct (cell_edge_complete L f inc_pos p e He Hx S1 S2) as (t & Ht & _). rewrite Hem in Ht. destruct Ht.
  Qed.
End LatticeR.


(* ================================================================== 3. geometry *)

(* ---- sign change along a monotone lattice path *)
Lemma line_change (g : Z -> bool) (i sg : Z) (n : nat) : g i = true -> g (i + sg * Z.of_nat n)%Z = false ->
  exists m : nat, (m < n)%nat /\ g (i + sg * Z.of_nat m)%Z = true /\ g (i + sg * (Z.of_nat m + 1))%Z = false.
Proof.
  induction n as [|n IH]; intros H0 Hn.
  - replace (i + sg * Z.of_nat 0)%Z with i in Hn by (cbn; lia). congruence.
  - destruct (g (i + sg * Z.of_nat n)%Z) eqn:E.
    + exists n. split; [lia|]. split; [exact E|]. replace (Z.of_nat n + 1)%Z with (Z.of_nat (S n)) by lia. exact Hn.
    + destruct (IH H0 eq_refl) as (m & Hm & A & B). exists m. split; [lia | now split].
Qed.

Definition btw (a b x : Z) : Prop := (a <= x <= b \/ b <= x <= a)%Z.
Lemma btw_change (g : Z -> bool) i j : g i = true -> g j = false ->
  exists k k', btw i j k /\ btw i j k' /\ (Z.abs (k - k') = 1)%Z /\ g k = true /\ g k' = false.
Proof.
  intros Hi Hj. destruct (Z_le_gt_dec i j) as [Le | Gt].
  - destruct (line_change g i 1 (Z.to_nat (j - i)) Hi) as (m & Hm & A & B).
    + replace (i + 1 * Z.of_nat (Z.to_nat (j - i)))%Z with j by lia. exact Hj.
    + exists (i + 1 * Z.of_nat m)%Z, (i + 1 * (Z.of_nat m + 1))%Z. unfold btw. repeat split; try assumption; lia.
  - destruct (line_change g i (-1) (Z.to_nat (i - j)) Hi) as (m & Hm & A & B).
    + replace (i + -1 * Z.of_nat (Z.to_nat (i - j)))%Z with j by lia. exact Hj.
    + exists (i + -1 * Z.of_nat m)%Z, (i + -1 * (Z.of_nat m + 1))%Z. unfold btw. repeat split; try assumption; lia.
Qed.

Definition in_span (a b x : pt) : Prop :=
  let '(a1, a2, a3) := a in let '(b1, b2, b3) := b in let '(x1, x2, x3) := x in btw a1 b1 x1 /\ btw a2 b2 x2 /\ btw a3 b3 x3.
Lemma btw_l a b : btw a b a.
Proof. unfold btw. lia. Qed.
Lemma btw_r a b : btw a b b.
Proof. unfold btw. lia. Qed.

(* a lattice function that is true at a and false at b changes along some lattice edge of the box they span *)
Lemma span_change (g : pt -> bool) a b : g a = true -> g b = false ->
  exists q q', in_span a b q /\ in_span a b q' /\ lattice_step q q' /\ g q = true /\ g q' = false.
Proof.
  destruct a as [[a1 a2] a3], b as [[b1 b2] b3]. intros Ha Hb.
  destruct (g (b1, a2, a3)) eqn:E1.
  - destruct (g (b1, b2, a3)) eqn:E2.
    + destruct (btw_change (fun z => g (b1, b2, z)) a3 b3 E2 Hb) as (k & k' & B & B' & D & G & G').
      exists (b1, b2, k), (b1, b2, k'). cbn [in_span lattice_step]. pose proof (btw_r a1 b1). pose proof (btw_r a2 b2).
      repeat split; try assumption. lia.
    + destruct (btw_change (fun y => g (b1, y, a3)) a2 b2 E1 E2) as (k & k' & B & B' & D & G & G').
      exists (b1, k, a3), (b1, k', a3). cbn [in_span lattice_step]. pose proof (btw_r a1 b1). pose proof (btw_l a3 b3).
      repeat split; try assumption. lia.
  - destruct (btw_change (fun x => g (x, a2, a3)) a1 b1 Ha E1) as (k & k' & B & B' & D & G & G').
    exists (k, a2, a3), (k', a2, a3). cbn [in_span lattice_step]. pose proof (btw_l a2 b2). pose proof (btw_l a3 b3).
    repeat split; try assumption. lia.
Qed.

(* ---- vectors *)
Definition offs (s n : RV3) (t : R) : RV3 := mkV3 (wx s + t * wx n) (wy s + t * wy n) (wz s + t * wz n).

Lemma len3_lt t p : 0 < t -> wx p * wx p + wy p * wy p + wz p * wz p < t * t -> len3 p < t.
Proof.
  intros Ht H. destruct (Rlt_le_dec (len3 p) t) as [L | G]; [exact L|]. exfalso.
  pose proof (len3_sq p) as S. assert (t * t <= len3 p * len3 p) by (apply Rmult_le_compat; lra). lra.
Qed.
Lemma len3_sq_le t p : len3 p <= t -> wx p * wx p + wy p * wy p + wz p * wz p <= t * t.
Proof. intros H. rewrite <- len3_sq. pose proof (len3_nonneg p). nra. Qed.

Lemma sumsq_zero a b c : a * a + b * b + c * c <= 0 -> a = 0 /\ b = 0 /\ c = 0.
Proof.
  intros H. pose proof (Rle_0_sqr a) as A. pose proof (Rle_0_sqr b) as B. pose proof (Rle_0_sqr c) as C. unfold Rsqr in *.
  assert (Z : forall x, x * x <= 0 -> x = 0).
  { intros x Hx. destruct (Req_dec x 0) as [E | N]; [exact E|]. pose proof (Rsqr_pos_lt x N) as P. unfold Rsqr in P. lra. }
  repeat split; apply Z; lra.
Qed.

(* a closed ball of radius rho tangent from inside at s to an open ball of radius r > rho lies in the open
   ball, except for the point s itself *)
Lemma ball_in_ball (s m y : RV3) rho r : len3 m = 1 -> 0 < rho < r ->
  dist3 y (offs s m rho) <= rho -> y <> s -> dist3 y (offs s m r) < r.
Proof.
  intros Hm Hr Hd Hy. pose proof (len3_sq m) as M. rewrite Hm in M.
  apply len3_sq_le in Hd. unfold NormR.sub3, offs in Hd. cbn [wx wy wz] in Hd.
  assert (A : 0 < (wx y - wx s) * (wx y - wx s) + (wy y - wy s) * (wy y - wy s) + (wz y - wz s) * (wz y - wz s)).
  { destruct (Rlt_le_dec 0 ((wx y - wx s) * (wx y - wx s) + (wy y - wy s) * (wy y - wy s) + (wz y - wz s) * (wz y - wz s))) as [P | Q]; [exact P|].
    exfalso. apply Hy. destruct y as [y1 y2 y3], s as [s1 s2 s3]. cbn [wx wy wz] in *.
    destruct (sumsq_zero _ _ _ Q) as (Z1 & Z2 & Z3). f_equal; lra. }
  unfold dist3. apply len3_lt; [lra|]. unfold NormR.sub3, offs. cbn [wx wy wz].
  set (ax := wx y - wx s) in *. set (ay := wy y - wy s) in *. set (az := wz y - wz s) in *.
  set (D := ax * wx m + ay * wy m + az * wz m).
  assert (E1 : (wx y - (wx s + rho * wx m)) * (wx y - (wx s + rho * wx m)) + (wy y - (wy s + rho * wy m)) * (wy y - (wy s + rho * wy m)) +
               (wz y - (wz s + rho * wz m)) * (wz y - (wz s + rho * wz m)) =
               (ax * ax + ay * ay + az * az) - 2 * rho * D + rho * rho * (wx m * wx m + wy m * wy m + wz m * wz m)) by (unfold D, ax, ay, az; ring).
  assert (E2 : (wx y - (wx s + r * wx m)) * (wx y - (wx s + r * wx m)) + (wy y - (wy s + r * wy m)) * (wy y - (wy s + r * wy m)) +
               (wz y - (wz s + r * wz m)) * (wz y - (wz s + r * wz m)) =
               (ax * ax + ay * ay + az * az) - 2 * r * D + r * r * (wx m * wx m + wy m * wy m + wz m * wz m)) by (unfold D, ax, ay, az; ring).
  rewrite E1 in Hd. rewrite E2. rewrite <- M in *. 
  assert (HD : ax * ax + ay * ay + az * az <= 2 * rho * D) by lra.
  assert (Dp : 0 < D) by nra.
  assert (2 * rho * D < 2 * r * D) by nra. lra.
Qed.

Lemma abs_sq x : Rabs x * Rabs x = x * x.
Proof. rewrite <- Rabs_mult. apply Rabs_pos_eq. nra. Qed.

(* coordinatewise bounds give a bound on the length *)
Lemma len3_le_coords p a b c : Rabs (wx p) <= a -> Rabs (wy p) <= b -> Rabs (wz p) <= c -> len3 p <= len3 (mkV3 a b c).
Proof.
  intros Ha Hb Hc. apply len3_le; [apply len3_nonneg|]. rewrite len3_sq. cbn [wx wy wz].
  pose proof (Rabs_pos (wx p)). pose proof (Rabs_pos (wy p)). pose proof (Rabs_pos (wz p)).
  rewrite <- (abs_sq (wx p)), <- (abs_sq (wy p)), <- (abs_sq (wz p)). nra.
Qed.

Lemma len3_abs n : len3 (mkV3 (Rabs (wx n)) (Rabs (wy n)) (Rabs (wz n))) = len3 n.
Proof. unfold len3. cbn [wx wy wz]. now rewrite !abs_sq. Qed.

(* |x_i| <= rho |n_i| + h_i / 2 for all i, |n| = 1  ==>  |x| <= rho + |h| / 2 *)
Lemma len3_sum_bound (x n h : RV3) rho : 0 <= rho -> len3 n = 1 ->
  Rabs (wx x) <= rho * Rabs (wx n) + wx h / 2 -> Rabs (wy x) <= rho * Rabs (wy n) + wy h / 2 ->
  Rabs (wz x) <= rho * Rabs (wz n) + wz h / 2 -> len3 x <= rho + len3 h / 2.
Proof.
  intros Hr Hn Hx Hy Hz.
  eapply Rle_trans; [apply (len3_le_coords x _ _ _ Hx Hy Hz)|].
  set (u := mkV3 (rho * Rabs (wx n)) (rho * Rabs (wy n)) (rho * Rabs (wz n))).
  set (v := mkV3 (/ 2 * wx h) (/ 2 * wy h) (/ 2 * wz h)).
  replace (mkV3 (rho * Rabs (wx n) + wx h / 2) (rho * Rabs (wy n) + wy h / 2) (rho * Rabs (wz n) + wz h / 2))
    with (mkV3 (wx u + wx v) (wy u + wy v) (wz u + wz v)) by (unfold u, v; cbn [wx wy wz]; f_equal; field).
  eapply Rle_trans; [apply triangle3|].
  assert (Eu : len3 u = rho).
  { set (w := mkV3 (Rabs (wx n)) (Rabs (wy n)) (Rabs (wz n))).
    change u with (mkV3 (rho * wx w) (rho * wy w) (rho * wz w)). rewrite len3_scale. unfold w. rewrite len3_abs, Hn, Rabs_pos_eq by exact Hr. ring. }
  assert (Ev : len3 v = len3 h / 2).
  { unfold v. rewrite (len3_scale (/ 2) h), Rabs_pos_eq by lra. field. }
  rewrite Eu, Ev. lra.
Qed.

(* the ball is convex *)
Lemma dist_lerp3_le p q s t d : 0 <= t <= 1 -> dist3 p s <= d -> dist3 q s <= d -> dist3 (lerp3 p q t) s <= d.
Proof.
  intros Ht Hp Hq. unfold dist3 in *.
  set (u := NormR.sub3 p s) in *. set (v := NormR.sub3 q s) in *.
  replace (NormR.sub3 (lerp3 p q t) s) with
    (mkV3 (wx (mkV3 ((1 - t) * wx u) ((1 - t) * wy u) ((1 - t) * wz u)) + wx (mkV3 (t * wx v) (t * wy v) (t * wz v)))
          (wy (mkV3 ((1 - t) * wx u) ((1 - t) * wy u) ((1 - t) * wz u)) + wy (mkV3 (t * wx v) (t * wy v) (t * wz v)))
          (wz (mkV3 ((1 - t) * wx u) ((1 - t) * wy u) ((1 - t) * wz u)) + wz (mkV3 (t * wx v) (t * wy v) (t * wz v))))
    by (unfold u, v, NormR.sub3, lerp3, lerp; cbn [wx wy wz]; f_equal; ring).
  eapply Rle_trans; [apply triangle3|]. rewrite !len3_scale, !Rabs_pos_eq by lra. nra.
Qed.

(* nearest lattice coordinate *)
Lemma nearest_1d base h c : 0 < h -> exists k : Z, Rabs (base + IZR k * h - c) <= h / 2.
Proof.
  intros Hh. set (w := (c - base) / h). assert (Ew : w * h = c - base) by (unfold w; field; lra).
  exists (Int_part (w + 1 / 2)). destruct (base_Int_part (w + 1 / 2)) as [B1 B2].
  apply Rabs_le. split; nra.
Qed.

Lemma btw_abs (a b x : Z) base h s0 B : 0 < h -> btw a b x ->
  Rabs (base + IZR a * h - s0) <= B -> Rabs (base + IZR b * h - s0) <= B -> Rabs (base + IZR x * h - s0) <= B.
Proof.
  intros Hh Hb Ha Hb'. apply Rabs_le_inv in Ha, Hb'. apply Rabs_le.
  destruct Hb as [[H1 H2] | [H1 H2]]; apply IZR_le in H1, H2; split; nra.
Qed.

Lemma index_in_range base h (n x : Z) s0 d : 0 < h -> base + d <= s0 <= base + IZR n * h - d ->
  Rabs (base + IZR x * h - s0) <= d -> (0 <= x <= n)%Z.
Proof.
  intros Hh Hs Hx. apply Rabs_le_inv in Hx. split; apply le_IZR; nra.
Qed.

Section Resolvable.
  Variable L : lattice3 ROps.
  Variable f : RV3 -> R.
  Hypothesis inc_pos : 0 < wx (linc L) /\ 0 < wy (linc L) /\ 0 < wz (linc L).

  Notation cpos := (lpoint L).
  Notation val := (lval L f).
  Notation sgn := (sgnR val 0).
  Notation vpos := (vposR cpos val 0).
  Notation nx := (lnx L).
  Notation ny := (lny L).
  Notation nz := (lnz L).

  (* the cell diagonal *)
  Definition diag : R := len3 (linc L).

  Lemma diag_pos : 0 < diag.
  Proof. unfold diag. pose proof (abs_le_len3_x (linc L)) as H. destruct inc_pos as (Ix & _). rewrite Rabs_pos_eq in H; lra. Qed.
  Lemma diag_sq : diag * diag = wx (linc L) * wx (linc L) + wy (linc L) * wy (linc L) + wz (linc L) * wz (linc L).
  Proof. apply len3_sq. Qed.

  (* lattice point k is within half a cell of c along every axis *)
  Definition near_half (k : pt) (c : RV3) : Prop :=
    Rabs (wx (cpos k) - wx c) <= wx (linc L) / 2 /\ Rabs (wy (cpos k) - wy c) <= wy (linc L) / 2 /\
    Rabs (wz (cpos k) - wz c) <= wz (linc L) / 2.

  Lemma nearest_3d c : exists k, near_half k c.
  Proof.
    destruct inc_pos as (Ix & Iy & Iz).
    destruct (nearest_1d (wx (lbase L)) _ (wx c) Ix) as [i Hi]. destruct (nearest_1d (wy (lbase L)) _ (wy c) Iy) as [j Hj].
    destruct (nearest_1d (wz (lbase L)) _ (wz c) Iz) as [k Hk]. exists (i, j, k). unfold near_half, lpoint. cbn [wx wy wz]. tauto.
  Qed.

  Lemma near_half_dist k c : near_half k c -> dist3 (cpos k) c <= diag / 2.
  Proof.
    intros (Hx & Hy & Hz). unfold dist3.
    eapply Rle_trans; [apply (len3_le_coords (NormR.sub3 (cpos k) c) _ _ _ Hx Hy Hz)|].
    replace (mkV3 (wx (linc L) / 2) (wy (linc L) / 2) (wz (linc L) / 2))
      with (mkV3 (/ 2 * wx (linc L)) (/ 2 * wy (linc L)) (/ 2 * wz (linc L))) by (f_equal; field).
    rewrite len3_scale, Rabs_pos_eq by lra. unfold diag. lra.
  Qed.

  (* a lattice point within half a cell of c along every axis and different from s, when s is exactly
     half a diagonal away from c *)
  Lemma nearest_ne s c : dist3 s c = diag / 2 -> exists k, near_half k c /\ cpos k <> s.
  Proof.
    intros Hd. destruct (nearest_3d c) as [[[i j] k] Hn].
    destruct (v3_eqbR (cpos (i, j, k)) s) eqn:E.
    2:{ exists (i, j, k). split; [exact Hn|]. intros X. apply v3_eqbR_ok in X. congruence. }
    apply v3_eqbR_ok in E. destruct inc_pos as (Ix & Iy & Iz). destruct Hn as (Hx & Hy & Hz).
    assert (Sq : (wx s - wx c) * (wx s - wx c) + (wy s - wy c) * (wy s - wy c) + (wz s - wz c) * (wz s - wz c) = diag * diag / 4).
    { unfold dist3 in Hd. pose proof (len3_sq (NormR.sub3 s c)) as Q. rewrite Hd in Q. unfold NormR.sub3 in Q. cbn [wx wy wz] in Q. lra. }
    rewrite diag_sq in Sq. pose proof Hy as Hy0. pose proof Hz as Hz0. rewrite E in Hx, Hy, Hz.
    assert (Bx : (wx s - wx c) * (wx s - wx c) <= wx (linc L) / 2 * (wx (linc L) / 2)) by (rewrite <- abs_sq; pose proof (Rabs_pos (wx s - wx c)); nra).
    assert (By : (wy s - wy c) * (wy s - wy c) <= wy (linc L) / 2 * (wy (linc L) / 2)) by (rewrite <- abs_sq; pose proof (Rabs_pos (wy s - wy c)); nra).
    assert (Bz : (wz s - wz c) * (wz s - wz c) <= wz (linc L) / 2 * (wz (linc L) / 2)) by (rewrite <- abs_sq; pose proof (Rabs_pos (wz s - wz c)); nra).
    assert (Ex : (wx s - wx c - wx (linc L) / 2) * (wx s - wx c + wx (linc L) / 2) = 0) by nra.
    apply Rmult_integral in Ex. 
    assert (Cx : forall i', wx (cpos (i', j, k)) = wx (cpos (i, j, k)) + IZR (i' - i) * wx (linc L)).
    { intros i'. unfold lpoint. cbn [wx T ROps]. rewrite minus_IZR. ring. }
    destruct Ex as [Ex | Ex].
    - exists ((i - 1)%Z, j, k). split.
      + unfold near_half. rewrite Cx. replace (i - 1 - i)%Z with (-1)%Z by lia. rewrite E. split; [|split; [exact Hy0 | exact Hz0]].
        apply Rabs_le. lra.
      + intros X. apply (f_equal wx) in X. rewrite Cx in X. replace (i - 1 - i)%Z with (-1)%Z in X by lia. rewrite E in X. lra.
    - exists ((i + 1)%Z, j, k). split.
      + unfold near_half. rewrite Cx. replace (i + 1 - i)%Z with 1%Z by lia. rewrite E. split; [|split; [exact Hy0 | exact Hz0]].
        apply Rabs_le. lra.
      + intros X. apply (f_equal wx) in X. rewrite Cx in X. replace (i + 1 - i)%Z with 1%Z in X by lia. rewrite E in X. lra.
  Qed.

  (* the closed ball of radius d around s lies in the sampled box *)
  Definition ball_in_sample_box (s : RV3) (d : R) : Prop :=
    wx (lbase L) + d <= wx s <= wx (lbase L) + IZR (Z.of_nat nx) * wx (linc L) - d /\
    wy (lbase L) + d <= wy s <= wy (lbase L) + IZR (Z.of_nat ny) * wy (linc L) - d /\
    wz (lbase L) + d <= wz s <= wz (lbase L) + IZR (Z.of_nat nz) * wz (linc L) - d.

  Lemma ball_point_in_lattice s d q : ball_in_sample_box s d -> dist3 (cpos q) s <= d -> in_lattice nx ny nz q.
  Proof.
    intros (Bx & By & Bz) Hd. destruct q as [[i j] k]. destruct inc_pos as (Ix & Iy & Iz).
    unfold dist3 in Hd. set (v := NormR.sub3 (cpos (i, j, k)) s) in *.
    pose proof (abs_le_len3_x v) as Ax. pose proof (abs_le_len3_y v) as Ay. pose proof (abs_le_len3_z v) as Az.
    cbn [in_lattice]. split; [|split].
    - apply (index_in_range (wx (lbase L)) (wx (linc L)) _ i (wx s) d Ix Bx). change (Rabs (wx v) <= d). lra.
    - apply (index_in_range (wy (lbase L)) (wy (linc L)) _ j (wy s) d Iy By). change (Rabs (wy v) <= d). lra.
    - apply (index_in_range (wz (lbase L)) (wz (linc L)) _ k (wz s) d Iz Bz). change (Rabs (wz v) <= d). lra.
  Qed.

  Lemma ball_steps_pos s : ball_in_sample_box s diag -> (0 < nx)%nat /\ (0 < ny)%nat /\ (0 < nz)%nat.
  Proof.
    intros (Bx & By & Bz). pose proof diag_pos as Dp. destruct inc_pos as (Ix & Iy & Iz).
    assert (G : forall n h, 0 < h -> 0 < IZR (Z.of_nat n) * h -> (0 < n)%nat).
    { intros n h Hh H. destruct n; [cbn in H; lra | lia]. }
    repeat split; [apply (G _ _ Ix) | apply (G _ _ Iy) | apply (G _ _ Iz)]; lra.
  Qed.

  (* every lattice point of the box spanned by two lattice points that are within half a cell (per axis) of
     s - (d/2) n and s + (d/2) n is within one diagonal of s *)
  Lemma span_in_ball s n km kp x : len3 n = 1 ->
    near_half km (offs s n (- (diag / 2))) -> near_half kp (offs s n (diag / 2)) -> in_span km kp x ->
    dist3 (cpos x) s <= diag.
  Proof.
    intros Hn (Mx & My & Mz) (Px & Py & Pz) Hs. destruct km as [[m1 m2] m3], kp as [[p1 p2] p3], x as [[x1 x2] x3].
    cbn [in_span] in Hs. destruct Hs as (S1 & S2 & S3). destruct inc_pos as (Ix & Iy & Iz). pose proof diag_pos as Dp.
    unfold offs, lpoint in Mx, My, Mz, Px, Py, Pz. cbn [wx wy wz] in Mx, My, Mz, Px, Py, Pz.
    unfold dist3. replace diag with (diag / 2 + len3 (linc L) / 2) by (unfold diag; field).
    assert (K : forall a hh nn, Rabs (a - (-(diag / 2) * nn)) <= hh / 2 \/ Rabs (a - (diag / 2 * nn)) <= hh / 2 -> Rabs a <= diag / 2 * Rabs nn + hh / 2).
    { intros a hh nn H. assert (E : diag / 2 * Rabs nn = Rabs (diag / 2 * nn)) by (rewrite Rabs_mult, (Rabs_pos_eq (diag / 2)); lra).
      rewrite E. destruct H as [H | H].
      - replace a with ((a - (-(diag / 2) * nn)) + (- (diag / 2 * nn))) at 1 by ring.
        eapply Rle_trans; [apply Rabs_triang|]. rewrite Rabs_Ropp. lra.
      - replace a with ((a - (diag / 2 * nn)) + (diag / 2 * nn)) at 1 by ring.
        eapply Rle_trans; [apply Rabs_triang|]. lra. }
    apply (len3_sum_bound _ n (linc L) (diag / 2)); [lra | exact Hn | | |]; unfold NormR.sub3, lpoint; cbn [wx wy wz].
    - apply (btw_abs m1 p1 x1 _ _ _ _ Ix S1); apply K; [left | right].
      + replace (wx (lbase L) + IZR m1 * wx (linc L) - wx s - - (diag / 2) * wx n) with (wx (lbase L) + IZR m1 * wx (linc L) - (wx s + - (diag / 2) * wx n)) by ring. exact Mx.
      + replace (wx (lbase L) + IZR p1 * wx (linc L) - wx s - diag / 2 * wx n) with (wx (lbase L) + IZR p1 * wx (linc L) - (wx s + diag / 2 * wx n)) by ring. exact Px.
    - apply (btw_abs m2 p2 x2 _ _ _ _ Iy S2); apply K; [left | right].
      + replace (wy (lbase L) + IZR m2 * wy (linc L) - wy s - - (diag / 2) * wy n) with (wy (lbase L) + IZR m2 * wy (linc L) - (wy s + - (diag / 2) * wy n)) by ring. exact My.
      + replace (wy (lbase L) + IZR p2 * wy (linc L) - wy s - diag / 2 * wy n) with (wy (lbase L) + IZR p2 * wy (linc L) - (wy s + diag / 2 * wy n)) by ring. exact Py.
    - apply (btw_abs m3 p3 x3 _ _ _ _ Iz S3); apply K; [left | right].
      + replace (wz (lbase L) + IZR m3 * wz (linc L) - wz s - - (diag / 2) * wz n) with (wz (lbase L) + IZR m3 * wz (linc L) - (wz s + - (diag / 2) * wz n)) by ring. exact Mz.
      + replace (wz (lbase L) + IZR p3 * wz (linc L) - wz s - diag / 2 * wz n) with (wz (lbase L) + IZR p3 * wz (linc L) - (wz s + diag / 2 * wz n)) by ring. exact Pz.
  Qed.
  Definition negv (n : RV3) : RV3 := mkV3 (- wx n) (- wy n) (- wz n).
  Lemma len3_negv n : len3 (negv n) = len3 n.
  Proof. unfold len3, negv. cbn [wx wy wz]. f_equal. ring. Qed.
  Lemma offs_negv s n t : offs s (negv n) t = offs s n (- t).
  Proof. unfold offs, negv. cbn [wx wy wz]. f_equal; ring. Qed.
  Lemma dist_offs s n t : len3 n = 1 -> 0 <= t -> dist3 s (offs s n t) = t.
  Proof.
    intros Hn Ht. unfold dist3.
    replace (NormR.sub3 s (offs s n t)) with (mkV3 (- t * wx n) (- t * wy n) (- t * wz n))
      by (unfold NormR.sub3, offs; cbn [wx wy wz]; f_equal; ring).
    rewrite len3_scale, Hn, Rabs_Ropp, Rabs_pos_eq by exact Ht. ring.
  Qed.

  (* resolvable_edge: s has an open ball of radius r > diag/2 inside {f < 0} and one inside {f > 0}, both
     tangent at s (centres s -/+ r n), and the closed ball of one cell diagonal around s lies in the sampled
     box: some lattice edge of the sampled lattice with both ends within one diagonal of s has a negative
     and a non-negative end value.  (No condition on f besides the two balls.) *)
  Theorem resolvable_edge s n r : len3 n = 1 -> diag / 2 < r ->
    (forall p, dist3 p (offs s n (- r)) < r -> f p < 0) -> (forall p, dist3 p (offs s n r) < r -> 0 < f p) ->
    ball_in_sample_box s diag ->
    exists q q', in_lattice nx ny nz q /\ in_lattice nx ny nz q' /\ lattice_step q q' /\
                 val q < 0 /\ 0 <= val q' /\ dist3 (cpos q) s <= diag /\ dist3 (cpos q') s <= diag.
  Proof.
    intros Hn Hr Hneg Hpos Hbox. pose proof diag_pos as Dp.
    assert (Hn' : len3 (negv n) = 1) by now rewrite len3_negv.
    (* a lattice point inside the negative ball *)
    destruct (nearest_ne s (offs s n (- (diag / 2)))) as (km & Hkm & Nm).
    { rewrite <- offs_negv. apply dist_offs; [exact Hn' | lra]. }
    assert (Fm : val km < 0).
    { apply Hneg. rewrite <- offs_negv. apply (ball_in_ball s (negv n) (cpos km) (diag / 2) r Hn'); [lra | | exact Nm].
      rewrite offs_negv. now apply near_half_dist. }
    (* a lattice point inside the positive ball *)
    destruct (nearest_ne s (offs s n (diag / 2))) as (kp & Hkp & Np).
    { apply dist_offs; [exact Hn | lra]. }
    assert (Fp : 0 < val kp).
    { apply Hpos. apply (ball_in_ball s n (cpos kp) (diag / 2) r Hn); [lra | | exact Np]. now apply near_half_dist. }
    (* a sign change along a lattice path inside the box they span *)
    destruct (span_change (fun q => Rltb (val q) 0) km kp) as (q & q' & Sq & Sq' & St & Gq & Gq').
    { apply Rltb_true. exact Fm. }
    { apply Rltb_false. lra. }
    apply Rltb_true in Gq. apply Rltb_false in Gq'.
    pose proof (span_in_ball s n km kp q Hn Hkm Hkp Sq) as Dq. pose proof (span_in_ball s n km kp q' Hn Hkm Hkp Sq') as Dq'.
    exists q, q'. repeat split; try assumption; now apply (ball_point_in_lattice s diag).
  Qed.

  (* complete_resolvable: if moreover no lattice point within one cell diagonal of s has its value inside the
     snapping window, the EMITTED mesh has a vertex within ONE cell diagonal of s; the vertex is the linear
     zero crossing on a lattice edge *)
  Theorem complete_resolvable s n r : len3 n = 1 -> diag / 2 < r ->
    (forall p, dist3 p (offs s n (- r)) < r -> f p < 0) -> (forall p, dist3 p (offs s n r) < r -> 0 < f p) ->
    ball_in_sample_box s diag ->
    (forall q, in_lattice nx ny nz q -> dist3 (cpos q) s <= diag -> @eps ROps <= Rabs (val q)) ->
    exists t w, In t (@marching_cubes ROps L f) /\ In w (tri_vertices t) /\ dist3 w s <= diag /\
      exists q q', in_lattice nx ny nz q /\ in_lattice nx ny nz q' /\ lattice_step q q' /\ crossing_of f (cpos q) (cpos q') w /\
                   w = lerp3 (cpos q) (cpos q') (- val q / (val q' - val q)) /\ lerp (val q) (val q') (- val q / (val q' - val q)) = 0.
  Proof.
    intros Hn Hr Hneg Hpos Hbox Hwin.
    destruct (resolvable_edge s n r Hn Hr Hneg Hpos Hbox) as (q & q' & Hq & Hq' & St & Vq & Vq' & Dq & Dq').
    destruct (ball_steps_pos s Hbox) as (Nx & Ny & Nz).
    assert (S : straddles (val q) (val q') 0) by (left; split; assumption).
    destruct (lattice_edge_complete L f inc_pos q q' Nx Ny Nz Hq Hq' St S (Hwin q Hq Dq) (Hwin q' Hq' Dq')) as (T0 & Z0 & Cr & t & Ht & Hw).
    cbv zeta in *. exists t, (lerp3 (cpos q) (cpos q') (- val q / (val q' - val q))).
    split; [exact Ht|]. split; [exact Hw|]. split; [apply dist_lerp3_le; [lra | exact Dq | exact Dq']|].
    exists q, q'. repeat split; try assumption; apply Cr.
  Qed.

  (* the lattice values inside the snapping window near s are harmless: such a lattice point has at most one
     lattice neighbour of the other sign, and that neighbour's value is outside the window (true e.g. for a
     plane or a box face lying exactly in a lattice plane) *)
  Definition window_regular (s : RV3) : Prop :=
    forall z, in_lattice nx ny nz z -> dist3 (cpos z) s <= diag -> Rabs (val z) < @eps ROps ->
      (forall m, in_lattice nx ny nz m -> lattice_step z m -> sgn m <> sgn z -> @eps ROps <= Rabs (val m)) /\
      (forall m m', in_lattice nx ny nz m -> in_lattice nx ny nz m' -> lattice_step z m -> lattice_step z m' ->
                    sgn m <> sgn z -> sgn m' <> sgn z -> m = m').

  Lemma lattice_step_sym q q' : lattice_step q q' -> lattice_step q' q.
  Proof. destruct q as [[x y] z], q' as [[x' y'] z']. unfold lattice_step. lia. Qed.

  (* complete_resolvable_gen: the same conclusion when lattice values inside the window occur near s but are
     harmless in the sense above; the vertex is then either a linear zero crossing or a lattice point *)
  Theorem complete_resolvable_gen s n r : len3 n = 1 -> diag / 2 < r ->
    (forall p, dist3 p (offs s n (- r)) < r -> f p < 0) -> (forall p, dist3 p (offs s n r) < r -> 0 < f p) ->
    ball_in_sample_box s diag -> window_regular s ->
    exists t w, In t (@marching_cubes ROps L f) /\ In w (tri_vertices t) /\ dist3 w s <= diag /\
      exists q q', in_lattice nx ny nz q /\ in_lattice nx ny nz q' /\ lattice_step q q' /\ crossing_of f (cpos q) (cpos q') w.
  Proof.
    intros Hn Hr Hneg Hpos Hbox Hreg.
    destruct (resolvable_edge s n r Hn Hr Hneg Hpos Hbox) as (q & q' & Hq & Hq' & St & Vq & Vq' & Dq & Dq').
    destruct (ball_steps_pos s Hbox) as (Nx & Ny & Nz).
    assert (S : straddles (val q) (val q') 0) by (left; split; assumption).
    assert (Sg : sgn q = true /\ sgn q' = false) by (unfold sgnR; split; [apply Rltb_true; exact Vq | apply Rltb_false; exact Vq']).
    destruct Sg as [Sg Sg'].
    destruct (Rlt_dec (Rabs (val q)) (@eps ROps)) as [Wq | Wq]; destruct (Rlt_dec (Rabs (val q')) (@eps ROps)) as [Wq' | Wq'].
    - (* both inside the window: excluded *)
      destruct (Hreg q Hq Dq Wq) as [R1 _]. assert (X : sgn q' <> sgn q) by (rewrite Sg, Sg'; discriminate).
      pose proof (R1 q' Hq' St X). lra.
    - (* q inside, q' outside *)
      destruct (Hreg q Hq Dq Wq) as [_ R2]. assert (X : sgn q' <> sgn q) by (rewrite Sg, Sg'; discriminate).
      destruct (lattice_edge_complete_snap L f inc_pos q' q Nx Ny Nz Hq' Hq (lattice_step_sym _ _ St) (straddles_sym _ _ S)) as (Cr & t & Ht & Hw); [lra | exact Wq | |].
      + intros m Hm Sm Nm. left. destruct (Bool.bool_dec (sgn m) (sgn q)) as [E | N]; [exact E|]. exfalso. apply Nm. exact (R2 m q' Hm Hq' Sm St N X).
      + exists t, (cpos q). split; [exact Ht|]. split; [exact Hw|]. split; [exact Dq|]. exists q', q.
        repeat split; try assumption; [now apply lattice_step_sym | apply Cr | apply Cr].
    - (* q' inside, q outside *)
      destruct (Hreg q' Hq' Dq' Wq') as [_ R2]. assert (X : sgn q <> sgn q') by (rewrite Sg, Sg'; discriminate).
      destruct (lattice_edge_complete_snap L f inc_pos q q' Nx Ny Nz Hq Hq' St S) as (Cr & t & Ht & Hw); [lra | exact Wq' | |].
      + intros m Hm Sm Nm. left. destruct (Bool.bool_dec (sgn m) (sgn q')) as [E | N]; [exact E|]. exfalso. apply Nm.
        exact (R2 m q Hm Hq Sm (lattice_step_sym _ _ St) N X).
      + exists t, (cpos q'). split; [exact Ht|]. split; [exact Hw|]. split; [exact Dq'|]. exists q, q'.
        repeat split; try assumption; apply Cr.
    - (* both outside *)
      destruct (lattice_edge_complete L f inc_pos q q' Nx Ny Nz Hq Hq' St S) as (T0 & Z0 & Cr & t & Ht & Hw); [lra | lra |].
      cbv zeta in *. exists t, (lerp3 (cpos q) (cpos q') (- val q / (val q' - val q))).
      split; [exact Ht|]. split; [exact Hw|]. split; [apply dist_lerp3_le; [lra | exact Dq | exact Dq']|].
      exists q, q'. repeat split; try assumption; apply Cr.
  Qed.

  (* complete_resolvable_unfiltered: without any condition on the values, the mesh BEFORE the removal of
     triangles with coincident vertices has a vertex within one cell diagonal of s *)
  Theorem complete_resolvable_unfiltered s n r : len3 n = 1 -> diag / 2 < r ->
    (forall p, dist3 p (offs s n (- r)) < r -> f p < 0) -> (forall p, dist3 p (offs s n r) < r -> 0 < f p) ->
    ball_in_sample_box s diag ->
    @marching_cubes ROps L f = filter nondegR (map (mapT vpos) (mesh nx ny nz sgn)) /\
    exists u w, In u (mesh nx ny nz sgn) /\ In w (tri_vertices (mapT vpos u)) /\ dist3 w s <= diag.
  Proof.
    intros Hn Hr Hneg Hpos Hbox. split; [rewrite marching_cubes_is_meshR; apply meshR_eq|].
    destruct (resolvable_edge s n r Hn Hr Hneg Hpos Hbox) as (q & q' & Hq & Hq' & St & Vq & Vq' & Dq & Dq').
    destruct (ball_steps_pos s Hbox) as (Nx & Ny & Nz).
    assert (S : straddles (val q) (val q') 0) by (left; split; assumption).
    destruct (lattice_edge_unfiltered L f q q' Nx Ny Nz Hq Hq' St S) as (u & Hu & Hw).
    exists u, (@mc_interpolate ROps (cpos q) (cpos q') (val q) (val q') 0). split; [exact Hu|]. split; [exact Hw|].
    destruct (interp_on_edge (cpos q) (cpos q') _ _ S) as (T & _ & -> & _). now apply dist_lerp3_le.
  Qed.
End Resolvable.

(* ================================================================== 3b. the whole lattice outside the window; the empty mesh *)

Lemma filter_all {A} (g : A -> bool) l : (forall x, In x l -> g x = true) -> filter g l = l.
Proof.
  induction l as [|a l IH]; intros H; [reflexivity|]. cbn [filter]. rewrite (H a (or_introl eq_refl)), IH; [reflexivity|].
  intros x Hx. apply H. now right.
Qed.
Lemma filter_none {A} (g : A -> bool) l : (forall x, In x l -> g x = false) -> filter g l = [].
Proof.
  induction l as [|a l IH]; intros H; [reflexivity|]. cbn [filter]. rewrite (H a (or_introl eq_refl)), IH; [reflexivity|].
  intros x Hx. apply H. now right.
Qed.

(* with no corner inside the window every triangle of every row keeps three distinct vertices *)
Lemma alive0_ok_c : forallb (fun cfg => forallb (alive 0) (local_tris cfg)) cfgs = true.
Proof. vm_cast_no_check (@eq_refl bool true). Qed.
Lemma alive0_ok cfg t : (cfg < 256)%N -> In t (local_tris cfg) -> alive 0 t = true.
Proof.
  intros Hc Ht. pose proof (forallb_cfgs _ alive0_ok_c cfg Hc) as H. cbv beta in H. rewrite forallb_forall in H. now apply H.
Qed.

Section Global.
  Variable L : lattice3 ROps.
  Variable f : RV3 -> R.

  Notation cpos := (lpoint L).
  Notation val := (lval L f).
  Notation sgn := (sgnR val 0).
  Notation vpos := (vposR cpos val 0).
  Notation nx := (lnx L).
  Notation ny := (lny L).
  Notation nz := (lnz L).

  Lemma in_mesh_inv u : In u (mesh nx ny nz sgn) ->
    exists p a b c, In p (cells nx ny nz) /\ In (a, b, c) (local_tris (cfg_at sgn p)) /\ u = shiftT p (ledge a, ledge b, ledge c).
  Proof.
    unfold mesh. intros H. apply in_flat_map in H as (p & Hp & H). unfold cell_mesh, cell_tris in H.
    apply in_map_iff in H as (t' & <- & H). apply in_map_iff in H as ([[a b] c] & <- & H). now exists p, a, b, c.
  Qed.

  (* nosnap_nothing_removed: if no lattice value of the sampled lattice is inside the snapping window (and the
     cells are not flat) every triangle of every cell has three pairwise distinct vertices: the emitted mesh
     is the whole abstract mesh of C05, Degenerate removes nothing *)
  Theorem nosnap_nothing_removed : 0 < wx (linc L) /\ 0 < wy (linc L) /\ 0 < wz (linc L) ->
    (forall q, in_lattice nx ny nz q -> @eps ROps <= Rabs (val q)) ->
    @marching_cubes ROps L f = map (mapT vpos) (mesh nx ny nz sgn).
  Proof.
    intros inc_pos Hwin. rewrite marching_cubes_is_meshR, meshR_eq. apply filter_all. intros t Ht.
    apply in_map_iff in Ht as (u & <- & Hu). destruct (in_mesh_inv u Hu) as (p & a & b & c & Hp & Ht & ->).
    assert (Sm : sm_at L f p = 0%N).
    { unfold sm_at, cfg_at.
      assert (Z : forall k, snp L f (addp p (corner_off k)) = false).
      { intros k. apply Rltb_false. apply Hwin. now apply corner_in_lattice. }
      now rewrite !Z. }
    pose proof (alive0_ok _ _ (cfg_at_lt sgn p) Ht) as Ha.
    destruct (local_tris_edges _ a b c (cfg_at_lt sgn p) Ht) as ((La & Xa) & (Lb & Xb) & (Lc & Xc)).
    unfold alive in Ha. rewrite !andb_true_iff, !negb_true_iff in Ha. destruct Ha as [[D1 D2] D3]. rewrite <- Sm in D1, D2, D3.
    unfold nondegR, degenerate. cbn [shiftT mapT].
    rewrite (vpos_distinct L f inc_pos p a b La Lb Xa Xb D1), (vpos_distinct L f inc_pos p b c Lb Lc Xb Xc D2),
            (vpos_distinct L f inc_pos p c a Lc La Xc Xa D3). reflexivity.
  Qed.

  (* lonely_snap_empty: a field whose only negative lattice value lies in (-epsilon, 0), every other lattice
     value being at least epsilon, renders to the EMPTY mesh: every crossing vertex snaps onto that lattice
     point and every triangle is removed as degenerate *)
  Theorem lonely_snap_empty z0 : (forall q, val q < 0 -> q = z0) -> - @eps ROps < val z0 ->
    (forall q, q <> z0 -> @eps ROps <= val q) -> @marching_cubes ROps L f = [].
  Proof.
    intros Honly Hz Hrest. pose proof eps_pos as Ep.
    rewrite marching_cubes_is_meshR, meshR_eq. apply filter_none. intros t Ht.
    apply in_map_iff in Ht as (u & <- & Hu). destruct (in_mesh_inv u Hu) as (p & a & b & c & Hp & Ht & ->).
    assert (V : forall e, (e < 12)%N -> crossing (cfg_at sgn p) e = true -> vpos (shiftv p (ledge e)) = cpos z0).
    { intros e He Hx. rewrite (edge_ends_sgn L f p e He) in Hx.
      rewrite vpos_shift. set (q1 := addp p (fst (ledge e))) in *. set (q2 := addp p (far_of (ledge e))) in *.
      assert (Eq2 : q2 = addp q1 (unit (snd (ledge e)))) by (unfold q1, q2, far_of; now rewrite addp_assoc).
      unfold edge_point. unfold shiftv, far_of. cbn [fst snd]. fold q1. rewrite <- Eq2.
      pose proof (xor_straddles _ _ Hx) as S.
      destruct (interp_on_edge (cpos q1) (cpos q2) _ _ S) as (_ & _ & _ & Br). cbv zeta in Br.
      unfold sgnR in Hx.
      destruct (Rltb (val q1) 0) eqn:B1; [apply Rltb_true in B1 | apply Rltb_false in B1];
      (destruct (Rltb (val q2) 0) eqn:B2; [apply Rltb_true in B2 | apply Rltb_false in B2]); try discriminate.
      - pose proof (Honly q1 B1) as E1. assert (N2 : q2 <> z0) by (intros X; rewrite X in B2; rewrite <- E1 in B2; lra).
        pose proof (Hrest q2 N2) as R2. rewrite E1 in *.
        assert (A1 : Rabs (val z0) < eps) by (apply Rabs_def1; lra). assert (A2 : eps <= Rabs (val q2)) by (rewrite Rabs_pos_eq; lra).
        destruct Br as [(_ & _ & ->) | [(C & _) | [(_ & C & _) | (C & _)]]]; try lra. apply lerp3_0.
      - pose proof (Honly q2 B2) as E2. assert (N1 : q1 <> z0) by (intros X; rewrite X in B1; rewrite <- E2 in B1; lra).
        pose proof (Hrest q1 N1) as R1. rewrite E2 in *.
        assert (A2 : Rabs (val z0) < eps) by (apply Rabs_def1; lra). assert (A1 : eps <= Rabs (val q1)) by (rewrite Rabs_pos_eq; lra).
        destruct Br as [(C & _) | [(_ & _ & ->) | [(C & _) | (_ & C & _)]]]; try lra. apply lerp3_1. }
    destruct (local_tris_edges _ a b c (cfg_at_lt sgn p) Ht) as ((La & Xa) & (Lb & Xb) & _).
    unfold nondegR, degenerate. cbn [shiftT mapT]. rewrite (V a La Xa), (V b Lb Xb).
    now rewrite (proj2 (v3_eqbR_ok (cpos z0) (cpos z0)) eq_refl).
  Qed.
End Global.

(* ================================================================== 4. the window hypothesis is necessary *)
Lemma eps_le_1 : @eps ROps <= 1.
Proof.
  unfold eps, cst. rsimp. assert (D : 0 < IZR epsilon_den) by (apply IZR_lt; vm_compute; reflexivity).
  assert (N : IZR epsilon_num <= IZR epsilon_den) by (apply IZR_le; vm_compute; discriminate).
  apply (Rmult_le_reg_r (IZR epsilon_den)); [exact D|]. unfold Rdiv. rewrite Rmult_assoc, Rinv_l by lra. lra.
Qed.

Lemma eps_le_half : @eps ROps <= 1 / 2.
Proof.
  unfold eps, cst. rsimp. assert (D : 0 < IZR epsilon_den) by (apply IZR_lt; vm_compute; reflexivity).
  assert (N : IZR (2 * epsilon_num) <= IZR epsilon_den) by (apply IZR_le; vm_compute; discriminate). rewrite mult_IZR in N.
  apply (Rmult_le_reg_r (IZR epsilon_den)); [exact D|]. unfold Rdiv. rewrite Rmult_assoc, Rinv_l by lra. lra.
Qed.

Definition unitL (n : Z) : lattice3 ROps := mkLat3 (mkV3 0 0 0) (mkV3 1 1 1) (n, n, n).
Lemma unitL_point n i j k : lpoint (unitL n) (i, j, k) = mkV3 (IZR i) (IZR j) (IZR k).
Proof. unfold lpoint, unitL. cbn [lbase linc wx wy wz]. f_equal; ring. Qed.
Lemma unitL_diag n : diag (unitL n) = sqrt 3.
Proof. unfold diag, unitL, len3. cbn [linc wx wy wz]. f_equal. ring. Qed.
Lemma sqrt3_bounds : 17 / 10 < sqrt 3 < 9 / 5.
Proof.
  pose proof (sqrt_pos 3) as P. assert (S : sqrt 3 * sqrt 3 = 3) by (apply sqrt_sqrt; lra). split; nra.
Qed.
Lemma len3_e1 : len3 (mkV3 1 0 0) = 1.
Proof. unfold len3. cbn [wx wy wz]. replace (1 * 1 + 0 * 0 + 0 * 0) with 1 by ring. apply sqrt_1. Qed.

(* the field: -epsilon/2 inside the ball of radius 9/10 about the lattice point (3,3,3), 1 outside *)
Definition lonely_field (p : RV3) : R := if Rlt_dec (dist3 p (mkV3 3 3 3)) (9 / 10) then - (@eps ROps / 2) else 1.

Lemma int_near k : Rabs (IZR k) < 9 / 10 -> k = 0%Z.
Proof.
  intros H. apply Rabs_def2 in H. destruct H as [H1 H2].
  assert (A : (k < 1)%Z) by (apply lt_IZR; lra). assert (B : (-1 < k)%Z) by (apply lt_IZR; lra). lia.
Qed.

(* snap_refuted: a lattice, a field, a point s and balls that satisfy every hypothesis of complete_resolvable
   except the condition on the snapping window, and the emitted mesh is empty *)
Theorem snap_refuted : exists (L : lattice3 ROps) (f : RV3 -> R) (s n : RV3) (r : R),
  (0 < wx (linc L) /\ 0 < wy (linc L) /\ 0 < wz (linc L)) /\ len3 n = 1 /\ diag L / 2 < r /\
  (forall p, dist3 p (offs s n (- r)) < r -> f p < 0) /\ (forall p, dist3 p (offs s n r) < r -> 0 < f p) /\
  ball_in_sample_box L s (diag L) /\ @marching_cubes ROps L f = [].
Proof.
  exists (unitL 6), lonely_field, (mkV3 (39 / 10) 3 3), (mkV3 1 0 0), (9 / 10).
  pose proof sqrt3_bounds as Sq. pose proof eps_pos as Ep. pose proof eps_le_1 as E1. rewrite unitL_diag.
  split; [cbn; lra|]. split; [apply len3_e1|]. split; [lra|].
  assert (C1 : offs (mkV3 (39 / 10) 3 3) (mkV3 1 0 0) (- (9 / 10)) = mkV3 3 3 3) by (unfold offs; cbn [wx wy wz]; f_equal; lra).
  assert (C2 : offs (mkV3 (39 / 10) 3 3) (mkV3 1 0 0) (9 / 10) = mkV3 (24 / 5) 3 3) by (unfold offs; cbn [wx wy wz]; f_equal; lra).
  rewrite C1, C2. split; [|split; [|split]].
  - intros p Hp. unfold lonely_field. destruct (Rlt_dec _ _); lra.
  - intros p Hp. unfold lonely_field. destruct (Rlt_dec (dist3 p (mkV3 3 3 3)) (9 / 10)) as [Lt|]; [|lra]. exfalso.
    pose proof (dist3_triangle (mkV3 3 3 3) p (mkV3 (24 / 5) 3 3)) as Tr. rewrite (dist3_sym (mkV3 3 3 3) p) in Tr.
    pose proof (abs_le_len3_x (NormR.sub3 (mkV3 3 3 3) (mkV3 (24 / 5) 3 3))) as Ax. fold (dist3 (mkV3 3 3 3) (mkV3 (24 / 5) 3 3)) in Ax.
    unfold NormR.sub3 in Ax at 1. cbn [wx wy wz] in Ax. rewrite Rabs_left in Ax by lra. lra.
  - unfold ball_in_sample_box, unitL, lnx, lny, lnz. cbn [lbase linc lsteps wx wy wz fst snd].
    change (Z.of_nat (Z.to_nat 6)) with 6%Z. lra.
  - apply (lonely_snap_empty (unitL 6) lonely_field (3, 3, 3)%Z).
    + intros [[i j] k] Hv. unfold lval in Hv. rewrite unitL_point in Hv. unfold lonely_field in Hv.
      destruct (Rlt_dec _ _) as [Lt|]; [|lra].
      pose proof (abs_le_len3_x (NormR.sub3 (mkV3 (IZR i) (IZR j) (IZR k)) (mkV3 3 3 3))) as Ax.
      pose proof (abs_le_len3_y (NormR.sub3 (mkV3 (IZR i) (IZR j) (IZR k)) (mkV3 3 3 3))) as Ay.
      pose proof (abs_le_len3_z (NormR.sub3 (mkV3 (IZR i) (IZR j) (IZR k)) (mkV3 3 3 3))) as Az.
      fold (dist3 (mkV3 (IZR i) (IZR j) (IZR k)) (mkV3 3 3 3)) in Ax, Ay, Az. unfold NormR.sub3 in Ax at 1, Ay at 1, Az at 1. cbn [wx wy wz] in Ax, Ay, Az.
      rewrite <- minus_IZR in Ax, Ay, Az.
      assert (Zi : (i - 3 = 0)%Z) by (apply int_near; lra). assert (Zj : (j - 3 = 0)%Z) by (apply int_near; lra).
      assert (Zk : (k - 3 = 0)%Z) by (apply int_near; lra). f_equal; [f_equal|]; lia.
    + unfold lval. rewrite unitL_point. unfold lonely_field.
      destruct (Rlt_dec _ _) as [|Nlt]; [lra|]. exfalso. apply Nlt. unfold dist3, len3, NormR.sub3. cbn [wx wy wz].
      replace ((3 - 3) * (3 - 3) + (3 - 3) * (3 - 3) + (3 - 3) * (3 - 3)) with 0 by ring. rewrite sqrt_0. lra.
    + intros [[i j] k] Hq. unfold lval. rewrite unitL_point. unfold lonely_field. destruct (Rlt_dec _ _) as [Lt|]; [|lra].
      exfalso. apply Hq.
      pose proof (abs_le_len3_x (NormR.sub3 (mkV3 (IZR i) (IZR j) (IZR k)) (mkV3 3 3 3))) as Ax.
      pose proof (abs_le_len3_y (NormR.sub3 (mkV3 (IZR i) (IZR j) (IZR k)) (mkV3 3 3 3))) as Ay.
      pose proof (abs_le_len3_z (NormR.sub3 (mkV3 (IZR i) (IZR j) (IZR k)) (mkV3 3 3 3))) as Az.
      fold (dist3 (mkV3 (IZR i) (IZR j) (IZR k)) (mkV3 3 3 3)) in Ax, Ay, Az. unfold NormR.sub3 in Ax at 1, Ay at 1, Az at 1. cbn [wx wy wz] in Ax, Ay, Az.
      rewrite <- minus_IZR in Ax, Ay, Az.
      assert (Zi : (i - 3 = 0)%Z) by (apply int_near; lra). assert (Zj : (j - 3 = 0)%Z) by (apply int_near; lra).
      assert (Zk : (k - 3 = 0)%Z) by (apply int_near; lra). f_equal; [f_equal|]; lia.
Qed.

(* ================================================================== 5. the hypotheses are satisfiable *)
(* the plane x = 5/2 (field 2x - 5) on the unit lattice of 5 x 5 x 5 cells, s = the centre of the box *)
Definition plane_field (p : RV3) : R := 2 * wx p - 5.
Lemma plane_example :
  let L := unitL 5 in let s := mkV3 (5 / 2) (5 / 2) (5 / 2) in let n := mkV3 1 0 0 in
  (0 < wx (linc L) /\ 0 < wy (linc L) /\ 0 < wz (linc L)) /\ len3 n = 1 /\ diag L / 2 < 1 /\
  (forall p, dist3 p (offs s n (- 1)) < 1 -> plane_field p < 0) /\ (forall p, dist3 p (offs s n 1) < 1 -> 0 < plane_field p) /\
  ball_in_sample_box L s (diag L) /\
  (forall q, in_lattice (lnx L) (lny L) (lnz L) q -> dist3 (lpoint L q) s <= diag L -> @eps ROps <= Rabs (lval L plane_field q)).
Proof.
  cbv zeta. pose proof sqrt3_bounds as Sq. pose proof eps_le_1 as E1. rewrite unitL_diag.
  split; [cbn; lra|]. split; [apply len3_e1|]. split; [lra|].
  assert (C1 : offs (mkV3 (5 / 2) (5 / 2) (5 / 2)) (mkV3 1 0 0) (- 1) = mkV3 (3 / 2) (5 / 2) (5 / 2)) by (unfold offs; cbn [wx wy wz]; f_equal; lra).
  assert (C2 : offs (mkV3 (5 / 2) (5 / 2) (5 / 2)) (mkV3 1 0 0) 1 = mkV3 (7 / 2) (5 / 2) (5 / 2)) by (unfold offs; cbn [wx wy wz]; f_equal; lra).
  rewrite C1, C2. split; [|split; [|split]].
  - intros p Hp. pose proof (abs_le_len3_x (NormR.sub3 p (mkV3 (3 / 2) (5 / 2) (5 / 2)))) as Ax.
    fold (dist3 p (mkV3 (3 / 2) (5 / 2) (5 / 2))) in Ax. unfold NormR.sub3 in Ax at 1. cbn [wx wy wz] in Ax.
    assert (A : Rabs (wx p - 3 / 2) < 1) by lra. apply Rabs_def2 in A. unfold plane_field. lra.
  - intros p Hp. pose proof (abs_le_len3_x (NormR.sub3 p (mkV3 (7 / 2) (5 / 2) (5 / 2)))) as Ax.
    fold (dist3 p (mkV3 (7 / 2) (5 / 2) (5 / 2))) in Ax. unfold NormR.sub3 in Ax at 1. cbn [wx wy wz] in Ax.
    assert (A : Rabs (wx p - 7 / 2) < 1) by lra. apply Rabs_def2 in A. unfold plane_field. lra.
  - unfold ball_in_sample_box, unitL, lnx, lny, lnz. cbn [lbase linc lsteps wx wy wz fst snd].
    change (Z.of_nat (Z.to_nat 5)) with 5%Z. lra.
  - intros [[i j] k] _ _. unfold lval. rewrite unitL_point. unfold plane_field. cbn [wx].
    replace (2 * IZR i - 5) with (IZR (2 * i - 5)) by (rewrite minus_IZR, mult_IZR; reflexivity).
    rewrite <- abs_IZR. eapply Rle_trans; [exact E1|]. apply IZR_le. lia.
Qed.

(* a plane lying exactly in the lattice plane x = 2 (field x - 2, value 0 on 25 lattice points) on the unit
   lattice of 4 x 4 x 4 cells, s = the lattice point (2,2,2): every lattice value of the plane is inside the
   snapping window and window_regular holds *)
Definition aligned_field (p : RV3) : R := wx p - 2.
Lemma aligned_plane_example :
  let L := unitL 4 in let s := mkV3 2 2 2 in let n := mkV3 1 0 0 in
  (0 < wx (linc L) /\ 0 < wy (linc L) /\ 0 < wz (linc L)) /\ len3 n = 1 /\ diag L / 2 < 1 /\
  (forall p, dist3 p (offs s n (- 1)) < 1 -> aligned_field p < 0) /\ (forall p, dist3 p (offs s n 1) < 1 -> 0 < aligned_field p) /\
  ball_in_sample_box L s (diag L) /\ window_regular L aligned_field s /\
  Rabs (lval L aligned_field (2, 2, 2)%Z) < @eps ROps.
Proof.
  cbv zeta. pose proof sqrt3_bounds as Sq. pose proof eps_le_1 as E1. pose proof eps_le_half as E2. pose proof eps_pos as Ep. rewrite unitL_diag.
  split; [cbn; lra|]. split; [apply len3_e1|]. split; [lra|].
  assert (C1 : offs (mkV3 2 2 2) (mkV3 1 0 0) (- 1) = mkV3 1 2 2) by (unfold offs; cbn [wx wy wz]; f_equal; lra).
  assert (C2 : offs (mkV3 2 2 2) (mkV3 1 0 0) 1 = mkV3 3 2 2) by (unfold offs; cbn [wx wy wz]; f_equal; lra).
  rewrite C1, C2. split; [|split; [|split; [|split]]].
  - intros p Hp. pose proof (abs_le_len3_x (NormR.sub3 p (mkV3 1 2 2))) as Ax.
    fold (dist3 p (mkV3 1 2 2)) in Ax. unfold NormR.sub3 in Ax at 1. cbn [wx wy wz] in Ax.
    assert (A : Rabs (wx p - 1) < 1) by lra. apply Rabs_def2 in A. unfold aligned_field. lra.
  - intros p Hp. pose proof (abs_le_len3_x (NormR.sub3 p (mkV3 3 2 2))) as Ax.
    fold (dist3 p (mkV3 3 2 2)) in Ax. unfold NormR.sub3 in Ax at 1. cbn [wx wy wz] in Ax.
    assert (A : Rabs (wx p - 3) < 1) by lra. apply Rabs_def2 in A. unfold aligned_field. lra.
  - unfold ball_in_sample_box, unitL, lnx, lny, lnz. cbn [lbase linc lsteps wx wy wz fst snd].
    change (Z.of_nat (Z.to_nat 4)) with 4%Z. lra.
  - intros [[i j] k] _ _ Hz. unfold lval in Hz. rewrite unitL_point in Hz. unfold aligned_field in Hz. cbn [wx] in Hz.
    assert (Ei : i = 2%Z).
    { replace (IZR i - 2) with (IZR (i - 2)) in Hz by (rewrite minus_IZR; reflexivity).
      assert (i - 2 = 0)%Z; [apply int_near; lra | lia]. }
    subst i.
    assert (G : forall m, lattice_step (2, j, k)%Z m -> sgnR (lval (unitL 4) aligned_field) 0 m <> sgnR (lval (unitL 4) aligned_field) 0 (2, j, k)%Z -> m = (1, j, k)%Z).
    { intros [[i' j'] k'] St Ns. unfold sgnR, lval in Ns. rewrite !unitL_point in Ns. unfold aligned_field in Ns. cbn [wx] in Ns.
      assert (F : Rltb (2 - 2) 0 = false) by (apply Rltb_false; lra). rewrite F in Ns.
      destruct (Rltb (IZR i' - 2) 0) eqn:B; [|congruence]. apply Rltb_true in B.
      assert (Li : (i' < 2)%Z) by (apply lt_IZR; lra). unfold lattice_step in St. apply pt_ext; lia. }
    split.
    + intros m _ St Ns. rewrite (G m St Ns). unfold lval. rewrite unitL_point. unfold aligned_field. cbn [wx].
      rewrite Rabs_left by lra. lra.
    + intros m m' _ _ St St' Ns Ns'. now rewrite (G m St Ns), (G m' St' Ns').
  - unfold lval. rewrite unitL_point. unfold aligned_field. cbn [wx]. replace (2 - 2) with 0 by ring. now rewrite Rabs_R0.
Qed.

(* ================================================================== 6. the octree renderer *)
(* the finest cells of the cube (m, v) of the octree are the cells of the lattice with base point
   oct_point v, increment 2 res along every axis and 2^m cells per axis *)
Definition oct_lattice (origin : RV3) (res : R) (m : nat) (v : pt) : lattice3 ROps :=
  mkLat3 (@oct_point ROps origin res v) (mkV3 (2 * res) (2 * res) (2 * res)) (pow2 m, pow2 m, pow2 m).

Lemma oct_lattice_point origin res m v p :
  lpoint (oct_lattice origin res m v) p = @oct_point ROps origin res (addp v (scalep 2 p)).
Proof.
  destruct v as [[vx vy] vz], p as [[i j] k]. unfold lpoint, oct_lattice, oct_point, scalep, addp. cbn [lbase linc wx wy wz]. rsimp.
  rewrite !plus_IZR, !mult_IZR. f_equal; ring.
Qed.

Lemma oct_cell_as_cell origin res f m v p :
  @oct_cell ROps origin res (fv3 origin res f) (addp v (scalep 2 p)) =
  @mc_to_triangles ROps (cell_p (lpoint (oct_lattice origin res m v)) p) (cell_v (lval (oct_lattice origin res m v) f) p) 0.
Proof.
  unfold oct_cell. rsimp.
  assert (E : forall c, oct_corner (addp v (scalep 2 p)) c = addp v (scalep 2 (addp p (corner_off c)))).
  { intros c. unfold oct_corner. destruct v as [[vx vy] vz], p as [[i j] k], (corner_off c) as [[a b] d]. unfold scalep, addp. apply pt_ext; lia. }
  apply mc_to_triangles_ext; intros c.
  - unfold cell_p. now rewrite oct_lattice_point, E.
  - unfold cell_v, lval, fv3. now rewrite oct_lattice_point, E.
Qed.

Lemma lnx_oct_lattice origin res m v :
  Z.of_nat (lnx (oct_lattice origin res m v)) = pow2 m /\ Z.of_nat (lny (oct_lattice origin res m v)) = pow2 m /\
  Z.of_nat (lnz (oct_lattice origin res m v)) = pow2 m.
Proof. pose proof (pow2_pos m). unfold lnx, lny, lnz, oct_lattice. cbn [lsteps fst snd]. lia. Qed.

(* the exhaustive evaluation of the finest cells has the same triangles as the uniform walk over that lattice *)
Lemma in_oct_uniform origin res f m v t :
  In t (@oct_uniform ROps origin res (fv3 origin res f) m v) <-> In t (@marching_cubes ROps (oct_lattice origin res m v) f).
Proof.
  rewrite marching_cubes_is_meshR. unfold oct_uniform, meshR. rewrite !in_flat_map.
  destruct (lnx_oct_lattice origin res m v) as (Ex & Ey & Ez). split.
  - intros (u & Hu & Ht). apply oct_leaves_spec in Hu. destruct v as [[vx vy] vz], u as [[ux uy] uz].
    destruct Hu as (i & j & k & Hi & Hj & Hk & -> & -> & ->). exists (i, j, k). split.
    + apply in_cells. rewrite Ex, Ey, Ez. tauto.
    + rewrite <- (oct_cell_as_cell origin res f m (vx, vy, vz) (i, j, k)). exact Ht.
  - intros (p & Hp & Ht). apply in_cells in Hp. destruct p as [[i j] k]. rewrite Ex, Ey, Ez in Hp.
    exists (addp v (scalep 2 (i, j, k))). split.
    + apply oct_leaves_spec. destruct v as [[vx vy] vz]. cbn [scalep addp cell_of]. exists i, j, k. tauto.
    + rewrite (oct_cell_as_cell origin res f m v (i, j, k)). exact Ht.
Qed.

(* octree_same_triangles: for a 1-Lipschitz field the octree renderer (with its pruning) emits exactly the
   triangles of the uniform walk over the lattice of its finest cells (through C07: octree_eq_uniform) *)
Theorem octree_same_triangles origin res f : 0 <= res -> lip3 f -> forall m v t,
  In t (@octree ROps origin res (fv3 origin res f) m v) <-> In t (@marching_cubes ROps (oct_lattice origin res m v) f).
Proof. intros Hr Hl m v t. rewrite (octree_eq_uniform origin res Hr f Hl). apply in_oct_uniform. Qed.

(* hence every completeness statement transfers; the geometric one: *)
Theorem octree_complete_resolvable origin res f : 0 < res -> lip3 f -> forall m v (s n : RV3) (r : R),
  let L := oct_lattice origin res m v in
  len3 n = 1 -> diag L / 2 < r ->
  (forall p, dist3 p (offs s n (- r)) < r -> f p < 0) -> (forall p, dist3 p (offs s n r) < r -> 0 < f p) ->
  ball_in_sample_box L s (diag L) ->
  (forall q, in_lattice (lnx L) (lny L) (lnz L) q -> dist3 (lpoint L q) s <= diag L -> @eps ROps <= Rabs (lval L f q)) ->
  exists t w, In t (@octree ROps origin res (fv3 origin res f) m v) /\ In w (tri_vertices t) /\ dist3 w s <= diag L.
Proof.
  intros Hr Hl m v s n r L Hn Hd Hneg Hpos Hbox Hwin.
  assert (Ip : 0 < wx (linc L) /\ 0 < wy (linc L) /\ 0 < wz (linc L)) by (unfold L, oct_lattice; cbn [linc wx wy wz]; lra).
  destruct (complete_resolvable L f Ip s n r Hn Hd Hneg Hpos Hbox Hwin) as (t & w & Ht & Hw & Dw & _).
  exists t, w. split; [|split; assumption]. apply (octree_same_triangles origin res f (Rlt_le _ _ Hr) Hl). exact Ht.
Qed.
