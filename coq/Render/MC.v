(* Combinatorial model of marching cubes (render/march3.go): which triangles a cell emits,
   in terms of GLOBAL vertex identities (a crossing vertex = a lattice edge), over the tables
   regenerated from the source (Generated/MarchTables.v).

   cfg      : the 0..255 index built by mcToTriangles (bit i set iff v[i] < x)
   ledge e  : lattice edge (relative to the cell origin) that carries local edge e
   cell_tris: the triangle table row with the code's reversed winding t[2],t[1],t[0]
   bal l e  : (#directed edges e in l) - (#reversed e in l)

   All facts about the tables are decided by vm_compute over the 256 configurations and
   lifted by soundness lemmas that are ordinary proofs. *)
From Coq Require Import List ZArith NArith Lia Bool Permutation.
From Sdfx Require Import Generated.MarchTables.
Import ListNotations.
Open Scope Z_scope.

(* ------------------------------------------------------------------ vertices, directed edges *)

(* a lattice edge: base point (x,y,z) and axis 0/1/2 *)
Definition gv := (Z * Z * Z * Z)%type.
Definition dedge := (gv * gv)%type.
Definition tri := (gv * gv * gv)%type.

Definition gv_eqb (a b : gv) : bool :=
  let '(ax, ay, az, aa) := a in let '(bx, by_, bz, ba) := b in
  (ax =? bx) && (ay =? by_) && (az =? bz) && (aa =? ba).
Definition de_eqb (e f : dedge) : bool := gv_eqb (fst e) (fst f) && gv_eqb (snd e) (snd f).

Lemma gv_eqb_eq a b : gv_eqb a b = true <-> a = b.
Proof.
  destruct a as [[[ax ay] az] aa], b as [[[bx by_] bz] ba]; unfold gv_eqb.
  rewrite !andb_true_iff, !Z.eqb_eq. split; [intros [[[-> ->] ->] ->]; reflexivity | intros [= -> -> -> ->]; auto].
Qed.
Lemma gv_eqb_refl a : gv_eqb a a = true.
Proof. now apply gv_eqb_eq. Qed.
Lemma de_eqb_eq e f : de_eqb e f = true <-> e = f.
Proof.
  destruct e as [a b], f as [c d]; unfold de_eqb; cbn [fst snd].
  rewrite andb_true_iff, !gv_eqb_eq. split; [intros [-> ->]; reflexivity | intros [= -> ->]; auto].
Qed.
Lemma de_eqb_refl e : de_eqb e e = true.
Proof. now apply de_eqb_eq. Qed.
Lemma de_eqb_neq e f : de_eqb e f = false <-> e <> f.
Proof. rewrite <- de_eqb_eq. destruct (de_eqb e f); split; congruence. Qed.

Definition revE (e : dedge) : dedge := (snd e, fst e).
Lemma revE_invol e : revE (revE e) = e.
Proof. now destruct e. Qed.

Definition tri_edges (t : tri) : list dedge := let '(a, b, c) := t in [(a, b); (b, c); (c, a)].
Definition edges_of (ts : list tri) : list dedge := flat_map tri_edges ts.

(* ------------------------------------------------------------------ directed-edge balance *)

Fixpoint cnt (e : dedge) (l : list dedge) : Z :=
  match l with
  | [] => 0
  | f :: r => (if de_eqb e f then 1 else 0) + cnt e r
  end.
Definition bal (l : list dedge) (e : dedge) : Z := cnt e l - cnt (revE e) l.

Lemma cnt_app e l m : cnt e (l ++ m) = cnt e l + cnt e m.
Proof. induction l as [|f l IH]; cbn [cnt app]; [reflexivity | rewrite IH; ring]. Qed.
Lemma cnt_nonneg e l : 0 <= cnt e l.
Proof. induction l as [|f l IH]; cbn [cnt]; [lia | destruct (de_eqb e f); lia]. Qed.
Lemma cnt_notin e l : ~ In e l -> cnt e l = 0.
Proof.
  induction l as [|f l IH]; cbn [cnt In]; intros H; [reflexivity|].
  destruct (de_eqb e f) eqn:E; [apply de_eqb_eq in E; subst; tauto | rewrite IH; tauto].
Qed.
Lemma bal_app l m e : bal (l ++ m) e = bal l e + bal m e.
Proof. unfold bal. rewrite !cnt_app. ring. Qed.
Lemma bal_nil e : bal [] e = 0.
Proof. reflexivity. Qed.
Lemma bal_rev l e : bal l (revE e) = - bal l e.
Proof. unfold bal. rewrite revE_invol. ring. Qed.
Lemma bal_flat_map {A} (f : A -> list dedge) (l : list A) e :
  bal (flat_map f l) e = fold_right Z.add 0 (map (fun x => bal (f x) e) l).
Proof. induction l as [|x l IH]; cbn [flat_map map fold_right]; [reflexivity | rewrite bal_app, IH; reflexivity]. Qed.

(* image under a vertex map *)
Definition mapE (f : gv -> gv) (e : dedge) : dedge := (f (fst e), f (snd e)).
Lemma cnt_map_bij (f g : gv -> gv) (Hgf : forall v, g (f v) = v) (Hfg : forall v, f (g v) = v) e l :
  cnt e (map (mapE f) l) = cnt (mapE g e) l.
Proof.
  induction l as [|h l IH]; cbn [cnt map]; [reflexivity|]. rewrite IH. f_equal.
  destruct (de_eqb e (mapE f h)) eqn:E1, (de_eqb (mapE g e) h) eqn:E2; try reflexivity.
  - apply de_eqb_eq in E1. apply de_eqb_neq in E2. exfalso; apply E2. subst e. destruct h; unfold mapE; cbn. now rewrite !Hgf.
  - apply de_eqb_eq in E2. apply de_eqb_neq in E1. exfalso; apply E1. subst h. destruct e; unfold mapE; cbn. now rewrite !Hfg.
Qed.
Lemma bal_map_bij (f g : gv -> gv) (Hgf : forall v, g (f v) = v) (Hfg : forall v, f (g v) = v) e l :
  bal (map (mapE f) l) e = bal l (mapE g e).
Proof. unfold bal. rewrite !(cnt_map_bij f g Hgf Hfg). reflexivity. Qed.
Lemma cnt_map_rev e l : cnt e (map revE l) = cnt (revE e) l.
Proof.
  induction l as [|h l IH]; cbn [cnt map]; [reflexivity|]. rewrite IH. f_equal.
  destruct (de_eqb e (revE h)) eqn:E1, (de_eqb (revE e) h) eqn:E2; try reflexivity.
  - apply de_eqb_eq in E1. apply de_eqb_neq in E2. exfalso; apply E2. subst e. apply revE_invol.
  - apply de_eqb_eq in E2. apply de_eqb_neq in E1. exfalso; apply E1. subst h. now rewrite revE_invol.
Qed.
Lemma bal_map_rev l e : bal (map revE l) e = - bal l e.
Proof. unfold bal. rewrite !cnt_map_rev, revE_invol. ring. Qed.

(* decision procedure: two edge lists have the same balance function *)
Definition bal_eq_check (l m : list dedge) : bool :=
  forallb (fun e => bal l e =? bal m e) (l ++ m).

Lemma bal_eq_check_sound l m : bal_eq_check l m = true -> forall e, bal l e = bal m e.
Proof.
  unfold bal_eq_check. rewrite forallb_forall. intros H e.
  destruct (in_dec (fun a b => match de_eqb a b as x return de_eqb a b = x -> {a = b} + {a <> b} with
                               | true => fun E => left (proj1 (de_eqb_eq a b) E)
                               | false => fun E => right (proj1 (de_eqb_neq a b) E)
                               end eq_refl) e (l ++ m)) as [Hin|Hnin].
  - apply Z.eqb_eq. now apply H.
  - destruct (in_dec (fun a b => match de_eqb a b as x return de_eqb a b = x -> {a = b} + {a <> b} with
                               | true => fun E => left (proj1 (de_eqb_eq a b) E)
                               | false => fun E => right (proj1 (de_eqb_neq a b) E)
                               end eq_refl) (revE e) (l ++ m)) as [Hin'|Hnin'].
    + specialize (H _ Hin'). apply Z.eqb_eq in H. rewrite !bal_rev in H. lia.
    + unfold bal. assert (X : forall x, ~ In x (l ++ m) -> cnt x l = 0 /\ cnt x m = 0).
      { intros x Hx. split; apply cnt_notin; intro; apply Hx; apply in_or_app; tauto. }
      destruct (X _ Hnin) as [-> ->], (X _ Hnin') as [-> ->]. reflexivity.
Qed.

(* ------------------------------------------------------------------ the cell *)

(* corner numbering: the `corners` literal of marchingCubes / the offsets of processCube *)
Definition corner_off (c : N) : Z * Z * Z :=
  match c with
  | 0%N => (0, 0, 0) | 1%N => (1, 0, 0) | 2%N => (1, 1, 0) | 3%N => (0, 1, 0)
  | 4%N => (0, 0, 1) | 5%N => (1, 0, 1) | 6%N => (1, 1, 1) | _ => (0, 1, 1)
  end.
Definition corner_at (x y z : Z) : N :=
  match x, y, z with
  | 0, 0, 0 => 0%N | 1, 0, 0 => 1%N | 1, 1, 0 => 2%N | 0, 1, 0 => 3%N
  | 0, 0, 1 => 4%N | 1, 0, 1 => 5%N | 1, 1, 1 => 6%N | _, _, _ => 7%N
  end.

Definition pair_of (e : N) : N * N := nth (N.to_nat e) mcPairTable (0%N, 0%N).
Definition edge_mask (cfg : N) : N := nth (N.to_nat cfg) mcEdgeTable 0%N.
Definition tri_row (cfg : N) : list N := nth (N.to_nat cfg) mcTriangleTable [].

(* the lattice edge carrying local edge e (relative to the cell origin) *)
Definition ledge (e : N) : gv :=
  let '(a, b) := pair_of e in
  let '(ax, ay, az) := corner_off a in let '(bx, by_, bz) := corner_off b in
  (Z.min ax bx, Z.min ay by_, Z.min az bz, if ax =? bx then (if ay =? by_ then 2 else 1) else 0).

(* count := len(table)/3;  t[2],t[1],t[0] := points[table[3i]], points[table[3i+1]], points[table[3i+2]] *)
Fixpoint chunk3 (l : list N) : list (N * N * N) :=
  match l with
  | a :: b :: c :: r => (c, b, a) :: chunk3 r
  | _ => []
  end.
Definition local_tris (cfg : N) : list (N * N * N) := chunk3 (tri_row cfg).
Definition cell_tris (cfg : N) : list tri :=
  map (fun t : N * N * N => let '(a, b, c) := t in (ledge a, ledge b, ledge c)) (local_tris cfg).

Definition cfgs : list N := map N.of_nat (seq 0 256).
Definition ledges12 : list N := map N.of_nat (seq 0 12).
Lemma in_cfgs c : (c < 256)%N -> In c cfgs.
Proof.
  intros H. unfold cfgs. apply in_map_iff. exists (N.to_nat c). split; [apply N2Nat.id|].
  apply in_seq. lia.
Qed.
Lemma forallb_cfgs (f : N -> bool) : forallb f cfgs = true -> forall c, (c < 256)%N -> f c = true.
Proof. intros H c Hc. rewrite forallb_forall in H. apply H. now apply in_cfgs. Qed.
Lemma in_ledges12 e : (e < 12)%N -> In e ledges12.
Proof.
  intros H. unfold ledges12. apply in_map_iff. exists (N.to_nat e). split; [apply N2Nat.id|].
  apply in_seq. lia.
Qed.

(* ---- mcPairTable: every pair is an edge of the unit cube and the twelve lattice edges differ *)
Definition pair_is_edge (e : N) : bool :=
  let '(a, b) := pair_of e in
  let '(ax, ay, az) := corner_off a in let '(bx, by_, bz) := corner_off b in
  (a <? 8)%N && (b <? 8)%N && (Z.abs (ax - bx) + Z.abs (ay - by_) + Z.abs (az - bz) =? 1).
Fixpoint distinct_gv (l : list gv) : bool :=
  match l with
  | [] => true
  | x :: r => negb (existsb (gv_eqb x) r) && distinct_gv r
  end.
Definition pairs_check : bool :=
  (length mcPairTable =? 12)%nat && forallb pair_is_edge ledges12 && distinct_gv (map ledge ledges12).

(* ---- mcEdgeTable: mask = set of sign-changing edges *)
Definition crossing (cfg e : N) : bool :=
  let '(a, b) := pair_of e in xorb (N.testbit cfg a) (N.testbit cfg b).
Definition edge_row_check (cfg : N) : bool :=
  forallb (fun e => Bool.eqb (N.testbit (edge_mask cfg) e) (crossing cfg e)) ledges12
  && (edge_mask cfg <? 4096)%N.
Definition edge_table_check : bool := (length mcEdgeTable =? 256)%nat && forallb edge_row_check cfgs.

(* ---- mcTriangleTable: rows are whole triangles over crossing edges, three different edges each *)
Definition tri_row_check (cfg : N) : bool :=
  (N.of_nat (length (tri_row cfg)) mod 3 =? 0)%N &&
  forallb (fun e => (e <? 12)%N && N.testbit (edge_mask cfg) e) (tri_row cfg) &&
  forallb (fun t : N * N * N => let '(a, b, c) := t in negb (a =? b)%N && negb (b =? c)%N && negb (a =? c)%N) (local_tris cfg).
Definition tri_table_check : bool := (length mcTriangleTable =? 256)%nat && forallb tri_row_check cfgs.

(* every crossing edge is used by some triangle; configurations other than 0 and 255 emit a triangle *)
Definition used_check (cfg : N) : bool :=
  forallb (fun e => implb (crossing cfg e) (existsb (N.eqb e) (tri_row cfg))) ledges12 &&
  implb (negb (cfg =? 0)%N && negb (cfg =? 255)%N) (negb (length (local_tris cfg) =? 0)%nat).
Definition used_table_check : bool := forallb used_check cfgs.

(* ------------------------------------------------------------------ faces *)

Definition coord (d : Z) (v : gv) : Z :=
  let '(x, y, z, _) := v in if d =? 0 then x else if d =? 1 then y else z.
Definition axis_of (v : gv) : Z := let '(_, _, _, a) := v in a.
Definition unit (d : Z) : Z * Z * Z :=
  if d =? 0 then (1, 0, 0) else if d =? 1 then (0, 1, 0) else (0, 0, 1).
Definition shiftv (p : Z * Z * Z) (v : gv) : gv :=
  let '(px, py, pz) := p in let '(x, y, z, a) := v in (x + px, y + py, z + pz, a).
Definition negp (p : Z * Z * Z) : Z * Z * Z := let '(px, py, pz) := p in (- px, - py, - pz).
Definition addp (p q : Z * Z * Z) : Z * Z * Z :=
  let '(px, py, pz) := p in let '(qx, qy, qz) := q in (px + qx, py + qy, pz + qz).
Definition shiftE (p : Z * Z * Z) : dedge -> dedge := mapE (shiftv p).
Definition shiftT (p : Z * Z * Z) (t : tri) : tri := let '(a, b, c) := t in (shiftv p a, shiftv p b, shiftv p c).

Lemma gv_ext (x y z a x' y' z' a' : Z) : x = x' -> y = y' -> z = z' -> a = a' -> (x, y, z, a) = (x', y', z', a').
Proof. congruence. Qed.
Lemma shiftv_neg p v : shiftv (negp p) (shiftv p v) = v.
Proof. destruct p as [[px py] pz], v as [[[x y] z] a]; unfold shiftv, negp, addp. apply gv_ext; lia. Qed.
Lemma shiftv_neg' p v : shiftv p (shiftv (negp p) v) = v.
Proof. destruct p as [[px py] pz], v as [[[x y] z] a]; unfold shiftv, negp, addp. apply gv_ext; lia. Qed.
Lemma shiftv_add p q v : shiftv p (shiftv q v) = shiftv (addp p q) v.
Proof. destruct p as [[px py] pz], q as [[qx qy] qz], v as [[[x y] z] a]; unfold shiftv, negp, addp. apply gv_ext; lia. Qed.
Lemma bal_shift p l e : bal (map (shiftE p) l) e = bal l (shiftE (negp p) e).
Proof. apply bal_map_bij; [apply shiftv_neg | apply shiftv_neg']. Qed.

(* a vertex of the cell lies in the face  coord d = s  iff its base has that coordinate and
   its axis is not d *)
Definition in_face (d s : Z) (v : gv) : bool := (coord d v =? s) && negb (axis_of v =? d).
Definition face_verts (d s : Z) : list gv := filter (in_face d s) (map ledge ledges12).

(* corner of the cell with coordinate s along d and (u,v) along the two other axes (in
   increasing axis order) *)
Definition face_corner (d s u v : Z) : N :=
  if d =? 0 then corner_at s u v else if d =? 1 then corner_at u s v else corner_at u v s.
(* four-bit signature of the face  coord d = s : bit (u + 2v) = sign bit of that corner *)
Definition b2n (b : bool) : N := if b then 1%N else 0%N.
Definition facesig (d s : Z) (cfg : N) : N :=
  (b2n (N.testbit cfg (face_corner d s 0 0)) + 2 * b2n (N.testbit cfg (face_corner d s 1 0)) +
   4 * b2n (N.testbit cfg (face_corner d s 0 1)) + 8 * b2n (N.testbit cfg (face_corner d s 1 1)))%N.
(* the configuration that repeats signature sg on both faces normal to d *)
Definition ext_bit (d : Z) (sg : N) (c : N) : bool :=
  let '(x, y, z) := corner_off c in
  let '(u, v) := if d =? 0 then (y, z) else if d =? 1 then (x, z) else (x, y) in
  N.testbit sg (Z.to_N (u + 2 * v)).
Definition ext (d : Z) (sg : N) : N :=
  fold_right (fun c acc => (acc + (if ext_bit d sg c then N.shiftl 1 c else 0))%N) 0%N (map N.of_nat (seq 0 8)).

(* canonical pattern of a face signature: the unbalanced directed edges that configuration
   ext d sg leaves in its lower face d, with multiplicity *)
Definition ordered_pairs (l : list gv) : list dedge :=
  flat_map (fun a => flat_map (fun b => if gv_eqb a b then [] else [(a, b)]) l) l.
Definition restrict (vs : list gv) (l : list dedge) : list dedge :=
  flat_map (fun e => repeat e (Z.to_nat (bal l e))) (ordered_pairs vs).
Definition fpat (d : Z) (sg : N) : list dedge :=
  restrict (face_verts d 0) (edges_of (cell_tris (ext d sg))).

(* right-hand side of the cell identity: lower faces contribute their pattern, upper faces the
   reversed pattern moved one cell along d *)
Definition rhs (cfg : N) : list dedge :=
  flat_map (fun d => fpat d (facesig d 0 cfg) ++ map revE (map (shiftE (unit d)) (fpat d (facesig d 1 cfg))))
           [0; 1; 2].
Definition cell_check (cfg : N) : bool := bal_eq_check (edges_of (cell_tris cfg)) (rhs cfg).
Definition cell_table_check : bool := forallb cell_check cfgs.

Definition sigs : list N := map N.of_nat (seq 0 16).
